/-
C01 — every submitted task runs exactly once; a wait covers all of its work: property theorems
(statements only; invariants and lemmas in Proofs/C01/*.lean, models in Model/C01.lean).

Every theorem quantifies over EVERY schedule `sched : List Tid` of the atomic-access-level model, i.e. every
sequentially consistent interleaving of the accesses of any number of threads (where the model has a thread list).
-/
import TbbVerif.Proofs.C01.Proxy
import TbbVerif.Proofs.C01.FoldStep
import TbbVerif.Proofs.C01.VertexInv
import TbbVerif.Proofs.C01.Deque
import TbbVerif.Proofs.C01.StreamInv
import TbbVerif.Proofs.C01.MailboxStep
import TbbVerif.Generated.C01

namespace TbbVerif.C01

/-- The constants the models assume are the ones the headers define (regenerated on every run). -/
theorem generated_constants :
    Generated.C01.minTaskPoolSize = ({} : Deque.Cfg).minSize ∧ Generated.C01.poolGranule = ({} : Deque.Cfg).granule ∧
    Generated.C01.proxyPoolBit = 1 ∧ Generated.C01.proxyMailboxBit = 2 ∧ Generated.C01.proxyLocationMask = 3 ∧
    Generated.C01.emptyTaskPool = 0 ∧ Generated.C01.lockedTaskPoolIsAllOnes = 1 ∧
    Generated.C01.waitNodeRef = 1 ∧ Generated.C01.waitNodeWait = 1 := by decide

/-! ### task_proxy: the two-sided claim on `task_and_tag` -/

/-- **A mailed task is taken exactly once.** Whatever the interleaving of the pool side (whoever popped the proxy
from the sender's task pool) and the mailbox side (the recipient), at most one of the two `extract_task` calls
returns the task, and once both have finished exactly one did. -/
theorem proxy_exactly_once (sched : List Tid) (s : Proxy.St) (hs : s = Proxy.sys.run sched) :
    Proxy.taken s ≤ 1 ∧ (Proxy.allDone s = true → Proxy.taken s = 1) := by
  subst hs; exact Proxy.inv_taken (Proxy.inv_reachable sched)

/-- **The proxy is freed exactly once, by the loser, after the winner's last access.** At most one side frees the
proxy; once both sides have finished exactly one did; the side that frees is not the side that got the task; when a
side frees the proxy both sides have made their final access to it (no access after free: `bad` stays false). -/
theorem proxy_freed_once (sched : List Tid) (s : Proxy.St) (hs : s = Proxy.sys.run sched) :
    Proxy.freedN s ≤ 1 ∧ (Proxy.allDone s = true → Proxy.freedN s = 1) ∧
    (∀ x ∈ s.sides, x.freed = true → x.got = false) ∧
    (∀ x ∈ s.sides, x.freed = true → ∀ y ∈ s.sides, y.pc = .done) ∧ s.bad = false := by
  subst hs
  have h := Proxy.inv_reachable sched
  obtain ⟨a, b, c, d⟩ := Proxy.inv_freed h
  exact ⟨a, b, c, d, h.nobad⟩

/-- non-vacuity: the schedule "pool side loads, mailbox side loads, both CAS" ends with one taker and one freer -/
example : let s := Proxy.sys.run [0, 1, 1, 0]
    Proxy.allDone s = true ∧ Proxy.taken s = 1 ∧ Proxy.freedN s = 1 := by decide

/-! ### the task pool of an arena slot (work-stealing deque): one owner, any number of thieves

`Deque.sys cfg oprog tprogs`: the owner (thread 0) executes the program `oprog` of `spawn x` / `get_task(isolation)`
calls, thief `k` (thread `k+1`) executes `tprogs[k]`, a list of `steal_task(isolation)` calls; one step = one atomic
access to `head`, `tail` or the pool word.  Growth / compaction of the array (prepare_task_pool under
acquire_task_pool, commit_relocated_tasks), isolation (omitted tasks, hole punching, head/tail restoration), proxies
found empty by the owner and proxies skipped by thieves are all part of the model.
`returned s` = results of all completed get_task / steal_task calls + proxies freed by the owner;
`inflight s` = tasks already taken out of the pool by a call that has not returned yet;
`resident s` = the tasks in cells `[head, tail)`; `Quiescent s` = the pool word is not `locked` (no thread is inside
the critical section — thieves may be spinning on it) and the owner is between two operations. -/

/-- **Conservation.** In EVERY reachable state the multiset of spawned tasks equals the multiset of returned tasks
plus the tasks held by unfinished calls plus some remaining content `l` of the pool; in every quiescent state that
content is exactly what lies between `head` and `tail`: `spawned = returned + resident` as multisets.  No junk
(never-written) cell is ever read and the lock protocol's assertions never fail (`bad = false`). -/
theorem deque_conservation (cfg : Deque.Cfg) (oprog : List Deque.OOp) (tprogs : List (List Nat))
    (hcfg : 0 < cfg.granule ∧ 0 < cfg.minSize) (sched : List Tid)
    (s : Deque.St) (hs : s = (Deque.sys cfg oprog tprogs).run sched) :
    (∃ l, List.Perm s.spawned (Deque.returned s ++ Deque.inflight s ++ l)) ∧
    (Deque.Quiescent s → List.Perm s.spawned (Deque.returned s ++ Deque.resident s)) ∧ s.bad = false := by
  subst hs
  have h := Deque.inv_reachable cfg oprog tprogs hcfg sched
  refine ⟨⟨_, Deque.perm_of_inv _ h⟩, fun hq => ?_, h.nobad⟩
  have hp := Deque.perm_of_inv _ h
  obtain ⟨e1, e2⟩ := Deque.quiescent_facts _ h hq
  rw [e1, e2, List.append_nil] at hp
  exact hp

/-- **No task is handed out twice**: if the spawned tasks have distinct ids then, in every reachable state, the ids
of all tasks handed out so far (returned by a completed get_task / steal_task, freed as an empty proxy, or held by a
call that is about to return) are distinct. -/
theorem deque_no_dup (cfg : Deque.Cfg) (oprog : List Deque.OOp) (tprogs : List (List Nat))
    (hcfg : 0 < cfg.granule ∧ 0 < cfg.minSize) (sched : List Tid)
    (s : Deque.St) (hs : s = (Deque.sys cfg oprog tprogs).run sched)
    (hd : (s.spawned.map (·.id)).Nodup) : ((Deque.returned s ++ Deque.inflight s).map (·.id)).Nodup := by
  obtain ⟨⟨l, hp⟩, _, _⟩ := deque_conservation cfg oprog tprogs hcfg sched s hs
  have h1 : ((Deque.returned s ++ Deque.inflight s ++ l).map (·.id)).Nodup := (hp.map _).nodup_iff.mp hd
  rw [List.map_append] at h1
  exact (List.nodup_append.mp h1).1

/-- **No task is lost**: in every quiescent state every spawned task has been returned or is still between `head`
and `tail`; and nothing is ever returned that was not spawned. -/
theorem deque_no_loss (cfg : Deque.Cfg) (oprog : List Deque.OOp) (tprogs : List (List Nat))
    (hcfg : 0 < cfg.granule ∧ 0 < cfg.minSize) (sched : List Tid)
    (s : Deque.St) (hs : s = (Deque.sys cfg oprog tprogs).run sched) :
    (Deque.Quiescent s → ∀ x ∈ s.spawned, x ∈ Deque.returned s ∨ x ∈ Deque.resident s) ∧
    (∀ x ∈ Deque.returned s ++ Deque.inflight s, x ∈ s.spawned) := by
  obtain ⟨⟨l, hp⟩, hq, _⟩ := deque_conservation cfg oprog tprogs hcfg sched s hs
  refine ⟨fun q x hx => ?_, fun x hx => ?_⟩
  · have := (hq q).mem_iff.mp hx
    exact List.mem_append.mp this
  · exact hp.mem_iff.mpr (List.mem_append_left _ hx)

/-- **Arbitration on the last task** (and on any task): a task that was spawned exactly once is handed out at most
once in every reachable state — the owner (`--tail`, then `head`) and a thief (`++head`, then `tail`) never both take
it — and in every quiescent state it has either been handed out exactly once or is still in the pool. -/
theorem deque_last_task_arbitration (cfg : Deque.Cfg) (oprog : List Deque.OOp) (tprogs : List (List Nat))
    (hcfg : 0 < cfg.granule ∧ 0 < cfg.minSize) (sched : List Tid)
    (s : Deque.St) (hs : s = (Deque.sys cfg oprog tprogs).run sched) (x : Deque.Item) (hx : s.spawned.count x = 1) :
    (Deque.returned s ++ Deque.inflight s).count x ≤ 1 ∧
    (Deque.Quiescent s → (Deque.returned s).count x + (Deque.resident s).count x = 1) := by
  obtain ⟨⟨l, hp⟩, hq, _⟩ := deque_conservation cfg oprog tprogs hcfg sched s hs
  refine ⟨?_, fun q => ?_⟩
  · have := hp.count_eq x
    rw [List.count_append] at this
    omega
  · have := (hq q).count_eq x
    rw [List.count_append] at this
    omega

/-- **No slot between `head` and `tail` refers to a freed proxy** (nor to any task already handed out): if the spawned
tasks have distinct ids then in every quiescent state the ids of the proxies the owner found empty and freed in
`get_task_impl` — and of every other returned task — are disjoint from the ids of the tasks resident in `[head, tail)`.
In particular the cell of an empty proxy that was freed while `tasks_omitted` was set (the owner had skipped tasks of
another isolation above it, so `tail` is restored ABOVE that cell afterwards) has been overwritten with `nullptr`:
memory handed back to the small-object pool is never reachable from the deque. -/
theorem deque_freed_proxy_unreachable (cfg : Deque.Cfg) (oprog : List Deque.OOp) (tprogs : List (List Nat))
    (hcfg : 0 < cfg.granule ∧ 0 < cfg.minSize) (sched : List Tid)
    (s : Deque.St) (hs : s = (Deque.sys cfg oprog tprogs).run sched)
    (hd : (s.spawned.map (·.id)).Nodup) (hq : Deque.Quiescent s) :
    (∀ x ∈ s.own.freed, ∀ y ∈ Deque.resident s, y.id ≠ x.id) ∧
    (∀ x ∈ Deque.returned s, ∀ y ∈ Deque.resident s, y.id ≠ x.id) := by
  obtain ⟨_, hp, _⟩ := deque_conservation cfg oprog tprogs hcfg sched s hs
  have h1 : ((Deque.returned s ++ Deque.resident s).map (·.id)).Nodup := ((hp hq).map _).nodup_iff.mp hd
  rw [List.map_append] at h1
  have h2 := (List.nodup_append.mp h1).2.2
  have key : ∀ x ∈ Deque.returned s, ∀ y ∈ Deque.resident s, y.id ≠ x.id := by
    intro x hx y hy e
    exact h2 x.id (List.mem_map_of_mem hx) y.id (List.mem_map_of_mem hy) e.symm
  refine ⟨fun x hx => key x ?_, key⟩
  unfold Deque.returned
  exact List.mem_append_left _ (List.mem_append_right _ hx)

/-- non-vacuity — the stale-slot window: task 1 (isolation 1) was mailed and its proxy is found empty (`dead`), task 2
(isolation 2) lies above it; `get_task(isolation 1)` skips task 2 (`tasks_omitted`), frees the empty proxy, overwrites
its cell with `nullptr` and restores `head`/`tail`: afterwards the pool is published again with exactly
`[nullptr, task 2]` between `head = 0` and `tail = 2`. -/
example :
    let s := (Deque.sys { minSize := 4, granule := 2 }
        [.spawn { id := 1, iso := 1, dead := true }, .spawn { id := 2, iso := 2 }, .get 1] []).run
      ([0, 0, 0, 0, 0, 0, 0, 0, 0, 0, 0, 0, 0, 0, 0, 0, 0, 0, 0, 0, 0, 0, 0, 0, 0] : List Tid)
    s.own.ops = [] ∧ s.own.freed.map (·.id) = [1] ∧ s.own.out = [none] ∧ s.head = 0 ∧ s.tail = 2 ∧
      (s.pool.take 2) = [.hole, .item { id := 2, iso := 2 }] ∧ (Deque.resident s).map (·.id) = [2] ∧
      s.lw = .pub 1 ∧ s.bad = false := by
  decide

/-- non-vacuity — the last-task window itself (pool of 4 cells): the thief does `++head`, the owner does `--tail`, the
owner sees `head > T` and goes for the lock, the thief sees `H > tail`, rolls `head` back and returns nothing, the
owner re-reads `head` under the lock (`H0 == T`), resets the pool and takes the task: it is returned exactly once and
the final state is quiescent -/
example :
    let s := (Deque.sys { minSize := 4, granule := 2 } [.spawn { id := 7 }, .get 0] [[0]]).run
      ([0, 0, 0, 0, 0, 0, 1, 1, 1, 1, 0, 0, 0, 1, 1, 1, 0, 0, 0, 0, 0, 0] : List Tid)
    s.lw = .empty ∧ s.own.pc = .start ∧ (Deque.returned s).map (·.id) = [7] ∧ Deque.resident s = [] ∧
      (s.ths.map (·.out)) = [[none]] ∧ s.bad = false := by
  decide

/-! ### algorithm join tree: `fold_tree` -/

/-- **The wait node of a parallel algorithm is released exactly once, and only after the last leaf arrived.**
For every well-formed finite join tree (`Fold.Tree.wf`: any shape, any fan-out) and every interleaving of the leaves'
`fold_tree` calls: `m_wait.release()` is executed at most once; it is executed only after every leaf task has
performed its first decrement; when all folders have finished it has been executed exactly once, the wait counter is
`1 - released` (so 0), waiters were notified exactly as often; and no folder ever touches a deleted tree node or
decrements a count that is not positive (`bad = false`). -/
theorem fold_tree_releases_once (t : Fold.Tree) (hwf : t.wf = true) (sched : List Tid)
    (s : Fold.St) (hs : s = (Fold.sys t).run sched) :
    s.released ≤ 1 ∧
    (s.released = 1 → ∀ i, i < t.leaf.length → s.started.getD i false = true) ∧
    ((∀ p ∈ s.pcs, p = Fold.Pc.done) → s.released = 1) ∧
    s.wait = 1 - (s.released : Int) ∧ s.notified = s.released ∧ s.bad = false := by
  subst hs
  have hw := Fold.wf_of t hwf
  have h := Fold.inv_reachable t hw sched
  exact ⟨Fold.released_le_one hw h, Fold.released_all_started hw h (Fold.lengths_reachable t sched).1,
    Fold.all_done_released hw h, h.wt.1, h.wt.2, h.nobad⟩

/-- non-vacuity: a two-level tree (root task split once, right half split again), one interleaving -/
example : let t : Fold.Tree := ⟨[0, 0, 1], [1, 2, 2]⟩
    t.wf = true ∧ ((Fold.sys t).run [2, 0, 1, 1, 1, 1]).released = 1 ∧ ((Fold.sys t).run [2, 0, 1]).released = 0 := by decide

/-! ### wait_context + per-thread reference_vertex -/

/-- **Forwarding of the 0 ↔ 1 transitions.** In every reachable state the root counter equals the number of
non-zero vertices whose 0 → 1 transition has already been forwarded, plus the number of threads that took a vertex
to 0 and have not yet forwarded that; a vertex whose increment is not yet forwarded holds exactly 1; no counter ever
goes below zero.  (So at quiescence the root counts the non-zero vertices, and in between it under-counts only by
reservations of threads that are themselves still holding a unit — see `wait_zero_quiescent`.) -/
theorem vertex_forwarding (progs : List (List Vertex.Op)) (sched : List Tid)
    (s : Vertex.St) (hs : s = (Vertex.sys progs).run sched) :
    s.root = Vertex.nLive s.vs s.ths + Vertex.nRel s.ths ∧
    (∀ u, u < s.ths.length → Vertex.pcOf s.ths u = .resRoot → s.vs.getD u 0 = 1) ∧
    (∀ u, u < s.ths.length → s.vs.getD u 0 = s.pending.count u + Vertex.heldCnt s.ths u +
        (if Vertex.pcOf s.ths u = .resRoot then 1 else 0)) ∧
    s.bad = false := by
  subst hs
  have h := Vertex.inv_reachable progs sched
  exact ⟨h.J1, h.J3, h.J2, h.nobad⟩

/-- **A wait covers all the work of its group.** Under the reserve discipline built into the model (a thread
creates a unit of the group only while it executes a unit of the group, or it is the main thread `0`), in every
reachable state: if the root counter is 0 and the main thread is not in the middle of a reservation (in particular:
whenever the main thread's `wait` reads 0), then every vertex is 0, no unit is published or being executed and no
thread is in the middle of a reserve or release. -/
theorem wait_zero_quiescent (progs : List (List Vertex.Op)) (sched : List Tid)
    (s : Vertex.St) (hs : s = (Vertex.sys progs).run sched) (hroot : s.root = 0)
    (hmain : ∀ t0, s.ths[0]? = some t0 → t0.pc ≠ .resRoot) : Vertex.Quiescent s := by
  subst hs
  exact Vertex.zero_quiescent _ (Vertex.inv_reachable progs sched) hroot hmain

/-- non-vacuity: main runs two units and waits, a worker takes and finishes one of them; under this schedule the
root reads 0 only at the very end -/
example : let s := (Vertex.sys [[.run, .run, .wait], [.take 0, .finish]]).run [0, 0, 0, 1, 1, 1, 0, 0, 0, 0, 0]
    s.root = 0 ∧ (s.ths.map (·.waits)) = [1, 0] ∧ s.notified = 1 := by decide

/-! ### mail_outbox: the MPSC list of mailed proxies (any number of pushers, one consumer)

`Mailbox.sys cprog pprogs`: the consumer (thread 0, the recipient) executes `cprog`, a list of `internal_pop(isolation)`
calls; pusher `k` (thread `k+1`) executes `pprogs[k]`, a list of `push` calls (the isolation tag of each pushed proxy);
one step = one atomic access to `my_first`, `my_last` or a `next_in_mailbox` field.  `s.order` = the proxies in the
order of their exchange on `my_last` (the linearisation order of the pushes); `Mailbox.popped s` = the proxies returned
by the consumer, oldest first; `Mailbox.queue s` = `order` minus `popped`, the logical content. -/

/-- **Nothing is lost, nothing is popped twice**: in every reachable state the pushed proxies are exactly the popped
ones plus the logical queue (as multisets), the popped ones are pairwise distinct, and so are the queued ones —
including the one-item pop racing with a push (CAS on `my_last`, wait for the late link). -/
theorem mailbox_no_loss_no_dup (cprog : List Nat) (pprogs : List (List Nat)) (sched : List Tid)
    (s : Mailbox.St) (hs : s = (Mailbox.sys cprog pprogs).run sched) :
    List.Perm s.order (Mailbox.popped s ++ Mailbox.queue s) ∧ (Mailbox.popped s).Nodup ∧ (Mailbox.queue s).Nodup := by
  subst hs
  exact Mailbox.perm_of_inv _ (Mailbox.inv_reachable cprog pprogs sched)

/-- **First in, first out (per isolation).** Whenever the consumer has committed to a proxy `curr` (from the moment it
has found a proxy its isolation accepts until the pop returns it), every proxy that precedes `curr` in the logical
queue is one the requested isolation does not accept, and `curr` is accepted: a pop never overtakes an eligible earlier
proxy.  In particular a pop without isolation (`curIso = 0`) takes the head of the logical queue, so for such pops the
popped sequence is a prefix of the push order. -/
theorem mailbox_fifo (cprog : List Nat) (pprogs : List (List Nat)) (sched : List Tid)
    (s : Mailbox.St) (hs : s = (Mailbox.sys cprog pprogs).run sched)
    (hpc : s.cons.pc = .second ∨ s.cons.pc = .storeSecond ∨ s.cons.pc = .storeNull ∨ s.cons.pc = .cas ∨
           s.cons.pc = .spin ∨ s.cons.pc = .storeLate) :
    (∃ pre post, Mailbox.queue s = pre ++ s.cons.curr :: post ∧ (∀ q ∈ pre, Mailbox.Mismatch s q) ∧
        ¬ Mailbox.Mismatch s s.cons.curr) ∧
    (Mailbox.curIso s = 0 → ∃ post, Mailbox.queue s = s.cons.curr :: post) := by
  subst hs
  have h := Mailbox.fifo_of_inv _ (Mailbox.inv_reachable cprog pprogs sched) hpc
  refine ⟨h, fun h0 => ?_⟩
  obtain ⟨pre, post, hq, hm, _⟩ := h
  cases pre with
  | nil => exact ⟨post, hq⟩
  | cons q pre' => exact absurd h0 (hm q (by simp)).1

/-- non-vacuity: a pusher mails two proxies; the consumer's first pop races with the second push (it sees one item,
cuts the link, loses the CAS on `my_last`, waits for the late link) and both proxies are popped in push order -/
example :
    let s := (Mailbox.sys [0, 0] [[0, 0]]).run
      ([1, 1, 1, 0, 0, 1, 1, 0, 0, 0, 1, 0, 0, 0, 0, 0, 0, 0, 0] : List Tid)
    s.order = [0, 1] ∧ Mailbox.popped s = [0, 1] ∧ Mailbox.queue s = [] := by
  decide

/-! ### task_stream (enqueued / resumed / critical tasks): lanes + population bitmap -/

/-- **Conservation and the population invariant.** `n > 0` lanes, any number of threads executing any programs of
`push` / `pop` / `pop_specific` (lane selection as by `subsequent_lane_selector`), every interleaving of their
accesses to the lane mutexes and the population word: in every reachable state the multiset of pushed tasks equals
popped tasks + tasks held by an unfinished pop + the non-null entries of all lanes (nothing lost, nothing popped
twice — `pop_specific` nulls exactly the entry it returns); whenever a lane's mutex is free its population bit is set
iff its queue is non-empty; and no mutex is ever unlocked by a thread that does not hold it (`bad = false`). -/
theorem stream_conservation (n : Nat) (progs : List (List Stream.Op)) (hn : 0 < n) (sched : List Tid)
    (s : Stream.St) (hs : s = (Stream.sys n progs).run sched) :
    List.Perm s.pushed (Stream.poppedAll s ++ Stream.tRes s.ths ++ Stream.inLanes s) ∧
    (∀ i, i < s.n → Stream.laneFlag s i = false → (Stream.bit s i = true ↔ Stream.laneQ s i ≠ [])) ∧
    s.bad = false := by
  subst hs
  have h := Stream.inv_reachable n progs hn sched
  refine ⟨?_, h.L3, h.nobad⟩
  rw [List.perm_iff_count]
  intro x
  rw [List.count_append, List.count_append, Stream.poppedAll_eq, Stream.inLanes_eq]
  exact h.C x

/-- non-vacuity: two lanes; one thread pushes tasks 5 and 6 while another pops twice: both are popped, once each -/
example :
    let s := (Stream.sys 2 [[.push 5 0 0, .push 6 0 0], [.pop 0, .pop 0]]).run
      ([0, 0, 0, 0, 1, 1, 1, 1, 1, 1, 1, 0, 0, 0, 0, 1, 1, 1, 1, 1, 1, 1] : List Tid)
    s.pushed = [6, 5] ∧ s.bad = false ∧ Stream.poppedAll s = [6, 5] ∧ Stream.inLanes s = [] := by
  decide

end TbbVerif.C01
