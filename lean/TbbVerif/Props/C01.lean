/-
C01 — every submitted task runs exactly once; a wait covers all of its work: property theorems
(statements only; invariants and lemmas in Proofs/C01/*.lean, models in Model/C01.lean).

Every theorem quantifies over EVERY schedule `sched : List Tid` of the atomic-access-level model, i.e. every
sequentially consistent interleaving of the accesses of any number of threads (where the model has a thread list).
-/
import TbbVerif.Proofs.C01.Proxy
import TbbVerif.Proofs.C01.FoldStep
import TbbVerif.Proofs.C01.VertexInv
import TbbVerif.Proofs.C01.Deque
import TbbVerif.Proofs.C01.StreamInv
import TbbVerif.Proofs.C01.MailboxStep
import TbbVerif.Proofs.C01.DequeTso
import TbbVerif.Proofs.C01.DispNested
import TbbVerif.Proofs.C01.DispatchIface
import TbbVerif.Generated.C01

namespace TbbVerif.C01

/-- The constants the models assume are the ones the headers define (regenerated on every run). -/
theorem generated_constants :
    Generated.C01.minTaskPoolSize = ({} : Deque.Cfg).minSize ∧ Generated.C01.poolGranule = ({} : Deque.Cfg).granule ∧
    Generated.C01.proxyPoolBit = 1 ∧ Generated.C01.proxyMailboxBit = 2 ∧ Generated.C01.proxyLocationMask = 3 ∧
    Generated.C01.emptyTaskPool = 0 ∧ Generated.C01.lockedTaskPoolIsAllOnes = 1 ∧
    Generated.C01.waitNodeRef = 1 ∧ Generated.C01.waitNodeWait = 1 := by decide

/-! ### task_proxy: the two-sided claim on `task_and_tag` -/

/-- **A mailed task is taken exactly once.** Whatever the interleaving of the pool side (whoever popped the proxy
from the sender's task pool) and the mailbox side (the recipient), at most one of the two `extract_task` calls
returns the task, and once both have finished exactly one did. -/
theorem proxy_exactly_once (sched : List Tid) (s : Proxy.St) (hs : s = Proxy.sys.run sched) :
    Proxy.taken s ≤ 1 ∧ (Proxy.allDone s = true → Proxy.taken s = 1) := by
  subst hs; exact Proxy.inv_taken (Proxy.inv_reachable sched)

/-- **The proxy is freed exactly once, by the loser, after the winner's last access.** At most one side frees the
proxy; once both sides have finished exactly one did; the side that frees is not the side that got the task; when a
side frees the proxy both sides have made their final access to it (no access after free: `bad` stays false). -/
theorem proxy_freed_once (sched : List Tid) (s : Proxy.St) (hs : s = Proxy.sys.run sched) :
    Proxy.freedN s ≤ 1 ∧ (Proxy.allDone s = true → Proxy.freedN s = 1) ∧
    (∀ x ∈ s.sides, x.freed = true → x.got = false) ∧
    (∀ x ∈ s.sides, x.freed = true → ∀ y ∈ s.sides, y.pc = .done) ∧ s.bad = false := by
  subst hs
  have h := Proxy.inv_reachable sched
  obtain ⟨a, b, c, d⟩ := Proxy.inv_freed h
  exact ⟨a, b, c, d, h.nobad⟩

/-- non-vacuity: the schedule "pool side loads, mailbox side loads, both CAS" ends with one taker and one freer -/
example : let s := Proxy.sys.run [0, 1, 1, 0]
    Proxy.allDone s = true ∧ Proxy.taken s = 1 ∧ Proxy.freedN s = 1 := by decide

/-! ### the task pool of an arena slot (work-stealing deque): one owner, any number of thieves

`Deque.sys cfg oprog tprogs`: the owner (thread 0) executes the program `oprog` of `spawn x` / `get_task(isolation)`
calls, thief `k` (thread `k+1`) executes `tprogs[k]`, a list of `steal_task(isolation)` calls; one step = one atomic
access to `head`, `tail` or the pool word.  Growth / compaction of the array (prepare_task_pool under
acquire_task_pool, commit_relocated_tasks), isolation (omitted tasks, hole punching, head/tail restoration), proxies
found empty by the owner and proxies skipped by thieves are all part of the model.
`returned s` = results of all completed get_task / steal_task calls + proxies freed by the owner;
`inflight s` = tasks already taken out of the pool by a call that has not returned yet;
`resident s` = the tasks in cells `[head, tail)`; `Quiescent s` = the pool word is not `locked` (no thread is inside
the critical section — thieves may be spinning on it) and the owner is between two operations. -/

/-- **Conservation.** In EVERY reachable state the multiset of spawned tasks equals the multiset of returned tasks
plus the tasks held by unfinished calls plus some remaining content `l` of the pool; in every quiescent state that
content is exactly what lies between `head` and `tail`: `spawned = returned + resident` as multisets.  No junk
(never-written) cell is ever read and the lock protocol's assertions never fail (`bad = false`). -/
theorem deque_conservation (cfg : Deque.Cfg) (oprog : List Deque.OOp) (tprogs : List (List Nat))
    (hcfg : 0 < cfg.granule ∧ 0 < cfg.minSize) (sched : List Tid)
    (s : Deque.St) (hs : s = (Deque.sys cfg oprog tprogs).run sched) :
    (∃ l, List.Perm s.spawned (Deque.returned s ++ Deque.inflight s ++ l)) ∧
    (Deque.Quiescent s → List.Perm s.spawned (Deque.returned s ++ Deque.resident s)) ∧ s.bad = false := by
  subst hs
  have h := Deque.inv_reachable cfg oprog tprogs hcfg sched
  refine ⟨⟨_, Deque.perm_of_inv _ h⟩, fun hq => ?_, h.nobad⟩
  have hp := Deque.perm_of_inv _ h
  obtain ⟨e1, e2⟩ := Deque.quiescent_facts _ h hq
  rw [e1, e2, List.append_nil] at hp
  exact hp

/-- **No task is handed out twice**: if the spawned tasks have distinct ids then, in every reachable state, the ids
of all tasks handed out so far (returned by a completed get_task / steal_task, freed as an empty proxy, or held by a
call that is about to return) are distinct. -/
theorem deque_no_dup (cfg : Deque.Cfg) (oprog : List Deque.OOp) (tprogs : List (List Nat))
    (hcfg : 0 < cfg.granule ∧ 0 < cfg.minSize) (sched : List Tid)
    (s : Deque.St) (hs : s = (Deque.sys cfg oprog tprogs).run sched)
    (hd : (s.spawned.map (·.id)).Nodup) : ((Deque.returned s ++ Deque.inflight s).map (·.id)).Nodup := by
  obtain ⟨⟨l, hp⟩, _, _⟩ := deque_conservation cfg oprog tprogs hcfg sched s hs
  have h1 : ((Deque.returned s ++ Deque.inflight s ++ l).map (·.id)).Nodup := (hp.map _).nodup_iff.mp hd
  rw [List.map_append] at h1
  exact (List.nodup_append.mp h1).1

/-- **No task is lost**: in every quiescent state every spawned task has been returned or is still between `head`
and `tail`; and nothing is ever returned that was not spawned. -/
theorem deque_no_loss (cfg : Deque.Cfg) (oprog : List Deque.OOp) (tprogs : List (List Nat))
    (hcfg : 0 < cfg.granule ∧ 0 < cfg.minSize) (sched : List Tid)
    (s : Deque.St) (hs : s = (Deque.sys cfg oprog tprogs).run sched) :
    (Deque.Quiescent s → ∀ x ∈ s.spawned, x ∈ Deque.returned s ∨ x ∈ Deque.resident s) ∧
    (∀ x ∈ Deque.returned s ++ Deque.inflight s, x ∈ s.spawned) := by
  obtain ⟨⟨l, hp⟩, hq, _⟩ := deque_conservation cfg oprog tprogs hcfg sched s hs
  refine ⟨fun q x hx => ?_, fun x hx => ?_⟩
  · have := (hq q).mem_iff.mp hx
    exact List.mem_append.mp this
  · exact hp.mem_iff.mpr (List.mem_append_left _ hx)

/-- **Arbitration on the last task** (and on any task): a task that was spawned exactly once is handed out at most
once in every reachable state — the owner (`--tail`, then `head`) and a thief (`++head`, then `tail`) never both take
it — and in every quiescent state it has either been handed out exactly once or is still in the pool. -/
theorem deque_last_task_arbitration (cfg : Deque.Cfg) (oprog : List Deque.OOp) (tprogs : List (List Nat))
    (hcfg : 0 < cfg.granule ∧ 0 < cfg.minSize) (sched : List Tid)
    (s : Deque.St) (hs : s = (Deque.sys cfg oprog tprogs).run sched) (x : Deque.Item) (hx : s.spawned.count x = 1) :
    (Deque.returned s ++ Deque.inflight s).count x ≤ 1 ∧
    (Deque.Quiescent s → (Deque.returned s).count x + (Deque.resident s).count x = 1) := by
  obtain ⟨⟨l, hp⟩, hq, _⟩ := deque_conservation cfg oprog tprogs hcfg sched s hs
  refine ⟨?_, fun q => ?_⟩
  · have := hp.count_eq x
    rw [List.count_append] at this
    omega
  · have := (hq q).count_eq x
    rw [List.count_append] at this
    omega

/-- **No slot between `head` and `tail` refers to a freed proxy** (nor to any task already handed out): if the spawned
tasks have distinct ids then in every quiescent state the ids of the proxies the owner found empty and freed in
`get_task_impl` — and of every other returned task — are disjoint from the ids of the tasks resident in `[head, tail)`.
In particular the cell of an empty proxy that was freed while `tasks_omitted` was set (the owner had skipped tasks of
another isolation above it, so `tail` is restored ABOVE that cell afterwards) has been overwritten with `nullptr`:
memory handed back to the small-object pool is never reachable from the deque. -/
theorem deque_freed_proxy_unreachable (cfg : Deque.Cfg) (oprog : List Deque.OOp) (tprogs : List (List Nat))
    (hcfg : 0 < cfg.granule ∧ 0 < cfg.minSize) (sched : List Tid)
    (s : Deque.St) (hs : s = (Deque.sys cfg oprog tprogs).run sched)
    (hd : (s.spawned.map (·.id)).Nodup) (hq : Deque.Quiescent s) :
    (∀ x ∈ s.own.freed, ∀ y ∈ Deque.resident s, y.id ≠ x.id) ∧
    (∀ x ∈ Deque.returned s, ∀ y ∈ Deque.resident s, y.id ≠ x.id) := by
  obtain ⟨_, hp, _⟩ := deque_conservation cfg oprog tprogs hcfg sched s hs
  have h1 : ((Deque.returned s ++ Deque.resident s).map (·.id)).Nodup := ((hp hq).map _).nodup_iff.mp hd
  rw [List.map_append] at h1
  have h2 := (List.nodup_append.mp h1).2.2
  have key : ∀ x ∈ Deque.returned s, ∀ y ∈ Deque.resident s, y.id ≠ x.id := by
    intro x hx y hy e
    exact h2 x.id (List.mem_map_of_mem hx) y.id (List.mem_map_of_mem hy) e.symm
  refine ⟨fun x hx => key x ?_, key⟩
  unfold Deque.returned
  exact List.mem_append_left _ (List.mem_append_right _ hx)

/-- non-vacuity — the stale-slot window: task 1 (isolation 1) was mailed and its proxy is found empty (`dead`), task 2
(isolation 2) lies above it; `get_task(isolation 1)` skips task 2 (`tasks_omitted`), frees the empty proxy, overwrites
its cell with `nullptr` and restores `head`/`tail`: afterwards the pool is published again with exactly
`[nullptr, task 2]` between `head = 0` and `tail = 2`. -/
example :
    let s := (Deque.sys { minSize := 4, granule := 2 }
        [.spawn { id := 1, iso := 1, dead := true }, .spawn { id := 2, iso := 2 }, .get 1] []).run
      ([0, 0, 0, 0, 0, 0, 0, 0, 0, 0, 0, 0, 0, 0, 0, 0, 0, 0, 0, 0, 0, 0, 0, 0, 0] : List Tid)
    s.own.ops = [] ∧ s.own.freed.map (·.id) = [1] ∧ s.own.out = [none] ∧ s.head = 0 ∧ s.tail = 2 ∧
      (s.pool.take 2) = [.hole, .item { id := 2, iso := 2 }] ∧ (Deque.resident s).map (·.id) = [2] ∧
      s.lw = .pub 1 ∧ s.bad = false := by
  decide

/-- non-vacuity — the last-task window itself (pool of 4 cells): the thief does `++head`, the owner does `--tail`, the
owner sees `head > T` and goes for the lock, the thief sees `H > tail`, rolls `head` back and returns nothing, the
owner re-reads `head` under the lock (`H0 == T`), resets the pool and takes the task: it is returned exactly once and
the final state is quiescent -/
example :
    let s := (Deque.sys { minSize := 4, granule := 2 } [.spawn { id := 7 }, .get 0] [[0]]).run
      ([0, 0, 0, 0, 0, 0, 1, 1, 1, 1, 0, 0, 0, 1, 1, 1, 0, 0, 0, 0, 0, 0] : List Tid)
    s.lw = .empty ∧ s.own.pc = .start ∧ (Deque.returned s).map (·.id) = [7] ∧ Deque.resident s = [] ∧
      (s.ths.map (·.out)) = [[none]] ∧ s.bad = false := by
  decide

/-! ### algorithm join tree: `fold_tree` -/

/-- **The wait node of a parallel algorithm is released exactly once, and only after the last leaf arrived.**
For every well-formed finite join tree (`Fold.Tree.wf`: any shape, any fan-out) and every interleaving of the leaves'
`fold_tree` calls: `m_wait.release()` is executed at most once; it is executed only after every leaf task has
performed its first decrement; when all folders have finished it has been executed exactly once, the wait counter is
`1 - released` (so 0), waiters were notified exactly as often; and no folder ever touches a deleted tree node or
decrements a count that is not positive (`bad = false`). -/
theorem fold_tree_releases_once (t : Fold.Tree) (hwf : t.wf = true) (sched : List Tid)
    (s : Fold.St) (hs : s = (Fold.sys t).run sched) :
    s.released ≤ 1 ∧
    (s.released = 1 → ∀ i, i < t.leaf.length → s.started.getD i false = true) ∧
    ((∀ p ∈ s.pcs, p = Fold.Pc.done) → s.released = 1) ∧
    s.wait = 1 - (s.released : Int) ∧ s.notified = s.released ∧ s.bad = false := by
  subst hs
  have hw := Fold.wf_of t hwf
  have h := Fold.inv_reachable t hw sched
  exact ⟨Fold.released_le_one hw h, Fold.released_all_started hw h (Fold.lengths_reachable t sched).1,
    Fold.all_done_released hw h, h.wt.1, h.wt.2, h.nobad⟩

/-- non-vacuity: a two-level tree (root task split once, right half split again), one interleaving -/
example : let t : Fold.Tree := ⟨[0, 0, 1], [1, 2, 2]⟩
    t.wf = true ∧ ((Fold.sys t).run [2, 0, 1, 1, 1, 1]).released = 1 ∧ ((Fold.sys t).run [2, 0, 1]).released = 0 := by decide

/-! ### wait_context + per-thread reference_vertex -/

/-- **Forwarding of the 0 ↔ 1 transitions.** In every reachable state the root counter equals the number of
non-zero vertices whose 0 → 1 transition has already been forwarded, plus the number of threads that took a vertex
to 0 and have not yet forwarded that; a vertex whose increment is not yet forwarded holds exactly 1; no counter ever
goes below zero.  (So at quiescence the root counts the non-zero vertices, and in between it under-counts only by
reservations of threads that are themselves still holding a unit — see `wait_zero_quiescent`.) -/
theorem vertex_forwarding (progs : List (List Vertex.Op)) (sched : List Tid)
    (s : Vertex.St) (hs : s = (Vertex.sys progs).run sched) :
    s.root = Vertex.nLive s.vs s.ths + Vertex.nRel s.ths ∧
    (∀ u, u < s.ths.length → Vertex.pcOf s.ths u = .resRoot → s.vs.getD u 0 = 1) ∧
    (∀ u, u < s.ths.length → s.vs.getD u 0 = s.pending.count u + Vertex.heldCnt s.ths u +
        (if Vertex.pcOf s.ths u = .resRoot then 1 else 0)) ∧
    s.bad = false := by
  subst hs
  have h := Vertex.inv_reachable progs sched
  exact ⟨h.J1, h.J3, h.J2, h.nobad⟩

/-- **A wait covers all the work of its group.** Under the reserve discipline built into the model (a thread
creates a unit of the group only while it executes a unit of the group, or it is the main thread `0`), in every
reachable state: if the root counter is 0 and the main thread is not in the middle of a reservation (in particular:
whenever the main thread's `wait` reads 0), then every vertex is 0, no unit is published or being executed and no
thread is in the middle of a reserve or release. -/
theorem wait_zero_quiescent (progs : List (List Vertex.Op)) (sched : List Tid)
    (s : Vertex.St) (hs : s = (Vertex.sys progs).run sched) (hroot : s.root = 0)
    (hmain : ∀ t0, s.ths[0]? = some t0 → t0.pc ≠ .resRoot) : Vertex.Quiescent s := by
  subst hs
  exact Vertex.zero_quiescent _ (Vertex.inv_reachable progs sched) hroot hmain

/-- non-vacuity: main runs two units and waits, a worker takes and finishes one of them; under this schedule the
root reads 0 only at the very end -/
example : let s := (Vertex.sys [[.run, .run, .wait], [.take 0, .finish]]).run [0, 0, 0, 1, 1, 1, 0, 0, 0, 0, 0]
    s.root = 0 ∧ (s.ths.map (·.waits)) = [1, 0] ∧ s.notified = 1 := by decide

/-! ### mail_outbox: the MPSC list of mailed proxies (any number of pushers, one consumer)

`Mailbox.sys cprog pprogs`: the consumer (thread 0, the recipient) executes `cprog`, a list of `internal_pop(isolation)`
calls; pusher `k` (thread `k+1`) executes `pprogs[k]`, a list of `push` calls (the isolation tag of each pushed proxy);
one step = one atomic access to `my_first`, `my_last` or a `next_in_mailbox` field.  `s.order` = the proxies in the
order of their exchange on `my_last` (the linearisation order of the pushes); `Mailbox.popped s` = the proxies returned
by the consumer, oldest first; `Mailbox.queue s` = `order` minus `popped`, the logical content. -/

/-- **Nothing is lost, nothing is popped twice**: in every reachable state the pushed proxies are exactly the popped
ones plus the logical queue (as multisets), the popped ones are pairwise distinct, and so are the queued ones —
including the one-item pop racing with a push (CAS on `my_last`, wait for the late link). -/
theorem mailbox_no_loss_no_dup (cprog : List Nat) (pprogs : List (List Nat)) (sched : List Tid)
    (s : Mailbox.St) (hs : s = (Mailbox.sys cprog pprogs).run sched) :
    List.Perm s.order (Mailbox.popped s ++ Mailbox.queue s) ∧ (Mailbox.popped s).Nodup ∧ (Mailbox.queue s).Nodup := by
  subst hs
  exact Mailbox.perm_of_inv _ (Mailbox.inv_reachable cprog pprogs sched)

/-- **First in, first out (per isolation).** Whenever the consumer has committed to a proxy `curr` (from the moment it
has found a proxy its isolation accepts until the pop returns it), every proxy that precedes `curr` in the logical
queue is one the requested isolation does not accept, and `curr` is accepted: a pop never overtakes an eligible earlier
proxy.  In particular a pop without isolation (`curIso = 0`) takes the head of the logical queue, so for such pops the
popped sequence is a prefix of the push order. -/
theorem mailbox_fifo (cprog : List Nat) (pprogs : List (List Nat)) (sched : List Tid)
    (s : Mailbox.St) (hs : s = (Mailbox.sys cprog pprogs).run sched)
    (hpc : s.cons.pc = .second ∨ s.cons.pc = .storeSecond ∨ s.cons.pc = .storeNull ∨ s.cons.pc = .cas ∨
           s.cons.pc = .spin ∨ s.cons.pc = .storeLate) :
    (∃ pre post, Mailbox.queue s = pre ++ s.cons.curr :: post ∧ (∀ q ∈ pre, Mailbox.Mismatch s q) ∧
        ¬ Mailbox.Mismatch s s.cons.curr) ∧
    (Mailbox.curIso s = 0 → ∃ post, Mailbox.queue s = s.cons.curr :: post) := by
  subst hs
  have h := Mailbox.fifo_of_inv _ (Mailbox.inv_reachable cprog pprogs sched) hpc
  refine ⟨h, fun h0 => ?_⟩
  obtain ⟨pre, post, hq, hm, _⟩ := h
  cases pre with
  | nil => exact ⟨post, hq⟩
  | cons q pre' => exact absurd h0 (hm q (by simp)).1

/-- non-vacuity: a pusher mails two proxies; the consumer's first pop races with the second push (it sees one item,
cuts the link, loses the CAS on `my_last`, waits for the late link) and both proxies are popped in push order -/
example :
    let s := (Mailbox.sys [0, 0] [[0, 0]]).run
      ([1, 1, 1, 0, 0, 1, 1, 0, 0, 0, 1, 0, 0, 0, 0, 0, 0, 0, 0] : List Tid)
    s.order = [0, 1] ∧ Mailbox.popped s = [0, 1] ∧ Mailbox.queue s = [] := by
  decide

/-! ### task_stream (enqueued / resumed / critical tasks): lanes + population bitmap -/

/-- **Conservation and the population invariant.** `n > 0` lanes, any number of threads executing any programs of
`push` / `pop` / `pop_specific` (lane selection as by `subsequent_lane_selector`), every interleaving of their
accesses to the lane mutexes and the population word: in every reachable state the multiset of pushed tasks equals
popped tasks + tasks held by an unfinished pop + the non-null entries of all lanes (nothing lost, nothing popped
twice — `pop_specific` nulls exactly the entry it returns); whenever a lane's mutex is free its population bit is set
iff its queue is non-empty; and no mutex is ever unlocked by a thread that does not hold it (`bad = false`). -/
theorem stream_conservation (n : Nat) (progs : List (List Stream.Op)) (hn : 0 < n) (sched : List Tid)
    (s : Stream.St) (hs : s = (Stream.sys n progs).run sched) :
    List.Perm s.pushed (Stream.poppedAll s ++ Stream.tRes s.ths ++ Stream.inLanes s) ∧
    (∀ i, i < s.n → Stream.laneFlag s i = false → (Stream.bit s i = true ↔ Stream.laneQ s i ≠ [])) ∧
    s.bad = false := by
  subst hs
  have h := Stream.inv_reachable n progs hn sched
  refine ⟨?_, h.L3, h.nobad⟩
  rw [List.perm_iff_count]
  intro x
  rw [List.count_append, List.count_append, Stream.poppedAll_eq, Stream.inLanes_eq]
  exact h.C x

/-- non-vacuity: two lanes; one thread pushes tasks 5 and 6 while another pops twice: both are popped, once each -/
example :
    let s := (Stream.sys 2 [[.push 5 0 0, .push 6 0 0], [.pop 0, .pop 0]]).run
      ([0, 0, 0, 0, 1, 1, 1, 1, 1, 1, 1, 0, 0, 0, 0, 1, 1, 1, 1, 1, 1, 1] : List Tid)
    s.pushed = [6, 5] ∧ s.bad = false ∧ Stream.poppedAll s = [6, 5] ∧ Stream.inLanes s = [] := by
  decide

/-! ### the deque's last-task arbitration under x86-TSO store buffers (1 owner × 1 thief, one task)

`DequeTso.sys o` (Model/C01Tso.lean): one `get_task` of the owner against one `steal_task` of a thief on a published pool
holding exactly one task, every thread with a FIFO store buffer; schedule actions 0/1 = owner/thief instruction, 2/3 =
flush the oldest buffered store of the owner/thief.  `o : Orders` says whether `--tail` / `++head` are seq_cst
read-modify-writes (x86: `lock`-prefixed, they drain the buffer) and whether a seq_cst fence follows them. -/

/-- **The last task is taken exactly once under store buffers.**  If both Dekker sides have a store→load barrier
(`fencesOK`: the owner between its update of `tail` and its load of `head`, the thief between its update of `head` and
its load of `tail`), then for EVERY schedule including every flush order: owner and thief never both return the task,
and when both calls have returned one of them did.  (1 owner × 1 thief on the last-task window — not the N-thief deque,
which is proved for sequentially consistent interleavings by `deque_last_task_arbitration`.) -/
theorem deque_last_task_arbitration_tso (o : DequeTso.Orders) (hok : DequeTso.fencesOK o = true) (sched : List Tid) :
    let s := (DequeTso.sys o).run sched
    (s.oGot && s.tGot) = false ∧ (s.opc = .done → s.tpc = .done → (s.oGot || s.tGot) = true) := by
  intro s
  have h := DequeTso.orders_not_bad o hok sched
  unfold DequeTso.bad DequeTso.double DequeTso.lostTask at h
  rw [Bool.or_eq_false_iff] at h
  refine ⟨h.1, fun h1 h2 => ?_⟩
  have h3 := h.2
  change (s.opc == .done && s.tpc == .done && !s.oGot && !s.tGot) = false at h3
  rw [h1, h2] at h3
  cases ho : s.oGot <;> cases ht : s.tGot <;> simp [ho, ht] at h3 ⊢

/-- **The owner's barrier is necessary.**  With `--tail` demoted to a load and a plain store and no fence after it (the
thief unchanged) this schedule hands the last task out twice: the owner's store of `tail` stays in its store buffer, the
owner reads `head = 0 ≤ T` and takes the task; the thief locks the pool, increments `head`, reads the stale `tail = 1`
from memory and takes the same task. -/
theorem deque_tso_needs_owner_fence :
    DequeTso.fencesOK ⟨false, false, true, false⟩ = false ∧
    DequeTso.double ((DequeTso.sys ⟨false, false, true, false⟩).run [0, 0, 0, 0, 0, 0, 1, 1, 1, 1, 1, 1]) = true := by
  decide

/-- **The thief's barrier is necessary** (symmetric: `++head` as a plain store without a fence). -/
theorem deque_tso_needs_thief_fence :
    DequeTso.fencesOK ⟨true, false, false, false⟩ = false ∧
    DequeTso.double ((DequeTso.sys ⟨true, false, false, false⟩).run [0, 0, 1, 1, 1, 1, 1, 1, 1, 0, 0, 0]) = true := by
  decide

/-- The memory orders the real code executes at the two Dekker sites (regenerated from the E-SHIM trace of
`arena_slot::get_task` / `steal_task` on every run, `Generated/C01.lean`) satisfy `fencesOK`. -/
theorem deque_fences_ok_observed : DequeTso.fencesOK Generated.C01.dequeOrders = true := by decide

/-- `deque_last_task_arbitration_tso` instantiated with the observed orders. -/
theorem deque_last_task_arbitration_tso_observed (sched : List Tid) :
    let s := (DequeTso.sys Generated.C01.dequeOrders).run sched
    (s.oGot && s.tGot) = false ∧ (s.opc = .done → s.tpc = .done → (s.oGot || s.tGot) = true) :=
  deque_last_task_arbitration_tso _ deque_fences_ok_observed sched

/-- non-vacuity: under the orders of the current tree the thief wins one schedule, the owner another -/
example :
    ((DequeTso.sys ⟨true, false, true, false⟩).run [1, 1, 1, 1, 1, 1, 3, 0, 0, 0, 0, 0, 0, 0, 0, 0, 0, 0, 0]).tGot = true ∧
    ((DequeTso.sys ⟨true, false, true, false⟩).run [0, 0, 0, 0, 0, 1, 1]).oGot = true := by decide

/-! ### the container interface of the composition model, discharged by the component theorems

`BagLaw puts takes inside` (Proofs/C01/DispatchIface.lean): everything put into a container is either taken out or still
inside, as multisets.  This is ALL the composition model `Dispatch` uses of a task pool, a mailbox or a task stream (its
containers are bags: `submit` adds one entry, a take removes exactly the entry it returns — `BagLaw.put`, `BagLaw.take`).
The following four theorems instantiate the interface with the access-level protocol models; they are corollaries of the
component theorems above, so the composition theorems import NO hypothesis about the containers. -/

/-- the work-stealing deque of a slot is a bag, in every reachable state of every schedule (any number of thieves) -/
theorem deque_implements_bag (cfg : Deque.Cfg) (oprog : List Deque.OOp) (tprogs : List (List Nat))
    (hcfg : 0 < cfg.granule ∧ 0 < cfg.minSize) (sched : List Tid)
    (s : Deque.St) (hs : s = (Deque.sys cfg oprog tprogs).run sched) :
    (∃ l, BagLaw s.spawned (Deque.returned s ++ Deque.inflight s) l) ∧
    (Deque.Quiescent s → BagLaw s.spawned (Deque.returned s) (Deque.resident s)) := by
  obtain ⟨⟨l, hp⟩, hq, _⟩ := deque_conservation cfg oprog tprogs hcfg sched s hs
  exact ⟨⟨l, hp⟩, hq⟩

/-- the mailbox of a slot is a bag (any number of pushers) -/
theorem mailbox_implements_bag (cprog : List Nat) (pprogs : List (List Nat)) (sched : List Tid)
    (s : Mailbox.St) (hs : s = (Mailbox.sys cprog pprogs).run sched) :
    BagLaw s.order (Mailbox.popped s) (Mailbox.queue s) :=
  (mailbox_no_loss_no_dup cprog pprogs sched s hs).1

/-- a task stream is a bag (any number of lanes and threads) -/
theorem stream_implements_bag (n : Nat) (progs : List (List Stream.Op)) (hn : 0 < n) (sched : List Tid)
    (s : Stream.St) (hs : s = (Stream.sys n progs).run sched) :
    BagLaw s.pushed (Stream.poppedAll s ++ Stream.tRes s.ths) (Stream.inLanes s) :=
  (stream_conservation n progs hn sched s hs).1

/-- the two-sided claim of a proxy: at most one side gets the task, exactly one when both are done; the other side —
and only it — frees the proxy, after the winner's last access -/
theorem proxy_implements_claim (sched : List Tid) (s : Proxy.St) (hs : s = Proxy.sys.run sched) :
    Proxy.taken s ≤ 1 ∧ (Proxy.allDone s = true → Proxy.taken s = 1 ∧ Proxy.freedN s = 1) ∧
    (∀ x ∈ s.sides, x.freed = true → x.got = false) ∧ s.bad = false := by
  obtain ⟨a, b⟩ := proxy_exactly_once sched s hs
  obtain ⟨_, d, e, _, g⟩ := proxy_freed_once sched s hs
  exact ⟨a, fun h => ⟨b h, d h⟩, e, g⟩

/-! ### the whole dispatcher: composition (`Dispatch`, Model/C01Dispatch.lean)

`Dispatch.Reachable s`: `s` is reached from the initial state of SOME configuration (any number of arenas, slots and
threads) by SOME sequence of enabled actions — submissions by running units or group owners (= all programs),
takes / misses / executions by any thread (= all schedules), threads entering and leaving arenas, cancellations, waits. -/

open Dispatch in
/-- The look-up order of the real dispatcher, re-extracted from the source text of src/tbb/task_dispatcher.h on every run
(`local_wait_for_all`: bypass loop, `slot.get_task`, `receive_or_steal_task`; there the else-if chain: inbox, resume
stream, fifo stream, steal, critical), names every one of the seven sources of the model exactly once and starts with the
bypass loop — so it is a legal `order` parameter of `Dispatch.init`, which is what the validator runs the model with.  The
composition theorems below hold for EVERY order (`Reachable` quantifies over it): the property does not depend on the
order in which a thread looks for work, only on every source being a bag that is consulted by somebody. -/
theorem generated_dispatch_order :
    (Generated.C01.dispatchOrder.mapM Src.ofName).map (fun o => (o.length, o.head?, Dispatch.order.all (o.contains ·))) =
      some (7, some .bypass, true) := by decide

open Dispatch in
/-- … and in the current tree it is the order the model documents (`Dispatch.order`); this is a statement about the
tree, not an assumption of any theorem: a re-ordered chain changes `Generated.C01.dispatchOrder` and nothing else. -/
example : Dispatch.order.map Src.name = ["bypass", "local", "mailbox", "resume", "fifo", "steal", "critical"] := by decide

open Dispatch in
/-- **Every unit is carried out at most once — and exactly once by the time its group's wait has returned; it is
skipped (`cancel()` instead of `execute()`) only if its context was cancelled.**  For every reachable state and every
unit `u`: the number of `execute()` calls plus `cancel()` calls is at most 1; it is 0 exactly while the unit is still
pending; if the wait on its group has returned (`closed`) it is exactly 1 and the unit has released its reference; a
`cancel()` call implies that its context's cancellation flag is set. -/
theorem dispatch_exactly_once {s : St} (hr : Reachable s) (u : Nat) (x : UnitR) (hu : s.units[u]? = some x) :
    x.nexec + x.ncancel ≤ 1 ∧
    (x.nexec + x.ncancel = 0 ↔ x.st = .pending) ∧
    (∀ G : Group, s.groups[x.grp]? = some G → G.closed = true →
        x.nexec + x.ncancel = 1 ∧ (x.st = .released ∨ x.st = .done)) ∧
    (0 < x.ncancel → s.ctxs[x.ctx]?.getD false = true) := by
  have h := inv_reachable hr
  have hc := h.ictr u x hu
  refine ⟨?_, ?_, ?_, h.icanc u x hu⟩
  · split at hc <;> omega
  · constructor
    · intro h0
      split at hc
      · assumption
      · omega
    · intro hp; simp only [hp, if_true] at hc; exact hc
  · intro G hG hcl
    have hst := h.iclosed u x G hu hG hcl
    refine ⟨?_, hst⟩
    rcases hst with h1 | h1 <;> simp [h1] at hc <;> exact hc

open Dispatch in
/-- **No unit is lost and none is in two places.**  In every reachable state, for every unit `u`:
while it is pending it can be taken from EXACTLY ONE place — one cell of one task pool, one entry of one stream, one
thread's hand (bypass), or one live proxy — and no thread executes it; while it runs it is in no container and in
exactly one `exec` frame of exactly one thread; when it is done it is nowhere.  For every proxy `p`: a live proxy
(`shared`) is referred to by exactly one pool cell AND exactly one mailbox entry (the unit is in pool + mailbox through
it); once one side has claimed the task the proxy stays in exactly the OTHER container until that side frees it; a
freed proxy is referenced from nowhere.  Ids that were never allocated appear nowhere. -/
theorem dispatch_no_loss {s : St} (hr : Reachable s) :
    (∀ (u : Nat) (x : UnitR), s.units[u]? = some x →
        (x.st = .pending → occ s u = 1 ∧ frameCount s u = 0) ∧
        (x.st = .running ∨ x.st = .released → occ s u = 0 ∧ frameCount s u = 1) ∧
        (x.st = .done → occ s u = 0 ∧ frameCount s u = 0)) ∧
    (∀ (p : Nat) (X : Proxy), s.proxies[p]? = some X →
        (X.tag = .shared → poolCount s (.proxy p) = 1 ∧ boxCount s p = 1 ∧
            ∃ x : UnitR, s.units[X.unit]? = some x ∧ x.st = .pending) ∧
        (X.tag = .poolCleans → poolCount s (.proxy p) = 1 ∧ boxCount s p = 0) ∧
        (X.tag = .mboxCleans → poolCount s (.proxy p) = 0 ∧ boxCount s p = 1) ∧
        (X.tag = .freed → poolCount s (.proxy p) = 0 ∧ boxCount s p = 0)) ∧
    (∀ u, s.units.length ≤ u → occ s u = 0 ∧ frameCount s u = 0) ∧
    (∀ p, s.proxies.length ≤ p → poolCount s (.proxy p) = 0 ∧ boxCount s p = 0) := by
  have h := inv_reachable hr
  refine ⟨?_, ?_, ?_, ?_⟩
  · intro u x hu
    have h1 := h.iocc u
    have h2 := h.ifc u
    rw [hu] at h1 h2
    simp only [expOcc, expFc] at h1 h2
    refine ⟨fun hp => ?_, fun hp => ?_, fun hp => ?_⟩
    · simp [hp] at h1 h2; exact ⟨h1, h2⟩
    · rcases hp with hp | hp <;> simp [hp] at h1 h2 <;> exact ⟨h1, h2⟩
    · simp [hp] at h1 h2; exact ⟨h1, h2⟩
  · intro p X hX
    have h1 := h.ipp p
    have h2 := h.ipb p
    rw [hX] at h1 h2
    simp only [expPool, expBox] at h1 h2
    refine ⟨fun ht => ?_, fun ht => ?_, fun ht => ?_, fun ht => ?_⟩
    · simp [ht] at h1 h2; exact ⟨h1, h2, pending_of_proxy h hX ht⟩
    · simp [ht] at h1 h2; exact ⟨h1, h2⟩
    · simp [ht] at h1 h2; exact ⟨h1, h2⟩
    · simp [ht] at h1 h2; exact ⟨h1, h2⟩
  · intro u hu
    have hn : s.units[u]? = none := by simp; omega
    have h1 := h.iocc u
    have h2 := h.ifc u
    rw [hn] at h1 h2
    exact ⟨h1, h2⟩
  · intro p hp
    have hn : s.proxies[p]? = none := by simp; omega
    have h1 := h.ipp p
    have h2 := h.ipb p
    rw [hn] at h1 h2
    exact ⟨h1, h2⟩

open Dispatch in
/-- **A wait covers all the work of its group, transitively.**  In every reachable state in which the wait on group `g`
has returned (`closed`): (1) every unit ever submitted to `g` — before or during the wait, by the owner or by a running
unit of `g` that had not yet released its own reference (rule (a) of `submit`: a child reserves before its parent
releases), and so on transitively — has been carried out exactly once and has released its reference; the group's
counter equals the number of units that still hold a reference, i.e. 0; (2) this is final: no later action adds a unit
to `g` (a closed group accepts no submission, and no unit of `g` is left to submit on its behalf). -/
theorem wait_covers_transitive {s : St} (hr : Reachable s) (g : Nat) (G : Group) (hG : s.groups[g]? = some G)
    (hc : G.closed = true) :
    (∀ (u : Nat) (x : UnitR), s.units[u]? = some x → x.grp = g →
        (x.st = .released ∨ x.st = .done) ∧ x.nexec + x.ncancel = 1) ∧
    G.refs = 0 ∧ live s g = 0 ∧
    (∀ (a : Act) (s' : St), step s a = some s' →
        (∀ (u : Nat) (x' : UnitR), s'.units[u]? = some x' → x'.grp = g → ∃ x : UnitR, s.units[u]? = some x ∧ x.grp = g)) := by
  have h := inv_reachable hr
  have hall : ∀ (u : Nat) (x : UnitR), s.units[u]? = some x → x.grp = g → (x.st = .released ∨ x.st = .done) := by
    intro u x hu hg
    exact h.iclosed u x G hu (by rw [hg]; exact hG) hc
  have hlive : live s g = 0 := by
    simp only [live]
    apply List.countP_eq_zero.mpr
    intro x hx
    obtain ⟨u, hlt, hxu⟩ := List.getElem_of_mem hx
    have hu : s.units[u]? = some x := by rw [List.getElem?_eq_getElem hlt, hxu]
    by_cases hg : x.grp = g
    · rcases hall u x hu hg with h1 | h1 <;> simp [h1]
    · simp [hg]
  have hrefs : G.refs = 0 := by
    have := h.irefs g
    rw [hG, hlive] at this
    simp only [expRefs] at this
    omega
  refine ⟨fun u x hu hg => ⟨hall u x hu hg, ?_⟩, hrefs, hlive, ?_⟩
  · have hcx := h.ictr u x hu
    rcases hall u x hu hg with h1 | h1 <;> simp [h1] at hcx <;> exact hcx
  · intro a s' hstep u x' hu' hg'
    exact Dispatch.closed_group_final h hG hc hlive hstep hu' hg'

open Dispatch in
/-- **… transitively through the waits begun inside a unit.**  `Group.inUnit h = some u` records that the wait on group
`h` began while its thread was inside `execute()` of unit `u` (a nested `task_group::wait`, a nested parallel algorithm, a
`task_arena::execute` that waits).  In every reachable state: a unit that has released its reference — or returned — has no
wait still open inside it; so when the wait on a group `g` has returned, every unit of `g` is finished (previous theorem)
AND every wait begun inside any of them has returned too (`closed`), to which the previous theorem applies again: the
cover is transitive through nested groups of any depth.  While such a nested wait is open it is a `wait` frame on some
thread's stack directly above that unit's `exec` frame, and the unit is still running. -/
theorem wait_covers_nested {s : St} (hr : Reachable s) (h : Nat) (H : Group) (hH : s.groups[h]? = some H)
    (hb : H.began = true) (u : Nat) (hi : H.inUnit = some u) :
    (∀ x : UnitR, s.units[u]? = some x → (x.st = .released ∨ x.st = .done) → H.closed = true) ∧
    (∀ (g : Nat) (G : Group) (x : UnitR), s.groups[g]? = some G → G.closed = true → s.units[u]? = some x → x.grp = g →
        H.closed = true) ∧
    (H.closed = false → Witness s.stacks h (some u) ∧ ∃ x : UnitR, s.units[u]? = some x ∧ x.st = .running) := by
  have hn := ninv_reachable hr
  have key : ∀ x : UnitR, s.units[u]? = some x → (x.st = .released ∨ x.st = .done) → H.closed = true := by
    intro x hx hst
    cases hc : H.closed with
    | true => rfl
    | false =>
      obtain ⟨y, hy, hrun⟩ := hn.run h H u hH hb hc hi
      rw [hx] at hy
      cases hy
      rcases hst with h1 | h1 <;> rw [h1] at hrun <;> simp at hrun
  refine ⟨key, ?_, ?_⟩
  · intro g G x hG hcl hx hg
    exact key x hx ((wait_covers_transitive hr g G hG hcl).1 u x hx hg).1
  · intro hc
    have hw := hn.frame h H hH hb hc
    rw [hi] at hw
    exact ⟨hw, hn.run h H u hH hb hc hi⟩

open Dispatch in
/-- non-vacuity of `wait_covers_nested`: unit 0 of group 0 (handed to `run_and_wait`) creates group 1 inside its body,
submits unit 1 to it and waits; the inner wait is recorded with `inUnit = some 0`, both waits return, both units ran once -/
example :
    (run (init [0] 1 1) [.enter 0 0, .newGroup 0, .newCtx, .submit 0 0 0 0 .bypass, .beginWait 0 (some 0) 0, .takeBypass 0,
      .newGroup 0, .submit 0 1 0 0 .spawn, .beginWait 0 (some 1) 0, .miss 0, .takePool 0 0 0, .takeBypass 0, .complete 0, .ret 0,
      .miss 0, .waitReturn 0, .complete 0, .ret 0, .miss 0, .waitReturn 0]).any (fun s =>
        s.groups.map (fun G => (G.inUnit, G.began, G.closed)) == [(none, true, true), (some 0, true, true)] &&
        s.units.map (fun x => (x.grp, x.nexec, x.st)) == [(0, 1, .done), (1, 1, .done)] && s.stacks == [[.attach 0]]) = true := by
  decide

open Dispatch in
/-- **It does not matter which thread takes a unit.**  In every reachable state, ANY thread `t` that is in a dispatch
loop (innermost frame `wait`), holds nothing in its hand and satisfies the structural guard of a source — the occupant
of slot `v` at `localPool`, any thread of another slot of the same arena at `steal` (`PoolGuard`), the occupant of the
recipient slot at `mailbox`, any thread of the arena at the stream's position — with an isolation that admits the unit,
can take it: the step is enabled, leads to a reachable state (so every theorem of this file holds there again) and the
unit is then in `t`'s hand and nowhere else.  For a mailed task the two-sided claim decides: whichever side comes first
gets the unit and turns the proxy's tag to the OTHER side's cleaner value (`enabled_takePool_proxy`, `enabled_takeBox`);
the side that comes second finds the proxy emptied, gets nothing and frees it (`enabled_takePool_emptied`,
`enabled_takeBox_emptied`).  Whoever holds the unit then executes it — or cancels it iff its context is cancelled —
exactly once (`enabled_takeBypass`).  No guard mentions the identity of the thread. -/
theorem any_taker {s : St} (hr : Reachable s) {t : Tid} {g : Option Nat} {w : Nat} {rest : List Frame} {k : Nat}
    (hst : s.stacks[t]? = some (.wait g w :: rest)) (hk : curSlot rest = some k) (hby : s.bypass[t]? = some none) :
    (∀ (v i u : Nat) (P : List Entry) (x : UnitR), s.pools[v]? = some P → P[i]? = some (.task u) → s.units[u]? = some x → isoOk w x.iso = true →
        PoolGuard s t k v →
        ∃ s', step s (.takePool t v i) = some s' ∧ Reachable s' ∧ s'.bypass[t]? = some (some u) ∧ occ s' u = 1) ∧
    (∀ (v i p : Nat) (P : List Entry) (X : Proxy) (x : UnitR), s.pools[v]? = some P → P[i]? = some (.proxy p) → s.proxies[p]? = some X → X.tag = .shared →
        s.units[X.unit]? = some x → isoOk w x.iso = true → PoolGuard s t k v →
        ∃ s', step s (.takePool t v i) = some s' ∧ Reachable s' ∧ s'.bypass[t]? = some (some X.unit) ∧
          s'.proxies[p]? = some { X with tag := .mboxCleans } ∧ occ s' X.unit = 1) ∧
    (∀ (i p : Nat) (B : List Nat) (X : Proxy) (x : UnitR), s.boxes[k]? = some B → B[i]? = some p → s.proxies[p]? = some X → X.tag = .shared →
        s.units[X.unit]? = some x → isoOk w x.iso = true → s.look[t]? = some .mailbox →
        ∃ s', step s (.takeBox t i) = some s' ∧ Reachable s' ∧ s'.bypass[t]? = some (some X.unit) ∧
          s'.proxies[p]? = some { X with tag := .poolCleans } ∧ occ s' X.unit = 1) ∧
    (∀ (a kind i u : Nat) (S : List Nat) (x : UnitR), s.slotArena[k]? = some a → kind < 3 → s.streams[3 * a + kind]? = some S → S[i]? = some u →
        s.units[u]? = some x → streamLookOk kind s.look[t]? w x.iso = true →
        ∃ s', step s (.takeStream t kind i) = some s' ∧ Reachable s' ∧ s'.bypass[t]? = some (some u) ∧ occ s' u = 1) := by
  have occ1 : ∀ {s' : St} {u : Nat}, Reachable s' → s'.bypass[t]? = some (some u) → occ s' u = 1 := by
    intro s' u hr' hb
    obtain ⟨x, hx, hp⟩ := pending_of_bypass (inv_reachable hr') hb
    exact ((dispatch_no_loss hr').1 u x hx).1 hp |>.1
  refine ⟨?_, ?_, ?_, ?_⟩
  · intro v i u P x hP hi hu hiso hg
    obtain ⟨s', h1, h2, h3⟩ := enabled_takePool_task hr hst hk hby hP hi hu hiso hg
    exact ⟨s', h1, h2, h3, occ1 h2 h3⟩
  · intro v i p P X x hP hi hX ht hu hiso hg
    obtain ⟨s', h1, h2, h3, h4⟩ := enabled_takePool_proxy hr hst hk hby hP hi hX ht hu hiso hg
    exact ⟨s', h1, h2, h3, h4, occ1 h2 h3⟩
  · intro i p B X x hB hi hX ht hu hiso hl
    obtain ⟨s', h1, h2, h3, h4⟩ := enabled_takeBox hr hst hk hby hl hB hi hX ht hu hiso
    exact ⟨s', h1, h2, h3, h4, occ1 h2 h3⟩
  · intro a kind i u S x ha hkind hS hi hu hl
    obtain ⟨s', h1, h2, h3⟩ := enabled_takeStream hr hst hk hby ha hkind hS hi hu hl
    exact ⟨s', h1, h2, h3, occ1 h2 h3⟩

open Dispatch in
/-- non-vacuity of the composition theorems — one arena with two slots, two threads: the main thread (slot 0) submits a
plain task, a task mailed to slot 1 and an enqueued task of one group and waits; the worker (slot 1) claims the mailed
task from its mailbox, the main thread takes its own task, finds the emptied proxy in its pool and frees it, the worker
takes the enqueued task from the fifo stream; when the group's counter reads 0 the wait returns.  The final state is
reachable, the group is closed, every unit ran exactly once, the proxy is freed. -/
example :
    (run (init [0, 0] 1 2) [.enter 0 0, .enter 1 1, .beginWait 1 none 0, .newGroup 0, .newCtx,
      .submit 0 0 0 0 .spawn, .submit 0 0 0 0 (.mail 1), .submit 0 0 0 0 (.stream 0 1), .beginWait 0 (some 0) 0,
      .miss 1, .miss 1, .takeBox 1 0, .takeBypass 1,
      .miss 0, .takePool 0 0 0, .takePool 0 0 0, .takeBypass 0, .complete 0, .ret 0,
      .complete 1, .ret 1, .miss 1, .miss 1, .miss 1, .miss 1, .takeStream 1 1 0, .takeBypass 1, .complete 1, .ret 1,
      .miss 0, .waitReturn 0]).any (fun s => s.groups.map (·.closed) == [true] &&
        s.units.map (fun x => (x.nexec, x.ncancel, x.st)) == [(1, 0, .done), (1, 0, .done), (1, 0, .done)] &&
        s.proxies.map (·.tag) == [.freed] && s.pools == [[], []] && s.boxes == [[], []]) = true := by
  decide

end TbbVerif.C01
