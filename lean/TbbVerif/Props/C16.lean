/-
C16 — property theorems (statements only; lemmas are in Proofs/C16/*.lean).

Property: arenas bound concurrency, give unique slots, respect the worker budget.  Theorems below cover
* the allotment arithmetic of `market::update_allotment` for every demand vector, any number of arenas per level, any
  number of levels (`allot_*`),
* `arena::update_request` clamping (`update_request_clamped`),
* `thread_request_serializer`: `limit_delta` telescopes, the packed pending-delta word round-trips, no delta is lost
  under any interleaving of `update` calls (`limit_delta_telescopes`, `pending_delta_roundtrip`, `pending_delta_no_loss`),
* `global_control`: the active `max_allowed_parallelism` is the minimum of the live values and is what was applied
  (`gc_active_is_min`, `gc_applied_is_active`),
* the slot protocol: for any number of threads, any schedule, occupied slots have pairwise distinct owners, indices
  below `num_slots`, reserved slots only non-workers, hence at most `num_slots` threads inside (`slots_unique`, `slots_bound`).
Not covered by theorems here (see the evidence file): isolation filters, observer entry/exit pairing, the transient
per-arena overshoot of `try_join` (DESIGN.md §3 C16).
-/
import TbbVerif.Proofs.C16.Allot
import TbbVerif.Proofs.C16.Serializer
import TbbVerif.Proofs.C16.Pending
import TbbVerif.Proofs.C16.GC
import TbbVerif.Proofs.C16.Slots
import TbbVerif.Proofs.C16.World

namespace TbbVerif.C16

/-! ## worker allotment (`market::update_allotment`) -/

/-- With consistent market words (`my_total_demand` = sum of the level demands, each level demand = sum of its
clients' requests — what `adjust_demand` maintains) `update_allotment` never divides by zero. -/
theorem allot_defined {soft total mand : Nat} {levels : List (Nat × List Client)} (hwf : WF total levels) :
    ∃ r, allot soft total mand levels = some r := by
  rcases Nat.eq_zero_or_pos soft with rfl | hs
  · obtain ⟨st', oss, h, _⟩ := updateAllotment_zero (total := total) (mand := mand) levels
    exact ⟨oss.map (fun os => os.map (·.allotted)), by simp [allot, h]⟩
  · obtain ⟨st', oss, h, _⟩ := updateAllotment_pos (mand := mand) hs hwf
    exact ⟨oss.map (fun os => os.map (·.allotted)), by simp [allot, h]⟩

/-- **allot_sum.** The workers granted to all arenas sum to `min(total demand, effective limit)`, for every demand
vector, any number of arenas and priority levels.  In the soft-limit-0 case this needs a client that actually
requests the mandatory worker (`min_workers > 0` and `max_workers > 0`) whenever `my_mandatory_num_requested > 0`. -/
theorem allot_sum {soft total mand : Nat} {levels : List (Nat × List Client)} (hwf : WF total levels)
    (hm : soft = 0 → 0 < mand → 0 < total → anyEligible levels)
    {r : List (List Nat)} (h : allot soft total mand levels = some r) :
    (r.map List.sum).sum = min total (effLimit soft mand) := by
  rcases Nat.eq_zero_or_pos soft with rfl | hs
  · obtain ⟨st', oss, hrun, _, hle, hel, _⟩ := updateAllotment_zero (total := total) (mand := mand) levels
    simp [allot, hrun] at h
    subst h
    rw [map_sum_allotted]
    by_cases he : anyEligible levels
    · exact hel he
    · have : min total (effLimit 0 mand) = 0 := by
        rcases Nat.eq_zero_or_pos mand with hz | hmp
        · simp [effLimit, hz]
        · rcases Nat.eq_zero_or_pos total with hz | htp
          · simp [hz]
          · exact absurd (hm rfl hmp htp) he
      omega
  · obtain ⟨st', oss, hrun, _, _, hsum, _⟩ := updateAllotment_pos (mand := mand) hs hwf
    simp [allot, hrun] at h
    subst h
    rw [map_sum_allotted, hsum, effLimit_pos hs]

/-- **allot_le_request.** No arena is granted more than it requested (`max_workers()`). -/
theorem allot_le_request {soft total mand : Nat} {levels : List (Nat × List Client)} (hwf : WF total levels)
    {r : List (List Nat)} (h : allot soft total mand levels = some r) :
    Pointwise (fun lv as => Pointwise (fun c a => a ≤ c.maxW) lv.2 as) levels r := by
  rcases Nat.eq_zero_or_pos soft with rfl | hs
  · obtain ⟨st', oss, hrun, _, _, _, hpw⟩ := updateAllotment_zero (total := total) (mand := mand) levels
    simp [allot, hrun] at h
    subst h
    exact Pointwise.map_right _ (Pointwise.imp (fun lv os hp => Pointwise.map_right _ (Pointwise.imp (fun c o ho => ho.1) hp)) hpw)
  · obtain ⟨st', oss, hrun, _, _, _, hpw⟩ := updateAllotment_pos (mand := mand) hs hwf
    simp [allot, hrun] at h
    subst h
    exact Pointwise.map_right _ (Pointwise.imp (fun lv os hp => Pointwise.map_right _ hp) hpw)

/-- Each priority level receives `min(its demand, what the higher levels left)`. -/
theorem allot_level_sums {soft total mand : Nat} {levels : List (Nat × List Client)} (hs : 0 < soft) (hwf : WF total levels)
    {r : List (List Nat)} (h : allot soft total mand levels = some r) :
    r.map List.sum = shares (levels.map (·.1)) (min total soft) := by
  obtain ⟨st', oss, hrun, hsh, _⟩ := updateAllotment_pos (mand := mand) hs hwf
  simp [allot, hrun] at h
  subst h
  rw [map_sum_allotted, hsh]

/-- **allot_priority.** A level `j` gets a worker only if every higher-priority level `i < j` (smaller index) received its
whole demand. -/
theorem allot_priority {soft total mand : Nat} {levels : List (Nat × List Client)} (hs : 0 < soft) (hwf : WF total levels)
    {r : List (List Nat)} (h : allot soft total mand levels = some r) (i j : Nat) (hij : i < j)
    (hj : 0 < (r.getD j []).sum) : (r.getD i []).sum = (levels.map (·.1)).getD i 0 := by
  have hl := allot_level_sums hs hwf h
  have hget : ∀ k, (r.getD k []).sum = (r.map List.sum).getD k 0 := by
    intro k
    simp only [List.getD_eq_getElem?_getD, List.getElem?_map]
    cases r[k]? <;> simp
  rw [hget] at hj ⊢
  rw [hl] at hj ⊢
  exact shares_priority _ _ i j hij hj

/-- **allot_mandatory.** Soft limit 0 with a mandatory request from a client that asks for workers: exactly one worker is
granted in total, nobody gets more than one, and whoever gets it has `min_workers > 0` and `max_workers > 0`. -/
theorem allot_mandatory {total mand : Nat} {levels : List (Nat × List Client)} (hwf : WF total levels)
    (hm : 0 < mand) (hel : anyEligible levels) {r : List (List Nat)} (h : allot 0 total mand levels = some r) :
    (r.map List.sum).sum = 1 ∧
    Pointwise (fun lv as => Pointwise (fun c a => a ≤ 1 ∧ (0 < a → eligible c)) lv.2 as) levels r := by
  have htot : 0 < total := by
    obtain ⟨lv, hlv, c, hc, he⟩ := hel
    have h1 : c.maxW ≤ lv.1 := by
      rw [hwf.2 lv hlv]; exact nat_le_sum_of_mem (List.mem_map_of_mem hc)
    have h2 : lv.1 ≤ total := by
      rw [hwf.1]; exact nat_le_sum_of_mem (List.mem_map_of_mem hlv)
    have := he.2
    omega
  refine ⟨?_, ?_⟩
  · rw [allot_sum hwf (fun _ _ _ => hel) h]
    simp [effLimit, hm]; omega
  · obtain ⟨st', oss, hrun, _, _, _, hpw⟩ := updateAllotment_zero (total := total) (mand := mand) levels
    simp [allot, hrun] at h
    subst h
    exact Pointwise.map_right _ (Pointwise.imp (fun lv os hp => Pointwise.map_right _ (Pointwise.imp (fun c o ho => ho.2) hp)) hpw)

/-- Soft limit 0: never more than `min(total, effective limit) ≤ 1` workers; none at all without a mandatory request. -/
theorem allot_softzero_none {total mand : Nat} {levels : List (Nat × List Client)}
    {r : List (List Nat)} (h : allot 0 total mand levels = some r) :
    (r.map List.sum).sum ≤ min total (effLimit 0 mand) ∧ (mand = 0 → (r.map List.sum).sum = 0) := by
  obtain ⟨st', oss, hrun, _, hle, _, _⟩ := updateAllotment_zero (total := total) (mand := mand) levels
  simp [allot, hrun] at h
  subst h
  rw [map_sum_allotted]
  refine ⟨hle, fun hz => ?_⟩
  have : effLimit 0 mand = 0 := by simp [effLimit, hz]
  omega

/-! ## the market and the serializer as wired by `threading_control_impl` -/

/-- **market_words_consistent.** From a fresh market, after *any* sequence of `register_client` / `unregister` /
`adjust_demand` / `set_active_num_workers` that the machine accepts, the demand words equal the sums of the clients'
requests: the hypothesis `WF` of the allotment theorems holds in every reachable state. -/
theorem market_words_consistent (soft : Nat) (ops : List WOp) (w : World) (h : (World.init soft).run ops = some w) :
    WF w.market.totalDemand.toNat w.market.levels :=
  (World.run_wf ops _ w (MWF.init soft) h).wf

/-- **allotment_is_current.** In a reachable state, `adjust_demand` leaves in the arenas exactly `allot` of the new words
(so `allot_sum`, `allot_le_request`, `allot_priority`, `allot_mandatory` speak about `my_num_workers_allotted`). -/
theorem allotment_is_current (soft : Nat) (ops : List WOp) (w w' : World) (h : (World.init soft).run ops = some w)
    (id : Nat) (md wd : Int) (hs : w.step (.adjust id md wd) = some w') :
    allot w'.market.softLimit w'.market.totalDemand.toNat w'.market.mandatoryNum.toNat w'.market.levels
      = some w'.market.allotView := by
  have hwf := World.run_wf ops _ w (MWF.init soft) h
  simp only [World.step] at hs
  split at hs
  · simp at hs
  · split at hs
    · split at hs
      · rename_i m2 delta hadj
        simp at hs
        subst hs
        exact (Market.adjust_wf hwf hadj).2
      · simp at hs
    · simp at hs

/-- **workers_within_budget.** In every reachable state (arenas with fewer than `pending_delta_base` worker slots) the sum of
all deltas handed to the thread dispatcher (`adjust_job_count_estimate`) is `min(effective soft limit, total demand)`:
the server is never asked for more workers than the limit (`L - 1` under `global_control`, or the single mandatory
worker when the limit is 0 and a mandatory request is outstanding), nor for more than the arenas demand. -/
theorem workers_within_budget (soft : Nat) (ops : List WOp) (w : World) (hsmall : ∀ o ∈ ops, o.small)
    (h : (World.init soft).run ops = some w) :
    w.proxy.ser.handed =
      min (if w.market.softLimit = 0 ∧ 0 < w.market.mandatoryNum then 1 else (w.market.softLimit : Int)) w.market.totalDemand ∧
    w.proxy.ser.pending = Pack.base := by
  have hinv := World.run_inv ops _ w (WInv.init soft) hsmall h
  refine ⟨?_, hinv.px.pend⟩
  rw [hinv.px.handed, hinv.px.soft, hinv.tot, hinv.lim]
  by_cases he : w.proxy.enabled = true
  · have := hinv.px.en.1 he
    rw [hinv.mand] at this
    simp [he, this]
  · have hne : ¬ (w.userLimit = 0 ∧ 0 < w.market.mandatoryNum) := fun hc => he (hinv.px.en.2 (by rw [hinv.mand]; exact hc))
    have he' : w.proxy.enabled = false := by simpa using he
    simp [he', hne]

/-! ## `arena::update_request` -/

/-- The request handed to the market is clamped into `[0, my_max_num_workers]` (or `[0,1]` for a worker-less arena with a
mandatory request); `min_workers` is 0 or 1 and is 1 exactly when a mandatory request is outstanding. -/
theorem update_request_clamped (a : Arena) (md wd : Int) :
    let a' := (a.updateRequest md wd).1
    a'.minW ≤ 1 ∧ (0 < a'.minW ↔ 0 < a.mandReq + md) ∧
    a'.maxW ≤ (if 0 < a'.minW ∧ a.maxNumWorkers = 0 then 1 else a.maxNumWorkers) ∧
    (a.updateRequest md wd).2 = (a'.maxW : Int) - (a.maxW : Int) := by
  simp only [Arena.updateRequest, clampI]
  refine ⟨by split <;> omega, by split <;> omega, ?_, trivial⟩
  split <;> split <;> (try split) <;> omega

/-! ## `thread_request_serializer` -/

/-- **limit_delta_telescopes.** Whatever the sequence of (aggregated) demand deltas and of soft-limit changes, the sum of
the limited deltas handed to the thread dispatcher equals the change of `min(soft limit, total request)`; in particular
from the initial state (`total = 0`, `handed = 0`, limit ≥ 0) the dispatcher has been asked for exactly
`min(soft limit, total request)` workers. -/
theorem limit_delta_telescopes (ops : List SOp) (s : Serializer) :
    (ops.foldl Serializer.stepOp s).handed - s.handed =
      min (ops.foldl Serializer.stepOp s).softLimit (ops.foldl Serializer.stepOp s).totalRequest
        - min s.softLimit s.totalRequest ∧
    (ops.foldl Serializer.stepOp s).totalRequest = s.totalRequest + (ops.map SOp.delta).sum := by
  have := Serializer.run_telescopes ops s
  exact ⟨by omega, this.2⟩

/-- **pending_delta_roundtrip.** The packed word `base + n·counter + acc` (n pending calls whose deltas sum to `acc`,
`|acc| < base`): adding a delta keeps the layout, extracting returns `acc`, and the drainer test fires exactly for
`n = 0 ∧ acc = 0`. -/
theorem pending_delta_roundtrip {word n : Nat} {acc d : Int} (h : Pack.Layout word n acc)
    (hd0 : -(Pack.base : Int) ≤ acc + d) (hd1 : acc + d < (Pack.base : Int)) (hn : (n + 2) * Pack.counter ≤ 2 ^ 32) :
    Pack.extract word = acc ∧ Pack.extract (Pack.add word d) = acc + d ∧
    Pack.Layout (Pack.add word d) (n + 1) (acc + d) ∧
    (Pack.isDrainer word = true ↔ n = 0 ∧ acc = 0) := by
  have hc := Pack.counter_le
  have hn' : (n + 1) * Pack.counter ≤ 2 ^ 32 :=
    Nat.le_trans (Nat.mul_le_mul_right _ (by omega)) hn
  have hadd := Pack.add_layout h hd0 hd1 (by omega)
  exact ⟨Pack.extract_layout h, Pack.extract_layout hadd, hadd, Pack.isDrainer_layout h hn'⟩

/-- An uninterfered `update(delta)` with `|delta| < pending_delta_base` is the drainer and applies exactly `delta`. -/
theorem serializer_update_is_apply (s : Serializer) (d : Int) (hp : s.pending = Pack.base)
    (h0 : -(Pack.base : Int) ≤ d) (h1 : d < (Pack.base : Int)) :
    s.update d = ((s.apply d).1, some (s.apply d).2) :=
  Serializer.update_eq_apply s d hp h0 h1

/-- **pending_delta_no_loss.** Any number of threads (`< 2^16 - 2` for the 16-bit call counter) call `update(delta_t)`
concurrently, `Σ|delta_t| < pending_delta_base`: under every schedule, once all calls have returned, `my_total_request`
is the sum of all deltas (none lost, none counted twice), the word is back at `pending_delta_base`, and the thread
dispatcher has been asked for `min(limit, total) - min(limit, 0)` workers. -/
theorem pending_delta_no_loss (soft : Int) (deltas : List Int) (hsmall : (deltas.map absI).sum < Pack.base)
    (hfew : (deltas.length + 2) * Pack.counter ≤ 2 ^ 32) (sched : List Tid)
    (hdone : ∀ th ∈ ((pendSys soft deltas).run sched).ths, th.pc = 3) :
    let s := (pendSys soft deltas).run sched
    s.ser.totalRequest = deltas.sum ∧ s.ser.pending = Pack.base ∧
    s.ser.handed = min soft deltas.sum - min soft 0 := by
  have hinv := PInv.run soft deltas hsmall hfew sched
  have hfin := PInv.final hinv hdone
  have hd := pendSys_deltas soft deltas sched
  simp only
  rw [hd] at hfin
  refine ⟨hfin.1, hfin.2.1, ?_⟩
  rw [hfin.2.2, hfin.1]

/-! ## `global_control` -/

/-- **gc_active_is_min.** For `max_allowed_parallelism` (`is_first_arg_preferred(a,b) = a < b`), after any sequence of
`global_control` constructions and destructions, while at least one control is alive the active value is the minimum of
the live values (and it is one of them). -/
theorem gc_active_is_min (dflt : Nat) (ops : List GOp) :
    let g := ({ preferMin := true, dflt := dflt } : GC).run ops
    g.live ≠ [] → g.active = listMin (g.live.map (·.2)) ∧ g.active ∈ g.live.map (·.2) ∧
      ∀ v ∈ g.live.map (·.2), g.active ≤ v := by
  intro g hne
  have hinv := GInv.run ops _ (GInv.init true dflt)
  have hact := hinv.act (GC.run_preferMin _ ops) hne
  have hne' : g.live.map (·.2) ≠ [] := by simpa using hne
  refine ⟨hact, ?_, ?_⟩
  · rw [hact]; exact listMin_mem hne'
  · intro v hv; rw [hact]; exact listMin_le hv

/-- **gc_applied_is_active.** Whenever `apply_active` has been called at all, its last argument is the current active value
(the minimum of the live controls, or the default when none is alive): `threading_control::set_active_num_workers` was
last called with `active value - 1`. -/
theorem gc_applied_is_active (pm : Bool) (dflt : Nat) (ops : List GOp) :
    let g := ({ preferMin := pm, dflt := dflt } : GC).run ops
    g.applied ≠ [] → g.applied.getLast? = some g.activeValue := by
  intro g happ
  have hinv := GInv.run ops _ (GInv.init pm dflt)
  unfold GC.activeValue
  by_cases he : g.live = []
  · simp [he]; exact hinv.lastEmpty he happ
  · have : g.live.isEmpty = false := by simpa using he
    simp [this]; exact hinv.last he

/-! ## slot occupation -/

/-- **slots_unique.** For every arena shape, every number of threads (workers or not, each with an arbitrary sequence of
start-index choices, entering and leaving any number of times) and every schedule: a slot is owned by at most one thread,
owned indices are `< num_slots` and marked occupied, and a worker never owns a reserved slot. -/
theorem slots_unique (cfg : SCfg) (threads : List (Bool × List Nat)) (sched : List Tid) :
    let s := (slotSys cfg threads).run sched
    (∀ t1 t2 i, s.holds t1 i → s.holds t2 i → t1 = t2) ∧
    (∀ t i, s.holds t i → i < cfg.numSlots ∧ s.occ[i]? = some true) ∧
    (∀ (t : Nat) (i : Nat) (th : STh), s.ths[t]? = some th → th.slot = some i → th.worker = true → cfg.reserved ≤ i) := by
  have hinv := SInv.run cfg threads sched
  refine ⟨?_, ?_, ?_⟩
  · rintro t1 t2 i ⟨th1, h1, hs1⟩ ⟨th2, h2, hs2⟩
    exact hinv.uniq t1 t2 th1 th2 i h1 h2 hs1 hs2
  · rintro t i ⟨th, h1, hs⟩
    have := hinv.own t th i h1 hs
    exact ⟨this.1, this.2.1⟩
  · intro t i th h1 hs hw
    exact (hinv.own t th i h1 hs).2.2 hw

/-- **slots_bound.** Under every schedule the number of threads inside the arena equals the number of occupied slots and
is therefore at most `num_slots` (= `max_concurrency`, or 2 for a one-slot arena with a reserved slot). -/
theorem slots_bound (cfg : SCfg) (threads : List (Bool × List Nat)) (sched : List Tid) :
    let s := (slotSys cfg threads).run sched
    s.insideCount = s.occ.count true ∧ s.insideCount ≤ cfg.numSlots := by
  have hinv := SInv.run cfg threads sched
  refine ⟨hinv.cnt, ?_⟩
  unfold SSt.insideCount
  rw [hinv.cnt, ← hinv.len]
  exact List.count_le_length

/-! ## non-vacuity -/

/-- three levels, five arenas, limit 5 < demand 11: `WF` holds and the allotment is `[[2],[2,1],[0,0]]`
(carry: level 1 splits 3 workers over requests 3 and 4, last registered first, as 2 and 1). -/
example : WF 11 [(2, [⟨0, 2⟩]), (7, [⟨0, 3⟩, ⟨1, 4⟩]), (2, [⟨0, 1⟩, ⟨0, 1⟩])] ∧
    allot 5 11 0 [(2, [⟨0, 2⟩]), (7, [⟨0, 3⟩, ⟨1, 4⟩]), (2, [⟨0, 1⟩, ⟨0, 1⟩])] = some [[2], [2, 1], [0, 0]] := by
  decide

/-- soft limit 0, one mandatory request in the lower level: the single worker goes there -/
example : anyEligible [(2, [⟨0, 2⟩]), (7, [⟨0, 3⟩, ⟨1, 4⟩])] ∧
    allot 0 9 1 [(2, [⟨0, 2⟩]), (7, [⟨0, 3⟩, ⟨1, 4⟩])] = some [[0], [0, 1]] := by
  decide

/-- inconsistent words are rejected, not defaulted: a client asks for workers at a level whose demand word is 0 -/
example : allot 3 4 0 [(0, [⟨0, 4⟩])] = none := by decide

/-- a reachable world: two arenas, limit 3, demands 4 and 2 (level 0 served first): allotment [[2],[1],…], 3 workers requested -/
example : ((World.init 3).run [.reg 1 1 4, .reg 2 0 2, .adjust 1 0 4, .adjust 2 1 2]).map
    (fun w => (w.market.allotView.take 2, w.proxy.ser.handed)) = some ([[2], [1]], 3) := by decide

/-- the packed word with two pending calls (+3, −5) -/
example : Pack.Layout (Pack.add (Pack.add Pack.base 3) (-5)) 2 (-2) := by
  have h1 := Pack.add_layout (d := 3) Pack.layout_base (by decide) (by decide) (by decide)
  have h2 := Pack.add_layout (d := -5) h1 (by decide) (by decide) (by decide)
  simpa using h2

/-- two threads, two slots, one reserved: after this schedule thread 0 (external) owns slot 0 and thread 1 (worker) slot 1 -/
example : ((slotSys ⟨2, 1⟩ [(false, [0]), (true, [0])]).run [0, 1, 0, 1, 0, 1]).insideCount = 2 := by decide

/-- global_control: live values 4, 2, 8 then the 2 is destroyed: active goes 4 → 2 → 2 → 4 -/
example : (({ preferMin := true, dflt := 16 } : GC).run [.create 1 4, .create 2 2, .create 3 8, .destroy 2]).active = 4 := by
  decide

/-- The same storage code with the default comparator direction (`thread_stack_size`, "prefer max"): after destroying a
control the code takes `*my_list.begin()`, i.e. the *smallest* remaining value although a larger one is alive. -/
example : (({ preferMin := false, dflt := 0 } : GC).run [.create 1 4, .create 2 2, .create 3 8, .destroy 2]).active = 4 := by
  decide

end TbbVerif.C16
