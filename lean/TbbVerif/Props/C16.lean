/-
C16 — property theorems (statements only; lemmas are in Proofs/C16/*.lean).

Property: arenas bound concurrency, give unique slots, respect the worker budget.  Theorems below cover
* the allotment arithmetic of `market::update_allotment` for every demand vector, any number of arenas per level, any
  number of levels (`allot_*`),
* `arena::update_request` clamping (`update_request_clamped`),
* `thread_request_serializer`: `limit_delta` telescopes, the packed pending-delta word round-trips, no delta is lost
  under any interleaving of `update` calls (`limit_delta_telescopes`, `pending_delta_roundtrip`, `pending_delta_no_loss`),
* `global_control`: the active `max_allowed_parallelism` is the minimum of the live values and is what was applied
  (`gc_active_is_min`, `gc_applied_is_active`),
* the slot protocol: for any number of threads, any schedule, occupied slots have pairwise distinct owners, indices
  below `num_slots`, reserved slots only non-workers, hence at most `num_slots` threads inside (`slots_unique`, `slots_bound`).
* isolation: with the filters, isolation-argument chains and tag assignments *regenerated from the source*, a dispatch loop that
  waits inside an isolation region only ever executes tasks spawned in that region, nothing is lost or duplicated by skipping,
  skipped tasks stay physically available, and a thread without isolation is refused by no filter (`isolation_*`),
* mandatory concurrency: under every interleaving of `advertise_new_work` / `out_of_work` / leaving threads the arena's, the
  market's and the serializer's mandatory counters (plus the deltas in flight) equal the mandatory flag; at rest they are 1 iff the
  flag is set; `out_of_work` with no enqueued task left withdraws the request on every path (`mandatory_*`),
* scheduler observers: per thread and observer, entries and exits alternate, every entry of a still active observer gets its
  exit when the thread leaves (`observer_balanced`).
* isolation as a STACK discipline (`Model/C16Nest.lean`): `isolate_within_arena` nested at will, leaving normally or by exception, per
  task dispatcher (coroutines), `task_arena::execute` inside a region, the resume stream, bypassed tasks, the critical task that
  displaces a held task; ghost region ids distinct from the tag words (addresses, re-usable): `isolation_restored_on_exit`,
  `isolation_word_is_stack_function`, `isolation_respected_nested`, `isolation_tag_reuse_safe`, `resume_stream_exempt_safe`,
* the life cycle of a thread in an arena at access level (`Model/C16Life.lean`): admission through `my_references` (check-then-add),
  slot occupation, recall, leaving, with the allotment changing under it: `slots_unique_lifecycle`, `references_exact`,
  `workers_inside_bounded`, `admission_recall_consistent`.
Not covered by theorems here (see the evidence file): per-arena `num_workers_active() ≤ allotted` does NOT hold (transient overshoot of
`try_join`, demonstrated by an `example` and observed in the validated traces); what holds instead is `workers_inside_bounded`.
-/
import TbbVerif.Proofs.C16.Allot
import TbbVerif.Proofs.C16.Serializer
import TbbVerif.Proofs.C16.Pending
import TbbVerif.Proofs.C16.GC
import TbbVerif.Proofs.C16.Slots
import TbbVerif.Proofs.C16.World
import TbbVerif.Proofs.C16.IsoInv
import TbbVerif.Proofs.C16.IsoCons
import TbbVerif.Proofs.C16.Mand
import TbbVerif.Proofs.C16.NestThm
import TbbVerif.Proofs.C16.NestAdj
import TbbVerif.Proofs.C16.LifeCount
import TbbVerif.Proofs.C16.Obs

namespace TbbVerif.C16

/-! ## worker allotment (`market::update_allotment`) -/

/-- With consistent market words (`my_total_demand` = sum of the level demands, each level demand = sum of its
clients' requests — what `adjust_demand` maintains) `update_allotment` never divides by zero. -/
theorem allot_defined {soft total mand : Nat} {levels : List (Nat × List Client)} (hwf : WF total levels) :
    ∃ r, allot soft total mand levels = some r := by
  rcases Nat.eq_zero_or_pos soft with rfl | hs
  · obtain ⟨st', oss, h, _⟩ := updateAllotment_zero (total := total) (mand := mand) levels
    exact ⟨oss.map (fun os => os.map (·.allotted)), by simp [allot, h]⟩
  · obtain ⟨st', oss, h, _⟩ := updateAllotment_pos (mand := mand) hs hwf
    exact ⟨oss.map (fun os => os.map (·.allotted)), by simp [allot, h]⟩

/-- **allot_sum.** The workers granted to all arenas sum to `min(total demand, effective limit)`, for every demand
vector, any number of arenas and priority levels.  In the soft-limit-0 case this needs a client that actually
requests the mandatory worker (`min_workers > 0` and `max_workers > 0`) whenever `my_mandatory_num_requested > 0`. -/
theorem allot_sum {soft total mand : Nat} {levels : List (Nat × List Client)} (hwf : WF total levels)
    (hm : soft = 0 → 0 < mand → 0 < total → anyEligible levels)
    {r : List (List Nat)} (h : allot soft total mand levels = some r) :
    (r.map List.sum).sum = min total (effLimit soft mand) := by
  rcases Nat.eq_zero_or_pos soft with rfl | hs
  · obtain ⟨st', oss, hrun, _, hle, hel, _⟩ := updateAllotment_zero (total := total) (mand := mand) levels
    simp [allot, hrun] at h
    subst h
    rw [map_sum_allotted]
    by_cases he : anyEligible levels
    · exact hel he
    · have : min total (effLimit 0 mand) = 0 := by
        rcases Nat.eq_zero_or_pos mand with hz | hmp
        · simp [effLimit, hz]
        · rcases Nat.eq_zero_or_pos total with hz | htp
          · simp [hz]
          · exact absurd (hm rfl hmp htp) he
      omega
  · obtain ⟨st', oss, hrun, _, _, hsum, _⟩ := updateAllotment_pos (mand := mand) hs hwf
    simp [allot, hrun] at h
    subst h
    rw [map_sum_allotted, hsum, effLimit_pos hs]

/-- **allot_le_request.** No arena is granted more than it requested (`max_workers()`). -/
theorem allot_le_request {soft total mand : Nat} {levels : List (Nat × List Client)} (hwf : WF total levels)
    {r : List (List Nat)} (h : allot soft total mand levels = some r) :
    Pointwise (fun lv as => Pointwise (fun c a => a ≤ c.maxW) lv.2 as) levels r := by
  rcases Nat.eq_zero_or_pos soft with rfl | hs
  · obtain ⟨st', oss, hrun, _, _, _, hpw⟩ := updateAllotment_zero (total := total) (mand := mand) levels
    simp [allot, hrun] at h
    subst h
    exact Pointwise.map_right _ (Pointwise.imp (fun lv os hp => Pointwise.map_right _ (Pointwise.imp (fun c o ho => ho.1) hp)) hpw)
  · obtain ⟨st', oss, hrun, _, _, _, hpw⟩ := updateAllotment_pos (mand := mand) hs hwf
    simp [allot, hrun] at h
    subst h
    exact Pointwise.map_right _ (Pointwise.imp (fun lv os hp => Pointwise.map_right _ hp) hpw)

/-- Each priority level receives `min(its demand, what the higher levels left)`. -/
theorem allot_level_sums {soft total mand : Nat} {levels : List (Nat × List Client)} (hs : 0 < soft) (hwf : WF total levels)
    {r : List (List Nat)} (h : allot soft total mand levels = some r) :
    r.map List.sum = shares (levels.map (·.1)) (min total soft) := by
  obtain ⟨st', oss, hrun, hsh, _⟩ := updateAllotment_pos (mand := mand) hs hwf
  simp [allot, hrun] at h
  subst h
  rw [map_sum_allotted, hsh]

/-- **allot_priority.** A level `j` gets a worker only if every higher-priority level `i < j` (smaller index) received its
whole demand. -/
theorem allot_priority {soft total mand : Nat} {levels : List (Nat × List Client)} (hs : 0 < soft) (hwf : WF total levels)
    {r : List (List Nat)} (h : allot soft total mand levels = some r) (i j : Nat) (hij : i < j)
    (hj : 0 < (r.getD j []).sum) : (r.getD i []).sum = (levels.map (·.1)).getD i 0 := by
  have hl := allot_level_sums hs hwf h
  have hget : ∀ k, (r.getD k []).sum = (r.map List.sum).getD k 0 := by
    intro k
    simp only [List.getD_eq_getElem?_getD, List.getElem?_map]
    cases r[k]? <;> simp
  rw [hget] at hj ⊢
  rw [hl] at hj ⊢
  exact shares_priority _ _ i j hij hj

/-- **allot_mandatory.** Soft limit 0 with a mandatory request from a client that asks for workers: exactly one worker is
granted in total, nobody gets more than one, and whoever gets it has `min_workers > 0` and `max_workers > 0`. -/
theorem allot_mandatory {total mand : Nat} {levels : List (Nat × List Client)} (hwf : WF total levels)
    (hm : 0 < mand) (hel : anyEligible levels) {r : List (List Nat)} (h : allot 0 total mand levels = some r) :
    (r.map List.sum).sum = 1 ∧
    Pointwise (fun lv as => Pointwise (fun c a => a ≤ 1 ∧ (0 < a → eligible c)) lv.2 as) levels r := by
  have htot : 0 < total := by
    obtain ⟨lv, hlv, c, hc, he⟩ := hel
    have h1 : c.maxW ≤ lv.1 := by
      rw [hwf.2 lv hlv]; exact nat_le_sum_of_mem (List.mem_map_of_mem hc)
    have h2 : lv.1 ≤ total := by
      rw [hwf.1]; exact nat_le_sum_of_mem (List.mem_map_of_mem hlv)
    have := he.2
    omega
  refine ⟨?_, ?_⟩
  · rw [allot_sum hwf (fun _ _ _ => hel) h]
    simp [effLimit, hm]; omega
  · obtain ⟨st', oss, hrun, _, _, _, hpw⟩ := updateAllotment_zero (total := total) (mand := mand) levels
    simp [allot, hrun] at h
    subst h
    exact Pointwise.map_right _ (Pointwise.imp (fun lv os hp => Pointwise.map_right _ (Pointwise.imp (fun c o ho => ho.2) hp)) hpw)

/-- Soft limit 0: never more than `min(total, effective limit) ≤ 1` workers; none at all without a mandatory request. -/
theorem allot_softzero_none {total mand : Nat} {levels : List (Nat × List Client)}
    {r : List (List Nat)} (h : allot 0 total mand levels = some r) :
    (r.map List.sum).sum ≤ min total (effLimit 0 mand) ∧ (mand = 0 → (r.map List.sum).sum = 0) := by
  obtain ⟨st', oss, hrun, _, hle, _, _⟩ := updateAllotment_zero (total := total) (mand := mand) levels
  simp [allot, hrun] at h
  subst h
  rw [map_sum_allotted]
  refine ⟨hle, fun hz => ?_⟩
  have : effLimit 0 mand = 0 := by simp [effLimit, hz]
  omega

/-! ## the market and the serializer as wired by `threading_control_impl` -/

/-- **market_words_consistent.** From a fresh market, after *any* sequence of `register_client` / `unregister` /
`adjust_demand` / `set_active_num_workers` that the machine accepts, the demand words equal the sums of the clients'
requests: the hypothesis `WF` of the allotment theorems holds in every reachable state. -/
theorem market_words_consistent (soft : Nat) (ops : List WOp) (w : World) (h : (World.init soft).run ops = some w) :
    WF w.market.totalDemand.toNat w.market.levels :=
  (World.run_wf ops _ w (MWF.init soft) h).wf

/-- **allotment_is_current.** In a reachable state, `adjust_demand` leaves in the arenas exactly `allot` of the new words
(so `allot_sum`, `allot_le_request`, `allot_priority`, `allot_mandatory` speak about `my_num_workers_allotted`). -/
theorem allotment_is_current (soft : Nat) (ops : List WOp) (w w' : World) (h : (World.init soft).run ops = some w)
    (id : Nat) (md wd : Int) (hs : w.step (.adjust id md wd) = some w') :
    allot w'.market.softLimit w'.market.totalDemand.toNat w'.market.mandatoryNum.toNat w'.market.levels
      = some w'.market.allotView := by
  have hwf := World.run_wf ops _ w (MWF.init soft) h
  simp only [World.step] at hs
  split at hs
  · simp at hs
  · split at hs
    · split at hs
      · rename_i m2 delta hadj
        simp at hs
        subst hs
        exact (Market.adjust_wf hwf hadj).2
      · simp at hs
    · simp at hs

/-- **workers_within_budget.** In every reachable state (arenas with fewer than `pending_delta_base` worker slots) the sum of
all deltas handed to the thread dispatcher (`adjust_job_count_estimate`) is `min(effective soft limit, total demand)`:
the server is never asked for more workers than the limit (`L - 1` under `global_control`, or the single mandatory
worker when the limit is 0 and a mandatory request is outstanding), nor for more than the arenas demand. -/
theorem workers_within_budget (soft : Nat) (ops : List WOp) (w : World) (hsmall : ∀ o ∈ ops, o.small)
    (h : (World.init soft).run ops = some w) :
    w.proxy.ser.handed =
      min (if w.market.softLimit = 0 ∧ 0 < w.market.mandatoryNum then 1 else (w.market.softLimit : Int)) w.market.totalDemand ∧
    w.proxy.ser.pending = Pack.base := by
  have hinv := World.run_inv ops _ w (WInv.init soft) hsmall h
  refine ⟨?_, hinv.px.pend⟩
  rw [hinv.px.handed, hinv.px.soft, hinv.tot, hinv.lim]
  by_cases he : w.proxy.enabled = true
  · have := hinv.px.en.1 he
    rw [hinv.mand] at this
    simp [he, this]
  · have hne : ¬ (w.userLimit = 0 ∧ 0 < w.market.mandatoryNum) := fun hc => he (hinv.px.en.2 (by rw [hinv.mand]; exact hc))
    have he' : w.proxy.enabled = false := by simpa using he
    simp [he', hne]

/-! ## `arena::update_request` -/

/-- The request handed to the market is clamped into `[0, my_max_num_workers]` (or `[0,1]` for a worker-less arena with a
mandatory request); `min_workers` is 0 or 1 and is 1 exactly when a mandatory request is outstanding. -/
theorem update_request_clamped (a : Arena) (md wd : Int) :
    let a' := (a.updateRequest md wd).1
    a'.minW ≤ 1 ∧ (0 < a'.minW ↔ 0 < a.mandReq + md) ∧
    a'.maxW ≤ (if 0 < a'.minW ∧ a.maxNumWorkers = 0 then 1 else a.maxNumWorkers) ∧
    (a.updateRequest md wd).2 = (a'.maxW : Int) - (a.maxW : Int) := by
  simp only [Arena.updateRequest, clampI]
  refine ⟨by split <;> omega, by split <;> omega, ?_, trivial⟩
  split <;> split <;> (try split) <;> omega

/-! ## `thread_request_serializer` -/

/-- **limit_delta_telescopes.** Whatever the sequence of (aggregated) demand deltas and of soft-limit changes, the sum of
the limited deltas handed to the thread dispatcher equals the change of `min(soft limit, total request)`; in particular
from the initial state (`total = 0`, `handed = 0`, limit ≥ 0) the dispatcher has been asked for exactly
`min(soft limit, total request)` workers. -/
theorem limit_delta_telescopes (ops : List SOp) (s : Serializer) :
    (ops.foldl Serializer.stepOp s).handed - s.handed =
      min (ops.foldl Serializer.stepOp s).softLimit (ops.foldl Serializer.stepOp s).totalRequest
        - min s.softLimit s.totalRequest ∧
    (ops.foldl Serializer.stepOp s).totalRequest = s.totalRequest + (ops.map SOp.delta).sum := by
  have := Serializer.run_telescopes ops s
  exact ⟨by omega, this.2⟩

/-- **pending_delta_roundtrip.** The packed word `base + n·counter + acc` (n pending calls whose deltas sum to `acc`,
`|acc| < base`): adding a delta keeps the layout, extracting returns `acc`, and the drainer test fires exactly for
`n = 0 ∧ acc = 0`. -/
theorem pending_delta_roundtrip {word n : Nat} {acc d : Int} (h : Pack.Layout word n acc)
    (hd0 : -(Pack.base : Int) ≤ acc + d) (hd1 : acc + d < (Pack.base : Int)) (hn : (n + 2) * Pack.counter ≤ 2 ^ 32) :
    Pack.extract word = acc ∧ Pack.extract (Pack.add word d) = acc + d ∧
    Pack.Layout (Pack.add word d) (n + 1) (acc + d) ∧
    (Pack.isDrainer word = true ↔ n = 0 ∧ acc = 0) := by
  have hc := Pack.counter_le
  have hn' : (n + 1) * Pack.counter ≤ 2 ^ 32 :=
    Nat.le_trans (Nat.mul_le_mul_right _ (by omega)) hn
  have hadd := Pack.add_layout h hd0 hd1 (by omega)
  exact ⟨Pack.extract_layout h, Pack.extract_layout hadd, hadd, Pack.isDrainer_layout h hn'⟩

/-- An uninterfered `update(delta)` with `|delta| < pending_delta_base` is the drainer and applies exactly `delta`. -/
theorem serializer_update_is_apply (s : Serializer) (d : Int) (hp : s.pending = Pack.base)
    (h0 : -(Pack.base : Int) ≤ d) (h1 : d < (Pack.base : Int)) :
    s.update d = ((s.apply d).1, some (s.apply d).2) :=
  Serializer.update_eq_apply s d hp h0 h1

/-- **pending_delta_no_loss.** Any number of threads (`< 2^16 - 2` for the 16-bit call counter) call `update(delta_t)`
concurrently, `Σ|delta_t| < pending_delta_base`: under every schedule, once all calls have returned, `my_total_request`
is the sum of all deltas (none lost, none counted twice), the word is back at `pending_delta_base`, and the thread
dispatcher has been asked for `min(limit, total) - min(limit, 0)` workers. -/
theorem pending_delta_no_loss (soft : Int) (deltas : List Int) (hsmall : (deltas.map absI).sum < Pack.base)
    (hfew : (deltas.length + 2) * Pack.counter ≤ 2 ^ 32) (sched : List Tid)
    (hdone : ∀ th ∈ ((pendSys soft deltas).run sched).ths, th.pc = 3) :
    let s := (pendSys soft deltas).run sched
    s.ser.totalRequest = deltas.sum ∧ s.ser.pending = Pack.base ∧
    s.ser.handed = min soft deltas.sum - min soft 0 := by
  have hinv := PInv.run soft deltas hsmall hfew sched
  have hfin := PInv.final hinv hdone
  have hd := pendSys_deltas soft deltas sched
  simp only
  rw [hd] at hfin
  refine ⟨hfin.1, hfin.2.1, ?_⟩
  rw [hfin.2.2, hfin.1]

/-! ## `global_control` -/

/-- **gc_active_is_min.** For `max_allowed_parallelism` (`is_first_arg_preferred(a,b) = a < b`), after any sequence of
`global_control` constructions and destructions, while at least one control is alive the active value is the minimum of
the live values (and it is one of them). -/
theorem gc_active_is_min (dflt : Nat) (ops : List GOp) :
    let g := ({ preferMin := true, dflt := dflt } : GC).run ops
    g.live ≠ [] → g.active = listMin (g.live.map (·.2)) ∧ g.active ∈ g.live.map (·.2) ∧
      ∀ v ∈ g.live.map (·.2), g.active ≤ v := by
  intro g hne
  have hinv := GInv.run ops _ (GInv.init true dflt)
  have hact := hinv.act (GC.run_preferMin _ ops) hne
  have hne' : g.live.map (·.2) ≠ [] := by simpa using hne
  refine ⟨hact, ?_, ?_⟩
  · rw [hact]; exact listMin_mem hne'
  · intro v hv; rw [hact]; exact listMin_le hv

/-- **gc_applied_is_active.** Whenever `apply_active` has been called at all, its last argument is the current active value
(the minimum of the live controls, or the default when none is alive): `threading_control::set_active_num_workers` was
last called with `active value - 1`. -/
theorem gc_applied_is_active (pm : Bool) (dflt : Nat) (ops : List GOp) :
    let g := ({ preferMin := pm, dflt := dflt } : GC).run ops
    g.applied ≠ [] → g.applied.getLast? = some g.activeValue := by
  intro g happ
  have hinv := GInv.run ops _ (GInv.init pm dflt)
  unfold GC.activeValue
  by_cases he : g.live = []
  · simp [he]; exact hinv.lastEmpty he happ
  · have : g.live.isEmpty = false := by simpa using he
    simp [this]; exact hinv.last he

/-! ## slot occupation -/

/-- **slots_unique.** For every arena shape, every number of threads (workers or not, each with an arbitrary sequence of
start-index choices, entering and leaving any number of times) and every schedule: a slot is owned by at most one thread,
owned indices are `< num_slots` and marked occupied, and a worker never owns a reserved slot. -/
theorem slots_unique (cfg : SCfg) (threads : List (Bool × List Nat)) (sched : List Tid) :
    let s := (slotSys cfg threads).run sched
    (∀ t1 t2 i, s.holds t1 i → s.holds t2 i → t1 = t2) ∧
    (∀ t i, s.holds t i → i < cfg.numSlots ∧ s.occ[i]? = some true) ∧
    (∀ (t : Nat) (i : Nat) (th : STh), s.ths[t]? = some th → th.slot = some i → th.worker = true → cfg.reserved ≤ i) := by
  have hinv := SInv.run cfg threads sched
  refine ⟨?_, ?_, ?_⟩
  · rintro t1 t2 i ⟨th1, h1, hs1⟩ ⟨th2, h2, hs2⟩
    exact hinv.uniq t1 t2 th1 th2 i h1 h2 hs1 hs2
  · rintro t i ⟨th, h1, hs⟩
    have := hinv.own t th i h1 hs
    exact ⟨this.1, this.2.1⟩
  · intro t i th h1 hs hw
    exact (hinv.own t th i h1 hs).2.2 hw

/-- **slots_bound.** Under every schedule the number of threads inside the arena equals the number of occupied slots and
is therefore at most `num_slots` (= `max_concurrency`, or 2 for a one-slot arena with a reserved slot). -/
theorem slots_bound (cfg : SCfg) (threads : List (Bool × List Nat)) (sched : List Tid) :
    let s := (slotSys cfg threads).run sched
    s.insideCount = s.occ.count true ∧ s.insideCount ≤ cfg.numSlots := by
  have hinv := SInv.run cfg threads sched
  refine ⟨hinv.cnt, ?_⟩
  unfold SSt.insideCount
  rw [hinv.cnt, ← hinv.len]
  exact List.count_le_length

/-! ## isolation (`this_task_arena::isolate`) -/

/-- **isolation_respected.** For every number of slots and every sequence of operations (dispatch loops entered and left,
`isolate` regions opened and closed — nested at will —, plain / affinitized (proxy + mailbox) / enqueued / critical spawns, idle
flags, and takes at every take point: own pool, steal from any slot, mailbox, fifo stream, critical stream), each executed task
`e.task` was taken by a dispatch loop whose isolation word `e.iso` equals the ghost region `e.ghost` the loop waits in, carries
as tag the ghost region it was spawned in, and — if the loop waits inside a region — was spawned in exactly that region.  The
filters, the isolation argument handed to each take point and the tags are the generated definitions. -/
theorem isolation_respected (n : Nat) (ops : List Iso.IOp) :
    ∀ e ∈ ((Iso.ISt.init n).run ops).log,
      e.iso = e.ghost ∧ e.task.tag = e.task.region ∧ (e.ghost = 0 ∨ e.task.region = e.ghost) ∧ (e.iso = 0 ∨ e.task.tag = e.iso) := by
  intro e he
  have h := ((Iso.G.init n).run ops).log e he
  refine ⟨h.1, h.2.1, h.2.2, ?_⟩
  rcases h.2.2 with h0 | h1
  · left; rw [h.1]; exact h0
  · right; rw [h.2.1, h.1]; exact h1

/-- **isolation_no_loss.** Skipping loses nothing and duplicates nothing: at every moment the executed tasks together with the
plain tasks in the pools, the tasks of the unclaimed proxies, the fifo stream and the critical stream are a permutation of the
tasks ever created (whose ids are pairwise distinct); and every unclaimed proxy is physically present in a pool *and* in a
mailbox — a task that an isolated thread skipped is still where a thread without isolation finds it. -/
theorem isolation_no_loss (n : Nat) (ops : List Iso.IOp) :
    let s := (Iso.ISt.init n).run ops
    (s.log.map (·.task) ++ ((s.pools.map Iso.plainTasks).flatten ++ Iso.liveTasks s.proxies s.claimed ++ s.fifo ++ s.crit)).Perm s.spawned ∧
    (s.spawned.map (·.id)).Nodup ∧
    (∀ p ∈ s.proxies, p.pid ∉ s.claimed →
      (∃ (i : Nat) (pool : Iso.Pool), s.pools[i]? = some pool ∧ some (Iso.Entry.proxy p) ∈ pool) ∧
      (∃ (i : Nat) (box : List Iso.PEntry), s.mail[i]? = some box ∧ p ∈ box)) := by
  intro s
  have h : Iso.R s := (Iso.R.init n).run ops
  refine ⟨?_, ?_, h.present⟩
  · rw [List.perm_iff_count]
    intro x
    have hc := h.count x
    have hp : Iso.poolCount x s.pools = ((s.pools.map Iso.plainTasks).flatten).count x := by
      rw [List.count_flatten, List.map_map]; rfl
    simp only [Iso.cnt] at hc
    simp only [List.count_append]
    omega
  · rw [h.ids]; exact List.nodup_range

/-- **isolation_filters_pass_nonisolated.** A thread that is not isolated (isolation word 0) is refused by none of the filters:
whatever an isolated thread skipped, any non-isolated owner, thief, mailbox owner or stream reader may take. -/
theorem isolation_filters_pass_nonisolated (tag : Nat) :
    Generated.C16.isoOwnOmit 0 tag = false ∧ Generated.C16.isoStealOk 0 tag = true ∧
    (Generated.C16.isoMailGuard 0 && Generated.C16.isoMailSkip 0 tag) = false ∧ Generated.C16.isoFifoOk true 0 = true ∧
    (!Generated.C16.isoCritSpecific (Generated.C16.isoArgCrit1 0) || Generated.C16.isoCritMatch true (Iso.argCrit 0) tag) = true :=
  Iso.gen_nonisolated tag


/-! ## isolation as a stack discipline (`isolate_within_arena` nested at will, per task dispatcher) -/

/-- **isolation_restored_on_exit.**  Any reachable state `s0`, thread `t` attached to dispatcher `d` (word `dp0.ed`, frame stack
`dp0.stack`), calls `isolate_within_arena` (explicit tag `x` or the address `f`); *anything* happens (`body`: nested isolates, waits,
takes, spawns, other threads, stack switches …) and the call is about to return on that dispatcher — its region frame is on top of the
stack it was called on.  Then after the return, **normal or by exception** (`thrown`), the dispatcher's isolation word and stack are
those of the call site; that word is `ctxTag` of the stack, i.e. the tag of the innermost enclosing region (0 inside
`task_arena::execute` or at the bottom of a dispatcher, the running task's tag inside a task); and a dispatch loop entered next
(`tg.wait()`, `parallel_for` … after a NESTED `isolate` returned) has exactly that word as its isolation constant.  What
`isolate_within_arena` saves, when, how the completion lambda captures it and on which paths it runs are the generated definitions
(`isoPrevInit`, `isoBodyAssignsPrev`, `isoCompletionByRef`, `isoRestoreOnReturn/Throw`; lemmas `gen_captured`, `gen_restore*`). -/
theorem isolation_restored_on_exit (n : Nat) (pre body : List Nest.NOp) (t x f : Nat) (thrown : Bool) (d : Nat) (dp0 dp2 : Nest.Disp) :
    let s0 := (Nest.NSt.init n).run pre
    let s2 := (s0.step (.isolate t x f)).run body
    s0.dispOf t = some (d, dp0) → s2.dispOf t = some (d, dp2) →
    (∃ p sr r tg e, dp2.stack = Nest.Fr.region p sr r tg e :: dp0.stack) →
    (∃ dp3, (s2.step (.endIsolate t thrown)).dispOf t = some (d, dp3) ∧ dp3.ed = dp0.ed ∧ dp3.stack = dp0.stack ∧
      ∃ dp4 g se sr c, ((s2.step (.endIsolate t thrown)).step (.wait t)).dispOf t = some (d, dp4) ∧
        dp4.stack = Nest.Fr.loop dp0.ed g se sr c false :: dp0.stack) ∧
    dp0.ed = Nest.ctxTag dp0.stack := by
  intro s0 s2 h0 h2 ⟨p, sr, r, tg, e, hst⟩
  have i0 : Nest.NInv s0 := Nest.NInv.reach n pre
  have i2 : Nest.NInv s2 := (i0.step _).run body
  obtain ⟨h3, hctx⟩ := Nest.restored i0 i2 h0 h2 hst thrown
  exact ⟨⟨_, h3, rfl, rfl, _, _, _, _, _, Nest.wait_after h3, rfl⟩, hctx⟩

/-- **isolation_word_is_stack_function.**  In every reachable state, on every task dispatcher (default dispatchers of the slots and
coroutines alike) the isolation word equals `ctxTag` of its frame stack and every frame on the stack saved the `ctxTag` of the frames
below it.  In particular a dispatcher at rest (empty stack: a slot a worker is about to join, a cached coroutine) carries
`no_isolation`, and a functor run by `task_arena::execute` starts without isolation whatever the caller's region was. -/
theorem isolation_word_is_stack_function (n : Nat) (ops : List Nest.NOp) :
    ∀ dp ∈ ((Nest.NSt.init n).run ops).disps, dp.ed = Nest.ctxTag dp.stack ∧ Nest.WFS dp.stack ∧ (dp.stack = [] → dp.ed = 0) := by
  intro dp hdp
  have h := (Nest.NInv.reach n ops).disps dp hdp
  exact ⟨h.2.2.2.1, h.2.2.2.2, fun he => by rw [h.2.2.2.1, he]; rfl⟩

/-- **isolation_respected_nested.**  For every number of slots and every sequence of operations (dispatch loops, `isolate` with
address or explicit tags nested at will, returning normally or by exception, `task_arena::execute`, spawns, every take point incl. the
critical task that displaces a stolen / bypassed / initial task, bypassed tasks, resume tasks, new coroutines and arbitrary stack
switches): every task a dispatch loop starts (resume tasks excepted) is started under an isolation constant `e.iso` that is `ctxTag`
of the frames below the loop — the tag of the innermost `isolate` region the waiting code is in — and, if that is not `no_isolation`,
the dispatcher's isolation word while the task runs (`e.edAt`: the word every spawn of that task copies) equals it; for a task that
was taken from a container this word is the task's own tag.  (For a bypassed task this is the code's assertion
`isolation == no_isolation || isolation == ed.isolation`.) -/
theorem isolation_respected_nested (n : Nat) (ops : List Nest.NOp) :
    ∀ e ∈ ((Nest.NSt.init n).run ops).log, e.resume = false →
      e.iso = Nest.ctxTag e.below ∧ (e.iso = 0 ∨ e.edAt = e.iso) ∧ (e.bypass = false → e.edAt = e.task.tag) := by
  intro e he hr
  have h := ((Nest.NInv.reach n ops).log e he).1 hr
  exact ⟨h.1, h.2.1, h.2.2.1⟩

/-- **isolation_tag_reuse_safe.**  What holds when tag values are re-used (the tag is the address of a stack object: a later region
entered at the same stack depth gets the same word).  Regions are identified by ghost ids.  Whenever a loop waiting in region
`e.ghost` under a non-zero isolation constant starts a task spawned in region `e.task.region`, then either the two regions are the
same; or one of them was **no longer live** at that moment (its `isolate` call had returned: the task outlived its region and a later
region re-used the tag, or the waiting code itself is a task that outlived its region); or both tags were passed explicitly
(`isolated_task_group`, `collaborative_call_once`: sharing is the purpose).  Hence, for address tags: if every region's tasks finish
before its `isolate` call returns (`tLive ∧ gLive` at every take — true for every parallel algorithm and every `task_group` waited
for inside the region), a thread waiting inside a region executes only tasks of *that* region.  The remaining case is real: see the
`example` below (a task of an ended region executed by the waiter of a later region with the same address) and the known finding
`isolation-tag-reuse-foreign-task-in-later-region` (reproduced on the real library). -/
theorem isolation_tag_reuse_safe (n : Nat) (ops : List Nest.NOp) :
    ∀ e ∈ ((Nest.NSt.init n).run ops).log, e.resume = false → e.iso ≠ 0 →
      (e.task.region = e.ghost ∨ e.tLive = false ∨ e.gLive = false ∨ e.bothExpl = true) ∧
      (e.tLive = true → e.gLive = true → e.bothExpl = false → e.task.region = e.ghost) := by
  intro e he hr hne
  have h := (((Nest.NInv.reach n ops).log e he).1 hr).2.2.2 hne
  refine ⟨h, fun h1 h2 h3 => ?_⟩
  rcases h with h | h | h | h
  · exact h
  · rw [h1] at h; cases h
  · rw [h2] at h; cases h
  · rw [h3] at h; cases h

/-- **isolation_direct_wait.**  The literal case of the property — *a thread that waits inside `this_task_arena::isolate`*: the
dispatch loop was entered directly from the functor of an `isolate` call (the frame under the loop is that call's region frame, region
`r`, tag `τ`).  Then the loop's isolation constant is `τ`, the ghost region it waits in is `r`, and `r` is live; so every task it starts
carries tag `τ` and was spawned in region `r` itself — or in an earlier region that had ended before (its `isolate` call had returned
while the task was still pending) and whose tag was the same word — or both regions were entered with the same explicit tag. -/
theorem isolation_direct_wait (n : Nat) (ops : List Nest.NOp) :
    ∀ e ∈ ((Nest.NSt.init n).run ops).log, e.resume = false → ∀ p s r τ x rest, e.below = Nest.Fr.region p s r τ x :: rest →
      e.iso = τ ∧ e.ghost = r ∧ e.gLive = true ∧ (τ = 0 ∨ e.edAt = τ) ∧
      (τ ≠ 0 → e.task.region = r ∨ e.tLive = false ∨ e.bothExpl = true) := by
  intro e he hr p s r τ x rest hb
  have h1 := ((Nest.NInv.reach n ops).log e he).1 hr
  have h2 := (((Nest.AInv.init n).run ops).log e he) p s r τ x rest hb
  have hiso : e.iso = τ := by rw [h1.1, hb]; rfl
  refine ⟨hiso, h2.1, h2.2, by rw [← hiso]; exact h1.2.1, fun hne => ?_⟩
  have := h1.2.2.2 (by rw [hiso]; exact hne)
  rw [h2.1, h2.2] at this
  rcases this with h | h | h | h
  · exact Or.inl h
  · exact Or.inr (Or.inl h)
  · cases h
  · exact Or.inr (Or.inr h)

/-- **resume_stream_exempt_safe.**  The resume stream is read without any isolation test.  What follows: a resume task carries
`no_isolation` and belongs to no region; taking it leaves the taker's dispatcher with `no_isolation` as the running task's tag
(nothing a resume task does is tagged); it changes no other dispatcher, and attaching a thread to another dispatcher (the stack
switch of suspend / resume / recall) changes no dispatcher at all — the resumed stack continues with its own isolation word and frame
stack, and by `isolation_word_is_stack_function` that word is still `ctxTag` of its stack. -/
theorem resume_stream_exempt_safe (n : Nat) (ops : List Nest.NOp) :
    let s := (Nest.NSt.init n).run ops
    (∀ e ∈ s.log, e.resume = true → e.task.tag = 0 ∧ e.task.region = 0 ∧ e.edAt = 0) ∧
    (∀ t k d dp d', s.dispOf t = some (d, dp) → d' ≠ d → (s.step (.popResume t k)).disps[d']? = s.disps[d']?) ∧
    (∀ t d, (s.step (.attach t d)).disps = s.disps) := by
  intro s
  refine ⟨fun e he hr => ((Nest.NInv.reach n ops).log e he).2 hr, ?_, fun t d => Nest.attach_disps s t d⟩
  intro t k d dp d' h hne
  exact Nest.popResume_others h d' hne


/-! ## the life cycle of a thread in an arena: admission through `my_references`, slot, recall, leaving -/

/-- **slots_unique_lifecycle / slots_bound_lifecycle.**  "Executing inside the arena" = owning a slot (from the successful
`try_occupy` exchange to the `release()` store).  For every arena shape, any number of worker and application threads, and every
interleaving (one step per atomic access) of `is_joinable()` probes, `try_join` (check-then-add on `my_references`),
`occupy_free_slot`, `is_recall_requested()` polls, `release()`, `on_thread_leaving`, allotment changes by the market at any moment,
and references taken / dropped by `task_arena` objects, coroutines and `r1::resume`: a slot is owned by at most one thread, owned
indices are `< num_slots` and marked occupied, a worker never owns a reserved slot, the threads inside number exactly the occupied
slots, hence at most `num_slots` (= `max_concurrency`; 2 for a one-thread arena: the extra worker of the property text) — also
while more workers have *joined* than the arena is allotted (the transient overshoot of `try_join`). -/
theorem slots_unique_lifecycle (cfg : SCfg) (threads : List (Bool × List Nat)) (ext0 : Nat) (ops : List Life.LOp) :
    let s := (Life.LSt.init cfg threads ext0).run cfg ops
    (∀ (t1 t2 i : Nat) (th1 th2 : Life.LTh), s.ths[t1]? = some th1 → s.ths[t2]? = some th2 → th1.sth.slot = some i → th2.sth.slot = some i → t1 = t2) ∧
    (∀ (t i : Nat) (th : Life.LTh), s.ths[t]? = some th → th.sth.slot = some i →
      i < cfg.numSlots ∧ s.occ[i]? = some true ∧ (th.sth.worker = true → cfg.reserved ≤ i)) ∧
    s.inside = s.occ.count true ∧ s.inside ≤ cfg.numSlots := by
  intro s
  have h : Life.LInv cfg s := (Life.LInv.init cfg threads ext0).run cfg ops
  refine ⟨?_, ?_, ?_, ?_⟩
  · intro t1 t2 i th1 th2 h1 h2 hs1 hs2
    exact h.slots.uniq t1 t2 th1.sth th2.sth i (Life.proj_get h1) (Life.proj_get h2) hs1 hs2
  · intro t i th h1 hs
    exact h.slots.own t th.sth i (Life.proj_get h1) hs
  · have := h.slots.cnt
    simpa [Life.LSt.inside, Life.LSt.proj, List.countP_map, Function.comp_def] using this
  · have hc := h.slots.cnt
    have hl := h.slots.len
    have : s.inside = s.occ.count true := by
      simpa [Life.LSt.inside, Life.LSt.proj, List.countP_map, Function.comp_def] using hc
    rw [this]
    have : s.occ.length = cfg.numSlots := by simpa [Life.LSt.proj] using hl
    rw [← this]
    exact List.count_le_length

/-- **references_exact.**  Under every interleaving the worker field of `my_references` equals the number of threads that hold a
worker reference (joined by `try_join`, not yet through `on_thread_leaving`) plus the `r1::resume` calls in flight — no reference is
lost or counted twice, so the field is 0 exactly when no such thread exists (the arena is not destroyed under a worker) — and
`num_workers_active()` is that number (plus the carry of the external field, 0 while fewer than `2^ref_external_bits` external
references exist). -/
theorem references_exact (cfg : SCfg) (threads : List (Bool × List Nat)) (ext0 : Nat) (ops : List Life.LOp) :
    let s := (Life.LSt.init cfg threads ext0).run cfg ops
    s.refsW = s.holders + s.transient ∧
    Life.active s.refs = s.refsE / Life.refWorker + (s.holders + s.transient) ∧
    (s.refsE < Life.refWorker → Life.active s.refs = s.holders + s.transient) := by
  intro s
  have h : Life.LInv cfg s := (Life.LInv.init cfg threads ext0).run cfg ops
  have ha := Life.active_refs s
  rw [h.refs] at ha
  refine ⟨h.refs, ha, fun hlt => ?_⟩
  rw [ha, Nat.div_eq_of_lt hlt]; exact Nat.zero_add _

/-- **workers_inside_bounded.**  The strongest bound that holds at every instant for the workers *inside* an arena (owning a slot):
every one of them holds a worker reference, so they number at most `num_workers_active()`; and they number at most
`num_slots − reserved` (= `my_max_num_workers`, or the one slot kept for the mandatory worker of a one-thread arena), whatever the
allotment.  What does **not** hold is `num_workers_active() ≤ my_num_workers_allotted`: `try_join` is check-then-add (see the
example below: two workers pass the check against an allotment of 1, both add); the excess is bounded by the slots as stated and is
corrected by recall — a worker whose `is_recall_requested()` poll sees `active > allotted` is the only kind of worker that leaves
(`exit_` is enabled for a worker only after such a poll). -/
theorem workers_inside_bounded (cfg : SCfg) (threads : List (Bool × List Nat)) (ext0 : Nat) (ops : List Life.LOp) :
    let s := (Life.LSt.init cfg threads ext0).run cfg ops
    (∀ (t : Nat) (th : Life.LTh), s.ths[t]? = some th → th.sth.worker = true → th.sth.slot.isSome = true → th.holdsRef = true) ∧
    s.workersInside ≤ s.holders ∧ s.workersInside ≤ Life.active s.refs ∧ s.workersInside ≤ cfg.numSlots - cfg.reserved := by
  intro s
  have h : Life.LInv cfg s := (Life.LInv.init cfg threads ext0).run cfg ops
  have h1 := Life.workersInside_le_holders h
  refine ⟨fun t th hth hw hs => Life.worker_inside_holds h hth hw hs, h1, ?_, Life.workersInside_le h⟩
  have ha := Life.active_refs s
  rw [h.refs] at ha
  generalize s.refsE / Life.refWorker = q at ha
  omega

/-- **admission_recall_consistent.**  The two generated comparisons (`is_joinable`: `num_workers_active() < allotted`,
`is_recall_requested`: `num_workers_active() > allotted`) fit together: a worker admitted by a passing check does not find itself
recalled (absent other joiners and allotment changes), and after a recalled worker has left the arena is not joinable again — at a
fixed allotment the population neither oscillates nor exceeds the allotment by the admission rule alone (an off-by-one in either
comparison breaks this). -/
theorem admission_recall_consistent (act allot : Nat) :
    (Generated.C16.joinableCond act allot = true → Generated.C16.recallCond (act + 1) allot = false) ∧
    (Generated.C16.recallCond (act + 1) allot = true → Generated.C16.joinableCond act allot = false) ∧
    (Generated.C16.joinableCond act allot = true ↔ act < allot) := by
  refine ⟨?_, ?_, ?_⟩ <;> simp [Generated.C16.joinableCond, Generated.C16.recallCond] <;> omega

/-! ## mandatory concurrency -/

/-- **mandatory_balanced.** Any number of threads run any programs of `enqueue` / `spawn` / `out_of_work` / fifo pops / leaving
external threads on one arena, under every schedule (one step per atomic access to the two `atomic_flag` words): the arena's
`my_mandatory_requests` plus the deltas already decided but not yet delivered equals 1 if the mandatory flag is set (or being
cleared) and 0 otherwise; the market's count equals the arena's; the same holds for the serializer proxy's counter;
`min_workers` is 1 exactly when the arena's count is positive; a busy flag always belongs to the thread that is inside its
`try_clear_if`.  At rest all three counters are 1 iff the flag is set. -/
theorem mandatory_balanced (cfg : Mand.MCfg) (progs : List (List Mand.Act)) (sched : List Tid) :
    let s := (Mand.mandSys cfg progs).run sched
    (s.sh.arena.mandReq + (s.ths.map Mand.inflightMkt).sum = Mand.flagBit s.sh.mand ∧
     s.sh.marketMand = s.sh.arena.mandReq ∧
     s.sh.proxyMand + (s.ths.map Mand.inflightSer).sum = Mand.flagBit s.sh.mand ∧
     s.sh.arena.minW = (if s.sh.arena.mandReq > 0 then 1 else 0)) ∧
    (s.quiescent →
      (s.sh.mand = .unset ∨ s.sh.mand = .set) ∧
      s.sh.arena.mandReq = Mand.flagBit s.sh.mand ∧ s.sh.marketMand = Mand.flagBit s.sh.mand ∧ s.sh.proxyMand = Mand.flagBit s.sh.mand ∧
      s.sh.arena.minW = (if s.sh.mand = .set then 1 else 0)) := by
  intro s
  have h1 := Mand.mand_inv cfg progs sched
  have h2 := Mand.mand_quiescent cfg progs sched
  exact ⟨⟨h1.1, h1.2.1, h1.2.2.1, h1.2.2.2.1⟩, fun hq => by
    have := h2 hq
    exact ⟨this.1, this.2.2.1, this.2.2.2.1, this.2.2.2.2.1, this.2.2.2.2.2⟩⟩

/-- **mandatory_withdrawn.** From any reachable state at rest in which the mandatory flag is set and no enqueued task is left,
one `out_of_work()` call (run alone) clears the flag and brings the arena's, the market's and the serializer's mandatory counts
and `min_workers` back to 0 — whatever `has_tasks()` answers (`ht`: a slot may still hold a spawned task, so that the pool-state
flag is *not* cleared) and whatever the pool-state flag is. -/
theorem mandatory_withdrawn (cfg : Mand.MCfg) (progs : List (List Mand.Act)) (sched : List Tid) (t : Nat) (th : Mand.MTh)
    (ht : Bool) (rest : List Mand.Act) :
    let s := (Mand.mandSys cfg progs).run sched
    s.quiescent → s.sh.mand = .set → s.sh.hasEnq = false → s.ths[t]? = some th → th.prog = .oow ht :: rest →
    ∃ n, n ≤ 10 ∧
      let s' := (Mand.mandSys cfg progs).runFrom s (List.replicate n t)
      s'.quiescent ∧ s'.sh.mand = .unset ∧ s'.sh.arena.mandReq = 0 ∧ s'.sh.marketMand = 0 ∧ s'.sh.proxyMand = 0 ∧
      s'.sh.arena.minW = 0 :=  by
  intro s hq hm he hth hp
  obtain ⟨k, hk, h⟩ := Mand.mand_withdrawn cfg progs sched t th ht rest hq hm he hth hp
  exact ⟨k, hk, h.1, h.2.1, h.2.2.1, h.2.2.2.1, h.2.2.2.2.1, h.2.2.2.2.2.1⟩

/-- **no_worker_without_mandatory.** Under `max_allowed_parallelism = 1` (soft limit 0) an allotment computed while the
market's mandatory count is 0 grants no worker to any arena: together with `mandatory_withdrawn`, an arena that has run out of
enqueued work does not keep a worker. -/
theorem no_worker_without_mandatory {total : Nat} {levels : List (Nat × List Client)} {r : List (List Nat)}
    (h : allot 0 total 0 levels = some r) : (r.map List.sum).sum = 0 :=
  (allot_softzero_none h).2 rfl

/-! ## scheduler observers -/

/-- **observer_balanced.** After any sequence of threads joining and leaving the arena (workers, `execute`, thread
termination), re-notifications in the dispatch loop, and observers being activated and deactivated: on every thread `t` and for
every observer proxy `p`, exits never exceed entries and at most one entry is outstanding (the calls alternate, starting with an
entry); a thread that is outside has received an exit for every entry of every observer that is still active; a thread inside
has exactly one outstanding entry for each active observer its `my_last_observer` covers.  The presence of the notification
calls on every join / leave path is generated. -/
theorem observer_balanced (n : Nat) (ops : List Obs.OOp) (t p : Nat) :
    let s := (Obs.OSt.init n).run ops
    Obs.exits s.log t p ≤ Obs.entries s.log t p ∧ Obs.entries s.log t p ≤ Obs.exits s.log t p + 1 ∧
    (s.inside.getD t false = false → s.active.getD p false = true → Obs.entries s.log t p = Obs.exits s.log t p) ∧
    (s.inside.getD t false = true → s.active.getD p false = true →
        Obs.entries s.log t p = Obs.exits s.log t p + (if p < s.last.getD t 0 then 1 else 0)) := by
  intro s
  have h := Obs.obs_balanced n ops t p
  exact ⟨h.1, h.2.1, h.2.2.1, h.2.2.2.1⟩

/-! ## non-vacuity -/

/-- three levels, five arenas, limit 5 < demand 11: `WF` holds and the allotment is `[[2],[2,1],[0,0]]`
(carry: level 1 splits 3 workers over requests 3 and 4, last registered first, as 2 and 1). -/
example : WF 11 [(2, [⟨0, 2⟩]), (7, [⟨0, 3⟩, ⟨1, 4⟩]), (2, [⟨0, 1⟩, ⟨0, 1⟩])] ∧
    allot 5 11 0 [(2, [⟨0, 2⟩]), (7, [⟨0, 3⟩, ⟨1, 4⟩]), (2, [⟨0, 1⟩, ⟨0, 1⟩])] = some [[2], [2, 1], [0, 0]] := by
  decide

/-- soft limit 0, one mandatory request in the lower level: the single worker goes there -/
example : anyEligible [(2, [⟨0, 2⟩]), (7, [⟨0, 3⟩, ⟨1, 4⟩])] ∧
    allot 0 9 1 [(2, [⟨0, 2⟩]), (7, [⟨0, 3⟩, ⟨1, 4⟩])] = some [[0], [0, 1]] := by
  decide

/-- inconsistent words are rejected, not defaulted: a client asks for workers at a level whose demand word is 0 -/
example : allot 3 4 0 [(0, [⟨0, 4⟩])] = none := by decide

/-- a reachable world: two arenas, limit 3, demands 4 and 2 (level 0 served first): allotment [[2],[1],…], 3 workers requested -/
example : ((World.init 3).run [.reg 1 1 4, .reg 2 0 2, .adjust 1 0 4, .adjust 2 1 2]).map
    (fun w => (w.market.allotView.take 2, w.proxy.ser.handed)) = some ([[2], [1]], 3) := by decide

/-- the packed word with two pending calls (+3, −5) -/
example : Pack.Layout (Pack.add (Pack.add Pack.base 3) (-5)) 2 (-2) := by
  have h1 := Pack.add_layout (d := 3) Pack.layout_base (by decide) (by decide) (by decide)
  have h2 := Pack.add_layout (d := -5) h1 (by decide) (by decide) (by decide)
  simpa using h2

/-- two threads, two slots, one reserved: after this schedule thread 0 (external) owns slot 0 and thread 1 (worker) slot 1 -/
example : ((slotSys ⟨2, 1⟩ [(false, [0]), (true, [0])]).run [0, 1, 0, 1, 0, 1]).insideCount = 2 := by decide

/-- global_control: live values 4, 2, 8 then the 2 is destroyed: active goes 4 → 2 → 2 → 4 -/
example : (({ preferMin := true, dflt := 16 } : GC).run [.create 1 4, .create 2 2, .create 3 8, .destroy 2]).active = 4 := by
  decide

/-- The same storage code with the default comparator direction (`thread_stack_size`, "prefer max"): after destroying a
control the code takes `*my_list.begin()`, i.e. the *smallest* remaining value although a larger one is alive. -/
example : (({ preferMin := false, dflt := 0 } : GC).run [.create 1 4, .create 2 2, .create 3 8, .destroy 2]).active = 4 := by
  decide

/-- isolation: thread 0 spawns a task, opens region 7, spawns a second task and waits: its own-pool scan skips nothing of region 7
and never returns the outer task; thread 1 (not isolated) steals the outer task -/
example : (((Iso.ISt.init 2).run [.wait 0, .wait 1, .spawn 0, .isolate 0 7, .spawn 0, .wait 0, .own 0, .own 0, .steal 1 0]).log.map
    (fun e => (e.thread, e.task.id, e.iso))) = [(0, 1, 7), (1, 0, 0)] := by decide

/-- isolation: a mailed task of region 7 in the mailbox of an isolated thread of region 9 is skipped there and taken by its
non-isolated sender from the pool handle -/
example : (((Iso.ISt.init 2).run [.wait 0, .wait 1, .isolate 0 7, .spawnAff 0 1, .isolate 1 9, .wait 1, .mailbox 1, .endIsolate 0,
    .own 0]).log.map (fun e => (e.thread, e.task.id, e.iso))) = [(0, 0, 0)] := by decide


/-- nested isolation: thread 0 spawns task 0 outside, opens region 1 (tag 7), spawns task 1, opens the nested region 2 (tag 9), spawns
task 2, the nested region is left BY EXCEPTION; a wait in the enclosing region takes task 1 only (isolation 7 again: tasks 2 and 0 are
skipped); thread 1 (not isolated) steals task 0 -/
example : (((Nest.NSt.init 2).run [.wait 0, .wait 1, .spawn 0, .isolate 0 0 7, .spawn 0, .isolate 0 0 9, .spawn 0, .endIsolate 0 true,
    .wait 0, .own 0, .own 0, .own 0, .steal 1 0]).log.map (fun e => (e.thread, e.task.id, e.iso, e.below.length))) = [(0, 1, 7, 2), (1, 0, 0, 0)] := by
  decide

/-- tag re-use: region 1 (tag 7) spawns task 0 and returns without waiting; region 2 is entered at the same address (tag 7 again);
its waiter takes task 0 — a task of region 1, which is no longer live -/
example : (((Nest.NSt.init 1).run [.wait 0, .isolate 0 0 7, .spawn 0, .endIsolate 0 false, .isolate 0 0 7, .wait 0, .own 0]).log.map
    (fun e => (e.task.id, e.iso, e.task.region, e.ghost, e.tLive, e.gLive))) = [(0, 7, 1, 2, false, true)] := by decide

/-- a live tag is not handed out twice (environment assumption of `isolate`): the second and third `isolate` are rejected -/
example : (((Nest.NSt.init 2).run [.wait 0, .isolate 0 0 7, .isolate 0 0 7, .wait 1, .isolate 1 0 7]).disps.map (·.stack.length)) = [2, 1] := by
  decide

/-- `task_arena::execute` inside a region: the functor runs without isolation, the region's word is back afterwards; a resume task is
taken by an isolated waiter (no filter) and leaves `no_isolation` as the running tag; a bypassed task runs under the previous task's word -/
example : (let s := (Nest.NSt.init 1).run [.wait 0, .isolate 0 0 7, .execBegin 0, .spawn 0, .execEnd 0, .spawn 0, .resumeReq 0, .wait 0, .popResume 0 0,
      .own 0, .bypass 0 none]
    (s.log.map (fun e => (e.task.id, e.iso, e.edAt, e.resume, e.bypass)), s.spawned.map (·.tag))) =
    ([(0, 7, 0, true, false), (1, 7, 7, false, false), (2, 7, 7, false, true)], [0, 7, 7]) := by decide


/-- the transient overshoot of `try_join`: arena with 3 slots (1 reserved), allotment 1, two workers: both read `my_references`
(0 workers) and the allotment (1) before either adds; both add; both get a slot: 2 workers are active and inside although 1 is
allotted.  The next recall poll of either sees 2 > 1. -/
example : (let s := (Life.LSt.init ⟨3, 1⟩ [(true, [0]), (true, [0])] 1).run ⟨3, 1⟩ [.setAllot 1, .begin_ 0, .begin_ 1, .th 0, .th 1, .th 0, .th 1, .th 0, .th 0, .th 0, .th 0, .th 1, .th 1, .th 1, .th 1, .th 1, .th 1, .poll 0, .th 0]
    (s.allot, s.refsW, s.workersInside, s.ths.map (·.recalled))) = (1, 2, 2, [true, false]) := by decide

/-- mandatory concurrency: a worker-less arena (`task_arena(1)`: 2 slots, 1 reserved, no workers); thread 0 enqueues, thread 1 pops the
task and polls `out_of_work`: request 1, then back to 0 -/
example : (let s := (Mand.mandSys ⟨2, 1, 0⟩ [[.enqueue], [.popFifo true, .oow false]]).run (List.replicate 9 0)
    (s.sh.arena.mandReq, s.sh.marketMand, s.sh.proxyMand, s.sh.arena.maxW)) = (1, 1, 1, 1) ∧
    (let s := (Mand.mandSys ⟨2, 1, 0⟩ [[.enqueue], [.popFifo true, .oow false]]).run (List.replicate 9 0 ++ List.replicate 12 1)
    (s.sh.arena.mandReq, s.sh.marketMand, s.sh.proxyMand, s.sh.arena.maxW)) = (0, 0, 0, 0) := by decide

/-- observers: thread 0 joins, an observer is activated by it (entry), a second one by thread 1 from outside, thread 0 finds a task
(entry of the second), the first is deactivated, thread 0 leaves: one exit, for the second observer only -/
example : ((Obs.OSt.init 2).run [.join 0 .worker, .activate 0, .activate 1, .renotify 0, .deactivate 0, .leave 0 .worker]).log =
    [(0, 0, true), (0, 1, true), (0, 1, false)] := by decide

end TbbVerif.C16
