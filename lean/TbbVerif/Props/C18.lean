/-
C18 — property theorems (statements only live here; helper lemmas are in Proofs/C18.lean).

Property: when a requested size/alignment cannot be represented (overflow in size+header+alignment, nobj*size)
every allocation entry point reports failure; argument checks reject exactly the illegal alignments; pool
blocks lie inside the pool's raw regions and raw regions are returned exactly once.
All guards below are the definitions GENERATED from the current source text (Generated/C18.lean), so editing a
guard in /repo changes what these theorems are about.  The back end's retry ladder under injected OS / raw
callback failures is covered by the E-REAL fault enumeration only (checks/c18.py).
-/
import TbbVerif.Proofs.C18
import TbbVerif.Proofs.C18.Remap
import TbbVerif.Proofs.C18.LadderPool
import TbbVerif.Proofs.C18.Guards2

namespace TbbVerif.C18
open TbbVerif.Cint
open TbbVerif.Generated.C17
open TbbVerif.Generated.C18

/-- **calloc multiplication guard is exact**: for all 64-bit `nobj`, `size`, `scalable_calloc` takes its
`errno = ENOMEM; return nullptr` exit iff the true product does not fit in `size_t` (the cheap pre-test never
hides an overflow), and otherwise it requests exactly `nobj * size` bytes. -/
theorem calloc_guard_exact (nobj size : Nat) (hn : nobj < 2 ^ 64) (hs : size < 2 ^ 64) :
    (callocReject nobj size = true ↔ 2 ^ 64 ≤ nobj * size) ∧
    (callocReject nobj size = false → callocRequest nobj size = nobj * size) := by
  have h := calloc_reject_iff nobj size hn hs
  refine ⟨h, fun hf => ?_⟩
  have : ¬ 2 ^ 64 ≤ nobj * size := fun hc => by rw [h.mpr hc] at hf; cases hf
  simp only [callocRequest]
  exact Nat.mod_eq_of_lt (by omega)

/-- **Large-object size computation cannot be fooled by wrap-around**: for every 64-bit `size` and every
alignment `2^a ≤ 2^63`, with `T = size + headers + alignment` the true sum and `binRound` the true
(unbounded) bin rounding of the large-object cache:
 * if `T` or its bin rounding reaches `2^64`, `getFromLLOCache` returns null before requesting memory;
 * otherwise it requests exactly `binRound T ≥ size + headers + alignment` bytes (what C17
   `llo_placement_inside` needs), and that leaves at least `2^60` of headroom below `2^64`, so the back end's
   own additions (region header, page rounding) cannot wrap either. -/
theorem llo_wrap_check_sound (size a : Nat) (hs : size < 2 ^ 64) (ha : a < 64) :
    (2 ^ 64 ≤ size + C17.headersSize + 2 ^ a ∨ 2 ^ 64 ≤ binRound (size + C17.headersSize + 2 ^ a) →
      lloOutcome size (2 ^ a) = .reject) ∧
    (binRound (size + C17.headersSize + 2 ^ a) < 2 ^ 64 →
      lloOutcome size (2 ^ a) = .large (binRound (size + C17.headersSize + 2 ^ a)) ∧
      size + C17.headersSize + 2 ^ a ≤ binRound (size + C17.headersSize + 2 ^ a) ∧
      binRound (size + C17.headersSize + 2 ^ a) + 2 ^ 60 ≤ 2 ^ 64) := by
  have hh : C17.headersSize = 104 := by decide
  rw [hh]
  obtain ⟨d1, d2⟩ := llo_decision size a hs ha
  have r0 : size + 104 + 2 ^ a ≤ binRound (size + 104 + 2 ^ a) := by
    unfold binRound; split
    · exact (C17.alignUpN_spec _ _ (by simp only [largeCacheStep]; omega)).1
    · exact (C17.alignUpN_spec _ _ (Nat.two_pow_pos _)).1
  constructor
  · intro h
    have : 2 ^ 64 ≤ binRound (size + 104 + 2 ^ a) := by omega
    simp only [lloOutcome, d1 this, if_true]
  · intro h
    obtain ⟨e1, e2, e3, e4⟩ := d2 h
    refine ⟨?_, e3, e4⟩
    simp only [lloOutcome, e1, e2, Bool.false_eq_true, if_false]

/-- the sum `size + alignment` that `allocateAligned` forms for its third strategy never wraps when it is
used (it is only evaluated for `size < minLargeObjectSize`) -/
theorem aligned_sums_no_wrap (size a : Nat) (hs : size < minLargeObjectSize) (ha : a < 64) :
    aaReq3 size (2 ^ a) = size + 2 ^ a := by
  have : 2 ^ a ≤ 2 ^ 63 := Nat.pow_le_pow_right (by omega) (by omega)
  simp only [aaReq3, minLargeObjectSize] at *
  exact Nat.mod_eq_of_lt (by omega)

/-- **Argument checks are exact**: `scalable_posix_memalign` returns `EINVAL` exactly when the alignment is not
a power of two or is smaller than `sizeof(void*)`; `scalable_aligned_malloc` fails with `EINVAL` exactly when
the alignment is not a power of two or the size is 0; `scalable_aligned_realloc` exactly when the alignment is
not a power of two. -/
theorem memalign_args (alignment size : Nat) (ha : alignment < 2 ^ 64) :
    (posixMemalignReject alignment size = true ↔ ¬ ∃ k, alignment = 2 ^ k ∧ sizeofVoidP ≤ alignment) ∧
    (alignedMallocReject size alignment = true ↔ (¬ ∃ k, alignment = 2 ^ k) ∨ size = 0) ∧
    (alignedReallocReject size alignment = true ↔ ¬ ∃ k, alignment = 2 ^ k) := by
  have h8 := is_pow2_at_least8_iff alignment ha
  have hp := is_pow2_iff alignment ha
  refine ⟨?_, ?_, ?_⟩
  · simp only [posixMemalignReject, sizeofVoidP, Bool.not_eq_true', ← h8]
    cases isPowerOfTwoAtLeast alignment 8 <;> simp
  · simp only [alignedMallocReject, isPowerOfTwo, Bool.or_eq_true, Bool.not_eq_true', decide_eq_true_eq, ← hp]
    cases is_power_of_two alignment <;> simp <;> omega
  · simp only [alignedReallocReject, isPowerOfTwo, Bool.not_eq_true', ← hp]
    cases is_power_of_two alignment <;> simp

/-- An argument-checked entry point never reaches the allocator with an illegal alignment: whenever
`posix_memalign` does not return `EINVAL`, its decision is the one `allocateAligned` takes for a genuine power
of two `2^k` with `k < 64` (so C17's `aligned_case_sound` / `aligned_result_sound` apply). -/
theorem memalign_reaches_allocator_with_pow2 (alignment size : Nat) (ha : alignment < 2 ^ 64)
    (h : posixMemalignOutcome alignment size ≠ .einval) :
    ∃ k, k < 64 ∧ alignment = 2 ^ k ∧ posixMemalignOutcome alignment size = alignedOutcome size (2 ^ k) := by
  unfold posixMemalignOutcome at *
  by_cases hr : posixMemalignReject alignment size = true
  · simp [hr] at h
  · have := (memalign_args alignment size ha).1
    have hex : ∃ k, alignment = 2 ^ k ∧ sizeofVoidP ≤ alignment := by
      rcases Classical.em (∃ k, alignment = 2 ^ k ∧ sizeofVoidP ≤ alignment) with h1 | h1
      · exact h1
      · exact absurd (this.mpr h1) hr
    obtain ⟨k, hk, _⟩ := hex
    subst hk
    refine ⟨k, C17.pow_lt_imp k 64 ha, rfl, ?_⟩
    simp [hr]

/-- **Ledger: blocks inside, regions returned once.**  On every accepted trace the owned regions stay pairwise
disjoint, so: a block event is accepted only inside a region the pool owns at that moment, and a region that
was given back cannot be given back again unless the raw allocator handed it out again. -/
theorem ledger_inside (l l' : List Region) (s n : Nat) (h : ledgerStep l (.block s n) = some l') :
    l' = l ∧ ∃ r ∈ l, r.1 ≤ s ∧ s + n ≤ r.1 + r.2 := by
  simp only [ledgerStep] at h
  split at h
  · rename_i hany
    cases h
    refine ⟨rfl, ?_⟩
    obtain ⟨r, hr, hc⟩ := List.any_eq_true.mp hany
    exact ⟨r, hr, of_decide_eq_true hc⟩
  · cases h

theorem ledger_return_once (l l' : List Region) (s n : Nat) (hn : 0 < n)
    (hd : l.Pairwise Region.disjoint) (h : ledgerStep l (.rawFree s n) = some l') :
    (s, n) ∈ l ∧ ledgerStep l' (.rawFree s n) = none ∧ l'.Pairwise Region.disjoint := by
  have hd' := ledgerStep_keeps_disjoint l l' _ hd h
  simp only [ledgerStep] at h
  split at h
  · rename_i hmem
    cases h
    refine ⟨hmem, ?_, hd'⟩
    simp only [ledgerStep]
    have hnot : (s, n) ∉ l.erase (s, n) := by
      intro hin
      -- a second copy of the region would overlap the first one
      have := mem_erase_self_of_pairwise (s, n) l hd hin
      unfold Region.disjoint at this
      simp only at this
      omega
    simp [hnot]
  · cases h

theorem ledger_run_keeps_disjoint (evs : List Ev) : ∀ (l l' : List Region),
    l.Pairwise Region.disjoint → ledgerRun l evs = some l' → l'.Pairwise Region.disjoint := by
  induction evs with
  | nil => intro l l' hd h; simp only [ledgerRun] at h; cases h; exact hd
  | cons e es ih =>
    intro l l' hd h
    simp only [ledgerRun] at h
    split at h
    · rename_i l1 h1
      exact ih l1 l' (ledgerStep_keeps_disjoint l l1 e hd h1) h
    · cases h

/-- **The mremap path of realloc cannot be fooled by wrap-around** (`Backend::remap`, guards generated from
backend.cpp): for every 64-bit `newSize`, every offset `u < 2^32` of the object inside its region and every region
granularity `2^k ≤ 2^32`, with `A = binRound (newSize + u)` the true (unbounded) bin rounding of the true sum:
 * if the sum or its rounding reaches `2^64`, `remap` returns null before touching the mapping (the caller then falls
   back to allocate-copy-free, which fails cleanly by `llo_wrap_check_sound`);
 * otherwise the new block has exactly `A ≥ newSize + u` bytes (the object still fits behind its offset) and the
   region is re-mapped to exactly `alignUp (sizeof(MemRegion) + A + sizeof(LastFreeBlock))`, computed without wrap.
(Before the repair `14a88ee` the first claim was false: `realloc(p, SIZE_MAX-10)` of a 16 MB object shrank the mapping.) -/
theorem remap_guard_sound (newSize u k : Nat) (hn : newSize < 2 ^ 64) (hu : u < 2 ^ 32) (hk : k ≤ 32) :
    (2 ^ 64 ≤ newSize + u ∨ 2 ^ 64 ≤ binRound (newSize + u) → remapReject newSize u (2 ^ k) = true) ∧
    (binRound (newSize + u) < 2 ^ 64 →
      remapReject newSize u (2 ^ k) = false ∧
      remapAlignedSize newSize u (2 ^ k) = binRound (newSize + u) ∧ newSize + u ≤ binRound (newSize + u) ∧
      remapRequestSize newSize u (2 ^ k) = C17.alignUpN (sizeofMemRegion + binRound (newSize + u) + sizeofLastFreeBlock) (2 ^ k) ∧
      sizeofMemRegion + binRound (newSize + u) + sizeofLastFreeBlock ≤ remapRequestSize newSize u (2 ^ k) ∧
      remapRequestSize newSize u (2 ^ k) < 2 ^ 64) := by
  obtain ⟨d1, d2⟩ := remap_decision newSize u k hn hu hk
  have r0 := le_binRound (newSize + u)
  constructor
  · intro h
    exact d1 (by omega)
  · intro h
    obtain ⟨e1, e2, e3, e4⟩ := d2 h
    refine ⟨e1, e2, r0, e3, ?_, by rw [e3]; exact e4⟩
    rw [e3]
    exact (C17.alignUpN_spec _ _ (Nat.two_pow_pos k)).1

/-! Non-vacuity -/
example : remapReject (2 ^ 64 - 11) 4352 (2 ^ 12) = true ∧ remapReject (2 ^ 64 - 2 ^ 59) 4352 (2 ^ 12) = true ∧
    remapReject (32 * 2 ^ 20) 4352 (2 ^ 12) = false ∧ remapAlignedSize (32 * 2 ^ 20) 4352 (2 ^ 12) = 33554432 + 4194304 ∧
    remapRequestSize (32 * 2 ^ 20) 4352 (2 ^ 12) = 33554432 + 4194304 + 4096 := by decide
example : callocReject (2 ^ 32) (2 ^ 32) = true ∧ callocReject (2 ^ 32) (2 ^ 31) = false ∧ callocReject 3 6148914691236517206 = true ∧
    callocReject 3 6148914691236517205 = false := by decide
example : lloOutcome (2 ^ 64 - 1) (2 ^ 6) = .reject ∧ lloOutcome (2 ^ 63) (2 ^ 63) = .reject ∧
    lloOutcome 10000 (2 ^ 6) = .large 16384 ∧ lloOutcome (2 ^ 62) (2 ^ 6) = .large (2 ^ 62 + 2 ^ 59) ∧
    lloOutcome (2 ^ 64 - 2 ^ 60 - 168) (2 ^ 6) = .large (2 ^ 64 - 2 ^ 60) ∧ lloOutcome (2 ^ 64 - 2 ^ 60 - 167) (2 ^ 6) = .reject := by decide
example : posixMemalignReject 4 100 = true ∧ posixMemalignReject 8 100 = false ∧ posixMemalignReject 24 100 = true ∧
    alignedMallocReject 100 1 = false ∧ alignedMallocReject 0 8 = true ∧ alignedReallocReject 0 3 = true := by decide
example : ledgerRun [] [.rawAlloc 1000 4096, .block 1024 100, .rawFree 1000 4096] = some [] ∧
    ledgerRun [] [.rawAlloc 1000 4096, .block 5000 100] = none ∧
    ledgerRun [] [.rawAlloc 1000 4096, .rawFree 1000 4096, .rawFree 1000 4096] = none := by decide

end TbbVerif.C18

/-! ## The failure ladder of the back end under an adversarial raw-memory oracle, and pools on the back-end model

Model: C17's per-operation back-end model (`Model/C17Backend.lean`: `genericGetBlock` = bins → `scanCoalescQ(force)` →
`askMemFromOS` (`addNewRegion`, region size from `maxRequestedSize`, advance regions, `bootsrapMemStatus`) → on refusal
`releaseMemInCaches` (`Backend::clean`, `waitTillBlockReleased`, the locked-bins second chance) → retry → null), the oracle
being the list `raws : List (Option (address × granted))` of answers in call order — ANY of them may be `none`;
plus `Model/C18Ladder.lean` (front-end layers, pool reset / destroy, vocabulary).  `skip` is C17's ghost-precondition flag
(raised when an internal step meets a block in an unexpected ghost state; the white-box differential compares every state of
the real back end with the model and reports it). -/
namespace TbbVerif.C18
open TbbVerif.C18.Ladder
open TbbVerif.C17
open TbbVerif.C17.BE
open TbbVerif.Generated.C17Backend

/-- **failure_is_clean.**  `genericGetBlock` from ANY well-formed back-end state, for ANY request and ANY answers of the
oracle (refusals at any position, any number of them):
 * the state afterwards is well formed (C17's `WF`: exact tiling of every region, consistent boundary tags, bins = the free
   blocks that name them, mask bits, coalescing queue = the queued blocks) and the pool configuration is untouched;
 * no region is invented: every registered span afterwards was registered before or was granted by the oracle during the call;
 * if no block is returned, the blocks in the hands of callers (address, size) are LITERALLY what they were;
 * if null is returned, no delayed-coalescing request is left pending (`coalescQ` is empty: nothing stays LOCKED);
 * null is returned only when the ladder really was exhausted under that oracle: if every answer is a usable grant
   (`generous`: fresh, word aligned, disjoint, at least the largest raw request of the ladder) the result is not null. -/
theorem failure_is_clean (s : St) (hw : WF s) (num size : Nat) (al : Bool) (raws : List Ans) :
    WF (genericGetBlock s num size al raws).1 ∧ (genericGetBlock s num size al raws).1.g.cfg = s.g.cfg ∧
    SpansFrom s (genericGetBlock s num size al raws).1 raws ∧
    ((∀ a, (genericGetBlock s num size al raws).2.1 ≠ .block a) →
      allUsers (genericGetBlock s num size al raws).1.regions = allUsers s.regions) ∧
    ((genericGetBlock s num size al raws).2.1 = .null → (genericGetBlock s num size al raws).1.g.skip = false →
      (genericGetBlock s num size al raws).1.g.queue = []) ∧
    (s.g.cfg.fixedPool = false → 8192 ≤ num * size → num * size < 2 ^ 40 → s.g.maxReq < beMaxBinnedSmallPage → 2 ≤ raws.length →
      generous (maxRawRequest s.g.cfg.granularity) (regSpans s.regions) raws →
      (genericGetBlock s num size al raws).2.1 ≠ .null ∨ (genericGetBlock s num size al raws).1.g.skip = true) :=
  ⟨genericGetBlock_wf s num size al raws hw, (genericGetBlock_frame s num size al raws).1, (genericGetBlock_frame s num size al raws).2.2.2.2,
   genericGetBlock_users s num size al raws hw, genericGetBlock_null_queue s num size al raws hw,
   fun hfix hlo hhi hmr hlen hgen => genericGetBlock_generous s num size al raws hw hfix hlo hhi hmr _ (fun _ hx => hx) hgen hlen⟩

/-- **recovery.**  From every well-formed state in which no other thread is inside the back end (no bin mutex held by the
environment, no delayed coalescing pending — `quiet`), in a pool that is not fixed: if the oracle grants from now on, the
next request of any representable size (`8192 ≤ num*size < 2^40`) returns a block.  There is no poisoned state: nothing the
earlier failures left behind (a region half registered, a bin bit, a LOCKED tag, `bootsrapMemStatus`) can make it fail. -/
theorem recovery (s : St) (hw : WF s) (hq : quiet s) (hfix : s.g.cfg.fixedPool = false) (num size : Nat) (al : Bool) (raws : List Ans)
    (hlo : 8192 ≤ num * size) (hhi : num * size < 2 ^ 40) (hmr : s.g.maxReq < beMaxBinnedSmallPage) (hlen : 2 ≤ raws.length)
    (hgen : generous (maxRawRequest s.g.cfg.granularity) (regSpans s.regions) raws) :
    (∃ a, (genericGetBlock s num size al raws).2.1 = .block a) ∨ (genericGetBlock s num size al raws).1.g.skip = true :=
  genericGetBlock_quiet s num size al raws hw hfix hlo hhi hmr _ (fun _ hx => hx) hgen hlen hq.1 hq.2

/-- **failure, then recovery.**  A request that fails with null — under whatever oracle — leaves a state from which, the
environment not holding bin mutexes, the next request succeeds as soon as the oracle grants again. -/
theorem failure_then_recovery (s : St) (hw : WF s) (hl : s.g.binLocked = []) (hfix : s.g.cfg.fixedPool = false)
    (hmr : s.g.maxReq < beMaxBinnedSmallPage) (n1 sz1 : Nat) (al1 : Bool) (raws1 : List Ans)
    (hnull : (genericGetBlock s n1 sz1 al1 raws1).2.1 = .null) (hskip : (genericGetBlock s n1 sz1 al1 raws1).1.g.skip = false)
    (num size : Nat) (al : Bool) (raws : List Ans) (hlo : 8192 ≤ num * size) (hhi : num * size < 2 ^ 40) (hlen : 2 ≤ raws.length)
    (hgen : generous (maxRawRequest s.g.cfg.granularity) (regSpans (genericGetBlock s n1 sz1 al1 raws1).1.regions) raws) :
    (∃ a, (genericGetBlock (genericGetBlock s n1 sz1 al1 raws1).1 num size al raws).2.1 = .block a) ∨
    (genericGetBlock (genericGetBlock s n1 sz1 al1 raws1).1 num size al raws).1.g.skip = true := by
  obtain ⟨f1, _, f3, _, _⟩ := genericGetBlock_frame s n1 sz1 al1 raws1
  refine recovery _ (genericGetBlock_wf s n1 sz1 al1 raws1 hw)
    ⟨by rw [f3]; exact hl, genericGetBlock_null_queue s n1 sz1 al1 raws1 hw hnull hskip⟩ (by rw [f1]; exact hfix) num size al raws hlo hhi
    (genericGetBlock_maxReq s n1 sz1 al1 raws1 hmr) hlen (by rw [f1]; exact hgen)

/-- **no_partial_region.**  What `addNewRegion` does with an answer of the oracle, for every state and every answer:
 * either it FAILS and then nothing is half-registered — the region list, the bins, their bit masks, the advance-bin registry,
   the coalescing queue and the modification counter are what they were (only the log differs);
 * or the granted memory `[a, a+g)` is FULLY registered: one new region at the head of `regionList` with exactly that span,
   tiled by its first block and its `LastFreeBlock` (`regOK`), accounted in `totalMemSize`;
and a usable grant (word aligned, not overlapping a live region, at least as large as the raw request, region size one the
ladder uses) is never dropped: it is always registered. -/
theorem no_partial_region (s : St) (hw : WF s) (size type : Nat) (atb : Bool) (raw : Ans)
    (ht : type = beRegSlab ∨ type = beRegLarge ∨ type = beRegOne) :
    (((addNewRegion s size type atb raw).2.1 = .fail ∧ (addNewRegion s size type atb raw).1.regions = s.regions ∧
        (addNewRegion s size type atb raw).1.g.bins = s.g.bins ∧ (addNewRegion s size type atb raw).1.g.mask = s.g.mask ∧
        (addNewRegion s size type atb raw).1.g.adv = s.g.adv ∧ (addNewRegion s size type atb raw).1.g.queue = s.g.queue ∧
        (addNewRegion s size type atb raw).1.g.mods = s.g.mods) ∨
     (∃ a g reg, raw = some (a, g) ∧ (addNewRegion s size type atb raw).2.1 ≠ .fail ∧
        (addNewRegion s size type atb raw).1.regions = reg :: s.regions ∧ reg.base = a ∧ reg.allocSz = g ∧
        regOK (addNewRegion s size type atb raw).1.g.cfg reg ∧
        totalMem (addNewRegion s size type atb raw).1.regions = totalMem s.regions + g)) ∧
    (∀ a g, raw = some (a, g) → s.g.cfg.fixedPool = false → a % 8 = 0 → a ≠ 0 → regionsOverlap s.regions a g = false →
        rawRequest s.g size type ≤ g → 65536 ≤ g → (type ≠ beRegSlab → 32768 ≤ size ∧ size + 224 ≤ g) →
        (addNewRegion s size type atb raw).2.1 ≠ .fail ∧ (a, g) ∈ regSpans (addNewRegion s size type atb raw).1.regions) := by
  constructor
  · rcases addNewRegion_regions s size type atb raw with ⟨hf, _⟩ | ⟨a, g, fb, bs, hr, hne, _, hreg⟩
    · obtain ⟨e1, e2, e3, e4, e5, e6⟩ := addNewRegion_fail_state s size type atb raw hf
      exact Or.inl ⟨hf, e1, e2, e3, e4, e5, e6⟩
    · have hwf := addNewRegion_wf s size type atb raw hw ht
      refine Or.inr ⟨a, g, _, hr, hne, hreg, rfl, rfl, hwf.regs _ (by rw [hreg]; exact List.mem_cons_self ..), ?_⟩
      rw [hreg, totalMem_cons]
      exact Nat.add_comm _ _
  · intro a g hr hfix ha ha0 hov hreq hg hsz
    subst hr
    obtain ⟨fb, bs, hf⟩ : ∃ fb bs, findBlockInRegion a g type size = some (fb, bs) := by
      by_cases hts : type = beRegSlab
      · rw [hts]; exact findBlock_slab a g size ha hg
      · obtain ⟨fb, hf⟩ := findBlock_large a g size type hts (hsz hts).1 (hsz hts).2
        exact ⟨fb, size, hf⟩
    obtain ⟨r1, _, r3, _⟩ := addNewRegion_succeeds s size type a g atb hfix ha ha0 hov hreq hg fb bs hf
    refine ⟨by rw [r1]; cases atb <;> simp, ?_⟩
    rw [r3]
    exact List.mem_cons_self ..

/-- **The front end on a null: `mallocLargeObject`.**  Whatever the two oracles answer (raw memory for the back end, raw
memory for a new leaf of the back-reference table): when no large block is returned — `newBackRef` gave an invalid index, or
`getLargeBlock` returned null and the index was removed again — the back end is well formed with the handed-out blocks
literally unchanged, the back-reference table satisfies its invariant and every index is live exactly when it was before. -/
theorem large_object_failure_is_clean (f : FE) (sz : Nat) (rawsBe : List Ans) (rawsBr : List (Option Nat)) (hw : WF f.be)
    (hi : BR.tabInv f.br) (hn : ∀ a i, (mallocLargeObject f sz rawsBe rawsBr).2 ≠ .large a i) :
    WF (mallocLargeObject f sz rawsBe rawsBr).1.be ∧ BR.tabInv (mallocLargeObject f sz rawsBe rawsBr).1.br ∧
    allUsers (mallocLargeObject f sz rawsBe rawsBr).1.be.regions = allUsers f.be.regions ∧
    ∀ j : BR.Idx, (mallocLargeObject f sz rawsBe rawsBr).1.br.live j = f.br.live j :=
  mallocLargeObject_null f sz rawsBe rawsBr hw hi hn

/-- **The front end on a null: `getEmptyBlock`** (PARTIAL).  For every oracle the back end is well formed afterwards on
every path — slab blocks and back references obtained, or back references refused and all `num` slab blocks put back —, and
when `getSlabBlock` itself returns null the handed-out blocks are literally unchanged and the back-reference table is not
touched.  Missing for the full statement (as proved for `mallocLargeObject`): that the roll-back loop restores exactly the
handed-out blocks and the live indices it started from; that path is exercised by the E-REAL back-reference exhaustion
scenario only. -/
theorem empty_block_failure_is_clean_partial (f : FE) (userPool : Bool) (num : Nat) (rawsBe : List Ans) (rawsBr : List (Option Nat))
    (hw : WF f.be) :
    WF (getEmptyBlock f userPool num rawsBe rawsBr).1.be ∧
    ((∀ a, (genericGetBlock f.be num beSlabSize true rawsBe).2.1 ≠ .block a) →
      allUsers (getEmptyBlock f userPool num rawsBe rawsBr).1.be.regions = allUsers f.be.regions ∧
      (getEmptyBlock f userPool num rawsBe rawsBr).1.br = f.br) :=
  getEmptyBlock_clean f userPool num rawsBe rawsBr hw

/-- `pool_create_v1` keeps nothing when it reports `NO_MEMORY`: whichever acquisition fails (library start-up,
the `MemoryPool` object, the TLS key), the object and the key are not held on return. -/
theorem pool_create_failure_holds_nothing (initOk mallocOk keyOk : Bool) :
    ((poolCreateAcquire initOk mallocOk keyOk).err = .ok ↔ (initOk = true ∧ mallocOk = true ∧ keyOk = true)) ∧
    ((poolCreateAcquire initOk mallocOk keyOk).err ≠ .ok →
      (poolCreateAcquire initOk mallocOk keyOk).holdsObject = false ∧ (poolCreateAcquire initOk mallocOk keyOk).holdsKey = false) := by
  cases initOk <;> cases mallocOk <;> cases keyOk <;> decide

/-! ### pools on the back-end model -/

/-- **pool_blocks_inside_own_regions.**  For every pool configuration and every sequence of back-end operations with
every oracle: each block in the hands of a caller lies inside a region that is registered NOW (behind its header, in front
of its `LastFreeBlock`), that region is memory the pool's OWN oracle granted during this very run (and has not been given
back since: it is still in `regionList`), the PoolLedger whose state is the projection of `regionList` accepts the block,
and that ledger state is pairwise disjoint (so `ledger_inside` / `ledger_return_once` apply to it). -/
theorem pool_blocks_inside_own_regions (cfg : Cfg) (ops : List Op) :
    (regSpans ((machine cfg).run ops).1.regions).Pairwise C18.Region.disjoint ∧
    (∀ x ∈ regSpans ((machine cfg).run ops).1.regions, x ∈ grants (allRaws ops)) ∧
    ∀ u ∈ allUsers ((machine cfg).run ops).1.regions,
      (∃ r ∈ ((machine cfg).run ops).1.regions, (r.base, r.allocSz) ∈ grants (allRaws ops) ∧
        r.base + beSizeofMemRegion ≤ u.1 ∧ u.1 + u.2 + beSizeofLastFreeBlock ≤ r.base + r.allocSz) ∧
      C18.ledgerStep (regSpans ((machine cfg).run ops).1.regions) (.block u.1 u.2) = some (regSpans ((machine cfg).run ops).1.regions) := by
  have hw := wf_run cfg ops
  have hfr := (run_frame cfg ops (machine cfg).init).2.2
  have hown : ∀ x ∈ regSpans ((machine cfg).run ops).1.regions, x ∈ grants (allRaws ops) := by
    intro x hx
    rcases hfr x hx with h | h
    · cases h
    · exact h
  refine ⟨spans_pairwise _ hw, hown, fun u hu => ?_⟩
  obtain ⟨_, r, hr, h1, h2⟩ := users_inside _ hw u hu
  have hm : (r.base, r.allocSz) ∈ regSpans ((machine cfg).run ops).1.regions := List.mem_map.mpr ⟨r, hr, rfl⟩
  refine ⟨⟨r, hr, hown _ hm, h1, h2⟩, ?_⟩
  simp only [C18.ledgerStep]
  rw [if_pos]
  refine List.any_eq_true.mpr ⟨_, hm, ?_⟩
  show decide (C18.Region.contains (r.base, r.allocSz) u.1 u.2) = true
  apply decide_eq_true
  unfold C18.Region.contains
  simp only [beSizeofMemRegion, beSizeofLastFreeBlock] at h1 h2
  exact ⟨by show r.base ≤ u.1; omega, by show u.1 + u.2 ≤ r.base + r.allocSz; omega⟩

/-- an address lies in raw memory registered by this pool's back end -/
def inPool (p : St) (addr : Nat) : Prop := ∃ r ∈ p.regions, r.base ≤ addr ∧ addr < r.base + r.allocSz

/-- **pool_identify_sound.**  Any number of pools whose raw allocators hand out pairwise disjoint memory (each pool's
registered spans are disjoint from every other pool's): every address inside a block handed out by pool `i` lies in raw
memory of pool `i` and of NO other pool — so the pool recorded in the block when it was handed out (`Block::poolPtr`,
`LargeMemoryBlock::pool`, what `pool_identify` reads back) is the one and only pool that owns the memory; the check compares
`pool_identify` with exactly this region-membership test on every live object. -/
theorem pool_identify_sound (pools : List St) (hwf : ∀ p ∈ pools, WF p)
    (hdisj : ∀ (i j : Nat) (hi : i < pools.length) (hj : j < pools.length), i ≠ j →
      ∀ x ∈ regSpans pools[i].regions, ∀ y ∈ regSpans pools[j].regions, spanDisj x y)
    (i : Nat) (hi : i < pools.length) (u : Nat × Nat) (hu : u ∈ allUsers pools[i].regions) (addr : Nat)
    (ha : u.1 ≤ addr ∧ addr < u.1 + u.2) :
    inPool pools[i] addr ∧ ∀ (j : Nat) (hj : j < pools.length), j ≠ i → ¬ inPool pools[j] addr := by
  obtain ⟨_, r, hr, h1, h2⟩ := users_inside _ (hwf _ (List.getElem_mem hi)) u hu
  simp only [beSizeofMemRegion, beSizeofLastFreeBlock] at h1 h2
  refine ⟨⟨r, hr, by omega, by omega⟩, fun j hj hne hin => ?_⟩
  obtain ⟨r', hr', b1, b2⟩ := hin
  have := hdisj i j hi hj (fun h => hne h.symm) (r.base, r.allocSz) (List.mem_map.mpr ⟨r, hr, rfl⟩)
    (r'.base, r'.allocSz) (List.mem_map.mpr ⟨r', hr', rfl⟩)
  unfold spanDisj at this
  simp only at this
  omega

/-- **fixed_pool_single_raw_call.**  A fixed pool calls its raw allocator at most once in its whole life — whatever the
operations and whatever the callback answers (the one call is `requestBootstrapMem`'s; once `bootsrapMemStatus` is DONE no
rung of the ladder asks again, in particular not when the one region is exhausted) — so, with
`pool_blocks_inside_own_regions`, everything it ever hands out lies inside that one grant. -/
theorem fixed_pool_single_raw_call (cfg : Cfg) (hf : cfg.fixedPool = true) (ops : List Op) :
    (((machine cfg).run ops).2.map usedOf).sum ≤ 1 :=
  (run_used_fixed cfg ops (machine cfg).init hf).1

/-- **pool_reset_destroy_return_once.**  On the back-end model, for every well-formed state:
 * `pool_reset` (`delayRegionsReleasing(true)`, `Backend::reset`, `delayRegionsReleasing(false)`) returns NO raw memory —
   the registered spans are exactly what they were, with or without `keepAllMemory` —, leaves a well-formed back end and no
   block handed out (every region is one free block again);
 * `pool_destroy` (`Backend::destroy`) offers EVERY region of `regionList` to the raw-free callback exactly once, in list
   order, whatever the callback answers — in particular it goes on after an answer that reports failure —; the PoolLedger
   that is the projection of `regionList` accepts exactly this sequence and ends empty (every raw region returned once,
   none twice: `ledger_return_once`); the result is `true` iff the TLS key was destroyed and every answer reported success;
   a pool without a raw-free callback (fixed pools may have none) makes no raw-free call. -/
theorem pool_reset_destroy_return_once (s : St) (hw : WF s) (keyOk : Bool) (answers : List Bool) :
    (regSpans (poolReset s).regions = regSpans s.regions ∧ WF (poolReset s) ∧ allUsers (poolReset s).regions = []) ∧
    ((poolDestroy s true keyOk answers).2 = s.regions.map (fun r => C18.Ev.rawFree r.base r.allocSz) ∧
      C18.ledgerRun (regSpans s.regions) (poolDestroy s true keyOk answers).2 = some [] ∧
      ((poolDestroy s true keyOk answers).1 = true ↔ keyOk = true ∧ ∀ k, k < s.regions.length → answers.getD k true = true)) ∧
    (poolDestroy s false keyOk answers).2 = [] := by
  refine ⟨?_, ?_, rfl⟩
  · have hw1 : WF ⟨{ s.g with delay := true }, s.regions⟩ := wf_congr s.g _ s.regions hw rfl rfl rfl rfl rfl
    have hr := reset_wf _ hw1
    obtain ⟨_, _, f3⟩ := reset_frame ⟨{ s.g with delay := true }, s.regions⟩
    refine ⟨f3, wf_congr _ _ _ hr rfl rfl rfl rfl rfl, ?_⟩
    show allUsers (BE.reset ⟨{ s.g with delay := true }, s.regions⟩).regions = []
    have hb := hr.not_bad
    unfold BE.reset at hb ⊢
    simp only [] at hb ⊢
    have := resetRegions_users s.regions { ({ s.g with delay := true } : Glob) with queue := [], mods := s.g.mods + s.g.queue.length, bins := [], mask := [], adv := [] } hw.not_bad
    generalize resetRegions _ s.regions = q at this hb ⊢
    obtain ⟨g', rs'⟩ := q
    exact this hb
  · obtain ⟨d1, d2, d3⟩ := destroyLoop_spec s.regions answers
    unfold poolDestroy
    simp only [if_true]
    generalize destroyLoop s.regions answers = q at d1 d2 d3 ⊢
    obtain ⟨ok, evs⟩ := q
    simp only [] at d1 d2 d3 ⊢
    refine ⟨d1, d2, ?_⟩
    rw [Bool.and_eq_true, d3]

/-! ### entry-point guards, second part (all over definitions generated from the current source text) -/
section Guards2
open TbbVerif.Cint
open TbbVerif.Generated.C18

/-- **`pool_create_v1` argument checks are exact**: `INVALID_POLICY` exactly when there is no raw allocator, the version
is older than this library's, or there is no raw-free callback although the pool is not fixed; a policy that passes both
tests has a raw allocator, exactly this library's version, no reserved flag, and a raw-free callback unless it is fixed
(what `Backend::freeRawMem` / `ExtMemoryPool::destroy` rely on when they call `rawFree`).  (The granularity is not
checked by the code: `allocRawMem` rounds with `alignUpGeneric`, which is correct for any granularity.) -/
theorem pool_create_args_exact (pAlloc pFree : Nat) (version : Int) (fixedPool : Bool) (reserved : Nat) :
    (poolCreateInvalid pAlloc pFree version fixedPool reserved = true ↔
      (pAlloc = 0 ∨ version < poolVersion ∨ (fixedPool = false ∧ pFree = 0))) ∧
    (poolCreateInvalid pAlloc pFree version fixedPool reserved = false → poolCreateUnsupported pAlloc pFree version fixedPool reserved = false →
      pAlloc ≠ 0 ∧ version = poolVersion ∧ reserved = 0 ∧ (fixedPool = true ∨ pFree ≠ 0)) := by
  unfold poolCreateInvalid poolCreateUnsupported poolVersion
  cases fixedPool <;> simp <;> omega

/-- `pool_aligned_malloc` / `pool_aligned_realloc` test their arguments exactly as `scalable_aligned_malloc` /
`scalable_aligned_realloc` do, so `memalign_args` (exactness) covers them: null exactly for an alignment that is not a
power of two (or size 0 for the malloc form). -/
theorem pool_aligned_args (size alignment : Nat) :
    poolAlignedMallocReject size alignment = alignedMallocReject size alignment ∧
    poolAlignedReallocReject size alignment = alignedReallocReject size alignment := ⟨rfl, rfl⟩

/-- **`reallocAligned` copies `min(old, new)` bytes** (so it neither reads beyond the old object nor writes beyond the new
one); the translator also checks that the old block is freed in exactly one place, under `if (result)`: a failed
reallocation leaves the old block alive and intact. -/
theorem realloc_copy_len_sound (copySize newSize : Nat) :
    reallocCopyLen copySize newSize = min copySize newSize ∧ reallocCopyLen copySize newSize ≤ copySize ∧
    reallocCopyLen copySize newSize ≤ newSize := by
  unfold reallocCopyLen
  split <;> rename_i h <;> simp only [decide_eq_true_eq] at h <;> omega

/-- **The `n * sizeof(T)` tests of `scalable_allocator<T>::allocate` and `memory_pool_allocator<T>::allocate` are exact**:
`std::bad_alloc` (null before the call) exactly when the true product does not fit in `size_t`; otherwise exactly
`n * sizeof(T)` bytes are requested. -/
theorem cxx_allocate_guard_exact (n sizeofT : Nat) (hs : 0 < sizeofT) :
    (scalableAllocatorReject n sizeofT = true ↔ 2 ^ 64 ≤ n * sizeofT) ∧
    (scalableAllocatorReject n sizeofT = false → scalableAllocatorArg n sizeofT = n * sizeofT) ∧
    (poolAllocatorReject n sizeofT = true ↔ 2 ^ 64 ≤ n * sizeofT) ∧
    (poolAllocatorReject n sizeofT = false → poolAllocatorArg n sizeofT = n * sizeofT) := by
  have h := alloc_guard n sizeofT hs
  refine ⟨h, fun hf => ?_, h, fun hf => ?_⟩ <;>
  · have : ¬ 2 ^ 64 ≤ n * sizeofT := fun hc => by
      first
        | (have := h.mpr hc; unfold scalableAllocatorReject at hf; rw [this] at hf; cases hf)
        | (have := h.mpr hc; unfold poolAllocatorReject at hf; rw [this] at hf; cases hf)
    first
      | (unfold scalableAllocatorArg; exact Nat.mod_eq_of_lt (by omega))
      | (unfold poolAllocatorArg; exact Nat.mod_eq_of_lt (by omega))

/-- **`cache_aligned_allocate`'s wrap test is exact**: `bad_alloc` exactly when `size + cache_line_size` does not fit; so
whenever the handler is reached the padded size the fallback allocator forms (`alignment + bytes`) is the true sum. -/
theorem cache_aligned_allocate_guard_exact (size cls : Nat) (hs : size < 2 ^ 64) (hc : cls < 2 ^ 64) :
    (cacheAlignedReject size cls = true ↔ 2 ^ 64 ≤ size + cls) ∧
    (cacheAlignedReject size cls = false → (size + cls) % 2 ^ 64 = size + cls) := by
  unfold cacheAlignedReject
  simp only [decide_eq_true_eq, decide_eq_false_iff_not]
  refine ⟨⟨fun h => ?_, fun h => ?_⟩, fun h => ?_⟩ <;> omega

/-- `tbb::cache_aligned_allocator<T>::allocate(n)` and `tbb::tbb_allocator<T>::allocate(n)` multiply WITHOUT a test.
PARTIAL: the request is the true product (and `cache_aligned_allocate` does not throw for overflow) only for
`n ≤ max_size()`.  The full statement — `bad_alloc` whenever `n * sizeof(T)` does not fit — is FALSE for the code as it is
(`cacheAlignedAllocatorArg (2^61+1) 8 = 8`: an 8-byte block is returned for 2^61+1 objects; known finding
`cxx-cache-aligned-allocator-n-times-sizeof-wraps`, reproduced on the real library by the check). -/
theorem cache_aligned_allocator_arg_partial (n sizeofT cls : Nat) (hs : 0 < sizeofT) (hc : cls < 2 ^ 64)
    (hmax : n ≤ (2 ^ 64 - 1 - cls) / sizeofT) :
    cacheAlignedAllocatorArg n sizeofT = n * sizeofT ∧ tbbAllocatorArg n sizeofT = n * sizeofT ∧
    cacheAlignedReject (n * sizeofT) cls = false := by
  have h1 : n * sizeofT ≤ 2 ^ 64 - 1 - cls := by
    have := (Nat.le_div_iff_mul_le hs).mp hmax
    exact this
  have hlt : n * sizeofT < 2 ^ 64 := by omega
  refine ⟨Nat.mod_eq_of_lt hlt, Nat.mod_eq_of_lt hlt, ?_⟩
  have := (cache_aligned_allocate_guard_exact (n * sizeofT) cls hlt hc).1
  cases hr : cacheAlignedReject (n * sizeofT) cls with
  | false => rfl
  | true => have := this.mp hr; omega

/-- `cache_aligned_resource::do_allocate(bytes, alignment)` adds its padding WITHOUT a test.  PARTIAL: the space it asks
its upstream resource for is the true sum — at least `bytes` plus a whole (corrected) alignment, what its two assertions
need — only while that sum fits.  The full statement is FALSE for the code as it is (`carSpace (2^64-64) 64 64 = 0`: the
upstream resource is asked for 0 bytes and the header word is then written outside the block; known finding
`cxx-cache-aligned-resource-space-wraps`). -/
theorem cache_aligned_resource_space_partial (bytes alignment cls : Nat)
    (hfit : max bytes 8 + max alignment cls < 2 ^ 64) :
    carSpace bytes alignment cls = max bytes 8 + max alignment cls ∧ bytes + alignment ≤ carSpace bytes alignment cls := by
  unfold carSpace carCorrectSize carCorrectAlignment
  have e1 : (if decide (bytes < 8) = true then 8 else bytes) = max bytes 8 := by
    split <;> rename_i h <;> simp only [decide_eq_true_eq] at h <;> omega
  have e2 : (if decide (alignment < cls) = true then cls else alignment) = max alignment cls := by
    split <;> rename_i h <;> simp only [decide_eq_true_eq] at h <;> omega
  rw [e1, e2, Nat.mod_eq_of_lt hfit]
  omega

example : poolCreateInvalid 0 1 1 false 0 = true ∧ poolCreateInvalid 1 0 1 false 0 = true ∧ poolCreateInvalid 1 0 1 true 0 = false ∧
    poolCreateInvalid 1 1 0 false 0 = true ∧ poolCreateUnsupported 1 1 2 false 0 = true ∧ poolCreateUnsupported 1 1 1 false 4 = true ∧
    poolCreateUnsupported 1 1 1 false 0 = false := by decide
example : scalableAllocatorReject (2 ^ 61) 8 = true ∧ scalableAllocatorReject (2 ^ 61 - 1) 8 = false ∧ scalableAllocatorArg (2 ^ 61 - 1) 8 = 2 ^ 64 - 8 := by decide
example : cacheAlignedReject (2 ^ 64 - 64) 64 = true ∧ cacheAlignedReject (2 ^ 64 - 65) 64 = false ∧ cacheAlignedAllocatorArg (2 ^ 61 + 1) 8 = 8 ∧
    tbbAllocatorArg (2 ^ 61 + 1) 8 = 8 ∧ carSpace (2 ^ 64 - 64) 64 64 = 0 ∧ carSpace 100 8 64 = 164 ∧ reallocCopyLen 100 40 = 40 := by decide

end Guards2

/-! Non-vacuity: the hypotheses above are satisfiable and the ladder does fail / recover on concrete inputs. -/
def exCfg : Cfg := ⟨false, false, 4096⟩
-- both requests refused (bootstrap region, then the region for the slab): null, both answers consumed, nothing registered
set_option maxRecDepth 20000 in
example : (genericGetBlock (machine exCfg).init 1 16384 true [none, none]).2.1 = .null ∧
    (genericGetBlock (machine exCfg).init 1 16384 true [none, none]).2.2 = 2 ∧
    (genericGetBlock (machine exCfg).init 1 16384 true [none, none]).1.regions = [] ∧
    (genericGetBlock (machine exCfg).init 1 16384 true [none, none]).1.g.skip = false := by decide
-- bootstrap refused, second answer granted: the request succeeds (a later rung of the ladder delivers)
set_option maxRecDepth 20000 in
example : isBlock (genericGetBlock (machine exCfg).init 1 16384 true [none, some (1073741824, 1048576), none, none, none]).2.1 = true := by decide
-- after the failure the state is quiet and a generous oracle is accepted by `recovery`'s hypotheses
set_option maxRecDepth 20000 in
example : quiet (genericGetBlock (machine exCfg).init 1 16384 true [none, none]).1 ∧
    generous (maxRawRequest 4096) (regSpans (genericGetBlock (machine exCfg).init 1 16384 true [none, none]).1.regions)
      [some (2 ^ 42, 2 ^ 41 + 4096), some (2 ^ 43, 2 ^ 41 + 4096)] := by decide
set_option maxRecDepth 20000 in
example : isBlock (genericGetBlock (genericGetBlock (machine exCfg).init 1 16384 true [none, none]).1 1 16384 true
    [some (2 ^ 42, 2 ^ 41 + 4096), some (2 ^ 43, 2 ^ 41 + 4096)]).2.1 = true := by decide
-- a fixed pool asks once: the second request consumes no answer
set_option maxRecDepth 20000 in
example : (genericGetBlock (machine ⟨true, false, 4096⟩).init 1 16384 true [some (1073741824, 4194304)]).2.2 = 1 ∧
    (genericGetBlock (genericGetBlock (machine ⟨true, false, 4096⟩).init 1 16384 true [some (1073741824, 4194304)]).1 1 16384 true
      [some (2147483648, 4194304)]).2.2 = 0 := by decide
example : (destroyLoop [⟨4096, 8192, 0, 0, 0, []⟩, ⟨65536, 4096, 0, 0, 0, []⟩] [false, true]).1 = false ∧
    (destroyLoop [⟨4096, 8192, 0, 0, 0, []⟩, ⟨65536, 4096, 0, 0, 0, []⟩] [false, true]).2 = [.rawFree 4096 8192, .rawFree 65536 4096] := by decide
example : poolCreateAcquire true true false = ⟨.noMemory, false, false⟩ ∧ poolCreateAcquire true true true = ⟨.ok, true, true⟩ := by decide

end TbbVerif.C18
