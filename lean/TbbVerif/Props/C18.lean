/-
C18 — property theorems (statements only live here; helper lemmas are in Proofs/C18.lean).

Property: when a requested size/alignment cannot be represented (overflow in size+header+alignment, nobj*size)
every allocation entry point reports failure; argument checks reject exactly the illegal alignments; pool
blocks lie inside the pool's raw regions and raw regions are returned exactly once.
All guards below are the definitions GENERATED from the current source text (Generated/C18.lean), so editing a
guard in /repo changes what these theorems are about.  The back end's retry ladder under injected OS / raw
callback failures is covered by the E-REAL fault enumeration only (checks/c18.py).
-/
import TbbVerif.Proofs.C18
import TbbVerif.Proofs.C18.Remap

namespace TbbVerif.C18
open TbbVerif.Cint
open TbbVerif.Generated.C17
open TbbVerif.Generated.C18

/-- **calloc multiplication guard is exact**: for all 64-bit `nobj`, `size`, `scalable_calloc` takes its
`errno = ENOMEM; return nullptr` exit iff the true product does not fit in `size_t` (the cheap pre-test never
hides an overflow), and otherwise it requests exactly `nobj * size` bytes. -/
theorem calloc_guard_exact (nobj size : Nat) (hn : nobj < 2 ^ 64) (hs : size < 2 ^ 64) :
    (callocReject nobj size = true ↔ 2 ^ 64 ≤ nobj * size) ∧
    (callocReject nobj size = false → callocRequest nobj size = nobj * size) := by
  have h := calloc_reject_iff nobj size hn hs
  refine ⟨h, fun hf => ?_⟩
  have : ¬ 2 ^ 64 ≤ nobj * size := fun hc => by rw [h.mpr hc] at hf; cases hf
  simp only [callocRequest]
  exact Nat.mod_eq_of_lt (by omega)

/-- **Large-object size computation cannot be fooled by wrap-around**: for every 64-bit `size` and every
alignment `2^a ≤ 2^63`, with `T = size + headers + alignment` the true sum and `binRound` the true
(unbounded) bin rounding of the large-object cache:
 * if `T` or its bin rounding reaches `2^64`, `getFromLLOCache` returns null before requesting memory;
 * otherwise it requests exactly `binRound T ≥ size + headers + alignment` bytes (what C17
   `llo_placement_inside` needs), and that leaves at least `2^60` of headroom below `2^64`, so the back end's
   own additions (region header, page rounding) cannot wrap either. -/
theorem llo_wrap_check_sound (size a : Nat) (hs : size < 2 ^ 64) (ha : a < 64) :
    (2 ^ 64 ≤ size + C17.headersSize + 2 ^ a ∨ 2 ^ 64 ≤ binRound (size + C17.headersSize + 2 ^ a) →
      lloOutcome size (2 ^ a) = .reject) ∧
    (binRound (size + C17.headersSize + 2 ^ a) < 2 ^ 64 →
      lloOutcome size (2 ^ a) = .large (binRound (size + C17.headersSize + 2 ^ a)) ∧
      size + C17.headersSize + 2 ^ a ≤ binRound (size + C17.headersSize + 2 ^ a) ∧
      binRound (size + C17.headersSize + 2 ^ a) + 2 ^ 60 ≤ 2 ^ 64) := by
  have hh : C17.headersSize = 104 := by decide
  rw [hh]
  obtain ⟨d1, d2⟩ := llo_decision size a hs ha
  have r0 : size + 104 + 2 ^ a ≤ binRound (size + 104 + 2 ^ a) := by
    unfold binRound; split
    · exact (C17.alignUpN_spec _ _ (by simp only [largeCacheStep]; omega)).1
    · exact (C17.alignUpN_spec _ _ (Nat.two_pow_pos _)).1
  constructor
  · intro h
    have : 2 ^ 64 ≤ binRound (size + 104 + 2 ^ a) := by omega
    simp only [lloOutcome, d1 this, if_true]
  · intro h
    obtain ⟨e1, e2, e3, e4⟩ := d2 h
    refine ⟨?_, e3, e4⟩
    simp only [lloOutcome, e1, e2, Bool.false_eq_true, if_false]

/-- the sum `size + alignment` that `allocateAligned` forms for its third strategy never wraps when it is
used (it is only evaluated for `size < minLargeObjectSize`) -/
theorem aligned_sums_no_wrap (size a : Nat) (hs : size < minLargeObjectSize) (ha : a < 64) :
    aaReq3 size (2 ^ a) = size + 2 ^ a := by
  have : 2 ^ a ≤ 2 ^ 63 := Nat.pow_le_pow_right (by omega) (by omega)
  simp only [aaReq3, minLargeObjectSize] at *
  exact Nat.mod_eq_of_lt (by omega)

/-- **Argument checks are exact**: `scalable_posix_memalign` returns `EINVAL` exactly when the alignment is not
a power of two or is smaller than `sizeof(void*)`; `scalable_aligned_malloc` fails with `EINVAL` exactly when
the alignment is not a power of two or the size is 0; `scalable_aligned_realloc` exactly when the alignment is
not a power of two. -/
theorem memalign_args (alignment size : Nat) (ha : alignment < 2 ^ 64) :
    (posixMemalignReject alignment size = true ↔ ¬ ∃ k, alignment = 2 ^ k ∧ sizeofVoidP ≤ alignment) ∧
    (alignedMallocReject size alignment = true ↔ (¬ ∃ k, alignment = 2 ^ k) ∨ size = 0) ∧
    (alignedReallocReject size alignment = true ↔ ¬ ∃ k, alignment = 2 ^ k) := by
  have h8 := is_pow2_at_least8_iff alignment ha
  have hp := is_pow2_iff alignment ha
  refine ⟨?_, ?_, ?_⟩
  · simp only [posixMemalignReject, sizeofVoidP, Bool.not_eq_true', ← h8]
    cases isPowerOfTwoAtLeast alignment 8 <;> simp
  · simp only [alignedMallocReject, isPowerOfTwo, Bool.or_eq_true, Bool.not_eq_true', decide_eq_true_eq, ← hp]
    cases is_power_of_two alignment <;> simp <;> omega
  · simp only [alignedReallocReject, isPowerOfTwo, Bool.not_eq_true', ← hp]
    cases is_power_of_two alignment <;> simp

/-- An argument-checked entry point never reaches the allocator with an illegal alignment: whenever
`posix_memalign` does not return `EINVAL`, its decision is the one `allocateAligned` takes for a genuine power
of two `2^k` with `k < 64` (so C17's `aligned_case_sound` / `aligned_result_sound` apply). -/
theorem memalign_reaches_allocator_with_pow2 (alignment size : Nat) (ha : alignment < 2 ^ 64)
    (h : posixMemalignOutcome alignment size ≠ .einval) :
    ∃ k, k < 64 ∧ alignment = 2 ^ k ∧ posixMemalignOutcome alignment size = alignedOutcome size (2 ^ k) := by
  unfold posixMemalignOutcome at *
  by_cases hr : posixMemalignReject alignment size = true
  · simp [hr] at h
  · have := (memalign_args alignment size ha).1
    have hex : ∃ k, alignment = 2 ^ k ∧ sizeofVoidP ≤ alignment := by
      rcases Classical.em (∃ k, alignment = 2 ^ k ∧ sizeofVoidP ≤ alignment) with h1 | h1
      · exact h1
      · exact absurd (this.mpr h1) hr
    obtain ⟨k, hk, _⟩ := hex
    subst hk
    refine ⟨k, C17.pow_lt_imp k 64 ha, rfl, ?_⟩
    simp [hr]

/-- **Ledger: blocks inside, regions returned once.**  On every accepted trace the owned regions stay pairwise
disjoint, so: a block event is accepted only inside a region the pool owns at that moment, and a region that
was given back cannot be given back again unless the raw allocator handed it out again. -/
theorem ledger_inside (l l' : List Region) (s n : Nat) (h : ledgerStep l (.block s n) = some l') :
    l' = l ∧ ∃ r ∈ l, r.1 ≤ s ∧ s + n ≤ r.1 + r.2 := by
  simp only [ledgerStep] at h
  split at h
  · rename_i hany
    cases h
    refine ⟨rfl, ?_⟩
    obtain ⟨r, hr, hc⟩ := List.any_eq_true.mp hany
    exact ⟨r, hr, of_decide_eq_true hc⟩
  · cases h

theorem ledger_return_once (l l' : List Region) (s n : Nat) (hn : 0 < n)
    (hd : l.Pairwise Region.disjoint) (h : ledgerStep l (.rawFree s n) = some l') :
    (s, n) ∈ l ∧ ledgerStep l' (.rawFree s n) = none ∧ l'.Pairwise Region.disjoint := by
  have hd' := ledgerStep_keeps_disjoint l l' _ hd h
  simp only [ledgerStep] at h
  split at h
  · rename_i hmem
    cases h
    refine ⟨hmem, ?_, hd'⟩
    simp only [ledgerStep]
    have hnot : (s, n) ∉ l.erase (s, n) := by
      intro hin
      -- a second copy of the region would overlap the first one
      have := mem_erase_self_of_pairwise (s, n) l hd hin
      unfold Region.disjoint at this
      simp only at this
      omega
    simp [hnot]
  · cases h

theorem ledger_run_keeps_disjoint (evs : List Ev) : ∀ (l l' : List Region),
    l.Pairwise Region.disjoint → ledgerRun l evs = some l' → l'.Pairwise Region.disjoint := by
  induction evs with
  | nil => intro l l' hd h; simp only [ledgerRun] at h; cases h; exact hd
  | cons e es ih =>
    intro l l' hd h
    simp only [ledgerRun] at h
    split at h
    · rename_i l1 h1
      exact ih l1 l' (ledgerStep_keeps_disjoint l l1 e hd h1) h
    · cases h

/-- **The mremap path of realloc cannot be fooled by wrap-around** (`Backend::remap`, guards generated from
backend.cpp): for every 64-bit `newSize`, every offset `u < 2^32` of the object inside its region and every region
granularity `2^k ≤ 2^32`, with `A = binRound (newSize + u)` the true (unbounded) bin rounding of the true sum:
 * if the sum or its rounding reaches `2^64`, `remap` returns null before touching the mapping (the caller then falls
   back to allocate-copy-free, which fails cleanly by `llo_wrap_check_sound`);
 * otherwise the new block has exactly `A ≥ newSize + u` bytes (the object still fits behind its offset) and the
   region is re-mapped to exactly `alignUp (sizeof(MemRegion) + A + sizeof(LastFreeBlock))`, computed without wrap.
(Before the repair `14a88ee` the first claim was false: `realloc(p, SIZE_MAX-10)` of a 16 MB object shrank the mapping.) -/
theorem remap_guard_sound (newSize u k : Nat) (hn : newSize < 2 ^ 64) (hu : u < 2 ^ 32) (hk : k ≤ 32) :
    (2 ^ 64 ≤ newSize + u ∨ 2 ^ 64 ≤ binRound (newSize + u) → remapReject newSize u (2 ^ k) = true) ∧
    (binRound (newSize + u) < 2 ^ 64 →
      remapReject newSize u (2 ^ k) = false ∧
      remapAlignedSize newSize u (2 ^ k) = binRound (newSize + u) ∧ newSize + u ≤ binRound (newSize + u) ∧
      remapRequestSize newSize u (2 ^ k) = C17.alignUpN (sizeofMemRegion + binRound (newSize + u) + sizeofLastFreeBlock) (2 ^ k) ∧
      sizeofMemRegion + binRound (newSize + u) + sizeofLastFreeBlock ≤ remapRequestSize newSize u (2 ^ k) ∧
      remapRequestSize newSize u (2 ^ k) < 2 ^ 64) := by
  obtain ⟨d1, d2⟩ := remap_decision newSize u k hn hu hk
  have r0 := le_binRound (newSize + u)
  constructor
  · intro h
    exact d1 (by omega)
  · intro h
    obtain ⟨e1, e2, e3, e4⟩ := d2 h
    refine ⟨e1, e2, r0, e3, ?_, by rw [e3]; exact e4⟩
    rw [e3]
    exact (C17.alignUpN_spec _ _ (Nat.two_pow_pos k)).1

/-! Non-vacuity -/
example : remapReject (2 ^ 64 - 11) 4352 (2 ^ 12) = true ∧ remapReject (2 ^ 64 - 2 ^ 59) 4352 (2 ^ 12) = true ∧
    remapReject (32 * 2 ^ 20) 4352 (2 ^ 12) = false ∧ remapAlignedSize (32 * 2 ^ 20) 4352 (2 ^ 12) = 33554432 + 4194304 ∧
    remapRequestSize (32 * 2 ^ 20) 4352 (2 ^ 12) = 33554432 + 4194304 + 4096 := by decide
example : callocReject (2 ^ 32) (2 ^ 32) = true ∧ callocReject (2 ^ 32) (2 ^ 31) = false ∧ callocReject 3 6148914691236517206 = true ∧
    callocReject 3 6148914691236517205 = false := by decide
example : lloOutcome (2 ^ 64 - 1) (2 ^ 6) = .reject ∧ lloOutcome (2 ^ 63) (2 ^ 63) = .reject ∧
    lloOutcome 10000 (2 ^ 6) = .large 16384 ∧ lloOutcome (2 ^ 62) (2 ^ 6) = .large (2 ^ 62 + 2 ^ 59) ∧
    lloOutcome (2 ^ 64 - 2 ^ 60 - 168) (2 ^ 6) = .large (2 ^ 64 - 2 ^ 60) ∧ lloOutcome (2 ^ 64 - 2 ^ 60 - 167) (2 ^ 6) = .reject := by decide
example : posixMemalignReject 4 100 = true ∧ posixMemalignReject 8 100 = false ∧ posixMemalignReject 24 100 = true ∧
    alignedMallocReject 100 1 = false ∧ alignedMallocReject 0 8 = true ∧ alignedReallocReject 0 3 = true := by decide
example : ledgerRun [] [.rawAlloc 1000 4096, .block 1024 100, .rawFree 1000 4096] = some [] ∧
    ledgerRun [] [.rawAlloc 1000 4096, .block 5000 100] = none ∧
    ledgerRun [] [.rawAlloc 1000 4096, .rawFree 1000 4096, .rawFree 1000 4096] = none := by decide

end TbbVerif.C18
