/-
C07 — property theorems (statements only; helper lemmas are in Proofs/C07/*.lean).

Property: every item emitted by the first filter of a parallel_pipeline passes every later filter exactly
once; all serial_in_order filters process the items one at a time in one common order (the order in which
the first serial_in_order filter numbered them); a serial_out_of_order filter never runs two invocations at
once; never more than max_number_of_live_tokens items are in flight; the call returns only after end of
input and after every emitted item has left the last filter.
-/
import TbbVerif.Proofs.C07.Refine
import TbbVerif.Proofs.C07.Final

namespace TbbVerif.C07

/-! ## The token buffer (`input_buffer`) -/

/-- **The ring is a finite map.** For every sequence of `try_put_token` / note-done / `get_ordered_token`
operations (any tokens, any amount of forced growth), the real ring `input_buffer` — power-of-two array,
slots indexed `token & (array_size-1)`, `grow` re-hashing from `low_token` — gives exactly the outputs of
the unbounded map specification `specMach` (token ↦ parked item; `put` parks unless the token is the lowest;
note-done advances `low` and releases-and-erases the entry of the new `low`, hence a parked token is
released exactly once, when `low` reaches it), and its abstraction `abs` equals the specification's map. -/
theorem tokenbuf_refines_map (o : Bool) (ops : List BufOp) :
    ((ringMach o).run ops).2 = ((specMach o).run ops).2 ∧
    (∃ k, ((ringMach o).run ops).1.size = 2 ^ k) ∧
    ((ringMach o).run ops).1.slots.length = ((ringMach o).run ops).1.size ∧
    ((ringMach o).run ops).1.low = ((specMach o).run ops).1.low ∧
    ((ringMach o).run ops).1.high = ((specMach o).run ops).1.high ∧
    ∀ t, ((ringMach o).run ops).1.abs t = ((specMach o).run ops).1.m t := by
  obtain ⟨h1, hwf, _, h3, h4, h5⟩ := sim_run o ops _ _ (sim_init o)
  exact ⟨h1, hwf.pow2, hwf.len, h3, h4, h5⟩

/-- **No two tokens collide in a slot**: two tokens of the window `[low, low+size)` with the same slot
index `token & (size-1)` are the same token (size a power of two). -/
theorem tokenbuf_no_collision (k low t1 t2 : Nat) (h1 : low ≤ t1 ∧ t1 < low + 2 ^ k) (h2 : low ≤ t2 ∧ t2 < low + 2 ^ k)
    (h : TokenBuf.idx (2 ^ k) t1 = TokenBuf.idx (2 ^ k) t2) : t1 = t2 := by
  rw [TokenBuf.idx_eq_mod, TokenBuf.idx_eq_mod] at h
  exact TokenBuf.window_inj _ low t1 t2 h1.1 h1.2 h2.1 h2.2 h

/-- **`grow` preserves the map**, makes room for `minSize` tokens, and keeps the size a power of two. -/
theorem tokenbuf_grow_preserves_map (b : TokenBuf) (minSize : Nat) (h : TokenBuf.WF b) :
    (∀ t, (b.grow minSize).abs t = b.abs t) ∧ minSize ≤ (b.grow minSize).size ∧
    (∃ k, (b.grow minSize).size = 2 ^ k) ∧ (b.grow minSize).low = b.low := by
  obtain ⟨hp, _, hm, _, hlow, _, _, habs⟩ := TokenBuf.grow_spec b minSize (Or.inr h.pow2)
  exact ⟨habs, hm, hp, hlow⟩

/-- **A parked token is released exactly when `low` reaches it** (one note-done step on a well-formed
buffer): the wakee is the map's entry at `low+1`, that entry and no other is removed. -/
theorem tokenbuf_release_at_low (b : TokenBuf) (h : TokenBuf.WF b) :
    b.noteDone.2 = b.abs (b.low + 1) ∧ b.noteDone.1.low = b.low + 1 ∧ TokenBuf.WF b.noteDone.1 ∧
    ∀ t, b.noteDone.1.abs t = if t = b.low + 1 then none else b.abs t := by
  obtain ⟨h1, h2, h3, _, _, h6⟩ := TokenBuf.noteDone_spec b h
  exact ⟨h1, h3, h2, h6⟩

/-! Non-vacuity: an ordered buffer in which tokens 2 and 5 are parked (5 forces growth 4 → 8 with token 2
parked), token 0 runs at once, and two note-done calls release nothing, then token 2. -/
example :
    ((ringMach true).run [.put ⟨7, 2, true⟩, .put ⟨8, 5, true⟩, .put ⟨9, 0, true⟩, .done, .done]).2 =
      [.put (some (⟨7, 2, true⟩, 2, true)), .put (some (⟨8, 5, true⟩, 5, true)), .put (some (⟨9, 0, true⟩, 0, false)),
       .done none, .done (some ⟨7, 2, true⟩)] ∧
    ((ringMach true).run [.put ⟨7, 2, true⟩, .put ⟨8, 5, true⟩, .put ⟨9, 0, true⟩, .done, .done]).1.size = 8 := by
  decide

example : TokenBuf.WF (TokenBuf.new false) := (TokenBuf.new_wf false).1

/-! ## The pipeline protocol

`sys c` is the interleaving system of `Model/C07.lean`: agents are the stage_task objects, a schedule is
any `List Tid` (any number of worker threads, any interleaving of their lock regions / RMWs / filter calls).
`c.Valid` = at least one filter and `max_number_of_live_tokens ≥ 1`; filter modes, token limit and item
count are arbitrary. -/

/-- an invocation of filter `k` is in progress in task `t` -/
def insideFilter (k : Nat) (t : Task) : Bool :=
  (t.pc == .inFilter && t.stage == k) || (k == 0 && (t.pc == .inCallS || t.pc == .inCallP))

/-- **live_tokens_bounded.** In every reachable state the number of items that the input filter has
returned and that have not yet left the last filter is at most `max_number_of_live_tokens`. -/
theorem live_tokens_bounded (c : Cfg) (hv : c.Valid) (sched : List Tid) :
    ((sys c).run sched).produced - (((sys c).run sched).done (c.n - 1)).length ≤ c.maxTok :=
  live_bound (inv_reachable hv sched).2.1

/-- **serial_mutex.** In every reachable state at most one invocation of a serial filter (in-order or
out-of-order, the input filter included) is in progress. -/
theorem serial_mutex (c : Cfg) (hv : c.Valid) (sched : List Tid) (k : Nat) (hk : (c.mode k).serial = true) :
    ((sys c).run sched).tasks.countP (insideFilter k) ≤ 1 := by
  obtain ⟨hA, hB, hC, _, _⟩ := inv_reachable hv sched
  rcases Nat.eq_zero_or_pos k with rfl | hpos
  · refine Nat.le_trans (List.countP_mono_left (q := inputAgent) ?_) hB.inpLe
    intro x hx hin
    obtain ⟨i, hi, rfl⟩ := List.mem_iff_getElem.1 hx
    have hso := hA.stage i _ (List.getElem?_eq_getElem hi)
    unfold insideFilter at hin; unfold inputAgent
    cases hpc : (((sys c).run sched).tasks[i]).pc <;> simp [hpc, inputPc] at hin ⊢
    · have := hso.2.2.2 (by simp [parInPc, hpc]); rw [hk] at this; cases this
    · have := (hso.2.1 (by simp [midPc, hpc])).1; omega
  · refine Nat.le_trans (List.countP_mono_left (q := own k) ?_) (hC.own1 k hk)
    intro x _ hin
    unfold insideFilter at hin; unfold own
    have hk0 : (k == 0) = false := by simp; omega
    cases hpc : x.pc <;> simp [hpc, hk0, ownPc] at hin ⊢
    exact hin

/-- **serial_in_order.** `numbered` is the order in which the first serial_in_order filter of the pipeline
numbered the items (the input filter's `get_ordered_token`, or `try_put_token` of the first ordered
filter).  In every reachable state, the sequence of items on which any serial_in_order filter `k` has
begun an invocation is a prefix of that one numbering. -/
theorem serial_in_order (c : Cfg) (hv : c.Valid) (sched : List Tid) (k : Nat) (hk : (c.mode k).ordered = true) :
    ((sys c).run sched).seen k <+: ((sys c).run sched).numbered := by
  obtain ⟨_, _, hC, _, _⟩ := inv_reachable hv sched
  rcases Nat.eq_zero_or_pos k with rfl | hpos
  · rw [hC.seen0 hk]; exact List.prefix_refl _
  · exact hC.seenPre k hk hpos

/-- Hence all serial_in_order filters process the items in ONE common order: of the sequences seen so far
by any two of them, one is a prefix of the other. -/
theorem serial_in_order_common (c : Cfg) (hv : c.Valid) (sched : List Tid) (k1 k2 : Nat)
    (h1 : (c.mode k1).ordered = true) (h2 : (c.mode k2).ordered = true) :
    ((sys c).run sched).seen k1 <+: ((sys c).run sched).seen k2 ∨
    ((sys c).run sched).seen k2 <+: ((sys c).run sched).seen k1 :=
  List.prefix_or_prefix_of_prefix (serial_in_order c hv sched k1 h1) (serial_in_order c hv sched k2 h2)

/-- **each_item_every_filter_once (safety).** In every reachable state: no item begins or ends an
invocation of any filter twice; a filter ends on an item only after it began on it, and filter `k+1`
begins on an item only after filter `k` ended on it; only items the input filter has returned appear. -/
theorem each_item_every_filter_at_most_once (c : Cfg) (hv : c.Valid) (sched : List Tid) (k : Nat) :
    (((sys c).run sched).seen k).Nodup ∧ (((sys c).run sched).done k).Nodup ∧
    (∀ i, i ∈ ((sys c).run sched).done k → i ∈ ((sys c).run sched).seen k) ∧
    (∀ i, i ∈ ((sys c).run sched).seen (k + 1) → i ∈ ((sys c).run sched).done k) ∧
    (∀ i, i ∈ ((sys c).run sched).seen k → i < ((sys c).run sched).produced) := by
  obtain ⟨hA, _, _, hD, _⟩ := inv_reachable hv sched
  refine ⟨hD.seenNd k, hD.doneNd k, ?_, ?_, ?_⟩
  · intro i hi
    have := (hD.doneIff i k).1 hi
    have := ended_le_begun c ((sys c).run sched) i
    exact (hD.seenIff i k).2 (by omega)
  · intro i hi
    have := (hD.seenIff i (k + 1)).1 hi
    have := ended_le_begun c ((sys c).run sched) i
    exact (hD.doneIff i k).2 (by omega)
  · intro i hi
    have hb := (hD.seenIff i k).1 hi
    rcases Nat.lt_or_ge i ((sys c).run sched).produced with h | h
    · exact h
    · have := (begun_of_none (c := c) (s := (sys c).run sched) (i := i)
        (List.getElem?_eq_none (by rw [hA.locLen]; exact h))).1
      omega

/-- **pipeline_returns_after_drain.** `parallel_pipeline` returns when its wait counter reaches zero.
In every reachable state with `wait = 0`: the input filter has signalled end of input, and every item it
returned has been begun and ended by every filter `k < n` — in particular it has left the last filter. -/
theorem pipeline_returns_after_drain (c : Cfg) (hv : c.Valid) (sched : List Tid)
    (hw : ((sys c).run sched).wait = 0) :
    ((sys c).run sched).eoi = true ∧
    ∀ i k, i < ((sys c).run sched).produced → k < c.n →
      i ∈ ((sys c).run sched).seen k ∧ i ∈ ((sys c).run sched).done k := by
  obtain ⟨hA, hB, hC, hD, hE⟩ := inv_reachable hv sched
  obtain ⟨he, hret⟩ := drained_of_wait_zero hv hA hB hC hE hw
  refine ⟨he, fun i k hi hk => ?_⟩
  have := begun_of_retired (c := c) (hret i hi)
  exact ⟨(hD.seenIff i k).2 (by omega), (hD.doneIff i k).2 (by omega)⟩

/-- **each_item_every_filter_once.** When the call returns (`wait = 0`), every item the input filter
returned has passed through every filter exactly once: it occurs exactly once in the begin log and exactly
once in the end log of every filter. -/
theorem each_item_every_filter_once (c : Cfg) (hv : c.Valid) (sched : List Tid)
    (hw : ((sys c).run sched).wait = 0) (i k : Nat) (hi : i < ((sys c).run sched).produced) (hk : k < c.n) :
    (((sys c).run sched).seen k).count i = 1 ∧ (((sys c).run sched).done k).count i = 1 := by
  obtain ⟨h1, h2⟩ := (pipeline_returns_after_drain c hv sched hw).2 i k hi hk
  obtain ⟨n1, n2, _⟩ := each_item_every_filter_at_most_once c hv sched k
  exact ⟨by rw [n1.count, if_pos h1], by rw [n2.count, if_pos h2]⟩

/-- **serial_in_order, at return.** When the call returns, all serial_in_order filters have processed exactly
the same sequence of items (every emitted item, in the order of the first such filter). -/
theorem serial_in_order_at_return (c : Cfg) (hv : c.Valid) (sched : List Tid)
    (hw : ((sys c).run sched).wait = 0) (k1 k2 : Nat) (hk1 : k1 < c.n) (hk2 : k2 < c.n)
    (h1 : (c.mode k1).ordered = true) (h2 : (c.mode k2).ordered = true) :
    ((sys c).run sched).seen k1 = ((sys c).run sched).seen k2 := by
  have hall := (pipeline_returns_after_drain c hv sched hw).2
  have hsub : ∀ ka kb, ka < c.n → kb < c.n →
      (((sys c).run sched).seen ka).length ≤ (((sys c).run sched).seen kb).length := by
    intro ka kb hka hkb
    obtain ⟨n1, _, _, _, n5⟩ := each_item_every_filter_at_most_once c hv sched ka
    exact nodup_subset_length _ _ n1 (fun x hx => (hall x kb (n5 x hx) hkb).1)
  have hlen := Nat.le_antisymm (hsub k1 k2 hk1 hk2) (hsub k2 k1 hk2 hk1)
  exact (List.prefix_of_prefix_length_le (serial_in_order c hv sched k1 h1) (serial_in_order c hv sched k2 h2)
    (Nat.le_of_eq hlen)).eq_of_length hlen

/-- **no_assertion_fails.** In no reachable state has the code's assertion in `try_put_token`
(`token - low_token ≥ 0`) failed or `input_tokens.fetch_sub` been executed on a zero counter. -/
theorem no_assertion_fails (c : Cfg) (hv : c.Valid) (sched : List Tid) : ((sys c).run sched).err = false :=
  (inv_reachable hv sched).2.2.2.2.noErr

/-! Non-vacuity: three filters (serial_in_order input, parallel, serial_in_order), 2 tokens, 3 items; a
schedule in which item 1 overtakes item 0 in the parallel filter, is parked at the last filter, and is
released by item 0's note-done. -/
example :
    let c : Cfg := { modes := [.inOrder, .parallel, .inOrder], maxTok := 2, total := 3 }
    let s := (sys c).run [0, 0, 0, 1, 1, 1, 1, 1, 1, 0, 0, 0, 0, 0, 0, 2, 2, 2]
    s.numbered = [0, 1] ∧ s.seen 1 = [1, 0] ∧ s.seen 2 = [0, 1] ∧ s.done 2 = [0, 1] ∧ s.err = false := by
  decide

example : Cfg.Valid { modes := [.inOrder, .parallel, .inOrder], maxTok := 2, total := 3 } :=
  ⟨by decide, by decide⟩

/-! Non-vacuity of the `wait = 0` hypothesis: a complete run (one item, out-of-order then in-order filter,
one token) ends with the wait counter at zero. -/
example :
    let c : Cfg := { modes := [.outOfOrder, .inOrder], maxTok := 1, total := 1 }
    let s := (sys c).run [0, 0, 0, 0, 0, 0, 0, 0, 0, 0, 0, 0]
    s.wait = 0 ∧ s.eoi = true ∧ s.done 1 = [0] := by
  decide

end TbbVerif.C07
