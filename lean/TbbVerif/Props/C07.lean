/-
C07 — property theorems (statements only; helper lemmas are in Proofs/C07/*.lean).

Property: every item emitted by the first filter of a parallel_pipeline passes every later filter exactly
once; all serial_in_order filters process the items one at a time in one common order (the order in which
the first serial_in_order filter numbered them); a serial_out_of_order filter never runs two invocations at
once; never more than max_number_of_live_tokens items are in flight; the call returns only after end of
input and after every emitted item has left the last filter.
-/
import TbbVerif.Proofs.C07.Refine
import TbbVerif.Proofs.C07.Final
import TbbVerif.Proofs.C07.LifeFin
import TbbVerif.Proofs.C07.WrapRun
import TbbVerif.Generated.C07

namespace TbbVerif.C07

/-! ## The token buffer (`input_buffer`) -/

/-- **The ring is a finite map.** For every sequence of `try_put_token` / note-done / `get_ordered_token`
operations (any tokens, any amount of forced growth), the real ring `input_buffer` — power-of-two array,
slots indexed `token & (array_size-1)`, `grow` re-hashing from `low_token` — gives exactly the outputs of
the unbounded map specification `specMach` (token ↦ parked item; `put` parks unless the token is the lowest;
note-done advances `low` and releases-and-erases the entry of the new `low`, hence a parked token is
released exactly once, when `low` reaches it), and its abstraction `abs` equals the specification's map. -/
theorem tokenbuf_refines_map (o : Bool) (ops : List BufOp) :
    ((ringMach o).run ops).2 = ((specMach o).run ops).2 ∧
    (∃ k, ((ringMach o).run ops).1.size = 2 ^ k) ∧
    ((ringMach o).run ops).1.slots.length = ((ringMach o).run ops).1.size ∧
    ((ringMach o).run ops).1.low = ((specMach o).run ops).1.low ∧
    ((ringMach o).run ops).1.high = ((specMach o).run ops).1.high ∧
    ∀ t, ((ringMach o).run ops).1.abs t = ((specMach o).run ops).1.m t := by
  obtain ⟨h1, hwf, _, h3, h4, h5⟩ := sim_run o ops _ _ (sim_init o)
  exact ⟨h1, hwf.pow2, hwf.len, h3, h4, h5⟩

/-- **No two tokens collide in a slot**: two tokens of the window `[low, low+size)` with the same slot
index `token & (size-1)` are the same token (size a power of two). -/
theorem tokenbuf_no_collision (k low t1 t2 : Nat) (h1 : low ≤ t1 ∧ t1 < low + 2 ^ k) (h2 : low ≤ t2 ∧ t2 < low + 2 ^ k)
    (h : TokenBuf.idx (2 ^ k) t1 = TokenBuf.idx (2 ^ k) t2) : t1 = t2 := by
  rw [TokenBuf.idx_eq_mod, TokenBuf.idx_eq_mod] at h
  exact TokenBuf.window_inj _ low t1 t2 h1.1 h1.2 h2.1 h2.2 h

/-- **`grow` preserves the map**, makes room for `minSize` tokens, and keeps the size a power of two. -/
theorem tokenbuf_grow_preserves_map (b : TokenBuf) (minSize : Nat) (h : TokenBuf.WF b) :
    (∀ t, (b.grow minSize).abs t = b.abs t) ∧ minSize ≤ (b.grow minSize).size ∧
    (∃ k, (b.grow minSize).size = 2 ^ k) ∧ (b.grow minSize).low = b.low := by
  obtain ⟨hp, _, hm, _, hlow, _, _, habs⟩ := TokenBuf.grow_spec b minSize (Or.inr h.pow2)
  exact ⟨habs, hm, hp, hlow⟩

/-- **A parked token is released exactly when `low` reaches it** (one note-done step on a well-formed
buffer): the wakee is the map's entry at `low+1`, that entry and no other is removed. -/
theorem tokenbuf_release_at_low (b : TokenBuf) (h : TokenBuf.WF b) :
    b.noteDone.2 = b.abs (b.low + 1) ∧ b.noteDone.1.low = b.low + 1 ∧ TokenBuf.WF b.noteDone.1 ∧
    ∀ t, b.noteDone.1.abs t = if t = b.low + 1 then none else b.abs t := by
  obtain ⟨h1, h2, h3, _, _, h6⟩ := TokenBuf.noteDone_spec b h
  exact ⟨h1, h3, h2, h6⟩

/-! Non-vacuity: an ordered buffer in which tokens 2 and 5 are parked (5 forces growth 4 → 8 with token 2
parked), token 0 runs at once, and two note-done calls release nothing, then token 2. -/
example :
    ((ringMach true).run [.put ⟨7, 2, true⟩, .put ⟨8, 5, true⟩, .put ⟨9, 0, true⟩, .done, .done]).2 =
      [.put (some (⟨7, 2, true⟩, 2, true)), .put (some (⟨8, 5, true⟩, 5, true)), .put (some (⟨9, 0, true⟩, 0, false)),
       .done none, .done (some ⟨7, 2, true⟩)] ∧
    ((ringMach true).run [.put ⟨7, 2, true⟩, .put ⟨8, 5, true⟩, .put ⟨9, 0, true⟩, .done, .done]).1.size = 8 := by
  decide

example : TokenBuf.WF (TokenBuf.new false) := (TokenBuf.new_wf false).1

/-! ## The pipeline protocol

`sys c` is the interleaving system of `Model/C07.lean`: agents are the stage_task objects, a schedule is
any `List Tid` (any number of worker threads, any interleaving of their lock regions / RMWs / filter calls).
`c.Valid` = at least one filter and `max_number_of_live_tokens ≥ 1`; filter modes, token limit and item
count are arbitrary. -/

/-- an invocation of filter `k` is in progress in task `t` -/
def insideFilter (k : Nat) (t : Task) : Bool :=
  (t.pc == .inFilter && t.stage == k) || (k == 0 && (t.pc == .inCallS || t.pc == .inCallP))

/-- **live_tokens_bounded.** In every reachable state the number of items that the input filter has
returned and that have not yet left the last filter is at most `max_number_of_live_tokens`. -/
theorem live_tokens_bounded (c : Cfg) (hv : c.Valid) (sched : List Tid) :
    ((sys c).run sched).produced - (((sys c).run sched).done (c.n - 1)).length ≤ c.maxTok :=
  live_bound (inv_reachable hv sched).2.1

/-- **serial_mutex.** In every reachable state at most one invocation of a serial filter (in-order or
out-of-order, the input filter included) is in progress. -/
theorem serial_mutex (c : Cfg) (hv : c.Valid) (sched : List Tid) (k : Nat) (hk : (c.mode k).serial = true) :
    ((sys c).run sched).tasks.countP (insideFilter k) ≤ 1 := by
  obtain ⟨hA, hB, hC, _, _⟩ := inv_reachable hv sched
  rcases Nat.eq_zero_or_pos k with rfl | hpos
  · refine Nat.le_trans (List.countP_mono_left (q := inputAgent) ?_) hB.inpLe
    intro x hx hin
    obtain ⟨i, hi, rfl⟩ := List.mem_iff_getElem.1 hx
    have hso := hA.stage i _ (List.getElem?_eq_getElem hi)
    unfold insideFilter at hin; unfold inputAgent
    cases hpc : (((sys c).run sched).tasks[i]).pc <;> simp [hpc, inputPc] at hin ⊢
    · have := hso.2.2.2 (by simp [parInPc, hpc]); rw [hk] at this; cases this
    · have := (hso.2.1 (by simp [midPc, hpc])).1; omega
  · refine Nat.le_trans (List.countP_mono_left (q := own k) ?_) (hC.own1 k hk)
    intro x _ hin
    unfold insideFilter at hin; unfold own
    have hk0 : (k == 0) = false := by simp; omega
    cases hpc : x.pc <;> simp [hpc, hk0, ownPc] at hin ⊢
    exact hin

/-- **serial_in_order.** `numbered` is the order in which the first serial_in_order filter of the pipeline
numbered the items (the input filter's `get_ordered_token`, or `try_put_token` of the first ordered
filter).  In every reachable state, the sequence of items on which any serial_in_order filter `k` has
begun an invocation is a prefix of that one numbering. -/
theorem serial_in_order (c : Cfg) (hv : c.Valid) (sched : List Tid) (k : Nat) (hk : (c.mode k).ordered = true) :
    ((sys c).run sched).seen k <+: ((sys c).run sched).numbered := by
  obtain ⟨_, _, hC, _, _⟩ := inv_reachable hv sched
  rcases Nat.eq_zero_or_pos k with rfl | hpos
  · rw [hC.seen0 hk]; exact List.prefix_refl _
  · exact hC.seenPre k hk hpos

/-- Hence all serial_in_order filters process the items in ONE common order: of the sequences seen so far
by any two of them, one is a prefix of the other. -/
theorem serial_in_order_common (c : Cfg) (hv : c.Valid) (sched : List Tid) (k1 k2 : Nat)
    (h1 : (c.mode k1).ordered = true) (h2 : (c.mode k2).ordered = true) :
    ((sys c).run sched).seen k1 <+: ((sys c).run sched).seen k2 ∨
    ((sys c).run sched).seen k2 <+: ((sys c).run sched).seen k1 :=
  List.prefix_or_prefix_of_prefix (serial_in_order c hv sched k1 h1) (serial_in_order c hv sched k2 h2)

/-- **each_item_every_filter_once (safety).** In every reachable state: no item begins or ends an
invocation of any filter twice; a filter ends on an item only after it began on it, and filter `k+1`
begins on an item only after filter `k` ended on it; only items the input filter has returned appear. -/
theorem each_item_every_filter_at_most_once (c : Cfg) (hv : c.Valid) (sched : List Tid) (k : Nat) :
    (((sys c).run sched).seen k).Nodup ∧ (((sys c).run sched).done k).Nodup ∧
    (∀ i, i ∈ ((sys c).run sched).done k → i ∈ ((sys c).run sched).seen k) ∧
    (∀ i, i ∈ ((sys c).run sched).seen (k + 1) → i ∈ ((sys c).run sched).done k) ∧
    (∀ i, i ∈ ((sys c).run sched).seen k → i < ((sys c).run sched).produced) := by
  obtain ⟨hA, _, _, hD, _⟩ := inv_reachable hv sched
  refine ⟨hD.seenNd k, hD.doneNd k, ?_, ?_, ?_⟩
  · intro i hi
    have := (hD.doneIff i k).1 hi
    have := ended_le_begun c ((sys c).run sched) i
    exact (hD.seenIff i k).2 (by omega)
  · intro i hi
    have := (hD.seenIff i (k + 1)).1 hi
    have := ended_le_begun c ((sys c).run sched) i
    exact (hD.doneIff i k).2 (by omega)
  · intro i hi
    have hb := (hD.seenIff i k).1 hi
    rcases Nat.lt_or_ge i ((sys c).run sched).produced with h | h
    · exact h
    · have := (begun_of_none (c := c) (s := (sys c).run sched) (i := i)
        (List.getElem?_eq_none (by rw [hA.locLen]; exact h))).1
      omega

/-- **pipeline_returns_after_drain.** `parallel_pipeline` returns when its wait counter reaches zero.
In every reachable state with `wait = 0`: the input filter has signalled end of input, and every item it
returned has been begun and ended by every filter `k < n` — in particular it has left the last filter. -/
theorem pipeline_returns_after_drain (c : Cfg) (hv : c.Valid) (sched : List Tid)
    (hw : ((sys c).run sched).wait = 0) :
    ((sys c).run sched).eoi = true ∧
    ∀ i k, i < ((sys c).run sched).produced → k < c.n →
      i ∈ ((sys c).run sched).seen k ∧ i ∈ ((sys c).run sched).done k := by
  obtain ⟨hA, hB, hC, hD, hE⟩ := inv_reachable hv sched
  obtain ⟨he, hret⟩ := drained_of_wait_zero hv hA hB hC hE hw
  refine ⟨he, fun i k hi hk => ?_⟩
  have := begun_of_retired (c := c) (hret i hi)
  exact ⟨(hD.seenIff i k).2 (by omega), (hD.doneIff i k).2 (by omega)⟩

/-- **each_item_every_filter_once.** When the call returns (`wait = 0`), every item the input filter
returned has passed through every filter exactly once: it occurs exactly once in the begin log and exactly
once in the end log of every filter. -/
theorem each_item_every_filter_once (c : Cfg) (hv : c.Valid) (sched : List Tid)
    (hw : ((sys c).run sched).wait = 0) (i k : Nat) (hi : i < ((sys c).run sched).produced) (hk : k < c.n) :
    (((sys c).run sched).seen k).count i = 1 ∧ (((sys c).run sched).done k).count i = 1 := by
  obtain ⟨h1, h2⟩ := (pipeline_returns_after_drain c hv sched hw).2 i k hi hk
  obtain ⟨n1, n2, _⟩ := each_item_every_filter_at_most_once c hv sched k
  exact ⟨by rw [n1.count, if_pos h1], by rw [n2.count, if_pos h2]⟩

/-- **serial_in_order, at return.** When the call returns, all serial_in_order filters have processed exactly
the same sequence of items (every emitted item, in the order of the first such filter). -/
theorem serial_in_order_at_return (c : Cfg) (hv : c.Valid) (sched : List Tid)
    (hw : ((sys c).run sched).wait = 0) (k1 k2 : Nat) (hk1 : k1 < c.n) (hk2 : k2 < c.n)
    (h1 : (c.mode k1).ordered = true) (h2 : (c.mode k2).ordered = true) :
    ((sys c).run sched).seen k1 = ((sys c).run sched).seen k2 := by
  have hall := (pipeline_returns_after_drain c hv sched hw).2
  have hsub : ∀ ka kb, ka < c.n → kb < c.n →
      (((sys c).run sched).seen ka).length ≤ (((sys c).run sched).seen kb).length := by
    intro ka kb hka hkb
    obtain ⟨n1, _, _, _, n5⟩ := each_item_every_filter_at_most_once c hv sched ka
    exact nodup_subset_length _ _ n1 (fun x hx => (hall x kb (n5 x hx) hkb).1)
  have hlen := Nat.le_antisymm (hsub k1 k2 hk1 hk2) (hsub k2 k1 hk2 hk1)
  exact (List.prefix_of_prefix_length_le (serial_in_order c hv sched k1 h1) (serial_in_order c hv sched k2 h2)
    (Nat.le_of_eq hlen)).eq_of_length hlen

/-- **no_assertion_fails.** In no reachable state has the code's assertion in `try_put_token`
(`token - low_token ≥ 0`) failed or `input_tokens.fetch_sub` been executed on a zero counter. -/
theorem no_assertion_fails (c : Cfg) (hv : c.Valid) (sched : List Tid) : ((sys c).run sched).err = false :=
  (inv_reachable hv sched).2.2.2.2.noErr

/-! Non-vacuity: three filters (serial_in_order input, parallel, serial_in_order), 2 tokens, 3 items; a
schedule in which item 1 overtakes item 0 in the parallel filter, is parked at the last filter, and is
released by item 0's note-done. -/
example :
    let c : Cfg := { modes := [.inOrder, .parallel, .inOrder], maxTok := 2, total := 3 }
    let s := (sys c).run [0, 0, 0, 1, 1, 1, 1, 1, 1, 0, 0, 0, 0, 0, 0, 2, 2, 2]
    s.numbered = [0, 1] ∧ s.seen 1 = [1, 0] ∧ s.seen 2 = [0, 1] ∧ s.done 2 = [0, 1] ∧ s.err = false := by
  decide

example : Cfg.Valid { modes := [.inOrder, .parallel, .inOrder], maxTok := 2, total := 3 } :=
  ⟨by decide, by decide⟩

/-! Non-vacuity of the `wait = 0` hypothesis: a complete run (one item, out-of-order then in-order filter,
one token) ends with the wait counter at zero. -/
example :
    let c : Cfg := { modes := [.outOfOrder, .inOrder], maxTok := 1, total := 1 }
    let s := (sys c).run [0, 0, 0, 0, 0, 0, 0, 0, 0, 0, 0, 0]
    s.wait = 0 ∧ s.eoi = true ∧ s.done 1 = [0] := by
  decide


/-! ## Token life cycle; the cancelled / throwing pipeline

`Life.runL c f evs` is the model of `Model/C07Life.lean`: the base pipeline model plus, per stage_task, its position in
the dispatcher loop, the context's cancellation flag, and the ledger of `create_token` / `destroy_token` calls.  An event
list is any interleaving of task steps (`run tid`), filter bodies throwing (`throw tid`, at any invocation of any
filter), external cancellation (`cancel`, at any moment) and the return (`ret`, enabled when `wait_ctx == 0`).  `f` says
whether `~pipeline` hands the items parked in the buffers to `finalize` (`Generated.C07.bufferCleanup` for the current
tree).  `tok i k` = the token object made by filter `k` for item `i`; `stopVal j` = the value returned by the `j`-th
invocation that called `fc.stop()`. -/

open Life in
/-- **token_objects_destroyed_once.**  For every pipeline (any filters and modes, a parallel or serial_out_of_order first
filter included), every token limit ≥ 1, every schedule and every throw / cancellation point:
* at every moment no token object has been created twice or destroyed twice, and only created objects are destroyed;
* while the call has not returned, a created and not yet destroyed object `tok i k` is in exactly one place: parked in
  the buffer of filter `k+1`, or carried (`my_object`) by one stage_task that still exists and stands in front of /
  inside filter `k+1` (so the next invocation or that task's destructor will find it);
* when the call has returned, every created object has been destroyed exactly once — by the next filter's invocation, or
  by `~stage_task` of a cancelled task (its own `my_object`) — EXCEPT the objects sitting in valid buffer slots
  (`low_token < token`, `is_valid`) at that moment: with `bufferCleanup` they are destroyed exactly once by the clean-up,
  without it they are never destroyed (`leaked`), and these are precisely the slot contents; this can only happen in a
  cancelled pipeline;
* hence: with `bufferCleanup`, or in a pipeline that was never cancelled and in which no body threw, every token object the
  library created is destroyed exactly once. -/
theorem token_objects_destroyed_once (c : Cfg) (hv : c.Valid) (f : Flags) (evs : List Ev) :
    (∀ o, (runL c f evs).created.count o ≤ 1) ∧ (∀ o, (runL c f evs).destroyed.count o ≤ 1) ∧
    (∀ o, o ∈ (runL c f evs).destroyed → o ∈ (runL c f evs).created) ∧
    ((runL c f evs).returned = false → ∀ i k, Obj.tok i k ∈ (runL c f evs).created → Obj.tok i k ∉ (runL c f evs).destroyed →
      k + 1 < c.n ∧
      ((∃ tok, (runL c f evs).base.loc[i]? = some (.parked (k + 1) tok)) ∨
       (∃ tid t, (runL c f evs).base.loc[i]? = some (.task tid) ∧ (runL c f evs).base.tasks[tid]? = some t ∧
          t.info.item = i ∧ heldObj c t = some (Obj.tok i k) ∧ liveTask (runL c f evs) tid = true))) ∧
    ((runL c f evs).returned = true →
      (∀ o, o ∈ (runL c f evs).created →
        (runL c f evs).destroyed.count o = 1 ∨ (o ∈ (runL c f evs).leaked ∧ (runL c f evs).destroyed.count o = 0)) ∧
      (∀ o, o ∈ (runL c f evs).leaked → f.bufferCleanup = false ∧ (runL c f evs).cancelled = true ∧
        ∃ i k tok info, o = Obj.tok i k ∧ k + 1 < c.n ∧ ((runL c f evs).base.bufs (k + 1)).abs tok = some info ∧ info.item = i) ∧
      (∀ k tok info, ((runL c f evs).base.bufs k).abs tok = some info →
        (f.bufferCleanup = false ∧ Obj.tok info.item (k - 1) ∈ (runL c f evs).leaked) ∨
        (f.bufferCleanup = true ∧ (runL c f evs).destroyed.count (Obj.tok info.item (k - 1)) = 1)) ∧
      (f.bufferCleanup = true ∨ (runL c f evs).cancelled = false →
        ∀ o, o ∈ (runL c f evs).created → (runL c f evs).destroyed.count o = 1)) := by
  rcases inv_run hv f evs with h | h
  · refine ⟨core_crt1 h, core_dst1 h, core_sub h, ?_, fun hr => by rw [h.notRet] at hr; cases hr⟩
    intro _ i k hc hd
    obtain ⟨_, hn, hp | ⟨tid, t, hl, ht, _, hit, he, hng⟩⟩ := core_held h hc hd
    · exact ⟨hn, Or.inl hp⟩
    · refine ⟨hn, Or.inr ⟨tid, t, hl, ht, hit, ?_, ?_⟩⟩
      · unfold heldObj; rw [if_pos ⟨by omega, by omega⟩, hit, he]; rfl
      · have hlt : tid < (runL c f evs).ph.length := by rw [h.phLen]; exact lt_of_getElem? ht
        have hdead : t.pc ≠ .dead := by
          intro hd'; unfold endedOf at he; rw [hd'] at he; simp at he
        unfold liveTask
        rw [ht, List.getElem?_eq_getElem hlt]
        simp only [bne_iff_ne, ne_eq, Bool.and_eq_true]
        refine ⟨hdead, ?_⟩
        intro hg; apply hng; rw [List.getElem?_eq_getElem hlt, hg]
  · have hone : ∀ o, o ∈ (runL c f evs).destroyed → (runL c f evs).destroyed.count o = 1 := by
      intro o hm
      have h1 := h.dst1 o
      have h2 := List.count_pos_iff.2 hm
      omega
    refine ⟨h.crt1, h.dst1, h.sub, (fun hr => by rw [h.ret] at hr; cases hr), fun _ => ⟨?_, h.leakedSpec, ?_, ?_⟩⟩
    · intro o hc
      rcases h.acct o hc with hd | hl
      · exact Or.inl (hone o hd)
      · exact Or.inr ⟨hl, List.count_eq_zero.2 (h.leakNot o hl)⟩
    · intro k tok info ha
      rcases h.slots k tok info ha with ⟨h1, h2⟩ | ⟨h1, h2⟩
      · exact Or.inl ⟨h1, h2⟩
      · exact Or.inr ⟨h1, hone _ h2⟩
    · intro hor o hc
      rcases h.acct o hc with hd | hl
      · exact hone o hd
      · obtain ⟨h1, h2, _⟩ := h.leakedSpec o hl
        rcases hor with hor | hor
        · rw [hor] at h1; cases h1
        · rw [hor] at h2; cases h2

open Life in
/-- **flow_control_stop_value_dropped.**  The value returned by an input invocation that called `fc.stop()` is created
and destroyed in the same step (`create_token` then `destroy_token` inside the input filter's wrapper): at every moment
it has been created at most once and destroyed exactly as often as created; it is never an object that a stage_task
carries or a buffer slot holds (so no clean-up can destroy it again and it cannot leak); and it is not passed on: the
items on which later filters are invoked are items that non-stopping invocations returned (`< produced`). -/
theorem flow_control_stop_value_dropped (c : Cfg) (hv : c.Valid) (f : Flags) (evs : List Ev) (j : Nat) :
    (runL c f evs).created.count (Obj.stopVal j) = (runL c f evs).destroyed.count (Obj.stopVal j) ∧
    (runL c f evs).created.count (Obj.stopVal j) = (if j < (runL c f evs).stops then 1 else 0) ∧
    (∀ t, heldObj c t ≠ some (Obj.stopVal j)) ∧ Obj.stopVal j ∉ parkedObjs (runL c f evs).base ∧
    Obj.stopVal j ∉ (runL c f evs).leaked ∧
    (∀ k i, i ∈ (runL c f evs).base.seen k → i < (runL c f evs).base.produced) := by
  have hheld : ∀ t, heldObj c t ≠ some (Obj.stopVal j) := by
    intro t hh; obtain ⟨_, _, he⟩ := heldObj_some hh; cases he
  have hpark : Obj.stopVal j ∉ parkedObjs (runL c f evs).base := by
    intro hm; obtain ⟨_, _, _, _, _, he⟩ := mem_parkedObjs.1 hm; cases he
  have hseen : ∀ (b : St), BInv c b → ∀ k i, i ∈ b.seen k → i < b.produced := by
    intro b hb k i hi
    have hbg := (hb.2.2.2.1.seenIff i k).1 hi
    rcases Nat.lt_or_ge i b.produced with h1 | h1
    · exact h1
    · have := (begun_of_none (c := c) (s := b) (i := i) (List.getElem?_eq_none (by rw [hb.1.locLen]; exact h1))).1
      omega
  rcases inv_run hv f evs with h | h
  · refine ⟨by rw [(h.stp j).1, (h.stp j).2], (h.stp j).1, hheld, hpark, by rw [h.noLeak]; simp, hseen _ h.binv⟩
  · have hcnt : (runL c f evs).created.count (Obj.stopVal j) = (if j < (runL c f evs).stops then 1 else 0) ∨ True := Or.inr trivial
    refine ⟨h.stops j, ?_, hheld, hpark, ?_, hseen _ h.binv⟩
    · exact h.stopCnt j
    · intro hm; obtain ⟨_, _, _, _, _, _, he, _⟩ := h.leakedSpec _ hm; cases he

open Life in
/-- **live_tokens_bounded_cancel** (`live_tokens_bounded` on the extended model).  For every event list — throws and
cancellations anywhere — the number of items the input filter has returned and that have not left the last filter
(those whose token object was meanwhile destroyed by a cancelled task's clean-up included) never exceeds
`max_number_of_live_tokens`, and `input_tokens` plus the tokens held never exceeds it either; a cancelled task does not
give its token back (`~stage_task` does not touch `input_tokens`), so the moment of its clean-up changes neither side. -/
theorem live_tokens_bounded_cancel (c : Cfg) (hv : c.Valid) (f : Flags) (evs : List Ev) :
    (runL c f evs).base.produced - ((runL c f evs).base.done (c.n - 1)).length ≤ c.maxTok ∧
    (runL c f evs).base.tokens ≤ c.maxTok := by
  have hb : BInv c (runL c f evs).base := by
    rcases inv_run hv f evs with h | h
    · exact h.binv
    · exact h.binv
  exact ⟨live_bound hb.2.1, by have := hb.2.1.tokLe; omega⟩

open Life in
/-- **pipeline_returns_after_drain_cancel** (`pipeline_returns_after_drain` extended to the cancelled case).  The call
returns only when `wait_ctx` is zero; in every state in which it has returned no stage_task object exists any more —
so no filter invocation is running and none can start (the only way a parked item could start is a note-done by a live
task) — and if the context was never cancelled (no throw, no cancellation) the input filter has signalled end of input
and every item it returned has been begun and ended by every filter. -/
theorem pipeline_returns_after_drain_cancel (c : Cfg) (hv : c.Valid) (f : Flags) (evs : List Ev)
    (hr : (runL c f evs).returned = true) :
    (∀ tid, liveTask (runL c f evs) tid = false) ∧ (∀ tid, insideBody (runL c f evs) tid = false) ∧
    ((runL c f evs).cancelled = false →
      (runL c f evs).base.eoi = true ∧
      ∀ i k, i < (runL c f evs).base.produced → k < c.n →
        i ∈ (runL c f evs).base.seen k ∧ i ∈ (runL c f evs).base.done k) := by
  rcases inv_run hv f evs with h | h
  · rw [h.notRet] at hr; cases hr
  · refine ⟨?_, ?_, ?_⟩
    · intro tid
      unfold liveTask
      cases ht : (runL c f evs).base.tasks[tid]? with
      | none => rfl
      | some t =>
        cases hp : (runL c f evs).ph[tid]? with
        | none => rfl
        | some p =>
          rcases h.noLive tid t ht with hd | hg
          · simp [hd]
          · rw [hp] at hg; cases hg; simp
    · intro tid
      unfold insideBody
      cases ht : (runL c f evs).base.tasks[tid]? with
      | none => rfl
      | some t =>
        cases hp : (runL c f evs).ph[tid]? with
        | none => rfl
        | some p =>
          rcases h.noLive tid t ht with hd | hg
          · cases p <;> simp [hd, inBodyPc]
          · rw [hp] at hg; cases hg; rfl
    · intro hc
      obtain ⟨hA, hB, hC, hD, hE⟩ := h.binv
      obtain ⟨he, hret⟩ := drained_of_wait_zero hv hA hB hC hE (h.clean hc)
      refine ⟨he, fun i k hi hk => ?_⟩
      have := begun_of_retired (c := c) (hret i hi)
      exact ⟨(hD.seenIff i k).2 (by omega), (hD.doneIff i k).2 (by omega)⟩

open Life in
/-- **cancel_preserves_safety.**  Cancellation and exceptions only remove behaviour: the pipeline state reached by any
event list is a state the un-cancelled model reaches under some schedule (the cancelled tasks are tasks that are never
scheduled again).  Hence `serial_mutex`, `serial_in_order`, `serial_in_order_common`,
`each_item_every_filter_at_most_once`, `live_tokens_bounded` and `no_assertion_fails` hold verbatim for cancelled and
throwing pipelines. -/
theorem cancel_preserves_safety (c : Cfg) (f : Flags) (evs : List Ev) :
    ∃ sched : List Tid, (runL c f evs).base = (sys c).run sched :=
  base_reachable c f evs

/-! Non-vacuity: serial_in_order input, serial_out_of_order second filter, 2 tokens.  Item 0 enters filter 1, item 1 is
parked behind it; then the body of filter 1 throws on item 0: the catch block cancels the context, the task's clean-up
destroys `tok 0 0`, nobody advances `low_token`, the call returns, and `tok 1 0` is still in the buffer slot. -/
example :
    let c : Cfg := { modes := [.inOrder, .outOfOrder], maxTok := 2, total := 2 }
    let s := Life.runL c { bufferCleanup := false }
      [.run 0, .run 0, .run 0, .run 0, .run 0, .run 0, .run 0, .run 1, .run 1, .run 1, .run 1, .run 1,
       .throw 0, .run 0, .run 0, .ret]
    s.returned = true ∧ s.cancelled = true ∧ s.created = [.tok 0 0, .tok 1 0] ∧ s.destroyed = [.tok 0 0] ∧
    s.leaked = [.tok 1 0] := by
  decide

/-! ... and with the clean-up the same event list destroys both. -/
example :
    let c : Cfg := { modes := [.inOrder, .outOfOrder], maxTok := 2, total := 2 }
    let s := Life.runL c { bufferCleanup := true }
      [.run 0, .run 0, .run 0, .run 0, .run 0, .run 0, .run 0, .run 1, .run 1, .run 1, .run 1, .run 1,
       .throw 0, .run 0, .run 0, .ret]
    s.returned = true ∧ s.destroyed = [.tok 0 0, .tok 1 0] ∧ s.leaked = [] := by
  decide

/-! The flag the translator extracted from the current tree. -/
example : Life.Flags := { bufferCleanup := Generated.C07.bufferCleanup }


/-! ## Token numbers that wrap around at 2^tokenBits

`Token` is `unsigned long`.  `Wrap.*` (`Model/C07Wrap.lean`) is `input_buffer` with every `++`, `-`, `+1` on
`low_token` / `high_token` / `my_token` wrapping at `W = 2^tokenBits` and the assertion `(long)(token-low_token) >= 0`;
`wordMach o off` starts with `low_token = high_token = off mod W` (the white-box test sets them near SIZE_MAX),
`natMach o off` is the unbounded model of the theorems above started at `off`. -/

open Wrap in
/-- **tokenbuf_no_collision_wrap.**  Token numbers as machine words: two tokens that are both less than `array_size = 2^k`
ahead of `low_token` in wrapping arithmetic (`token - low_token < array_size`, whether or not the counters have crossed
`2^tokenBits` in between) and have the same slot index `token & (array_size-1)` are the same token. -/
theorem tokenbuf_no_collision_wrap (k : Nat) (hk : k ≤ 64) (low t1 t2 : Nat) (_hl : low < W) (h1 : t1 < W) (h2 : t2 < W)
    (d1 : wsub t1 low < 2 ^ k) (d2 : wsub t2 low < 2 ^ k)
    (h : TokenBuf.idx (2 ^ k) t1 = TokenBuf.idx (2 ^ k) t2) : t1 = t2 := by
  rw [TokenBuf.idx_eq_mod, TokenBuf.idx_eq_mod] at h
  have hd := pow_dvd_W hk
  have e1 : wsub t1 low % 2 ^ k = (t1 + (W - low % W)) % 2 ^ k := by unfold wsub; exact Nat.mod_mod_of_dvd _ hd
  have e2 : wsub t2 low % 2 ^ k = (t2 + (W - low % W)) % 2 ^ k := by unfold wsub; exact Nat.mod_mod_of_dvd _ hd
  have hw : wsub t1 low = wsub t2 low := by
    rw [← Nat.mod_eq_of_lt d1, ← Nat.mod_eq_of_lt d2, e1, e2, Nat.add_mod, h, ← Nat.add_mod]
  unfold wsub at hw
  rw [W_val] at *
  omega

open Wrap in
/-- **tokenbuf_wrap_refines.**  The precise bound the code needs is `token - low_token < 2^(tokenBits-1)` at every
`try_put_token` (`okRun`: the put token is not below `low_token` and less than 2^63 ahead of it — guaranteed with a
wide margin by `max_number_of_live_tokens ≤ 2^62`, since `live_tokens_bounded` bounds the tokens in flight).  Under it
the word-level buffer, started at ANY offset (so for counters that cross 2^tokenBits any number of times), gives for every
operation sequence the outputs of the unbounded model reduced modulo `W` (same parked / run-now decisions, same
wakees) and its state is the unbounded state reduced modulo `W` (same array, same sizes).  Hence every ring theorem
above holds for the wrapping implementation. -/
theorem tokenbuf_wrap_refines (o : Bool) (off : Nat) (ops : List BufOp) (hok : okRun o (newAt o off) ops) :
    ((wordMach o off).run (ops.map wOp)).1 = wordOf ((natMach o off).run ops).1 ∧
    ((wordMach o off).run (ops.map wOp)).2 = ((natMach o off).run ops).2.map wOut := by
  have h := run_w o off ops (newAt o off) (newAt_wok o off) hok
  rw [wordOf_newAt] at h
  unfold Mach.run
  show ((wordMach o off).runFrom (newAt o (off % W)) (ops.map wOp)).1 = _ ∧
    ((wordMach o off).runFrom (newAt o (off % W)) (ops.map wOp)).2 = _
  rw [h]
  exact ⟨rfl, rfl⟩

/-! Non-vacuity: an ordered buffer whose counters start 2 below 2^64; token 2^64-1 and token 2^64+1 (word: 1) are parked,
token 2^64-2 runs at once; three note-done calls carry `low_token` across the wrap and release both in order. -/
def wrapDemo : List BufOp :=
  [.put ⟨7, 2 ^ 64 - 1, true⟩, .put ⟨8, 2 ^ 64 + 1, true⟩, .put ⟨9, 2 ^ 64 - 2, true⟩, .done, .done, .done]

example : Wrap.okRun true (Wrap.newAt true (2 ^ 64 - 2)) wrapDemo := by
  simp only [wrapDemo, Wrap.okRun, Wrap.okStep]
  decide

example :
    ((Wrap.wordMach true (2 ^ 64 - 2)).run (wrapDemo.map Wrap.wOp)).2 =
      [.put (some (⟨7, 2 ^ 64 - 1, true⟩, 2 ^ 64 - 1, true)), .put (some (⟨8, 1, true⟩, 1, true)),
       .put (some (⟨9, 2 ^ 64 - 2, true⟩, 2 ^ 64 - 2, false)), .done (some ⟨7, 2 ^ 64 - 1, true⟩), .done none, .done (some ⟨8, 1, true⟩)] ∧
    ((Wrap.wordMach true (2 ^ 64 - 2)).run (wrapDemo.map Wrap.wOp)).1.low = 1 := by
  decide

end TbbVerif.C07
