/-
C07 — property theorems (statements only; helper lemmas are in Proofs/C07/*.lean).

Property: every item emitted by the first filter of a parallel_pipeline passes every later filter exactly
once; all serial_in_order filters process the items one at a time in one common order (the order in which
the first serial_in_order filter numbered them); a serial_out_of_order filter never runs two invocations at
once; never more than max_number_of_live_tokens items are in flight; the call returns only after end of
input and after every emitted item has left the last filter.
-/
import TbbVerif.Proofs.C07.Refine

namespace TbbVerif.C07

/-! ## The token buffer (`input_buffer`) -/

/-- **The ring is a finite map.** For every sequence of `try_put_token` / note-done / `get_ordered_token`
operations (any tokens, any amount of forced growth), the real ring `input_buffer` — power-of-two array,
slots indexed `token & (array_size-1)`, `grow` re-hashing from `low_token` — gives exactly the outputs of
the unbounded map specification `specMach` (token ↦ parked item; `put` parks unless the token is the lowest;
note-done advances `low` and releases-and-erases the entry of the new `low`, hence a parked token is
released exactly once, when `low` reaches it), and its abstraction `abs` equals the specification's map. -/
theorem tokenbuf_refines_map (o : Bool) (ops : List BufOp) :
    ((ringMach o).run ops).2 = ((specMach o).run ops).2 ∧
    (∃ k, ((ringMach o).run ops).1.size = 2 ^ k) ∧
    ((ringMach o).run ops).1.slots.length = ((ringMach o).run ops).1.size ∧
    ((ringMach o).run ops).1.low = ((specMach o).run ops).1.low ∧
    ((ringMach o).run ops).1.high = ((specMach o).run ops).1.high ∧
    ∀ t, ((ringMach o).run ops).1.abs t = ((specMach o).run ops).1.m t := by
  obtain ⟨h1, hwf, _, h3, h4, h5⟩ := sim_run o ops _ _ (sim_init o)
  exact ⟨h1, hwf.pow2, hwf.len, h3, h4, h5⟩

/-- **No two tokens collide in a slot**: two tokens of the window `[low, low+size)` with the same slot
index `token & (size-1)` are the same token (size a power of two). -/
theorem tokenbuf_no_collision (k low t1 t2 : Nat) (h1 : low ≤ t1 ∧ t1 < low + 2 ^ k) (h2 : low ≤ t2 ∧ t2 < low + 2 ^ k)
    (h : TokenBuf.idx (2 ^ k) t1 = TokenBuf.idx (2 ^ k) t2) : t1 = t2 := by
  rw [TokenBuf.idx_eq_mod, TokenBuf.idx_eq_mod] at h
  exact TokenBuf.window_inj _ low t1 t2 h1.1 h1.2 h2.1 h2.2 h

/-- **`grow` preserves the map**, makes room for `minSize` tokens, and keeps the size a power of two. -/
theorem tokenbuf_grow_preserves_map (b : TokenBuf) (minSize : Nat) (h : TokenBuf.WF b) :
    (∀ t, (b.grow minSize).abs t = b.abs t) ∧ minSize ≤ (b.grow minSize).size ∧
    (∃ k, (b.grow minSize).size = 2 ^ k) ∧ (b.grow minSize).low = b.low := by
  obtain ⟨hp, _, hm, _, hlow, _, _, habs⟩ := TokenBuf.grow_spec b minSize (Or.inr h.pow2)
  exact ⟨habs, hm, hp, hlow⟩

/-- **A parked token is released exactly when `low` reaches it** (one note-done step on a well-formed
buffer): the wakee is the map's entry at `low+1`, that entry and no other is removed. -/
theorem tokenbuf_release_at_low (b : TokenBuf) (h : TokenBuf.WF b) :
    b.noteDone.2 = b.abs (b.low + 1) ∧ b.noteDone.1.low = b.low + 1 ∧ TokenBuf.WF b.noteDone.1 ∧
    ∀ t, b.noteDone.1.abs t = if t = b.low + 1 then none else b.abs t := by
  obtain ⟨h1, h2, h3, _, _, h6⟩ := TokenBuf.noteDone_spec b h
  exact ⟨h1, h3, h2, h6⟩

/-! Non-vacuity: an ordered buffer in which tokens 2 and 5 are parked (5 forces growth 4 → 8 with token 2
parked), token 0 runs at once, and two note-done calls release nothing, then token 2. -/
example :
    ((ringMach true).run [.put ⟨7, 2, true⟩, .put ⟨8, 5, true⟩, .put ⟨9, 0, true⟩, .done, .done]).2 =
      [.put (some (⟨7, 2, true⟩, 2, true)), .put (some (⟨8, 5, true⟩, 5, true)), .put (some (⟨9, 0, true⟩, 0, false)),
       .done none, .done (some ⟨7, 2, true⟩)] ∧
    ((ringMach true).run [.put ⟨7, 2, true⟩, .put ⟨8, 5, true⟩, .put ⟨9, 0, true⟩, .done, .done]).1.size = 8 := by
  decide

example : TokenBuf.WF (TokenBuf.new false) := (TokenBuf.new_wf false).1

end TbbVerif.C07
