/-
C04 — cancellation reaches every descendant context and nothing else; one winner.

Model: `CtxTree cfg reg prog` (Model/C04.lean), an interleaving system at atomic-access granularity over any number of
threads (each with its own context list), any number of contexts, arbitrary per-thread programs of
cancel / bind / destroy / reset, registry walk order `reg`.  `cfg` carries three facts about the code that are re-extracted
from /repo on every run (Generated/C04.lean: which mutexes the propagator holds, whether the binder's copy can clear a flag,
which fields `reset` stores to); the theorems below are stated over the generated values `genCfg`, so on a tree in which a
fact is false the corresponding hypothesis is a broken obligation (reported by the check), and on a tree in which it is
true the theorem is unconditional.

Ghost stamps (Model/C04.lean): a clock `clk` ticks at every winning exchange of `cancel_group_execution` and at every store
of 0 to a cancellation flag by `reset`; `wst a` = clock value of the latest winning exchange on `a`, `rst x` = clock value
of the latest reset of `x` (0 = never).

All theorems quantify over every registry, every program and every schedule (`List Tid`); nothing is bounded.
The closed witnesses (`…_fails_…`) are the negations for the protocol as coded before the repairs.
-/
import TbbVerif.Generated.C04
import TbbVerif.Proofs.C04.Final
import TbbVerif.Proofs.C04.WinAll
import TbbVerif.Proofs.C04.Quiet

namespace TbbVerif.C04.Props
open TbbVerif TbbVerif.C04

/-- the protocol as the current source tree has it -/
def genCfg : Cfg :=
  mkCfg Generated.C04.propagatorHoldsPropagationMutex Generated.C04.bindCopyNeverClears Generated.C04.resetSeqCode

/-- no cancel / bind / destroy / reset is in flight -/
def Quiescent (s : St) : Prop := ∀ t, s.pc t = .idle

/-- the reach property of a final state: every context bound (directly or transitively) beneath a cancelled context
is cancelled -/
def ReachesAllBound (s : St) : Prop :=
  ∀ x a, s.cst x = .bound → Anc s.par x a → s.can a = true → s.can x = true

/-- programs that never call `reset` (the API forbids using it concurrently with anything else on the context; a reset
of a bound child under a cancelled parent trivially falsifies the reach statement) -/
def NoReset (prog : Nat → List Op) : Prop := ∀ t x, Op.reset x ∉ prog t

/-- **Exactly one winner.**  `wins x` counts the calls `cancel_group_execution(x)` whose exchange found the flag clear —
in the model these are exactly the calls that return `true`; every other call returns `false`.  In every reachable state
there is at most one winner per reset of `x`, and while the flag is clear every earlier win has been undone by a reset
(so of any number of concurrent cancels of a not-yet-cancelled context exactly the first exchange wins).
Needs: the binder's copies cannot clear the flag (otherwise `early_cancel_lost` below: two wins without a reset). -/
theorem cancel_single_winner (hgen : Generated.C04.bindCopyNeverClears = true)
    (reg : List Nat) (prog : Nat → List Op) (sched : List Nat) (x : Nat) :
    let s := (CtxTree genCfg reg prog).run sched
    s.wins x ≤ s.resets x + 1 ∧ (s.can x = false → s.wins x ≤ s.resets x) := by
  have h := (sw_run genCfg hgen reg prog sched).2
  exact ⟨h.winsLe x, h.winsClr x⟩

/-- **Nothing else is marked** (holds for the protocol as coded, whatever the two facts are): a context is cancelled only
if a cancel call won on the context itself or on one of its ancestors along `my_parent`. -/
theorem cancel_no_overreach (reg : List Nat) (prog : Nat → List Op) (sched : List Nat) (x : Nat) :
    let s := (CtxTree genCfg reg prog).run sched
    s.can x = true → ∃ a, (a = x ∨ Anc s.par x a) ∧ 1 ≤ s.wins a :=
  fun h => (orig_run genCfg reg prog sched).can x h

/-- isolated / root contexts, ancestors, siblings and unrelated contexts: a context none of whose ancestors-or-self was
the target of a winning cancel is never marked -/
theorem cancel_never_marks_outside (reg : List Nat) (prog : Nat → List Op) (sched : List Nat) (x : Nat) :
    let s := (CtxTree genCfg reg prog).run sched
    s.wins x = 0 → (∀ a, Anc s.par x a → s.wins a = 0) → s.can x = false := by
  intro s h0 hanc
  cases hc : s.can x with
  | false => rfl
  | true =>
    obtain ⟨a, ha, hw⟩ := cancel_no_overreach reg prog sched x hc
    have hw' : 1 ≤ s.wins a := hw
    rcases ha with e | ha
    · rw [e, h0] at hw'
      omega
    · rw [hanc a ha] at hw'
      omega

/-- **Sticky until reset**: from any reachable state, along any continuation, a cancelled context stays cancelled
unless it is reset in between.  Needs: the binder's copies cannot clear the flag. -/
theorem cancel_sticky (hgen : Generated.C04.bindCopyNeverClears = true)
    (reg : List Nat) (prog : Nat → List Op) (sched sched' : List Nat) (x : Nat) :
    let s := (CtxTree genCfg reg prog).run sched
    let s' := (CtxTree genCfg reg prog).runFrom s sched'
    s.can x = true → s'.can x = true ∨ s.resets x < s'.resets x := by
  intro s s'
  exact (sticky_runFrom (cfg := genCfg) (reg := reg) hgen (x := x) sched' s (sw_run genCfg hgen reg prog sched)).2

/-- `a`'s latest winning `cancel_group_execution` has stamp `m`, and `a` has not been reset since: `a` is cancelled by a call
of its own that has not been undone -/
def CurrentCancel (s : St) (a m : Nat) : Prop := s.wst a = m ∧ s.rst a < m

/-- `x`, and every context strictly between `x` and its ancestor `a`, was last reset before stamp `m` (or never) -/
def FreshBelow (s : St) (x a m : Nat) : Prop := s.rst x ≤ m ∧ ∀ z, Anc s.par x z → Anc s.par z a → s.rst z ≤ m

/-- neither `x` nor a context strictly between `x` and its ancestor `a` is registered in the context list of a thread that
has left the registry (ghost `oc`, set for every context of a thread's list when its thread_data is removed from
my_threads_list) -/
def RegisteredBelow (s : St) (x a : Nat) : Prop := s.oc x = false ∧ ∀ z, Anc s.par x z → Anc s.par z a → s.oc z = false

/-- the reach property of a final state in the presence of resets and of threads that come and go: every context bound
(directly or transitively) beneath a context whose winning cancel is still current is cancelled, unless it — or a context
on the path between the two — was reset after that cancel won, or is registered in the list of a thread that has exited -/
def ReachesAllBoundFresh (s : St) : Prop :=
  ∀ x a m, s.cst x = .bound → Anc s.par x a → CurrentCancel s a m → FreshBelow s x a m → RegisteredBelow s x a →
    s.can x = true

/-- programs in which no thread leaves the registry -/
def NoExit (prog : Nat → List Op) : Prop := ∀ t, Op.exit ∉ prog t

/-- **Cancellation reaches every bound descendant, with resets** — the main theorem.  For the protocol in which the
propagator holds the mutex that the binder's fall-back takes, the binder's copies cannot clear the flag and `reset` does
not store to my_may_have_children: for every registry, ALL programs (any mixture of cancel / bind / destroy / reset,
including resets of contexts that have bound children and resets that race with other operations), all schedules, in
every quiescent state: a context `a` whose latest winning cancel (stamp `m`) has not been undone by a reset of `a` is
cancelled, and every context `x` bound beneath `a` is cancelled — including contexts that were being bound while the
cancellation was propagating — unless `x` or a context strictly between `x` and `a` was reset after the winning exchange.
(The exception is necessary: resetting an intermediate context `p` and then binding a fresh context under `p` legitimately
yields an uncancelled context beneath the still cancelled `a`.)  No sequencing discipline on `reset` is needed.
The registry is dynamic: threads may register while cancellations are in flight (their context lists start at epoch 0
whatever the global epoch is) and may exit; the conclusion excludes the contexts that sit in the orphaned list of an exited
thread (`RegisteredBelow`) — for those the code really loses the cancellation (`reach_fails_for_orphaned_list`). -/
theorem cancel_reaches_all_bound_with_reset
    (hmutex : Generated.C04.propagatorHoldsPropagationMutex = true)
    (hcopy : Generated.C04.bindCopyNeverClears = true)
    (hreset : Generated.C04.resetClearsMayHaveChildren = false)
    (reg : List Nat) (prog : Nat → List Op) (sched : List Nat) :
    let s := (CtxTree genCfg reg prog).run sched
    Quiescent s → (∀ a m, CurrentCancel s a m → s.can a = true) ∧ ReachesAllBoundFresh s := by
  have hcfg : genCfg = C genCfg.resetSeq := by
    unfold genCfg
    rw [hmutex, hcopy]
    exact mkCfg_eq _
  rw [hcfg]
  intro s hq
  exact reach_fresh_core (allInv_run (mkCfg_keeps_hint hreset) reg prog sched) hq

/-- **The hint is never cleared while there are children** — the invariant the reach proof rests on.  If `reset` does not
store to my_may_have_children (generated fact), then in every reachable state of every program and schedule the
may_have_children hint of a context that has a registered child — or a child whose binder is past the hint store — is set;
no step (in particular no `reset` of the parent) clears it.  `cancel_group_execution` skips the propagation exactly when
the hint is clear, so a `reset` that cleared it would make the parent's next cancellation miss the children that stayed
bound across the reset (`reach_fails_when_reset_clears_hint`). -/
theorem mhc_monotone_while_children (hreset : Generated.C04.resetClearsMayHaveChildren = false)
    (reg : List Nat) (prog : Nat → List Op) (sched : List Nat) :
    let s := (CtxTree genCfg reg prog).run sched
    (∀ L x p, x ∈ s.items L → s.par x = some p → s.mhc p = true) ∧
    (∀ t p, (s.pc t).pastHint = some p → s.mhc p = true) := by
  intro s
  have h := hint_run genCfg (mkCfg_keeps_hint hreset) reg prog sched
  exact ⟨h.mhcReg, h.mhcBind⟩

/-- **reset(x) touches only x**: any access of a `reset(x)` call (from any state, under any protocol parameters) leaves the
cancellation flag, the hint, the parent, the state and the list membership of every other context unchanged. -/
theorem reset_clears_only_self (cfg : Cfg) (reg : List Nat) (s : St) (t x : Nat) (h : ResetStep s t x) :
    ∀ y, y ≠ x → (step cfg reg s t).can y = s.can y ∧ (step cfg reg s t).mhc y = s.mhc y ∧
      (step cfg reg s t).par y = s.par y ∧ (step cfg reg s t).cst y = s.cst y ∧ (step cfg reg s t).lst y = s.lst y :=
  fun y hy => reset_step_frame h y hy

/-- **Sticky across resets of other contexts**: along any continuation of a reachable state in which `x` itself is not
reset, a cancelled `x` stays cancelled — whatever other contexts (its parent, its children, unrelated ones) are reset. -/
theorem cancel_sticky_across_other_resets (hgen : Generated.C04.bindCopyNeverClears = true)
    (reg : List Nat) (prog : Nat → List Op) (sched sched' : List Nat) (x : Nat) :
    let s := (CtxTree genCfg reg prog).run sched
    let s' := (CtxTree genCfg reg prog).runFrom s sched'
    s.can x = true → s'.resets x = s.resets x → s'.can x = true := by
  intro s s' hc hr
  rcases cancel_sticky hgen reg prog sched sched' x hc with h | h
  · exact h
  · have : s.resets x < s'.resets x := h
    omega

/-- the documented precondition of `reset`, as a predicate on a state: thread `t` may reset `x` only if no other registered
thread has an operation in flight on `x` or on a context bound (directly or transitively) beneath `x` -/
def ResetAllowed (reg : List Nat) (s : St) (t x : Nat) : Prop :=
  ∀ u ∈ reg, u ≠ t → ∀ y ∈ (s.pc u).subjects, y ≠ x ∧ ¬ Anc s.par y x

/-- a run respects the API's preconditions (in particular: every `reset` was sequenced with respect to the operations on
its subtree) iff no thread was flagged; decidable: only threads that occur in the schedule can be flagged -/
def RunRespectsApi (cfg : Cfg) (reg : List Nat) (prog : Nat → List Op) (sched : List Nat) : Prop :=
  ∀ t, ((CtxTree cfg reg prog).run sched).misuse t = false

/-- the executable check by which the model flags an unsequenced `reset` (`resetOk`, evaluated when the call starts)
implies the documented precondition, in every reachable state -/
theorem reset_flag_sound (cfg : Cfg) (reg : List Nat) (prog : Nat → List Op) (sched : List Nat) (t x : Nat) :
    let s := (CtxTree cfg reg prog).run sched
    resetOk reg s t x = true → ResetAllowed reg s t x :=
  fun h => resetOk_sound (struct_run cfg reg prog sched) h

/-- **Cancellation reaches every bound descendant** (programs without reset in which no thread exits; threads may register
during the run) — corollary of the theorem with resets: at quiescence every context bound beneath a cancelled context is
cancelled — including contexts that were being bound while the cancellation was propagating. -/
theorem cancel_reaches_all_bound
    (hmutex : Generated.C04.propagatorHoldsPropagationMutex = true)
    (hcopy : Generated.C04.bindCopyNeverClears = true)
    (hreset : Generated.C04.resetClearsMayHaveChildren = false)
    (reg : List Nat) (prog : Nat → List Op) (hnr : NoReset prog) (hne : NoExit prog) (sched : List Nat) :
    let s := (CtxTree genCfg reg prog).run sched
    Quiescent s → ReachesAllBound s := by
  intro s hq
  exact reach_core_noreset (cancel_reaches_all_bound_with_reset hmutex hcopy hreset reg prog sched hq).2
    (orig_run genCfg reg prog sched) (norst_run genCfg reg prog hnr sched).rst (noexit_run genCfg reg prog hne sched).oc
    (winStamped_run genCfg reg prog sched)

/-- the same statements for the repaired protocol spelled out (unconditional) -/
theorem cancel_reaches_all_bound_repaired (reg : List Nat) (prog : Nat → List Op) (hnr : NoReset prog) (hne : NoExit prog)
    (sched : List Nat) :
    let s := (CtxTree ⟨true, true, [.can]⟩ reg prog).run sched
    Quiescent s → ReachesAllBound s := by
  intro s hq
  have hinv : AllInv reg s := allInv_run (r := [.can]) (by simp) reg prog sched
  exact reach_core_noreset (reach_fresh_core hinv hq).2 hinv.2.1
    (norst_run ⟨true, true, [.can]⟩ reg prog hnr sched).rst (noexit_run ⟨true, true, [.can]⟩ reg prog hne sched).oc
    (winStamped_run ⟨true, true, [.can]⟩ reg prog sched)

theorem cancel_reaches_all_bound_with_reset_repaired (reg : List Nat) (prog : Nat → List Op) (sched : List Nat) :
    let s := (CtxTree ⟨true, true, [.can]⟩ reg prog).run sched
    Quiescent s → ReachesAllBoundFresh s := by
  intro s hq
  have hinv : AllInv reg s := allInv_run (r := [.can]) (by simp) reg prog sched
  exact (reach_fresh_core hinv hq).2

/-! ## The obligations that fail on the protocol as coded before the repairs (closed witnesses, kernel-checked) -/

/-- **F2**: if the propagator does NOT hold the binder's fall-back mutex, `cancel_reaches_all_bound` is false — whether
or not the binder's copies can clear the flag.  Witness (3 threads, registry walk order B, X, canceller): X builds
C1 ← C2 in its list; the canceller of C1 bumps the epoch, syncs B's list and is pre-empted; B binds C5 under C2
(snapshot of X's list epoch differs from the global epoch, the fall-back mutex is free, both copies read 0); the canceller
then paints C2.  At quiescence C5 is bound beneath the cancelled C2 and is not cancelled. -/
theorem reach_fails_without_propagation_mutex (cnc : Bool) :
    ¬ (∀ (reg : List Nat) (prog : Nat → List Op), NoReset prog → ∀ sched : List Nat,
        Quiescent ((CtxTree ⟨false, cnc, [.can]⟩ reg prog).run sched) → ReachesAllBound ((CtxTree ⟨false, cnc, [.can]⟩ reg prog).run sched)) := by
  intro h
  have hnr : NoReset f2Prog := by
    intro t x
    unfold f2Prog
    split <;> simp
  have hw : ∀ S : St, S = (CtxTree ⟨false, cnc, [.can]⟩ f2Reg f2Prog).run f2Sched →
      S.pc 0 = .idle ∧ S.pc 1 = .idle ∧ S.pc 2 = .idle ∧
      S.cst 5 = .bound ∧ S.par 5 = some 2 ∧ S.can 2 = true ∧ S.can 5 = false := by
    intro S hS
    cases cnc
    · have := f2_witness_ascoded
      unfold f2Final at this
      rw [← hS] at this
      exact ⟨this.1, this.2.1, this.2.2.1, this.2.2.2.2.1, this.2.2.2.2.2.1, this.2.2.2.2.2.2.2.1, this.2.2.2.2.2.2.2.2⟩
    · have := f2_witness_monotone_copy
      unfold f2Final at this
      rw [← hS] at this
      exact ⟨this.1, this.2.1, this.2.2.1, this.2.2.2.2.1, this.2.2.2.2.2.1, this.2.2.2.2.2.2.2.1, this.2.2.2.2.2.2.2.2⟩
  generalize hS : (CtxTree ⟨false, cnc, [.can]⟩ f2Reg f2Prog).run f2Sched = S at *
  have hq' := quiescent_of ⟨false, cnc, [.can]⟩ f2Reg f2Prog f2Sched
  rw [hS] at hq'
  have hwS := hw S rfl
  have hq : Quiescent S := by
    refine hq' ?_
    intro t ht
    have : t = 0 ∨ t = 1 ∨ t = 2 := by
      simp only [f2Sched, List.mem_append, List.mem_replicate] at ht
      omega
    rcases this with rfl | rfl | rfl
    · exact hwS.1
    · exact hwS.2.1
    · exact hwS.2.2.1
  have h' := h f2Reg f2Prog hnr f2Sched
  rw [hS] at h'
  have := h' hq 5 2 hwS.2.2.2.1 (.direct hwS.2.2.2.2.1) hwS.2.2.2.2.2.1
  rw [hwS.2.2.2.2.2.2] at this
  cases this

/-- **Stale copy**: if the binder copies the parent's flag with an unconditional load + store, `cancel_reaches_all_bound`
is false even when the propagator holds the fall-back mutex: the binder loads 0 from its (root) parent, the parent is
cancelled and the propagation paints the freshly registered child, the binder's store writes the stale 0 over it. -/
theorem reach_fails_with_clearing_copy :
    ¬ (∀ (reg : List Nat) (prog : Nat → List Op), NoReset prog → ∀ sched : List Nat,
        Quiescent ((CtxTree ⟨true, false, [.can]⟩ reg prog).run sched) → ReachesAllBound ((CtxTree ⟨true, false, [.can]⟩ reg prog).run sched)) := by
  intro h
  have hnr : NoReset staleProg := by
    intro t x
    unfold staleProg
    split <;> simp
  have hw0 := stale_copy_witness
  generalize hS : (CtxTree ⟨true, false, [.can]⟩ [1, 0] staleProg).run staleSched = S at hw0
  have hw : S.pc 0 = .idle ∧ S.pc 1 = .idle ∧ S.res 0 = [true] ∧
      S.cst 2 = .bound ∧ S.par 2 = some 1 ∧ S.can 1 = true ∧ S.can 2 = false := hw0
  have hq' := quiescent_of ⟨true, false, [.can]⟩ [1, 0] staleProg staleSched
  rw [hS] at hq'
  have hq : Quiescent S := by
    refine hq' ?_
    intro t ht
    have : t = 0 ∨ t = 1 := by
      simp only [staleSched, List.mem_append, List.mem_replicate] at ht
      omega
    rcases this with rfl | rfl
    · exact hw.1
    · exact hw.2.1
  have h' := h [1, 0] staleProg hnr staleSched
  rw [hS] at h'
  have := h' hq 2 1 hw.2.2.2.1 (.direct hw.2.2.2.2.1) hw.2.2.2.2.2.1
  rw [hw.2.2.2.2.2.2] at this
  cases this

/-- **Early cancel lost** (sequential): with the unconditional copy, a context that was cancelled before its first use
(the call returned `true`) is un-cancelled when it is bound beneath a live parent, although it was never reset — so
stickiness fails for the protocol as coded. -/
theorem sticky_fails_with_clearing_copy :
    ∃ (reg : List Nat) (prog : Nat → List Op) (sched sched' : List Nat) (x : Nat),
      let s := (CtxTree ⟨true, false, [.can]⟩ reg prog).run sched
      let s' := (CtxTree ⟨true, false, [.can]⟩ reg prog).runFrom s sched'
      s.can x = true ∧ s'.can x = false ∧ s'.resets x = s.resets x :=
  ⟨[0], earlyProg, List.replicate 8 0, List.replicate 22 0, 2, by decide +kernel⟩

/-- **A `reset` that also clears my_may_have_children falsifies the reach theorem** (everything else repaired).  Witness
(one thread, no race, no API misuse): context 1 gets a bound child 2; context 1 is reset (which clears its hint although
the child stays bound); the next `cancel_group_execution(1)` wins, finds the hint clear, skips the propagation and returns
`true`.  At quiescence the winning cancel of 1 is current, 2 is bound beneath 1, was never reset, and is not cancelled.
This is the edit "reset(): the tree has completed, let the next cancel take the fast path". -/
theorem reach_fails_when_reset_clears_hint :
    ¬ (∀ (reg : List Nat) (prog : Nat → List Op) (sched : List Nat),
        Quiescent ((CtxTree ⟨true, true, [.can, .mhc]⟩ reg prog).run sched) →
        ReachesAllBoundFresh ((CtxTree ⟨true, true, [.can, .mhc]⟩ reg prog).run sched)) := by
  intro h
  have hw0 := hint_cleared_witness
  generalize hS : (CtxTree ⟨true, true, [.can, .mhc]⟩ [0] hintProg).run hintSched = S at hw0
  have hw : S.pc 0 = .idle ∧ S.res 0 = [true] ∧ S.misuse 0 = false ∧ S.cst 2 = .bound ∧ S.par 2 = some 1 ∧
      S.par 1 = none ∧ S.wst 1 = 2 ∧ S.rst 1 = 1 ∧ S.rst 2 = 0 ∧ S.can 1 = true ∧ S.can 2 = false ∧ S.mhc 1 = false ∧
      S.oc 1 = false ∧ S.oc 2 = false := hw0
  obtain ⟨h0, _, _, hb, hp, hroot, hwst, hrst1, hrst2, _, hc2, _, hoc1, hoc2⟩ := hw
  have hq' := quiescent_of ⟨true, true, [.can, .mhc]⟩ [0] hintProg hintSched
  rw [hS] at hq'
  have hq : Quiescent S := by
    refine hq' ?_
    intro t ht
    have : t = 0 := by
      simp only [hintSched, List.mem_replicate] at ht
      exact ht.2
    subst this
    exact h0
  have h' := h [0] hintProg hintSched
  rw [hS] at h'
  have hbetween : ∀ z, Anc S.par 2 z → Anc S.par z 1 → False := by
    -- the only context above 2 is its root parent 1
    intro z hz1 hz2
    obtain ⟨q, hq1, hq2⟩ := hz1.unfold
    rw [hp] at hq1
    cases hq1
    rcases hq2 with e | hq2
    · subst e
      exact Anc.not_root hroot hz2
    · exact Anc.not_root hroot hq2
  have := h' hq 2 1 2 hb (.direct hp) ⟨hwst, by omega⟩ ⟨by omega, fun z hz1 hz2 => (hbetween z hz1 hz2).elim⟩
    ⟨hoc2, fun z hz1 hz2 => (hbetween z hz1 hz2).elim⟩
  rw [hc2] at this
  cases this

/-- **Contexts in the list of a thread that has exited are no longer reached** — a property of the code as it is (with
both repairs and the as-coded `reset`): without the `RegisteredBelow` hypothesis the reach statement is false.  Witness (two
threads, no race): thread 0 binds the root context 1; thread 1 binds context 2 beneath it — 2 is registered in thread 1's
context list — and exits (`unregister_thread` removes its thread_data from my_threads_list, `~thread_data` orphans the
non-empty list); thread 0 cancels context 1: the call wins and `propagate_task_group_state` walks the lists of the
registered threads only.  At quiescence 2 is bound beneath the cancelled 1, was never reset, and is not cancelled.
Reproduced on the real runtime (E-SHIM): finding `orphaned-list-not-reached`. -/
theorem reach_fails_for_orphaned_list :
    ¬ (∀ (reg : List Nat) (prog : Nat → List Op) (sched : List Nat),
        Quiescent ((CtxTree ⟨true, true, [.can]⟩ reg prog).run sched) →
        ∀ x a m, ((CtxTree ⟨true, true, [.can]⟩ reg prog).run sched).cst x = .bound →
          Anc ((CtxTree ⟨true, true, [.can]⟩ reg prog).run sched).par x a →
          CurrentCancel ((CtxTree ⟨true, true, [.can]⟩ reg prog).run sched) a m →
          FreshBelow ((CtxTree ⟨true, true, [.can]⟩ reg prog).run sched) x a m →
          ((CtxTree ⟨true, true, [.can]⟩ reg prog).run sched).can x = true) := by
  intro h
  have hw0 := orphan_witness
  generalize hS : (CtxTree ⟨true, true, [.can]⟩ [1, 0] orphProg).run orphSched = S at hw0
  have hw : S.pc 0 = .idle ∧ S.pc 1 = .idle ∧ S.res 0 = [true] ∧ S.misuse 0 = false ∧ S.misuse 1 = false ∧
      S.cst 2 = .bound ∧ S.par 2 = some 1 ∧ S.par 1 = none ∧ S.wst 1 = 1 ∧ S.rst 1 = 0 ∧ S.rst 2 = 0 ∧
      S.can 1 = true ∧ S.can 2 = false ∧ S.act 1 = false ∧ S.orph 1 = true ∧ S.oc 2 = true ∧ S.lst 2 = some 1 := hw0
  obtain ⟨h0, h1, _, _, _, hb, hp, hroot, hwst, hrst1, hrst2, _, hc2, _⟩ := hw
  have hq' := quiescent_of ⟨true, true, [.can]⟩ [1, 0] orphProg orphSched
  rw [hS] at hq'
  have hq : Quiescent S := by
    refine hq' ?_
    intro t ht
    have : t = 0 ∨ t = 1 := by
      simp only [orphSched, List.mem_append, List.mem_replicate] at ht
      omega
    rcases this with rfl | rfl
    · exact h0
    · exact h1
  have h' := h [1, 0] orphProg orphSched
  rw [hS] at h'
  have hbetween : ∀ z, Anc S.par 2 z → Anc S.par z 1 → False := by
    intro z hz1 hz2
    obtain ⟨q, hq1, hq2⟩ := hz1.unfold
    rw [hp] at hq1
    cases hq1
    rcases hq2 with e | hq2
    · subst e
      exact Anc.not_root hroot hz2
    · exact Anc.not_root hroot hq2
  have := h' hq 2 1 1 hb (.direct hp) ⟨hwst, by omega⟩ ⟨by omega, fun z hz1 hz2 => (hbetween z hz1 hz2).elim⟩
  rw [hc2] at this
  cases this

/-- **Threads may register at any time**: for programs in which no thread exits (threads may create their thread_data
while cancellations are in flight: the new context list starts at epoch 0, whatever the global epoch is) the reach
statement holds without the `RegisteredBelow` proviso. -/
theorem cancel_reaches_all_bound_late_threads
    (hmutex : Generated.C04.propagatorHoldsPropagationMutex = true)
    (hcopy : Generated.C04.bindCopyNeverClears = true)
    (hreset : Generated.C04.resetClearsMayHaveChildren = false)
    (reg : List Nat) (prog : Nat → List Op) (hne : NoExit prog) (sched : List Nat) :
    let s := (CtxTree genCfg reg prog).run sched
    Quiescent s → ∀ x a m, s.cst x = .bound → Anc s.par x a → CurrentCancel s a m → FreshBelow s x a m → s.can x = true := by
  intro s hq x a m hb ha hc hf
  have hoc := (noexit_run genCfg reg prog hne sched).oc
  exact (cancel_reaches_all_bound_with_reset hmutex hcopy hreset reg prog sched hq).2 x a m hb ha hc hf
    ⟨hoc x, fun z _ _ => hoc z⟩

/-! ## Non-vacuity -/

/-- the hypotheses of the main theorem are satisfiable and its conclusion is non-trivial: under the repaired protocol
the F2 scenario ends quiescent with C5 bound beneath the cancelled C2 — and cancelled -/
example :
    let s := (CtxTree ⟨true, true, [.can]⟩ f2Reg f2Prog).run (f2Sched ++ List.replicate 30 2 ++ List.replicate 30 0)
    s.pc 0 = .idle ∧ s.pc 1 = .idle ∧ s.pc 2 = .idle ∧ s.cst 5 = .bound ∧ s.par 5 = some 2 ∧ s.can 2 = true ∧
      s.can 5 = true ∧ s.wins 1 = 1 ∧ s.wins 2 = 0 := by
  decide +kernel

/-- no-overreach is non-trivial: in that run the unrelated context 7 and the root's sibling stay clear while 1, 2, 5 are
marked by the single winning call on 1 -/
example :
    let s := (CtxTree ⟨true, true, [.can]⟩ f2Reg f2Prog).run (f2Sched ++ List.replicate 30 2 ++ List.replicate 30 0)
    s.can 1 = true ∧ s.can 7 = false ∧ s.res 0 = [true] := by
  decide +kernel

/-- the theorem with resets is not vacuous: a round trip on the repaired protocol — context 1 with a bound child 2 is cancelled
(both flags set), the child and then the parent are reset (both clear), the parent is cancelled again: the second winning
cancel (stamp 4) is current, the child was last reset at stamp 2 < 4, and the child is cancelled again; both calls returned
`true`; no API precondition was violated -/
example :
    let s := (CtxTree ⟨true, true, [.can]⟩ [0] hintProg2).run (List.replicate 60 0)
    s.pc 0 = .idle ∧ s.res 0 = [true, true] ∧ s.misuse 0 = false ∧ s.cst 2 = .bound ∧ s.par 2 = some 1 ∧
      CurrentCancel s 1 4 ∧ s.rst 2 = 2 ∧ s.rst 1 = 3 ∧ s.can 1 = true ∧ s.can 2 = true ∧ s.mhc 1 = true := by
  unfold CurrentCancel
  decide +kernel

/-- ... and its freshness hypothesis is not redundant: resetting only the child after the parent's cancellation leaves the
child (legitimately) uncancelled beneath the cancelled parent — `FreshBelow` fails for it -/
example :
    let s := (CtxTree ⟨true, true, [.can]⟩ [0] (fun t => if t = 0 then [.bind 1 none, .bind 2 (some 1), .cancel 1, .reset 2] else [])).run
      (List.replicate 50 0)
    s.pc 0 = .idle ∧ s.can 1 = true ∧ s.can 2 = false ∧ s.wst 1 = 1 ∧ s.rst 2 = 2 := by
  decide +kernel

/-- the discipline flag is not vacuous: a reset of context 1 issued while another thread is binding a child beneath it is
flagged (and still performed, as in the code) -/
example :
    let s := (CtxTree ⟨true, true, [.can]⟩ [0, 1] (fun t => if t = 0 then [.bind 1 none, .reset 1] else if t = 1 then [.bind 2 (some 1)] else [])).run
      (List.replicate 4 0 ++ List.replicate 3 1 ++ [0])
    s.misuse 0 = true ∧ s.resets 1 = 1 := by
  decide +kernel

/-- the dynamic registry is exercised non-trivially: a thread registers after a propagation has run (global epoch 1, its
fresh list's epoch word 0), binds a context beneath the already cancelled tree in its own list, and the context ends
cancelled (the epoch comparison fails, the binder re-copies under the propagation mutex) -/
example :
    let s := (CtxTree ⟨true, true, [.can]⟩ [1, 0] lateProg).run lateSched
    s.pc 0 = .idle ∧ s.pc 1 = .idle ∧ s.act 1 = true ∧ s.joined 1 = 1 ∧ s.epoch 1 = 0 ∧ s.G = 1 ∧ s.cst 3 = .bound ∧
      s.lst 3 = some 1 ∧ s.can 3 = true ∧ s.oc 3 = false :=
  ⟨late_register_witness.1, late_register_witness.2.1, late_register_witness.2.2.2.2.1, late_register_witness.2.2.2.2.2.1,
   late_register_witness.2.2.2.2.2.2.1, late_register_witness.2.2.2.2.2.2.2.1, late_register_witness.2.2.2.2.2.2.2.2.1,
   late_register_witness.2.2.2.2.2.2.2.2.2.2.1, late_register_witness.2.2.2.2.2.2.2.2.2.2.2.2.2.1,
   late_register_witness.2.2.2.2.2.2.2.2.2.2.2.2.2.2⟩

end TbbVerif.C04.Props
