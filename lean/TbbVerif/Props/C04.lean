/-
C04 — cancellation reaches every descendant context and nothing else; one winner.

Model: `CtxTree cfg reg prog` (Model/C04.lean), an interleaving system at atomic-access granularity over any number of
threads (each with its own context list), any number of contexts, arbitrary per-thread programs of
cancel / bind / destroy / reset, registry walk order `reg`.  `cfg` carries two facts about the code that are re-extracted
from /repo on every run (Generated/C04.lean); the theorems below are stated over the generated values `genCfg`, so on a
tree in which a fact is false the corresponding hypothesis is a broken obligation (reported by the check), and on a tree
in which it is true the theorem is unconditional.

All theorems quantify over every registry, every program and every schedule (`List Tid`); nothing is bounded.
The closed witnesses (`…_fails_…`) are the negations for the protocol as coded before the repairs.
-/
import TbbVerif.Generated.C04
import TbbVerif.Proofs.C04.ReachAll
import TbbVerif.Proofs.C04.WinAll
import TbbVerif.Proofs.C04.Quiet

namespace TbbVerif.C04.Props
open TbbVerif TbbVerif.C04

/-- the protocol as the current source tree has it -/
def genCfg : Cfg :=
  ⟨Generated.C04.propagatorHoldsPropagationMutex, Generated.C04.bindCopyNeverClears⟩

/-- no cancel / bind / destroy / reset is in flight -/
def Quiescent (s : St) : Prop := ∀ t, s.pc t = .idle

/-- the reach property of a final state: every context bound (directly or transitively) beneath a cancelled context
is cancelled -/
def ReachesAllBound (s : St) : Prop :=
  ∀ x a, s.cst x = .bound → Anc s.par x a → s.can a = true → s.can x = true

/-- programs that never call `reset` (the API forbids using it concurrently with anything else on the context; a reset
of a bound child under a cancelled parent trivially falsifies the reach statement) -/
def NoReset (prog : Nat → List Op) : Prop := ∀ t x, Op.reset x ∉ prog t

/-- **Exactly one winner.**  `wins x` counts the calls `cancel_group_execution(x)` whose exchange found the flag clear —
in the model these are exactly the calls that return `true`; every other call returns `false`.  In every reachable state
there is at most one winner per reset of `x`, and while the flag is clear every earlier win has been undone by a reset
(so of any number of concurrent cancels of a not-yet-cancelled context exactly the first exchange wins).
Needs: the binder's copies cannot clear the flag (otherwise `early_cancel_lost` below: two wins without a reset). -/
theorem cancel_single_winner (hgen : Generated.C04.bindCopyNeverClears = true)
    (reg : List Nat) (prog : Nat → List Op) (sched : List Nat) (x : Nat) :
    let s := (CtxTree genCfg reg prog).run sched
    s.wins x ≤ s.resets x + 1 ∧ (s.can x = false → s.wins x ≤ s.resets x) := by
  have h := (sw_run genCfg hgen reg prog sched).2
  exact ⟨h.winsLe x, h.winsClr x⟩

/-- **Nothing else is marked** (holds for the protocol as coded, whatever the two facts are): a context is cancelled only
if a cancel call won on the context itself or on one of its ancestors along `my_parent`. -/
theorem cancel_no_overreach (reg : List Nat) (prog : Nat → List Op) (sched : List Nat) (x : Nat) :
    let s := (CtxTree genCfg reg prog).run sched
    s.can x = true → ∃ a, (a = x ∨ Anc s.par x a) ∧ 1 ≤ s.wins a :=
  fun h => (orig_run genCfg reg prog sched).can x h

/-- isolated / root contexts, ancestors, siblings and unrelated contexts: a context none of whose ancestors-or-self was
the target of a winning cancel is never marked -/
theorem cancel_never_marks_outside (reg : List Nat) (prog : Nat → List Op) (sched : List Nat) (x : Nat) :
    let s := (CtxTree genCfg reg prog).run sched
    s.wins x = 0 → (∀ a, Anc s.par x a → s.wins a = 0) → s.can x = false := by
  intro s h0 hanc
  cases hc : s.can x with
  | false => rfl
  | true =>
    obtain ⟨a, ha, hw⟩ := cancel_no_overreach reg prog sched x hc
    have hw' : 1 ≤ s.wins a := hw
    rcases ha with e | ha
    · rw [e, h0] at hw'
      omega
    · rw [hanc a ha] at hw'
      omega

/-- **Sticky until reset**: from any reachable state, along any continuation, a cancelled context stays cancelled
unless it is reset in between.  Needs: the binder's copies cannot clear the flag. -/
theorem cancel_sticky (hgen : Generated.C04.bindCopyNeverClears = true)
    (reg : List Nat) (prog : Nat → List Op) (sched sched' : List Nat) (x : Nat) :
    let s := (CtxTree genCfg reg prog).run sched
    let s' := (CtxTree genCfg reg prog).runFrom s sched'
    s.can x = true → s'.can x = true ∨ s.resets x < s'.resets x := by
  intro s s'
  exact (sticky_runFrom (cfg := genCfg) (reg := reg) hgen (x := x) sched' s (sw_run genCfg hgen reg prog sched)).2

/-- **Cancellation reaches every bound descendant** — the main theorem.  For the protocol in which the propagator holds
the mutex that the binder's fall-back takes and the binder's copies cannot clear the flag: for every registry, all
programs without reset, all schedules, in every quiescent state every context bound beneath a cancelled context is
cancelled — including contexts that were being bound while the cancellation was propagating. -/
theorem cancel_reaches_all_bound
    (hmutex : Generated.C04.propagatorHoldsPropagationMutex = true)
    (hcopy : Generated.C04.bindCopyNeverClears = true)
    (reg : List Nat) (prog : Nat → List Op) (hnr : NoReset prog) (sched : List Nat) :
    let s := (CtxTree genCfg reg prog).run sched
    Quiescent s → ReachesAllBound s := by
  have hcfg : genCfg = C := by
    unfold genCfg C
    rw [hmutex, hcopy]
  rw [hcfg]
  intro s hq x a hb ha hc
  exact reaches_of_inv (allInv_run reg prog hnr sched) hq hb ha hc

/-- the same statement for the repaired protocol spelled out (unconditional) -/
theorem cancel_reaches_all_bound_repaired (reg : List Nat) (prog : Nat → List Op) (hnr : NoReset prog)
    (sched : List Nat) :
    let s := (CtxTree ⟨true, true⟩ reg prog).run sched
    Quiescent s → ReachesAllBound s :=
  fun hq x a hb ha hc => reaches_of_inv (allInv_run reg prog hnr sched) hq hb ha hc

/-! ## The obligations that fail on the protocol as coded before the repairs (closed witnesses, kernel-checked) -/

/-- **F2**: if the propagator does NOT hold the binder's fall-back mutex, `cancel_reaches_all_bound` is false — whether
or not the binder's copies can clear the flag.  Witness (3 threads, registry walk order B, X, canceller): X builds
C1 ← C2 in its list; the canceller of C1 bumps the epoch, syncs B's list and is pre-empted; B binds C5 under C2
(snapshot of X's list epoch differs from the global epoch, the fall-back mutex is free, both copies read 0); the canceller
then paints C2.  At quiescence C5 is bound beneath the cancelled C2 and is not cancelled. -/
theorem reach_fails_without_propagation_mutex (cnc : Bool) :
    ¬ (∀ (reg : List Nat) (prog : Nat → List Op), NoReset prog → ∀ sched : List Nat,
        Quiescent ((CtxTree ⟨false, cnc⟩ reg prog).run sched) → ReachesAllBound ((CtxTree ⟨false, cnc⟩ reg prog).run sched)) := by
  intro h
  have hnr : NoReset f2Prog := by
    intro t x
    unfold f2Prog
    split <;> simp
  have hw : ∀ S : St, S = (CtxTree ⟨false, cnc⟩ f2Reg f2Prog).run f2Sched →
      S.pc 0 = .idle ∧ S.pc 1 = .idle ∧ S.pc 2 = .idle ∧
      S.cst 5 = .bound ∧ S.par 5 = some 2 ∧ S.can 2 = true ∧ S.can 5 = false := by
    intro S hS
    cases cnc
    · have := f2_witness_ascoded
      unfold f2Final at this
      rw [← hS] at this
      exact ⟨this.1, this.2.1, this.2.2.1, this.2.2.2.2.1, this.2.2.2.2.2.1, this.2.2.2.2.2.2.2.1, this.2.2.2.2.2.2.2.2⟩
    · have := f2_witness_monotone_copy
      unfold f2Final at this
      rw [← hS] at this
      exact ⟨this.1, this.2.1, this.2.2.1, this.2.2.2.2.1, this.2.2.2.2.2.1, this.2.2.2.2.2.2.2.1, this.2.2.2.2.2.2.2.2⟩
  generalize hS : (CtxTree ⟨false, cnc⟩ f2Reg f2Prog).run f2Sched = S at *
  have hq' := quiescent_of ⟨false, cnc⟩ f2Reg f2Prog f2Sched
  rw [hS] at hq'
  have hwS := hw S rfl
  have hq : Quiescent S := by
    refine hq' ?_
    intro t ht
    have : t = 0 ∨ t = 1 ∨ t = 2 := by
      simp only [f2Sched, List.mem_append, List.mem_replicate] at ht
      omega
    rcases this with rfl | rfl | rfl
    · exact hwS.1
    · exact hwS.2.1
    · exact hwS.2.2.1
  have h' := h f2Reg f2Prog hnr f2Sched
  rw [hS] at h'
  have := h' hq 5 2 hwS.2.2.2.1 (.direct hwS.2.2.2.2.1) hwS.2.2.2.2.2.1
  rw [hwS.2.2.2.2.2.2] at this
  cases this

/-- **Stale copy**: if the binder copies the parent's flag with an unconditional load + store, `cancel_reaches_all_bound`
is false even when the propagator holds the fall-back mutex: the binder loads 0 from its (root) parent, the parent is
cancelled and the propagation paints the freshly registered child, the binder's store writes the stale 0 over it. -/
theorem reach_fails_with_clearing_copy :
    ¬ (∀ (reg : List Nat) (prog : Nat → List Op), NoReset prog → ∀ sched : List Nat,
        Quiescent ((CtxTree ⟨true, false⟩ reg prog).run sched) → ReachesAllBound ((CtxTree ⟨true, false⟩ reg prog).run sched)) := by
  intro h
  have hnr : NoReset staleProg := by
    intro t x
    unfold staleProg
    split <;> simp
  have hw0 := stale_copy_witness
  generalize hS : (CtxTree ⟨true, false⟩ [1, 0] staleProg).run staleSched = S at hw0
  have hw : S.pc 0 = .idle ∧ S.pc 1 = .idle ∧ S.res 0 = [true] ∧
      S.cst 2 = .bound ∧ S.par 2 = some 1 ∧ S.can 1 = true ∧ S.can 2 = false := hw0
  have hq' := quiescent_of ⟨true, false⟩ [1, 0] staleProg staleSched
  rw [hS] at hq'
  have hq : Quiescent S := by
    refine hq' ?_
    intro t ht
    have : t = 0 ∨ t = 1 := by
      simp only [staleSched, List.mem_append, List.mem_replicate] at ht
      omega
    rcases this with rfl | rfl
    · exact hw.1
    · exact hw.2.1
  have h' := h [1, 0] staleProg hnr staleSched
  rw [hS] at h'
  have := h' hq 2 1 hw.2.2.2.1 (.direct hw.2.2.2.2.1) hw.2.2.2.2.2.1
  rw [hw.2.2.2.2.2.2] at this
  cases this

/-- **Early cancel lost** (sequential): with the unconditional copy, a context that was cancelled before its first use
(the call returned `true`) is un-cancelled when it is bound beneath a live parent, although it was never reset — so
stickiness fails for the protocol as coded. -/
theorem sticky_fails_with_clearing_copy :
    ∃ (reg : List Nat) (prog : Nat → List Op) (sched sched' : List Nat) (x : Nat),
      let s := (CtxTree ⟨true, false⟩ reg prog).run sched
      let s' := (CtxTree ⟨true, false⟩ reg prog).runFrom s sched'
      s.can x = true ∧ s'.can x = false ∧ s'.resets x = s.resets x :=
  ⟨[0], earlyProg, List.replicate 8 0, List.replicate 22 0, 2, by decide +kernel⟩

/-! ## Non-vacuity -/

/-- the hypotheses of the main theorem are satisfiable and its conclusion is non-trivial: under the repaired protocol
the F2 scenario ends quiescent with C5 bound beneath the cancelled C2 — and cancelled -/
example :
    let s := (CtxTree ⟨true, true⟩ f2Reg f2Prog).run (f2Sched ++ List.replicate 30 2 ++ List.replicate 30 0)
    s.pc 0 = .idle ∧ s.pc 1 = .idle ∧ s.pc 2 = .idle ∧ s.cst 5 = .bound ∧ s.par 5 = some 2 ∧ s.can 2 = true ∧
      s.can 5 = true ∧ s.wins 1 = 1 ∧ s.wins 2 = 0 := by
  decide +kernel

/-- no-overreach is non-trivial: in that run the unrelated context 7 and the root's sibling stay clear while 1, 2, 5 are
marked by the single winning call on 1 -/
example :
    let s := (CtxTree ⟨true, true⟩ f2Reg f2Prog).run (f2Sched ++ List.replicate 30 2 ++ List.replicate 30 0)
    s.can 1 = true ∧ s.can 7 = false ∧ s.res 0 = [true] := by
  decide +kernel

end TbbVerif.C04.Props
