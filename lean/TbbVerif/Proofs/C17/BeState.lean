/-
C17 back end — state-level steps keep the invariant `WF`: `coalescAndPut1`, `coalescAndPutList`, `coalescAndPut`,
`scanCoalescQ`.
-/
import TbbVerif.Proofs.C17.BePut

namespace TbbVerif.C17.BE
open TbbVerif.Generated.C17Backend

/-- `WF` does not read `mods`, `log`, `maxReq`, `boot`, `delay`, `binLocked`, `adv`, `skip` -/
theorem wf_congr (g g' : Glob) (rs : List Region) (h : WF ⟨g, rs⟩) (h1 : g'.bad = g.bad) (h2 : g'.cfg = g.cfg)
    (h3 : g'.bins = g.bins) (h4 : g'.mask = g.mask) (h5 : g'.queue = g.queue) : WF ⟨g', rs⟩ := by
  obtain ⟨a1, a2, a3, a4, a5, a6⟩ := h
  refine ⟨by rw [h1]; exact a1, ?_, a3, ?_, ?_, ?_⟩
  · intro r hr; show regOK g'.cfg r; rw [h2]; exact a2 r hr
  · show g'.bins.Perm _; rw [h3]; exact a4
  · intro e he
    have he' : e ∈ g.bins := by rw [← h3]; exact he
    show (e.al, e.bin) ∈ g'.mask
    rw [h4]; exact a5 e he'
  · show g'.queue.Perm _; rw [h5]; exact a6

theorem wf_setSkip (s : St) (h : WF s) : WF s.setSkip := wf_congr s.g _ s.regions h rfl rfl rfl rfl rfl

/-- the region under the cursor is released -/
theorem wf_drop (s : St) (a : Nat) (c : Cursor) (hw : WF s) (hc : locate s a = some c) (g' : Glob)
    (h1 : g'.bad = false) (h2 : g'.cfg = s.g.cfg) (h3 : g'.bins.Perm (frameOf c).ents)
    (h4 : ∀ e ∈ g'.bins, (e.al, e.bin) ∈ g'.mask) (h5 : g'.queue.Perm (frameOf c).qs) : WF ⟨g', c.drop⟩ := by
  obtain ⟨hr, _, _, _⟩ := locate_spec s a c hc
  have hsub : List.Sublist c.drop s.regions := by
    rw [hr]; unfold Cursor.drop
    exact List.Sublist.append_left (List.sublist_cons_self _ _) _
  refine ⟨h1, ?_, hw.disjoint.sublist hsub, ?_, h4, ?_⟩
  · intro r hrm
    show regOK g'.cfg r
    rw [h2]
    exact hw.regs r (hsub.subset hrm)
  · show g'.bins.Perm (allEntries c.drop)
    unfold Cursor.drop
    have : allEntries (c.before.reverse ++ c.after) = (frameOf c).ents := by simp [allEntries, frameOf, List.flatMap_append]
    rw [this]; exact h3
  · show g'.queue.Perm (allQueued c.drop)
    unfold Cursor.drop
    have : allQueued (c.before.reverse ++ c.after) = (frameOf c).qs := by simp [allQueued, frameOf, List.flatMap_append]
    rw [this]; exact h5

theorem inBin_false_of_not_held (cfg : Cfg) (rt a : Nat) (b : Blk) (h : blkOK cfg rt a b) (hn : b.own ≠ .held) : b.inBin = false := by
  unfold blkOK at h
  cases hb : b.inBin with
  | false => rfl
  | true => exact absurd (h.1 hb) hn

theorem regOK_end (cfg : Cfg) (r : Region) : endOf r = r.first + r.blockSz + beSizeofLastFreeBlock := rfl

/-- one iteration of the loop of `coalescAndPutList` keeps the invariant -/
theorem coalescAndPut1_wf (s : St) (addr : Nat) (force report : Bool) (hw : WF s) :
    WF (coalescAndPut1 s addr force report).1 := by
  unfold coalescAndPut1
  cases hc : locate s addr with
  | none => exact wf_setSkip s hw
  | some c =>
    simp only []
    by_cases hpre : c.z.cur.own ≠ .held ∨ c.z.cur.sizeTmp ≠ c.z.cur.size ∨ c.z.cur.inBin = true
    · rw [if_pos hpre]; exact wf_setSkip s hw
    · rw [if_neg hpre]
      have hown : c.z.cur.own = .held := by
        cases h : c.z.cur.own <;> simp_all
      have hst : c.z.cur.sizeTmp = c.z.cur.size := by
        by_cases h : c.z.cur.sizeTmp = c.z.cur.size
        · exact h
        · exact absurd (Or.inr (Or.inl h)) hpre
      have hin : c.z.cur.inBin = false := by
        cases h : c.z.cur.inBin with
        | false => rfl
        | true => exact absurd (Or.inr (Or.inr h)) hpre
      obtain ⟨hl, hlink, hreg, _⟩ := linv_of_wf s addr c hw hc
      cases hd : doCoalesc s.g c.z with
      | mk g1 rest =>
        cases rest with
        | mk z1 out =>
          obtain ⟨d1, d2⟩ := doCoalesc_spec _ _ _ _ _ s.g c.z hl hlink hown hst hin g1 z1 out hd
          simp only []
          cases out with
          | queued =>
            obtain ⟨e1, e2, e3, _, _⟩ := d2 rfl
            simp only []
            have := wf_of_linv s addr c hw hc g1 z1 e1 e2 (inBin_false_of_not_held _ _ _ _ e1.cur (by rw [e3]; simp))
            refine wf_congr g1 _ _ this ?_ ?_ ?_ ?_ ?_ <;> (split <;> rfl)
          | merged lr =>
            have cd := d1 lr rfl
            simp only []
            rw [if_neg (by rw [cd.inv.not_bad]; simp)]
            cases hp : putCoalesced g1 c.reg.blockSz z1 lr force with
            | mk g2 oz =>
              have pd := putCoalesced_spec _ _ _ _ _ s.g g1 z1 lr c.reg.blockSz force cd rfl g2 oz hp
              cases oz with
              | some z2 =>
                obtain ⟨f1, f2, f3⟩ := pd.some_inv z2 rfl
                simp only []
                have := wf_of_linv s addr c hw hc g2 z2 f1 f2 (inBin_false_of_not_held _ _ _ _ f1.cur f3)
                refine wf_congr g2 _ _ this ?_ ?_ ?_ ?_ ?_ <;> (split <;> rfl)
              | none =>
                obtain ⟨f1, f2, f3, f4, f5⟩ := pd.none_inv rfl
                simp only []
                have := wf_drop s addr c hw hc g2 f1 f2 f3 f4 f5
                refine wf_congr g2 _ _ this ?_ ?_ ?_ ?_ ?_ <;> (split <;> rfl)

theorem coalescAndPutList_wf (addrs : List Nat) (force report : Bool) : ∀ (s : St) (b : Bool), WF s →
    WF (addrs.foldl (fun (acc : St × Bool) a =>
      let (s', rel) := coalescAndPut1 acc.1 a force report
      (s', acc.2 || rel)) (s, b)).1 := by
  induction addrs with
  | nil => intro s b h; exact h
  | cons a rest ih =>
    intro s b h
    simp only [List.foldl_cons]
    exact ih _ _ (coalescAndPut1_wf s a force report h)

theorem coalescAndPutList_wf' (s : St) (addrs : List Nat) (force report : Bool) (h : WF s) :
    WF (coalescAndPutList s addrs force report).1 := by
  unfold coalescAndPutList
  exact coalescAndPutList_wf addrs force report s false h

/-- state-level replacement of the block under the cursor by one with the same extent and tags -/
theorem wf_set_cur (s : St) (a : Nat) (c : Cursor) (hw : WF s) (hc : locate s a = some c) (c' : Blk)
    (hnlz : c.z.cur.own ≠ .last) (hsize : c'.size = c.z.cur.size) (hmy : c'.myL = c.z.cur.myL) (hleft : c'.leftL = c.z.cur.leftL)
    (hok : blkOK s.g.cfg c.reg.type c.z.addr c') (hnl : c'.own ≠ .last) (hcin : c'.inBin = false)
    (hent : entryOf c.z.addr c' = entryOf c.z.addr c.z.cur)
    (hq : (c'.own = .queued ↔ c.z.cur.own = .queued)) :
    WF ⟨s.g, c.close { c.z with cur := c' }⟩ := by
  obtain ⟨hl, hlink, _, _⟩ := linv_of_wf s a c hw hc
  have hb := hl.bins
  have hqq := hl.queue
  unfold zEntries at hb
  unfold zQueued at hqq
  have := linv_set_cur _ _ _ _ _ s.g s.g c.z c' hl hnlz hsize hmy hok hnl (by rw [hent]; exact hb) hl.mask
    (by
      have e : (if c'.own = .queued then [c.z.addr] else []) = (if c.z.cur.own = .queued then [c.z.addr] else []) := by
        by_cases h1 : c.z.cur.own = .queued
        · rw [if_pos h1, if_pos (hq.mpr h1)]
        · rw [if_neg h1, if_neg (fun h2 => h1 (hq.mp h2))]
      rw [e]; exact hqq) hl.not_bad rfl
  exact wf_of_linv s a c hw hc s.g _ this (leftLink_set c.z c' c.z.post hlink hleft) hcin

theorem coalescAndPut_wf (s : St) (addr blockSz : Nat) (al : Bool) (hw : WF s) : WF (coalescAndPut s addr blockSz al) := by
  unfold coalescAndPut
  cases hc : locate s addr with
  | none => exact wf_setSkip s hw
  | some c =>
    simp only []
    by_cases hpre : c.z.cur.own ≠ .held ∨ c.z.cur.size ≠ blockSz ∨ c.z.cur.inBin = true ∨ (!s.g.cfg.fixedPool && al != c.z.cur.aligned) = true
    · rw [if_pos hpre]; exact wf_setSkip s hw
    · rw [if_neg hpre]
      have hown : c.z.cur.own = .held := by
        cases h : c.z.cur.own <;> simp_all
      have hin : c.z.cur.inBin = false := by
        cases h : c.z.cur.inBin with
        | false => rfl
        | true => exact absurd (Or.inr (Or.inr (Or.inl h))) hpre
      have hal : s.g.cfg.fixedPool = false → al = c.z.cur.aligned := by
        intro hf
        by_cases h : al = c.z.cur.aligned
        · exact h
        · exfalso; apply hpre; right; right; right
          simp [hf, h]
      obtain ⟨hl, _, _, _⟩ := linv_of_wf s addr c hw hc
      have hcur := (blkOK_held _ _ _ _ hown).mp hl.cur
      apply coalescAndPutList_wf'
      refine wf_set_cur s addr c hw hc _ (by rw [hown]; simp) rfl rfl rfl ?_ (by show c.z.cur.own ≠ .last; rw [hown]; simp) hin ?_ ?_
      · refine (blkOK_held _ _ _ ({ c.z.cur with sizeTmp := blockSz, aligned := al } : Blk) hown).mpr ⟨⟨hcur.1.1, hcur.1.2.1, ?_⟩, hcur.2⟩
        intro hf
        show al = decide (c.reg.type = beRegSlab)
        rw [hal hf]; exact hcur.1.2.2 hf
      · rw [entryOf_held _ _ hown hin]
        exact entryOf_held _ ({ c.z.cur with sizeTmp := blockSz, aligned := al } : Blk) hown hin
      · exact Iff.rfl

/-! ### `scanCoalescQ` -/

theorem flatMap_congr' {α β : Type} (l : List α) (f g : α → List β) (h : ∀ x ∈ l, f x = g x) : l.flatMap f = l.flatMap g := by
  induction l with
  | nil => rfl
  | cons x xs ih =>
    simp only [List.flatMap_cons]
    rw [h x (List.mem_cons_self ..), ih (fun y hy => h y (List.mem_cons_of_mem _ hy))]

def unq (b : Blk) : Blk := if b.own = .queued then { b with own := .held } else b

theorem unq_size (b : Blk) : (unq b).size = b.size := by unfold unq; split <;> rfl
theorem unq_myL (b : Blk) : (unq b).myL = b.myL := by unfold unq; split <;> rfl
theorem unq_leftL (b : Blk) : (unq b).leftL = b.leftL := by unfold unq; split <;> rfl
theorem unq_inBin (b : Blk) : (unq b).inBin = b.inBin := by unfold unq; split <;> rfl
theorem unq_last (b : Blk) : (unq b).own = .last ↔ b.own = .last := by
  unfold unq; split
  · rename_i h; simp [h]
  · rfl
theorem unq_not_queued (b : Blk) : (unq b).own ≠ .queued := by
  unfold unq; split
  · simp
  · assumption

theorem unq_ok (cfg : Cfg) (rt a : Nat) (b : Blk) (h : blkOK cfg rt a b) : blkOK cfg rt a (unq b) ∧ entryOf a (unq b) = entryOf a b := by
  unfold unq
  split
  · rename_i hq
    have hb := (blkOK_queued _ _ _ _ hq).mp h
    refine ⟨(blkOK_held cfg rt a ({ b with own := .held } : Blk) rfl).mpr ⟨⟨?_, hb.2.1.2.2.1, hb.2.1.2.2.2⟩, hb.2.2⟩, ?_⟩
    · show b.myL ≤ gsMaxLockedVal
      rw [hb.2.1.1]; bconst; omega
    · simp [entryOf, hasEntry, hq, hb.1]
  · exact ⟨h, rfl⟩

theorem chainOK_unq (cfg : Cfg) (rt endA : Nat) : ∀ (bs : List Blk) (a t : Nat), chainOK cfg rt endA a t bs →
    chainOK cfg rt endA a t (bs.map unq) ∧ entriesOf a (bs.map unq) = entriesOf a bs ∧ queuedOf a (bs.map unq) = [] := by
  intro bs
  induction bs with
  | nil => intro a t h; exact ⟨h, rfl, rfl⟩
  | cons b rest ih =>
    intro a t h
    unfold chainOK at h
    obtain ⟨h1, h2, h3, h4⟩ := h
    obtain ⟨i1, i2, i3⟩ := ih _ _ h4
    obtain ⟨o1, o2⟩ := unq_ok _ _ _ _ h2.1
    refine ⟨?_, ?_, ?_⟩
    · simp only [List.map_cons]
      unfold chainOK
      refine ⟨by rw [unq_leftL]; exact h1, ⟨o1, by rw [unq_inBin]; exact h2.2⟩, ?_, ?_⟩
      · rw [unq_last]; simp only [List.map_eq_nil_iff]; exact h3
      · rw [unq_size, unq_myL]; exact i1
    · simp only [List.map_cons, entriesOf, unq_size, i2, o2]
    · simp only [List.map_cons, queuedOf, unq_size, i3, unq_not_queued, if_false, List.append_nil]

theorem unqueue_wf (s : St) (hw : WF s) : WF ⟨{ s.g with queue := [] }, unqueue s.regions⟩ := by
  have key : ∀ r ∈ s.regions, regOK s.g.cfg { r with blocks := r.blocks.map unq } ∧
      entriesOf r.first (r.blocks.map unq) = entriesOf r.first r.blocks ∧ queuedOf r.first (r.blocks.map unq) = [] := by
    intro r hr
    obtain ⟨a1, a2, a3, a4, a5, a6, a7⟩ := hw.regs r hr
    obtain ⟨b1, b2, b3⟩ := chainOK_unq _ _ _ _ _ _ a6
    exact ⟨⟨by simpa using a1, a2, a3, a4, a5, b1, a7⟩, b2, b3⟩
  have hun : unqueue s.regions = s.regions.map (fun r => { r with blocks := r.blocks.map unq }) := rfl
  refine ⟨hw.not_bad, ?_, ?_, ?_, hw.mask, ?_⟩
  · intro r hr
    rw [hun] at hr
    obtain ⟨r0, hr0, rfl⟩ := List.mem_map.mp hr
    exact (key r0 hr0).1
  · apply pairwise_of_heads s.regions _ _ hw.disjoint
    rw [hun]; simp [heads, List.map_map, Function.comp_def]
  · show s.g.bins.Perm (allEntries (unqueue s.regions))
    have : allEntries (unqueue s.regions) = allEntries s.regions := by
      rw [hun]
      unfold allEntries
      rw [List.flatMap_map]
      apply flatMap_congr'
      intro r hr
      exact (key r hr).2.1
    rw [this]; exact hw.bins
  · show ([] : List Nat).Perm (allQueued (unqueue s.regions))
    have : allQueued (unqueue s.regions) = [] := by
      rw [hun]
      unfold allQueued
      rw [List.flatMap_map, List.flatMap_eq_nil_iff]
      intro r hr
      exact (key r hr).2.2
    rw [this]

theorem scanCoalescQ_wf (s : St) (force : Bool) (hw : WF s) : WF (scanCoalescQ s force).1 := by
  unfold scanCoalescQ
  simp only []
  split
  · exact hw
  · exact coalescAndPutList_wf' _ _ _ _ (unqueue_wf s hw)

end TbbVerif.C17.BE
