/-
C17 back end — bins and the delayed-coalescing queue as multisets (permutations handled through `List.count`).
-/
import TbbVerif.Proofs.C17.BeLocal

namespace TbbVerif.C17.BE
open TbbVerif.Generated.C17Backend

theorem perm_erase_of_cons {α : Type} [DecidableEq α] (A B : List α) (e : α) (h : A.Perm (e :: B)) : (A.erase e).Perm B := by
  rw [List.perm_iff_count] at *
  intro x
  have := h x
  rw [List.count_erase]
  rw [List.count_cons] at this
  split <;> simp_all <;> omega

theorem perm_mid_cons {α : Type} [DecidableEq α] (X Y : List α) (e : α) : (X ++ e :: Y).Perm (e :: (X ++ Y)) :=
  List.perm_middle

/-- `binRemove` of an entry that is there -/
theorem binRemove_spec (g : Glob) (e : Entry) (L : List Entry) (hb : g.bins.Perm (e :: L))
    (hm : ∀ x ∈ g.bins, (x.al, x.bin) ∈ g.mask) :
    (g.binRemove e).bins.Perm L ∧ (∀ x ∈ (g.binRemove e).bins, (x.al, x.bin) ∈ (g.binRemove e).mask) ∧
    (g.binRemove e).bad = g.bad ∧ (g.binRemove e).queue = g.queue ∧ (g.binRemove e).cfg = g.cfg ∧
    (g.binRemove e).binLocked = g.binLocked ∧ (g.binRemove e).delay = g.delay := by
  have hmem : e ∈ g.bins := hb.mem_iff.mpr (List.mem_cons_self ..)
  have hc : g.bins.contains e = true := List.contains_iff_mem.mpr hmem
  unfold Glob.binRemove
  simp only [hc, if_true]
  refine ⟨perm_erase_of_cons _ _ _ hb, ?_, trivial, trivial, trivial, trivial, trivial⟩
  intro x hx
  have hx' : x ∈ g.bins := List.mem_of_mem_erase hx
  have hxm := hm x hx'
  show (x.al, x.bin) ∈ (if binEmpty (g.bins.erase e) e.al e.bin then maskClear g.mask e.al e.bin else g.mask)
  split
  · rename_i hemp
    unfold maskClear
    rw [List.mem_filter]
    refine ⟨hxm, ?_⟩
    unfold binEmpty at hemp
    simp only [Bool.not_eq_true', List.any_eq_false, Bool.and_eq_true, beq_iff_eq, not_and] at hemp
    have := hemp x hx
    simp only [bne_iff_ne, ne_eq, Prod.mk.injEq, not_and]
    exact this
  · exact hxm

/-- `removeBlockFromBin` of a block whose entry (if it has one) is accounted for -/
theorem removeBlockFromBin_spec (g : Glob) (a : Nat) (b : Blk) (X Y : List Entry)
    (hb : g.bins.Perm (X ++ (entryOf a b ++ Y))) (hfree : b.own = .free ∨ b.inBin = true)
    (hm : ∀ x ∈ g.bins, (x.al, x.bin) ∈ g.mask) :
    (g.removeBlockFromBin a b).bins.Perm (X ++ Y) ∧
    (∀ x ∈ (g.removeBlockFromBin a b).bins, (x.al, x.bin) ∈ (g.removeBlockFromBin a b).mask) ∧
    (g.removeBlockFromBin a b).bad = g.bad ∧ (g.removeBlockFromBin a b).queue = g.queue ∧
    (g.removeBlockFromBin a b).cfg = g.cfg ∧ (g.removeBlockFromBin a b).binLocked = g.binLocked ∧
    (g.removeBlockFromBin a b).delay = g.delay := by
  unfold Glob.removeBlockFromBin
  by_cases h1 : b.myBin = -1
  · have : entryOf a b = [] := by simp [entryOf, hasEntry, h1]
    simp only [h1, if_true]
    rw [this] at hb
    exact ⟨by simpa using hb, hm, trivial, trivial, trivial, trivial, trivial⟩
  · have he : entryOf a b = [⟨b.aligned, b.myBin.toNat, a⟩] := by
      have : hasEntry b = true := by
        unfold hasEntry
        rcases hfree with h | h <;> simp [h, h1]
      simp [entryOf, this]
    simp only [h1, if_false]
    rw [he] at hb
    exact binRemove_spec g _ (X ++ Y) (hb.trans (by simpa using perm_mid_cons X Y _)) hm

theorem mem_maskSet (m : List (Bool × Nat)) (al : Bool) (bin : Nat) (p : Bool × Nat) :
    p ∈ maskSet m al bin ↔ p = (al, bin) ∨ p ∈ m := by
  unfold maskSet
  split
  · rename_i h
    have hm : (al, bin) ∈ m := List.contains_iff_mem.mp h
    constructor
    · intro hp; exact Or.inr hp
    · rintro (rfl | hp)
      · exact hm
      · exact hp
  · simp

/-- `binAdd` -/
theorem binAdd_spec (g : Glob) (a : Nat) (al : Bool) (bin : Nat) (toTail : Bool) (L : List Entry) (hb : g.bins.Perm L)
    (hm : ∀ x ∈ g.bins, (x.al, x.bin) ∈ g.mask) :
    (g.binAdd a al bin toTail).bins.Perm (⟨al, bin, a⟩ :: L) ∧
    (∀ x ∈ (g.binAdd a al bin toTail).bins, (x.al, x.bin) ∈ (g.binAdd a al bin toTail).mask) ∧
    (g.binAdd a al bin toTail).bad = g.bad ∧ (g.binAdd a al bin toTail).queue = g.queue ∧
    (g.binAdd a al bin toTail).cfg = g.cfg ∧ (g.binAdd a al bin toTail).binLocked = g.binLocked ∧
    (g.binAdd a al bin toTail).delay = g.delay := by
  unfold Glob.binAdd
  refine ⟨?_, ?_, rfl, rfl, rfl, rfl, rfl⟩
  · show (if toTail then g.bins ++ [⟨al, bin, a⟩] else ⟨al, bin, a⟩ :: g.bins).Perm _
    split
    · exact (List.perm_append_comm).trans (List.Perm.cons _ hb)
    · exact List.Perm.cons _ hb
  · intro x hx
    show (x.al, x.bin) ∈ maskSet g.mask al bin
    rw [mem_maskSet]
    have hx' : x = ⟨al, bin, a⟩ ∨ x ∈ g.bins := by
      revert hx
      show x ∈ (if toTail then g.bins ++ [⟨al, bin, a⟩] else ⟨al, bin, a⟩ :: g.bins) → _
      split
      · intro h; rcases List.mem_append.mp h with h | h
        · exact Or.inr h
        · exact Or.inl (by simpa using h)
      · intro h; rcases List.mem_cons.mp h with h | h
        · exact Or.inl h
        · exact Or.inr h
    rcases hx' with h | h
    · subst h; exact Or.inl rfl
    · exact Or.inr (hm x h)

end TbbVerif.C17.BE
