/-
C17 back end — `putCoalesced` (the body of the loop of `coalescAndPutList` after `doCoalesc`) keeps the local invariant.
-/
import TbbVerif.Proofs.C17.BeCoalesce

namespace TbbVerif.C17.BE
open TbbVerif.Generated.C17Backend

theorem sizeToBin_neg (s : Nat) : sizeToBin s = -1 ↔ s < beMinBinnedSize := by
  unfold sizeToBin
  simp only [beMaxBinnedHugePage, beMinBinnedSize, beHugeBin, beFreeBinsStep]
  by_cases h1 : s ≥ 4194304
  · simp only [h1, if_true]; omega
  · by_cases h2 : s < 8192
    · simp only [h1, if_false, h2, if_true]
    · simp only [h1, if_false, h2]
      constructor
      · intro h
        have : (0 : Int) ≤ (((s - 8192) / 8192 : Nat) : Int) := Int.natCast_nonneg _
        omega
      · intro h; exact h.elim

/-- replace the block under the cursor (same extent) and tell the right neighbour its tag -/
theorem linv_set (cfg : Cfg) (rt first endA : Nat) (F : Frame) (g g' : Glob) (z : Zip) (r : Blk) (post1 : List Blk) (c' : Blk)
    (h : LInv cfg rt first endA F g z) (hp : z.post = r :: post1)
    (hsize : c'.size = z.cur.size) (hok : blkOK cfg rt z.addr c') (hnl : c'.own ≠ .last)
    (hbins : g'.bins.Perm (F.ents ++ (entriesOf first z.pre.reverse ++ (entryOf z.addr c' ++ entriesOf (z.addr + z.cur.size) z.post))))
    (hmask : ∀ e ∈ g'.bins, (e.al, e.bin) ∈ g'.mask)
    (hq : g'.queue.Perm (F.qs ++ (queuedOf first z.pre.reverse ++ ((if c'.own = .queued then [z.addr] else []) ++ queuedOf (z.addr + z.cur.size) z.post))))
    (hbad : g'.bad = false) (hcfg : g'.cfg = cfg) :
    LInv cfg rt first endA F g' { z with cur := c', post := { r with leftL := c'.myL } :: post1 } := by
  have hpost := h.post
  rw [hp] at hpost
  unfold chainOK at hpost
  obtain ⟨p1, p2s, p3, p4⟩ := hpost
  have p2 := p2s.1
  refine ⟨hbad, hcfg, h.addr, h.pre, hok, ?_, ?_, ?_, hmask, ?_⟩
  · constructor
    · intro hx; exact absurd hx hnl
    · intro hx; cases hx
  · show chainOK cfg rt endA (z.addr + c'.size) c'.myL ({ r with leftL := c'.myL } :: post1)
    unfold chainOK
    rw [hsize]
    exact ⟨rfl, (sblk_leftL _ _ _ _ _).mpr p2s, p3, p4⟩
  · unfold zEntries
    show g'.bins.Perm (F.ents ++ (entriesOf first z.pre.reverse ++ (entryOf z.addr c' ++ entriesOf (z.addr + c'.size) ({ r with leftL := c'.myL } :: post1))))
    rw [hsize]
    rw [hp] at hbins
    simp only [entriesOf, entryOf_leftL] at hbins ⊢
    exact hbins
  · unfold zQueued
    show g'.queue.Perm (F.qs ++ (queuedOf first z.pre.reverse ++ ((if c'.own = .queued then [z.addr] else []) ++ queuedOf (z.addr + c'.size) ({ r with leftL := c'.myL } :: post1))))
    rw [hsize]
    rw [hp] at hq
    simp only [queuedOf] at hq ⊢
    exact hq

theorem leftLink_set (z : Zip) (c' : Blk) (post' : List Blk) (h : LeftLink z) (hl : c'.leftL = z.cur.leftL) :
    LeftLink { z with cur := c', post := post' } := by
  unfold LeftLink at h ⊢
  show c'.leftL = lastTag gsLocked z.pre.reverse
  rw [hl]; exact h

/-- what `putCoalesced` leaves -/
structure PutDone (cfg : Cfg) (rt first endA : Nat) (F : Frame) (g0 g' : Glob) (oz : Option Zip) : Prop where
  some_inv : ∀ z', oz = some z' → LInv cfg rt first endA F g' z' ∧ LeftLink z' ∧ z'.cur.own ≠ .held
  none_inv : oz = none → g'.bad = false ∧ g'.cfg = cfg ∧ g'.bins.Perm F.ents ∧ (∀ e ∈ g'.bins, (e.al, e.bin) ∈ g'.mask) ∧ g'.queue.Perm F.qs
  delay : g'.delay = g0.delay
  locked : g'.binLocked = g0.binLocked

theorem chainPre_sizes (cfg : Cfg) (rt : Nat) : ∀ (bs : List Blk) (a t : Nat), chainPre cfg rt a t bs → bs ≠ [] → 0 < sumSizes bs := by
  intro bs
  cases bs with
  | nil => intro a t _ h; exact absurd rfl h
  | cons b rest =>
    intro a t h _
    unfold chainPre at h
    have := size_ge _ _ _ _ h.2.1.1 h.2.2.1
    simp only [sumSizes_cons]
    bconst; omega

theorem entryOf_last (cfg : Cfg) (rt a : Nat) (b : Blk) (h : blkOK cfg rt a b) (hl : b.own = .last) : entryOf a b = [] := by
  unfold blkOK at h
  have hin : b.inBin = false := by
    cases hb : b.inBin with
    | false => rfl
    | true => have := h.1 hb; rw [hl] at this; cases this
  simp [entryOf, hasEntry, hl, hin]

theorem blk_leftL_eq (r : Blk) (x : Nat) (h : x = r.leftL) : ({ r with leftL := x } : Blk) = r := by
  cases r; simp_all

/-- replace the block under the cursor by one with the same extent and the same tag -/
theorem linv_set_cur (cfg : Cfg) (rt first endA : Nat) (F : Frame) (g g' : Glob) (z : Zip) (c' : Blk)
    (h : LInv cfg rt first endA F g z) (hnlz : z.cur.own ≠ .last)
    (hsize : c'.size = z.cur.size) (hmy : c'.myL = z.cur.myL) (hok : blkOK cfg rt z.addr c') (hnl : c'.own ≠ .last)
    (hbins : g'.bins.Perm (F.ents ++ (entriesOf first z.pre.reverse ++ (entryOf z.addr c' ++ entriesOf (z.addr + z.cur.size) z.post))))
    (hmask : ∀ e ∈ g'.bins, (e.al, e.bin) ∈ g'.mask)
    (hq : g'.queue.Perm (F.qs ++ (queuedOf first z.pre.reverse ++ ((if c'.own = .queued then [z.addr] else []) ++ queuedOf (z.addr + z.cur.size) z.post))))
    (hbad : g'.bad = false) (hcfg : g'.cfg = cfg) :
    LInv cfg rt first endA F g' { z with cur := c' } := by
  have hnp : z.post ≠ [] := fun hp => hnlz (h.curLast.mpr hp)
  cases hp : z.post with
  | nil => exact absurd hp hnp
  | cons r post1 =>
    have := linv_set cfg rt first endA F g g' z r post1 c' h hp hsize hok hnl hbins hmask hq hbad hcfg
    have hpost := h.post
    rw [hp] at hpost
    unfold chainOK at hpost
    rw [blk_leftL_eq r c'.myL (by rw [hmy]; exact hpost.1.symm)] at this
    exact this

/-- `putCoalesced`: the block `doCoalesc` returned is put into its bin and freed, or queued, or its whole region goes -/
theorem putCoalesced_spec (cfg : Cfg) (rt first endA : Nat) (F : Frame) (g0 g : Glob) (z : Zip) (lr : Bool) (regBlockSz : Nat)
    (force : Bool) (hd : CoDone cfg rt first endA F g0 g z lr)
    (hend : endA = first + regBlockSz + beSizeofLastFreeBlock)
    (g' : Glob) (oz : Option Zip) (heq : putCoalesced g regBlockSz z lr force = (g', oz)) :
    PutDone cfg rt first endA F g g' oz := by
  obtain ⟨h, hlink, hown, hst, hmy, ⟨r, post1, hp, hlr⟩, _, _⟩ := hd
  have hcur := (blkOK_held _ _ _ _ hown).mp h.cur
  have hpost := h.post
  rw [hp] at hpost
  unfold chainOK at hpost
  obtain ⟨p1, p2s, p3, p4⟩ := hpost
  have p2 := p2s.1
  unfold putCoalesced at heq
  simp only [] at heq
  by_cases hw : ((lr && regBlockSz == z.cur.sizeTmp && !g.cfg.fixedPool) && g.releasable) = true
  · -- the whole region is released
    rw [if_pos hw] at heq
    simp only [Prod.mk.injEq] at heq
    obtain ⟨rfl, rfl⟩ := heq
    simp only [Bool.and_eq_true, beq_iff_eq] at hw
    obtain ⟨⟨⟨hlr1, hsz⟩, _⟩, _⟩ := hw
    have rl : r.own = .last := hlr.mp hlr1
    have hp1 : post1 = [] := p3.mp rl
    subst hp1
    unfold chainOK at p4
    have rsz : r.size = beSizeofLastFreeBlock := by
      have := p2; unfold blkOK at this; rw [rl] at this; exact this.2.1.2
    have hpre : z.pre = [] := by
      cases hpp : z.pre with
      | nil => rfl
      | cons l pre1 =>
        exfalso
        have h1 := chainPre_sizes _ _ _ _ _ h.pre (by rw [hpp]; simp)
        rw [sumSizes_reverse] at h1
        have := h.addr
        omega
    have hE : zEntries first z = entryOf z.addr z.cur := by
      unfold zEntries
      rw [hpre, hp]
      simp [entriesOf, entryOf_last _ _ _ _ p2 rl]
    have hQ : zQueued first z = [] := by
      unfold zQueued
      rw [hpre, hp]
      simp [queuedOf, hown, rl]
    have hb := h.bins
    rw [hE] at hb
    have hq := h.queue
    rw [hQ] at hq
    refine ⟨?_, fun _ => ?_, ?_, ?_⟩
    · intro z' hz; cases hz
    · cases hin : z.cur.inBin with
      | false =>
        simp only [Bool.false_eq_true, if_false]
        rw [entryOf_held _ _ hown hin] at hb
        exact ⟨h.not_bad, h.cfg_eq, by simpa using hb, h.mask, by simpa using hq⟩
      | true =>
        simp only [if_true]
        have hb' : g.bins.Perm (F.ents ++ (entryOf z.addr z.cur ++ [])) := by simpa using hb
        obtain ⟨r1, r2, r3, r4, r5, _, _⟩ := removeBlockFromBin_spec g z.addr z.cur _ _ hb' (Or.inr hin) h.mask
        exact ⟨by rw [r3]; exact h.not_bad, by rw [r5]; exact h.cfg_eq, by simpa using r1, r2, by rw [r4]; simpa using hq⟩
    · cases hin : z.cur.inBin with
      | false => simp
      | true =>
        simp only [if_true]
        have hb' : g.bins.Perm (F.ents ++ (entryOf z.addr z.cur ++ [])) := by simpa using hb
        exact (removeBlockFromBin_spec g z.addr z.cur _ _ hb' (Or.inr hin) h.mask).2.2.2.2.2.2
    · cases hin : z.cur.inBin with
      | false => simp
      | true =>
        simp only [if_true]
        have hb' : g.bins.Perm (F.ents ++ (entryOf z.addr z.cur ++ [])) := by simpa using hb
        exact (removeBlockFromBin_spec g z.addr z.cur _ _ hb' (Or.inr hin) h.mask).2.2.2.2.2.1
  · rw [if_neg hw] at heq
    clear hw
    have hcfg := h.cfg_eq
    generalize htA : (if g.cfg.fixedPool = true then toAlignedBin z.addr z.cur.sizeTmp else z.cur.aligned) = tA at heq
    generalize hstays : (z.cur.inBin && z.cur.myBin == sizeToBin z.cur.sizeTmp && z.cur.aligned == tA) = stays at heq
    generalize hg1 : (if (z.cur.inBin && !stays) = true then g.removeBlockFromBin z.addr z.cur else g) = g1 at heq
    have hb0 := h.bins
    unfold zEntries at hb0
    -- the state after the (possible) unlinking
    have G1 : g1.bins.Perm (F.ents ++ (entriesOf first z.pre.reverse ++ ((if stays = true then entryOf z.addr z.cur else []) ++ entriesOf (z.addr + z.cur.size) z.post))) ∧
        (∀ e ∈ g1.bins, (e.al, e.bin) ∈ g1.mask) ∧ g1.bad = false ∧ g1.queue = g.queue ∧ g1.cfg = cfg ∧
        g1.binLocked = g.binLocked ∧ g1.delay = g.delay := by
      cases hin : z.cur.inBin with
      | false =>
        rw [hin] at hstays hg1
        simp only [Bool.false_and] at hstays hg1
        subst hstays
        simp only [Bool.false_eq_true, if_false] at hg1 ⊢
        subst hg1
        rw [entryOf_held _ _ hown hin] at hb0
        exact ⟨hb0, h.mask, h.not_bad, by first | rfl | trivial, hcfg, by first | rfl | trivial, by first | rfl | trivial⟩
      | true =>
        cases hs : stays with
        | true =>
          rw [hin, hs] at hg1
          simp only [Bool.not_true, Bool.and_false, Bool.false_eq_true, if_false] at hg1
          subst hg1
          simp only [if_true]
          exact ⟨hb0, h.mask, h.not_bad, by first | rfl | trivial, hcfg, by first | rfl | trivial, by first | rfl | trivial⟩
        | false =>
          rw [hin, hs] at hg1
          simp only [Bool.not_false, Bool.and_self, if_true] at hg1
          subst hg1
          simp only [Bool.false_eq_true, if_false, List.nil_append]
          have hb' : g.bins.Perm ((F.ents ++ entriesOf first z.pre.reverse) ++ (entryOf z.addr z.cur ++ entriesOf (z.addr + z.cur.size) z.post)) := by
            simpa [List.append_assoc] using hb0
          obtain ⟨r1, r2, r3, r4, r5, r6, r7⟩ := removeBlockFromBin_spec g z.addr z.cur _ _ hb' (Or.inr hin) h.mask
          exact ⟨by simpa [List.append_assoc] using r1, r2, by rw [r3]; exact h.not_bad, r4, by rw [r5]; exact hcfg, r6, r7⟩
    obtain ⟨b1, b2, b3, b4, b5, b6, b7⟩ := G1
    have hq0 := h.queue
    unfold zQueued at hq0
    simp only [hown, reduceCtorEq, if_false, List.nil_append] at hq0
    have hnlz : z.cur.own ≠ .last := by rw [hown]; simp
    have hfix : g.cfg.fixedPool = cfg.fixedPool := by rw [hcfg]
    -- the freed block is well formed whenever its bin field is right
    have freeOK : ∀ (mb : Int) (st : Nat), (mb = -1 ∨ (mb = sizeToBin z.cur.size ∧ beMinBinnedSize ≤ z.cur.size)) →
        (cfg.fixedPool = true → mb ≠ -1 → tA = true → (z.addr + z.cur.size) % beSlabSize = 0) → (cfg.fixedPool = false → tA = decide (rt = beRegSlab)) →
        blkOK cfg rt z.addr { z.cur with myL := z.cur.sizeTmp, own := .free, inBin := false, myBin := mb, aligned := tA, sizeTmp := st } := by
      intro mb st hmb hfa hna
      refine (blkOK_free cfg rt z.addr _ rfl).mpr ⟨rfl, ⟨hst, hcur.1.2.1, hmb, ?_⟩, hcur.2⟩
      cases hfp : cfg.fixedPool with
      | true => simp only [if_true]; exact hfa hfp
      | false => simp only [Bool.false_eq_true, if_false]; exact hna hfp
    have tA_nonfixed : cfg.fixedPool = false → tA = decide (rt = beRegSlab) := by
      intro hf
      rw [← htA, hfix, hf]
      simp only [Bool.false_eq_true, if_false]
      exact hcur.1.2.2 hf
    have tA_fixed : cfg.fixedPool = true → tA = true → (z.addr + z.cur.size) % beSlabSize = 0 := by
      intro hf ht
      rw [← htA, hfix, hf, hst] at ht
      simp only [if_true] at ht
      unfold toAlignedBin at ht
      simp only [Bool.and_eq_true, beq_iff_eq] at ht
      exact ht.1
    cases hs : stays with
    | true =>
      -- the block stays in the bin of its left part
      rw [hs] at heq b1
      simp only [if_true, Prod.mk.injEq] at heq b1
      obtain ⟨rfl, rfl⟩ := heq
      rw [hs] at hstays
      simp only [Bool.and_eq_true, beq_iff_eq] at hstays
      obtain ⟨⟨hin, hmb⟩, hal⟩ := hstays
      refine ⟨?_, (by intro hx; cases hx), b7, b6⟩
      intro z' hz
      cases hz
      unfold setFree
      rw [hp]
      have hok : blkOK cfg rt z.addr { z.cur with myL := z.cur.sizeTmp, own := .free, inBin := false } := by
        have := freeOK z.cur.myBin z.cur.sizeTmp ?_ ?_ tA_nonfixed
        · rw [← hal] at this; exact this
        · rw [hmb, hst]
          by_cases hneg : sizeToBin z.cur.size = -1
          · exact Or.inl hneg
          · refine Or.inr ⟨rfl, ?_⟩
            have : ¬ z.cur.size < beMinBinnedSize := fun hlt => hneg ((sizeToBin_neg _).mpr hlt)
            omega
        · intro hf _; exact tA_fixed hf
      refine ⟨linv_set cfg rt first endA F g g1 z r post1 _ h hp rfl hok (by simp) ?_ b2 ?_ b3 b5, leftLink_set _ _ _ hlink rfl, by simp⟩
      · have e1 : entryOf z.addr ({ z.cur with myL := z.cur.sizeTmp, own := .free, inBin := false } : Blk) = entryOf z.addr z.cur := by
          simp [entryOf, hasEntry, hin, hown]
        rw [e1]; exact b1
      · rw [b4]; simpa using hq0
    | false =>
      rw [hs] at heq b1
      simp only [Bool.false_eq_true, if_false, List.nil_append] at heq b1
      have binOK : beMinBinnedSize ≤ z.cur.size → sizeToBin z.cur.sizeTmp ≠ -1 := by
        intro hm hneg
        rw [hst] at hneg
        have := (sizeToBin_neg z.cur.size).mp hneg
        omega
      by_cases hbig : z.cur.sizeTmp ≥ beMinBinnedSize
      · rw [if_pos hbig] at heq
        have hbig' : beMinBinnedSize ≤ z.cur.size := by rw [← hst]; exact hbig
        by_cases hadd : (force || !g1.binLocked.contains (tA, (sizeToBin z.cur.sizeTmp).toNat)) = true
        · rw [if_pos hadd] at heq
          simp only [Prod.mk.injEq] at heq
          obtain ⟨rfl, rfl⟩ := heq
          obtain ⟨a1, a2, a3, a4, a5, a6, a7⟩ := binAdd_spec g1 z.addr tA (sizeToBin z.cur.sizeTmp).toNat (lr && regBlockSz == z.cur.sizeTmp && !g.cfg.fixedPool) _ b1 b2
          refine ⟨?_, (by intro hx; cases hx), by rw [a7, b7], by rw [a6, b6]⟩
          intro z' hz
          cases hz
          unfold setFree
          simp only [hp]
          have hok := freeOK (sizeToBin z.cur.sizeTmp) 0 (Or.inr ⟨by rw [hst], hbig'⟩) (fun hf _ => tA_fixed hf) tA_nonfixed
          refine ⟨linv_set cfg rt first endA F g _ z r post1 _ h hp rfl hok (by simp) ?_ a2 ?_ (by rw [a3]; exact b3) (by rw [a5]; exact b5), leftLink_set _ _ _ hlink rfl, by simp⟩
          · have e1 : entryOf z.addr ({ z.cur with myL := z.cur.sizeTmp, own := .free, inBin := false, myBin := sizeToBin z.cur.sizeTmp, aligned := tA, sizeTmp := 0 } : Blk) =
                [⟨tA, (sizeToBin z.cur.sizeTmp).toNat, z.addr⟩] := by
              simp [entryOf, hasEntry, binOK hbig']
            rw [e1]
            refine a1.trans ?_
            rw [List.perm_iff_count]
            intro x
            simp only [List.count_cons, List.count_append, List.count_nil]
            omega
          · rw [a4, b4]; simpa using hq0
        · rw [if_neg hadd] at heq
          simp only [Prod.mk.injEq] at heq
          obtain ⟨rfl, rfl⟩ := heq
          -- delayed: the block is queued
          let B : Blk := { z.cur with inBin := false, myBin := sizeToBin z.cur.sizeTmp, aligned := tA, sizeTmp := z.cur.sizeTmp }
          have hokh : blkOK cfg rt z.addr B := by
            refine (blkOK_held cfg rt z.addr B hown).mpr ⟨⟨hcur.1.1, hcur.1.2.1, ?_⟩, hcur.2⟩
            intro hf; exact tA_nonfixed hf
          have hl2 := linv_set_cur cfg rt first endA F g g1 z B h hnlz rfl rfl hokh (by show z.cur.own ≠ .last; rw [hown]; simp) ?_ b2 ?_ b3 b5
          · obtain ⟨q1, q2, q3, q4, q5, q6⟩ := queuePut_spec cfg rt first endA F g1 _ hl2 hown hst rfl
            refine ⟨?_, (by intro hx; cases hx), by rw [q5, b7], by rw [q6, b6]⟩
            intro z' hz
            cases hz
            refine ⟨q1, ?_, by rw [q2]; simp⟩
            unfold LeftLink at hlink ⊢
            rw [q3, q4]; exact hlink
          · have e1 : entryOf z.addr B = [] := entryOf_held _ B hown rfl
            rw [e1]; exact b1
          · rw [b4]
            show g.queue.Perm (F.qs ++ (queuedOf first z.pre.reverse ++ ((if z.cur.own = Own.queued then [z.addr] else []) ++ queuedOf (z.addr + z.cur.size) z.post)))
            simp only [hown, reduceCtorEq, if_false, List.nil_append]
            exact hq0
      · rw [if_neg hbig] at heq
        simp only [Prod.mk.injEq] at heq
        obtain ⟨rfl, rfl⟩ := heq
        refine ⟨?_, (by intro hx; cases hx), b7, b6⟩
        intro z' hz
        cases hz
        unfold setFree
        simp only [hp]
        have hok := freeOK (-1) 0 (Or.inl rfl) (fun _ hne => absurd rfl hne) tA_nonfixed
        refine ⟨linv_set cfg rt first endA F g g1 z r post1 _ h hp rfl hok (by simp) ?_ b2 ?_ b3 b5, leftLink_set _ _ _ hlink rfl, by simp⟩
        · have e1 : entryOf z.addr ({ z.cur with myL := z.cur.sizeTmp, own := .free, inBin := false, myBin := -1, aligned := tA, sizeTmp := 0 } : Blk) = [] := by
            simp [entryOf, hasEntry]
          rw [e1]; exact b1
        · rw [b4]; simpa using hq0

end TbbVerif.C17.BE
