/-
C17 back end — what the tiling invariant means for the blocks in the hands of callers: pairwise disjoint, inside the
payload of one region (clear of the `MemRegion` header and of the `LastFreeBlock`), disjoint from every block in a bin.
-/
import TbbVerif.Proofs.C17.BeReset

namespace TbbVerif.C17.BE
open TbbVerif.Generated.C17Backend

/-- every block of a block list with its address: `(address, size, block)` -/
def spans : Nat → List Blk → List (Nat × Nat × Blk)
  | _, [] => []
  | a, b :: rest => (a, b.size, b) :: spans (a + b.size) rest

def allSpans (rs : List Region) : List (Nat × Nat × Blk) := rs.flatMap (fun r => spans r.first r.blocks)

def Disj (x y : Nat × Nat × Blk) : Prop := x.1 + x.2.1 ≤ y.1 ∨ y.1 + y.2.1 ≤ x.1

theorem Disj.symm {x y : Nat × Nat × Blk} (h : Disj x y) : Disj y x := Or.symm h

theorem blkOK_size (cfg : Cfg) (rt a : Nat) (b : Blk) (h : blkOK cfg rt a b) :
    0 < b.size ∧ (b.own = .last → b.size = beSizeofLastFreeBlock) ∧ (b.own ≠ .last → beMinBlockSize ≤ b.size) := by
  obtain ⟨_, h2, _⟩ := h
  have p1 : 0 < beMinBlockSize := by decide
  have p2 : 0 < beSizeofLastFreeBlock := by decide
  cases ho : b.own <;> rw [ho] at h2 <;> simp only [] at h2
  · exact ⟨by omega, (fun h => by cases h), fun _ => h2.2.1⟩
  · exact ⟨by omega, (fun h => by cases h), fun _ => h2.2.2.1⟩
  · exact ⟨by omega, (fun h => by cases h), fun _ => h2.2.1⟩
  · exact ⟨by omega, (fun h => by cases h), fun _ => h2.2.2.1⟩
  · exact ⟨by omega, (fun h => by cases h), fun _ => h2.2.1⟩
  · exact ⟨by omega, fun _ => h2.2, fun h => absurd rfl h⟩

/-- exact tiling: the blocks of a chain are pairwise disjoint, lie between its start and its end, and every block but the
`LastFreeBlock` ends before the `LastFreeBlock` -/
theorem chain_spans (cfg : Cfg) (rt endA : Nat) : ∀ (bs : List Blk) (a t : Nat), chainOK cfg rt endA a t bs →
    a ≤ endA ∧ (bs ≠ [] → a + beSizeofLastFreeBlock ≤ endA) ∧ (spans a bs).Pairwise Disj ∧
    ∀ x ∈ spans a bs, a ≤ x.1 ∧ x.1 + x.2.1 ≤ endA ∧ x.2.1 = x.2.2.size ∧ 0 < x.2.1 ∧
      (x.2.2.own ≠ .last → x.1 + x.2.1 + beSizeofLastFreeBlock ≤ endA ∧ beMinBlockSize ≤ x.2.1) := by
  intro bs
  induction bs with
  | nil =>
    intro a t h
    unfold chainOK at h
    exact ⟨by omega, fun h => absurd rfl h, List.Pairwise.nil, fun x hx => by cases hx⟩
  | cons b rest ih =>
    intro a t h
    unfold chainOK at h
    obtain ⟨_, hs, hlast, hrest⟩ := h
    obtain ⟨i1, i2, i3, i4⟩ := ih _ _ hrest
    obtain ⟨s1, s2, s3⟩ := blkOK_size _ _ _ _ hs.1
    have hend : a + b.size ≤ endA := i1
    have hl : a + beSizeofLastFreeBlock ≤ endA := by
      by_cases hr : rest = []
      · have := s2 (hlast.mpr hr); omega
      · have := i2 hr; omega
    refine ⟨by omega, fun _ => hl, ?_, ?_⟩
    · show ((a, b.size, b) :: spans (a + b.size) rest).Pairwise Disj
      refine List.pairwise_cons.mpr ⟨fun y hy => ?_, i3⟩
      have := (i4 y hy).1
      exact Or.inl this
    · intro x hx
      have hx' : x = (a, b.size, b) ∨ x ∈ spans (a + b.size) rest := List.mem_cons.mp hx
      rcases hx' with rfl | hx'
      · refine ⟨Nat.le_refl _, hend, rfl, s1, fun hnl => ?_⟩
        have hr : rest ≠ [] := fun hr => hnl (hlast.mpr hr)
        have := i2 hr
        exact ⟨by simp only []; omega, s3 hnl⟩
      · obtain ⟨j1, j2, j3, j4, j5⟩ := i4 x hx'
        exact ⟨by omega, j2, j3, j4, j5⟩

theorem mem_spans_split : ∀ (xs : List Blk) (a : Nat) (b : Blk) (ys : List Blk),
    (a + sumSizes xs, b.size, b) ∈ spans a (xs ++ b :: ys) := by
  intro xs
  induction xs with
  | nil => intro a b ys; simp [spans]
  | cons x xs ih =>
    intro a b ys
    show _ ∈ (a, x.size, x) :: spans (a + x.size) (xs ++ b :: ys)
    refine List.mem_cons_of_mem _ ?_
    have := ih (a + x.size) b ys
    simpa [Nat.add_assoc] using this

theorem region_spans (cfg : Cfg) (r : Region) (hr : regOK cfg r) :
    (spans r.first r.blocks).Pairwise Disj ∧
    ∀ x ∈ spans r.first r.blocks, r.base + beSizeofMemRegion ≤ x.1 ∧ x.1 + x.2.1 ≤ r.base + r.allocSz ∧ x.2.1 = x.2.2.size ∧ 0 < x.2.1 ∧
      (x.2.2.own ≠ .last → x.1 + x.2.1 + beSizeofLastFreeBlock ≤ r.base + r.allocSz ∧ beMinBlockSize ≤ x.2.1) := by
  obtain ⟨_, h2, h3, _, _, h6, _⟩ := hr
  obtain ⟨_, _, c3, c4⟩ := chain_spans _ _ _ _ _ _ h6
  refine ⟨c3, fun x hx => ?_⟩
  obtain ⟨j1, j2, j3, j4, j5⟩ := c4 x hx
  refine ⟨by omega, by omega, j3, j4, fun hnl => ?_⟩
  obtain ⟨k1, k2⟩ := j5 hnl
  exact ⟨by omega, k2⟩

theorem allSpans_pairwise (s : St) (hw : WF s) : (allSpans s.regions).Pairwise Disj := by
  unfold allSpans
  rw [List.pairwise_flatMap]
  refine ⟨fun r hr => (region_spans _ r (hw.regs r hr)).1, ?_⟩
  have hmem : ∀ r ∈ s.regions, regOK s.g.cfg r := hw.regs
  have hd := hw.disjoint
  generalize s.regions = rs at hmem hd
  induction hd with
  | nil => exact List.Pairwise.nil
  | @cons r rest hhead _ ih =>
    refine List.pairwise_cons.mpr ⟨fun r2 hr2 x hx y hy => ?_, ih (fun r' hr' => hmem r' (List.mem_cons_of_mem _ hr'))⟩
    obtain ⟨a1, a2, _, a4, _⟩ := (region_spans _ r (hmem r (List.mem_cons_self ..))).2 x hx
    obtain ⟨b1, b2, _, b4, _⟩ := (region_spans _ r2 (hmem r2 (List.mem_cons_of_mem _ hr2))).2 y hy
    have := hhead r2 hr2
    unfold regionsDisjoint at this
    unfold Disj
    have p : 0 < beSizeofMemRegion := by decide
    omega

/-- from positions to values: two blocks of the tiling are the same block or do not overlap -/
theorem pairwise_pointwise : ∀ (l : List (Nat × Nat × Blk)), l.Pairwise Disj → ∀ x ∈ l, ∀ y ∈ l, x = y ∨ Disj x y := by
  intro l h
  induction h with
  | nil => intro x hx; cases hx
  | @cons a l ha _ ih =>
    intro x hx y hy
    rcases List.mem_cons.mp hx with hx' | hx' <;> rcases List.mem_cons.mp hy with hy' | hy'
    · exact Or.inl (hx'.trans hy'.symm)
    · rw [hx']; exact Or.inr (ha y hy')
    · rw [hy']; exact Or.inr (ha x hx').symm
    · exact ih x hx' y hy'

theorem usersOf_mem : ∀ (bs : List Blk) (a : Nat) (u : Nat × Nat), u ∈ usersOf a bs →
    ∃ xs b ys, bs = xs ++ b :: ys ∧ u = (a + sumSizes xs, b.size) ∧ ((∃ al, b.own = .user al) ∨ ∃ al, b.own = .coal al) := by
  intro bs
  induction bs with
  | nil => intro a u h; cases h
  | cons b rest ih =>
    intro a u h
    unfold usersOf at h
    rcases List.mem_append.mp h with h | h
    · cases ho : b.own <;> rw [ho] at h <;> simp only [List.mem_cons, List.not_mem_nil, or_false] at h
      · exact ⟨[], b, rest, rfl, by simpa using h, Or.inl ⟨_, ho⟩⟩
      · exact ⟨[], b, rest, rfl, by simpa using h, Or.inr ⟨_, ho⟩⟩
    · obtain ⟨xs, b', ys, h1, h2, h3⟩ := ih _ _ h
      exact ⟨b :: xs, b', ys, by rw [h1]; rfl, by simpa [Nat.add_assoc] using h2, h3⟩

/-- the user blocks of a block list, in order, are among its spans -/
theorem usersOf_sublist : ∀ (bs : List Blk) (a : Nat), (usersOf a bs).Sublist ((spans a bs).map (fun x => (x.1, x.2.1))) := by
  intro bs
  induction bs with
  | nil => intro a; exact List.Sublist.slnil
  | cons b rest ih =>
    intro a
    unfold usersOf
    show List.Sublist _ ((a, b.size) :: (spans (a + b.size) rest).map (fun x => (x.1, x.2.1)))
    cases b.own <;> simp only [List.nil_append, List.cons_append]
    · exact List.Sublist.cons_cons _ (ih _)
    · exact List.Sublist.cons_cons _ (ih _)
    · exact List.Sublist.cons _ (ih _)
    · exact List.Sublist.cons _ (ih _)
    · exact List.Sublist.cons _ (ih _)
    · exact List.Sublist.cons _ (ih _)

def blkDisj (u v : Nat × Nat) : Prop := u.1 + u.2 ≤ v.1 ∨ v.1 + v.2 ≤ u.1

/-- a user block of a state is a block of the tiling that is not the `LastFreeBlock` -/
theorem user_span (s : St) (u : Nat × Nat) (hu : u ∈ allUsers s.regions) :
    ∃ r ∈ s.regions, ∃ b, (u.1, u.2, b) ∈ spans r.first r.blocks ∧ ((∃ al, b.own = .user al) ∨ ∃ al, b.own = .coal al) := by
  unfold allUsers at hu
  obtain ⟨r, hr, hur⟩ := List.mem_flatMap.mp hu
  obtain ⟨xs, b, ys, h1, h2, h3⟩ := usersOf_mem _ _ _ hur
  refine ⟨r, hr, b, ?_, h3⟩
  rw [h1, h2]
  exact mem_spans_split xs r.first b ys

theorem users_pairwise (s : St) (hw : WF s) : (allUsers s.regions).Pairwise blkDisj := by
  unfold allUsers
  rw [List.pairwise_flatMap]
  constructor
  · intro r hr
    have h1 := (region_spans _ r (hw.regs r hr)).1
    have h2 : ((spans r.first r.blocks).map (fun x => (x.1, x.2.1))).Pairwise blkDisj := by
      rw [List.pairwise_map]
      exact h1.imp (fun h => h)
    exact h2.sublist (usersOf_sublist _ _)
  · have hall := allSpans_pairwise s hw
    unfold allSpans at hall
    rw [List.pairwise_flatMap] at hall
    refine hall.2.imp (fun {r1 r2} h x hx y hy => ?_)
    obtain ⟨xs, b, ys, h1, h2, _⟩ := usersOf_mem _ _ _ hx
    obtain ⟨xs', b', ys', h1', h2', _⟩ := usersOf_mem _ _ _ hy
    have m1 := mem_spans_split xs r1.first b ys
    have m2 := mem_spans_split xs' r2.first b' ys'
    rw [← h1] at m1; rw [← h1'] at m2
    have := h _ m1 _ m2
    rw [h2, h2']
    exact this

theorem users_inside (s : St) (hw : WF s) (u : Nat × Nat) (hu : u ∈ allUsers s.regions) :
    beMinBlockSize ≤ u.2 ∧ ∃ r ∈ s.regions, r.base + beSizeofMemRegion ≤ u.1 ∧ u.1 + u.2 + beSizeofLastFreeBlock ≤ r.base + r.allocSz := by
  obtain ⟨r, hr, b, hb, hown⟩ := user_span s u hu
  obtain ⟨a1, _, _, _, a5⟩ := (region_spans _ r (hw.regs r hr)).2 _ hb
  have hnl : b.own ≠ .last := by
    rcases hown with ⟨al, h⟩ | ⟨al, h⟩ <;> rw [h] <;> intro hh <;> cases hh
  obtain ⟨k1, k2⟩ := a5 hnl
  exact ⟨k2, r, hr, a1, k1⟩

/-- a block in the hands of a caller does not overlap a block that is in a bin -/
theorem users_clear_of_bins (s : St) (hw : WF s) (u : Nat × Nat) (hu : u ∈ allUsers s.regions) (e : Entry) (he : e ∈ s.g.bins) :
    ∃ c, locate s e.addr = some c ∧ c.z.cur.own = .free ∧ blkDisj u (e.addr, c.z.cur.size) := by
  obtain ⟨c, hc, hfree, _⟩ := wf_bin_entry s hw e he
  obtain ⟨l1, l2, l3, l4⟩ := locate_spec s e.addr c hc
  refine ⟨c, hc, hfree, ?_⟩
  obtain ⟨r, hr, b, hb, hown⟩ := user_span s u hu
  have hcr : c.reg ∈ s.regions := by rw [l1]; simp
  have m2 : (e.addr, c.z.cur.size, c.z.cur) ∈ spans c.reg.first c.reg.blocks := by
    have := mem_spans_split c.z.pre.reverse c.reg.first c.z.cur c.z.post
    rw [sumSizes_reverse, ← l4, l3] at this
    rw [l2]; exact this
  have h1 : (u.1, u.2, b) ∈ allSpans s.regions := List.mem_flatMap.mpr ⟨r, hr, hb⟩
  have h2 : (e.addr, c.z.cur.size, c.z.cur) ∈ allSpans s.regions := List.mem_flatMap.mpr ⟨c.reg, hcr, m2⟩
  rcases pairwise_pointwise _ (allSpans_pairwise s hw) _ h1 _ h2 with heq | hd
  · exfalso
    have : b = c.z.cur := by
      have := congrArg (fun x => x.2.2) heq
      exact this
    rw [this, hfree] at hown
    rcases hown with ⟨al, h⟩ | ⟨al, h⟩ <;> cases h
  · exact hd

end TbbVerif.C17.BE

namespace TbbVerif.C17.BE
open TbbVerif.Generated.C17Backend

/-! ### handing out records the block -/

theorem allUsers_append (xs ys : List Region) : allUsers (xs ++ ys) = allUsers xs ++ allUsers ys := by
  unfold allUsers; simp

theorem allUsers_cons (r : Region) (ys : List Region) : allUsers (r :: ys) = usersOf r.first r.blocks ++ allUsers ys := by
  unfold allUsers; simp

/-- `giveUser` (the end of `genericGetBlock`) records every block it hands out as the caller's, and un-records nothing -/
theorem giveUser_records (size : Nat) (al : Bool) : ∀ (j : Nat) (s : St) (addr : Nat), (giveUser s addr size al j).g.skip = false →
    (∀ k, k < j → (addr + k * size, size) ∈ allUsers (giveUser s addr size al j).regions) ∧
    (∀ u ∈ allUsers s.regions, u ∈ allUsers (giveUser s addr size al j).regions) := by
  intro j
  induction j with
  | zero => intro s addr _; exact ⟨fun k hk => by omega, fun u hu => hu⟩
  | succ j ih =>
    intro s addr hns
    unfold giveUser at hns ⊢
    cases hc : locate s addr with
    | none => rw [hc] at hns; cases hns
    | some c =>
      rw [hc] at hns
      simp only [] at hns ⊢
      split at hns
      · cases hns
      · rename_i hpre
        rw [if_neg hpre]
        simp only [not_or, Decidable.not_not, not_and] at hpre
        obtain ⟨hown, hsize, _, _⟩ := hpre
        obtain ⟨i1, i2⟩ := ih _ _ hns
        obtain ⟨l1, l2, l3, l4⟩ := locate_spec s addr c hc
        -- the users before and after the block becomes the caller's
        have e0 : allUsers s.regions = allUsers c.before.reverse ++
            (usersOf c.reg.first c.z.pre.reverse ++ usersOf addr (c.z.cur :: c.z.post) ++ allUsers c.after) := by
          rw [l1, allUsers_append, allUsers_cons, l2, Zip.blocks, usersOf_append, sumSizes_reverse, ← l4, l3]
        have e1 : allUsers (c.close { c.z with cur := { c.z.cur with own := Own.user al } }) = allUsers c.before.reverse ++
            (usersOf c.reg.first c.z.pre.reverse ++ usersOf addr ({ c.z.cur with own := Own.user al } :: c.z.post) ++ allUsers c.after) := by
          unfold Cursor.close
          rw [allUsers_append, allUsers_cons]
          show _ ++ (usersOf c.reg.first (c.z.pre.reverse ++ { c.z.cur with own := Own.user al } :: c.z.post) ++ _) = _
          rw [usersOf_append, sumSizes_reverse, ← l4, l3]
        have hcur : usersOf addr (c.z.cur :: c.z.post) = usersOf (addr + c.z.cur.size) c.z.post := by
          show (match c.z.cur.own with | .user _ => [(addr, c.z.cur.size)] | .coal _ => [(addr, c.z.cur.size)] | _ => []) ++ _ = _
          rw [hown]; rfl
        have hnew : usersOf addr ({ c.z.cur with own := Own.user al } :: c.z.post) = (addr, c.z.cur.size) :: usersOf (addr + c.z.cur.size) c.z.post := rfl
        have hmono : ∀ u ∈ allUsers s.regions, u ∈ allUsers (c.close { c.z with cur := { c.z.cur with own := Own.user al } }) := by
          intro u hu
          rw [e0, hcur] at hu
          rw [e1, hnew]
          simp only [List.mem_append, List.mem_cons] at hu ⊢
          rcases hu with h | (h | h) | h
          · exact Or.inl h
          · exact Or.inr (Or.inl (Or.inl h))
          · exact Or.inr (Or.inl (Or.inr (Or.inr h)))
          · exact Or.inr (Or.inr h)
        have hhere : (addr, size) ∈ allUsers (c.close { c.z with cur := { c.z.cur with own := Own.user al } }) := by
          rw [e1, hnew, hsize]
          simp
        refine ⟨fun k hk => ?_, fun u hu => i2 u (hmono u hu)⟩
        cases k with
        | zero => simpa using i2 _ hhere
        | succ k =>
          have := i1 k (by omega)
          have e : addr + (k + 1) * size = addr + size + k * size := by rw [Nat.succ_mul]; omega
          rw [e]; exact this

end TbbVerif.C17.BE
