/-
C17 back-reference table — one leaf (`BackRefBlock`): the free list threaded through the slot words, the bump pointer,
`allocatedCount`; allocation from a leaf and release into it keep `leafOK` and never hand out a slot twice.
-/
import TbbVerif.Model.C17BackrefInv

namespace TbbVerif.C17.BR
open TbbVerif.Generated.C17Backend

theorem slotOff_slotAddr (base off : Nat) : slotOff base (slotAddr base off) = off := by
  unfold slotOff slotAddr; omega

theorem slotAddr_pos (base off : Nat) : slotAddr base off ≠ 0 := by
  unfold slotAddr; simp only [brSizeofBackRefBlock]; omega

theorem getD_set_ne (l : List Nat) (i j v d : Nat) (h : i ≠ j) : (l.set i v).getD j d = l.getD j d := by
  simp [List.getD, List.getElem?_set, h]

theorem getD_set_eq (l : List Nat) (i v d : Nat) (h : i < l.length) : (l.set i v).getD i d = v := by
  simp [List.getD, List.getElem?_set, h]

/-- writing a slot that is not on the free list leaves the chain alone -/
theorem freeChain_set (base : Nat) (slots : List Nat) (o v : Nat) : ∀ (fr : List Nat) (head : Nat), o ∉ fr →
    (freeChain base (slots.set o v) head fr ↔ freeChain base slots head fr) := by
  intro fr
  induction fr with
  | nil => intro head _; unfold freeChain; rfl
  | cons x rest ih =>
    intro head hno
    have hx : o ≠ x := fun h => hno (by rw [h]; exact List.mem_cons_self ..)
    have hr : o ∉ rest := fun h => hno (List.mem_cons_of_mem _ h)
    unfold freeChain
    rw [getD_set_ne _ _ _ _ _ hx, ih _ hr]

/-- the slot is handed out: inside the leaf, not on the free list, above the bump pointer -/
def Leaf.isAlloc (l : Leaf) (off : Nat) : Prop := l.allocated off = true

theorem allocated_iff (l : Leaf) (off : Nat) :
    l.allocated off = true ↔ off < brMaxCnt ∧ off ∉ l.free ∧ (∀ b, l.bump = some b → (off : Int) > b) := by
  unfold Leaf.allocated
  cases hb : l.bump with
  | none => simp
  | some b => simp [and_assoc]

/-- `removeBackRef` on a leaf -/
def leafRemove (l : Leaf) (off : Nat) : Leaf :=
  { l with slots := l.slots.set off l.freeHead, freeHead := slotAddr l.base off, cnt := l.cnt - 1, free := off :: l.free }

theorem leafRemove_ok (l : Leaf) (off : Nat) (h : leafOK l) (ha : l.allocated off = true) :
    leafOK (leafRemove l off) ∧ (leafRemove l off).allocated off = false ∧
    (∀ o, o ≠ off → (leafRemove l off).allocated o = l.allocated o) ∧ 0 < l.cnt := by
  obtain ⟨h1, h2, h3, h4, h5, h6⟩ := h
  obtain ⟨a1, a2, a3⟩ := (allocated_iff l off).mp ha
  have hbl : bumpLeft (leafRemove l off) = bumpLeft l := rfl
  -- the slot lies above the bump area
  have habove : (off : Int) ≥ bumpLeft l := by
    unfold bumpLeft
    cases hb : l.bump with
    | none => simp
    | some b => have := a3 b hb; simp only []; omega
  have hcnt : 0 < l.cnt := by
    -- bumpLeft + |free| + cnt = MAX, and off is a slot outside both the bump area and the free list
    have hsub : ∀ o ∈ l.free, o < brMaxCnt ∧ (o : Int) ≥ bumpLeft l := by
      intro o ho
      refine ⟨?_, h4 o ho⟩
      -- every element of the chain is a slot
      have : ∀ (fr : List Nat) (hd : Nat), freeChain l.base l.slots hd fr → ∀ x ∈ fr, x < brMaxCnt := by
        intro fr
        induction fr with
        | nil => intro _ _ x hx; cases hx
        | cons y rest ih =>
          intro hd hc x hx
          unfold freeChain at hc
          rcases List.mem_cons.mp hx with rfl | hx
          · exact hc.2.1
          · exact ih _ hc.2.2 x hx
      exact this _ _ h3 o ho
    -- count: the free offsets are distinct numbers in [bumpLeft, MAX) different from off
    have hlen : l.free.length + 1 ≤ brMaxCnt - bumpLeft l := by
      have hnd : (off :: l.free).Nodup := List.nodup_cons.mpr ⟨a2, h2⟩
      have hrange : ∀ x ∈ off :: l.free, x ∈ List.range' (bumpLeft l) (brMaxCnt - bumpLeft l) := by
        intro x hx
        rw [List.mem_range'_1]
        rcases List.mem_cons.mp hx with rfl | hx
        · constructor <;> omega
        · have := hsub x hx; constructor <;> omega
      have := List.Nodup.length_le_of_subset hnd hrange  -- needs: subset of a list => length bound
      simpa using this
    omega
  refine ⟨⟨?_, ?_, ?_, ?_, ?_, h6⟩, ?_, ?_, hcnt⟩
  · show (l.slots.set off l.freeHead).length = brMaxCnt
    simpa using h1
  · exact List.nodup_cons.mpr ⟨a2, h2⟩
  · show freeChain l.base (l.slots.set off l.freeHead) (slotAddr l.base off) (off :: l.free)
    unfold freeChain
    refine ⟨rfl, a1, ?_⟩
    rw [getD_set_eq _ _ _ _ (by rw [h1]; exact a1)]
    exact (freeChain_set _ _ _ _ _ _ a2).mpr h3
  · intro o ho
    rw [hbl]
    rcases List.mem_cons.mp ho with rfl | ho
    · exact habove
    · exact h4 o ho
  · show bumpLeft l + (off :: l.free).length + (l.cnt - 1) = brMaxCnt
    simp only [List.length_cons]; omega
  · rw [Bool.eq_false_iff]
    intro hx
    have := ((allocated_iff _ _).mp hx).2.1
    exact this (List.mem_cons_self ..)
  · intro o ho
    cases hb : l.bump with
    | none => simp [Leaf.allocated, leafRemove, hb, ho]
    | some b => simp [Leaf.allocated, leafRemove, hb, ho]

theorem chain_head_zero (base : Nat) (slots : List Nat) (fr : List Nat) (h : freeChain base slots 0 fr) : fr = [] := by
  cases fr with
  | nil => rfl
  | cons o rest =>
    unfold freeChain at h
    exact absurd h.1.symm (slotAddr_pos base o)

/-- allocation from a leaf that has room: the slot was not handed out, now it is, nothing else changes -/
theorem leafPick_ok (l : Leaf) (h : leafOK l) (hc : l.cnt < brMaxCnt) :
    ∃ off l', leafPick l = some (off, l', true) ∧ off < brMaxCnt ∧ l.allocated off = false ∧
      leafOK { l' with cnt := l.cnt + 1 } ∧ ({ l' with cnt := l.cnt + 1 } : Leaf).allocated off = true ∧
      (∀ o, o ≠ off → ({ l' with cnt := l.cnt + 1 } : Leaf).allocated o = l.allocated o) ∧
      l'.base = l.base ∧ l'.added = l.added ∧ l'.slots = l.slots := by
  obtain ⟨h1, h2, h3, h4, h5, h6⟩ := h
  by_cases hf : l.freeHead ≠ 0
  · -- from the free list
    cases hfr : l.free with
    | nil =>
      rw [hfr] at h3; unfold freeChain at h3; exact absurd h3 hf
    | cons o rest =>
      rw [hfr] at h3 h2 h4 h5
      unfold freeChain at h3
      obtain ⟨c1, c2, c3⟩ := h3
      have hoff : slotOff l.base l.freeHead = o := by rw [c1]; exact slotOff_slotAddr _ _
      have hnd := List.nodup_cons.mp h2
      let l' : Leaf := { l with freeHead := l.slots.getD o 0, free := rest }
      have hpick : leafPick l = some (o, l', true) := by
        unfold leafPick
        rw [if_pos hf]
        simp only [hoff, hfr, List.drop_succ_cons, List.drop_zero]
        have : (decide (slotAddr l.base o = l.freeHead) && decide (o < brMaxCnt)) = true := by simp [c1, c2]
        rw [this]
      have hbl : bumpLeft ({ l' with cnt := l.cnt + 1 } : Leaf) = bumpLeft l := rfl
      refine ⟨o, l', hpick, c2, ?_, ?_, ?_, ?_, rfl, rfl, rfl⟩
      · rw [Bool.eq_false_iff]; intro hx
        have := ((allocated_iff _ _).mp hx).2.1
        rw [hfr] at this; exact this (List.mem_cons_self ..)
      · refine ⟨h1, hnd.2, c3, ?_, ?_, h6⟩
        · intro x hx
          rw [hbl]
          exact h4 x (List.mem_cons_of_mem _ hx)
        · show bumpLeft l + rest.length + (l.cnt + 1) = brMaxCnt
          simp only [List.length_cons] at h5
          omega
      · rw [allocated_iff]
        refine ⟨c2, hnd.1, fun b hb => ?_⟩
        have := h4 o (List.mem_cons_self ..)
        unfold bumpLeft at this
        have hb' : l.bump = some b := hb
        rw [hb'] at this
        simp only [] at this
        omega
      · intro x hx
        have e : (x ∈ rest) = (x ∈ l.free) := by
          rw [hfr]; simp [hx]
        cases hb : l.bump with
        | none => simp [Leaf.allocated, l', hb, hfr, hx]
        | some b => simp [Leaf.allocated, l', hb, hfr, hx]
  · -- from the bump pointer
    have hf0 : l.freeHead = 0 := by simpa using hf
    have hfr : l.free = [] := chain_head_zero _ _ _ (by rw [← hf0]; exact h3)
    rw [hfr] at h5
    simp only [List.length_nil] at h5
    cases hb : l.bump with
    | none =>
      exfalso; unfold bumpLeft at h5; rw [hb] at h5; simp only [] at h5; omega
    | some b =>
      rw [hb] at h6
      simp only [] at h6
      have hbl : bumpLeft l = (b + 1).toNat := by unfold bumpLeft; rw [hb]
      rw [hbl] at h5
      have hb0 : 0 ≤ b := by omega
      let nb : Option Int := if l.cnt = brMaxCnt - 1 then none else some (b - 1)
      let l' : Leaf := { l with bump := nb }
      have hpick : leafPick l = some (b.toNat, l', true) := by
        unfold leafPick
        rw [if_neg hf, if_pos hc, hb]
        simp only [hb0, decide_true]
        rfl
      have hbl' : bumpLeft ({ l' with cnt := l.cnt + 1 } : Leaf) = (b + 1).toNat - 1 := by
        show (match nb with | some b => (b + 1).toNat | none => 0) = _
        by_cases hl : l.cnt = brMaxCnt - 1
        · simp only [nb, hl, if_true]; omega
        · simp only [nb, hl, if_false]; omega
      refine ⟨b.toNat, l', hpick, by omega, ?_, ?_, ?_, ?_, rfl, rfl, rfl⟩
      · rw [Bool.eq_false_iff]; intro hx
        have := ((allocated_iff _ _).mp hx).2.2 b hb
        omega
      · refine ⟨h1, h2, h3, ?_, ?_, ?_⟩
        · intro x hx
          have : x ∈ l.free := hx
          rw [hfr] at this; cases this
        · show bumpLeft ({ l' with cnt := l.cnt + 1 } : Leaf) + l.free.length + (l.cnt + 1) = brMaxCnt
          rw [hbl', hfr]; simp only [List.length_nil]; omega
        · show (match nb with | some b => -1 ≤ b ∧ b < brMaxCnt | none => True)
          by_cases hl : l.cnt = brMaxCnt - 1
          · simp only [nb, hl, if_true]
          · simp only [nb, hl, if_false]; omega
      · rw [allocated_iff]
        refine ⟨by omega, by show b.toNat ∉ l.free; rw [hfr]; simp, fun b' hb' => ?_⟩
        have hb'' : nb = some b' := hb'
        by_cases hl : l.cnt = brMaxCnt - 1
        · simp only [nb, hl, if_true] at hb''; cases hb''
        · simp only [nb, hl, if_false, Option.some.injEq] at hb''; omega
      · intro x hx
        have hxb : (x : Int) ≠ b := by omega
        show (decide (x < brMaxCnt) && !l.free.contains x && (match nb with | some b => decide ((x : Int) > b) | none => true)) =
             (decide (x < brMaxCnt) && !l.free.contains x && (match l.bump with | some b => decide ((x : Int) > b) | none => true))
        rw [hb]
        by_cases hl : l.cnt = brMaxCnt - 1
        · have hb00 : b = 0 := by omega
          have : decide ((x : Int) > b) = true := by rw [hb00]; simp; omega
          simp only [nb, hl, if_true, this]
        · have : decide ((x : Int) > b - 1) = decide ((x : Int) > b) := by
            simp only [decide_eq_decide]; omega
          simp only [nb, hl, if_false, this]

end TbbVerif.C17.BR
