/-
C17 back end — new regions (`addNewRegion`, `startUseBlock`, `findBlockInRegion`) and `reset` keep the invariant.
-/
import TbbVerif.Proofs.C17.BeGet

namespace TbbVerif.C17.BE
open TbbVerif.Generated.C17Backend

theorem alignUpN_ge (x a : Nat) (ha : 0 < a) : x ≤ alignUpN x a ∧ alignUpN x a % a = 0 := by
  unfold alignUpN
  have h := Nat.div_add_mod (x + (a - 1)) a
  have hr := Nat.mod_lt (x + (a - 1)) ha
  rw [Nat.mul_comm] at h
  exact ⟨by omega, Nat.mul_mod_left _ _⟩

theorem alignDownN_le (x a : Nat) : alignDownN x a ≤ x ∧ alignDownN x a % a = 0 := by
  unfold alignDownN
  exact ⟨Nat.div_mul_le_self x a, Nat.mul_mod_left _ _⟩

theorem sizeToBin_toNat (s : Nat) (h : beMinBinnedSize ≤ s) : ((sizeToBin s).toNat : Int) = sizeToBin s := by
  have h0 : 0 ≤ sizeToBin s := by
    unfold sizeToBin
    by_cases c1 : s ≥ beMaxBinnedHugePage
    · rw [if_pos c1]; simp [beHugeBin]
    · rw [if_neg c1, if_neg (by omega)]; exact Int.natCast_nonneg _
  omega

/-- what `findBlockInRegion` guarantees -/
theorem findBlockInRegion_spec (base allocSz type exact fb blockSz : Nat)
    (h : findBlockInRegion base allocSz type exact = some (fb, blockSz)) :
    base + beSizeofMemRegion ≤ fb ∧ fb + blockSz + beSizeofLastFreeBlock ≤ base + allocSz ∧ fb % 8 = 0 ∧
    beNumOfSlabAllocOnMiss * beSlabSize ≤ blockSz ∧ (type = beRegSlab → (fb + blockSz) % beSlabSize = 0) := by
  unfold findBlockInRegion at h
  simp only [] at h
  by_cases c0 : allocSz < beSizeofLastFreeBlock
  · rw [if_pos c0] at h; cases h
  · rw [if_neg c0] at h
    by_cases ht : type = beRegSlab
    · simp only [ht, if_true] at h
      by_cases c1 : alignDownN (base + allocSz - beSizeofLastFreeBlock) beSlabSize ≤ alignUpN (base + beSizeofMemRegion) 8
      · rw [if_pos c1] at h; cases h
      · rw [if_neg c1] at h
        by_cases c2 : alignDownN (base + allocSz - beSizeofLastFreeBlock) beSlabSize - alignUpN (base + beSizeofMemRegion) 8 < beNumOfSlabAllocOnMiss * beSlabSize
        · rw [if_pos c2] at h; cases h
        · rw [if_neg c2, if_neg (by simp)] at h
          simp only [Option.some.injEq, Prod.mk.injEq] at h
          obtain ⟨rfl, rfl⟩ := h
          obtain ⟨a1, a2⟩ := alignUpN_ge (base + beSizeofMemRegion) 8 (by omega)
          obtain ⟨b1, b2⟩ := alignDownN_le (base + allocSz - beSizeofLastFreeBlock) beSlabSize
          refine ⟨a1, by omega, a2, by omega, fun _ => ?_⟩
          have : alignUpN (base + beSizeofMemRegion) 8 + (alignDownN (base + allocSz - beSizeofLastFreeBlock) beSlabSize - alignUpN (base + beSizeofMemRegion) 8)
              = alignDownN (base + allocSz - beSizeofLastFreeBlock) beSlabSize := by omega
          rw [this]; exact b2
    · simp only [ht, if_false] at h
      by_cases c1 : alignUpN (base + beSizeofMemRegion) beLargeObjectAlignment + exact ≤ alignUpN (base + beSizeofMemRegion) beLargeObjectAlignment
      · rw [if_pos c1] at h; cases h
      · rw [if_neg c1] at h
        by_cases c2 : alignUpN (base + beSizeofMemRegion) beLargeObjectAlignment + exact - alignUpN (base + beSizeofMemRegion) beLargeObjectAlignment < beNumOfSlabAllocOnMiss * beSlabSize
        · rw [if_pos c2] at h; cases h
        · rw [if_neg c2] at h
          by_cases c3 : ¬ False ∧ alignUpN (base + beSizeofMemRegion) beLargeObjectAlignment + exact > base + allocSz - beSizeofLastFreeBlock
          · simp only [ne_eq, ht, not_false_eq_true, true_and] at h
            rw [if_pos c3.2] at h; cases h
          · simp only [ne_eq, ht, not_false_eq_true, true_and] at h
            rw [if_neg (fun hx => c3 ⟨fun f => f, hx⟩)] at h
            simp only [Option.some.injEq, Prod.mk.injEq] at h
            obtain ⟨rfl, rfl⟩ := h
            obtain ⟨a1, a2⟩ := alignUpN_ge (base + beSizeofMemRegion) beLargeObjectAlignment (by simp [beLargeObjectAlignment])
            have c3' : ¬ (alignUpN (base + beSizeofMemRegion) beLargeObjectAlignment + exact > base + allocSz - beSizeofLastFreeBlock) :=
              fun hx => c3 ⟨fun f => f, hx⟩
            refine ⟨a1, by omega, ?_, by omega, fun hx => absurd hx ht⟩
            have a2' : alignUpN (base + beSizeofMemRegion) beLargeObjectAlignment % 64 = 0 := a2
            omega

/-- asking again with the block size found gives the same block -/
theorem findBlockInRegion_idem (base allocSz type exact fb blockSz : Nat)
    (h : findBlockInRegion base allocSz type exact = some (fb, blockSz)) :
    findBlockInRegion base allocSz type blockSz = some (fb, blockSz) := by
  by_cases ht : type = beRegSlab
  · -- the block of a slab region does not depend on the size asked for
    unfold findBlockInRegion at h ⊢
    simp only [ht, if_true] at h ⊢
    exact h
  · have hb : blockSz = exact := by
      unfold findBlockInRegion at h
      simp only [ht, if_false] at h
      by_cases c0 : allocSz < beSizeofLastFreeBlock
      · rw [if_pos c0] at h; cases h
      · rw [if_neg c0] at h
        by_cases c1 : alignUpN (base + beSizeofMemRegion) beLargeObjectAlignment + exact ≤ alignUpN (base + beSizeofMemRegion) beLargeObjectAlignment
        · rw [if_pos c1] at h; cases h
        · rw [if_neg c1] at h
          by_cases c2 : alignUpN (base + beSizeofMemRegion) beLargeObjectAlignment + exact - alignUpN (base + beSizeofMemRegion) beLargeObjectAlignment < beNumOfSlabAllocOnMiss * beSlabSize
          · rw [if_pos c2] at h; cases h
          · rw [if_neg c2] at h
            split at h
            · cases h
            · simp only [Option.some.injEq, Prod.mk.injEq] at h
              omega
    subst hb; exact h

theorem regionsOverlap_false (rs : List Region) (addr size : Nat) (h : regionsOverlap rs addr size = false) (r : Region) (hr : r ∈ rs) :
    addr + size ≤ r.base ∨ r.base + r.allocSz ≤ addr := by
  unfold regionsOverlap at h
  rw [List.any_eq_false] at h
  have := h r hr
  simp only [Bool.and_eq_true, decide_eq_true_eq, not_and, Nat.not_lt] at this
  by_cases h1 : addr < r.base + r.allocSz
  · exact Or.inl (this h1)
  · exact Or.inr (by omega)

/-- the two blocks of a fresh region form a correct tiling -/
theorem freshBlocks_chain (cfg : Cfg) (type fb blockSz : Nat) (addToBin : Bool)
    (h1 : beNumOfSlabAllocOnMiss * beSlabSize ≤ blockSz) (h2 : type = beRegSlab → (fb + blockSz) % beSlabSize = 0) :
    chainOK cfg type (fb + blockSz + beSizeofLastFreeBlock) fb gsLocked (freshBlocks blockSz type addToBin) := by
  have hbig : beMinBinnedSize ≤ blockSz ∧ beMinBlockSize ≤ blockSz := by
    simp only [beNumOfSlabAllocOnMiss, beSlabSize, beMinBinnedSize, beMinBlockSize] at *; omega
  have hlast : ∀ l : Nat, chainOK cfg type (fb + blockSz + beSizeofLastFreeBlock) (fb + blockSz) l
      [{ size := beSizeofLastFreeBlock, own := .last, myL := gsLastRegionBlock, leftL := l }] := by
    intro l
    unfold chainOK
    refine ⟨rfl, ⟨?_, rfl⟩, ⟨fun _ => rfl, fun _ => rfl⟩, ?_⟩
    · unfold blkOK
      refine ⟨?_, ⟨rfl, rfl⟩, ?_⟩
      · intro hx; cases hx
      · intro _ _ hx; exact absurd rfl hx
    · unfold chainOK
      rfl
  unfold freshBlocks
  cases addToBin with
  | true =>
    simp only [if_true]
    unfold chainOK
    refine ⟨rfl, ⟨?_, rfl⟩, (by constructor <;> (intro hx; cases hx)), hlast blockSz⟩
    refine (blkOK_free cfg type fb _ rfl).mpr ⟨rfl, ⟨rfl, hbig.2, Or.inr ⟨sizeToBin_toNat _ hbig.1, hbig.1⟩, ?_⟩, ?_⟩
    · cases hf : cfg.fixedPool with
      | true =>
        simp only [if_true]
        intro _ hal
        simp only [decide_eq_true_eq] at hal
        exact h2 hal
      | false => simp
    · intro _ hs; exact h2 hs
  | false =>
    simp only [Bool.false_eq_true, if_false]
    unfold chainOK
    refine ⟨rfl, ⟨?_, rfl⟩, (by constructor <;> (intro hx; cases hx)), hlast gsLocked⟩
    have hl0 : gsLocked ≤ gsMaxLockedVal := by decide
    let b0 : Blk := { size := blockSz, own := .held, myL := gsLocked, leftL := gsLocked, sizeTmp := blockSz, myBin := -1, aligned := decide (type = beRegSlab), inBin := false }
    have hb : blkOK cfg type fb b0 := by
      rw [blkOK_held _ _ _ _ rfl]
      exact ⟨⟨hl0, hbig.2, fun _ => rfl⟩, fun _ hs => h2 hs⟩
    exact hb

theorem entriesOf_fresh (fb blockSz type : Nat) (addToBin : Bool) (h : beMinBinnedSize ≤ blockSz) :
    entriesOf fb (freshBlocks blockSz type addToBin) =
      (if addToBin then [⟨decide (type = beRegSlab), (sizeToBin blockSz).toNat, fb⟩] else []) ∧
    queuedOf fb (freshBlocks blockSz type addToBin) = [] := by
  have hne : sizeToBin blockSz ≠ -1 := fun hn => by have := (sizeToBin_neg blockSz).mp hn; omega
  unfold freshBlocks
  cases addToBin with
  | true =>
    simp only [if_true, entriesOf, queuedOf, entryOf, hasEntry, sizeToBin_toNat _ h]
    simp [hne]
  | false =>
    simp [entriesOf, queuedOf, entryOf, hasEntry]

/-- `addNewRegion` keeps the invariant -/
theorem addNewRegion_wf (s : St) (size type : Nat) (addToBin : Bool) (raw : Option (Nat × Nat)) (hw : WF s)
    (ht : type = beRegSlab ∨ type = beRegLarge ∨ type = beRegOne) : WF (addNewRegion s size type addToBin raw).1 := by
  unfold addNewRegion
  split
  · exact hw
  · simp only []
    cases raw with
    | none => exact wf_congr s.g _ s.regions hw rfl rfl rfl rfl rfl
    | some p =>
      obtain ⟨addr, granted⟩ := p
      simp only []
      have hw1 : WF ⟨{ s.g with log := s.g.log ++ [s!"[P {rawRequest s.g size type} {addr}]"] }, s.regions⟩ :=
        wf_congr s.g _ s.regions hw rfl rfl rfl rfl rfl
      split
      · exact hw1
      · rename_i hchk
        simp only [not_or, Decidable.not_not, Bool.not_eq_true] at hchk
        obtain ⟨_, _, hov, _, _⟩ := hchk
        cases hf : findBlockInRegion addr granted type size with
        | none => exact hw1
        | some q =>
          obtain ⟨fb, blockSz⟩ := q
          simp only []
          obtain ⟨f1, f2, f3, f4, f5⟩ := findBlockInRegion_spec _ _ _ _ _ _ hf
          have hbig : beMinBinnedSize ≤ blockSz := by
            simp only [beNumOfSlabAllocOnMiss, beSlabSize, beMinBinnedSize] at *; omega
          obtain ⟨e1, e2⟩ := entriesOf_fresh fb blockSz type addToBin hbig
          let r : Region := { base := addr, allocSz := granted, blockSz := blockSz, type := type, first := fb, blocks := freshBlocks blockSz type addToBin }
          have hreg : regOK s.g.cfg r := by
            refine ⟨?_, f1, f2, f3, ht, freshBlocks_chain _ _ _ _ _ f4 f5, findBlockInRegion_idem _ _ _ _ _ _ hf⟩
            show freshBlocks blockSz type addToBin ≠ []
            unfold freshBlocks; simp
          have hdis : ∀ x ∈ s.regions, regionsDisjoint r x := by
            intro x hx
            have := regionsOverlap_false _ _ _ (by simpa using hov) x hx
            unfold regionsDisjoint
            exact this
          cases addToBin with
          | true =>
            simp only [if_true]
            obtain ⟨a1, a2, a3, a4, a5, _, _⟩ := binAdd_spec { s.g with log := s.g.log ++ [s!"[P {rawRequest s.g size type} {addr}]"], mods := s.g.mods + 1 } fb (decide (type = beRegSlab)) (sizeToBin blockSz).toNat false _ hw.bins hw.mask
            refine ⟨?_, ?_, ?_, ?_, ?_, ?_⟩
            · exact hw.not_bad
            · intro x hx
              rcases List.mem_cons.mp hx with rfl | hx
              · exact hreg
              · exact hw.regs x hx
            · exact List.Pairwise.cons hdis hw.disjoint
            · show (Glob.binAdd _ fb (decide (type = beRegSlab)) (sizeToBin blockSz).toNat false).bins.Perm (allEntries (r :: s.regions))
              unfold allEntries
              simp only [List.flatMap_cons]
              show List.Perm _ (entriesOf fb (freshBlocks blockSz type true) ++ _)
              rw [e1]
              simpa [allEntries] using a1
            · exact a2
            · show s.g.queue.Perm (allQueued (r :: s.regions))
              unfold allQueued
              simp only [List.flatMap_cons]
              show List.Perm _ (queuedOf fb (freshBlocks blockSz type true) ++ _)
              rw [e2]
              exact hw.queue
          | false =>
            simp only [Bool.false_eq_true, if_false]
            refine ⟨hw.not_bad, ?_, List.Pairwise.cons hdis hw.disjoint, ?_, hw.mask, ?_⟩
            · intro x hx
              rcases List.mem_cons.mp hx with rfl | hx
              · exact hreg
              · exact hw.regs x hx
            · show s.g.bins.Perm (allEntries (r :: s.regions))
              unfold allEntries
              simp only [List.flatMap_cons]
              show List.Perm _ (entriesOf fb (freshBlocks blockSz type false) ++ _)
              rw [e1]
              exact hw.bins
            · show s.g.queue.Perm (allQueued (r :: s.regions))
              unfold allQueued
              simp only [List.flatMap_cons]
              show List.Perm _ (queuedOf fb (freshBlocks blockSz type false) ++ _)
              rw [e2]
              exact hw.queue

end TbbVerif.C17.BE
