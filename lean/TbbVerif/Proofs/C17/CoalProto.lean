/-
C17 — the guarded-size locking protocol (`Model/C17Coal.lean`), all schedules, any number of contenders:
each tag word has at most one holder, a word nobody holds carries the block's size, hence at most one contender
ever holds both words.
-/
import TbbVerif.Model.C17Coal

namespace TbbVerif.C17.Coal
open TbbVerif.Generated.C17Backend

/-- thread `t` holds word `w` (`true` = `myL`, `false` = the right neighbour's `leftL`) -/
def holdsW (w : Bool) (t : Th) : Bool := if t.kind.firstIsMy == w then t.pc.holdsFirst else t.pc.isWon

theorem holdsMy_eq (t : Th) : t.holdsMy = holdsW true t := by
  unfold Th.holdsMy holdsW; cases t.kind.firstIsMy <;> simp
theorem holdsLf_eq (t : Th) : t.holdsLf = holdsW false t := by
  unfold Th.holdsLf holdsW; cases t.kind.firstIsMy <;> simp

theorem word_setWord (s : St) (a b : Bool) (v : Nat) : (s.setWord a v).word b = if a = b then v else s.word b := by
  unfold St.setWord St.word; cases a <;> cases b <;> simp
theorem ths_setWord (s : St) (a : Bool) (v : Nat) : (s.setWord a v).ths = s.ths := by
  unfold St.setWord; cases a <;> simp

theorem mark_le (k : Kind) : k.mark ≤ gsMaxLockedVal := by cases k <;> decide

/-- the value a thread remembers for its first word -/
def Pc.remembered : Pc → Option Nat
  | .mid v => some v | .second v _ => some v | .rollback v => some v | _ => none

structure Inv (sz : Nat) (s : St) : Prop where
  /-- a word is locked and has exactly one holder, or carries the size and has none -/
  w : ∀ b : Bool, (s.word b ≤ gsMaxLockedVal ∧ s.ths.countP (holdsW b) = 1) ∨ (s.word b = sz ∧ s.ths.countP (holdsW b) = 0)
  /-- what a thread will write back when it rolls back is the size -/
  v1 : ∀ t ∈ s.ths, ∀ v, t.pc.remembered = some v → v = sz

theorem count_upd (ths : List Th) (tid : Nat) (t t' : Th) (h : ths[tid]? = some t) (p : Th → Bool) :
    (ths.set tid t').countP p = ths.countP p - (if p t = true then 1 else 0) + (if p t' = true then 1 else 0) := by
  obtain ⟨hlt, hget⟩ := List.getElem?_eq_some_iff.mp h
  rw [List.countP_set hlt, hget]

theorem count_pos (ths : List Th) (tid : Nat) (t : Th) (h : ths[tid]? = some t) (p : Th → Bool) (hp : p t = true) : 1 ≤ ths.countP p := by
  have : t ∈ ths := List.mem_of_getElem? h
  exact List.countP_pos_iff.mpr ⟨t, this, hp⟩

theorem mem_upd (ths : List Th) (tid : Nat) (t' x : Th) (hx : x ∈ ths.set tid t') : x = t' ∨ x ∈ ths := by
  rcases List.mem_or_eq_of_mem_set hx with h | h
  · exact Or.inr h
  · exact Or.inl h

/-- a step that only moves the thread between program counters with the same holdings and no new remembered value -/
theorem inv_move (sz : Nat) (s : St) (tid : Nat) (t : Th) (pc' : Pc) (h : s.ths[tid]? = some t) (hi : Inv sz s)
    (hh : ∀ b, holdsW b { t with pc := pc' } = holdsW b t)
    (hr : ∀ v, pc'.remembered = some v → t.pc.remembered = some v) :
    Inv sz { s with ths := s.ths.set tid { t with pc := pc' } } := by
  refine ⟨fun b => ?_, fun x hx v hv => ?_⟩
  · have := hi.w b
    show (s.word b ≤ _ ∧ (s.ths.set tid _).countP _ = 1) ∨ (s.word b = sz ∧ (s.ths.set tid _).countP _ = 0)
    rw [count_upd _ _ _ _ h, hh b]
    by_cases c : holdsW b t = true
    · have hp := count_pos s.ths tid t h (holdsW b) c
      rw [if_pos c]
      rcases this with ⟨a1, a2⟩ | ⟨a1, a2⟩
      · exact Or.inl ⟨a1, by omega⟩
      · omega
    · rw [if_neg c]
      rcases this with ⟨a1, a2⟩ | ⟨a1, a2⟩
      · exact Or.inl ⟨a1, by omega⟩
      · exact Or.inr ⟨a1, by omega⟩
  · rcases mem_upd _ _ _ _ hx with rfl | hx
    · exact hi.v1 t (List.mem_of_getElem? h) v (hr v hv)
    · exact hi.v1 x hx v hv

theorem step_inv (sz : Nat) (hsz : gsMaxLockedVal < sz) (s : St) (tid : Tid) (hi : Inv sz s) : Inv sz (step s tid) := by
  unfold step
  cases h : s.ths[tid]? with
  | none => exact hi
  | some t =>
    simp only []
    have hmem : t ∈ s.ths := List.mem_of_getElem? h
    cases hpc : t.pc with
    | start =>
      simp only []
      exact inv_move sz s tid t _ h hi (by intro b; simp [holdsW, hpc, Pc.holdsFirst, Pc.isWon]) (by intro v hv; cases hv)
    | won => exact hi
    | lost => exact hi
    | mid v1 =>
      simp only []
      exact inv_move sz s tid t _ h hi (by intro b; simp [holdsW, hpc, Pc.holdsFirst, Pc.isWon]) (by intro v hv; rw [hpc]; exact hv)
    | first c =>
      simp only []
      split
      · exact inv_move sz s tid t _ h hi (by intro b; simp [holdsW, hpc, Pc.holdsFirst, Pc.isWon]) (by intro v hv; cases hv)
      · rename_i hc
        split
        · -- CAS on the first word succeeded
          rename_i hw
          have hfree := hi.w t.kind.firstIsMy
          rw [hw] at hfree
          rcases hfree with ⟨h1, _⟩ | ⟨h1, h0⟩
          · exact absurd h1 hc
          · refine ⟨fun b => ?_, fun x hx v hv => ?_⟩
            · show ((s.setWord _ _).word b ≤ _ ∧ ((s.setWord _ _).ths.set tid _).countP _ = 1) ∨ ((s.setWord _ _).word b = sz ∧ ((s.setWord _ _).ths.set tid _).countP _ = 0)
              rw [word_setWord, ths_setWord, count_upd _ _ _ _ h]
              by_cases hb : t.kind.firstIsMy = b
              · subst hb
                simp only [if_true, holdsW, hpc, beq_self_eq_true, Pc.holdsFirst, Pc.isWon, Bool.false_eq_true, if_false]
                left
                refine ⟨mark_le _, ?_⟩
                have : s.ths.countP (holdsW t.kind.firstIsMy) = 0 := h0
                omega
              · have hb' : (t.kind.firstIsMy == b) = false := by simpa using hb
                simp only [hb, if_false, holdsW, hpc, hb', Bool.false_eq_true, Pc.isWon]
                have := hi.w b
                omega
            · rw [ths_setWord] at hx
              rcases mem_upd _ _ _ _ hx with rfl | hx
              · simp only [Pc.remembered, Option.some.injEq] at hv
                omega
              · exact hi.v1 x hx v hv
        · exact inv_move sz s tid t _ h hi (by intro b; simp [holdsW, hpc, Pc.holdsFirst, Pc.isWon]) (by intro v hv; cases hv)
    | second v1 c =>
      simp only []
      have hv1 : v1 = sz := hi.v1 t hmem v1 (by rw [hpc]; rfl)
      split
      · exact inv_move sz s tid t _ h hi (by intro b; simp [holdsW, hpc, Pc.holdsFirst, Pc.isWon]) (by intro v hv; rw [hpc]; exact hv)
      · rename_i hc
        split
        · -- CAS on the second word succeeded: the thread holds both now
          rename_i hw
          have hfree := hi.w (!t.kind.firstIsMy)
          rw [hw] at hfree
          rcases hfree with ⟨h1, _⟩ | ⟨h1, h0⟩
          · exact absurd h1 hc
          · refine ⟨fun b => ?_, fun x hx v hv => ?_⟩
            · show ((s.setWord _ _).word b ≤ _ ∧ ((s.setWord _ _).ths.set tid _).countP _ = 1) ∨ ((s.setWord _ _).word b = sz ∧ ((s.setWord _ _).ths.set tid _).countP _ = 0)
              rw [word_setWord, ths_setWord, count_upd _ _ _ _ h]
              by_cases hb : (!t.kind.firstIsMy) = b
              · have hb' : (t.kind.firstIsMy == b) = false := by rw [← hb]; cases t.kind.firstIsMy <;> rfl
                simp only [hb, if_true, holdsW, hpc, hb', Bool.false_eq_true, if_false, Pc.isWon]
                left
                refine ⟨mark_le _, ?_⟩
                have : s.ths.countP (holdsW b) = 0 := by rw [← hb]; exact h0
                omega
              · have hb' : (t.kind.firstIsMy == b) = true := by
                  cases hf : t.kind.firstIsMy <;> cases b <;> simp_all
                simp only [hb, if_false, holdsW, hpc, hb', if_true, Pc.holdsFirst, Pc.isWon]
                have := hi.w b
                have hp := count_pos s.ths tid t h (holdsW b) (by simp [holdsW, hb', hpc, Pc.holdsFirst, Pc.isWon])
                omega
            · rw [ths_setWord] at hx
              rcases mem_upd _ _ _ _ hx with rfl | hx
              · cases hv
              · exact hi.v1 x hx v hv
        · exact inv_move sz s tid t _ h hi (by intro b; simp [holdsW, hpc, Pc.holdsFirst, Pc.isWon]) (by intro v hv; rw [hpc]; exact hv)
    | rollback v1 =>
      simp only []
      have hv1 : v1 = sz := hi.v1 t hmem v1 (by rw [hpc]; rfl)
      refine ⟨fun b => ?_, fun x hx v hv => ?_⟩
      · show ((s.setWord _ _).word b ≤ _ ∧ ((s.setWord _ _).ths.set tid _).countP _ = 1) ∨ ((s.setWord _ _).word b = sz ∧ ((s.setWord _ _).ths.set tid _).countP _ = 0)
        rw [word_setWord, ths_setWord, count_upd _ _ _ _ h]
        by_cases hb : t.kind.firstIsMy = b
        · subst hb
          simp only [if_true, holdsW, hpc, beq_self_eq_true, Pc.holdsFirst, Pc.isWon, Bool.false_eq_true, if_false]
          right
          refine ⟨hv1, ?_⟩
          have := hi.w t.kind.firstIsMy
          have hp := count_pos s.ths tid t h (holdsW t.kind.firstIsMy) (by simp [holdsW, hpc, Pc.holdsFirst, Pc.isWon])
          omega
        · have hb' : (t.kind.firstIsMy == b) = false := by simpa using hb
          simp only [hb, if_false, holdsW, hpc, hb', Bool.false_eq_true, Pc.isWon]
          have := hi.w b
          omega
      · rw [ths_setWord] at hx
        rcases mem_upd _ _ _ _ hx with rfl | hx
        · cases hv
        · exact hi.v1 x hx v hv

theorem init_inv (sz : Nat) (kinds : List Kind) : Inv sz (sys sz kinds).init := by
  have hc : ∀ b, ((kinds.map (fun k => (⟨k, .start⟩ : Th))).countP (holdsW b)) = 0 := by
    intro b
    rw [List.countP_eq_zero]
    intro t ht
    obtain ⟨k, _, rfl⟩ := List.mem_map.mp ht
    simp [holdsW, Pc.holdsFirst, Pc.isWon]
  refine ⟨fun b => Or.inr ⟨by cases b <;> rfl, hc b⟩, fun t ht v hv => ?_⟩
  obtain ⟨k, _, rfl⟩ := List.mem_map.mp ht
  cases hv

theorem inv_run (sz : Nat) (hsz : gsMaxLockedVal < sz) (kinds : List Kind) (sched : List Tid) : Inv sz ((sys sz kinds).run sched) :=
  (sys sz kinds).inv_run (Inv sz) (init_inv sz kinds) (fun s t h => step_inv sz hsz s t h) sched

end TbbVerif.C17.Coal
