/-
C17 back-reference table — the whole table: every operation keeps all leaves well formed and never raises `bad`;
`newBackRef` returns an index that was not live, live indices stay live and keep their pointers; `getBackRef` stays
inside the table for every bit pattern.
-/
import TbbVerif.Proofs.C17.BrLeaf

namespace TbbVerif.C17.BR
open TbbVerif.Generated.C17Backend

/-- the part of the table invariant that the safety properties need -/
def leavesOK (t : Tab) : Prop := t.bad = false ∧ ∀ l ∈ t.leaves, leafOK l

theorem leafOK_added (l : Leaf) (x : Bool) : leafOK { l with added := x } ↔ leafOK l := Iff.rfl

theorem allocated_added (l : Leaf) (x : Bool) (o : Nat) : ({ l with added := x } : Leaf).allocated o = l.allocated o := rfl

theorem emptyLeaf_ok (a : Nat) : leafOK (emptyLeaf a) := by
  refine ⟨?_, ?_, ?_, ?_, ?_, ?_⟩
  · show (List.replicate brMaxCnt 0).length = brMaxCnt
    simp
  · exact List.nodup_nil
  · show freeChain a _ 0 []
    unfold freeChain; rfl
  · intro o ho; cases ho
  · show ((brMaxCnt : Int) - 1 + 1).toNat + 0 + 0 = brMaxCnt
    omega
  · show (-1 ≤ (brMaxCnt : Int) - 1 ∧ (brMaxCnt : Int) - 1 < brMaxCnt)
    omega

theorem emptyLeaf_not_alloc (a o : Nat) : (emptyLeaf a).allocated o = false := by
  unfold Leaf.allocated emptyLeaf
  simp only [List.contains_nil, Bool.not_false, Bool.and_true, Bool.and_eq_false_imp, decide_eq_true_eq, decide_eq_false_iff_not]
  intro h; omega

theorem mem_set_leaf (ls : List Leaf) (n : Nat) (x y : Leaf) (h : y ∈ ls.set n x) : y = x ∨ y ∈ ls := by
  rcases List.mem_or_eq_of_mem_set h with h | h
  · exact Or.inr h
  · exact Or.inl h

/-- liveness only looks at the slots-related fields of the leaf at `i.main` -/
theorem live_set_other (t : Tab) (n : Nat) (x : Leaf) (i : Idx) (h : i.main ≠ n) :
    ({ t with leaves := t.leaves.set n x } : Tab).live i = t.live i := by
  unfold Tab.live
  simp only [List.getElem?_set, Ne.symm h, if_false]

theorem live_set_same (t : Tab) (n : Nat) (x : Leaf) (i : Idx) (h : i.main = n) (hn : n < t.leaves.length) :
    ({ t with leaves := t.leaves.set n x } : Tab).live i = x.allocated i.off := by
  unfold Tab.live
  simp only [List.getElem?_set, h, if_true, hn]

theorem addToForUse_ok (t : Tab) (n : Nat) (h : leavesOK t) :
    leavesOK (addToForUse t n) ∧ (∀ i, (addToForUse t n).live i = t.live i) ∧ (addToForUse t n).leaves.length = t.leaves.length := by
  unfold addToForUse
  cases hl : t.leaves[n]? with
  | none => exact ⟨h, fun _ => rfl, rfl⟩
  | some l =>
    simp only []
    have hlt : n < t.leaves.length := (List.getElem?_eq_some_iff.mp hl).1
    refine ⟨⟨h.1, ?_⟩, ?_, by simp⟩
    · intro y hy
      rcases mem_set_leaf _ _ _ _ hy with rfl | hy
      · exact (leafOK_added l true).mpr (h.2 l (List.mem_of_getElem? hl))
      · exact h.2 y hy
    · intro i
      by_cases hi : i.main = n
      · show ({ t with leaves := t.leaves.set n _ } : Tab).live i = _
        rw [live_set_same _ _ _ _ hi hlt, allocated_added]
        unfold Tab.live; rw [hi, hl]
      · exact live_set_other _ _ _ _ hi

theorem addToForUse_ok' (t : Tab) (n : Nat) : (addToForUse t n).leaves.length = t.leaves.length := by
  unfold addToForUse
  cases hl : t.leaves[n]? with
  | none => rfl
  | some l => simp

theorem live_append (t : Tab) (a : Nat) (i : Idx) : ({ t with leaves := t.leaves ++ [emptyLeaf a] } : Tab).live i = t.live i := by
  unfold Tab.live
  by_cases h : i.main < t.leaves.length
  · simp only [List.getElem?_append_left h]
  · have h1 : t.leaves[i.main]? = none := List.getElem?_eq_none (by omega)
    rw [h1]
    cases h2 : (t.leaves ++ [emptyLeaf a])[i.main]? with
    | none => rfl
    | some x =>
      have : x = emptyLeaf a := by
        have hm := List.mem_of_getElem? h2
        rcases List.mem_append.mp hm with hm | hm
        · -- an element of the old list sits at an index beyond its length: impossible
          obtain ⟨hlt, _⟩ := List.getElem?_eq_some_iff.mp h2
          simp only [List.length_append, List.length_cons, List.length_nil] at hlt
          have hi : i.main = t.leaves.length := by omega
          rw [hi, List.getElem?_append_right (Nat.le_refl _)] at h2
          simp at h2; exact h2.symm
        · simpa using hm
      rw [this]; exact emptyLeaf_not_alloc _ _

theorem addLeaves_ok : ∀ (k : Nat) (t : Tab) (a : Nat), leavesOK t →
    leavesOK (addLeaves t k a) ∧ (∀ i, (addLeaves t k a).live i = t.live i) ∧ t.leaves.length ≤ (addLeaves t k a).leaves.length := by
  intro k
  induction k with
  | zero => intro t a h; exact ⟨h, fun _ => rfl, Nat.le_refl _⟩
  | succ k ih =>
    intro t a h
    unfold addLeaves
    simp only []
    have h1 : leavesOK ({ t with leaves := t.leaves ++ [emptyLeaf a] } : Tab) := by
      refine ⟨h.1, fun y hy => ?_⟩
      rcases List.mem_append.mp hy with hy | hy
      · exact h.2 y hy
      · have : y = emptyLeaf a := by simpa using hy
        rw [this]; exact emptyLeaf_ok a
    have hlen : t.leaves.length ≤ (t.leaves ++ [emptyLeaf a]).length := by simp
    have key : ∀ c : Bool, (fun T : Tab => leavesOK (addLeaves T k (a + brBlockBytes)) ∧
        (∀ i, (addLeaves T k (a + brBlockBytes)).live i = t.live i) ∧ t.leaves.length ≤ (addLeaves T k (a + brBlockBytes)).leaves.length)
        (if c = true then ({ leaves := t.leaves ++ [emptyLeaf a], active := t.leaves.length, forUse := t.forUse, bad := t.bad } : Tab)
         else addToForUse { leaves := t.leaves ++ [emptyLeaf a], active := t.active, forUse := t.forUse, bad := t.bad } t.leaves.length) := by
      intro c
      cases c with
      | true =>
        simp only [↓reduceIte]
        have h2 : leavesOK ({ leaves := t.leaves ++ [emptyLeaf a], active := t.leaves.length, forUse := t.forUse, bad := t.bad } : Tab) := h1
        obtain ⟨i1, i2, i3⟩ := ih _ (a + brBlockBytes) h2
        refine ⟨i1, fun i => ?_, Nat.le_trans hlen i3⟩
        rw [i2 i]; exact live_append t a i
      | false =>
        simp only [Bool.false_eq_true, ↓reduceIte]
        obtain ⟨j1, j2, j3⟩ := addToForUse_ok _ t.leaves.length h1
        obtain ⟨i1, i2, i3⟩ := ih _ (a + brBlockBytes) j1
        refine ⟨i1, fun i => ?_, ?_⟩
        · rw [i2 i, j2 i]; exact live_append t a i
        · rw [j3] at i3
          exact Nat.le_trans hlen i3
    exact key _

theorem requestNewSpace_ok (t : Tab) (raw : Option Nat) (h : leavesOK t) :
    leavesOK (requestNewSpace t raw).1 ∧ (∀ i, (requestNewSpace t raw).1.live i = t.live i) := by
  unfold requestNewSpace
  split
  · exact ⟨h, fun _ => rfl⟩
  · split
    · exact ⟨h, fun _ => rfl⟩
    · cases raw with
      | none => exact ⟨h, fun _ => rfl⟩
      | some addr =>
        simp only []
        obtain ⟨a1, a2, _⟩ := addLeaves_ok _ t addr h
        exact ⟨a1, a2⟩

theorem findFreeBlock_ok (t : Tab) (raw : Option Nat) (h : leavesOK t) :
    leavesOK (findFreeBlock t raw).1 ∧ (∀ i, (findFreeBlock t raw).1.live i = t.live i) := by
  unfold findFreeBlock
  cases ha : t.leaves[t.active]? with
  | none => exact ⟨h, fun _ => rfl⟩
  | some a =>
    simp only []
    split
    · exact ⟨h, fun _ => rfl⟩
    · cases hf : t.forUse with
      | nil =>
        simp only []
        obtain ⟨r1, r2⟩ := requestNewSpace_ok t raw h
        generalize requestNewSpace t raw = p at r1 r2
        obtain ⟨t1, ok, u⟩ := p
        simp only [] at r1 r2 ⊢
        split <;> exact ⟨r1, r2⟩
      | cons n rest =>
        simp only []
        cases hl : t.leaves[n]? with
        | none => exact ⟨h, fun _ => rfl⟩
        | some l =>
          simp only []
          have hlt : n < t.leaves.length := (List.getElem?_eq_some_iff.mp hl).1
          refine ⟨⟨h.1, ?_⟩, ?_⟩
          · intro y hy
            rcases mem_set_leaf _ _ _ _ hy with rfl | hy
            · exact (leafOK_added l false).mpr (h.2 l (List.mem_of_getElem? hl))
            · exact h.2 y hy
          · intro i
            by_cases hi : i.main = n
            · show ({ t with leaves := t.leaves.set n _ } : Tab).live i = _
              rw [live_set_same _ _ _ _ hi hlt, allocated_added]
              unfold Tab.live; rw [hi, hl]
            · show ({ t with leaves := t.leaves.set n _ } : Tab).live i = _
              exact live_set_other _ _ _ _ hi

/-- a full leaf has nothing to give -/
theorem leafPick_full (l : Leaf) (h : leafOK l) (hc : ¬ l.cnt < brMaxCnt) : leafPick l = none := by
  obtain ⟨_, _, h3, _, h5, _⟩ := h
  have hfl : l.free.length = 0 := by omega
  have hfr : l.free = [] := List.length_eq_zero_iff.mp hfl
  rw [hfr] at h3
  unfold freeChain at h3
  unfold leafPick
  rw [if_neg (by simp [h3]), if_neg hc]

/-! ### what `addToForUse` / `requestNewSpace` / `findFreeBlock` may do to the list of leaves: flip `addedToForUse` flags and
append empty leaves -/

def ExtL (ls ls' : List Leaf) : Prop :=
  (∀ (n : Nat) (l : Leaf), ls[n]? = some l → ∃ x, ls'[n]? = some { l with added := x }) ∧
  (∀ (n : Nat) (l' : Leaf), ls.length ≤ n → ls'[n]? = some l' → ∃ a x, l' = { emptyLeaf a with added := x })

theorem ExtL.refl (ls : List Leaf) : ExtL ls ls := by
  refine ⟨fun n l h => ⟨l.added, h⟩, fun n l' hn h => ?_⟩
  have : ls[n]? = none := List.getElem?_eq_none hn
  rw [this] at h; cases h

theorem ExtL.len {ls ls' : List Leaf} (h : ExtL ls ls') : ls.length ≤ ls'.length := by
  cases hl : ls.length with
  | zero => exact Nat.zero_le _
  | succ k =>
    have hk : k < ls.length := by omega
    obtain ⟨x, hx⟩ := h.1 k ls[k] (List.getElem?_eq_getElem hk)
    have := (List.getElem?_eq_some_iff.mp hx).1
    omega

theorem ExtL.trans {a b c : List Leaf} (h1 : ExtL a b) (h2 : ExtL b c) : ExtL a c := by
  refine ⟨fun n l h => ?_, fun n l' hn h => ?_⟩
  · obtain ⟨x, hx⟩ := h1.1 n l h
    obtain ⟨y, hy⟩ := h2.1 n _ hx
    exact ⟨y, hy⟩
  · by_cases hb : n < b.length
    · obtain ⟨a1, x1, e1⟩ := h1.2 n b[n] hn (List.getElem?_eq_getElem hb)
      obtain ⟨y, hy⟩ := h2.1 n b[n] (List.getElem?_eq_getElem hb)
      rw [hy] at h
      refine ⟨a1, y, ?_⟩
      rw [← Option.some.inj h, e1]
    · exact h2.2 n l' (by omega) h

theorem ExtL.set_added (ls : List Leaf) (n : Nat) (l : Leaf) (x : Bool) (h : ls[n]? = some l) :
    ExtL ls (ls.set n { l with added := x }) := by
  refine ⟨fun m l2 hm => ?_, fun m l' hm h2 => ?_⟩
  · by_cases e : n = m
    · subst e
      rw [h] at hm
      refine ⟨x, ?_⟩
      rw [List.getElem?_set_self (List.getElem?_eq_some_iff.mp h).1, ← Option.some.inj hm]
    · refine ⟨l2.added, ?_⟩
      rw [List.getElem?_set_ne e]; exact hm
  · have : (ls.set n { l with added := x })[m]? = none := List.getElem?_eq_none (by simpa using hm)
    rw [this] at h2; cases h2

theorem ExtL.append (ls : List Leaf) (a : Nat) : ExtL ls (ls ++ [emptyLeaf a]) := by
  refine ⟨fun m l hm => ⟨l.added, ?_⟩, fun m l' hm h2 => ⟨a, false, ?_⟩⟩
  · rw [List.getElem?_append_left (List.getElem?_eq_some_iff.mp hm).1]; exact hm
  · have hlt := (List.getElem?_eq_some_iff.mp h2).1
    simp only [List.length_append, List.length_cons, List.length_nil] at hlt
    have e : m = ls.length := by omega
    rw [e, List.getElem?_append_right (Nat.le_refl _)] at h2
    simp at h2
    exact h2.symm

theorem addToForUse_ext (t : Tab) (n : Nat) : ExtL t.leaves (addToForUse t n).leaves ∧ (addToForUse t n).bad = t.bad := by
  unfold addToForUse
  cases hl : t.leaves[n]? with
  | none => exact ⟨ExtL.refl _, rfl⟩
  | some l => exact ⟨ExtL.set_added _ _ _ _ hl, rfl⟩

theorem addLeaves_ext : ∀ (k : Nat) (t : Tab) (a : Nat),
    ExtL t.leaves (addLeaves t k a).leaves ∧ (addLeaves t k a).bad = t.bad ∧ (addLeaves t k a).leaves.length = t.leaves.length + k := by
  intro k
  induction k with
  | zero => intro t a; exact ⟨ExtL.refl _, rfl, rfl⟩
  | succ k ih =>
    intro t a
    unfold addLeaves
    simp only []
    have key : ∀ c : Bool, (fun T : Tab => ExtL t.leaves (addLeaves T k (a + brBlockBytes)).leaves ∧
        (addLeaves T k (a + brBlockBytes)).bad = t.bad ∧ (addLeaves T k (a + brBlockBytes)).leaves.length = t.leaves.length + (k + 1))
        (if c = true then ({ leaves := t.leaves ++ [emptyLeaf a], active := t.leaves.length, forUse := t.forUse, bad := t.bad } : Tab)
         else addToForUse { leaves := t.leaves ++ [emptyLeaf a], active := t.active, forUse := t.forUse, bad := t.bad } t.leaves.length) := by
      intro c
      cases c with
      | true =>
        simp only [↓reduceIte]
        obtain ⟨i1, i2, i3⟩ := ih ({ leaves := t.leaves ++ [emptyLeaf a], active := t.leaves.length, forUse := t.forUse, bad := t.bad } : Tab) (a + brBlockBytes)
        refine ⟨ExtL.trans (ExtL.append _ a) i1, i2, ?_⟩
        rw [i3]; simp only [List.length_append, List.length_cons, List.length_nil]; omega
      | false =>
        simp only [Bool.false_eq_true, ↓reduceIte]
        obtain ⟨j1, j2⟩ := addToForUse_ext ({ leaves := t.leaves ++ [emptyLeaf a], active := t.active, forUse := t.forUse, bad := t.bad } : Tab) t.leaves.length
        obtain ⟨i1, i2, i3⟩ := ih (addToForUse { leaves := t.leaves ++ [emptyLeaf a], active := t.active, forUse := t.forUse, bad := t.bad } t.leaves.length) (a + brBlockBytes)
        have j3 := addToForUse_ok' ({ leaves := t.leaves ++ [emptyLeaf a], active := t.active, forUse := t.forUse, bad := t.bad } : Tab) t.leaves.length
        refine ⟨ExtL.trans (ExtL.append _ a) (ExtL.trans j1 i1), i2.trans j2, ?_⟩
        rw [i3, j3]; simp only [List.length_append, List.length_cons, List.length_nil]; omega
    exact key _

theorem requestNewSpace_ext (t : Tab) (raw : Option Nat) :
    ExtL t.leaves (requestNewSpace t raw).1.leaves ∧ (requestNewSpace t raw).1.bad = t.bad ∧
    (t.leaves.length ≤ brDataSz → (requestNewSpace t raw).1.leaves.length ≤ brDataSz) := by
  unfold requestNewSpace
  split
  · exact ⟨ExtL.refl _, rfl, id⟩
  · split
    · exact ⟨ExtL.refl _, rfl, id⟩
    · cases raw with
      | none => exact ⟨ExtL.refl _, rfl, id⟩
      | some addr =>
        simp only []
        obtain ⟨a1, a2, a3⟩ := addLeaves_ext (min (brDataSz - t.leaves.length) (brBlockSpaceSize / brBlockBytes)) t addr
        refine ⟨a1, a2, fun hle => ?_⟩
        rw [a3]
        have := Nat.min_le_left (brDataSz - t.leaves.length) (brBlockSpaceSize / brBlockBytes)
        omega

theorem findFreeBlock_ext (t : Tab) (raw : Option Nat) :
    ExtL t.leaves (findFreeBlock t raw).1.leaves ∧ (findFreeBlock t raw).1.bad = t.bad ∧
    (t.leaves.length ≤ brDataSz → (findFreeBlock t raw).1.leaves.length ≤ brDataSz) := by
  unfold findFreeBlock
  cases ha : t.leaves[t.active]? with
  | none => exact ⟨ExtL.refl _, rfl, id⟩
  | some a =>
    simp only []
    split
    · exact ⟨ExtL.refl _, rfl, id⟩
    · cases hf : t.forUse with
      | nil =>
        simp only []
        obtain ⟨r1, r2, r3⟩ := requestNewSpace_ext t raw
        generalize requestNewSpace t raw = p at r1 r2 r3
        obtain ⟨t1, ok, u⟩ := p
        simp only [] at r1 r2 r3 ⊢
        split <;> exact ⟨r1, r2, r3⟩
      | cons n rest =>
        simp only []
        cases hl : t.leaves[n]? with
        | none => exact ⟨ExtL.refl _, rfl, id⟩
        | some l =>
          simp only []
          refine ⟨ExtL.set_added _ _ _ _ hl, by first | rfl | trivial, fun hle => ?_⟩
          simpa using hle

end TbbVerif.C17.BR
