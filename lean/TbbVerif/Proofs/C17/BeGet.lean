/-
C17 back end — the steps of `genericGetBlock` / `genericPutBlock` / `markCoal` keep the invariant `WF`.
-/
import TbbVerif.Proofs.C17.BeAddr

namespace TbbVerif.C17.BE
open TbbVerif.Generated.C17Backend

theorem hasEntry_free_of (b : Blk) (h : hasEntry b = true) (hin : b.inBin = false) : b.own = .free ∧ b.myBin ≠ -1 := by
  unfold hasEntry at h
  simp only [Bool.and_eq_true, bne_iff_ne, ne_eq, Bool.or_eq_true, beq_iff_eq, hin, Bool.false_eq_true, or_false] at h
  exact ⟨h.2, h.1⟩

/-- `tryLockBlock` + removal from the bin of the block an entry names -/
theorem takeFromBin_wf' (s : St) (e : Entry) (hw : WF s) (he : e ∈ s.g.bins) : WF (takeFromBin s e) := by
  obtain ⟨c, hc, hent⟩ := locate_entry s hw e he
  obtain ⟨hl, hlink, _, hin⟩ := linv_of_wf s e.addr c hw hc
  have hhe : hasEntry c.z.cur = true := by
    unfold entryOf at hent
    split at hent
    · assumption
    · cases hent
  obtain ⟨hfree, _⟩ := hasEntry_free_of _ hhe hin
  have hf := (blkOK_free _ _ _ _ hfree).mp hl.cur
  have hnp : c.z.post ≠ [] := fun hp => by have := hl.curLast.mpr hp; rw [hfree] at this; cases this
  unfold takeFromBin
  rw [if_neg (by simp [he]), hc]
  simp only []
  cases hp : c.z.post with
  | nil => exact absurd hp hnp
  | cons r post1 =>
    simp only []
    have hpost := hl.post
    rw [hp] at hpost
    unfold chainOK at hpost
    obtain ⟨p1, _, _, _⟩ := hpost
    have c1 : ¬ (c.z.cur.myL ≤ gsMaxLockedVal ∨ c.z.cur.size ≠ c.z.cur.myL ∨ r.leftL ≠ c.z.cur.myL) := by
      rw [hf.2.1.1, p1, hf.2.1.1]
      have := hf.2.1.2.1
      bconst; omega
    rw [if_neg c1]
    have hb := hl.bins
    unfold zEntries at hb
    rw [hent] at hb
    have hb' : s.g.bins.Perm (e :: (frameOf c).ents ++ (entriesOf c.reg.first c.z.pre.reverse ++ entriesOf (c.z.addr + c.z.cur.size) c.z.post)) := by
      refine hb.trans ?_
      rw [List.perm_iff_count]
      intro x
      simp only [List.count_cons, List.count_append, List.count_nil, List.cons_append]
      omega
    obtain ⟨r1, r2, r3, r4, r5, _, _⟩ := binRemove_spec s.g e _ hb' hl.mask
    let c' : Blk := { c.z.cur with myL := gsLocked, sizeTmp := c.z.cur.myL, own := .held }
    have hok : blkOK s.g.cfg c.reg.type c.z.addr c' := by
      refine (blkOK_held _ _ _ c' rfl).mpr ⟨⟨by show gsLocked ≤ gsMaxLockedVal; bconst; omega, hf.2.1.2.1, ?_⟩, hf.2.2⟩
      intro hfx
      have := hf.2.1.2.2.2
      rw [hfx] at this
      simpa using this
    have := linv_set _ _ _ _ _ s.g (s.g.binRemove e) c.z r post1 c' hl hp rfl hok (by simp [c']) ?_ r2 ?_ (by rw [r3]; exact hl.not_bad) r5
    · exact wf_of_linv s e.addr c hw hc _ _ this (leftLink_set _ _ _ hlink rfl) hin
    · have e1 : entryOf c.z.addr c' = [] := entryOf_held _ c' rfl hin
      rw [e1]
      simpa using r1
    · rw [r4]
      have hq := hl.queue
      unfold zQueued at hq
      simp only [hfree, reduceCtorEq, if_false, List.nil_append] at hq
      show s.g.queue.Perm ((frameOf c).qs ++ (queuedOf c.reg.first c.z.pre.reverse ++ ((if Own.held = Own.queued then [c.z.addr] else []) ++ queuedOf (c.z.addr + c.z.cur.size) c.z.post)))
      simpa using hq

theorem takeFromBin_wf (s : St) (e : Entry) (hw : WF s) : WF (takeFromBin s e) := by
  by_cases he : e ∈ s.g.bins
  · exact takeFromBin_wf' s e hw he
  · unfold takeFromBin
    rw [if_pos (by simp [he])]
    exact wf_setSkip s hw

/-- the bins after `takeFromBin` -/
theorem takeFromBin_bins (s : St) (e : Entry) (hw : WF s) (he : e ∈ s.g.bins) : (takeFromBin s e).g.bins = s.g.bins.erase e := by
  obtain ⟨c, hc, hent⟩ := locate_entry s hw e he
  obtain ⟨hl, hlink, _, hin⟩ := linv_of_wf s e.addr c hw hc
  have hhe : hasEntry c.z.cur = true := by
    unfold entryOf at hent
    split at hent
    · assumption
    · cases hent
  obtain ⟨hfree, _⟩ := hasEntry_free_of _ hhe hin
  have hf := (blkOK_free _ _ _ _ hfree).mp hl.cur
  have hnp : c.z.post ≠ [] := fun hp => by have := hl.curLast.mpr hp; rw [hfree] at this; cases this
  unfold takeFromBin
  rw [if_neg (by simp [he]), hc]
  simp only []
  cases hp : c.z.post with
  | nil => exact absurd hp hnp
  | cons r post1 =>
    simp only []
    have hpost := hl.post
    rw [hp] at hpost
    unfold chainOK at hpost
    obtain ⟨p1, _, _, _⟩ := hpost
    have c1 : ¬ (c.z.cur.myL ≤ gsMaxLockedVal ∨ c.z.cur.size ≠ c.z.cur.myL ∨ r.leftL ≠ c.z.cur.myL) := by
      rw [hf.2.1.1, p1, hf.2.1.1]
      have := hf.2.1.2.1
      bconst; omega
    rw [if_neg c1]
    show (s.g.binRemove e).bins = s.g.bins.erase e
    unfold Glob.binRemove
    rw [if_pos (List.contains_iff_mem.mpr he)]

/-- a held block is cut in two -/
theorem splitHeld_wf (s : St) (addr k : Nat) (hw : WF s) : WF (splitHeld s addr k) := by
  unfold splitHeld
  cases hc : locate s addr with
  | none => exact wf_setSkip s hw
  | some c =>
    simp only []
    split
    · exact wf_setSkip s hw
    · rename_i hpre
      simp only [not_or, Decidable.not_not, not_and, Nat.not_lt] at hpre
      obtain ⟨hown, hk, hsz, hmy, hal⟩ := hpre
      obtain ⟨hl, hlink, _, hin⟩ := linv_of_wf s addr c hw hc
      obtain ⟨_, _, haddr, _⟩ := locate_spec s addr c hc
      have hcur := (blkOK_held _ _ _ _ hown).mp hl.cur
      have hnp : c.z.post ≠ [] := fun hp => by have := hl.curLast.mpr hp; rw [hown] at this; cases this
      let c' : Blk := { c.z.cur with size := k, sizeTmp := k }
      let nb : Blk := { size := c.z.cur.size - k, own := .held, myL := gsLocked, leftL := gsLocked, aligned := c.z.cur.aligned }
      have eA : c.z.addr + k + (c.z.cur.size - k) = c.z.addr + c.z.cur.size := by omega
      have hz : LInv s.g.cfg c.reg.type c.reg.first (endOf c.reg) (frameOf c) s.g { c.z with cur := c', post := nb :: c.z.post } := by
        refine ⟨hl.not_bad, rfl, hl.addr, hl.pre, ?_, ?_, ?_, ?_, hl.mask, ?_⟩
        · refine (blkOK_held _ _ _ c' hown).mpr ⟨⟨hcur.1.1, hk, hcur.1.2.2⟩, ?_⟩
          intro hf hs
          show (c.z.addr + k) % beSlabSize = 0
          rw [haddr]
          exact hal hf hs
        · constructor
          · intro hx; have hx' : c.z.cur.own = Own.last := hx; rw [hown] at hx'; cases hx'
          · intro hx; cases hx
        · show chainOK s.g.cfg c.reg.type (endOf c.reg) (c.z.addr + k) c.z.cur.myL (nb :: c.z.post)
          unfold chainOK
          refine ⟨hmy.symm, ⟨?_, rfl⟩, ?_, ?_⟩
          · refine (blkOK_held _ _ _ nb rfl).mpr ⟨⟨by show gsLocked ≤ gsMaxLockedVal; bconst; omega, by show beMinBlockSize ≤ c.z.cur.size - k; omega, hcur.1.2.2⟩, ?_⟩
            intro hf hs
            show (c.z.addr + k + (c.z.cur.size - k)) % beSlabSize = 0
            rw [eA]; exact hcur.2 hf hs
          · constructor
            · intro hx; cases hx
            · intro hx; exact absurd hx hnp
          · show chainOK s.g.cfg c.reg.type (endOf c.reg) (c.z.addr + k + (c.z.cur.size - k)) gsLocked c.z.post
            rw [eA, ← hmy]; exact hl.post
        · have hb := hl.bins
          unfold zEntries at hb ⊢
          show s.g.bins.Perm ((frameOf c).ents ++ (entriesOf c.reg.first c.z.pre.reverse ++ (entryOf c.z.addr c' ++ entriesOf (c.z.addr + k) (nb :: c.z.post))))
          rw [entryOf_held _ _ hown hin] at hb
          rw [entryOf_held _ c' hown hin]
          simp only [entriesOf]
          rw [entryOf_held _ nb rfl rfl]
          show s.g.bins.Perm ((frameOf c).ents ++ (entriesOf c.reg.first c.z.pre.reverse ++ ([] ++ ([] ++ entriesOf (c.z.addr + k + (c.z.cur.size - k)) c.z.post))))
          rw [eA]
          simpa using hb
        · have hq := hl.queue
          unfold zQueued at hq ⊢
          show s.g.queue.Perm ((frameOf c).qs ++ (queuedOf c.reg.first c.z.pre.reverse ++ ((if c.z.cur.own = Own.queued then [c.z.addr] else []) ++ queuedOf (c.z.addr + k) (nb :: c.z.post))))
          simp only [queuedOf]
          show s.g.queue.Perm ((frameOf c).qs ++ (queuedOf c.reg.first c.z.pre.reverse ++ ((if c.z.cur.own = Own.queued then [c.z.addr] else []) ++ ((if Own.held = Own.queued then [c.z.addr + k] else []) ++ queuedOf (c.z.addr + k + (c.z.cur.size - k)) c.z.post))))
          rw [eA]
          simpa using hq
      exact wf_of_linv s addr c hw hc s.g _ hz (leftLink_set _ _ _ hlink rfl) hin

theorem markBlocks_wf (size : Nat) : ∀ (j : Nat) (s : St) (addr : Nat), WF s → WF (markBlocks s addr size j) := by
  intro j
  induction j with
  | zero => intro s addr h; exact h
  | succ j ih =>
    intro s addr h
    unfold markBlocks
    exact ih _ _ (splitHeld_wf s addr size h)

theorem splitBlock_wf (s : St) (fAddr fSize num size : Nat) (bia na : Bool) (hw : WF s) :
    WF (splitBlock s fAddr fSize num size bia na).1 := by
  unfold splitBlock
  simp only []
  split
  · apply markBlocks_wf
    split
    · apply coalescAndPut_wf
      apply splitHeld_wf
      split
      · apply coalescAndPut_wf; apply splitHeld_wf; exact hw
      · exact hw
    · split
      · apply coalescAndPut_wf; apply splitHeld_wf; exact hw
      · exact hw
  · split
    · split
      · apply markBlocks_wf; apply coalescAndPut_wf; apply splitHeld_wf; exact hw
      · apply markBlocks_wf; apply coalescAndPut_wf; apply splitHeld_wf; exact hw
    · apply markBlocks_wf; exact hw

theorem wf_mods (s : St) (h : WF s) : WF ⟨{ s.g with mods := s.g.mods + 1 }, s.regions⟩ :=
  wf_congr s.g _ s.regions h rfl rfl rfl rfl rfl

/-- a held block is handed to the caller -/
theorem giveUser_wf (size : Nat) (al : Bool) : ∀ (j : Nat) (s : St) (addr : Nat), WF s → WF (giveUser s addr size al j) := by
  intro j
  induction j with
  | zero => intro s addr h; exact h
  | succ j ih =>
    intro s addr hw
    unfold giveUser
    cases hc : locate s addr with
    | none => exact wf_setSkip s hw
    | some c =>
      simp only []
      split
      · exact wf_setSkip s hw
      · rename_i hpre
        simp only [not_or, Decidable.not_not, not_and] at hpre
        obtain ⟨hown, _, hmy, hal⟩ := hpre
        apply ih
        obtain ⟨hl, _, _, hin⟩ := linv_of_wf s addr c hw hc
        have hcur := (blkOK_held _ _ _ _ hown).mp hl.cur
        refine wf_set_cur s addr c hw hc _ (by rw [hown]; simp) rfl rfl rfl ?_ (by simp) hin ?_ ?_
        · unfold blkOK
          refine ⟨?_, ?_, ?_⟩
          · show c.z.cur.inBin = true → _
            rw [hin]; intro hx; cases hx
          · show c.z.cur.myL = gsLocked ∧ beMinBlockSize ≤ c.z.cur.size ∧ (s.g.cfg.fixedPool = false → al = decide (c.reg.type = beRegSlab))
            exact ⟨hmy, hcur.1.2.1, hal⟩
          · intro hf hs _; exact hcur.2 hf hs
        · rw [entryOf_held _ _ hown hin]
          simp [entryOf, hasEntry, hin]
        · simp [hown]

theorem finishGet_wf (s : St) (addr num size : Nat) (na sp : Bool) (used : Nat) (hw : WF s) :
    WF (finishGet s addr num size na sp used).1 := by
  unfold finishGet
  cases hc : locate s addr with
  | none => exact wf_setSkip s hw
  | some c =>
    simp only []
    split
    · exact wf_setSkip s hw
    · apply wf_mods
      split
      · apply giveUser_wf; exact splitBlock_wf _ _ _ _ _ _ _ hw
      · apply giveUser_wf; exact hw

/-- another thread starts to free a block it holds -/
theorem markCoal_wf (s : St) (addr : Nat) (hw : WF s) : WF (markCoal s addr).1 := by
  unfold markCoal
  cases hc : locate s addr with
  | none => exact hw
  | some c =>
    simp only []
    cases hown : c.z.cur.own with
    | user al =>
      cases hp : c.z.post with
      | nil => exact hw
      | cons r post1 =>
        simp only []
        obtain ⟨hl, hlink, _, hin⟩ := linv_of_wf s addr c hw hc
        have hcur := hl.cur
        unfold blkOK at hcur
        rw [hown] at hcur
        let c' : Blk := { c.z.cur with myL := gsCoalBlock, sizeTmp := c.z.cur.size, own := Own.coal al }
        have hok : blkOK s.g.cfg c.reg.type c.z.addr c' := by
          unfold blkOK
          refine ⟨?_, ?_, ?_⟩
          · show c.z.cur.inBin = true → _
            rw [hin]; intro hx; cases hx
          · show gsCoalBlock = gsCoalBlock ∧ c.z.cur.size = c.z.cur.size ∧ beMinBlockSize ≤ c.z.cur.size ∧ (s.g.cfg.fixedPool = false → al = decide (c.reg.type = beRegSlab))
            exact ⟨rfl, rfl, hcur.2.1.2.1, hcur.2.1.2.2⟩
          · intro hf hs _; exact hcur.2.2 hf hs (by simp)
        have hb := hl.bins
        have hq := hl.queue
        unfold zEntries at hb
        unfold zQueued at hq
        have e0 : entryOf c.z.addr c.z.cur = [] := by simp [entryOf, hasEntry, hown, hin]
        have := linv_set _ _ _ _ _ s.g s.g c.z r post1 c' hl hp rfl hok (by simp [c']) ?_ hl.mask ?_ hl.not_bad rfl
        · exact wf_of_linv s addr c hw hc _ _ this (leftLink_set _ _ _ hlink rfl) hin
        · have e1 : entryOf c.z.addr c' = [] := by simp [entryOf, hasEntry, hin, c']
          rw [e1]; rw [e0] at hb; exact hb
        · simp only [hown, reduceCtorEq, if_false] at hq
          show s.g.queue.Perm ((frameOf c).qs ++ (queuedOf c.reg.first c.z.pre.reverse ++ ((if Own.coal al = Own.queued then [c.z.addr] else []) ++ queuedOf (c.z.addr + c.z.cur.size) c.z.post)))
          simpa using hq
    | coal al => exact hw
    | held => exact hw
    | queued => exact hw
    | free => exact hw
    | last => exact hw

/-- `genericPutBlock` -/
theorem genericPutBlock_wf (s : St) (addr : Nat) (hw : WF s) : WF (genericPutBlock s addr).1 := by
  unfold genericPutBlock
  cases hc : locate s addr with
  | none => exact hw
  | some c =>
    simp only []
    obtain ⟨hl, _, _, hin⟩ := linv_of_wf s addr c hw hc
    have hcur := hl.cur
    unfold blkOK at hcur
    have key : ∀ al : Bool, (c.z.cur.own = .user al ∨ c.z.cur.own = .coal al) →
        WF ⟨s.g, c.close { c.z with cur := { c.z.cur with own := .held, aligned := al, inBin := false } }⟩ := by
      intro al ho
      have hmy : c.z.cur.myL ≤ gsMaxLockedVal ∧ beMinBlockSize ≤ c.z.cur.size ∧ (s.g.cfg.fixedPool = false → al = decide (c.reg.type = beRegSlab)) ∧ c.z.cur.own ≠ .last := by
        rcases ho with ho | ho <;> rw [ho] at hcur
        · exact ⟨by rw [hcur.2.1.1]; bconst; omega, hcur.2.1.2.1, hcur.2.1.2.2, by rw [ho]; simp⟩
        · exact ⟨by rw [hcur.2.1.1]; bconst; omega, hcur.2.1.2.2.1, hcur.2.1.2.2.2, by rw [ho]; simp⟩
      refine wf_set_cur s addr c hw hc _ hmy.2.2.2 rfl rfl rfl ?_ (by simp) rfl ?_ ?_
      · refine (blkOK_held _ _ _ ({ c.z.cur with own := .held, aligned := al, inBin := false } : Blk) rfl).mpr ⟨⟨hmy.1, hmy.2.1, hmy.2.2.1⟩, ?_⟩
        intro hf hs
        exact hcur.2.2 hf hs hmy.2.2.2
      · have e0 : entryOf c.z.addr c.z.cur = [] := by
          rcases ho with ho | ho <;> simp [entryOf, hasEntry, ho, hin]
        rw [e0]
        simp [entryOf, hasEntry]
      · rcases ho with ho | ho <;> simp [ho]
    cases hown : c.z.cur.own with
    | user al => simp only []; apply wf_mods; apply coalescAndPut_wf; exact key al (Or.inl hown)
    | coal al => simp only []; apply wf_mods; apply coalescAndPut_wf; exact key al (Or.inr hown)
    | held => exact hw
    | queued => exact hw
    | free => exact hw
    | last => exact hw

end TbbVerif.C17.BE
