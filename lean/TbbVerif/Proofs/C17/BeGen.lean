/-
C17 back end — the guards REGENERATED from the current source (Generated/C17Backend.lean) mean what the model says:
`sizeToBin`, `toAlignedBin`, the fit tests of `getFromBin`, the bounds test of `getBackRef`; the arithmetic of
`Backend::remap`; the zero-fill path of `scalable_calloc`.
-/
import TbbVerif.Model.C17Backend
import TbbVerif.Model.C17Backref
import TbbVerif.Proofs.C18

namespace TbbVerif.C17.BE
open TbbVerif.Cint
open TbbVerif.Generated.C17
open TbbVerif.Generated.C17Backend
open TbbVerif.C17 (subU64_le gen_alignUp gen_alignUp_mod alignUpN_spec and_not_low subU64_one)

theorem sizeToBin_gen (s : Nat) (h : s < 2 ^ 64) : sizeToBinG s = sizeToBin s := by
  unfold sizeToBinG sizeToBin
  simp only [beMaxBinnedHugePage, beMinBinnedSize, beHugeBin, beFreeBinsStep, decide_eq_true_eq]
  by_cases h1 : s ≥ 4194304
  · simp only [h1, if_true]; rfl
  · by_cases h2 : s < 8192
    · simp only [h1, if_false, h2, if_true]
    · simp only [h1, if_false, h2]
      rw [subU64_le s 8192 (by omega) h]
      have hb : (s - 8192) / 8192 < 512 := by omega
      simp only [wrapS]
      omega

theorem isAligned_gen (p k : Nat) (hp : p < 2 ^ 64) (hk : k < 64) : isAlignedG p (2 ^ k) = decide (p % 2 ^ k = 0) := by
  have hpk : 2 ^ k < 2 ^ 64 := Nat.pow_lt_pow_right (by omega) hk
  have h1 : 1 ≤ 2 ^ k := Nat.two_pow_pos k
  unfold isAlignedG
  rw [subU64_one _ h1 hpk, Nat.and_two_pow_sub_one_eq_mod]
  by_cases h : p % 2 ^ k = 0
  · simp [h]
  · simp only [h, decide_false, decide_eq_false_iff_not]
    omega

theorem toAlignedBin_gen (a s : Nat) (h : a + s < 2 ^ 64) : toAlignedBinG a s = toAlignedBin a s := by
  unfold toAlignedBinG toAlignedBin
  have : (16384 : Nat) = 2 ^ 14 := by decide
  rw [Nat.mod_eq_of_lt h, this, isAligned_gen _ 14 h (by omega)]
  simp only [beSlabSize]
  by_cases h1 : (a + s) % 2 ^ 14 = 0 <;> by_cases h2 : s ≥ 2 ^ 14 <;> simp [h1, h2]

theorem fitGeneral_gen (c szBlock size : Nat) (h : szBlock < 2 ^ 64) : fitGeneralG c szBlock size = fitGeneral szBlock size := by
  unfold fitGeneralG fitGeneral
  simp only [beMinBlockSize]
  by_cases h1 : szBlock ≥ size
  · rw [subU64_le _ _ h1 h]
    by_cases h2 : szBlock - size ≥ 56 <;> by_cases h3 : szBlock - size = 0 <;> simp [h1, h2, h3]
  · simp [h1]

theorem fitAligned_gen (curr szBlock size : Nat) (h1 : curr + szBlock < 2 ^ 63) (h2 : size < 2 ^ 63) :
    fitAlignedG curr szBlock size = fitAligned curr szBlock size := by
  unfold fitAlignedG fitAligned
  have e14 : (16384 : Nat) = 2 ^ 14 := by decide
  have hup : alignUp curr 16384 = alignUpN curr 16384 := by
    rw [e14]
    rw [gen_alignUp curr 14 (by omega) (by omega)]
    rfl
  obtain ⟨u1, u2, _⟩ := alignUpN_spec curr 16384 (by omega)
  have hup' : TbbVerif.C17.alignUpN curr 16384 = alignUpN curr 16384 := rfl
  rw [hup']  at u1 u2
  simp only [hup, beSlabSize, beMinBlockSize]
  rw [Nat.mod_eq_of_lt (show alignUpN curr 16384 + size < 2 ^ 64 by omega), Nat.mod_eq_of_lt (show curr + szBlock < 2 ^ 64 by omega)]
  rw [subU64_le _ _ u1 (by omega)]
  by_cases c1 : alignUpN curr 16384 + size ≤ curr + szBlock
  · rw [subU64_le _ _ c1 (by omega)]
    simp only [c1, decide_true, Bool.true_and, beq_iff_eq, Bool.decide_eq_true]
    rfl
  · simp [c1]

theorem getBackRefReject_gen (lu : Int) (m o : Nat) (hm : m < 2 ^ 32) (ho : o < 2 ^ 15) :
    getBackRefRejectG lu m o = BR.getBackRefReject lu m o := by
  unfold getBackRefRejectG BR.getBackRefReject
  simp only [brMaxCnt, wrapS]
  have e1 : (((m : Nat) : Int) % ((2 ^ 64 : Nat) : Int)) = (m : Int) := by omega
  have e2 : (((o : Nat) : Int) % ((2 ^ 32 : Nat) : Int)) = (o : Int) := by omega
  simp only [e1, e2]
  have c1 : ((m : Int) < ((2 ^ (64 - 1) : Nat) : Int)) := by
    have : (2 ^ (64 - 1) : Nat) = 9223372036854775808 := by decide
    rw [this]; omega
  have c2 : ((o : Int) < ((2 ^ (32 - 1) : Nat) : Int)) := by
    have : (2 ^ (32 - 1) : Nat) = 2147483648 := by decide
    rw [this]; omega
  simp only [c1, c2, if_true]
  have e3 : decide ((o : Int) ≥ 2040) = decide (o ≥ 2040) := by
    by_cases h : o ≥ 2040
    · have : (o : Int) ≥ 2040 := by omega
      simp [h, this]
    · have : ¬ (o : Int) ≥ 2040 := by omega
      simp [h, this]
  rw [e3]
  by_cases a : (m : Int) > lu <;> by_cases b : o ≥ 2040 <;> simp [a, b]

/-- the zero-fill path of `scalable_calloc`: every path that returns the (non-null) result has executed
`memset(result, 0, arraySize)` — over the statement skeleton regenerated from the source -/
theorem calloc_memset_gen (n : Nat) : callocMemsetG n = true := by
  unfold callocMemsetG
  simp

/-! ### `Backend::remap` -/

open TbbVerif.C18 (binRound locAlignToBin_eq binRound_small binRound_huge log2_bounds)

theorem binRound_mod128 (X : Nat) (hX : X < 2 ^ 64) : binRound X % 128 = 0 := by
  unfold binRound
  by_cases h : X < locMaxLargeSize
  · simp only [h, if_true, largeCacheStep]
    obtain ⟨_, _, u3⟩ := alignUpN_spec X 8192 (by omega)
    omega
  · simp only [h, if_false, hugeStepFactorExp]
    simp only [locMaxLargeSize] at h
    obtain ⟨l3, _, _, _⟩ := log2_bounds X (by omega) hX
    obtain ⟨_, _, u3⟩ := alignUpN_spec X (2 ^ (X.log2 - 3)) (Nat.two_pow_pos _)
    have d1 : (128 : Nat) ∣ 2 ^ (X.log2 - 3) := by
      have : (128 : Nat) = 2 ^ 7 := by decide
      rw [this]; exact Nat.pow_dvd_pow 2 (by omega)
    exact Nat.mod_eq_zero_of_dvd (Nat.dvd_trans d1 (Nat.dvd_of_mod_eq_zero u3))

/-- bin rounding of a sum below 2^63 does not wrap and does not shrink -/
theorem locAlignToBin_ge (X : Nat) (hX : X < 2 ^ 63) :
    X ≤ TbbVerif.Generated.C18.locAlignToBin X ∧ TbbVerif.Generated.C18.locAlignToBin X < 2 ^ 64 - 2 ^ 40 ∧
    TbbVerif.Generated.C18.locAlignToBin X % 128 = 0 ∨ False := by
  left
  rw [locAlignToBin_eq X (by omega)]
  have hlt : binRound X < 2 ^ 64 - 2 ^ 40 := by
    by_cases h : X < 8388608
    · have := binRound_small X h; omega
    · obtain ⟨st, a1, _, _, a4, _⟩ := binRound_huge X (by omega) (by omega); omega
  have hge : X ≤ binRound X := by
    by_cases h : X < 8388608
    · exact (binRound_small X h).1
    · obtain ⟨st, _, _, a3, _⟩ := binRound_huge X (by omega) (by omega); exact a3
  rw [Nat.mod_eq_of_lt (by omega)]
  exact ⟨hge, hlt, binRound_mod128 X (by omega)⟩

/-- **`Backend::remap` re-maps a large object correctly** (arithmetic regenerated from the source; wrap-around is C18's
`remap_guard_sound`, here sizes are below 2^62).  `region` / `newRegion`: old and new address of the mapping (at
least cache-line aligned), `ptr` the object, which lies behind the region header, the `LargeMemoryBlock` and its own
`LargeObjectHdr`; the old object lies inside the old mapping of `oldRegionSize` bytes; granularity `2^k`, `7 ≤ k`. -/
theorem remap_arith (ptr region newRegion oldSize newSize alignment k oldRegionSize : Nat)
    (hk7 : 7 ≤ k) (hk : k ≤ 32) (hnr : newRegion % 64 = 0) (hnr2 : newRegion < 2 ^ 62)
    (hlo : region + (64 + beSizeofLargeMemoryBlock + beSizeofLargeObjectHdr) ≤ ptr) (hoff : ptr - region < 2 ^ 32) (hp : ptr < 2 ^ 64)
    (hsz : newSize < 2 ^ 62) (hold : (ptr - region) + oldSize ≤ oldRegionSize) :
    let u := remapUserOffsetG ptr region oldSize newSize alignment (2 ^ k)
    let A := remapAlignedSizeG ptr region oldSize newSize alignment (2 ^ k)
    let R := remapRequestSizeG ptr region oldSize newSize alignment (2 ^ k)
    let fb := remapBlockG newRegion u
    let obj := remapObjectG newRegion u
    u = ptr - region ∧ obj = newRegion + (ptr - region) ∧
    -- the OS keeps the first min(old mapping, new mapping) bytes: they hold the first min(old, new) bytes of the object
    (ptr - region) + min oldSize newSize ≤ min oldRegionSize R ∧
    -- the new block starts behind the region header and covers its own headers and the whole object
    newRegion + beSizeofMemRegion ≤ fb ∧ fb + beSizeofLargeMemoryBlock + beSizeofLargeObjectHdr ≤ obj ∧ obj + newSize ≤ fb + A ∧
    -- the block and the LastFreeBlock behind it lie inside the new mapping
    fb + A + beSizeofLastFreeBlock ≤ newRegion + R := by
  intro u A R fb obj
  have hu : u = ptr - region := by
    show remapUserOffsetG ptr region oldSize newSize alignment (2 ^ k) = _
    unfold remapUserOffsetG
    exact subU64_le _ _ (by omega) hp
  have hX : (newSize + (subU64 ptr region)) % 2 ^ 64 = newSize + (ptr - region) := by
    rw [subU64_le _ _ (by omega) hp]; exact Nat.mod_eq_of_lt (by omega)
  have hA0 : A = TbbVerif.Generated.C18.locAlignToBin (newSize + (ptr - region)) := by
    show remapAlignedSizeG ptr region oldSize newSize alignment (2 ^ k) = _
    unfold remapAlignedSizeG
    rw [hX]
  rcases locAlignToBin_ge (newSize + (ptr - region)) (by omega) with ⟨a1, a2, a3⟩ | hf
  · rw [← hA0] at a1 a2 a3
    have hpk : 2 ^ k ≤ 2 ^ 32 := Nat.pow_le_pow_right (by omega) hk
    have hpk7 : 2 ^ 7 ≤ 2 ^ k := Nat.pow_le_pow_right (by omega) hk7
    have hR : R = TbbVerif.C17.alignUpN (40 + A + 64) (2 ^ k) := by
      show remapRequestSizeG ptr region oldSize newSize alignment (2 ^ k) = _
      unfold remapRequestSizeG
      rw [hX, ← hA0, Nat.mod_eq_of_lt (show 40 + A < 2 ^ 64 by omega), Nat.mod_eq_of_lt (show 40 + A + 64 < 2 ^ 64 by omega)]
      exact gen_alignUp _ k (by omega) (by omega)
    obtain ⟨r1, r2, r3⟩ := alignUpN_spec (40 + A + 64) (2 ^ k) (Nat.two_pow_pos k)
    rw [← hR] at r1 r2 r3
    -- R is a multiple of 128 (as 2^k is), A too: R - A ≥ 128
    have r4 : R % 128 = 0 := by
      have d1 : (128 : Nat) ∣ 2 ^ k := by
        have : (128 : Nat) = 2 ^ 7 := by decide
        rw [this]; exact Nat.pow_dvd_pow 2 hk7
      exact Nat.mod_eq_zero_of_dvd (Nat.dvd_trans d1 (Nat.dvd_of_mod_eq_zero r3))
    have hfb : fb = newRegion + 64 := by
      show remapBlockG newRegion u = _
      unfold remapBlockG
      rw [Nat.mod_eq_of_lt (show newRegion + 40 < 2 ^ 64 by omega)]
      have : (64 : Nat) = 2 ^ 6 := by decide
      rw [this, gen_alignUp _ 6 (by omega) (by omega)]
      unfold TbbVerif.C17.alignUpN
      omega
    have hobj : obj = newRegion + (ptr - region) := by
      show remapObjectG newRegion u = _
      unfold remapObjectG
      rw [hu]; exact Nat.mod_eq_of_lt (by omega)
    simp only [beSizeofLargeMemoryBlock, beSizeofLargeObjectHdr, beSizeofMemRegion, beSizeofLastFreeBlock] at *
    refine ⟨hu, hobj, ?_, by omega, by omega, by omega, by omega⟩
    omega
  · exact hf.elim

end TbbVerif.C17.BE
