/-
C17 back end — addresses: every block start lies inside its region, distinct blocks have distinct addresses,
`locate` finds the block an entry of the bins names.
-/
import TbbVerif.Proofs.C17.BeState

namespace TbbVerif.C17.BE
open TbbVerif.Generated.C17Backend

theorem entryOf_mem (a : Nat) (b : Blk) (e : Entry) (h : e ∈ entryOf a b) :
    e = ⟨b.aligned, b.myBin.toNat, a⟩ ∧ hasEntry b = true := by
  unfold entryOf at h
  split at h
  · rename_i hh
    simp only [List.mem_singleton] at h
    exact ⟨h, hh⟩
  · cases h

theorem entriesOf_mem : ∀ (bs : List Blk) (a : Nat) (e : Entry), e ∈ entriesOf a bs →
    ∃ xs b ys, bs = xs ++ b :: ys ∧ e ∈ entryOf (a + sumSizes xs) b := by
  intro bs
  induction bs with
  | nil => intro a e h; cases h
  | cons b rest ih =>
    intro a e h
    unfold entriesOf at h
    rcases List.mem_append.mp h with h | h
    · exact ⟨[], b, rest, rfl, by simpa using h⟩
    · obtain ⟨xs, b', ys, h1, h2⟩ := ih _ _ h
      exact ⟨b :: xs, b', ys, by rw [h1]; rfl, by simpa [Nat.add_assoc] using h2⟩

theorem queuedOf_mem : ∀ (bs : List Blk) (a : Nat) (q : Nat), q ∈ queuedOf a bs →
    ∃ xs b ys, bs = xs ++ b :: ys ∧ q = a + sumSizes xs ∧ b.own = .queued := by
  intro bs
  induction bs with
  | nil => intro a e h; cases h
  | cons b rest ih =>
    intro a q h
    unfold queuedOf at h
    rcases List.mem_append.mp h with h | h
    · split at h
      · rename_i hq
        simp only [List.mem_singleton] at h
        exact ⟨[], b, rest, rfl, by simpa using h, hq⟩
      · cases h
    · obtain ⟨xs, b', ys, h1, h2, h3⟩ := ih _ _ h
      exact ⟨b :: xs, b', ys, by rw [h1]; rfl, by rw [h2]; simp [Nat.add_assoc], h3⟩

/-- `findZip` reaches the block behind a prefix of non-empty blocks -/
theorem findZip_hit : ∀ (xs : List Blk) (a : Nat) (acc : List Blk) (b : Blk) (ys : List Blk), (∀ x ∈ xs, 0 < x.size) →
    findZip a acc (xs ++ b :: ys) (a + sumSizes xs) = some ⟨xs.reverse ++ acc, b, ys, a + sumSizes xs⟩ := by
  intro xs
  induction xs with
  | nil => intro a acc b ys _; simp [findZip]
  | cons x xs ih =>
    intro a acc b ys hpos
    have hx : 0 < x.size := hpos x (List.mem_cons_self ..)
    simp only [List.cons_append, sumSizes_cons]
    unfold findZip
    rw [if_neg (by omega), if_neg (by omega)]
    have := ih (a + x.size) (x :: acc) b ys (fun y hy => hpos y (List.mem_cons_of_mem _ hy))
    rw [show a + (x.size + sumSizes xs) = a + x.size + sumSizes xs by omega]
    rw [this]
    simp

theorem chainOK_sizes (cfg : Cfg) (rt endA : Nat) : ∀ (bs : List Blk) (a t : Nat), chainOK cfg rt endA a t bs →
    (∀ x ∈ bs, 0 < x.size) ∧ a + sumSizes bs = endA := by
  intro bs
  induction bs with
  | nil => intro a t h; unfold chainOK at h; exact ⟨by simp, by simpa using h⟩
  | cons b rest ih =>
    intro a t h
    unfold chainOK at h
    obtain ⟨_, h2s, _, h4⟩ := h
    have h2 := h2s.1
    obtain ⟨i1, i2⟩ := ih _ _ h4
    have hb : 0 < b.size := by
      by_cases hl : b.own = .last
      · unfold blkOK at h2; rw [hl] at h2; have := h2.2.1.2; bconst; omega
      · have := size_ge _ _ _ _ h2 hl; bconst; omega
    refine ⟨?_, by simp only [sumSizes_cons]; omega⟩
    intro x hx
    rcases List.mem_cons.mp hx with rfl | hx
    · exact hb
    · exact i1 x hx

/-- all block starts of a region lie inside the region's mapping -/
theorem regOK_range (cfg : Cfg) (r : Region) (h : regOK cfg r) :
    r.base < r.first ∧ r.first + sumSizes r.blocks ≤ r.base + r.allocSz ∧ (∀ x ∈ r.blocks, 0 < x.size) := by
  obtain ⟨_, h2, h3, _, _, h6, _⟩ := h
  obtain ⟨i1, i2⟩ := chainOK_sizes _ _ _ _ _ _ h6
  refine ⟨by simp only [beSizeofMemRegion] at h2; omega, by omega, i1⟩

/-- a zipper found in a region points into the region -/
theorem findZip_range (r : Region) (t : Nat) (z : Zip) (cfg : Cfg) (h : regOK cfg r)
    (hz : findZip r.first [] r.blocks t = some z) : r.base < t ∧ t < r.base + r.allocSz := by
  obtain ⟨xs, h1, _, h3, h4⟩ := findZip_spec _ _ _ _ _ hz
  obtain ⟨g1, g2, g3⟩ := regOK_range cfg r h
  rw [h1] at g2 g3
  have : 0 < z.cur.size := g3 z.cur (by simp)
  simp only [sumSizes_append, sumSizes_cons] at g2
  omega

theorem findCursor_none_of_disjoint (cfg : Cfg) : ∀ (rs acc : List Region) (t : Nat),
    (∀ r ∈ rs, regOK cfg r ∧ ¬ (r.base < t ∧ t < r.base + r.allocSz)) → findCursor acc rs t = none := by
  intro rs
  induction rs with
  | nil => intro acc t _; rfl
  | cons r rest ih =>
    intro acc t h
    unfold findCursor
    cases hz : findZip r.first [] r.blocks t with
    | some z =>
      exfalso
      have := h r (List.mem_cons_self ..)
      exact this.2 (findZip_range r t z cfg this.1 hz)
    | none => exact ih _ _ (fun r' hr' => h r' (List.mem_cons_of_mem _ hr'))

/-- `locate` finds the block at a given position of a given region -/
theorem locate_hit (s : St) (hw : WF s) (before : List Region) (r : Region) (after : List Region) (xs : List Blk) (b : Blk) (ys : List Blk)
    (hr : s.regions = before ++ r :: after) (hb : r.blocks = xs ++ b :: ys) :
    locate s (r.first + sumSizes xs) = some ⟨before.reverse, r, after, ⟨xs.reverse, b, ys, r.first + sumSizes xs⟩⟩ := by
  have hreg : regOK s.g.cfg r := hw.regs r (by rw [hr]; simp)
  obtain ⟨g1, g2, g3⟩ := regOK_range _ r hreg
  have hpos : ∀ x ∈ xs, 0 < x.size := fun x hx => g3 x (by rw [hb]; simp [hx])
  have hbpos : 0 < b.size := g3 b (by rw [hb]; simp)
  have hhit := findZip_hit xs r.first [] b ys hpos
  rw [← hb] at hhit
  have hin : r.base < r.first + sumSizes xs ∧ r.first + sumSizes xs < r.base + r.allocSz := by
    rw [hb] at g2
    simp only [sumSizes_append, sumSizes_cons] at g2
    omega
  -- the regions before `r` do not contain the address
  have hdis := hw.disjoint
  rw [hr, List.pairwise_append] at hdis
  unfold locate
  rw [hr]
  have key : ∀ (pre acc : List Region), (∀ r' ∈ pre, regOK s.g.cfg r' ∧ regionsDisjoint r' r) →
      findCursor acc (pre ++ r :: after) (r.first + sumSizes xs) = some ⟨pre.reverse ++ acc, r, after, ⟨xs.reverse, b, ys, r.first + sumSizes xs⟩⟩ := by
    intro pre
    induction pre with
    | nil =>
      intro acc _
      simp only [List.nil_append, List.reverse_nil]
      unfold findCursor
      rw [hhit]
      simp
    | cons p pre ih =>
      intro acc hp
      simp only [List.cons_append]
      unfold findCursor
      have hp1 := hp p (List.mem_cons_self ..)
      cases hz : findZip p.first [] p.blocks (r.first + sumSizes xs) with
      | some z =>
        exfalso
        have := findZip_range p _ z _ hp1.1 hz
        have hd := hp1.2
        unfold regionsDisjoint at hd
        omega
      | none =>
        simp only []
        rw [ih (p :: acc) (fun r' hr' => hp r' (List.mem_cons_of_mem _ hr'))]
        simp
  have := key before [] (fun r' hr' => ⟨hw.regs r' (by rw [hr]; simp [hr']), hdis.2.2 r' hr' r (List.mem_cons_self ..)⟩)
  simpa using this

/-- an entry of the bins names a free block, and `locate` finds it -/
theorem locate_entry (s : St) (hw : WF s) (e : Entry) (he : e ∈ s.g.bins) :
    ∃ c, locate s e.addr = some c ∧ entryOf c.z.addr c.z.cur = [e] := by
  have he' : e ∈ allEntries s.regions := hw.bins.mem_iff.mp he
  unfold allEntries at he'
  obtain ⟨r, hr, her⟩ := List.mem_flatMap.mp he'
  obtain ⟨before, after, hsplit⟩ := List.append_of_mem hr
  obtain ⟨xs, b, ys, hb, heb⟩ := entriesOf_mem _ _ _ her
  obtain ⟨h1, h2⟩ := entryOf_mem _ _ _ heb
  have haddr : e.addr = r.first + sumSizes xs := by rw [h1]
  refine ⟨_, by rw [haddr]; exact locate_hit s hw before r after xs b ys hsplit hb, ?_⟩
  show entryOf (r.first + sumSizes xs) b = [e]
  unfold entryOf
  rw [if_pos h2, h1]

end TbbVerif.C17.BE
