/-
C17 back-reference table — the operations on the whole table.  Invariant `tabInv` (no `bad`, at most `dataSz` leaves, every
leaf: free list threaded through the slot words, bump pointer, `allocatedCount` consistent, never-used slots zero) holds in
every reachable state; `setBackRef` / `removeBackRef` / `newBackRef` touch exactly the slot they are about.
-/
import TbbVerif.Proofs.C17.BrTable

namespace TbbVerif.C17.BR
open TbbVerif.Generated.C17Backend

/-- slots the bump pointer has not reached yet still hold the zero the leaf was created with -/
def leafZero (l : Leaf) : Prop := ∀ off, off < bumpLeft l → l.slots.getD off 0 = 0

def leafInv (l : Leaf) : Prop := leafOK l ∧ leafZero l

def tabInv (t : Tab) : Prop := t.bad = false ∧ t.leaves.length ≤ brDataSz ∧ ∀ l ∈ t.leaves, leafInv l

theorem leafInv_added (l : Leaf) (x : Bool) (h : leafInv l) : leafInv { l with added := x } := h

theorem getD_replicate_zero (n off : Nat) : (List.replicate n 0).getD off 0 = 0 := by
  simp only [List.getD, List.getElem?_replicate]
  split <;> rfl

theorem emptyLeaf_inv (a : Nat) : leafInv (emptyLeaf a) :=
  ⟨emptyLeaf_ok a, fun off _ => getD_replicate_zero _ _⟩

theorem mem_getElem? {ls : List Leaf} {l : Leaf} (h : l ∈ ls) : ∃ n : Nat, ls[n]? = some l := by
  obtain ⟨n, hn, e⟩ := List.getElem_of_mem h
  exact ⟨n, by rw [List.getElem?_eq_getElem hn, e]⟩

theorem ext_all {ls ls' : List Leaf} (h : ExtL ls ls') (hall : ∀ l ∈ ls, leafInv l) : ∀ l ∈ ls', leafInv l := by
  intro l' hl'
  obtain ⟨n, hn⟩ := mem_getElem? hl'
  by_cases hlt : n < ls.length
  · obtain ⟨x, hx⟩ := h.1 n ls[n] (List.getElem?_eq_getElem hlt)
    rw [hn] at hx
    rw [Option.some.inj hx]
    exact leafInv_added _ _ (hall _ (List.getElem_mem hlt))
  · obtain ⟨a, x, e⟩ := h.2 n l' (by omega) hn
    rw [e]; exact leafInv_added _ _ (emptyLeaf_inv a)

theorem tabInv_ext {t t' : Tab} (h : ExtL t.leaves t'.leaves) (hb : t'.bad = t.bad) (hlen : t'.leaves.length ≤ brDataSz)
    (hi : tabInv t) : tabInv t' :=
  ⟨hb.trans hi.1, hlen, ext_all h hi.2.2⟩

theorem ext_live {t t' : Tab} (h : ExtL t.leaves t'.leaves) (i : Idx) : t'.live i = t.live i := by
  unfold Tab.live
  by_cases hlt : i.main < t.leaves.length
  · obtain ⟨x, hx⟩ := h.1 i.main t.leaves[i.main] (List.getElem?_eq_getElem hlt)
    rw [hx, List.getElem?_eq_getElem hlt]
    rfl
  · rw [List.getElem?_eq_none (by omega : t.leaves.length ≤ i.main)]
    cases hn : t'.leaves[i.main]? with
    | none => rfl
    | some l' =>
      obtain ⟨a, x, e⟩ := h.2 i.main l' (by omega) hn
      simp only []
      rw [e, allocated_added]; exact emptyLeaf_not_alloc _ _

/-! ### `getBackRef` -/

theorem getBackRef_some (t : Tab) (i : Idx) (l : Leaf) (h : t.leaves[i.main]? = some l) (h2 : i.off < brMaxCnt) :
    getBackRef t i = l.slots.getD i.off 0 := by
  have hlt := (List.getElem?_eq_some_iff.mp h).1
  have hrej : getBackRefReject t.lastUsed i.main i.off = false := by
    unfold getBackRefReject Tab.lastUsed
    simp only [Bool.or_eq_false_iff, decide_eq_false_iff_not]
    constructor <;> omega
  unfold getBackRef getBackRefAccess
  rw [hrej]
  simp only [Bool.false_eq_true, ↓reduceIte, h]

theorem getBackRef_out (t : Tab) (i : Idx) (h : ¬ (i.main < t.leaves.length ∧ i.off < brMaxCnt)) : getBackRef t i = 0 := by
  by_cases hrej : getBackRefReject t.lastUsed i.main i.off = true
  · unfold getBackRef getBackRefAccess
    rw [hrej]; rfl
  · exfalso
    apply h
    unfold getBackRefReject Tab.lastUsed at hrej
    simp only [Bool.or_eq_true, decide_eq_true_eq, not_or] at hrej
    constructor <;> omega

/-- the only word `getBackRef` reads is a slot of a registered leaf: for EVERY bit pattern of the index -/
theorem getBackRefAccess_in_table (t : Tab) (i : Idx) (n b : Nat) (h : getBackRefAccess t i = some (n, b)) :
    n < t.leaves.length ∧ brSizeofBackRefBlock ≤ b ∧ b + 8 ≤ brSizeofBackRefBlock + brMaxCnt * 8 := by
  unfold getBackRefAccess at h
  split at h
  · cases h
  · rename_i hrej
    unfold getBackRefReject Tab.lastUsed at hrej
    simp only [Bool.or_eq_true, decide_eq_true_eq, not_or] at hrej
    cases h
    refine ⟨by omega, by omega, by omega⟩

theorem ext_get {t t' : Tab} (h : ExtL t.leaves t'.leaves) (i : Idx) : getBackRef t' i = getBackRef t i := by
  by_cases h2 : i.off < brMaxCnt
  · by_cases hlt : i.main < t.leaves.length
    · obtain ⟨x, hx⟩ := h.1 i.main t.leaves[i.main] (List.getElem?_eq_getElem hlt)
      rw [getBackRef_some t' i _ hx h2, getBackRef_some t i _ (List.getElem?_eq_getElem hlt) h2]
    · rw [getBackRef_out t i (fun hh => hlt hh.1)]
      cases hn : t'.leaves[i.main]? with
      | none =>
        exact getBackRef_out t' i (fun hh => by
          have := List.getElem?_eq_getElem hh.1
          rw [hn] at this; cases this)
      | some l' =>
        obtain ⟨a, x, e⟩ := h.2 i.main l' (by omega) hn
        rw [getBackRef_some t' i _ hn h2, e]
        exact getD_replicate_zero _ _
  · rw [getBackRef_out t i (fun hh => h2 hh.2), getBackRef_out t' i (fun hh => h2 hh.2)]

/-- replacing one leaf by one with the same slot words does not change what `getBackRef` returns -/
theorem getBackRef_set_same_slots (t : Tab) (n : Nat) (l l2 : Leaf) (hl : t.leaves[n]? = some l) (hs : l2.slots = l.slots) (i : Idx) :
    getBackRef ({ t with leaves := t.leaves.set n l2 } : Tab) i = getBackRef t i := by
  have hn := (List.getElem?_eq_some_iff.mp hl).1
  by_cases h2 : i.off < brMaxCnt
  · by_cases hlt : i.main < t.leaves.length
    · by_cases e : n = i.main
      · have h' : ({ t with leaves := t.leaves.set n l2 } : Tab).leaves[i.main]? = some l2 := by
          show (t.leaves.set n l2)[i.main]? = some l2
          rw [← e, List.getElem?_set_self hn]
        rw [getBackRef_some _ i _ h' h2, getBackRef_some t i l (e ▸ hl) h2, hs]
      · have h' : ({ t with leaves := t.leaves.set n l2 } : Tab).leaves[i.main]? = some t.leaves[i.main] := by
          show (t.leaves.set n l2)[i.main]? = _
          rw [List.getElem?_set_ne e, List.getElem?_eq_getElem hlt]
        rw [getBackRef_some _ i _ h' h2, getBackRef_some t i _ (List.getElem?_eq_getElem hlt) h2]
    · rw [getBackRef_out t i (fun hh => hlt hh.1)]
      exact getBackRef_out _ i (fun hh => hlt (by simpa using hh.1))
  · rw [getBackRef_out t i (fun hh => h2 hh.2)]
    exact getBackRef_out _ i (fun hh => h2 hh.2)

/-! ### `setBackRef`, `removeBackRef` -/

theorem allocated_above (l : Leaf) (off : Nat) (ha : l.allocated off = true) : bumpLeft l ≤ off := by
  obtain ⟨_, _, a3⟩ := (allocated_iff l off).mp ha
  unfold bumpLeft
  cases hb : l.bump with
  | none => simp
  | some b => have := a3 b hb; simp only []; omega

theorem live_leaf (t : Tab) (i : Idx) (h : t.live i = true) : ∃ l, t.leaves[i.main]? = some l ∧ l.allocated i.off = true := by
  unfold Tab.live at h
  cases hl : t.leaves[i.main]? with
  | none => rw [hl] at h; cases h
  | some l => rw [hl] at h; exact ⟨l, rfl, h⟩

theorem tabInv_set (t : Tab) (n : Nat) (l2 : Leaf) (hi : tabInv t) (h2 : leafInv l2) :
    tabInv ({ t with leaves := t.leaves.set n l2 } : Tab) := by
  refine ⟨hi.1, by simpa using hi.2.1, fun y hy => ?_⟩
  rcases mem_set_leaf _ _ _ _ hy with rfl | hy
  · exact h2
  · exact hi.2.2 y hy

theorem setBackRef_spec (t : Tab) (i : Idx) (v : Nat) (hi : tabInv t) (hl : t.live i = true) :
    ∃ t', setBackRef t i v = some t' ∧ tabInv t' ∧ (∀ j, t'.live j = t.live j) ∧ getBackRef t' i = v ∧
      ∀ j : Idx, (j.main ≠ i.main ∨ j.off ≠ i.off) → getBackRef t' j = getBackRef t j := by
  obtain ⟨l, hlf, ha⟩ := live_leaf t i hl
  have hn := (List.getElem?_eq_some_iff.mp hlf).1
  obtain ⟨a1, a2, _⟩ := (allocated_iff l i.off).mp ha
  have habove := allocated_above l i.off ha
  obtain ⟨⟨h1, h2, h3, h4, h5, h6⟩, hz⟩ := hi.2.2 l (List.mem_of_getElem? hlf)
  let l2 : Leaf := { l with slots := l.slots.set i.off v }
  have hinv2 : leafInv l2 := by
    refine ⟨⟨?_, h2, ?_, h4, h5, h6⟩, ?_⟩
    · show (l.slots.set i.off v).length = brMaxCnt
      simpa using h1
    · show freeChain l.base (l.slots.set i.off v) l.freeHead l.free
      exact (freeChain_set _ _ _ _ _ _ a2).mpr h3
    · intro off ho
      have hbl : bumpLeft l2 = bumpLeft l := rfl
      rw [hbl] at ho
      show (l.slots.set i.off v).getD off 0 = 0
      rw [getD_set_ne _ _ _ _ _ (by omega)]
      exact hz off ho
  refine ⟨{ t with leaves := t.leaves.set i.main l2 }, ?_, tabInv_set t i.main l2 hi hinv2, ?_, ?_, ?_⟩
  · unfold setBackRef
    rw [hl, hlf]; rfl
  · intro j
    by_cases e : j.main = i.main
    · rw [live_set_same _ _ _ _ e hn]
      unfold Tab.live; rw [e, hlf]; rfl
    · exact live_set_other _ _ _ _ e
  · have h' : ({ t with leaves := t.leaves.set i.main l2 } : Tab).leaves[i.main]? = some l2 := by
      show (t.leaves.set i.main l2)[i.main]? = some l2
      rw [List.getElem?_set_self hn]
    rw [getBackRef_some _ i _ h' a1]
    show (l.slots.set i.off v).getD i.off 0 = v
    exact getD_set_eq _ _ _ _ (by rw [h1]; exact a1)
  · intro j hj
    by_cases h2' : j.off < brMaxCnt
    · by_cases hlt : j.main < t.leaves.length
      · by_cases e : i.main = j.main
        · have h' : ({ t with leaves := t.leaves.set i.main l2 } : Tab).leaves[j.main]? = some l2 := by
            show (t.leaves.set i.main l2)[j.main]? = some l2
            rw [← e, List.getElem?_set_self hn]
          rw [getBackRef_some _ j _ h' h2', getBackRef_some t j l (e ▸ hlf) h2']
          show (l.slots.set i.off v).getD j.off 0 = _
          have : i.off ≠ j.off := by
            rcases hj with hj | hj
            · exact absurd e.symm hj
            · exact fun h => hj h.symm
          exact getD_set_ne _ _ _ _ _ this
        · have h' : ({ t with leaves := t.leaves.set i.main l2 } : Tab).leaves[j.main]? = some t.leaves[j.main] := by
            show (t.leaves.set i.main l2)[j.main]? = _
            rw [List.getElem?_set_ne e, List.getElem?_eq_getElem hlt]
          rw [getBackRef_some _ j _ h' h2', getBackRef_some t j _ (List.getElem?_eq_getElem hlt) h2']
      · rw [getBackRef_out t j (fun hh => hlt hh.1)]
        exact getBackRef_out _ j (fun hh => hlt (by simpa using hh.1))
    · rw [getBackRef_out t j (fun hh => h2' hh.2)]
      exact getBackRef_out _ j (fun hh => h2' hh.2)

theorem removeBackRef_spec (t : Tab) (i : Idx) (hi : tabInv t) (hl : t.live i = true) :
    ∃ t', removeBackRef t i = some t' ∧ tabInv t' ∧ t'.live i = false ∧
      ∀ j : Idx, (j.main ≠ i.main ∨ j.off ≠ i.off) → t'.live j = t.live j ∧ getBackRef t' j = getBackRef t j := by
  obtain ⟨l, hlf, ha⟩ := live_leaf t i hl
  have hn := (List.getElem?_eq_some_iff.mp hlf).1
  have habove := allocated_above l i.off ha
  obtain ⟨hok, hz⟩ := hi.2.2 l (List.mem_of_getElem? hlf)
  obtain ⟨r1, r2, r3, _⟩ := leafRemove_ok l i.off hok ha
  have hinv2 : leafInv (leafRemove l i.off) := by
    refine ⟨r1, fun off ho => ?_⟩
    have hbl : bumpLeft (leafRemove l i.off) = bumpLeft l := rfl
    rw [hbl] at ho
    show (l.slots.set i.off l.freeHead).getD off 0 = 0
    rw [getD_set_ne _ _ _ _ _ (by omega)]
    exact hz off ho
  let t1 : Tab := { t with leaves := t.leaves.set i.main (leafRemove l i.off) }
  have inv1 : tabInv t1 := tabInv_set t i.main _ hi hinv2
  have live1 : t1.live i = false := by
    rw [live_set_same _ _ _ _ rfl hn]; exact r2
  have other1 : ∀ j : Idx, (j.main ≠ i.main ∨ j.off ≠ i.off) → t1.live j = t.live j ∧ getBackRef t1 j = getBackRef t j := by
    intro j hj
    constructor
    · by_cases e : j.main = i.main
      · rw [live_set_same _ _ _ _ e hn]
        have : j.off ≠ i.off := by
          rcases hj with hj | hj
          · exact absurd e hj
          · exact hj
        rw [r3 _ this]
        unfold Tab.live; rw [e, hlf]
      · exact live_set_other _ _ _ _ e
    · by_cases h2' : j.off < brMaxCnt
      · by_cases hlt : j.main < t.leaves.length
        · by_cases e : i.main = j.main
          · have h' : t1.leaves[j.main]? = some (leafRemove l i.off) := by
              show (t.leaves.set i.main _)[j.main]? = _
              rw [← e, List.getElem?_set_self hn]
            rw [getBackRef_some _ j _ h' h2', getBackRef_some t j l (e ▸ hlf) h2']
            show (l.slots.set i.off l.freeHead).getD j.off 0 = _
            have : i.off ≠ j.off := by
              rcases hj with hj | hj
              · exact absurd e.symm hj
              · exact fun h => hj h.symm
            exact getD_set_ne _ _ _ _ _ this
          · have h' : t1.leaves[j.main]? = some t.leaves[j.main] := by
              show (t.leaves.set i.main _)[j.main]? = _
              rw [List.getElem?_set_ne e, List.getElem?_eq_getElem hlt]
            rw [getBackRef_some _ j _ h' h2', getBackRef_some t j _ (List.getElem?_eq_getElem hlt) h2']
        · rw [getBackRef_out t j (fun hh => hlt hh.1)]
          exact getBackRef_out _ j (fun hh => hlt (by simpa [t1] using hh.1))
      · rw [getBackRef_out t j (fun hh => h2' hh.2)]
        exact getBackRef_out _ j (fun hh => h2' hh.2)
  have hrm : removeBackRef t i = some (if (!(leafRemove l i.off).added && decide (i.main ≠ t1.active)) = true then addToForUse t1 i.main else t1) := by
    unfold removeBackRef
    rw [hl, hlf]; rfl
  by_cases hc : (!(leafRemove l i.off).added && decide (i.main ≠ t1.active)) = true
  · rw [if_pos hc] at hrm
    obtain ⟨e1, e2⟩ := addToForUse_ext t1 i.main
    refine ⟨_, hrm, tabInv_ext e1 e2 (by rw [addToForUse_ok']; exact inv1.2.1) inv1, ?_, fun j hj => ?_⟩
    · rw [ext_live e1]; exact live1
    · rw [ext_live e1, ext_get e1]; exact other1 j hj
  · rw [if_neg hc] at hrm
    exact ⟨_, hrm, inv1, live1, other1⟩

/-! ### `newBackRef` -/

theorem leafPick_bump (l : Leaf) (off : Nat) (l' : Leaf) (ok : Bool) (c : Nat) (h : leafPick l = some (off, l', ok)) :
    bumpLeft ({ l' with cnt := c } : Leaf) ≤ bumpLeft l := by
  unfold leafPick at h
  split at h
  · cases h; exact Nat.le_refl _
  · split at h
    · cases hb : l.bump with
      | none => rw [hb] at h; cases h
      | some b =>
        rw [hb] at h
        simp only [Option.some.injEq, Prod.mk.injEq] at h
        obtain ⟨_, h2, _⟩ := h
        rw [← h2]
        unfold bumpLeft
        rw [hb]
        simp only []
        split
        · rename_i h3
          split at h3
          · cases h3
          · cases h3; omega
        · omega
    · cases h

/-- what `newBackRef` promises, relative to the table it started from -/
def NewPost (large : Bool) (t : Tab) (r : Tab × Option Idx × Nat) : Prop :=
  tabInv r.1 ∧ (∀ j, getBackRef r.1 j = getBackRef t j) ∧
  match r.2.1 with
  | none => ∀ j, r.1.live j = t.live j
  | some i => t.live i = false ∧ r.1.live i = true ∧ i.large = large ∧
      ∀ j : Idx, (j.main ≠ i.main ∨ j.off ≠ i.off) → r.1.live j = t.live j

theorem NewPost_ext (large : Bool) (t t1 : Tab) (r : Tab × Option Idx × Nat) (h : ExtL t.leaves t1.leaves) (hp : NewPost large t1 r) :
    NewPost large t r := by
  obtain ⟨p1, p2, p3⟩ := hp
  refine ⟨p1, fun j => by rw [p2 j, ext_get h], ?_⟩
  cases hr : r.2.1 with
  | none =>
    rw [hr] at p3
    intro j; rw [p3 j, ext_live h]
  | some i =>
    rw [hr] at p3
    simp only [] at p3 ⊢
    obtain ⟨q1, q2, q3, q4⟩ := p3
    refine ⟨by rw [← ext_live h]; exact q1, q2, q3, fun j hj => by rw [q4 j hj, ext_live h]⟩

theorem NewPost_none (large : Bool) (t : Tab) (u : Nat) (hi : tabInv t) : NewPost large t (t, none, u) :=
  ⟨hi, fun _ => rfl, fun _ => rfl⟩

theorem newLoop_ok (large : Bool) : ∀ (fuel : Nat) (t : Tab) (raws : List (Option Nat)) (used : Nat), tabInv t →
    NewPost large t (newLoop large fuel t raws used) := by
  intro fuel
  induction fuel with
  | zero => intro t raws used hi; exact NewPost_none large t used hi
  | succ fuel ih =>
    intro t raws used hi
    unfold newLoop
    obtain ⟨f1, f2, f3⟩ := findFreeBlock_ext t raws.head?.join
    generalize findFreeBlock t raws.head?.join = p at f1 f2 f3
    obtain ⟨t1, blk, u⟩ := p
    simp only [] at f1 f2 f3 ⊢
    have inv1 : tabInv t1 := tabInv_ext f1 f2 (f3 hi.2.1) hi
    apply NewPost_ext large t t1 _ f1
    cases blk with
    | none => exact NewPost_none large t1 _ inv1
    | some n =>
      simp only []
      cases hl : t1.leaves[n]? with
      | none => exact NewPost_none large t1 _ inv1
      | some l =>
        simp only []
        have hn := (List.getElem?_eq_some_iff.mp hl).1
        obtain ⟨hok, hz⟩ := inv1.2.2 l (List.mem_of_getElem? hl)
        by_cases hc : l.cnt < brMaxCnt
        · obtain ⟨off, l', hp, ho, hna, hok', hal, hoth, _, _, hsl⟩ := leafPick_ok l hok hc
          rw [hp]
          simp only [↓reduceIte]
          have hinv2 : leafInv ({ l' with cnt := l.cnt + 1 } : Leaf) := by
            refine ⟨hok', fun o ho2 => ?_⟩
            have := leafPick_bump l off l' true (l.cnt + 1) hp
            show l'.slots.getD o 0 = 0
            rw [hsl]; exact hz o (by omega)
          let t2 : Tab := { t1 with leaves := t1.leaves.set n { l' with cnt := l.cnt + 1 } }
          have inv2 : tabInv t2 := tabInv_set t1 n _ inv1 hinv2
          have get2 : ∀ j, getBackRef t2 j = getBackRef t1 j := getBackRef_set_same_slots t1 n l _ hl hsl
          have lv1 : t1.live ⟨n, off, large⟩ = false := by
            unfold Tab.live; simp only [hl]; exact hna
          have lv2 : t2.live ⟨n, off, large⟩ = true := by
            show ({ t1 with leaves := t1.leaves.set n { l' with cnt := l.cnt + 1 } } : Tab).live ⟨n, off, large⟩ = true
            rw [live_set_same t1 n _ ⟨n, off, large⟩ rfl hn]; exact hal
          have oth2 : ∀ j : Idx, (j.main ≠ n ∨ j.off ≠ off) → t2.live j = t1.live j := by
            intro j hj
            show ({ t1 with leaves := t1.leaves.set n { l' with cnt := l.cnt + 1 } } : Tab).live j = t1.live j
            by_cases e : j.main = n
            · rw [live_set_same _ _ _ _ e hn]
              have : j.off ≠ off := by
                rcases hj with hj | hj
                · exact absurd e hj
                · exact hj
              rw [hoth _ this]
              unfold Tab.live; rw [e, hl]
            · exact live_set_other _ _ _ _ e
          have base : NewPost large t1 (t2, some ⟨n, off, large⟩, used + u) :=
            ⟨inv2, get2, lv1, lv2, rfl, oth2⟩
          cases hb : (l.cnt == 0 && t1.forUse.isEmpty) with
          | false =>
            simp only [Bool.false_eq_true, ↓reduceIte]
            exact base
          | true =>
            simp only [↓reduceIte]
            obtain ⟨r1, r2, r3⟩ := requestNewSpace_ext t2 (raws.drop u).head?.join
            generalize requestNewSpace t2 (raws.drop u).head?.join = q at r1 r2 r3
            obtain ⟨t3, ok3, u3⟩ := q
            simp only [] at r1 r2 r3 ⊢
            refine ⟨tabInv_ext r1 r2 (r3 inv2.2.1) inv2, fun j => by rw [ext_get r1, get2], lv1, ?_, rfl, fun j hj => ?_⟩
            · rw [ext_live r1]; exact lv2
            · rw [ext_live r1]; exact oth2 j hj
        · rw [leafPick_full l hok hc]
          simp only []
          exact ih t1 _ _ inv1

theorem newBackRef_ok (t : Tab) (large : Bool) (raws : List (Option Nat)) (hi : tabInv t) :
    NewPost large t (newBackRef t large raws) := newLoop_ok large 4 t raws 0 hi

/-! ### every reachable state -/

theorem step_inv (t : Tab) (op : Op) (hi : tabInv t) : tabInv (step t op).1 := by
  cases op with
  | new large raws =>
    have := (newBackRef_ok t large raws hi).1
    simp only [step]
    generalize newBackRef t large raws = r at this
    obtain ⟨t', r2, u⟩ := r
    exact this
  | set i v =>
    simp only [step]
    cases hs : setBackRef t i v with
    | none => exact hi
    | some t' =>
      have hl : t.live i = true := by
        unfold setBackRef at hs
        cases h : t.live i with
        | true => rfl
        | false => rw [h] at hs; cases hs
      obtain ⟨t'', e, inv, _⟩ := setBackRef_spec t i v hi hl
      rw [hs] at e; cases e; exact inv
  | rm i =>
    simp only [step]
    cases hs : removeBackRef t i with
    | none => exact hi
    | some t' =>
      have hl : t.live i = true := by
        unfold removeBackRef at hs
        cases h : t.live i with
        | true => rfl
        | false => rw [h] at hs; cases hs
      obtain ⟨t'', e, inv, _⟩ := removeBackRef_spec t i hi hl
      rw [hs] at e; cases e; exact inv

theorem init_inv (mainAddr : Nat) : tabInv (initTab mainAddr) := by
  unfold initTab
  simp only []
  let t0 : Tab := { leaves := [emptyLeaf (mainAddr + brMainBytes + 0 * brBlockBytes), emptyLeaf (mainAddr + brMainBytes + 1 * brBlockBytes),
      emptyLeaf (mainAddr + brMainBytes + 2 * brBlockBytes), emptyLeaf (mainAddr + brMainBytes + 3 * brBlockBytes)], active := 0, forUse := [] }
  have h0 : tabInv t0 := by
    refine ⟨rfl, (by decide : 4 ≤ brDataSz), fun l hl => ?_⟩
    simp only [t0, List.mem_cons, List.not_mem_nil, or_false] at hl
    rcases hl with rfl | rfl | rfl | rfl <;> exact emptyLeaf_inv _
  have step : ∀ (t : Tab) (n : Nat), tabInv t → tabInv (addToForUse t n) := fun t n h => by
    obtain ⟨e1, e2⟩ := addToForUse_ext t n
    exact tabInv_ext e1 e2 (by rw [addToForUse_ok']; exact h.2.1) h
  exact step _ 3 (step _ 2 (step t0 1 h0))

theorem inv_run (mainAddr : Nat) (ops : List Op) : tabInv ((machine mainAddr).run ops).1 :=
  (machine mainAddr).inv_run tabInv (init_inv mainAddr) (fun s o h => step_inv s o h) ops

/-! ### what a slot that is NOT handed out holds -/

theorem chain_word (base : Nat) (slots : List Nat) : ∀ (fr : List Nat) (head : Nat), freeChain base slots head fr →
    ∀ o ∈ fr, slots.getD o 0 = 0 ∨ ∃ o', o' < brMaxCnt ∧ slots.getD o 0 = slotAddr base o' := by
  intro fr
  induction fr with
  | nil => intro _ _ o ho; cases ho
  | cons x rest ih =>
    intro head hc o ho
    unfold freeChain at hc
    obtain ⟨_, _, c3⟩ := hc
    rcases List.mem_cons.mp ho with rfl | ho
    · cases rest with
      | nil => unfold freeChain at c3; exact Or.inl c3
      | cons y r2 =>
        unfold freeChain at c3
        exact Or.inr ⟨y, c3.2.1, c3.1⟩
    · exact ih _ c3 o ho

/-- a slot that is not handed out holds null or the address of a slot of the same leaf — never an object address -/
theorem free_word (l : Leaf) (hi : leafInv l) (off : Nat) (ho : off < brMaxCnt) (hna : l.allocated off = false) :
    l.slots.getD off 0 = 0 ∨ ∃ o', o' < brMaxCnt ∧ l.slots.getD off 0 = slotAddr l.base o' := by
  obtain ⟨⟨h1, h2, h3, h4, h5, h6⟩, hz⟩ := hi
  by_cases hf : off ∈ l.free
  · exact chain_word _ _ _ _ h3 off hf
  · left
    apply hz
    -- not on the free list and not handed out: below the bump pointer
    cases hb : l.bump with
    | none =>
      exfalso
      have : l.allocated off = true := (allocated_iff l off).mpr ⟨ho, hf, fun b h => by rw [hb] at h; cases h⟩
      rw [this] at hna; cases hna
    | some b =>
      unfold bumpLeft; rw [hb]; simp only []
      by_cases hgt : (off : Int) > b
      · exfalso
        have : l.allocated off = true := (allocated_iff l off).mpr ⟨ho, hf, fun b' h => by rw [hb] at h; cases h; exact hgt⟩
        rw [this] at hna; cases hna
      · omega

theorem getBackRef_not_live (t : Tab) (hi : tabInv t) (i : Idx) (hl : t.live i = false) :
    getBackRef t i = 0 ∨ ∃ l ∈ t.leaves, ∃ o', o' < brMaxCnt ∧ getBackRef t i = slotAddr l.base o' := by
  by_cases hin : i.main < t.leaves.length ∧ i.off < brMaxCnt
  · have hlf := List.getElem?_eq_getElem hin.1
    have hmem : t.leaves[i.main] ∈ t.leaves := List.getElem_mem hin.1
    rw [getBackRef_some t i _ hlf hin.2]
    have hna : t.leaves[i.main].allocated i.off = false := by
      unfold Tab.live at hl; rw [hlf] at hl; exact hl
    rcases free_word _ (hi.2.2 _ hmem) i.off hin.2 hna with h | ⟨o', h1, h2⟩
    · exact Or.inl h
    · exact Or.inr ⟨_, hmem, o', h1, h2⟩
  · exact Or.inl (getBackRef_out t i hin)

/-- a non-null word that is not the address of a table slot can only come out of `getBackRef` through a LIVE index -/
theorem getBackRef_live_of_foreign (t : Tab) (hi : tabInv t) (i : Idx) (h : Nat) (hg : getBackRef t i = h) (h0 : h ≠ 0)
    (hfor : ∀ l ∈ t.leaves, ∀ o, o < brMaxCnt → slotAddr l.base o ≠ h) : t.live i = true := by
  cases hl : t.live i with
  | true => rfl
  | false =>
    exfalso
    rcases getBackRef_not_live t hi i hl with hz | ⟨l, hm, o', ho, he⟩
    · exact h0 (hg ▸ hz)
    · exact hfor l hm o' ho (by rw [← he, hg])

end TbbVerif.C17.BR
