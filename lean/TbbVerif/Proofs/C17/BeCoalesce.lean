/-
C17 back end — `queuePut`, `coLeft`, `coRight`, `doCoalesc` keep the local invariant.
-/
import TbbVerif.Proofs.C17.BeBins

namespace TbbVerif.C17.BE
open TbbVerif.Generated.C17Backend

/-- unfold the generated constants that the arithmetic needs -/
macro "bconst" : tactic =>
  `(tactic| simp only [gsLocked, gsCoalBlock, gsMaxLockedVal, gsLastRegionBlock, gsMaxSpecVal, beMinBlockSize,
      beSizeofLastFreeBlock, beMinBinnedSize, beSlabSize] at *)

theorem blkOK_leftL (cfg : Cfg) (rt a : Nat) (b : Blk) (x : Nat) : blkOK cfg rt a { b with leftL := x } ↔ blkOK cfg rt a b := by
  unfold blkOK; rfl

theorem sblk_leftL (cfg : Cfg) (rt a : Nat) (b : Blk) (x : Nat) : sblk cfg rt a { b with leftL := x } ↔ sblk cfg rt a b := by
  unfold sblk blkOK; rfl

theorem entryOf_leftL (a : Nat) (b : Blk) (x : Nat) : entryOf a { b with leftL := x } = entryOf a b := rfl

theorem entryOf_held (a : Nat) (b : Blk) (h : b.own = .held) (hin : b.inBin = false) : entryOf a b = [] := by
  simp [entryOf, hasEntry, h, hin]

theorem entryOf_queued (a : Nat) (b : Blk) (h : b.own = .queued) (hin : b.inBin = false) : entryOf a b = [] := by
  simp [entryOf, hasEntry, h, hin]

theorem blkOK_held (cfg : Cfg) (rt a : Nat) (b : Blk) (h : b.own = .held) : blkOK cfg rt a b ↔
    (b.myL ≤ gsMaxLockedVal ∧ beMinBlockSize ≤ b.size ∧ (cfg.fixedPool = false → b.aligned = decide (rt = beRegSlab))) ∧
    (cfg.fixedPool = false → rt = beRegSlab → (a + b.size) % beSlabSize = 0) := by
  unfold blkOK; rw [h]; simp

theorem blkOK_queued (cfg : Cfg) (rt a : Nat) (b : Blk) (h : b.own = .queued) : blkOK cfg rt a b ↔
    b.inBin = false ∧
    (b.myL = gsLocked ∧ b.sizeTmp = b.size ∧ beMinBlockSize ≤ b.size ∧ (cfg.fixedPool = false → b.aligned = decide (rt = beRegSlab))) ∧
    (cfg.fixedPool = false → rt = beRegSlab → (a + b.size) % beSlabSize = 0) := by
  unfold blkOK; rw [h]; simp

theorem blkOK_free (cfg : Cfg) (rt a : Nat) (b : Blk) (h : b.own = .free) : blkOK cfg rt a b ↔
    b.inBin = false ∧
    (b.myL = b.size ∧ beMinBlockSize ≤ b.size ∧ (b.myBin = -1 ∨ (b.myBin = sizeToBin b.size ∧ beMinBinnedSize ≤ b.size)) ∧
      (if cfg.fixedPool then (b.myBin ≠ -1 → b.aligned = true → (a + b.size) % beSlabSize = 0) else b.aligned = decide (rt = beRegSlab))) ∧
    (cfg.fixedPool = false → rt = beRegSlab → (a + b.size) % beSlabSize = 0) := by
  unfold blkOK; rw [h]; simp

/-- every block but the last ends on a slab boundary in a slab region of a pool that is not fixed -/
theorem blk_end_aligned (cfg : Cfg) (rt a : Nat) (b : Blk) (h : blkOK cfg rt a b) (hl : b.own ≠ .last)
    (hf : cfg.fixedPool = false) (hs : rt = beRegSlab) : (a + b.size) % beSlabSize = 0 := by
  unfold blkOK at h; exact h.2.2 hf hs hl

/-- the tag of a block that is not the last one: a size (free block) or LOCKED / COAL_BLOCK -/
theorem tag_cases (cfg : Cfg) (rt a : Nat) (b : Blk) (h : blkOK cfg rt a b) (hl : b.own ≠ .last) :
    (b.own = .free ∧ b.myL = b.size ∧ beMinBlockSize ≤ b.size ∧ b.inBin = false) ∨ (b.own ≠ .free ∧ b.myL ≤ gsMaxLockedVal) := by
  unfold blkOK at h
  obtain ⟨h0, h1, _⟩ := h
  cases hown : b.own with
  | free =>
    rw [hown] at h1
    refine Or.inl ⟨rfl, h1.1, h1.2.1, ?_⟩
    cases hb : b.inBin with
    | false => rfl
    | true => have := h0 hb; rw [hown] at this; cases this
  | user al => rw [hown] at h1; exact Or.inr ⟨by simp, by rw [h1.1]; bconst; omega⟩
  | coal al => rw [hown] at h1; exact Or.inr ⟨by simp, by rw [h1.1]; bconst; omega⟩
  | held => rw [hown] at h1; exact Or.inr ⟨by simp, h1.1⟩
  | queued => rw [hown] at h1; exact Or.inr ⟨by simp, by rw [h1.1]; bconst; omega⟩
  | last => exact absurd hown hl

theorem size_ge (cfg : Cfg) (rt a : Nat) (b : Blk) (h : blkOK cfg rt a b) (hl : b.own ≠ .last) : beMinBlockSize ≤ b.size := by
  unfold blkOK at h
  obtain ⟨_, h1, _⟩ := h
  cases hown : b.own with
  | free => rw [hown] at h1; exact h1.2.1
  | user al => rw [hown] at h1; exact h1.2.1
  | coal al => rw [hown] at h1; exact h1.2.2.1
  | held => rw [hown] at h1; exact h1.2.1
  | queued => rw [hown] at h1; exact h1.2.2.1
  | last => exact absurd hown hl

/-- `CoalRequestQ::putBlock` on a held block that is in no bin: the block is queued, everything else is as before -/
theorem queuePut_spec (cfg : Cfg) (rt first endA : Nat) (F : Frame) (g : Glob) (z : Zip)
    (h : LInv cfg rt first endA F g z) (hown : z.cur.own = .held) (hst : z.cur.sizeTmp = z.cur.size)
    (hin : z.cur.inBin = false) :
    LInv cfg rt first endA F (queuePut g z).1 (queuePut g z).2 ∧ (queuePut g z).2.cur.own = .queued ∧
    (queuePut g z).2.pre = z.pre ∧ (queuePut g z).2.cur.leftL = z.cur.leftL ∧ (queuePut g z).1.delay = g.delay ∧
    (queuePut g z).1.binLocked = g.binLocked := by
  have hnl : z.post ≠ [] := by
    intro hp; have := h.curLast.mpr hp; rw [hown] at this; cases this
  cases hp : z.post with
  | nil => exact absurd hp hnl
  | cons r post1 =>
    unfold queuePut
    simp only [hp, hst, ne_eq, not_true_eq_false, if_false]
    have hpost := h.post
    rw [hp] at hpost
    unfold chainOK at hpost
    obtain ⟨p1, p2s, p3, p4⟩ := hpost
    have p2 := p2s.1
    have hcur := h.cur
    have hsz := size_ge _ _ _ _ hcur (by rw [hown]; simp)
    refine ⟨⟨h.not_bad, h.cfg_eq, h.addr, h.pre, ?_, ?_, ?_, ?_, h.mask, ?_⟩, trivial, trivial, trivial, trivial, trivial⟩
    · -- cur
      unfold blkOK at hcur ⊢
      obtain ⟨_, c2, c3⟩ := hcur
      rw [hown] at c2
      refine ⟨by simp [hin], ?_, ?_⟩
      · exact ⟨rfl, rfl, hsz, c2.2.2⟩
      · intro hf hs _
        exact c3 hf hs (by rw [hown]; simp)
    · simp
    · unfold chainOK
      exact ⟨rfl, (sblk_leftL _ _ _ _ _).mpr p2s, p3, p4⟩
    · have := h.bins
      unfold zEntries at this ⊢
      rw [hp] at this
      simp only [entriesOf, entryOf, hasEntry, hown, hin] at this ⊢
      simpa using this
    · have := h.queue
      unfold zQueued at this ⊢
      rw [hp] at this
      simp only [hown, queuedOf] at this ⊢
      simp only [reduceCtorEq, if_false, List.nil_append] at this
      simp only [if_true]
      refine (List.Perm.cons z.addr this).trans ?_
      rw [List.perm_iff_count]
      intro x
      simp only [List.count_cons, List.count_append, List.count_nil]
      omega

/-- the left half of `doCoalesc` -/
theorem coLeft_spec (cfg : Cfg) (rt first endA : Nat) (F : Frame) (g : Glob) (z : Zip) (leftSz : Nat)
    (h : LInv cfg rt first endA F g z) (hown : z.cur.own = .held) (hst : z.cur.sizeTmp = z.cur.size)
    (hin : z.cur.inBin = false) (hmy : z.cur.myL = gsCoalBlock)
    (hl : leftSz = lastTag gsLocked z.pre.reverse)
    (hcl : z.cur.leftL = if leftSz > gsMaxLockedVal then gsCoalBlock else leftSz)
    (g' : Glob) (z' : Zip) (go : Bool) (heq : coLeft g z leftSz = (g', z', go)) :
    LInv cfg rt first endA F g' z' ∧ LeftLink z' ∧ g'.delay = g.delay ∧ g'.binLocked = g.binLocked ∧
    (go = true → z'.cur.own = .held ∧ z'.cur.sizeTmp = z'.cur.size ∧ z'.cur.myL = gsCoalBlock ∧ z'.post = z.post ∧
        z'.addr + z'.cur.size = z.addr + z.cur.size) ∧
    (go = false → z'.cur.own = .queued) := by
  unfold coLeft at heq
  by_cases h0 : leftSz = gsLocked
  · simp only [h0, if_true, Prod.mk.injEq] at heq
    obtain ⟨rfl, rfl, rfl⟩ := heq
    refine ⟨h, ?_, rfl, rfl, fun _ => ⟨hown, hst, hmy, rfl, rfl⟩, (by intro hf; cases hf)⟩
    unfold LeftLink
    rw [hcl, ← hl, h0]; bconst; simp
  · simp only [h0, if_false] at heq
    by_cases h1 : leftSz = gsCoalBlock
    · simp only [h1, if_true, Prod.mk.injEq] at heq
      obtain ⟨rfl, rfl, rfl⟩ := heq
      obtain ⟨q1, q2, q3, q4, q5, q6⟩ := queuePut_spec cfg rt first endA F g z h hown hst hin
      refine ⟨q1, ?_, q5, q6, (by intro hf; cases hf), fun _ => q2⟩
      unfold LeftLink
      rw [q3, q4, hcl, ← hl, h1]; bconst; simp
    · simp only [h1, if_false] at heq
      cases hp : z.pre with
      | nil =>
        rw [hp] at hl
        simp at hl
        exact absurd hl h0
      | cons l pre1 =>
        have hpre := h.pre
        rw [hp, List.reverse_cons, chainPre_append] at hpre
        obtain ⟨hpre1, hl1⟩ := hpre
        unfold chainPre at hl1
        obtain ⟨l1, l2s, l3, _⟩ := hl1
        have l2 := l2s.1
        rw [hp, List.reverse_cons, lastTag_snoc] at hl
        have haddr := h.addr
        rw [hp, sumSizes_cons] at haddr
        rw [sumSizes_reverse] at l2
        rcases tag_cases _ _ _ _ l2 l3 with ⟨lf, lmy, lsz, lin⟩ | ⟨_, lle⟩
        · have e1 : l.size = leftSz := by rw [hl, lmy]
          have e2 : ¬ (leftSz ≤ gsMaxLockedVal) := by rw [← e1]; bconst; omega
          have e3 : l.myL = leftSz := hl.symm
          simp only [hp, e1, ne_eq, not_true_eq_false, if_false, e2, e3, Prod.mk.injEq] at heq
          obtain ⟨rfl, rfl, rfl⟩ := heq
          have e4 : z.addr - leftSz + (leftSz + z.cur.size) = z.addr + z.cur.size := by omega
          have e5 : z.addr - leftSz = first + sumSizes pre1 := by omega
          refine ⟨⟨h.not_bad, h.cfg_eq, e5, hpre1, ?_, ?_, ?_, ?_, h.mask, ?_⟩, l1, rfl, rfl,
            fun _ => ⟨rfl, ?_, rfl, rfl, e4⟩, (by intro hf; cases hf)⟩
          · -- the merged block
            have hc := h.cur
            unfold blkOK at hc ⊢
            refine ⟨fun _ => rfl, ?_, ?_⟩
            · show gsCoalBlock ≤ gsMaxLockedVal ∧ beMinBlockSize ≤ leftSz + z.cur.size ∧ (cfg.fixedPool = false → l.aligned = decide (rt = beRegSlab))
              refine ⟨by bconst; omega, by bconst; omega, ?_⟩
              intro hf
              have l2' := l2
              unfold blkOK at l2'
              have := l2'.2.1
              rw [lf] at this
              have h4 := this.2.2.2
              rw [hf] at h4
              simpa using h4
            · intro hf hs _
              have := hc.2.2 hf hs (by rw [hown]; simp)
              show (z.addr - leftSz + (leftSz + z.cur.size)) % beSlabSize = 0
              rw [e4]; exact this
          · constructor
            · intro hx; cases hx
            · intro hp2; have := h.curLast.mpr hp2; rw [hown] at this; cases this
          · have hpo := h.post
            show chainOK cfg rt endA (z.addr - leftSz + (leftSz + z.cur.size)) gsCoalBlock z.post
            rw [e4, ← hmy]; exact hpo
          · have hb := h.bins
            unfold zEntries at hb ⊢
            rw [hp, List.reverse_cons, entriesOf_append, sumSizes_reverse] at hb
            simp only [entriesOf, List.append_nil] at hb
            rw [entryOf_held _ _ hown hin] at hb
            show g.bins.Perm (F.ents ++ (entriesOf first pre1.reverse ++ (entryOf (z.addr - leftSz) _ ++
              entriesOf (z.addr - leftSz + (leftSz + z.cur.size)) z.post)))
            rw [e4, e5]
            have e6 : entryOf (first + sumSizes pre1) { l with myL := gsCoalBlock, inBin := true, sizeTmp := z.cur.sizeTmp + leftSz, size := leftSz + z.cur.size, own := Own.held } = entryOf (first + sumSizes pre1) l := by
              simp [entryOf, hasEntry, lf]
            rw [e6]
            simpa [List.append_assoc] using hb
          · have hq := h.queue
            unfold zQueued at hq ⊢
            rw [hp, List.reverse_cons, queuedOf_append, sumSizes_reverse] at hq
            simp only [queuedOf, lf, hown, reduceCtorEq, if_false, List.append_nil, List.nil_append] at hq
            show g.queue.Perm (F.qs ++ (queuedOf first pre1.reverse ++ ((if Own.held = Own.queued then [z.addr - leftSz] else []) ++
              queuedOf (z.addr - leftSz + (leftSz + z.cur.size)) z.post)))
            rw [e4]
            simpa using hq
          · show z.cur.sizeTmp + leftSz = leftSz + z.cur.size
            omega
        · exfalso
          rw [← hl] at lle
          bconst; omega

theorem last_tag (cfg : Cfg) (rt a : Nat) (b : Blk) (h : blkOK cfg rt a b) : b.own = .last ↔ b.myL = gsLastRegionBlock := by
  constructor
  · intro hl
    unfold blkOK at h
    rw [hl] at h
    exact h.2.1.1
  · intro hm
    cases ho : b.own with
    | last => rfl
    | _ =>
      exfalso
      rcases tag_cases _ _ _ _ h (by rw [ho]; simp) with ⟨_, h1, h2, _⟩ | ⟨_, h2⟩ <;> (rw [hm] at *; bconst; omega)

theorem blk_inBin_false_eq (b : Blk) (h : b.inBin = false) : { b with inBin := false } = b := by
  cases b; simp_all

/-- `coGiveUp`: the (possibly merged) block is unlinked from its bin and queued -/
theorem coGiveUp_spec (cfg : Cfg) (rt first endA : Nat) (F : Frame) (g : Glob) (z : Zip)
    (h : LInv cfg rt first endA F g z) (hlink : LeftLink z) (hown : z.cur.own = .held) (hst : z.cur.sizeTmp = z.cur.size)
    (g' : Glob) (z' : Zip) (out : CoOut) (heq : coGiveUp g z = (g', z', out)) :
    LInv cfg rt first endA F g' z' ∧ LeftLink z' ∧ g'.delay = g.delay ∧ g'.binLocked = g.binLocked ∧
    out = .queued ∧ z'.cur.own = .queued := by
  unfold coGiveUp at heq
  simp only [Prod.mk.injEq] at heq
  obtain ⟨rfl, rfl, rfl⟩ := heq
  -- state after the (possible) unlinking, with `blockInBin` cleared
  have key : ∃ g1 : Glob, g1 = (if z.cur.inBin = true then g.removeBlockFromBin z.addr z.cur else g) ∧
      LInv cfg rt first endA F g1 { z with cur := { z.cur with inBin := false } } ∧ g1.delay = g.delay ∧ g1.binLocked = g.binLocked := by
    refine ⟨_, rfl, ?_⟩
    cases hin : z.cur.inBin with
    | false =>
      rw [if_neg (by simp), blk_inBin_false_eq z.cur hin]
      exact ⟨h, rfl, rfl⟩
    | true =>
      rw [if_pos rfl]
      have hb := h.bins
      unfold zEntries at hb
      have hb' : g.bins.Perm ((F.ents ++ entriesOf first z.pre.reverse) ++ (entryOf z.addr z.cur ++ entriesOf (z.addr + z.cur.size) z.post)) := by
        simpa [List.append_assoc] using hb
      obtain ⟨r1, r2, r3, r4, r5, r6, r7⟩ := removeBlockFromBin_spec g z.addr z.cur _ _ hb' (Or.inr hin) h.mask
      refine ⟨⟨by rw [r3]; exact h.not_bad, by rw [r5]; exact h.cfg_eq, h.addr, h.pre, ?_, ?_, h.post, ?_, r2, ?_⟩, r7, r6⟩
      · have hc := h.cur
        unfold blkOK at hc ⊢
        exact ⟨by simp, hc.2.1, hc.2.2⟩
      · exact h.curLast
      · unfold zEntries
        show (g.removeBlockFromBin z.addr z.cur).bins.Perm (F.ents ++ (entriesOf first z.pre.reverse ++
          (entryOf z.addr { z.cur with inBin := false } ++ entriesOf (z.addr + z.cur.size) z.post)))
        have e0 : entryOf z.addr ({ z.cur with inBin := false } : Blk) = [] := entryOf_held _ _ hown rfl
        rw [e0]
        simpa [List.append_assoc] using r1
      · rw [r4]; exact h.queue
  obtain ⟨g1, hg1, hl1, hd1, hb1⟩ := key
  rw [← hg1]
  obtain ⟨q1, q2, q3, q4, q5, q6⟩ := queuePut_spec cfg rt first endA F g1 _ hl1 hown hst rfl
  refine ⟨q1, ?_, by rw [q5, hd1], by rw [q6, hb1], rfl, q2⟩
  unfold LeftLink at hlink ⊢
  rw [q3, q4]; exact hlink

/-- what `doCoalesc` leaves when it returns a block: the block is held with COAL tags around it -/
structure CoDone (cfg : Cfg) (rt first endA : Nat) (F : Frame) (g0 g' : Glob) (z' : Zip) (lastRight : Bool) : Prop where
  inv : LInv cfg rt first endA F g' z'
  link : LeftLink z'
  own : z'.cur.own = .held
  st : z'.cur.sizeTmp = z'.cur.size
  my : z'.cur.myL = gsCoalBlock
  right : ∃ r post, z'.post = r :: post ∧ (lastRight = true ↔ r.own = .last)
  delay : g'.delay = g0.delay
  locked : g'.binLocked = g0.binLocked

/-- the right half of `doCoalesc` -/
theorem coRight_spec (cfg : Cfg) (rt first endA : Nat) (F : Frame) (g : Glob) (z : Zip)
    (h : LInv cfg rt first endA F g z) (hlink : LeftLink z) (hown : z.cur.own = .held) (hst : z.cur.sizeTmp = z.cur.size)
    (hmy : z.cur.myL = gsCoalBlock)
    (g' : Glob) (z' : Zip) (out : CoOut) (heq : coRight g z = (g', z', out)) :
    (∀ lr, out = .merged lr → CoDone cfg rt first endA F g g' z' lr) ∧
    (out = .queued → LInv cfg rt first endA F g' z' ∧ LeftLink z' ∧ z'.cur.own = .queued ∧ g'.delay = g.delay ∧ g'.binLocked = g.binLocked) := by
  have hnl : z.post ≠ [] := by
    intro hp; have := h.curLast.mpr hp; rw [hown] at this; cases this
  unfold coRight at heq
  cases hp : z.post with
  | nil => exact absurd hp hnl
  | cons r post1 =>
    have hpost := h.post
    rw [hp] at hpost
    unfold chainOK at hpost
    obtain ⟨p1, p2s, p3, p4⟩ := hpost
    have p2 := p2s.1
    simp only [hp] at heq
    by_cases c0 : r.myL = gsLocked
    · simp only [c0, if_true, Prod.mk.injEq] at heq
      obtain ⟨rfl, rfl, rfl⟩ := heq
      refine ⟨?_, ?_⟩
      · intro lr hlr
        cases hlr
        refine ⟨h, hlink, hown, hst, hmy, ⟨r, post1, hp, ?_⟩, rfl, rfl⟩
        constructor
        · intro hf; cases hf
        · intro hl; have := (last_tag _ _ _ _ p2).mp hl; rw [c0] at this; bconst; omega
      · intro hq; cases hq
    · simp only [c0, if_false] at heq
      by_cases c2 : r.myL = gsLastRegionBlock
      · simp only [c2, if_true, Prod.mk.injEq] at heq
        obtain ⟨rfl, rfl, rfl⟩ := heq
        refine ⟨?_, ?_⟩
        · intro lr hlr
          cases hlr
          exact ⟨h, hlink, hown, hst, hmy, ⟨r, post1, hp, ⟨fun _ => (last_tag _ _ _ _ p2).mpr c2, fun _ => rfl⟩⟩, rfl, rfl⟩
        · intro hq; cases hq
      · simp only [c2, if_false] at heq
        by_cases c1 : r.myL = gsCoalBlock
        · simp only [c1, if_true] at heq
          obtain ⟨q1, q2, q3, q4, q5, q6⟩ := coGiveUp_spec cfg rt first endA F g z h hlink hown hst g' z' out heq
          subst q5
          refine ⟨?_, ?_⟩
          · intro lr hlr; cases hlr
          · intro _; exact ⟨q1, q2, q6, q3, q4⟩
        · simp only [c1, if_false] at heq
          have rnl : r.own ≠ .last := fun hl => c2 ((last_tag _ _ _ _ p2).mp hl)
          rcases tag_cases _ _ _ _ p2 rnl with ⟨rf, rmy, rsz, rin⟩ | ⟨_, rle⟩
          · have hp1 : post1 ≠ [] := fun hh => rnl (p3.mpr hh)
            cases hp1' : post1 with
            | nil => exact absurd hp1' hp1
            | cons rr post2 =>
              rw [hp1'] at p4 heq
              unfold chainOK at p4
              obtain ⟨s1, s2s, s3, s4⟩ := p4
              have s2 := s2s.1
              have e1 : ¬ (r.size ≠ r.myL) := by rw [rmy]; simp
              have e2 : ¬ (rr.leftL ≤ gsMaxLockedVal) := by rw [s1, rmy]; bconst; omega
              have e3 : ¬ (rr.leftL ≠ r.myL) := by rw [s1]; simp
              simp only [e1, if_false, e2, e3] at heq
              simp only [Prod.mk.injEq] at heq
              obtain ⟨rfl, rfl, rfl⟩ := heq
              -- the entry of the absorbed right neighbour leaves the bins
              have hb := h.bins
              unfold zEntries at hb
              rw [hp, hp1'] at hb
              simp only [entriesOf] at hb
              have hb' : g.bins.Perm ((F.ents ++ (entriesOf first z.pre.reverse ++ entryOf z.addr z.cur)) ++
                  (entryOf (z.addr + z.cur.size) r ++ (entryOf (z.addr + z.cur.size + r.size) rr ++ entriesOf (z.addr + z.cur.size + r.size + rr.size) post2))) := by
                simpa [List.append_assoc] using hb
              obtain ⟨r1, r2, r3, r4, r5, r6, r7⟩ := removeBlockFromBin_spec g (z.addr + z.cur.size) r _ _ hb' (Or.inl rf) h.mask
              refine ⟨?_, ?_⟩
              · intro lr hlr
                cases hlr
                have hcur := (blkOK_held _ _ _ _ hown).mp h.cur
                have eA : z.addr + (z.cur.size + r.size) = z.addr + z.cur.size + r.size := by omega
                refine ⟨⟨by rw [r3]; exact h.not_bad, by rw [r5]; exact h.cfg_eq, h.addr, h.pre, ?_, ?_, ?_, ?_, r2, ?_⟩, hlink, hown, ?_, hmy,
                  ⟨_, post2, rfl, ?_⟩, r7, r6⟩
                · -- merged block
                  refine (blkOK_held cfg rt z.addr ({ z.cur with sizeTmp := z.cur.sizeTmp + r.myL, size := z.cur.size + r.size }) hown).mpr ⟨⟨hcur.1.1, ?_, hcur.1.2.2⟩, ?_⟩
                  · show beMinBlockSize ≤ z.cur.size + r.size
                    have := hcur.1.2.1; omega
                  · intro hf hs
                    show (z.addr + (z.cur.size + r.size)) % beSlabSize = 0
                    rw [eA]; exact blk_end_aligned _ _ _ _ p2 rnl hf hs
                · constructor
                  · intro hx; rw [hown] at hx; cases hx
                  · intro hx; cases hx
                · show chainOK cfg rt endA (z.addr + (z.cur.size + r.size)) z.cur.myL ({ rr with leftL := gsCoalBlock } :: post2)
                  unfold chainOK
                  rw [eA]
                  exact ⟨hmy.symm, (sblk_leftL _ _ _ _ _).mpr s2s, s3, s4⟩
                · unfold zEntries
                  show (g.removeBlockFromBin (z.addr + z.cur.size) r).bins.Perm (F.ents ++ (entriesOf first z.pre.reverse ++
                    (entryOf z.addr { z.cur with sizeTmp := z.cur.sizeTmp + r.myL, size := z.cur.size + r.size } ++
                      entriesOf (z.addr + (z.cur.size + r.size)) ({ rr with leftL := gsCoalBlock } :: post2))))
                  have e6 : entryOf z.addr { z.cur with sizeTmp := z.cur.sizeTmp + r.myL, size := z.cur.size + r.size } = entryOf z.addr z.cur := rfl
                  rw [e6, eA]
                  simp only [entriesOf, entryOf_leftL]
                  simpa [List.append_assoc] using r1
                · rw [r4]
                  have hq := h.queue
                  unfold zQueued at hq ⊢
                  rw [hp, hp1'] at hq
                  show g.queue.Perm (F.qs ++ (queuedOf first z.pre.reverse ++ ((if z.cur.own = Own.queued then [z.addr] else []) ++
                    queuedOf (z.addr + (z.cur.size + r.size)) ({ rr with leftL := gsCoalBlock } :: post2))))
                  rw [eA]
                  simp only [queuedOf, rf, reduceCtorEq, if_false, List.nil_append] at hq ⊢
                  exact hq
                · show z.cur.sizeTmp + r.myL = z.cur.size + r.size
                  rw [hst, rmy]
                · show (decide (rr.myL = gsLastRegionBlock) = true ↔ rr.own = Own.last)
                  rw [decide_eq_true_eq]
                  exact ((last_tag _ _ _ _ s2).symm)
              · intro hq; cases hq
          · exfalso
            bconst; omega

/-- `Backend::doCoalesc` on a held block: either the (merged) block comes back held with COAL tags around it, or the
request is queued; the local invariant holds afterwards -/
theorem doCoalesc_spec (cfg : Cfg) (rt first endA : Nat) (F : Frame) (g : Glob) (z : Zip)
    (h : LInv cfg rt first endA F g z) (hlink : LeftLink z) (hown : z.cur.own = .held) (hst : z.cur.sizeTmp = z.cur.size)
    (hin : z.cur.inBin = false)
    (g' : Glob) (z' : Zip) (out : CoOut) (heq : doCoalesc g z = (g', z', out)) :
    (∀ lr, out = .merged lr → CoDone cfg rt first endA F g g' z' lr) ∧
    (out = .queued → LInv cfg rt first endA F g' z' ∧ LeftLink z' ∧ z'.cur.own = .queued ∧ g'.delay = g.delay ∧ g'.binLocked = g.binLocked) := by
  have hnl : z.post ≠ [] := by
    intro hp; have := h.curLast.mpr hp; rw [hown] at this; cases this
  unfold doCoalesc at heq
  cases hp : z.post with
  | nil => exact absurd hp hnl
  | cons r post1 =>
    have hne : ¬ (z.cur.sizeTmp ≠ z.cur.size) := by simp [hst]
    simp only [hp, hne, if_false] at heq
    have hpost := h.post
    rw [hp] at hpost
    unfold chainOK at hpost
    obtain ⟨p1, p2s, p3, p4⟩ := hpost
    have p2 := p2s.1
    have hcur := (blkOK_held _ _ _ _ hown).mp h.cur
    -- the state after markCoalescing and trySetLeftUsed
    let f' : Blk := { z.cur with myL := gsCoalBlock, inBin := false, leftL := if z.cur.leftL > gsMaxLockedVal then gsCoalBlock else z.cur.leftL }
    let z1 : Zip := { z with cur := f', post := { r with leftL := gsCoalBlock } :: post1 }
    have h1 : LInv cfg rt first endA F g z1 := by
      refine ⟨h.not_bad, h.cfg_eq, h.addr, h.pre, ?_, ?_, ?_, ?_, h.mask, ?_⟩
      · refine (blkOK_held cfg rt z.addr f' hown).mpr ⟨⟨?_, hcur.1.2.1, hcur.1.2.2⟩, hcur.2⟩
        show gsCoalBlock ≤ gsMaxLockedVal
        bconst; omega
      · constructor
        · intro hx; have hx' : z.cur.own = Own.last := hx; rw [hown] at hx'; cases hx'
        · intro hx; cases hx
      · show chainOK cfg rt endA (z.addr + z.cur.size) gsCoalBlock ({ r with leftL := gsCoalBlock } :: post1)
        unfold chainOK
        exact ⟨rfl, (sblk_leftL _ _ _ _ _).mpr p2s, p3, p4⟩
      · have hb := h.bins
        unfold zEntries at hb ⊢
        rw [hp] at hb
        show g.bins.Perm (F.ents ++ (entriesOf first z.pre.reverse ++ (entryOf z.addr f' ++ entriesOf (z.addr + z.cur.size) ({ r with leftL := gsCoalBlock } :: post1))))
        have e1 : entryOf z.addr f' = [] := entryOf_held _ _ hown rfl
        rw [e1, entryOf_held _ _ hown hin] at *
        simp only [entriesOf, entryOf_leftL] at hb ⊢
        exact hb
      · have hq := h.queue
        unfold zQueued at hq ⊢
        rw [hp] at hq
        show g.queue.Perm (F.qs ++ (queuedOf first z.pre.reverse ++ ((if z.cur.own = Own.queued then [z.addr] else []) ++
          queuedOf (z.addr + z.cur.size) ({ r with leftL := gsCoalBlock } :: post1))))
        simp only [queuedOf] at hq ⊢
        exact hq
    have hl1 : z.cur.leftL = lastTag gsLocked z1.pre.reverse := hlink
    -- left
    cases hco : coLeft g z1 z.cur.leftL with
    | mk g2 rest =>
      cases rest with
      | mk z2 go =>
        obtain ⟨a1, a2, a3, a4, a5, a6⟩ := coLeft_spec cfg rt first endA F g z1 z.cur.leftL h1 hown hst rfl rfl hl1 rfl g2 z2 go hco
        have heq' : (if (go && !g2.bad) = true then coRight g2 z2 else (g2, z2, CoOut.queued)) = (g', z', out) := by
          have := heq
          simp only [z1, f'] at hco
          rw [hco] at this
          exact this
        cases go with
        | false =>
          simp only [Bool.false_and, Bool.false_eq_true, if_false, Prod.mk.injEq] at heq'
          obtain ⟨rfl, rfl, rfl⟩ := heq'
          refine ⟨?_, ?_⟩
          · intro lr hlr; cases hlr
          · intro _; exact ⟨a1, a2, a6 rfl, a3, a4⟩
        | true =>
          simp only [a1.not_bad, Bool.not_false, Bool.and_self, if_true] at heq'
          obtain ⟨b1, b2, b3, b4, b5⟩ := a5 rfl
          obtain ⟨c1, c2⟩ := coRight_spec cfg rt first endA F g2 z2 a1 a2 b1 b2 b3 g' z' out heq'
          refine ⟨?_, ?_⟩
          · intro lr hlr
            have := c1 lr hlr
            exact ⟨this.inv, this.link, this.own, this.st, this.my, this.right, by rw [this.delay, a3], by rw [this.locked, a4]⟩
          · intro hq
            obtain ⟨d1, d2, d3, d4, d5⟩ := c2 hq
            exact ⟨d1, d2, d3, by rw [d4, a3], by rw [d5, a4]⟩

end TbbVerif.C17.BE
