/-
C17 back end — coalescing and the blocks in the hands of callers.  A block that is handed out carries a LOCKED or
COAL_BLOCK tag, and `doCoalesc` merges a neighbour only when its tag is a size: so whatever `coalescAndPut` / `scanCoalescQ`
do (merge left, merge right, queue the request, release the region), the set of handed-out blocks — addresses and sizes —
is exactly what it was; `genericPutBlock` removes exactly the block it was given.
-/
import TbbVerif.Proofs.C17.BeDisjoint
import TbbVerif.Proofs.C17.BeGet

namespace TbbVerif.C17.BE
open TbbVerif.Generated.C17Backend

def nonUser (b : Blk) : Prop := (∀ al, b.own ≠ .user al) ∧ (∀ al, b.own ≠ .coal al)

/-- the boundary tag of a handed-out block never looks like a size -/
def TagOK (b : Blk) : Prop := gsMaxLockedVal < b.myL → nonUser b

theorem usersOf_skip (a : Nat) (b : Blk) (rest : List Blk) (h : nonUser b) : usersOf a (b :: rest) = usersOf (a + b.size) rest := by
  show (match b.own with | .user _ => [(a, b.size)] | .coal _ => [(a, b.size)] | _ => []) ++ usersOf (a + b.size) rest = _
  cases ho : b.own with
  | user al => exact absurd ho (h.1 al)
  | coal al => exact absurd ho (h.2 al)
  | held => rfl
  | queued => rfl
  | free => rfl
  | last => rfl

theorem usersOf_head_congr (a : Nat) (b b' : Blk) (rest : List Blk) (ho : b'.own = b.own) (hs : b'.size = b.size) :
    usersOf a (b' :: rest) = usersOf a (b :: rest) := by
  show (match b'.own with | .user _ => [(a, b'.size)] | .coal _ => [(a, b'.size)] | _ => []) ++ usersOf (a + b'.size) rest =
       (match b.own with | .user _ => [(a, b.size)] | .coal _ => [(a, b.size)] | _ => []) ++ usersOf (a + b.size) rest
  rw [ho, hs]

theorem nonUser_of_own (b : Blk) (h : b.own = .held ∨ b.own = .queued ∨ b.own = .free ∨ b.own = .last) : nonUser b := by
  constructor <;> intro al hh <;> rcases h with h | h | h | h <;> rw [h] at hh <;> cases hh

theorem tagOK_of_blkOK (cfg : Cfg) (rt a : Nat) (b : Blk) (h : blkOK cfg rt a b) : TagOK b := by
  intro hgt
  obtain ⟨_, h2, _⟩ := h
  constructor <;> intro al hh <;> rw [hh] at h2 <;> simp only [] at h2 <;> have := h2.1 <;>
    simp only [gsMaxLockedVal, gsLocked, gsCoalBlock] at * <;> omega

/-- the users of the region under the cursor -/
def zUsers (first : Nat) (z : Zip) : List (Nat × Nat) := usersOf first z.pre.reverse ++ usersOf z.addr (z.cur :: z.post)

theorem zUsers_eq (first : Nat) (z : Zip) (h : z.addr = first + sumSizes z.pre) : usersOf first z.blocks = zUsers first z := by
  unfold Zip.blocks zUsers
  rw [usersOf_append, sumSizes_reverse, ← h]

/-- the part of the invariant the frame property needs -/
structure ZI (first : Nat) (z : Zip) : Prop where
  addr : z.addr = first + sumSizes z.pre
  pre : ∀ b ∈ z.pre, TagOK b
  post : ∀ b ∈ z.post, TagOK b

theorem tagOK_leftL (b : Blk) (x : Nat) (h : TagOK b) : TagOK { b with leftL := x } := h

/-! ### the primitives -/

theorem queuePut_fr (first : Nat) (g : Glob) (z : Zip) (hi : ZI first z) (hn : nonUser z.cur) :
    ZI first (queuePut g z).2 ∧ zUsers first (queuePut g z).2 = zUsers first z ∧ nonUser (queuePut g z).2.cur := by
  unfold queuePut
  cases hp : z.post with
  | nil => exact ⟨hi, rfl, hn⟩
  | cons r post =>
    simp only []
    split
    · exact ⟨hi, rfl, hn⟩
    · refine ⟨⟨hi.addr, hi.pre, ?_⟩, ?_, nonUser_of_own _ (Or.inr (Or.inl rfl))⟩
      · intro b hb
        rcases List.mem_cons.mp hb with rfl | hb
        · exact tagOK_leftL r _ (hi.post r (by rw [hp]; exact List.mem_cons_self ..))
        · exact hi.post b (by rw [hp]; exact List.mem_cons_of_mem _ hb)
      · unfold zUsers
        rw [hp]
        show usersOf first z.pre.reverse ++ usersOf z.addr ({ z.cur with myL := gsLocked, own := Own.queued } :: { r with leftL := gsLocked } :: post) = _
        rw [usersOf_skip _ _ _ (nonUser_of_own _ (Or.inr (Or.inl rfl))), usersOf_skip _ z.cur _ hn]
        exact congrArg _ (usersOf_head_congr (z.addr + z.cur.size) r { r with leftL := gsLocked } post rfl rfl)

theorem zi_cur (first : Nat) (z : Zip) (c' : Blk) (hi : ZI first z) : ZI first { z with cur := c' } := ⟨hi.addr, hi.pre, hi.post⟩

theorem zUsers_cur (first : Nat) (z : Zip) (c' : Blk) (ho : c'.own = z.cur.own) (hs : c'.size = z.cur.size) :
    zUsers first { z with cur := c' } = zUsers first z := by
  unfold zUsers
  exact congrArg _ (usersOf_head_congr z.addr z.cur c' z.post ho hs)

theorem nonUser_congr (b b' : Blk) (ho : b'.own = b.own) (h : nonUser b) : nonUser b' := by
  unfold nonUser at *; rw [ho]; exact h

/-- the left half of `doCoalesc` -/
theorem coLeft_fr (first : Nat) (g : Glob) (z : Zip) (leftSz : Nat) (hi : ZI first z) (hn : nonUser z.cur)
    (g' : Glob) (z' : Zip) (go : Bool) (heq : coLeft g z leftSz = (g', z', go)) :
    ZI first z' ∧ zUsers first z' = zUsers first z ∧ nonUser z'.cur := by
  unfold coLeft at heq
  by_cases h0 : leftSz = gsLocked
  · simp only [h0, if_true, Prod.mk.injEq] at heq
    obtain ⟨_, rfl, _⟩ := heq
    exact ⟨hi, rfl, hn⟩
  · simp only [h0, if_false] at heq
    by_cases h1 : leftSz = gsCoalBlock
    · simp only [h1, if_true, Prod.mk.injEq] at heq
      obtain ⟨_, rfl, _⟩ := heq
      exact queuePut_fr first g z hi hn
    · simp only [h1, if_false] at heq
      cases hp : z.pre with
      | nil =>
        simp only [hp, Prod.mk.injEq] at heq
        obtain ⟨_, rfl, _⟩ := heq
        exact ⟨hi, rfl, hn⟩
      | cons l pre1 =>
        simp only [hp] at heq
        by_cases h2 : l.size ≠ leftSz
        · rw [if_pos h2] at heq
          simp only [Prod.mk.injEq] at heq
          obtain ⟨_, rfl, _⟩ := heq
          exact ⟨hi, rfl, hn⟩
        · rw [if_neg h2] at heq
          by_cases h3 : l.myL ≤ gsMaxLockedVal
          · rw [if_pos h3] at heq
            simp only [Prod.mk.injEq] at heq
            obtain ⟨_, rfl, _⟩ := heq
            rw [← hp]
            have hz := zi_cur first z { z.cur with leftL := leftSz } hi
            obtain ⟨q1, q2, q3⟩ := queuePut_fr first g _ hz (nonUser_congr z.cur _ rfl hn)
            exact ⟨q1, q2.trans (zUsers_cur first z _ rfl rfl), q3⟩
          · rw [if_neg h3] at heq
            simp only [Prod.mk.injEq] at heq
            obtain ⟨_, rfl, _⟩ := heq
            have haddr := hi.addr
            rw [hp, sumSizes_cons] at haddr
            have hl : nonUser l := hi.pre l (by rw [hp]; exact List.mem_cons_self ..) (by omega)
            refine ⟨⟨?_, fun b hb => hi.pre b (by rw [hp]; exact List.mem_cons_of_mem _ hb), hi.post⟩, ?_, nonUser_of_own _ (Or.inl rfl)⟩
            · show z.addr - l.size = first + sumSizes pre1
              omega
            · unfold zUsers
              rw [hp, List.reverse_cons, usersOf_append, usersOf_skip _ l [] hl, sumSizes_reverse, usersOf_skip _ z.cur _ hn]
              show usersOf first pre1.reverse ++ usersOf (z.addr - l.size) (_ :: z.post) = _
              rw [usersOf_skip _ _ _ (nonUser_of_own _ (Or.inl rfl))]
              show usersOf first pre1.reverse ++ usersOf (z.addr - l.size + (l.size + z.cur.size)) z.post = _
              have e : z.addr - l.size + (l.size + z.cur.size) = z.addr + z.cur.size := by omega
              rw [e]
              simp [usersOf]

theorem coGiveUp_fr (first : Nat) (g : Glob) (z : Zip) (hi : ZI first z) (hn : nonUser z.cur)
    (g' : Glob) (z' : Zip) (out : CoOut) (heq : coGiveUp g z = (g', z', out)) :
    ZI first z' ∧ zUsers first z' = zUsers first z ∧ nonUser z'.cur := by
  unfold coGiveUp at heq
  simp only [Prod.mk.injEq] at heq
  obtain ⟨_, rfl, _⟩ := heq
  have hz := zi_cur first z { z.cur with inBin := false } hi
  obtain ⟨q1, q2, q3⟩ := queuePut_fr first (if z.cur.inBin = true then g.removeBlockFromBin z.addr z.cur else g) _ hz (nonUser_congr z.cur _ rfl hn)
  exact ⟨q1, q2.trans (zUsers_cur first z _ rfl rfl), q3⟩

/-- the right half of `doCoalesc` -/
theorem coRight_fr (first : Nat) (g : Glob) (z : Zip) (hi : ZI first z) (hn : nonUser z.cur)
    (g' : Glob) (z' : Zip) (out : CoOut) (heq : coRight g z = (g', z', out)) :
    ZI first z' ∧ zUsers first z' = zUsers first z ∧ nonUser z'.cur := by
  unfold coRight at heq
  cases hp : z.post with
  | nil =>
    simp only [hp, Prod.mk.injEq] at heq
    obtain ⟨_, rfl, _⟩ := heq
    exact ⟨hi, rfl, hn⟩
  | cons r post1 =>
    simp only [hp] at heq
    by_cases h0 : r.myL = gsLocked
    · rw [if_pos h0] at heq
      simp only [Prod.mk.injEq] at heq
      obtain ⟨_, rfl, _⟩ := heq
      exact ⟨hi, rfl, hn⟩
    · rw [if_neg h0] at heq
      by_cases h1 : r.myL = gsLastRegionBlock
      · rw [if_pos h1] at heq
        simp only [Prod.mk.injEq] at heq
        obtain ⟨_, rfl, _⟩ := heq
        exact ⟨hi, rfl, hn⟩
      · rw [if_neg h1] at heq
        by_cases h2 : r.myL = gsCoalBlock
        · rw [if_pos h2] at heq
          exact coGiveUp_fr first g z hi hn g' z' out heq
        · rw [if_neg h2] at heq
          cases hp1 : post1 with
          | nil =>
            simp only [hp1, Prod.mk.injEq] at heq
            obtain ⟨_, rfl, _⟩ := heq
            exact ⟨hi, rfl, hn⟩
          | cons rr post2 =>
            simp only [hp1] at heq
            by_cases h3 : r.size ≠ r.myL
            · rw [if_pos h3] at heq
              simp only [Prod.mk.injEq] at heq
              obtain ⟨_, rfl, _⟩ := heq
              exact ⟨hi, rfl, hn⟩
            · rw [if_neg h3] at heq
              by_cases h4 : rr.leftL ≤ gsMaxLockedVal
              · rw [if_pos h4] at heq
                exact coGiveUp_fr first g z hi hn g' z' out heq
              · rw [if_neg h4] at heq
                simp only [Prod.mk.injEq] at heq
                obtain ⟨_, rfl, _⟩ := heq
                have hr : nonUser r := hi.post r (by rw [hp]; exact List.mem_cons_self ..) (by
                  simp only [gsLocked, gsLastRegionBlock, gsCoalBlock, gsMaxLockedVal] at *; omega)
                refine ⟨⟨hi.addr, hi.pre, ?_⟩, ?_, nonUser_congr z.cur _ rfl hn⟩
                · intro b hb
                  rcases List.mem_cons.mp hb with rfl | hb
                  · exact tagOK_leftL rr _ (hi.post rr (by rw [hp, hp1]; simp))
                  · exact hi.post b (by rw [hp, hp1]; simp [hb])
                · unfold zUsers
                  rw [hp, hp1, usersOf_skip _ z.cur _ hn, usersOf_skip _ r _ hr]
                  let m : Blk := { z.cur with sizeTmp := z.cur.sizeTmp + r.myL, size := z.cur.size + r.size }
                  show usersOf first z.pre.reverse ++ usersOf z.addr (m :: { rr with leftL := gsCoalBlock } :: post2) = _
                  rw [usersOf_skip _ m _ (nonUser_congr z.cur m rfl hn)]
                  show usersOf first z.pre.reverse ++ usersOf (z.addr + (z.cur.size + r.size)) ({ rr with leftL := gsCoalBlock } :: post2) = _
                  rw [usersOf_head_congr _ rr { rr with leftL := gsCoalBlock } post2 rfl rfl, Nat.add_assoc]

/-- `doCoalesc`: whatever it merges, the handed-out blocks of the region are the same -/
theorem doCoalesc_fr (first : Nat) (g : Glob) (z : Zip) (hi : ZI first z) (hn : nonUser z.cur)
    (g' : Glob) (z' : Zip) (out : CoOut) (heq : doCoalesc g z = (g', z', out)) :
    ZI first z' ∧ zUsers first z' = zUsers first z ∧ nonUser z'.cur := by
  unfold doCoalesc at heq
  cases hp : z.post with
  | nil =>
    simp only [hp, Prod.mk.injEq] at heq
    obtain ⟨_, rfl, _⟩ := heq
    exact ⟨hi, rfl, hn⟩
  | cons r post1 =>
    simp only [hp] at heq
    by_cases h0 : z.cur.sizeTmp ≠ z.cur.size
    · rw [if_pos h0] at heq
      simp only [Prod.mk.injEq] at heq
      obtain ⟨_, rfl, _⟩ := heq
      exact ⟨hi, rfl, hn⟩
    · rw [if_neg h0] at heq
      let f' : Blk := { z.cur with myL := gsCoalBlock, inBin := false, leftL := if z.cur.leftL > gsMaxLockedVal then gsCoalBlock else z.cur.leftL }
      let z1 : Zip := { z with cur := f', post := { r with leftL := gsCoalBlock } :: post1 }
      have hn1 : nonUser z1.cur := nonUser_congr z.cur f' rfl hn
      have hi1 : ZI first z1 := by
        refine ⟨hi.addr, hi.pre, fun b hb => ?_⟩
        rcases List.mem_cons.mp hb with rfl | hb
        · exact tagOK_leftL r _ (hi.post r (by rw [hp]; exact List.mem_cons_self ..))
        · exact hi.post b (by rw [hp]; exact List.mem_cons_of_mem _ hb)
      have hu1 : zUsers first z1 = zUsers first z := by
        unfold zUsers
        rw [hp, usersOf_skip _ z.cur _ hn]
        show usersOf first z.pre.reverse ++ usersOf z.addr (f' :: { r with leftL := gsCoalBlock } :: post1) = _
        rw [usersOf_skip _ f' _ hn1]
        exact congrArg _ (usersOf_head_congr _ r _ post1 rfl rfl)
      cases hco : coLeft g z1 z.cur.leftL with
      | mk g2 rest =>
        cases rest with
        | mk z2 go =>
          obtain ⟨a1, a2, a3⟩ := coLeft_fr first g z1 z.cur.leftL hi1 hn1 g2 z2 go hco
          have heq' : (if (go && !g2.bad) = true then coRight g2 z2 else (g2, z2, CoOut.queued)) = (g', z', out) := by
            have := heq
            simp only [z1, f'] at hco
            rw [hco] at this
            exact this
          by_cases hc : (go && !g2.bad) = true
          · rw [if_pos hc] at heq'
            obtain ⟨b1, b2, b3⟩ := coRight_fr first g2 z2 a1 a3 g' z' out heq'
            exact ⟨b1, b2.trans (a2.trans hu1), b3⟩
          · rw [if_neg hc] at heq'
            simp only [Prod.mk.injEq] at heq'
            obtain ⟨_, rfl, _⟩ := heq'
            exact ⟨a1, a2.trans hu1, a3⟩

theorem setFree_fr (first : Nat) (z : Zip) (sz : Nat) (hn : nonUser z.cur) : zUsers first (setFree z sz) = zUsers first z := by
  unfold setFree
  cases hp : z.post with
  | nil => rfl
  | cons r post =>
    simp only []
    unfold zUsers
    rw [hp, usersOf_skip _ z.cur _ hn]
    show usersOf first z.pre.reverse ++ usersOf z.addr ({ z.cur with myL := sz, own := Own.free, inBin := false } :: { r with leftL := sz } :: post) = _
    rw [usersOf_skip _ _ _ (nonUser_of_own _ (Or.inr (Or.inr (Or.inl rfl))))]
    exact congrArg _ (usersOf_head_congr _ r _ post rfl rfl)

theorem setFree_cur_fr (first : Nat) (z : Zip) (c' : Blk) (sz : Nat) (ho : c'.own = z.cur.own) (hs : c'.size = z.cur.size) (hn : nonUser z.cur) :
    zUsers first (setFree { z with cur := c' } sz) = zUsers first z :=
  (setFree_fr first { z with cur := c' } sz (nonUser_congr z.cur c' ho hn)).trans (zUsers_cur first z c' ho hs)

/-- the body of the loop of `coalescAndPutList` after `doCoalesc` -/
theorem putCoalesced_fr (first : Nat) (g : Glob) (bs : Nat) (z : Zip) (lr force : Bool) (hi : ZI first z) (hn : nonUser z.cur)
    (g' : Glob) (z' : Zip) (heq : putCoalesced g bs z lr force = (g', some z')) : zUsers first z' = zUsers first z := by
  unfold putCoalesced at heq
  simp only [] at heq
  by_cases hw : ((lr && bs == z.cur.sizeTmp && !g.cfg.fixedPool) && g.releasable) = true
  · rw [if_pos hw] at heq
    simp only [Prod.mk.injEq] at heq
    cases heq.2
  · rw [if_neg hw] at heq
    generalize (if g.cfg.fixedPool = true then toAlignedBin z.addr z.cur.sizeTmp else z.cur.aligned) = tA at heq
    generalize (z.cur.inBin && z.cur.myBin == sizeToBin z.cur.sizeTmp && z.cur.aligned == tA) = stays at heq
    generalize (if (z.cur.inBin && !stays) = true then g.removeBlockFromBin z.addr z.cur else g) = g1 at heq
    cases stays with
    | true =>
      simp only [if_true, Prod.mk.injEq, Option.some.injEq] at heq
      rw [← heq.2]; exact setFree_fr first z _ hn
    | false =>
      simp only [Bool.false_eq_true, if_false] at heq
      by_cases hsz : z.cur.sizeTmp ≥ beMinBinnedSize
      · rw [if_pos hsz] at heq
        by_cases hf : (force || !(g1.binLocked.contains (tA, (sizeToBin z.cur.sizeTmp).toNat))) = true
        · rw [if_pos hf] at heq
          simp only [Prod.mk.injEq, Option.some.injEq] at heq
          rw [← heq.2]
          exact setFree_cur_fr first z _ _ rfl rfl hn
        · rw [if_neg hf] at heq
          simp only [Prod.mk.injEq, Option.some.injEq] at heq
          rw [← heq.2]
          let c' : Blk := { ({ z.cur with inBin := false, myBin := -1, aligned := tA } : Blk) with myBin := sizeToBin z.cur.sizeTmp, sizeTmp := z.cur.sizeTmp }
          exact (queuePut_fr first g1 { z with cur := c' } (zi_cur first z c' hi) (nonUser_congr z.cur c' rfl hn)).2.1.trans (zUsers_cur first z c' rfl rfl)
      · rw [if_neg hsz] at heq
        simp only [Prod.mk.injEq, Option.some.injEq] at heq
        rw [← heq.2]
        exact setFree_cur_fr first z _ _ rfl rfl hn

/-! ### from the global invariant -/

theorem chainPre_tags (cfg : Cfg) (rt : Nat) : ∀ (bs : List Blk) (a t : Nat), chainPre cfg rt a t bs → ∀ b ∈ bs, TagOK b := by
  intro bs
  induction bs with
  | nil => intro _ _ _ b hb; cases hb
  | cons x rest ih =>
    intro a t h b hb
    unfold chainPre at h
    rcases List.mem_cons.mp hb with rfl | hb
    · exact tagOK_of_blkOK _ _ _ _ h.2.1.1
    · exact ih _ _ h.2.2.2 b hb

theorem chainOK_tags (cfg : Cfg) (rt endA : Nat) : ∀ (bs : List Blk) (a t : Nat), chainOK cfg rt endA a t bs → ∀ b ∈ bs, TagOK b := by
  intro bs
  induction bs with
  | nil => intro _ _ _ b hb; cases hb
  | cons x rest ih =>
    intro a t h b hb
    unfold chainOK at h
    rcases List.mem_cons.mp hb with rfl | hb
    · exact tagOK_of_blkOK _ _ _ _ h.2.1.1
    · exact ih _ _ h.2.2.2 b hb

theorem zi_of_linv (cfg : Cfg) (rt first endA : Nat) (F : Frame) (g : Glob) (z : Zip) (h : LInv cfg rt first endA F g z) : ZI first z :=
  ⟨h.addr, fun b hb => chainPre_tags _ _ _ _ _ h.pre b (List.mem_reverse.mpr hb), chainOK_tags _ _ _ _ _ _ h.post⟩

theorem allUsers_split (xs : List Region) (r : Region) (ys : List Region) :
    allUsers (xs ++ r :: ys) = allUsers xs ++ (usersOf r.first r.blocks ++ allUsers ys) := by
  simp [allUsers, List.flatMap_append]

/-- writing back a zipper with the same users leaves the users of the state alone -/
theorem allUsers_close_eq (s : St) (a : Nat) (c : Cursor) (hc : locate s a = some c) (z' : Zip)
    (ha : z'.addr = c.reg.first + sumSizes z'.pre) (hu : zUsers c.reg.first z' = zUsers c.reg.first c.z) :
    allUsers (c.close z') = allUsers s.regions := by
  obtain ⟨l1, l2, _, l4⟩ := locate_spec s a c hc
  rw [l1, allUsers_split, l2, zUsers_eq _ _ l4]
  unfold Cursor.close
  rw [allUsers_split]
  show allUsers c.before.reverse ++ (usersOf c.reg.first z'.blocks ++ allUsers c.after) = _
  rw [zUsers_eq _ _ ha, hu]

theorem allUsers_drop_eq (s : St) (a : Nat) (c : Cursor) (hc : locate s a = some c) (hu : zUsers c.reg.first c.z = []) :
    allUsers c.drop = allUsers s.regions := by
  obtain ⟨l1, l2, _, l4⟩ := locate_spec s a c hc
  rw [l1, allUsers_split, l2, zUsers_eq _ _ l4, hu]
  unfold Cursor.drop
  simp [allUsers, List.flatMap_append]

/-- a region that is one coalesced block from its first byte to the `LastFreeBlock` has no handed-out block -/
theorem whole_no_users (cfg : Cfg) (rt first endA : Nat) (F : Frame) (g0 g : Glob) (z : Zip) (lr : Bool) (bs : Nat)
    (hd : CoDone cfg rt first endA F g0 g z lr) (hend : endA = first + bs + beSizeofLastFreeBlock)
    (hlr : lr = true) (hsz : bs = z.cur.sizeTmp) : zUsers first z = [] := by
  obtain ⟨h, _, hown, hst, _, ⟨r, post1, hp, hlr'⟩, _, _⟩ := hd
  have hpost := h.post
  rw [hp] at hpost
  unfold chainOK at hpost
  obtain ⟨_, p2s, p3, p4⟩ := hpost
  have rl : r.own = .last := hlr'.mp hlr
  have hp1 : post1 = [] := p3.mp rl
  subst hp1
  unfold chainOK at p4
  have rsz : r.size = beSizeofLastFreeBlock := by
    have := p2s.1; unfold blkOK at this; rw [rl] at this; exact this.2.1.2
  have hpre : z.pre = [] := by
    cases hpp : z.pre with
    | nil => rfl
    | cons l pre1 =>
      exfalso
      have h1 := chainPre_sizes _ _ _ _ _ h.pre (by rw [hpp]; simp)
      rw [sumSizes_reverse] at h1
      have := h.addr
      omega
  unfold zUsers
  rw [hpre, hp, usersOf_skip _ z.cur _ (nonUser_of_own _ (Or.inl hown)), usersOf_skip _ r _ (nonUser_of_own _ (Or.inr (Or.inr (Or.inr rl))))]
  rfl

theorem putCoalesced_none (g : Glob) (bs : Nat) (z : Zip) (lr force : Bool) (g' : Glob) (heq : putCoalesced g bs z lr force = (g', none)) :
    lr = true ∧ bs = z.cur.sizeTmp := by
  unfold putCoalesced at heq
  simp only [] at heq
  by_cases hw : ((lr && bs == z.cur.sizeTmp && !g.cfg.fixedPool) && g.releasable) = true
  · simp only [Bool.and_eq_true, beq_iff_eq] at hw
    exact ⟨hw.1.1.1, hw.1.1.2⟩
  · exfalso
    rw [if_neg hw] at heq
    generalize (if g.cfg.fixedPool = true then toAlignedBin z.addr z.cur.sizeTmp else z.cur.aligned) = tA at heq
    generalize (z.cur.inBin && z.cur.myBin == sizeToBin z.cur.sizeTmp && z.cur.aligned == tA) = stays at heq
    generalize (if (z.cur.inBin && !stays) = true then g.removeBlockFromBin z.addr z.cur else g) = g1 at heq
    cases stays with
    | true =>
      simp only [if_true, Prod.mk.injEq] at heq
      cases heq.2
    | false =>
      simp only [Bool.false_eq_true, if_false] at heq
      by_cases hsz : z.cur.sizeTmp ≥ beMinBinnedSize
      · rw [if_pos hsz] at heq
        by_cases hf : (force || !(g1.binLocked.contains (tA, (sizeToBin z.cur.sizeTmp).toNat))) = true
        · rw [if_pos hf] at heq
          simp only [Prod.mk.injEq] at heq
          cases heq.2
        · rw [if_neg hf] at heq
          simp only [Prod.mk.injEq] at heq
          cases heq.2
      · rw [if_neg hsz] at heq
        simp only [Prod.mk.injEq] at heq
        cases heq.2

/-- **Coalescing keeps the handed-out blocks.**  One iteration of `coalescAndPutList` — any combination of merging left,
merging right, giving up and queueing, putting the block into a bin, releasing the whole region — leaves the list of
handed-out blocks (addresses and sizes) exactly as it was. -/
theorem coalescAndPut1_users (s : St) (addr : Nat) (force report : Bool) (hw : WF s) :
    allUsers (coalescAndPut1 s addr force report).1.regions = allUsers s.regions := by
  unfold coalescAndPut1
  cases hc : locate s addr with
  | none => rfl
  | some c =>
    simp only []
    by_cases hpre : c.z.cur.own ≠ .held ∨ c.z.cur.sizeTmp ≠ c.z.cur.size ∨ c.z.cur.inBin = true
    · rw [if_pos hpre]; rfl
    · rw [if_neg hpre]
      have hown : c.z.cur.own = .held := by
        cases h : c.z.cur.own <;> simp_all
      have hst : c.z.cur.sizeTmp = c.z.cur.size := by
        by_cases h : c.z.cur.sizeTmp = c.z.cur.size
        · exact h
        · exact absurd (Or.inr (Or.inl h)) hpre
      have hin : c.z.cur.inBin = false := by
        cases h : c.z.cur.inBin with
        | false => rfl
        | true => exact absurd (Or.inr (Or.inr h)) hpre
      obtain ⟨hl, hlink, hreg, _⟩ := linv_of_wf s addr c hw hc
      have hi := zi_of_linv _ _ _ _ _ _ _ hl
      have hn : nonUser c.z.cur := nonUser_of_own _ (Or.inl hown)
      cases hd : doCoalesc s.g c.z with
      | mk g1 rest =>
        cases rest with
        | mk z1 out =>
          obtain ⟨d1, d2⟩ := doCoalesc_spec _ _ _ _ _ s.g c.z hl hlink hown hst hin g1 z1 out hd
          obtain ⟨f1, f2, f3⟩ := doCoalesc_fr c.reg.first s.g c.z hi hn g1 z1 out hd
          simp only []
          cases out with
          | queued =>
            simp only []
            exact allUsers_close_eq s addr c hc z1 f1.addr f2
          | merged lr =>
            have cd := d1 lr rfl
            simp only []
            rw [if_neg (by rw [cd.inv.not_bad]; simp)]
            cases hp : putCoalesced g1 c.reg.blockSz z1 lr force with
            | mk g2 oz =>
              cases oz with
              | some z2 =>
                simp only []
                have pd := putCoalesced_spec _ _ _ _ _ s.g g1 z1 lr c.reg.blockSz force cd rfl g2 (some z2) hp
                obtain ⟨p1, _, _⟩ := pd.some_inv z2 rfl
                have := putCoalesced_fr c.reg.first g1 c.reg.blockSz z1 lr force f1 f3 g2 z2 hp
                exact allUsers_close_eq s addr c hc z2 p1.addr (this.trans f2)
              | none =>
                simp only []
                obtain ⟨n1, n2⟩ := putCoalesced_none g1 c.reg.blockSz z1 lr force g2 hp
                have hz := whole_no_users _ _ _ _ _ s.g g1 z1 lr c.reg.blockSz cd rfl n1 n2
                exact allUsers_drop_eq s addr c hc (f2.symm.trans hz)


theorem coalescAndPutList_users (addrs : List Nat) (force report : Bool) : ∀ (s : St) (b : Bool), WF s →
    allUsers (addrs.foldl (fun (acc : St × Bool) a =>
      let (s', rel) := coalescAndPut1 acc.1 a force report
      (s', acc.2 || rel)) (s, b)).1.regions = allUsers s.regions := by
  induction addrs with
  | nil => intro s b _; rfl
  | cons a rest ih =>
    intro s b h
    simp only [List.foldl_cons]
    exact (ih _ _ (coalescAndPut1_wf s a force report h)).trans (coalescAndPut1_users s a force report h)

theorem coalescAndPutList_users' (s : St) (addrs : List Nat) (force report : Bool) (h : WF s) :
    allUsers (coalescAndPutList s addrs force report).1.regions = allUsers s.regions := by
  unfold coalescAndPutList
  exact coalescAndPutList_users addrs force report s false h

/-- `Backend::coalescAndPut` -/
theorem coalescAndPut_users (s : St) (addr blockSz : Nat) (al : Bool) (hw : WF s) :
    allUsers (coalescAndPut s addr blockSz al).regions = allUsers s.regions := by
  unfold coalescAndPut
  cases hc : locate s addr with
  | none => rfl
  | some c =>
    simp only []
    by_cases hpre : c.z.cur.own ≠ .held ∨ c.z.cur.size ≠ blockSz ∨ c.z.cur.inBin = true ∨ (!s.g.cfg.fixedPool && al != c.z.cur.aligned) = true
    · rw [if_pos hpre]; rfl
    · rw [if_neg hpre]
      have hown : c.z.cur.own = .held := by
        cases h : c.z.cur.own <;> simp_all
      have hin : c.z.cur.inBin = false := by
        cases h : c.z.cur.inBin with
        | false => rfl
        | true => exact absurd (Or.inr (Or.inr (Or.inl h))) hpre
      have hal : s.g.cfg.fixedPool = false → al = c.z.cur.aligned := by
        intro hf
        by_cases h : al = c.z.cur.aligned
        · exact h
        · exfalso; apply hpre; right; right; right
          simp [hf, h]
      obtain ⟨hl, _, _, _⟩ := linv_of_wf s addr c hw hc
      have hcur := (blkOK_held _ _ _ _ hown).mp hl.cur
      have hw1 : WF ⟨s.g, c.close { c.z with cur := { c.z.cur with sizeTmp := blockSz, aligned := al } }⟩ := by
        refine wf_set_cur s addr c hw hc _ (by rw [hown]; simp) rfl rfl rfl ?_ (by show c.z.cur.own ≠ .last; rw [hown]; simp) hin ?_ ?_
        · refine (blkOK_held _ _ _ ({ c.z.cur with sizeTmp := blockSz, aligned := al } : Blk) hown).mpr ⟨⟨hcur.1.1, hcur.1.2.1, ?_⟩, hcur.2⟩
          intro hf
          show al = decide (c.reg.type = beRegSlab)
          rw [hal hf]; exact hcur.1.2.2 hf
        · rw [entryOf_held _ _ hown hin]
          exact entryOf_held _ ({ c.z.cur with sizeTmp := blockSz, aligned := al } : Blk) hown hin
        · exact Iff.rfl
      rw [coalescAndPutList_users' _ _ _ _ hw1]
      exact allUsers_close_eq s addr c hc _ hl.addr (zUsers_cur c.reg.first c.z _ rfl rfl)

theorem usersOf_map_unq : ∀ (bs : List Blk) (a : Nat), usersOf a (bs.map unq) = usersOf a bs := by
  intro bs
  induction bs with
  | nil => intro a; rfl
  | cons b rest ih =>
    intro a
    simp only [List.map_cons]
    by_cases hq : b.own = .queued
    · have e : unq b = { b with own := .held } := by unfold unq; rw [if_pos hq]
      rw [usersOf_skip _ (unq b) _ (nonUser_of_own _ (Or.inl (by rw [e]))), usersOf_skip _ b _ (nonUser_of_own _ (Or.inr (Or.inl hq))),
        unq_size, ih]
    · have e : unq b = b := by unfold unq; rw [if_neg hq]
      rw [e]
      show (match b.own with | .user _ => [(a, b.size)] | .coal _ => [(a, b.size)] | _ => []) ++ usersOf (a + b.size) (rest.map unq) = _
      rw [ih]; rfl

theorem unqueue_users (rs : List Region) : allUsers (unqueue rs) = allUsers rs := by
  have hun : unqueue rs = rs.map (fun r => { r with blocks := r.blocks.map unq }) := rfl
  rw [hun]
  unfold allUsers
  rw [List.flatMap_map]
  apply flatMap_congr'
  intro r _
  exact usersOf_map_unq _ _

/-- `Backend::scanCoalescQ`: draining the delayed-coalescing queue hands nothing out and takes nothing back -/
theorem scanCoalescQ_users (s : St) (force : Bool) (hw : WF s) : allUsers (scanCoalescQ s force).1.regions = allUsers s.regions := by
  unfold scanCoalescQ
  simp only []
  split
  · rfl
  · rw [coalescAndPutList_users' _ _ _ _ (unqueue_wf s hw)]
    exact unqueue_users s.regions

/-- `genericPutBlock` takes back exactly the block it is given: every other handed-out block stays handed out, with its
address and size, whatever coalescing does around it -/
theorem genericPutBlock_users (s : St) (addr : Nat) (hw : WF s) (s' : St) (h : genericPutBlock s addr = (s', true)) :
    ∃ c, locate s addr = some c ∧ (allUsers s.regions).Perm ((addr, c.z.cur.size) :: allUsers s'.regions) := by
  unfold genericPutBlock at h
  cases hc : locate s addr with
  | none => rw [hc] at h; simp only [Prod.mk.injEq] at h; cases h.2
  | some c =>
    rw [hc] at h
    simp only [] at h
    refine ⟨c, rfl, ?_⟩
    obtain ⟨hl, _, _, hin⟩ := linv_of_wf s addr c hw hc
    obtain ⟨l1, l2, l3, l4⟩ := locate_spec s addr c hc
    have hcur := hl.cur
    unfold blkOK at hcur
    have key : ∀ al : Bool, (c.z.cur.own = .user al ∨ c.z.cur.own = .coal al) →
        WF ⟨s.g, c.close { c.z with cur := { c.z.cur with own := .held, aligned := al, inBin := false } }⟩ := by
      intro al ho
      have hmy : c.z.cur.myL ≤ gsMaxLockedVal ∧ beMinBlockSize ≤ c.z.cur.size ∧ (s.g.cfg.fixedPool = false → al = decide (c.reg.type = beRegSlab)) ∧ c.z.cur.own ≠ .last := by
        rcases ho with ho | ho <;> rw [ho] at hcur
        · exact ⟨by rw [hcur.2.1.1]; bconst; omega, hcur.2.1.2.1, hcur.2.1.2.2, by rw [ho]; simp⟩
        · exact ⟨by rw [hcur.2.1.1]; bconst; omega, hcur.2.1.2.2.1, hcur.2.1.2.2.2, by rw [ho]; simp⟩
      refine wf_set_cur s addr c hw hc _ hmy.2.2.2 rfl rfl rfl ?_ (by simp) rfl ?_ ?_
      · refine (blkOK_held _ _ _ ({ c.z.cur with own := .held, aligned := al, inBin := false } : Blk) rfl).mpr ⟨⟨hmy.1, hmy.2.1, hmy.2.2.1⟩, ?_⟩
        intro hf hs
        exact hcur.2.2 hf hs hmy.2.2.2
      · have e0 : entryOf c.z.addr c.z.cur = [] := by
          rcases ho with ho | ho <;> simp [entryOf, hasEntry, ho, hin]
        rw [e0]
        simp [entryOf, hasEntry]
      · rcases ho with ho | ho <;> simp [ho]
    -- the users before, and after the block has been taken back (before coalescing)
    have users1 : ∀ al : Bool, (c.z.cur.own = .user al ∨ c.z.cur.own = .coal al) →
        (allUsers s.regions).Perm ((addr, c.z.cur.size) :: allUsers (c.close { c.z with cur := { c.z.cur with own := .held, aligned := al, inBin := false } })) := by
      intro al ho
      have e0 : allUsers s.regions = allUsers c.before.reverse ++
          ((usersOf c.reg.first c.z.pre.reverse ++ (addr, c.z.cur.size) :: usersOf (addr + c.z.cur.size) c.z.post) ++ allUsers c.after) := by
        rw [l1, allUsers_split, l2, zUsers_eq _ _ l4]
        unfold zUsers
        rw [l3]
        have : usersOf addr (c.z.cur :: c.z.post) = (addr, c.z.cur.size) :: usersOf (addr + c.z.cur.size) c.z.post := by
          show (match c.z.cur.own with | .user _ => [(addr, c.z.cur.size)] | .coal _ => [(addr, c.z.cur.size)] | _ => []) ++ _ = _
          rcases ho with ho | ho <;> rw [ho] <;> rfl
        rw [this]
      have e1 : allUsers (c.close { c.z with cur := { c.z.cur with own := .held, aligned := al, inBin := false } }) = allUsers c.before.reverse ++
          ((usersOf c.reg.first c.z.pre.reverse ++ usersOf (addr + c.z.cur.size) c.z.post) ++ allUsers c.after) := by
        unfold Cursor.close
        rw [allUsers_split]
        show allUsers c.before.reverse ++ (usersOf c.reg.first (Zip.blocks { c.z with cur := { c.z.cur with own := .held, aligned := al, inBin := false } }) ++ allUsers c.after) = _
        rw [zUsers_eq _ _ (show ({ c.z with cur := { c.z.cur with own := .held, aligned := al, inBin := false } } : Zip).addr = _ from l4)]
        unfold zUsers
        show allUsers c.before.reverse ++ ((usersOf c.reg.first c.z.pre.reverse ++ usersOf c.z.addr ({ c.z.cur with own := .held, aligned := al, inBin := false } :: c.z.post)) ++ allUsers c.after) = _
        rw [usersOf_skip _ _ _ (nonUser_of_own _ (Or.inl rfl)), l3]
      rw [e0, e1]
      rw [List.perm_iff_count]
      intro x
      simp only [List.count_cons, List.count_append]
      omega
    cases hown : c.z.cur.own with
    | user al =>
      rw [hown] at h
      simp only [Prod.mk.injEq, and_true] at h
      rw [← h]
      show (allUsers s.regions).Perm ((addr, c.z.cur.size) :: allUsers (coalescAndPut _ addr c.z.cur.size al).regions)
      rw [coalescAndPut_users _ _ _ _ (key al (Or.inl hown))]
      exact users1 al (Or.inl hown)
    | coal al =>
      rw [hown] at h
      simp only [Prod.mk.injEq, and_true] at h
      rw [← h]
      show (allUsers s.regions).Perm ((addr, c.z.cur.size) :: allUsers (coalescAndPut _ addr c.z.cur.size al).regions)
      rw [coalescAndPut_users _ _ _ _ (key al (Or.inr hown))]
      exact users1 al (Or.inr hown)
    | held => rw [hown] at h; simp only [Prod.mk.injEq] at h; cases h.2
    | queued => rw [hown] at h; simp only [Prod.mk.injEq] at h; cases h.2
    | free => rw [hown] at h; simp only [Prod.mk.injEq] at h; cases h.2
    | last => rw [hown] at h; simp only [Prod.mk.injEq] at h; cases h.2

end TbbVerif.C17.BE
