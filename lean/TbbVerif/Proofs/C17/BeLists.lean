/-
C17 back end — list-level lemmas: sums, entries, chains, zippers.
-/
import TbbVerif.Model.C17BackendInv

namespace TbbVerif.C17.BE
open TbbVerif.Generated.C17Backend

/-! ### sums -/

@[simp] theorem sumSizes_nil : sumSizes [] = 0 := rfl
@[simp] theorem sumSizes_cons (b : Blk) (bs : List Blk) : sumSizes (b :: bs) = b.size + sumSizes bs := by
  simp [sumSizes]
@[simp] theorem sumSizes_append (xs ys : List Blk) : sumSizes (xs ++ ys) = sumSizes xs + sumSizes ys := by
  induction xs with
  | nil => simp
  | cons x xs ih => simp [ih, Nat.add_assoc]
@[simp] theorem sumSizes_reverse (xs : List Blk) : sumSizes xs.reverse = sumSizes xs := by
  induction xs with
  | nil => simp
  | cons x xs ih => simp [ih, Nat.add_comm]

/-! ### entries / queued / users distribute over append -/

theorem entriesOf_append (a : Nat) (xs ys : List Blk) :
    entriesOf a (xs ++ ys) = entriesOf a xs ++ entriesOf (a + sumSizes xs) ys := by
  induction xs generalizing a with
  | nil => simp [entriesOf]
  | cons x xs ih => simp [entriesOf, ih, Nat.add_assoc]

theorem queuedOf_append (a : Nat) (xs ys : List Blk) :
    queuedOf a (xs ++ ys) = queuedOf a xs ++ queuedOf (a + sumSizes xs) ys := by
  induction xs generalizing a with
  | nil => simp [queuedOf]
  | cons x xs ih => simp [queuedOf, ih, Nat.add_assoc]

theorem usersOf_append (a : Nat) (xs ys : List Blk) :
    usersOf a (xs ++ ys) = usersOf a xs ++ usersOf (a + sumSizes xs) ys := by
  induction xs generalizing a with
  | nil => simp [usersOf]
  | cons x xs ih => simp [usersOf, ih, Nat.add_assoc]

/-! ### chains -/

/-- the tag the block after `xs` sees on its left -/
def lastTag (t : Nat) : List Blk → Nat
  | [] => t
  | b :: rest => lastTag b.myL rest

@[simp] theorem lastTag_nil (t : Nat) : lastTag t [] = t := rfl
@[simp] theorem lastTag_cons (t : Nat) (b : Blk) (bs : List Blk) : lastTag t (b :: bs) = lastTag b.myL bs := rfl

theorem lastTag_append (t : Nat) (xs ys : List Blk) : lastTag t (xs ++ ys) = lastTag (lastTag t xs) ys := by
  induction xs generalizing t with
  | nil => rfl
  | cons x xs ih => simp [ih]

theorem lastTag_snoc (t : Nat) (xs : List Blk) (b : Blk) : lastTag t (xs ++ [b]) = b.myL := by
  rw [lastTag_append]; rfl

theorem chainPre_append (cfg : Cfg) (rt a t : Nat) (xs ys : List Blk) :
    chainPre cfg rt a t (xs ++ ys) ↔ chainPre cfg rt a t xs ∧ chainPre cfg rt (a + sumSizes xs) (lastTag t xs) ys := by
  induction xs generalizing a t with
  | nil => simp [chainPre]
  | cons x xs ih =>
    simp only [List.cons_append, chainPre, ih, sumSizes_cons, lastTag_cons, Nat.add_assoc]
    constructor
    · rintro ⟨h1, h2, h3, h4, h5⟩; exact ⟨⟨h1, h2, h3, h4⟩, h5⟩
    · rintro ⟨⟨h1, h2, h3, h4⟩, h5⟩; exact ⟨h1, h2, h3, h4, h5⟩

theorem chainOK_append (cfg : Cfg) (rt endA a t : Nat) (xs ys : List Blk) (hy : ys ≠ []) :
    chainOK cfg rt endA a t (xs ++ ys) ↔ chainPre cfg rt a t xs ∧ chainOK cfg rt endA (a + sumSizes xs) (lastTag t xs) ys := by
  induction xs generalizing a t with
  | nil => simp [chainPre]
  | cons x xs ih =>
    have hne : xs ++ ys ≠ [] := by simp [hy]
    simp only [List.cons_append, chainOK, chainPre, ih, sumSizes_cons, lastTag_cons, Nat.add_assoc]
    constructor
    · rintro ⟨h1, h2, h3, h4, h5⟩
      refine ⟨⟨h1, h2, ?_, h4⟩, h5⟩
      intro hl; exact hne (h3.mp hl)
    · rintro ⟨⟨h1, h2, h3, h4⟩, h5⟩
      exact ⟨h1, h2, ⟨fun hl => absurd hl h3, fun h => absurd h hne⟩, h4, h5⟩

/-! ### zippers -/

theorem findZip_spec : ∀ (bs : List Blk) (a : Nat) (acc : List Blk) (t : Nat) (z : Zip),
    findZip a acc bs t = some z →
    ∃ xs, bs = xs ++ z.cur :: z.post ∧ z.pre = xs.reverse ++ acc ∧ z.addr = a + sumSizes xs ∧ z.addr = t := by
  intro bs
  induction bs with
  | nil => intro a acc t z h; simp [findZip] at h
  | cons b rest ih =>
    intro a acc t z h
    unfold findZip at h
    split at h
    · rename_i heq
      cases h
      exact ⟨[], by simp, by simp, by simp, heq⟩
    · split at h
      · cases h
      · obtain ⟨xs, h1, h2, h3, h4⟩ := ih _ _ _ _ h
        refine ⟨b :: xs, by simp [h1], by simp [h2], by simp [h3, Nat.add_assoc], h4⟩

theorem findCursor_spec : ∀ (rs : List Region) (acc : List Region) (t : Nat) (c : Cursor),
    findCursor acc rs t = some c →
    ∃ xs, rs = xs ++ c.reg :: c.after ∧ c.before = xs.reverse ++ acc ∧ findZip c.reg.first [] c.reg.blocks t = some c.z := by
  intro rs
  induction rs with
  | nil => intro acc t c h; simp [findCursor] at h
  | cons r rest ih =>
    intro acc t c h
    unfold findCursor at h
    split at h
    · rename_i z hz
      cases h
      exact ⟨[], by simp, by simp, hz⟩
    · obtain ⟨xs, h1, h2, h3⟩ := ih _ _ _ h
      exact ⟨r :: xs, by simp [h1], by simp [h2], h3⟩

/-- what `locate` gives: the region list split around the region, the block list split around the block -/
theorem locate_spec (s : St) (a : Nat) (c : Cursor) (h : locate s a = some c) :
    s.regions = c.before.reverse ++ c.reg :: c.after ∧ c.reg.blocks = c.z.blocks ∧
    c.z.addr = a ∧ c.z.addr = c.reg.first + sumSizes c.z.pre := by
  obtain ⟨xs, h1, h2, h3⟩ := findCursor_spec _ _ _ _ h
  obtain ⟨ys, g1, g2, g3, g4⟩ := findZip_spec _ _ _ _ _ h3
  refine ⟨?_, ?_, g4, ?_⟩
  · rw [h1, h2]; simp
  · rw [g1, Zip.blocks, g2]; simp
  · rw [g3, g2]; simp

end TbbVerif.C17.BE
