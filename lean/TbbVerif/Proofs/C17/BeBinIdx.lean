/-
C17 back end — the bin index (`Backend::sizeToBin`) is sound for what `findBlock` / `getFromBin` rely on.
-/
import TbbVerif.Proofs.C17.BeGen
import TbbVerif.Proofs.C17.BePut

namespace TbbVerif.C17.BE
open TbbVerif.Generated.C17Backend

theorem sizeToBin_cases (s : Nat) :
    (beMaxBinnedHugePage ≤ s ∧ sizeToBin s = (beHugeBin : Int)) ∨ (s < beMinBinnedSize ∧ sizeToBin s = -1) ∨
    (beMinBinnedSize ≤ s ∧ s < beMaxBinnedHugePage ∧ sizeToBin s = (((s - beMinBinnedSize) / beFreeBinsStep : Nat) : Int)) := by
  unfold sizeToBin
  by_cases h1 : s ≥ beMaxBinnedHugePage
  · rw [if_pos h1]; exact Or.inl ⟨h1, rfl⟩
  · rw [if_neg h1]
    by_cases h2 : s < beMinBinnedSize
    · rw [if_pos h2]; exact Or.inr (Or.inl ⟨h2, rfl⟩)
    · rw [if_neg h2]; exact Or.inr (Or.inr ⟨by omega, by omega, rfl⟩)

theorem sizeToBin_mono (a b : Nat) (h : a ≤ b) : sizeToBin a ≤ sizeToBin b := by
  rcases sizeToBin_cases a with ⟨a1, a2⟩ | ⟨a1, a2⟩ | ⟨a1, a2, a3⟩ <;>
  rcases sizeToBin_cases b with ⟨b1, b2⟩ | ⟨b1, b2⟩ | ⟨b1, b2, b3⟩ <;>
  simp only [beMaxBinnedHugePage, beMinBinnedSize, beHugeBin, beFreeBinsStep] at *
  · rw [a2, b2]; omega
  · omega
  · omega
  · rw [a2, b2]; omega
  · rw [a2, b2]; omega
  · rw [a2, b3]; omega
  · rw [a3, b2]; omega
  · omega
  · rw [a3, b3]
    have := Nat.div_le_div_right (c := 8192) (show a - 8192 ≤ b - 8192 by omega)
    omega

theorem sizeToBin_range (s : Nat) : -1 ≤ sizeToBin s ∧ sizeToBin s ≤ (beHugeBin : Int) ∧ (beHugeBin : Int) < beFreeBinsNum := by
  rcases sizeToBin_cases s with ⟨_, a2⟩ | ⟨_, a2⟩ | ⟨a1, a2, a3⟩ <;>
  simp only [beMaxBinnedHugePage, beMinBinnedSize, beHugeBin, beFreeBinsStep, beFreeBinsNum] at *
  · rw [a2]; omega
  · rw [a2]; omega
  · rw [a3]; omega

/-- a block whose bin lies above the bin of a request is large enough; a block whose bin lies below is too small -/
theorem bin_block_fits (req s : Nat) : (sizeToBin req < sizeToBin s → req < s) ∧ (sizeToBin s < sizeToBin req → s < req) := by
  constructor <;> intro h
  · rcases Nat.lt_or_ge req s with h1 | h1
    · exact h1
    · have := sizeToBin_mono s req h1; omega
  · rcases Nat.lt_or_ge s req with h1 | h1
    · exact h1
    · have := sizeToBin_mono req s h1; omega

end TbbVerif.C17.BE
