/-
C17 back end — the composite operations keep the invariant: `clean`, `askMemFromOS`, the loop of `genericGetBlock`,
every operation of the sequential machine except `reset` (see `BeReset.lean`).
-/
import TbbVerif.Proofs.C17.BeRegion

namespace TbbVerif.C17.BE
open TbbVerif.Generated.C17Backend

theorem takeFromBin_mask (s : St) (e : Entry) (hw : WF s) : ∀ x ∈ (takeFromBin s e).g.bins, (x.al, x.bin) ∈ s.g.mask := by
  intro x hx
  by_cases he : e ∈ s.g.bins
  · rw [takeFromBin_bins s e hw he] at hx
    exact hw.mask x (List.mem_of_mem_erase hx)
  · unfold takeFromBin at hx
    rw [if_pos (by simp [he])] at hx
    exact hw.mask x hx

theorem tryRelease_fold_wf (cands : List Entry) : ∀ (s : St), WF s →
    WF (cands.foldl (fun (s : St) e =>
      let m := s.g.mask
      let s := takeFromBin s e
      ⟨{ s.g with mask := m }, s.regions⟩) s) := by
  induction cands with
  | nil => intro s h; exact h
  | cons e rest ih =>
    intro s h
    simp only [List.foldl_cons]
    apply ih
    have h1 := takeFromBin_wf s e h
    obtain ⟨a1, a2, a3, a4, _, a6⟩ := h1
    exact ⟨a1, a2, a3, a4, takeFromBin_mask s e h, a6⟩

theorem tryReleaseRegions_wf (s : St) (al : Bool) (bin : Nat) (hw : WF s) : WF (tryReleaseRegions s al bin).1 := by
  unfold tryReleaseRegions
  simp only []
  apply coalescAndPutList_wf'
  exact tryRelease_fold_wf _ s hw

theorem clean_fold_wf (l : List Nat) : ∀ (s : St) (b : Bool), WF s →
    WF (l.foldl (fun (acc : St × Bool) i =>
      let (s, res) := acc
      let (s, r1) := if s.g.mask.contains (true, i) then tryReleaseRegions s true i else (s, false)
      let (s, r2) := if s.g.mask.contains (false, i) then tryReleaseRegions s false i else (s, false)
      (s, res || r1 || r2)) (s, b)).1 := by
  induction l with
  | nil => intro s b h; exact h
  | cons i rest ih =>
    intro s b h
    simp only [List.foldl_cons]
    apply ih
    have h1 : WF (if s.g.mask.contains (true, i) then tryReleaseRegions s true i else (s, false)).1 := by
      split
      · exact tryReleaseRegions_wf s true i h
      · exact h
    generalize (if s.g.mask.contains (true, i) then tryReleaseRegions s true i else (s, false)) = p1 at h1
    obtain ⟨s1, r1⟩ := p1
    simp only [] at h1 ⊢
    split
    · exact tryReleaseRegions_wf s1 false i h1
    · exact h1

theorem clean_wf (s : St) (hw : WF s) : WF (clean s).1 := by
  unfold clean
  simp only []
  exact clean_fold_wf _ _ _ (scanCoalescQ_wf s false hw)

theorem waitTillBlockReleased_wf (s : St) (m : Nat) (hw : WF s) : WF (waitTillBlockReleased s m).1 := by
  unfold waitTillBlockReleased
  split
  · exact hw
  · exact scanCoalescQ_wf s false hw

theorem releaseMemInCaches_wf (s : St) (m t n : Nat) (hw : WF s) : WF (releaseMemInCaches s m t n).1 := by
  unfold releaseMemInCaches
  have h1 := clean_wf s hw
  generalize clean s = p at h1
  obtain ⟨s1, c⟩ := p
  simp only [] at h1 ⊢
  split
  · exact h1
  · have h2 := waitTillBlockReleased_wf s1 m h1
    generalize waitTillBlockReleased s1 m = q at h2
    obtain ⟨s2, w⟩ := q
    simp only [] at h2 ⊢
    split
    · exact h2
    · split <;> exact h2

theorem addAdvance_wf (regSz regType : Nat) (ht : regType = beRegSlab ∨ regType = beRegLarge ∨ regType = beRegOne) :
    ∀ (n : Nat) (s : St) (raws : List (Option (Nat × Nat))) (used : Nat), WF s → WF (addAdvance s regSz regType n raws used).1 := by
  intro n
  induction n with
  | zero => intro s raws used h; exact h
  | succ n ih =>
    intro s raws used h
    unfold addAdvance
    have h1 := addNewRegion_wf s regSz regType true raws.head?.join h ht
    generalize addNewRegion s regSz regType true raws.head?.join = p at h1
    obtain ⟨s1, r, u⟩ := p
    simp only [] at h1 ⊢
    split
    · exact ih _ _ _ h1
    · exact h1

theorem askMemFromOS_wf (s : St) (bs sm th nl : Nat) (ns : Bool) (raws : List (Option (Nat × Nat))) (hw : WF s) :
    WF (askMemFromOS s bs sm th nl ns raws).s := by
  unfold askMemFromOS
  simp only []
  split
  · have h1 := addNewRegion_wf s bs beRegOne false raws.head?.join hw (Or.inr (Or.inr rfl))
    generalize addNewRegion s bs beRegOne false raws.head?.join = p at h1
    obtain ⟨s1, r, u⟩ := p
    simp only [] at h1 ⊢
    split
    · exact h1
    · have h2 := releaseMemInCaches_wf s1 sm th nl h1
      generalize releaseMemInCaches s1 sm th nl = q at h2
      obtain ⟨s2, v, t2⟩ := q
      exact h2
  · generalize alignUpN (4 * s.g.maxReq) (1024 * 1024) = regSz
    have h0 := waitTillBlockReleased_wf s sm hw
    generalize waitTillBlockReleased s sm = p0 at h0
    obtain ⟨s0, w⟩ := p0
    simp only [] at h0 ⊢
    split
    · exact h0
    · split
      · exact h0
      · have ht : (if bs < beMaxBinnedSmallPage / 8 then (if ns = true then beRegSlab else beRegLarge) else beRegLarge) = beRegSlab ∨
            (if bs < beMaxBinnedSmallPage / 8 then (if ns = true then beRegSlab else beRegLarge) else beRegLarge) = beRegLarge ∨
            (if bs < beMaxBinnedSmallPage / 8 then (if ns = true then beRegSlab else beRegLarge) else beRegLarge) = beRegOne := by
          split
          · split
            · exact Or.inl rfl
            · exact Or.inr (Or.inl rfl)
          · exact Or.inr (Or.inl rfl)
        generalize (if bs < beMaxBinnedSmallPage / 8 then (if ns = true then beRegSlab else beRegLarge) else beRegLarge) = regType at ht ⊢
        have h1 := addNewRegion_wf s0 regSz regType false raws.head?.join h0 ht
        generalize addNewRegion s0 regSz regType false raws.head?.join = p at h1
        obtain ⟨s1, r, u⟩ := p
        simp only [] at h1 ⊢
        split
        · split
          · exact addAdvance_wf _ _ ht _ _ _ _ h1
          · exact h1
        · have h2 := releaseMemInCaches_wf s1 sm th nl h1
          generalize releaseMemInCaches s1 sm th nl = q at h2
          obtain ⟨s2, v, t2⟩ := q
          exact h2

theorem getLoop_wf (num size : Nat) (na : Bool) : ∀ (fuel : Nat) (s : St) (th : Nat) (raws : List (Option (Nat × Nat))) (used : Nat),
    WF s → WF (getLoop num size na fuel s th raws used).1 := by
  intro fuel
  induction fuel with
  | zero => intro s th raws used h; exact h
  | succ fuel ih =>
    intro s th raws used h
    unfold getLoop
    simp only []
    cases hsb : searchBins s (sizeToBin (num * size)).toNat (num * size) na with
    | mk found nl =>
      cases found with
      | some e =>
        simp only []
        split
        · exact takeFromBin_wf s e h
        · exact finishGet_wf _ _ _ _ _ _ _ (takeFromBin_wf s e h)
      | none =>
        simp only []
        split
        · exact h
        · have h1 := scanCoalescQ_wf s true h
          generalize scanCoalescQ s true = p at h1
          obtain ⟨s1, r1⟩ := p
          simp only [] at h1 ⊢
          split
          · exact ih _ _ _ _ h1
          · have h2 := askMemFromOS_wf s1 (num * size) s.g.mods th nl na raws h1
            generalize askMemFromOS s1 (num * size) s.g.mods th nl na raws = a at h2
            cases hb : a.block with
            | some addr => simp only []; exact finishGet_wf _ _ _ _ _ _ _ h2
            | none =>
              simp only []
              split
              · exact ih _ _ _ _ h2
              · exact h2

theorem genericGetBlock_wf (s : St) (num size : Nat) (na : Bool) (raws : List (Option (Nat × Nat))) (hw : WF s) :
    WF (genericGetBlock s num size na raws).1 := by
  unfold genericGetBlock
  simp only []
  have hb : WF (if (s.g.boot == 2) = true then (s, 0) else
      (⟨{ (addNewRegion ⟨{ s.g with boot := 1 }, s.regions⟩ beBootstrapRegionSize beRegSlab true raws.head?.join).1.g with boot := 2 },
        (addNewRegion ⟨{ s.g with boot := 1 }, s.regions⟩ beBootstrapRegionSize beRegSlab true raws.head?.join).1.regions⟩,
       (addNewRegion ⟨{ s.g with boot := 1 }, s.regions⟩ beBootstrapRegionSize beRegSlab true raws.head?.join).2.2)).1 := by
    split
    · exact hw
    · have h0 : WF ⟨{ s.g with boot := 1 }, s.regions⟩ := wf_congr s.g _ s.regions hw rfl rfl rfl rfl rfl
      have h1 := addNewRegion_wf _ beBootstrapRegionSize beRegSlab true raws.head?.join h0 (Or.inl rfl)
      exact wf_congr _ _ _ h1 rfl rfl rfl rfl rfl
  generalize (if (s.g.boot == 2) = true then (s, 0) else
      (⟨{ (addNewRegion ⟨{ s.g with boot := 1 }, s.regions⟩ beBootstrapRegionSize beRegSlab true raws.head?.join).1.g with boot := 2 },
        (addNewRegion ⟨{ s.g with boot := 1 }, s.regions⟩ beBootstrapRegionSize beRegSlab true raws.head?.join).1.regions⟩,
       (addNewRegion ⟨{ s.g with boot := 1 }, s.regions⟩ beBootstrapRegionSize beRegSlab true raws.head?.join).2.2)) = p at hb
  obtain ⟨s1, u0⟩ := p
  simp only [] at hb ⊢
  apply getLoop_wf
  apply scanCoalescQ_wf
  split
  · exact wf_congr s1.g _ s1.regions hb rfl rfl rfl rfl rfl
  · exact hb

end TbbVerif.C17.BE
