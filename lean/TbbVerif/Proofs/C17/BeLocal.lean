/-
C17 back end — the invariant seen from a zipper (`LInv`): the block under the cursor with its region, everything
else (the other regions) summarised by a frame.  Bridging lemmas between `WF` and `LInv`.
-/
import TbbVerif.Proofs.C17.BeLists

namespace TbbVerif.C17.BE
open TbbVerif.Generated.C17Backend

/-- what the regions other than the one under the cursor contribute -/
structure Frame where
  ents : List Entry
  qs : List Nat

def zEntries (first : Nat) (z : Zip) : List Entry :=
  entriesOf first z.pre.reverse ++ (entryOf z.addr z.cur ++ entriesOf (z.addr + z.cur.size) z.post)

def zQueued (first : Nat) (z : Zip) : List Nat :=
  queuedOf first z.pre.reverse ++ ((if z.cur.own = .queued then [z.addr] else []) ++ queuedOf (z.addr + z.cur.size) z.post)

/-- the invariant of the region under the cursor and of the global lists, relative to a frame; the link between the
block and its left neighbour (`z.cur.leftL`) is kept apart (`LeftLink`) because `doCoalesc` breaks it for a while -/
structure LInv (cfg : Cfg) (rt first endA : Nat) (F : Frame) (g : Glob) (z : Zip) : Prop where
  not_bad : g.bad = false
  cfg_eq : g.cfg = cfg
  addr : z.addr = first + sumSizes z.pre
  pre : chainPre cfg rt first gsLocked z.pre.reverse
  cur : blkOK cfg rt z.addr z.cur
  curLast : z.cur.own = .last ↔ z.post = []
  post : chainOK cfg rt endA (z.addr + z.cur.size) z.cur.myL z.post
  bins : g.bins.Perm (F.ents ++ zEntries first z)
  mask : ∀ e ∈ g.bins, (e.al, e.bin) ∈ g.mask
  queue : g.queue.Perm (F.qs ++ zQueued first z)

def LeftLink (z : Zip) : Prop := z.cur.leftL = lastTag gsLocked z.pre.reverse

theorem zEntries_eq (first : Nat) (z : Zip) (h : z.addr = first + sumSizes z.pre) :
    entriesOf first z.blocks = zEntries first z := by
  unfold Zip.blocks zEntries
  rw [entriesOf_append, sumSizes_reverse, ← h]
  simp [entriesOf]

theorem zQueued_eq (first : Nat) (z : Zip) (h : z.addr = first + sumSizes z.pre) :
    queuedOf first z.blocks = zQueued first z := by
  unfold Zip.blocks zQueued
  rw [queuedOf_append, sumSizes_reverse, ← h]
  simp [queuedOf]

/-- the chain of a zipper's block list, decomposed -/
theorem chain_zip (cfg : Cfg) (rt endA first : Nat) (z : Zip) (h : z.addr = first + sumSizes z.pre) :
    chainOK cfg rt endA first gsLocked z.blocks ↔
      chainPre cfg rt first gsLocked z.pre.reverse ∧ LeftLink z ∧ sblk cfg rt z.addr z.cur ∧
      (z.cur.own = .last ↔ z.post = []) ∧ chainOK cfg rt endA (z.addr + z.cur.size) z.cur.myL z.post := by
  unfold Zip.blocks LeftLink
  rw [chainOK_append _ _ _ _ _ _ _ (by simp), sumSizes_reverse, ← h]
  simp only [chainOK]

theorem allEntries_split (xs : List Region) (r : Region) (ys : List Region) :
    allEntries (xs ++ r :: ys) = allEntries xs ++ (entriesOf r.first r.blocks ++ allEntries ys) := by
  simp [allEntries, List.flatMap_append]

theorem allQueued_split (xs : List Region) (r : Region) (ys : List Region) :
    allQueued (xs ++ r :: ys) = allQueued xs ++ (queuedOf r.first r.blocks ++ allQueued ys) := by
  simp [allQueued, List.flatMap_append]

theorem perm_mid {α : Type} (A X B : List α) : (A ++ (X ++ B)).Perm ((A ++ B) ++ X) := by
  rw [List.append_assoc]
  exact List.Perm.append_left A List.perm_append_comm

def frameOf (c : Cursor) : Frame := ⟨allEntries c.before.reverse ++ allEntries c.after, allQueued c.before.reverse ++ allQueued c.after⟩

def endOf (r : Region) : Nat := r.first + r.blockSz + beSizeofLastFreeBlock

/-- from the global invariant to the local one -/
theorem linv_of_wf (s : St) (a : Nat) (c : Cursor) (hw : WF s) (hc : locate s a = some c) :
    LInv s.g.cfg c.reg.type c.reg.first (endOf c.reg) (frameOf c) s.g c.z ∧ LeftLink c.z ∧ regOK s.g.cfg c.reg ∧ c.z.cur.inBin = false := by
  obtain ⟨hr, hb, _, had⟩ := locate_spec s a c hc
  have hreg : regOK s.g.cfg c.reg := hw.regs c.reg (by rw [hr]; simp)
  have hch := hreg.2.2.2.2.2.1
  rw [hb] at hch
  obtain ⟨h1, h2, h3, h4, h5⟩ := (chain_zip _ _ _ _ _ had).mp hch
  refine ⟨⟨hw.not_bad, rfl, had, h1, h3.1, h4, h5, ?_, hw.mask, ?_⟩, h2, hreg, h3.2⟩
  · have := hw.bins
    rw [hr, allEntries_split, hb, zEntries_eq _ _ had] at this
    exact this.trans (perm_mid _ _ _)
  · have := hw.queue
    rw [hr, allQueued_split, hb, zQueued_eq _ _ had] at this
    exact this.trans (perm_mid _ _ _)

theorem regions_mem_close (c : Cursor) (z : Zip) (r : Region) (h : r ∈ c.close z) :
    r ∈ c.before.reverse ∨ r = { c.reg with blocks := z.blocks } ∨ r ∈ c.after := by
  simpa [Cursor.close] using h

/-- the region headers of a list -/
def heads (rs : List Region) : List (Nat × Nat) := rs.map (fun r => (r.base, r.allocSz))

theorem pairwise_of_heads (rs rs' : List Region) (h : heads rs = heads rs') (hp : rs.Pairwise regionsDisjoint) :
    rs'.Pairwise regionsDisjoint := by
  induction rs generalizing rs' with
  | nil => cases rs' with
    | nil => exact List.Pairwise.nil
    | cons _ _ => simp [heads] at h
  | cons r rs ih =>
    cases rs' with
    | nil => simp [heads] at h
    | cons r' rs' =>
      simp only [heads, List.map_cons, List.cons.injEq, Prod.mk.injEq] at h
      obtain ⟨⟨hb, ha⟩, ht⟩ := h
      rw [List.pairwise_cons] at hp ⊢
      refine ⟨?_, ih rs' ht hp.2⟩
      intro x hx
      have : (x.base, x.allocSz) ∈ heads rs' := List.mem_map.mpr ⟨x, hx, rfl⟩
      rw [show heads rs' = heads rs from ht.symm] at this
      obtain ⟨y, hy, hyx⟩ := List.mem_map.mp this
      have hd := hp.1 y hy
      simp only [Prod.mk.injEq] at hyx
      unfold regionsDisjoint at hd ⊢
      omega

theorem heads_close (c : Cursor) (z : Zip) : heads (c.close z) = heads (c.before.reverse ++ c.reg :: c.after) := by
  simp [heads, Cursor.close]

/-- back from the local invariant to the global one -/
theorem wf_of_linv (s : St) (a : Nat) (c : Cursor) (hw : WF s) (hc : locate s a = some c) (g' : Glob) (z' : Zip)
    (hl : LInv s.g.cfg c.reg.type c.reg.first (endOf c.reg) (frameOf c) g' z') (hlink : LeftLink z')
    (hcin : z'.cur.inBin = false) :
    WF ⟨g', c.close z'⟩ := by
  obtain ⟨hr, _, _, _⟩ := locate_spec s a c hc
  obtain ⟨_, _, hreg, _⟩ := linv_of_wf s a c hw hc
  have hch := (chain_zip s.g.cfg c.reg.type (endOf c.reg) c.reg.first z' hl.addr).mpr ⟨hl.pre, hlink, ⟨hl.cur, hcin⟩, hl.curLast, hl.post⟩
  refine ⟨hl.not_bad, ?_, ?_, ?_, hl.mask, ?_⟩
  · intro r hrm
    show regOK g'.cfg r
    rw [hl.cfg_eq]
    rcases regions_mem_close c z' r hrm with h | h | h
    · exact hw.regs r (by rw [hr]; exact List.mem_append_left _ h)
    · subst h
      obtain ⟨_, h2, h3, h4, h5, _, h7⟩ := hreg
      exact ⟨by simp [Zip.blocks], h2, h3, h4, h5, hch, h7⟩
    · exact hw.regs r (by rw [hr]; exact List.mem_append_right _ (List.mem_cons_of_mem _ h))
  · exact pairwise_of_heads _ _ (by rw [heads_close, hr]) hw.disjoint
  · show g'.bins.Perm (allEntries (c.close z'))
    unfold Cursor.close
    rw [allEntries_split]
    show g'.bins.Perm (allEntries c.before.reverse ++ (entriesOf c.reg.first z'.blocks ++ allEntries c.after))
    rw [zEntries_eq _ _ hl.addr]
    exact hl.bins.trans (perm_mid _ _ _).symm
  · show g'.queue.Perm (allQueued (c.close z'))
    unfold Cursor.close
    rw [allQueued_split]
    show g'.queue.Perm (allQueued c.before.reverse ++ (queuedOf c.reg.first z'.blocks ++ allQueued c.after))
    rw [zQueued_eq _ _ hl.addr]
    exact hl.queue.trans (perm_mid _ _ _).symm

end TbbVerif.C17.BE
