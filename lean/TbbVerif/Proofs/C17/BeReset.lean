/-
C17 back end — `Backend::reset` and the sequential machine as a whole keep the invariant.
-/
import TbbVerif.Proofs.C17.BeOps

namespace TbbVerif.C17.BE
open TbbVerif.Generated.C17Backend

theorem resetRegions_spec (cfg : Cfg) : ∀ (rs : List Region) (g : Glob), (∀ r ∈ rs, regOK cfg r) →
    (∀ x ∈ g.bins, (x.al, x.bin) ∈ g.mask) →
    (resetRegions g rs).1.bad = g.bad ∧ (resetRegions g rs).1.cfg = g.cfg ∧ (resetRegions g rs).1.queue = g.queue ∧
    heads (resetRegions g rs).2 = heads rs ∧ (∀ r' ∈ (resetRegions g rs).2, regOK cfg r') ∧
    (resetRegions g rs).1.bins.Perm (allEntries (resetRegions g rs).2 ++ g.bins) ∧ allQueued (resetRegions g rs).2 = [] ∧
    (∀ x ∈ (resetRegions g rs).1.bins, (x.al, x.bin) ∈ (resetRegions g rs).1.mask) := by
  intro rs
  induction rs with
  | nil =>
    intro g _ hm
    unfold resetRegions
    exact ⟨rfl, rfl, rfl, rfl, by simp, by simp [allEntries], rfl, hm⟩
  | cons r rest ih =>
    intro g hr hm
    have hreg := hr r (List.mem_cons_self ..)
    obtain ⟨a1, a2, a3, a4, a5, a6, a7⟩ := hreg
    unfold resetRegions
    rw [a7]
    simp only []
    obtain ⟨f1, f2, f3, f4, f5⟩ := findBlockInRegion_spec _ _ _ _ _ _ a7
    have hbig : beMinBinnedSize ≤ r.blockSz := by
      simp only [beNumOfSlabAllocOnMiss, beSlabSize, beMinBinnedSize] at *; omega
    obtain ⟨b1, b2, b3, b4, b5, _, _⟩ := binAdd_spec g r.first (decide (r.type = beRegSlab)) (sizeToBin r.blockSz).toNat false _ (List.Perm.refl _) hm
    let g1 : Glob := { (g.binAdd r.first (decide (r.type = beRegSlab)) (sizeToBin r.blockSz).toNat false) with
      adv := if (g.binAdd r.first (decide (r.type = beRegSlab)) (sizeToBin r.blockSz).toNat false).adv.contains (sizeToBin r.blockSz).toNat
             then (g.binAdd r.first (decide (r.type = beRegSlab)) (sizeToBin r.blockSz).toNat false).adv
             else (sizeToBin r.blockSz).toNat :: (g.binAdd r.first (decide (r.type = beRegSlab)) (sizeToBin r.blockSz).toNat false).adv }
    obtain ⟨i1, i2, i3, i4, i5, i6, i7, i8⟩ := ih g1 (fun x hx => hr x (List.mem_cons_of_mem _ hx)) b2
    obtain ⟨e1, e2⟩ := entriesOf_fresh r.first r.blockSz r.type true hbig
    refine ⟨by rw [i1]; exact b3, by rw [i2]; exact b5, by rw [i3]; exact b4, ?_, ?_, ?_, ?_, i8⟩
    · show heads (_ :: (resetRegions g1 rest).2) = heads (r :: rest)
      simp only [heads, List.map_cons] at i4 ⊢
      rw [i4]
    · intro r' hr'
      rcases List.mem_cons.mp hr' with rfl | hr'
      · exact ⟨by unfold freshBlocks; simp, a2, a3, a4, a5, freshBlocks_chain _ _ _ _ _ f4 f5, a7⟩
      · exact i5 r' hr'
    · show (resetRegions g1 rest).1.bins.Perm (allEntries (_ :: (resetRegions g1 rest).2) ++ g.bins)
      unfold allEntries
      simp only [List.flatMap_cons]
      show List.Perm _ ((entriesOf r.first (freshBlocks r.blockSz r.type true) ++ allEntries (resetRegions g1 rest).2) ++ g.bins)
      rw [e1]
      refine i6.trans ?_
      have hb1 : g1.bins.Perm (⟨decide (r.type = beRegSlab), (sizeToBin r.blockSz).toNat, r.first⟩ :: g.bins) := b1
      rw [List.perm_iff_count] at hb1 ⊢
      intro x
      have := hb1 x
      simp only [List.count_cons, List.count_append, List.count_nil, if_true] at this ⊢
      omega
    · show allQueued (_ :: (resetRegions g1 rest).2) = []
      unfold allQueued
      simp only [List.flatMap_cons]
      show queuedOf r.first (freshBlocks r.blockSz r.type true) ++ allQueued (resetRegions g1 rest).2 = []
      rw [e2, i7]; rfl

theorem reset_wf (s : St) (hw : WF s) : WF (reset s) := by
  unfold reset
  simp only []
  obtain ⟨a1, a2, a3, a4, a5, a6, a7, a8⟩ := resetRegions_spec s.g.cfg s.regions
    { s.g with queue := [], mods := s.g.mods + s.g.queue.length, bins := [], mask := [], adv := [] } hw.regs (by intro x hx; cases hx)
  refine ⟨by rw [a1]; exact hw.not_bad, ?_, ?_, ?_, a8, ?_⟩
  · intro r hr
    show regOK (resetRegions _ s.regions).1.cfg r
    rw [a2]; exact a5 r hr
  · exact pairwise_of_heads _ _ a4.symm hw.disjoint
  · simpa using a6
  · show (resetRegions _ s.regions).1.queue.Perm _
    rw [a3, a7]

/-- every operation of the sequential back-end machine keeps the invariant -/
theorem step_wf (s : St) (op : Op) (hw : WF s) : WF (step s op).1 := by
  cases op with
  | get num size al raws =>
    unfold step
    simp only []
    split
    · exact hw
    · exact genericGetBlock_wf s num size al raws hw
  | put addr =>
    unfold step
    simp only []
    have := genericPutBlock_wf s addr hw
    generalize genericPutBlock s addr = p at this
    obtain ⟨s', b⟩ := p
    cases b
    · exact hw
    · exact this
  | scan force =>
    have := scanCoalescQ_wf s force hw
    unfold step
    simp only []
    generalize scanCoalescQ s force = p at this ⊢
    obtain ⟨s', b⟩ := p
    exact this
  | clean =>
    have := clean_wf s hw
    unfold step
    simp only []
    generalize clean s = p at this ⊢
    obtain ⟨s', b⟩ := p
    exact this
  | reset => exact reset_wf s hw
  | delay on => exact wf_congr s.g _ s.regions hw rfl rfl rfl rfl rfl
  | lockbin al bin =>
    unfold step
    simp only []
    split
    · exact wf_congr s.g _ s.regions hw rfl rfl rfl rfl rfl
    · exact hw
  | unlockbin al bin => exact wf_congr s.g _ s.regions hw rfl rfl rfl rfl rfl
  | markcoal addr =>
    unfold step
    simp only []
    have := markCoal_wf s addr hw
    generalize markCoal s addr = p at this
    obtain ⟨s', b⟩ := p
    cases b
    · exact hw
    · exact this

theorem wf_init (cfg : Cfg) : WF (machine cfg).init := by
  refine ⟨rfl, ?_, List.Pairwise.nil, List.Perm.refl _, ?_, List.Perm.refl _⟩
  · intro r hr; cases hr
  · intro e he; cases he

/-- the invariant holds in every reachable state -/
theorem wf_run (cfg : Cfg) (ops : List Op) : WF ((machine cfg).run ops).1 :=
  (machine cfg).inv_run WF (wf_init cfg) (fun s o h => step_wf s o h) ops

end TbbVerif.C17.BE

namespace TbbVerif.C17.BE
open TbbVerif.Generated.C17Backend

/-! ### consequences of the invariant -/

/-- an entry of the bins names a free block of the bin's size class, with consistent boundary tags -/
theorem wf_bin_entry (s : St) (hw : WF s) (e : Entry) (he : e ∈ s.g.bins) :
    ∃ c, locate s e.addr = some c ∧ c.z.cur.own = .free ∧ c.z.cur.myL = c.z.cur.size ∧
      sizeToBin c.z.cur.size = (e.bin : Int) ∧ beMinBinnedSize ≤ c.z.cur.size ∧ c.z.cur.aligned = e.al ∧
      (∃ r post, c.z.post = r :: post ∧ r.leftL = c.z.cur.size) ∧
      (e.al = true → (e.addr + c.z.cur.size) % beSlabSize = 0) := by
  obtain ⟨c, hc, hent⟩ := locate_entry s hw e he
  obtain ⟨hl, _, _, hin⟩ := linv_of_wf s e.addr c hw hc
  obtain ⟨_, _, haddr, _⟩ := locate_spec s e.addr c hc
  have hhe : hasEntry c.z.cur = true := by
    unfold entryOf at hent
    split at hent
    · assumption
    · cases hent
  obtain ⟨hfree, hmb⟩ := hasEntry_free_of _ hhe hin
  have hf := (blkOK_free _ _ _ _ hfree).mp hl.cur
  have he2 : e = ⟨c.z.cur.aligned, c.z.cur.myBin.toNat, c.z.addr⟩ := by
    unfold entryOf at hent
    rw [if_pos hhe] at hent
    simp only [List.cons.injEq, and_true] at hent
    exact hent.symm
  have hbin : c.z.cur.myBin = sizeToBin c.z.cur.size ∧ beMinBinnedSize ≤ c.z.cur.size := by
    rcases hf.2.1.2.2.1 with h | h
    · exact absurd h hmb
    · exact h
  have hnp : c.z.post ≠ [] := fun hp => by have := hl.curLast.mpr hp; rw [hfree] at this; cases this
  refine ⟨c, hc, hfree, hf.2.1.1, ?_, hbin.2, by rw [he2], ?_, ?_⟩
  · rw [he2]
    show sizeToBin c.z.cur.size = ((c.z.cur.myBin.toNat : Nat) : Int)
    rw [hbin.1, sizeToBin_toNat _ hbin.2]
  · cases hp : c.z.post with
    | nil => exact absurd hp hnp
    | cons r post =>
      have hpost := hl.post
      rw [hp] at hpost
      unfold chainOK at hpost
      exact ⟨r, post, rfl, by rw [hpost.1, hf.2.1.1]⟩
  · intro hal
    rw [he2] at hal
    have hal' : c.z.cur.aligned = true := hal
    rw [← haddr]
    cases hfx : s.g.cfg.fixedPool with
    | true =>
      have := hf.2.1.2.2.2
      rw [hfx] at this
      simp only [if_true] at this
      exact this hmb hal'
    | false =>
      have h1 := hf.2.1.2.2.2
      rw [hfx] at h1
      simp only [Bool.false_eq_true, if_false] at h1
      rw [hal'] at h1
      simp only [true_eq_decide_iff] at h1
      exact hf.2.2 hfx h1

end TbbVerif.C17.BE
