/-
C06 — parallel_scan task protocol: the log invariant "a pre-scan never touches an element that was scanned (pre or final) before".
-/
import TbbVerif.Proofs.C06.SPPre2

namespace TbbVerif.C06.SP
open Scan (Ctx Ev mid finals)

def rangeOf : Ev → Option (Nat × Nat)
  | .fin _ lo hi _ => some (lo, hi)
  | .pre _ lo hi => some (lo, hi)
  | _ => none

/-- `later` being a pre-scan of `[lo,hi)` implies that `earlier` (a pre-scan or a final scan) touched a disjoint range -/
def PreOK (earlier later : Ev) : Prop := ∀ b lo hi, later = .pre b lo hi → ∀ r, rangeOf earlier = some r → Disj r (lo, hi)

def OKlog (log : List Ev) : Prop := log.Pairwise PreOK

theorem pres_nil {evs : List Ev} (h : pres evs = []) : ∀ e, e ∈ evs → ∀ b lo hi, e ≠ .pre b lo hi := by
  intro e he b lo hi heq
  subst heq
  have : (lo, hi) ∈ pres evs := by
    simp only [pres, List.mem_filterMap]
    exact ⟨_, he, rfl⟩
  rw [h] at this; cases this

theorem OKlog_nopre : ∀ (evs : List Ev), (∀ e, e ∈ evs → ∀ b lo hi, e ≠ .pre b lo hi) → OKlog evs := by
  intro evs
  induction evs with
  | nil => intro _; exact List.Pairwise.nil
  | cons e es ih =>
      intro h
      refine List.Pairwise.cons ?_ (ih (fun e' he' => h e' (List.mem_cons_of_mem _ he')))
      intro e' he' b lo hi heq
      exact absurd heq (h e' (List.mem_cons_of_mem _ he') b lo hi)

theorem OKlog_append_nopre {log evs : List Ev} (h : OKlog log) (hn : pres evs = []) : OKlog (log ++ evs) := by
  unfold OKlog
  refine List.pairwise_append.mpr ⟨h, OKlog_nopre evs (pres_nil hn), ?_⟩
  intro a _ e he b lo hi heq
  exact absurd heq (pres_nil hn e he b lo hi)

theorem OKlog_append_pre {log : List Ev} {b lo hi : Nat} (h : OKlog log)
    (hd : ∀ a, a ∈ log → ∀ r, rangeOf a = some r → Disj r (lo, hi)) : OKlog (log ++ [.pre b lo hi]) := by
  unfold OKlog
  refine List.pairwise_append.mpr ⟨h, List.pairwise_singleton _ _, ?_⟩
  intro a ha e he b' lo' hi' heq r hr
  simp only [List.mem_singleton] at he
  subst he
  cases heq
  exact hd a ha r hr

theorem mem_ranges {log : List Ev} {a : Ev} {r : Nat × Nat} (ha : a ∈ log) (hr : rangeOf a = some r) :
    r ∈ (finals log).map rg ∨ r ∈ pres log := by
  cases a with
  | fin b lo hi inc =>
      left
      simp only [rangeOf, Option.some.injEq] at hr
      subst hr
      simp only [List.mem_map, finals, List.mem_filterMap]
      exact ⟨(lo, hi, inc), ⟨_, ha, rfl⟩, rfl⟩
  | pre b lo hi =>
      right
      simp only [rangeOf, Option.some.injEq] at hr
      subst hr
      simp only [pres, List.mem_filterMap]
      exact ⟨_, ha, rfl⟩
  | _ => cases hr

def GP (s : St) : Prop := OKlog s.c.log ∧ (s.phase = 1 → (pres s.c.log).Perm (preCov s.tree))

theorem GP_init (L HI : Nat) : GP (init L HI) := by
  unfold init
  by_cases hlt : L < HI
  · rw [if_pos hlt]
    refine ⟨OKlog_nopre _ ?_, fun _ => by simp [pres, preCov, Ctx.alloc, Ctx.rjoin, Ctx.setVal]⟩
    intro e he b lo hi heq
    subst heq
    simp [Ctx.alloc, Ctx.rjoin, Ctx.setVal] at he
  · rw [if_neg hlt]
    exact ⟨List.Pairwise.nil, fun h => by cases h⟩

theorem GP_step (g L HI : Nat) (hg : 1 ≤ g) (s : St) (pa : List Bool × Act) (hGI : GI g L HI s) (h : GP s) : GP (step g s pa) := by
  obtain ⟨hok, hpre⟩ := h
  obtain ⟨herr, hph⟩ := hGI
  obtain ⟨p, a⟩ := pa
  by_cases hat : a = .top
  · subst hat
    simp only [step]
    split
    · split
      · exact ⟨hok, fun hp => by cases hp⟩
      · refine ⟨?_, fun hp => by cases hp⟩
        show OKlog (s.c.assign 0 1).log
        rw [Scan.assign_log]
        exact OKlog_append_nopre hok rfl
    · split
      · exact ⟨hok, fun hp => by cases hp⟩
      · exact ⟨hok, hpre⟩
  · have hstep : step g s (p, a) = if s.phase = 3 then s else
        { s with c := (stepAt g s.c none p a s.tree).c, tree := (stepAt g s.c none p a s.tree).t,
                 wait := decRef s.wait ((stepAt g s.c none p a s.tree).dec || (stepAt g s.c none p a s.tree).dec2) } := by
      cases a <;> first | exact absurd rfl hat | rfl
    rw [hstep]
    by_cases hp3 : s.phase = 3
    · rw [if_pos hp3]; exact ⟨hok, hpre⟩
    · rw [if_neg hp3]
      obtain ⟨evs, e1, e2, e3⟩ := (SP1_step g a s.tree s.c none p).log
      by_cases hpe : pres evs = []
      · refine ⟨by show OKlog (stepAt g s.c none p a s.tree).c.log; rw [e1]; exact OKlog_append_nopre hok hpe, ?_⟩
        intro hp1
        show (pres (stepAt g s.c none p a s.tree).c.log).Perm (preCov (stepAt g s.c none p a s.tree).t)
        rw [e1, pres_append, hpe, List.append_nil]
        rw [hpe, List.nil_append] at e2
        exact (hpre hp1).trans e2
      · obtain ⟨hrdy, b, lo, hi, hevs⟩ := e3 hpe
        subst hevs
        rcases hph with ⟨p1, i1, w1, l1, v0, hl0⟩ | ⟨p2, i2, w2, l2⟩ | ⟨p3, _⟩
        · -- pass 1: the new pre-scanned range is disjoint from everything scanned so far
          have st := S1_step hg a s.tree p _ _ _ _ _ _ _ _ i1
          obtain ⟨evs', f1, f2⟩ := st.log
          have hev : evs' = [.pre b lo hi] := List.append_cancel_left (f1.symm.trans e1)
          subst hev
          have hfc : (finCov L s.tree).Perm (finCov L (stepAt g s.c none p a s.tree).t) := by simpa [finals] using f2
          have hpd := I1_PD hg st.inv
          have hpc : (preCov (stepAt g s.c none p a s.tree).t).Perm ((lo, hi) :: preCov s.tree) := by
            simpa [pres] using e2.symm
          have hpd2 : PD ((finCov L s.tree).map rg ++ ((lo, hi) :: preCov s.tree)) :=
            (List.Perm.pairwise_iff (fun h => Disj_symm h) (List.Perm.append (hfc.map rg) hpc.symm).symm).mp hpd |> fun x => by
              exact (List.Perm.pairwise_iff (fun h => Disj_symm h) (List.Perm.append (hfc.map rg) hpc.symm)).mpr hpd
          obtain ⟨_, hp2, hcross⟩ := List.pairwise_append.mp hpd2
          have hcons := List.pairwise_cons.mp hp2
          refine ⟨?_, ?_⟩
          · show OKlog (stepAt g s.c none p a s.tree).c.log
            rw [e1]
            refine OKlog_append_pre hok ?_
            intro x hx r hr
            rcases mem_ranges hx hr with hm | hm
            · have : r ∈ (finCov L s.tree).map rg := ((l1.map rg).mem_iff).mp hm
              exact hcross r this (lo, hi) (List.mem_cons_self ..)
            · have : r ∈ preCov s.tree := ((hpre p1).mem_iff).mp hm
              exact Disj_symm (hcons.1 r this)
          · intro _
            show (pres (stepAt g s.c none p a s.tree).c.log).Perm (preCov (stepAt g s.c none p a s.tree).t)
            rw [e1, pres_append]
            have : pres [Ev.pre b lo hi] = [(lo, hi)] := rfl
            rw [this]
            exact (List.perm_append_comm.trans (List.Perm.cons _ (hpre p1))).trans hpc.symm
        · -- pass 2: no task is left that could pre-scan
          have := I2_noReady _ _ _ _ _ i2
          rw [this] at hrdy; cases hrdy
        · exact absurd p3 hp3

theorem GP_run (g L HI : Nat) (hg : 1 ≤ g) (hle : L ≤ HI) (sched : List (List Bool × Act)) : GP (run g L HI sched) := by
  unfold run
  have : ∀ (s : St), GI g L HI s → GP s → GI g L HI (sched.foldl (step g) s) ∧ GP (sched.foldl (step g) s) := by
    induction sched with
    | nil => intro s h1 h2; exact ⟨h1, h2⟩
    | cons pa rest ih => intro s h1 h2; exact ih _ (GI_step g L HI hg s pa h1) (GP_step g L HI hg s pa h1 h2)
  exact (this _ (GI_init g L HI hle) (GP_init L HI)).2

end TbbVerif.C06.SP
