/-
C06 — parallel_scan task protocol: the pass-2 invariant `I2` (sum_node::execute, final_sum::execute in any order).
-/
import TbbVerif.Proofs.C06.SPStep1e

namespace TbbVerif.C06.SP
open Scan (Ctx Ev mid finals finalScan_val preScan_val rjoin_val alloc_val assign_val)

/-- what the parent has done with a kept sum_node: nothing yet, or `prepare_for_execution(body, incoming, stuff_last)` -/
inductive Exp where
  | idle
  | act (body : Nat) (inc : Option Nat) (stuff : Bool)
  deriving Repr, DecidableEq

/-- `m_left_sum` bodies of the kept sum_nodes below (the bodies pass 2 works on) -/
def lsK : T → List Nat
  | .task .. => []
  | .node nd l r => if isKept (.node nd l r) then (nd.ls.toList : List Nat) ++ (lsK l ++ lsK r) else []

/-- a subtree that pass 2 never enters (no kept sum_node at its top): everything finished, every finish_scan dropped its node -/
def Dead : T → Prop
  | .task _ _ _ _ _ pc => pc = .finished
  | .node nd l r => nd.ph = .dropped ∧ nd.ll = .none ∧ nd.rl = .none ∧ Dead l ∧ Dead r

/-- a final_sum leaf task for `[lo,hi)` on body `b` -/
def leafOK (c : Ctx) (L b lo hi : Nat) (stuff : Bool) : L2 → Prop
  | .ready b' lo' hi' st => b' = b ∧ lo' = lo ∧ hi' = hi ∧ st = stuff ∧ c.val b = rng L lo
  | .ran b' st => b' = b ∧ st = stuff ∧ c.val b = rng L hi
  | .gone => True
  | .none => False

def phGone : T → Bool
  | .node nd _ _ => nd.ph == .gone
  | .task .. => false

def rightDone (nd : Nd) (r : T) : Bool := if isKept r then phGone r else nd.rl == .gone
def leftDone (nd : Nd) (l : T) : Bool := nd.lif || (if isKept l then phGone l else nd.ll == .gone)

/-- the pass-2 invariant of a KEPT sum_node over `[lo,hi)`; `fm` = it was built in final mode (leftmost spine);
`HI` = end of the whole range; `e` = what its parent did with it -/
def I2 (c : Ctx) (L HI g : Nat) : T → Nat → Nat → Bool → Exp → Prop
  | .task .., _, _, _, _ => False
  | .node nd l r, lo, hi, fm, e =>
      nd.lo = lo ∧ nd.hi = hi ∧ g < hi - lo ∧ L ≤ lo ∧ hi ≤ HI ∧ (fm = true → lo = L) ∧
      (nd.lif = true → fm = true) ∧ (fm = true → nd.lif = false → isKept l = true) ∧
      (nd.lif = true → isKept l = false ∧ Scan.chain L lo (finCov L l) (mid lo hi)) ∧
      (isKept l = false → Dead l ∧ (nd.lif = false → finCov L l = [])) ∧ (isKept r = false → Dead r ∧ finCov L r = []) ∧
      (lsK (.node nd l r)).Nodup ∧ (∀ x, x ∈ lsK (.node nd l r) → x < c.heap.length ∧ x ≠ 0) ∧
      match nd.ls with
      | none => False
      | some y =>
          (fm = true → nd.lif = false → y ≠ 1) ∧
          match e, nd.ph with
          | .idle, .kept =>
              c.val y = rng lo (mid lo hi) ∧ nd.ll = .none ∧ nd.rl = .none ∧
              (isKept l = true → I2 c L HI g l lo (mid lo hi) fm .idle) ∧ (isKept r = true → I2 c L HI g r (mid lo hi) hi false .idle)
          | .act body inc stuff, .prep b' i' s' =>
              b' = body ∧ i' = inc ∧ s' = stuff ∧
              (inc = none → fm = true ∧ body = 1) ∧ (∀ i, inc = some i → i = body ∧ fm = false) ∧ (stuff = true → hi = HI) ∧
              body < c.heap.length ∧ body ≠ 0 ∧ (fm = false → body ∉ lsK (.node nd l r) ∧ c.val body = rng L lo) ∧
              c.val y = rng lo (mid lo hi) ∧ nd.ll = .none ∧ nd.rl = .none ∧
              (isKept l = true → I2 c L HI g l lo (mid lo hi) fm .idle) ∧ (isKept r = true → I2 c L HI g r (mid lo hi) hi false .idle)
          | .act body inc stuff, ph =>
              (∃ k, (ph = .run2 k ∨ (ph = .gone ∧ k = 0)) ∧ k = b2n (!rightDone nd r) + b2n (!leftDone nd l)) ∧
              (inc = none → fm = true ∧ body = 1) ∧ (∀ i, inc = some i → i = body ∧ fm = false) ∧ (stuff = true → hi = HI) ∧
              body < c.heap.length ∧ body ≠ 0 ∧ (fm = false → body ∉ lsK (.node nd l r)) ∧
              (if isKept r then nd.rl = .none ∧ I2 c L HI g r (mid lo hi) hi false (.act y (some y) stuff)
               else leafOK c L y (mid lo hi) hi stuff nd.rl) ∧
              (if nd.lif then nd.ll = .none
               else if isKept l then nd.ll = .none ∧ I2 c L HI g l lo (mid lo hi) fm (.act body inc false)
               else fm = false ∧ leafOK c L body lo (mid lo hi) false nd.ll) ∧
              (stuff = true → rightDone nd r = true → c.val 0 = rng L HI)
          | _, _ => False

/-- bodies the invariant reads -/
def fp2 (t : T) (fm : Bool) : Exp → List Nat
  | .idle => lsK t
  | .act body _ stuff => (if fm then [] else [body]) ++ (if stuff then [0] else []) ++ lsK t

end TbbVerif.C06.SP
