/-
C06 — parallel_scan task protocol, pass 2: inert subtrees and the frame of `I2`.
-/
import TbbVerif.Proofs.C06.SP2Lem

namespace TbbVerif.C06.SP
open Scan (Ctx Ev mid finals finalScan_val preScan_val rjoin_val alloc_val assign_val)

local macro "tt" : term => `(by trivial)

/-- heap-free: nothing below can move any more until the parent prepares it -/
def Idle : T → Prop
  | .task _ _ _ _ _ pc => pc = .finished
  | .node nd l r => (nd.ph = .dropped ∨ nd.ph = .kept) ∧ nd.ll = .none ∧ nd.rl = .none ∧ Idle l ∧ Idle r

theorem Dead_idle : ∀ (t : T), Dead t → Idle t := by
  intro t
  induction t with
  | task => intro h; exact h
  | node nd l r ihl ihr =>
      intro h
      simp only [Dead] at h
      simp only [Idle]
      exact ⟨Or.inl h.1, h.2.1, h.2.2.1, ihl h.2.2.2.1, ihr h.2.2.2.2⟩

theorem I2_idle {c : Ctx} {L HI g : Nat} : ∀ (t : T) (lo hi : Nat) (fm : Bool), I2 c L HI g t lo hi fm .idle → Idle t := by
  intro t
  induction t with
  | task => intro lo hi fm h; simp [I2] at h
  | node nd l r ihl ihr =>
      intro lo hi fm h
      obtain ⟨nlo, nhi, nref, nz, nss, nls, nlif, nph, nll, nrl⟩ := nd
      cases nls with
      | none => simp [I2] at h
      | some y =>
          cases nph <;> simp only [I2] at h
          case kept =>
            obtain ⟨_, _, _, _, _, _, _, _, _, d1, d2, _, _, _, _, e1, e2, i1, i2⟩ := h
            simp only [Idle]
            refine ⟨tt, e1, e2, ?_, ?_⟩
            · cases hk : isKept l with
              | true => exact ihl _ _ _ (i1 hk)
              | false => exact Dead_idle _ (d1 hk).1
            · cases hk : isKept r with
              | true => exact ihr _ _ _ (i2 hk)
              | false => exact Dead_idle _ (d2 hk).1
          all_goals exact h.2.2.2.2.2.2.2.2.2.2.2.2.2.2.elim

theorem Idle_step (g : Nat) (c : Ctx) (a : Act) : ∀ (t : T) (sv : Option BodyId) (p : List Bool), Idle t →
    (stepAt g c sv p a t).c = c ∧ (stepAt g c sv p a t).t = t ∧ (stepAt g c sv p a t).dec = false ∧
    (stepAt g c sv p a t).sw = none ∧ (stepAt g c sv p a t).dec2 = false := by
  intro t
  induction t with
  | task lo hi b fin ss pc =>
      intro sv p h
      simp only [Idle] at h
      subst h
      cases p with
      | nil => simp [stepAt, stepTask_finished, noop]
      | cons x p => simp [stepAt, noop]
  | node nd l r ihl ihr =>
      intro sv p h
      simp only [Idle] at h
      obtain ⟨hp, h1, h2, hl, hr⟩ := h
      cases p with
      | nil =>
          simp only [stepAt]
          by_cases ha : a = .fexec
          · subst ha
            have : ¬ (nd.ph = .p1 ∧ nd.ref = 0) := by rcases hp with hp | hp <;> simp [hp]
            simp [stepNode, this, noop]
          · rw [stepNode_noop (by rcases hp with hp | hp <;> simp [hp]) ha]; simp [noop]
      | cons x p =>
          cases x with
          | false =>
              obtain ⟨e1, e2, e3, e4, e5⟩ := ihl nd.ls p hl
              simp only [stepAt, e1, e2, e3, e4, e5, decRef_false, decPh_false]
              simp
          | true =>
              have hsr : startRight p a r = none := by
                cases hs : startRight p a r with
                | none => rfl
                | some v =>
                    obtain ⟨st, lo1, hi1, b1, f1, s1⟩ := v
                    have := (startRight_some hs).2.2
                    subst this
                    simp [Idle] at hr
              obtain ⟨e1, e2, e3, e4, e5⟩ := ihr sv p hr
              simp only [stepAt, hsr, e1, e2, e3, e4, e5, decRef_false, decPh_false]
              simp

theorem lsK_sub_l {nd : Nd} {l r : T} (hk : isKept (.node nd l r) = true) {x : Nat} (hx : x ∈ lsK l) : x ∈ lsK (.node nd l r) := by
  simp [lsK, hk, hx]
theorem lsK_sub_r {nd : Nd} {l r : T} (hk : isKept (.node nd l r) = true) {x : Nat} (hx : x ∈ lsK r) : x ∈ lsK (.node nd l r) := by
  simp [lsK, hk, hx]
theorem lsK_self {nd : Nd} {l r : T} {y : Nat} (hk : isKept (.node nd l r) = true) (hy : nd.ls = some y) : y ∈ lsK (.node nd l r) := by
  simp [lsK, hk, hy]

/-- frame of the pass-2 invariant: it reads the kept `m_left_sum` bodies below, the body handed down (unless in final mode) and, on the
`stuff_last` path, the user's body -/
theorem I2_frame {c c' : Ctx} {L HI g : Nat} (hl : c'.heap.length = c.heap.length) :
    ∀ (t : T) (lo hi : Nat) (fm : Bool) (e : Exp), (∀ x, x ∈ fp2 t fm e → c'.val x = c.val x) →
    I2 c L HI g t lo hi fm e → I2 c' L HI g t lo hi fm e := by
  intro t
  induction t with
  | task => intro lo hi fm e _ h; simp [I2] at h
  | node nd l r ihl ihr =>
      intro lo hi fm e hfr h
      obtain ⟨nlo, nhi, nref, nz, nss, nls, nlif, nph, nll, nrl⟩ := nd
      cases nls with
      | none => simp [I2] at h
      | some y =>
          cases e with
          | idle =>
              cases nph <;> simp only [I2] at h ⊢
              case kept =>
                obtain ⟨h1, h2, h3, h4, h5, h6, h7, h8, h9, d1, d2, n1, n2, y1, v1, e1, e2, i1, i2⟩ := h
                have hk : isKept (T.node ⟨nlo, nhi, nref, nz, nss, some y, nlif, .kept, nll, nrl⟩ l r) = true := rfl
                refine ⟨h1, h2, h3, h4, h5, h6, h7, h8, h9, d1, d2, n1, fun x hx => hl ▸ n2 x hx, y1, ?_, e1, e2, ?_, ?_⟩
                · rw [hfr y (by simp only [fp2]; exact lsK_self hk rfl)]; exact v1
                · intro hk'
                  exact ihl _ _ _ _ (fun x hx => hfr x (by simp only [fp2] at hx ⊢; exact lsK_sub_l hk hx)) (i1 hk')
                · intro hk'
                  exact ihr _ _ _ _ (fun x hx => hfr x (by simp only [fp2] at hx ⊢; exact lsK_sub_r hk hx)) (i2 hk')
              all_goals exact h.2.2.2.2.2.2.2.2.2.2.2.2.2.2.elim
          | act body inc stuff =>
              have hsub : ∀ x, x ∈ lsK (T.node ⟨nlo, nhi, nref, nz, nss, some y, nlif, nph, nll, nrl⟩ l r) → c'.val x = c.val x :=
                fun x hx => hfr x (by simp only [fp2, List.mem_append]; exact Or.inr hx)
              have hbody : fm = false → c'.val body = c.val body := fun hf => hfr body (by simp [fp2, hf])
              have h0v : stuff = true → c'.val 0 = c.val 0 := fun hs => hfr 0 (by simp [fp2, hs])
              cases nph <;> simp only [I2] at h ⊢
              case prep b' i' s' =>
                obtain ⟨h1, h2, h3, h4, h5, h6, h7, h8, h9, d1, d2, n1, n2, y1, p1, p2, p3, c1, c2, c3, c4, c5, c6, v1, e1, e2, i1, i2⟩ := h
                have hk : isKept (T.node ⟨nlo, nhi, nref, nz, nss, some y, nlif, .prep b' i' s', nll, nrl⟩ l r) = true := rfl
                refine ⟨h1, h2, h3, h4, h5, h6, h7, h8, h9, d1, d2, n1, fun x hx => hl ▸ n2 x hx, y1, p1, p2, p3, c1, c2, c3, hl ▸ c4, c5, ?_, ?_,
                  e1, e2, ?_, ?_⟩
                · intro hf; exact ⟨(c6 hf).1, by rw [hbody hf]; exact (c6 hf).2⟩
                · rw [hsub y (lsK_self hk rfl)]; exact v1
                · intro hk'
                  exact ihl _ _ _ _ (fun x hx => hsub x (by simp only [fp2] at hx; exact lsK_sub_l hk hx)) (i1 hk')
                · intro hk'
                  exact ihr _ _ _ _ (fun x hx => hsub x (by simp only [fp2] at hx; exact lsK_sub_r hk hx)) (i2 hk')
              case run2 k0 =>
                obtain ⟨h1, h2, h3, h4, h5, h6, h7, h8, h9, d1, d2, n1, n2, y1, k1, c1, c2, c3, c4, c5, c6, rp, lp, u1⟩ := h
                have hk : isKept (T.node ⟨nlo, nhi, nref, nz, nss, some y, nlif, .run2 k0, nll, nrl⟩ l r) = true := rfl
                have hy := hsub y (lsK_self hk rfl)
                refine ⟨h1, h2, h3, h4, h5, h6, h7, h8, h9, d1, d2, n1, fun x hx => hl ▸ n2 x hx, y1, k1, c1, c2, c3, hl ▸ c4, c5, c6, ?_, ?_, ?_⟩
                · split at rp
                  · rename_i hkr
                    rw [if_pos hkr]
                    refine ⟨rp.1, ihr _ _ _ _ ?_ rp.2⟩
                    intro x hx
                    simp only [fp2, Bool.false_eq_true, if_false, List.mem_append, List.mem_singleton] at hx
                    rcases hx with (hx | hx) | hx
                    · rw [hx]; exact hy
                    · split at hx
                      · rename_i hs; simp only [List.mem_singleton] at hx; rw [hx]; exact h0v hs
                      · cases hx
                    · exact hsub x (lsK_sub_r hk hx)
                  · rename_i hkr
                    rw [if_neg hkr]
                    exact leafOK_frame hy rp
                · split at lp
                  · rename_i hlif; rw [if_pos hlif]; exact lp
                  · rename_i hlif
                    rw [if_neg hlif]
                    split at lp
                    · rename_i hkl
                      rw [if_pos hkl]
                      refine ⟨lp.1, ihl _ _ _ _ ?_ lp.2⟩
                      intro x hx
                      simp only [fp2, Bool.false_eq_true, if_false, List.append_nil, List.mem_append] at hx
                      rcases hx with hx | hx
                      · cases fm with
                        | true => simp at hx
                        | false => simp only [Bool.false_eq_true, if_false, List.mem_singleton] at hx; rw [hx]; exact hbody rfl
                      · exact hsub x (lsK_sub_l hk hx)
                    · rename_i hkl
                      rw [if_neg hkl]
                      exact ⟨lp.1, leafOK_frame (hbody lp.1) lp.2⟩
                · intro hs hd; rw [h0v hs]; exact u1 hs hd
              case gone =>
                obtain ⟨h1, h2, h3, h4, h5, h6, h7, h8, h9, d1, d2, n1, n2, y1, k1, c1, c2, c3, c4, c5, c6, rp, lp, u1⟩ := h
                have hk : isKept (T.node ⟨nlo, nhi, nref, nz, nss, some y, nlif, .gone, nll, nrl⟩ l r) = true := rfl
                have hy := hsub y (lsK_self hk rfl)
                refine ⟨h1, h2, h3, h4, h5, h6, h7, h8, h9, d1, d2, n1, fun x hx => hl ▸ n2 x hx, y1, k1, c1, c2, c3, hl ▸ c4, c5, c6, ?_, ?_, ?_⟩
                · split at rp
                  · rename_i hkr
                    rw [if_pos hkr]
                    refine ⟨rp.1, ihr _ _ _ _ ?_ rp.2⟩
                    intro x hx
                    simp only [fp2, Bool.false_eq_true, if_false, List.mem_append, List.mem_singleton] at hx
                    rcases hx with (hx | hx) | hx
                    · rw [hx]; exact hy
                    · split at hx
                      · rename_i hs; simp only [List.mem_singleton] at hx; rw [hx]; exact h0v hs
                      · cases hx
                    · exact hsub x (lsK_sub_r hk hx)
                  · rename_i hkr
                    rw [if_neg hkr]
                    exact leafOK_frame hy rp
                · split at lp
                  · rename_i hlif; rw [if_pos hlif]; exact lp
                  · rename_i hlif
                    rw [if_neg hlif]
                    split at lp
                    · rename_i hkl
                      rw [if_pos hkl]
                      refine ⟨lp.1, ihl _ _ _ _ ?_ lp.2⟩
                      intro x hx
                      simp only [fp2, Bool.false_eq_true, if_false, List.append_nil, List.mem_append] at hx
                      rcases hx with hx | hx
                      · cases fm with
                        | true => simp at hx
                        | false => simp only [Bool.false_eq_true, if_false, List.mem_singleton] at hx; rw [hx]; exact hbody rfl
                      · exact hsub x (lsK_sub_l hk hx)
                    · rename_i hkl
                      rw [if_neg hkl]
                      exact ⟨lp.1, leafOK_frame (hbody lp.1) lp.2⟩
                · intro hs hd; rw [h0v hs]; exact u1 hs hd
              all_goals
                obtain ⟨_, _, _, _, _, _, _, _, _, _, _, _, _, _, ⟨k, hk, _⟩, _⟩ := h
                rcases hk with hk | hk
                · cases hk
                · cases hk.1

end TbbVerif.C06.SP
