/-
C06 — parallel_scan, general oracle: pass 1 builds a tree of kept sum_nodes that pass 2 completes.
-/
import TbbVerif.Proofs.C06.Scan

namespace TbbVerif.C06.Scan

/-! ### heap operations -/

theorem val_setVal (c : Ctx) (b b' : Nat) (v : List Nat) :
    (c.setVal b v).val b' = if b' = b ∧ b < c.heap.length then v else c.val b' := by
  by_cases h : b' = b
  · subst h
    by_cases hl : b' < c.heap.length
    · simp [Ctx.setVal, Ctx.val, hl]
    · simp [Ctx.setVal, Ctx.val, hl]
  · simp [Ctx.setVal, Ctx.val, h, List.getElem?_set_ne (Ne.symm h)]

@[simp] theorem len_setVal (c : Ctx) (b : Nat) (v : List Nat) : (c.setVal b v).heap.length = c.heap.length := by
  simp [Ctx.setVal]

@[simp] theorem err_setVal (c : Ctx) (b : Nat) (v : List Nat) : (c.setVal b v).err = c.err := rfl
@[simp] theorem log_setVal (c : Ctx) (b : Nat) (v : List Nat) : (c.setVal b v).log = c.log := rfl

@[simp] theorem alloc_snd (c : Ctx) (s : Nat) : (c.alloc s).2 = c.heap.length := rfl
@[simp] theorem alloc_len (c : Ctx) (s : Nat) : (c.alloc s).1.heap.length = c.heap.length + 1 := by
  simp [Ctx.alloc]
@[simp] theorem alloc_err (c : Ctx) (s : Nat) : (c.alloc s).1.err = c.err := rfl
@[simp] theorem alloc_log (c : Ctx) (s : Nat) : (c.alloc s).1.log = c.log ++ [.split c.heap.length s] := rfl

theorem alloc_val (c : Ctx) (s b : Nat) : (c.alloc s).1.val b = if b = c.heap.length then [] else c.val b := by
  simp only [Ctx.alloc, Ctx.val, List.getD_eq_getElem?_getD]
  rcases Nat.lt_trichotomy b c.heap.length with h | h | h
  · have hne : b ≠ c.heap.length := by omega
    rw [if_neg hne, List.getElem?_append_left h]
  · subst h; simp
  · have hne : b ≠ c.heap.length := by omega
    rw [if_neg hne, List.getElem?_eq_none (by simp; omega), List.getElem?_eq_none (by omega)]

@[simp] theorem finalScan_len (c : Ctx) (b lo hi : Nat) : (c.finalScan b lo hi).heap.length = c.heap.length := by
  simp [Ctx.finalScan]
@[simp] theorem finalScan_err (c : Ctx) (b lo hi : Nat) : (c.finalScan b lo hi).err = c.err := rfl
@[simp] theorem finalScan_log (c : Ctx) (b lo hi : Nat) :
    (c.finalScan b lo hi).log = c.log ++ [.fin b lo hi (c.val b)] := rfl
theorem finalScan_val (c : Ctx) (b lo hi b' : Nat) :
    (c.finalScan b lo hi).val b' = if b' = b ∧ b < c.heap.length then c.val b ++ rng lo hi else c.val b' := by
  have := val_setVal c b b' (c.val b ++ rng lo hi)
  simpa [Ctx.finalScan, Ctx.val, Ctx.setVal] using this

@[simp] theorem preScan_len (c : Ctx) (b lo hi : Nat) : (c.preScan b lo hi).heap.length = c.heap.length := by
  simp [Ctx.preScan]
@[simp] theorem preScan_err (c : Ctx) (b lo hi : Nat) : (c.preScan b lo hi).err = c.err := rfl
@[simp] theorem preScan_log (c : Ctx) (b lo hi : Nat) : (c.preScan b lo hi).log = c.log ++ [.pre b lo hi] := rfl
theorem preScan_val (c : Ctx) (b lo hi b' : Nat) :
    (c.preScan b lo hi).val b' = if b' = b ∧ b < c.heap.length then c.val b ++ rng lo hi else c.val b' := by
  have := val_setVal c b b' (c.val b ++ rng lo hi)
  simpa [Ctx.preScan, Ctx.val, Ctx.setVal] using this

@[simp] theorem rjoin_len (c : Ctx) (b a : Nat) : (c.rjoin b a).heap.length = c.heap.length := by
  simp [Ctx.rjoin]
@[simp] theorem rjoin_err (c : Ctx) (b a : Nat) : (c.rjoin b a).err = c.err := rfl
@[simp] theorem rjoin_log (c : Ctx) (b a : Nat) : (c.rjoin b a).log = c.log ++ [.rjoin b a] := rfl
theorem rjoin_val (c : Ctx) (b a b' : Nat) :
    (c.rjoin b a).val b' = if b' = b ∧ b < c.heap.length then c.val a ++ c.val b else c.val b' := by
  have := val_setVal c b b' (c.val a ++ c.val b)
  simpa [Ctx.rjoin, Ctx.val, Ctx.setVal] using this

@[simp] theorem assign_len (c : Ctx) (b a : Nat) : (c.assign b a).heap.length = c.heap.length := by
  simp [Ctx.assign]
@[simp] theorem assign_err (c : Ctx) (b a : Nat) : (c.assign b a).err = c.err := rfl
@[simp] theorem assign_log (c : Ctx) (b a : Nat) : (c.assign b a).log = c.log ++ [.assign b a] := rfl
theorem assign_val (c : Ctx) (b a b' : Nat) :
    (c.assign b a).val b' = if b' = b ∧ b < c.heap.length then c.val a else c.val b' := by
  have := val_setVal c b b' (c.val a)
  simpa [Ctx.assign, Ctx.val, Ctx.setVal] using this

@[simp] theorem finals_single_fin (b lo hi : Nat) (inc : List Nat) : finals [Ev.fin b lo hi inc] = [(lo, hi, inc)] := rfl
@[simp] theorem finals_single_pre (b lo hi : Nat) : finals [Ev.pre b lo hi] = [] := rfl
@[simp] theorem finals_single_split (z b : Nat) : finals [Ev.split z b] = [] := rfl
@[simp] theorem finals_single_rjoin (z b : Nat) : finals [Ev.rjoin z b] = [] := rfl
@[simp] theorem finals_single_assign (z b : Nat) : finals [Ev.assign z b] = [] := rfl
@[simp] theorem finals_nil : finals [] = [] := rfl

/-! ### the kept tree -/

def bodies : STree → List Nat
  | .nil => []
  | .node _ _ ls _ l r => (match ls with | some b => [b] | none => []) ++ (bodies l ++ bodies r)

/-- up to where pass 1 has already done the final scan of a final-mode subtree over `[·, hi)` -/
def done1 : STree → Nat → Nat
  | .nil, hi => hi
  | .node lo hi _ lif l _, _ => if lif then mid lo hi else done1 l (mid lo hi)

/-- what pass 1 leaves for pass 2 in a kept subtree expected to cover `[lo,hi)`:
`modeA` = the subtree was built in final mode (then it starts at `L` and `bA` is the body it ran on). -/
def Good (g : Nat) (c : Ctx) (L : Nat) (bA : Nat) : Bool → STree → Nat → Nat → Prop
  | _, .nil, _, _ => True
  | modeA, .node lo' hi' ls lif l r, lo, hi =>
      lo' = lo ∧ hi' = hi ∧ g < hi - lo ∧
      (∃ b, ls = some b ∧ c.val b = rng lo (mid lo hi) ∧ (modeA = true → lif = false → b ≠ bA)) ∧
      (modeA = true → lo = L) ∧ (modeA = false → lif = false) ∧
      (modeA = true → lif = false → l ≠ .nil) ∧
      (lif = false → Good g c L bA modeA l lo (mid lo hi)) ∧
      Good g c L bA false r (mid lo hi) hi

theorem Good_frame (g : Nat) (c c' : Ctx) (L bA : Nat) : ∀ (T : STree) (modeA : Bool) (lo hi : Nat),
    (∀ b, b ∈ bodies T → c'.val b = c.val b) → Good g c L bA modeA T lo hi → Good g c' L bA modeA T lo hi := by
  intro T
  induction T with
  | nil => intro modeA lo hi _ _; simp [Good]
  | node lo' hi' ls lif l r ihl ihr =>
      intro modeA lo hi hfr hg
      simp only [Good] at hg ⊢
      obtain ⟨h1, h2, h3, ⟨b, hb1, hb2, hb3⟩, h5, h6, h7, h8, h9⟩ := hg
      refine ⟨h1, h2, h3, ⟨b, hb1, ?_, hb3⟩, h5, h6, h7, ?_, ?_⟩
      · rw [hfr b (by simp [bodies, hb1])]; exact hb2
      · intro hl
        exact ihl modeA lo (mid lo hi) (fun x hx => hfr x (by simp [bodies]; right; left; exact hx)) (h8 hl)
      · exact ihr false (mid lo hi) hi (fun x hx => hfr x (by simp [bodies]; right; right; exact hx)) h9

/-! ### pass 2 -/

structure P2 (L hi start : Nat) (T : STree) (i : Option Nat) (stuffLast : Bool) (c c' : Ctx) : Prop where
  err : c'.err = c.err
  len : c'.heap.length = c.heap.length
  fins : ∃ evs, c'.log = c.log ++ evs ∧ ∃ fs, (finals evs).Perm fs ∧ chain L start fs hi
  user : c'.val 0 = if stuffLast = true then rng L hi else c.val 0
  frame : ∀ b : Nat, b ∉ bodies T → some b ≠ i → b ≠ 0 → c'.val b = c.val b

theorem finalLeaf_spec (L lo hi : Nat) (b : Nat) (sl : Bool) (c : Ctx) (hlt : lo < hi) (hb0 : 0 < b) (hb : b < c.heap.length)
    (hv : c.val b = rng L lo) (hL : L ≤ lo) :
    (finalLeaf c b lo hi sl).err = c.err ∧ (finalLeaf c b lo hi sl).heap.length = c.heap.length ∧
    (∃ evs, (finalLeaf c b lo hi sl).log = c.log ++ evs ∧ finals evs = [(lo, hi, rng L lo)]) ∧
    ((finalLeaf c b lo hi sl).val 0 = if sl = true then rng L hi else c.val 0) ∧
    (finalLeaf c b lo hi sl).val b = rng L hi ∧
    (∀ x : Nat, x ≠ b → x ≠ 0 → (finalLeaf c b lo hi sl).val x = c.val x) := by
  have hne : (0 : Nat) ≠ b := by omega
  have hvb : (c.finalScan b lo hi).val b = rng L hi := by
    rw [finalScan_val, if_pos ⟨rfl, hb⟩, hv, rng_split L lo hi hL (by omega)]
  unfold finalLeaf
  cases sl with
  | false =>
      simp only [Bool.false_eq_true, if_false]
      refine ⟨rfl, by simp, ⟨_, finalScan_log c b lo hi, by simp [hv]⟩, ?_, hvb, ?_⟩
      · rw [finalScan_val, if_neg (by omega)]
      · intro x hx _; rw [finalScan_val, if_neg (by simp [hx])]
  | true =>
      simp only [if_true]
      refine ⟨rfl, by simp, ⟨[.fin b lo hi (c.val b), .assign 0 b], by simp, by simp [finals, hv]⟩, ?_, ?_, ?_⟩
      · rw [assign_val, if_pos ⟨rfl, by simp; omega⟩, hvb]
      · rw [assign_val, if_neg (by omega), hvb]
      · intro x hx hx0
        rw [assign_val, if_neg (by simp [hx0]), finalScan_val, if_neg (by simp [hx])]

theorem mem_bodies_node {x : Nat} {lo hi : Nat} {ls : Option Nat} {lif : Bool} {l r : STree} :
    x ∈ bodies (.node lo hi ls lif l r) ↔ ls = some x ∨ x ∈ bodies l ∨ x ∈ bodies r := by
  cases ls with
  | none => simp [bodies]
  | some b => simp [bodies, eq_comm]

theorem exec2_node (lo hi : Nat) (ls : Nat) (lif : Bool) (l r : STree) (body : Nat) (inc : Option Nat)
    (sl : Bool) (c : Ctx) :
    exec2 (.node lo hi (some ls) lif l r) body inc sl c =
      let c1 := match inc with
        | some i => c.rjoin ls i
        | none => c
      let c2 := if !lif && body == ls then c1.fail else c1
      let c3 := if r.isNil then finalLeaf c2 ls (mid lo hi) hi sl else exec2 r ls (some ls) sl c2
      if lif then c3
      else if l.isNil then finalLeaf c3 body lo (mid lo hi) false
      else exec2 l body inc false c3 := by
  simp only [exec2]
  rfl

theorem exec2_spec (g L bA : Nat) (hg : 1 ≤ g) : ∀ (T : STree) (modeA : Bool) (lo hi : Nat) (body : Nat) (inc : Option Nat)
    (sl : Bool) (c : Ctx),
    T ≠ .nil → Good g c L bA modeA T lo hi → L ≤ lo →
    (bodies T).Nodup → (∀ x : Nat, x ∈ bodies T → 0 < x ∧ x < c.heap.length) → 0 < c.heap.length →
    (modeA = true → inc = none ∧ body = bA) →
    (modeA = false → inc = some body ∧ 0 < body ∧ body < c.heap.length ∧ body ∉ bodies T ∧ c.val body = rng L lo) →
    P2 L hi (if modeA = true then done1 T hi else lo) T inc sl c (exec2 T body inc sl c) := by
  intro T
  induction T with
  | nil => intro modeA lo hi body inc sl c h; exact absurd rfl h
  | node lo' hi' ls lif l r ihl ihr =>
      intro modeA lo hi body inc sl c _ hgood hL hnd hrange h0 hA hB
      simp only [Good] at hgood
      obtain ⟨e1, e2, hdiv, ⟨b, hb1, hb2, hb3⟩, gA, gB, gnil, gl, gr⟩ := hgood
      subst e1 e2 hb1
      have hm := mid_bounds hg hdiv
      have hbT : b ∈ bodies (.node lo' hi' (some b) lif l r) := mem_bodies_node.mpr (Or.inl rfl)
      have hb0 := (hrange b hbT).1
      have hblt := (hrange b hbT).2
      -- nodup pieces
      have hnd' : b ∉ bodies l ∧ b ∉ bodies r ∧ (bodies l).Nodup ∧ (bodies r).Nodup ∧
          ∀ x, x ∈ bodies l → x ∉ bodies r := by
        simp only [bodies, List.singleton_append, List.nodup_cons, List.mem_append, not_or, List.nodup_append] at hnd
        exact ⟨hnd.1.1, hnd.1.2, hnd.2.1, hnd.2.2.1, fun x hx hx' => hnd.2.2.2 x hx x hx' rfl⟩
      obtain ⟨nbl, nbr, ndl, ndr, ndlr⟩ := hnd'
      rw [exec2_node]
      -- step 1: reverse_join with the incoming prefix
      generalize hc1 : (match inc with | some i => c.rjoin b i | none => c) = c1
      have h1 : c1.err = c.err ∧ c1.heap.length = c.heap.length ∧ c1.val b = rng L (mid lo' hi') ∧
          (∀ x : Nat, x ≠ b → c1.val x = c.val x) ∧
          (∃ evs, c1.log = c.log ++ evs ∧ finals evs = []) := by
        cases modeA with
        | true =>
            have := (hA rfl).1
            subst this
            subst hc1
            have := gA rfl
            subst this
            exact ⟨rfl, rfl, hb2, fun _ _ => rfl, [], by simp, rfl⟩
        | false =>
            obtain ⟨k1, k2, k3, k4, k5⟩ := hB rfl
            subst k1
            subst hc1
            refine ⟨rfl, by simp, ?_, ?_, [.rjoin b body], by simp, rfl⟩
            · rw [rjoin_val, if_pos ⟨rfl, hblt⟩, k5, hb2, rng_split L lo' (mid lo' hi') hL (by omega)]
            · intro x hx; rw [rjoin_val, if_neg (by simp [hx])]
      obtain ⟨c1e, c1l, c1v, c1f, evs1, c1log, c1fin⟩ := h1
      -- step 2: the aliasing check never fires
      have halias : (!lif && body == b) = false := by
        cases lif with
        | true => rfl
        | false =>
            cases modeA with
            | true =>
                have := hb3 rfl rfl
                have hbA := (hA rfl).2
                simp [hbA]; exact fun e => this e.symm
            | false =>
                obtain ⟨_, _, _, k4, _⟩ := hB rfl
                have : body ≠ b := fun e => k4 (e ▸ hbT)
                simp [this]
      simp only [halias, Bool.false_eq_true, if_false]
      -- step 3: the right part
      generalize hc3 : (if r.isNil then finalLeaf c1 b (mid lo' hi') hi' sl else exec2 r b (some b) sl c1) = c3
      have h3 : c3.err = c.err ∧ c3.heap.length = c.heap.length ∧
          (∃ evs, c3.log = c1.log ++ evs ∧ ∃ fs, (finals evs).Perm fs ∧ chain L (mid lo' hi') fs hi') ∧
          (c3.val 0 = if sl = true then rng L hi' else c.val 0) ∧
          (∀ x : Nat, x ∉ bodies r → x ≠ b → x ≠ 0 → c3.val x = c.val x) := by
        cases r with
        | nil =>
            simp only [STree.isNil, if_true] at hc3
            subst hc3
            obtain ⟨f1, f2, ⟨ev, f3, f4⟩, f5, f6, f7⟩ := finalLeaf_spec L (mid lo' hi') hi' b sl c1 hm.2 hb0 (by omega) c1v (by omega)
            refine ⟨by rw [f1, c1e], by rw [f2, c1l], ⟨ev, f3, _, by rw [f4], by simp [chain, hm.2]⟩, ?_, ?_⟩
            · rw [f5, c1f 0 (by omega)]
            · intro x _ hx hx0; rw [f7 x hx hx0, c1f x hx]
        | node a b' x y z w =>
            simp only [STree.isNil, Bool.false_eq_true, if_false] at hc3
            subst hc3
            have hgr : Good g c1 L bA false (.node a b' x y z w) (mid lo' hi') hi' :=
              Good_frame g c c1 L bA _ false _ _ (fun q hq => c1f q (fun e => nbr (e ▸ hq))) gr
            have := ihr false (mid lo' hi') hi' b (some b) sl c1 (by simp) hgr (by omega) ndr
              (fun q hq => by rw [c1l]; exact hrange q (mem_bodies_node.mpr (Or.inr (Or.inr hq)))) (by omega)
              (by intro h; cases h) (fun _ => ⟨rfl, hb0, by omega, nbr, c1v⟩)
            simp only [Bool.false_eq_true, if_false] at this
            obtain ⟨p1, p2, p3, p4, p5⟩ := this
            refine ⟨by rw [p1, c1e], by rw [p2, c1l], p3, ?_, ?_⟩
            · rw [p4, c1f 0 (by omega)]
            · intro q hq hqb hq0
              rw [p5 q hq (by simp; exact hqb) hq0, c1f q hqb]
      obtain ⟨c3e, c3l, ⟨evs3, c3log, fs3, c3perm, c3chain⟩, c3u, c3f⟩ := h3
      -- step 4: the left part
      cases lif with
      | true =>
          simp only [if_true]
          have hmode : modeA = true := by
            cases modeA with
            | true => rfl
            | false => have := gB rfl; cases this
          subst hmode
          simp only [done1, if_true]
          refine ⟨c3e, c3l, ⟨evs1 ++ evs3, by rw [c3log, c1log, List.append_assoc], fs3, ?_, c3chain⟩, c3u, ?_⟩
          · rw [finals_append, c1fin]; simpa using c3perm
          · intro q hq _ hq0
            have hq' := fun h => hq (mem_bodies_node.mpr h)
            exact c3f q (fun h => hq' (Or.inr (Or.inr h))) (fun e => hq' (Or.inl (by rw [e]))) hq0
      | false =>
          simp only [Bool.false_eq_true, if_false]
          have gl' := gl rfl
          -- the body used for the left part and its value
          have hleft : ∃ c4, (if l.isNil then finalLeaf c3 body lo' (mid lo' hi') false
              else exec2 l body inc false c3) = c4 ∧
              c4.err = c.err ∧ c4.heap.length = c.heap.length ∧
              (∃ evs, c4.log = c3.log ++ evs ∧ ∃ fs, (finals evs).Perm fs ∧
                chain L (if modeA = true then done1 l (mid lo' hi') else lo') fs (mid lo' hi')) ∧
              c4.val 0 = c3.val 0 ∧
              (∀ x : Nat, x ∉ bodies l → some x ≠ inc → x ≠ 0 → c4.val x = c3.val x) := by
            cases l with
            | nil =>
                cases modeA with
                | true => exact absurd rfl (gnil rfl rfl)
                | false =>
                    obtain ⟨k1, k2, k3, k4, k5⟩ := hB rfl
                    have hbb : body ≠ b := fun e => k4 (e ▸ hbT)
                    have hbr : body ∉ bodies r := fun h => k4 (mem_bodies_node.mpr (Or.inr (Or.inr h)))
                    have hv : c3.val body = rng L lo' := by rw [c3f body hbr hbb (by omega), k5]
                    obtain ⟨f1, f2, ⟨ev, f3, f4⟩, f5, f6, f7⟩ := finalLeaf_spec L lo' (mid lo' hi') body false c3 hm.1 k2 (by omega) hv hL
                    refine ⟨_, by simp only [STree.isNil, if_true], by rw [f1, c3e], by rw [f2, c3l], ⟨ev, f3, _, by rw [f4], by simp [chain, hm.1]⟩, ?_, ?_⟩
                    · simpa using f5
                    · intro q _ hq hq0
                      subst k1
                      exact f7 q (fun e => hq (by rw [e])) hq0
            | node a b' x y z w =>
                have hfr3 : ∀ q, q ∈ bodies (STree.node a b' x y z w) → c3.val q = c.val q := by
                  intro q hq
                  exact c3f q (ndlr q hq) (fun e => nbl (e ▸ hq))
                    (by have := (hrange q (mem_bodies_node.mpr (Or.inr (Or.inl hq)))).1; omega)
                have hgl : Good g c3 L bA modeA (.node a b' x y z w) lo' (mid lo' hi') :=
                  Good_frame g c c3 L bA _ modeA _ _ hfr3 gl'
                have := ihl modeA lo' (mid lo' hi') body inc false c3 (by simp) hgl hL ndl
                  (fun q hq => by rw [c3l]; exact hrange q (mem_bodies_node.mpr (Or.inr (Or.inl hq)))) (by omega)
                  hA (fun hm' => by
                    obtain ⟨k1, k2, k3, k4, k5⟩ := hB hm'
                    have hbb : body ≠ b := fun e => k4 (e ▸ hbT)
                    have hbr : body ∉ bodies r := fun h => k4 (mem_bodies_node.mpr (Or.inr (Or.inr h)))
                    exact ⟨k1, k2, by omega, fun h => k4 (mem_bodies_node.mpr (Or.inr (Or.inl h))),
                      by rw [c3f body hbr hbb (by omega), k5]⟩)
                obtain ⟨p1, p2, p3, p4, p5⟩ := this
                refine ⟨_, by simp only [STree.isNil, Bool.false_eq_true, if_false], by rw [p1, c3e], by rw [p2, c3l], p3, by simpa using p4, p5⟩
          obtain ⟨c4, hc4, c4e, c4l, ⟨evs4, c4log, fs4, c4perm, c4chain⟩, c4u, c4f⟩ := hleft
          rw [hc4]
          have hstart : (if modeA = true then done1 (STree.node lo' hi' (some b) false l r) hi' else lo') =
              (if modeA = true then done1 l (mid lo' hi') else lo') := by
            cases modeA <;> simp [done1]
          rw [hstart]
          refine ⟨c4e, c4l, ⟨evs1 ++ (evs3 ++ evs4), by rw [c4log, c3log, c1log]; simp, fs4 ++ fs3, ?_,
            chain_append L fs4 fs3 _ _ _ c4chain c3chain⟩, by rw [c4u, c3u], ?_⟩
          · rw [finals_append, finals_append, c1fin]
            simp only [List.nil_append]
            exact (List.perm_append_comm).trans (c4perm.append c3perm)
          · intro q hq hqi hq0
            have hq' := fun h => hq (mem_bodies_node.mpr h)
            rw [c4f q (fun h => hq' (Or.inr (Or.inl h))) hqi hq0]
            exact c3f q (fun h => hq' (Or.inr (Or.inr h))) (fun e => hq' (Or.inl (by rw [e]))) hq0

/-! ### pass 1 -/

theorem Good_bA (g : Nat) (c : Ctx) (L bA bA' : Nat) : ∀ (T : STree) (lo hi : Nat),
    Good g c L bA false T lo hi → Good g c L bA' false T lo hi := by
  intro T
  induction T with
  | nil => intro lo hi _; simp [Good]
  | node lo' hi' ls lif l r ihl ihr =>
      intro lo hi hg
      simp only [Good] at hg ⊢
      obtain ⟨h1, h2, h3, ⟨b, hb1, hb2, _⟩, h5, h6, h7, h8, h9⟩ := hg
      exact ⟨h1, h2, h3, ⟨b, hb1, hb2, fun h => (by cases h)⟩, fun h => (by cases h), h6, fun h => (by cases h),
        fun hl => ihl lo (mid lo hi) (h8 hl), ihr (mid lo hi) hi h9⟩

/-- `treat_as_stolen` -/
def tas (o : Oracle) (lo hi body : Nat) (isRight : Bool) (pls : Option Nat) : Bool :=
  isRight && (o.stolen lo hi || (some body != pls))

/-- what a leaf does: `m_body(m_range, final_scan_tag())` / `pre_scan_tag()` / nothing -/
def leafCtx (c1 : Ctx) (b' lo hi : Nat) (fin' hasSS : Bool) : Ctx :=
  if fin' then c1.finalScan b' lo hi else if hasSS then c1.preScan b' lo hi else c1

/-! #### the GENERATED guard of `start_scan::execute`

`Generated.C06.scanTreatAsStolen` is the translation of the source text of `bool treat_as_stolen = …`; everything below
is proved from these two facts about it, so a guard that is not logically equivalent to
`is_right_child && (is_stolen(ed) || &m_body != m_left_sum)` — e.g. one that drops either disjunct — or that reads
`m_left_sum` in a really stolen task does not get past this point. -/

theorem gen_tas (isRight s n : Bool) : Generated.C06.scanTreatAsStolen isRight s n = (isRight && (s || n)) := by
  cases isRight <;> cases s <;> cases n <;> rfl

/-- `m_parent->m_result.m_left_sum` is never read by a really stolen task (the short-circuit `is_stolen(ed) || …`)
nor by a task that is not a right child (the short-circuit `m_is_right_child && …`; the root has no parent) -/
theorem gen_no_race (isRight s n : Bool) : ((s || !isRight) && Generated.C06.scanGuardReadsLeftSum isRight s n) = false := by
  cases isRight <;> cases s <;> cases n <;> rfl

/-- the two children of a task that splits, in the order the oracle dictates (`early`: right child first) -/
def kids (g : Nat) (o : Oracle) (fuel lo hi b' : Nat) (fin' hasSS : Bool) (c1 : Ctx) (z : Option Nat) : R1 :=
  if o.early (mid lo hi) hi then
    finishRes lo hi fin' hasSS
      (scanTask g o fuel lo (mid lo hi) b' fin' true false none (scanTask g o fuel (mid lo hi) hi b' fin' hasSS true none c1).ctx)
      ⟨(scanTask g o fuel lo (mid lo hi) b' fin' true false none (scanTask g o fuel (mid lo hi) hi b' fin' hasSS true none c1).ctx).ctx,
       (scanTask g o fuel (mid lo hi) hi b' fin' hasSS true none c1).ret,
       (scanTask g o fuel (mid lo hi) hi b' fin' hasSS true none c1).sum,
       (scanTask g o fuel (mid lo hi) hi b' fin' hasSS true none c1).zombie⟩ z
  else
    finishRes lo hi fin' hasSS
      (scanTask g o fuel lo (mid lo hi) b' fin' true false none c1)
      (scanTask g o fuel (mid lo hi) hi b' fin' hasSS true
        (scanTask g o fuel lo (mid lo hi) b' fin' true false none c1).sum
        (scanTask g o fuel lo (mid lo hi) b' fin' true false none c1).ctx) z

theorem scanTask_zero (g : Nat) (o : Oracle) (lo hi body : Nat) (isFinal hasSS isRight : Bool) (pls : Option Nat) (c : Ctx) :
    scanTask g o 0 lo hi body isFinal hasSS isRight pls c =
      (if tas o lo hi body isRight pls then
        ⟨leafCtx (c.alloc body).1 c.heap.length lo hi false hasSS, .nil, if hasSS then some c.heap.length else none, some c.heap.length⟩
       else ⟨leafCtx c body lo hi isFinal hasSS, .nil, if hasSS then some body else none, none⟩) := by
  unfold scanTask tas leafCtx
  simp only [gen_tas, gen_no_race, Bool.false_eq_true, if_false]
  cases h : (isRight && (o.stolen lo hi || (some body != pls))) <;> simp

theorem scanTask_succ (g : Nat) (o : Oracle) (fuel lo hi body : Nat) (isFinal hasSS isRight : Bool) (pls : Option Nat) (c : Ctx) :
    scanTask g o (fuel + 1) lo hi body isFinal hasSS isRight pls c =
      (if tas o lo hi body isRight pls then
        (if !(decide (g < hi - lo)) || o.exec lo hi then
          ⟨leafCtx (c.alloc body).1 c.heap.length lo hi false hasSS, .nil, if hasSS then some c.heap.length else none, some c.heap.length⟩
         else kids g o fuel lo hi c.heap.length false hasSS (c.alloc body).1 (some c.heap.length))
       else
        (if isRight || !(decide (g < hi - lo)) || o.exec lo hi then
          ⟨leafCtx c body lo hi isFinal hasSS, .nil, if hasSS then some body else none, none⟩
         else kids g o fuel lo hi body isFinal hasSS c none)) := by
  rw [scanTask]
  unfold tas leafCtx kids
  simp only [gen_tas, gen_no_race, Bool.false_eq_true, if_false]
  cases h : (isRight && (o.stolen lo hi || (some body != pls)))
  · simp only [Bool.false_eq_true, if_false, Bool.not_false, Bool.and_true]
  · simp only [if_true, Bool.not_true, Bool.and_false, Bool.false_or, alloc_snd]
    rfl

/-- outcome of a task (and everything below it) whose effective body is `b'` (value `v0` on entry),
effective finality `fin'`, started in context `c1` (after the possible zombie allocation) -/
structure P1 (g L lo hi b' : Nat) (v0 : List Nat) (fin' hasSS : Bool) (c1 : Ctx) (r : R1) : Prop where
  err : r.ctx.err = c1.err
  mono : c1.heap.length ≤ r.ctx.heap.length
  frame : ∀ b : Nat, b < c1.heap.length → b ≠ b' → r.ctx.val b = c1.val b
  sumSS : hasSS = true → ∃ sb : Nat, r.sum = some sb ∧ sb < r.ctx.heap.length ∧ (sb = b' ∨ c1.heap.length ≤ sb) ∧
      r.ctx.val sb = v0 ++ rng lo hi
  sumNone : hasSS = false → r.sum = none
  seq : r.sum = some b' → r.ret = .nil
  seqVal : fin' = true → r.ret = .nil → r.ctx.val b' = v0 ++ rng lo hi
  fins : ∃ evs, r.ctx.log = c1.log ++ evs ∧
      (fin' = true → chain L lo (finals evs) (done1 r.ret hi)) ∧ (fin' = false → finals evs = [])
  good : Good g r.ctx L b' fin' r.ret lo hi
  fresh : ∀ x : Nat, x ∈ bodies r.ret → 0 < x ∧ x < r.ctx.heap.length ∧ (x = b' ∨ c1.heap.length ≤ x)
  nodup : (bodies r.ret).Nodup
  sumNotIn : ∀ sb : Nat, r.sum = some sb → sb ∉ bodies r.ret

theorem leaf_P1 (g L lo hi b' : Nat) (fin' hasSS : Bool) (c1 : Ctx) (z : Option Nat)
    (hlt : lo < hi) (hb : b' < c1.heap.length) (hfin : fin' = true → c1.val b' = rng L lo) :
    P1 g L lo hi b' (c1.val b') fin' hasSS c1
      ⟨leafCtx c1 b' lo hi fin' hasSS, .nil, if hasSS then some b' else none, z⟩ := by
  have hval : (fin' = true ∨ hasSS = true) → (leafCtx c1 b' lo hi fin' hasSS).val b' = c1.val b' ++ rng lo hi := by
    intro h
    unfold leafCtx
    cases fin' with
    | true => simp only [if_true]; rw [finalScan_val, if_pos ⟨rfl, hb⟩]
    | false =>
        cases hasSS with
        | true => simp only [Bool.false_eq_true, if_false, if_true]; rw [preScan_val, if_pos ⟨rfl, hb⟩]
        | false => simp at h
  have hlen : (leafCtx c1 b' lo hi fin' hasSS).heap.length = c1.heap.length := by
    unfold leafCtx; split <;> (try split) <;> simp
  refine ⟨?_, by simp only [hlen]; exact Nat.le_refl _, ?_, ?_, ?_, fun _ => rfl, ?_, ?_, by simp [Good], by simp [bodies], by simp [bodies], by simp [bodies]⟩
  · unfold leafCtx; split <;> (try split) <;> rfl
  · intro b _ hne
    unfold leafCtx
    split
    · simp only; rw [finalScan_val, if_neg (by simp [hne])]
    · split
      · simp only; rw [preScan_val, if_neg (by simp [hne])]
      · rfl
  · intro hss
    subst hss
    refine ⟨b', by simp, by simp only [hlen]; exact hb, Or.inl rfl, hval (Or.inr rfl)⟩
  · intro hss; subst hss; simp
  · intro hf _; exact hval (Or.inl hf)
  · cases fin' with
    | true =>
        refine ⟨[.fin b' lo hi (c1.val b')], by simp [leafCtx], ?_, fun h => by cases h⟩
        intro _
        simp [done1, chain, hfin rfl, hlt]
    | false =>
        cases hasSS with
        | true => exact ⟨[.pre b' lo hi], by simp [leafCtx], fun h => (by cases h), fun _ => rfl⟩
        | false => exact ⟨[], by simp [leafCtx], fun h => (by cases h), fun _ => rfl⟩

/-- both children ran one after the other on the same body (the right child was not stolen) -/
theorem finish_seq (g L lo hi b' : Nat) (fin' hasSS : Bool) (c1 : Ctx) (Lr Rr : R1) (z : Option Nat)
    (hm : lo < mid lo hi ∧ mid lo hi < hi)
    (hL : P1 g L lo (mid lo hi) b' [] fin' true c1 Lr)
    (hsum : Lr.sum = some b')
    (hR : P1 g L (mid lo hi) hi b' (Lr.ctx.val b') fin' hasSS Lr.ctx Rr)
    (hRnil : Rr.ret = .nil) (hRz : Rr.zombie = none) :
    P1 g L lo hi b' [] fin' hasSS c1 (finishRes lo hi fin' hasSS Lr Rr z) := by
  have hLnil : Lr.ret = .nil := hL.seq hsum
  obtain ⟨sb, s1, s2, s3, s4⟩ := hL.sumSS rfl
  have hsb : sb = b' := by rw [hsum] at s1; exact (Option.some.inj s1).symm
  subst hsb
  have hvL : Lr.ctx.val sb = rng lo (mid lo hi) := by simpa using s4
  have hres : finishRes lo hi fin' hasSS Lr Rr z = ⟨Rr.ctx, .nil, if hasSS then Rr.sum else none, z⟩ := by
    simp [finishRes, hRz, hRnil]
  rw [hres]
  refine ⟨by rw [hR.err, hL.err], Nat.le_trans hL.mono hR.mono, ?_, ?_, ?_, fun _ => rfl, ?_, ?_, by simp [Good],
    by simp [bodies], by simp [bodies], by simp [bodies]⟩
  · intro b hb hne
    rw [hR.frame b (Nat.lt_of_lt_of_le hb hL.mono) hne, hL.frame b hb hne]
  · intro hss
    obtain ⟨rb, r1, r2, r3, r4⟩ := hR.sumSS hss
    refine ⟨rb, by simp [hss, r1], r2, ?_, ?_⟩
    · rcases r3 with r3 | r3
      · exact Or.inl r3
      · exact Or.inr (Nat.le_trans hL.mono r3)
    · rw [r4, hvL, rng_split lo (mid lo hi) hi (by omega) (by omega)]; simp
  · intro hss; simp [hss]
  · intro hf _
    simp only
    rw [hR.seqVal hf hRnil, hvL, rng_split lo (mid lo hi) hi (by omega) (by omega)]; simp
  · obtain ⟨e1, l1, l2, l3⟩ := hL.fins
    obtain ⟨e2, r1, r2, r3⟩ := hR.fins
    refine ⟨e1 ++ e2, by simp only; rw [r1, l1, List.append_assoc], ?_, ?_⟩
    · intro hf
      have a1 := l2 hf
      have a2 := r2 hf
      rw [hLnil] at a1
      rw [hRnil] at a2
      simp only [done1] at a1 a2 ⊢
      rw [finals_append]
      exact chain_append L _ _ _ _ _ a1 a2
    · intro hf
      rw [finals_append, l3 hf, r3 hf]; rfl

/-- the right child was (really or virtually) stolen: it ran on a fresh zombie body; the sum_node is kept -/
theorem finish_stolen (g L lo hi b' : Nat) (fin' hasSS : Bool) (c1 : Ctx) (Lr Rr : R1) (z : Option Nat)
    (hm : lo < mid lo hi ∧ mid lo hi < hi) (hdiv : g < hi - lo) (hb : b' < c1.heap.length) (hb0 : 0 < b')
    (hfinL : fin' = true → lo = L)
    (hL : P1 g L lo (mid lo hi) b' [] fin' true c1 Lr)
    (hR : P1 g L (mid lo hi) hi Lr.ctx.heap.length [] false hasSS (Lr.ctx.alloc b').1 Rr)
    (hRz : Rr.zombie = some Lr.ctx.heap.length) :
    P1 g L lo hi b' [] fin' hasSS c1 (finishRes lo hi fin' hasSS Lr Rr z) := by
  obtain ⟨lsb, s1, s2, s3, s4⟩ := hL.sumSS rfl
  have hvL : Lr.ctx.val lsb = rng lo (mid lo hi) := by simpa using s4
  have hlen1 : c1.heap.length ≤ Lr.ctx.heap.length := hL.mono
  have hlenR : Lr.ctx.heap.length + 1 ≤ Rr.ctx.heap.length := by simpa using hR.mono
  -- values of old bodies survive the right child's run
  have hkeep : ∀ x : Nat, x < Lr.ctx.heap.length → Rr.ctx.val x = Lr.ctx.val x := by
    intro x hx
    rw [hR.frame x (by simp; omega) (by omega), alloc_val, if_neg (by omega)]
  -- the context after finish_scan::execute
  generalize hcf : (finishRes lo hi fin' hasSS Lr Rr z).ctx = cf
  have hres : finishRes lo hi fin' hasSS Lr Rr z =
      ⟨cf, .node lo hi Lr.sum (fin' && (Lr.ret == .nil)) Lr.ret Rr.ret, if hasSS then Rr.sum else none, z⟩ := by
    subst hcf; simp [finishRes, hRz]
  have hcf' : ∃ rsopt : Option Nat, Rr.sum = rsopt ∧ (hasSS = true → ∃ rs : Nat, rsopt = some rs ∧ Lr.ctx.heap.length ≤ rs ∧
        rs < Rr.ctx.heap.length ∧ rs ∉ bodies Rr.ret ∧ cf.val rs = rng lo hi) ∧ (hasSS = false → rsopt = none) ∧
      cf.err = Rr.ctx.err ∧ cf.heap.length = Rr.ctx.heap.length ∧
      (∀ x : Nat, some x ≠ rsopt → cf.val x = Rr.ctx.val x) ∧
      (∃ evs, cf.log = Rr.ctx.log ++ evs ∧ finals evs = []) := by
    cases hasSS with
    | false =>
        simp only [finishRes, Bool.and_false, Bool.false_eq_true, if_false] at hcf
        subst hcf
        exact ⟨none, hR.sumNone rfl, fun h => (by cases h), fun _ => rfl, rfl, rfl, fun _ _ => rfl, [], by simp, rfl⟩
    | true =>
        obtain ⟨rs, r1, r2, r3, r4⟩ := hR.sumSS rfl
        have hrs : Lr.ctx.heap.length ≤ rs := by
          rcases r3 with r3 | r3
          · omega
          · simp at r3; omega
        simp only [finishRes, hRz, Option.isSome_some, Bool.and_true, if_true, r1, s1] at hcf
        subst hcf
        refine ⟨some rs, r1, fun _ => ⟨rs, rfl, hrs, r2, hR.sumNotIn rs r1, ?_⟩, fun h => (by cases h), rfl, by simp, ?_,
          [.rjoin rs lsb], by simp, rfl⟩
        · rw [rjoin_val, if_pos ⟨rfl, r2⟩, r4, hkeep lsb s2, hvL]
          simp [rng_split lo (mid lo hi) hi (by omega) (by omega)]
        · intro x hx
          rw [rjoin_val, if_neg (by intro h; exact hx (by rw [h.1]))]
  obtain ⟨rsopt, hrsum, hrsS, hrsN, cfe, cfl, cff, evsf, cflog, cffin⟩ := hcf'
  rw [hres, s1, hrsum]
  -- facts about the ids in the two subtrees
  have hLb : ∀ x : Nat, x ∈ bodies Lr.ret → 0 < x ∧ x < Lr.ctx.heap.length ∧ (x = b' ∨ c1.heap.length ≤ x) := hL.fresh
  have hRb : ∀ x : Nat, x ∈ bodies Rr.ret → Lr.ctx.heap.length ≤ x ∧ x < Rr.ctx.heap.length := by
    intro x hx
    obtain ⟨_, f2, f3⟩ := hR.fresh x hx
    refine ⟨?_, f2⟩
    rcases f3 with f3 | f3
    · omega
    · simp at f3; omega
  have hcfL : ∀ x : Nat, x < Lr.ctx.heap.length → cf.val x = Lr.ctx.val x := by
    intro x hx
    rw [cff x ?_, hkeep x hx]
    intro h
    cases hss : hasSS with
    | false => rw [hrsN hss] at h; cases h
    | true =>
        obtain ⟨rs, q1, q2, _⟩ := hrsS hss
        rw [q1] at h
        have := Option.some.inj h
        omega
  have hcfR : ∀ x : Nat, x ∈ bodies Rr.ret → cf.val x = Rr.ctx.val x := by
    intro x hx
    apply cff
    intro h
    cases hss : hasSS with
    | false => rw [hrsN hss] at h; cases h
    | true =>
        obtain ⟨rs, q1, _, _, q4, _⟩ := hrsS hss
        rw [q1] at h
        have := Option.some.inj h
        subst this
        exact q4 hx
  refine ⟨by rw [cfe, hR.err]; simp [hL.err], by rw [cfl]; omega, ?_, ?_, ?_, ?_, ?_, ?_, ?_, ?_, ?_, ?_⟩
  · -- frame
    intro x hx hne
    rw [hcfL x (by omega), hL.frame x hx hne]
  · -- sum slot
    intro hss
    obtain ⟨rs, q1, q2, q3, q4, q5⟩ := hrsS hss
    exact ⟨rs, by simp [hss, q1], by rw [cfl]; exact q3, Or.inr (by omega), by simpa using q5⟩
  · intro hss; simp [hss]
  · -- the kept node's sum body is not the left body
    intro h
    exfalso
    cases hss : hasSS with
    | false => simp [hss] at h
    | true =>
        obtain ⟨rs, q1, q2, _⟩ := hrsS hss
        simp [hss, q1] at h
        omega
  · intro _ h; cases h
  · -- final-scan events of pass 1
    obtain ⟨e1, l1, l2, l3⟩ := hL.fins
    obtain ⟨e2, r1, _, r3⟩ := hR.fins
    refine ⟨e1 ++ ([.split Lr.ctx.heap.length b'] ++ (e2 ++ evsf)), ?_, ?_, ?_⟩
    · simp only; rw [cflog, r1, alloc_log, l1]; simp
    · intro hf
      have a1 := l2 hf
      simp only [finals_append, r3 rfl, cffin, finals_single_split, List.append_nil]
      cases hn : (Lr.ret == STree.nil) with
      | true =>
          have : Lr.ret = .nil := by simpa using hn
          rw [this] at a1
          simpa [done1, hf, this] using a1
      | false => simpa [done1, hf, hn] using a1
    · intro hf
      simp only [finals_append, r3 rfl, cffin, finals_single_split, l3 hf]; rfl
  · -- Good
    simp only [Good]
    refine ⟨trivial, trivial, hdiv, ⟨lsb, rfl, by rw [hcfL lsb s2, hvL], ?_⟩, hfinL, ?_, ?_, ?_, ?_⟩
    · intro hf hl
      have hne : Lr.ret ≠ .nil := by
        intro e; simp [hf, e] at hl
      intro e
      exact hne (hL.seq (by rw [s1, e]))
    · intro hf; simp [hf]
    · intro hf hl e; simp [hf, e] at hl
    · intro _
      exact Good_frame g Lr.ctx cf L b' Lr.ret fin' lo (mid lo hi) (fun x hx => hcfL x (hLb x hx).2.1) hL.good
    · exact Good_frame g Rr.ctx cf L b' Rr.ret false (mid lo hi) hi hcfR (Good_bA g Rr.ctx L _ b' Rr.ret _ _ hR.good)
  · -- ids
    intro x hx
    rcases mem_bodies_node.mp hx with h | h | h
    · have := Option.some.inj h
      subst this
      refine ⟨?_, by rw [cfl]; omega, s3⟩
      rcases s3 with s3 | s3 <;> omega
    · obtain ⟨f1, f2, f3⟩ := hLb x h
      exact ⟨f1, by rw [cfl]; omega, f3⟩
    · obtain ⟨f1, f2⟩ := hRb x h
      exact ⟨by omega, by rw [cfl]; exact f2, Or.inr (by omega)⟩
  · -- no duplicates
    simp only [bodies, List.singleton_append, List.nodup_cons, List.mem_append, not_or, List.nodup_append]
    refine ⟨⟨hL.sumNotIn lsb s1, fun h => by have := (hRb lsb h).1; omega⟩, hL.nodup, hR.nodup, ?_⟩
    intro x hx y hy e
    subst e
    have := (hLb x hx).2.1
    have := (hRb x hy).1
    omega
  · -- the sum body is none of the kept ones
    intro sb hsb
    cases hss : hasSS with
    | false => simp [hss] at hsb
    | true =>
        obtain ⟨rs, q1, q2, q3, q4, _⟩ := hrsS hss
        simp only [hss, if_true, q1] at hsb
        have := Option.some.inj hsb
        subst this
        intro hmem
        rcases mem_bodies_node.mp hmem with h | h | h
        · have := Option.some.inj h; omega
        · have := (hLb rs h).2.1; omega
        · exact q4 h

/-- RE-ENTRANT BODY: the right child ran FIRST (popped by its owner inside a leaf body of the left part, before
that body changed anything), treated as stolen because `m_left_sum` was still null: it worked on a fresh
zombie body, the left part then ran in the context it left behind; the sum_node is kept. -/
theorem finish_early (g L lo hi b' : Nat) (fin' hasSS : Bool) (c1 : Ctx) (Lr Rr : R1) (z : Option Nat)
    (hm : lo < mid lo hi ∧ mid lo hi < hi) (hdiv : g < hi - lo) (hb : b' < c1.heap.length) (hb0 : 0 < b')
    (hfinL : fin' = true → lo = L)
    (hR : P1 g L (mid lo hi) hi c1.heap.length [] false hasSS (c1.alloc b').1 Rr)
    (hRz : Rr.zombie = some c1.heap.length)
    (hL : P1 g L lo (mid lo hi) b' [] fin' true Rr.ctx Lr) :
    P1 g L lo hi b' [] fin' hasSS c1 (finishRes lo hi fin' hasSS Lr ⟨Lr.ctx, Rr.ret, Rr.sum, Rr.zombie⟩ z) := by
  obtain ⟨lsb, s1, s2, s3, s4⟩ := hL.sumSS rfl
  have hvL : Lr.ctx.val lsb = rng lo (mid lo hi) := by simpa using s4
  have hlenR : c1.heap.length + 1 ≤ Rr.ctx.heap.length := by simpa using hR.mono
  have hlenL : Rr.ctx.heap.length ≤ Lr.ctx.heap.length := hL.mono
  -- the right child's bodies (and all old bodies but b') survive the left part's run
  have hkeep : ∀ x : Nat, x < Rr.ctx.heap.length → x ≠ b' → Lr.ctx.val x = Rr.ctx.val x :=
    fun x hx hne => hL.frame x hx hne
  generalize hcf : (finishRes lo hi fin' hasSS Lr ⟨Lr.ctx, Rr.ret, Rr.sum, Rr.zombie⟩ z).ctx = cf
  have hres : finishRes lo hi fin' hasSS Lr ⟨Lr.ctx, Rr.ret, Rr.sum, Rr.zombie⟩ z =
      ⟨cf, .node lo hi Lr.sum (fin' && (Lr.ret == .nil)) Lr.ret Rr.ret, if hasSS then Rr.sum else none, z⟩ := by
    subst hcf; simp [finishRes, hRz]
  have hcf' : ∃ rsopt : Option Nat, Rr.sum = rsopt ∧ (hasSS = true → ∃ rs : Nat, rsopt = some rs ∧ c1.heap.length ≤ rs ∧
        rs < Rr.ctx.heap.length ∧ rs ∉ bodies Rr.ret ∧ cf.val rs = rng lo hi) ∧ (hasSS = false → rsopt = none) ∧
      cf.err = Lr.ctx.err ∧ cf.heap.length = Lr.ctx.heap.length ∧
      (∀ x : Nat, some x ≠ rsopt → cf.val x = Lr.ctx.val x) ∧
      (∃ evs, cf.log = Lr.ctx.log ++ evs ∧ finals evs = []) := by
    cases hasSS with
    | false =>
        simp only [finishRes, Bool.and_false, Bool.false_eq_true, if_false] at hcf
        subst hcf
        exact ⟨none, hR.sumNone rfl, fun h => (by cases h), fun _ => rfl, rfl, rfl, fun _ _ => rfl, [], by simp, rfl⟩
    | true =>
        obtain ⟨rs, r1, r2, r3, r4⟩ := hR.sumSS rfl
        have hrs : c1.heap.length ≤ rs := by
          rcases r3 with r3 | r3
          · omega
          · simp at r3; omega
        simp only [finishRes, hRz, Option.isSome_some, Bool.and_true, if_true, r1, s1] at hcf
        subst hcf
        refine ⟨some rs, r1, fun _ => ⟨rs, rfl, hrs, r2, hR.sumNotIn rs r1, ?_⟩, fun h => (by cases h), rfl, by simp, ?_,
          [.rjoin rs lsb], by simp, rfl⟩
        · rw [rjoin_val, if_pos ⟨rfl, by omega⟩, hvL, hkeep rs r2 (by omega), r4]
          simp [rng_split lo (mid lo hi) hi (by omega) (by omega)]
        · intro x hx
          rw [rjoin_val, if_neg (by intro h; exact hx (by rw [h.1]))]
  obtain ⟨rsopt, hrsum, hrsS, hrsN, cfe, cfl, cff, evsf, cflog, cffin⟩ := hcf'
  rw [hres, s1, hrsum]
  -- ids: the left part's kept bodies are b' or newer than everything of the right child
  have hLb : ∀ x : Nat, x ∈ bodies Lr.ret → 0 < x ∧ x < Lr.ctx.heap.length ∧ (x = b' ∨ Rr.ctx.heap.length ≤ x) := hL.fresh
  have hRb : ∀ x : Nat, x ∈ bodies Rr.ret → c1.heap.length ≤ x ∧ x < Rr.ctx.heap.length := by
    intro x hx
    obtain ⟨_, f2, f3⟩ := hR.fresh x hx
    refine ⟨?_, f2⟩
    rcases f3 with f3 | f3
    · omega
    · simp at f3; omega
  have hne_rs : ∀ x : Nat, (x = b' ∨ Rr.ctx.heap.length ≤ x ∨ x < c1.heap.length) → some x ≠ rsopt := by
    intro x hx h
    cases hss : hasSS with
    | false => rw [hrsN hss] at h; cases h
    | true =>
        obtain ⟨rs, q1, q2, q3, _⟩ := hrsS hss
        rw [q1] at h
        have := Option.some.inj h
        omega
  have hcfR : ∀ x : Nat, x ∈ bodies Rr.ret → cf.val x = Rr.ctx.val x := by
    intro x hx
    have hx' := hRb x hx
    rw [cff x ?_, hkeep x hx'.2 (by omega)]
    intro h
    cases hss : hasSS with
    | false => rw [hrsN hss] at h; cases h
    | true =>
        obtain ⟨rs, q1, _, _, q4, _⟩ := hrsS hss
        rw [q1] at h
        have := Option.some.inj h
        subst this
        exact q4 hx
  refine ⟨by rw [cfe, hL.err, hR.err]; simp, by rw [cfl]; omega, ?_, ?_, ?_, ?_, ?_, ?_, ?_, ?_, ?_, ?_⟩
  · -- frame
    intro x hx hne
    rw [cff x (hne_rs x (Or.inr (Or.inr hx))), hkeep x (by omega) hne, hR.frame x (by simp; omega) (by omega),
      alloc_val, if_neg (by omega)]
  · -- sum slot
    intro hss
    obtain ⟨rs, q1, q2, q3, q4, q5⟩ := hrsS hss
    exact ⟨rs, by simp [hss, q1], by rw [cfl]; omega, Or.inr (by omega), by simpa using q5⟩
  · intro hss; simp [hss]
  · -- the kept node's sum body is not the left body
    intro h
    exfalso
    cases hss : hasSS with
    | false => simp [hss] at h
    | true =>
        obtain ⟨rs, q1, q2, _⟩ := hrsS hss
        simp [hss, q1] at h
        omega
  · intro _ h; cases h
  · -- final-scan events of pass 1: only the left part can have any
    obtain ⟨e1, l1, l2, l3⟩ := hL.fins
    obtain ⟨e2, r1, _, r3⟩ := hR.fins
    refine ⟨[.split c1.heap.length b'] ++ (e2 ++ (e1 ++ evsf)), ?_, ?_, ?_⟩
    · simp only; rw [cflog, l1, r1, alloc_log]; simp
    · intro hf
      have a1 := l2 hf
      simp only [finals_append, r3 rfl, cffin, finals_single_split, List.append_nil, List.nil_append]
      cases hn : (Lr.ret == STree.nil) with
      | true =>
          have : Lr.ret = .nil := by simpa using hn
          rw [this] at a1
          simpa [done1, hf, this] using a1
      | false => simpa [done1, hf, hn] using a1
    · intro hf
      simp only [finals_append, r3 rfl, cffin, finals_single_split, l3 hf]; rfl
  · -- Good
    simp only [Good]
    refine ⟨trivial, trivial, hdiv, ⟨lsb, rfl, by rw [cff lsb (hne_rs lsb (by omega)), hvL], ?_⟩, hfinL, ?_, ?_, ?_, ?_⟩
    · intro hf hl
      have hne : Lr.ret ≠ .nil := by
        intro e; simp [hf, e] at hl
      intro e
      exact hne (hL.seq (by rw [s1, e]))
    · intro hf; simp [hf]
    · intro hf hl e; simp [hf, e] at hl
    · intro _
      exact Good_frame g Lr.ctx cf L b' Lr.ret fin' lo (mid lo hi)
        (fun x hx => cff x (hne_rs x (by have := (hLb x hx).2.2; omega))) hL.good
    · exact Good_frame g Rr.ctx cf L b' Rr.ret false (mid lo hi) hi hcfR (Good_bA g Rr.ctx L _ b' Rr.ret _ _ hR.good)
  · -- ids
    intro x hx
    rcases mem_bodies_node.mp hx with h | h | h
    · have := Option.some.inj h
      subst this
      exact ⟨by omega, by rw [cfl]; omega, by omega⟩
    · obtain ⟨f1, f2, f3⟩ := hLb x h
      exact ⟨f1, by rw [cfl]; exact f2, by omega⟩
    · obtain ⟨f1, f2⟩ := hRb x h
      exact ⟨by omega, by rw [cfl]; omega, Or.inr f1⟩
  · -- no duplicates
    simp only [bodies, List.singleton_append, List.nodup_cons, List.mem_append, not_or, List.nodup_append]
    refine ⟨⟨hL.sumNotIn lsb s1, fun h => by have := hRb lsb h; omega⟩, hL.nodup, hR.nodup, ?_⟩
    intro x hx y hy e
    subst e
    have := (hLb x hx).2.2
    have := hRb x hy
    omega
  · -- the sum body is none of the kept ones
    intro sb hsb
    cases hss : hasSS with
    | false => simp [hss] at hsb
    | true =>
        obtain ⟨rs, q1, q2, q3, q4, _⟩ := hrsS hss
        simp only [hss, if_true, q1] at hsb
        have := Option.some.inj hsb
        subst this
        intro hmem
        rcases mem_bodies_node.mp hmem with h | h | h
        · have := Option.some.inj h; omega
        · have := (hLb rs h).2.2; omega
        · exact q4 h

theorem kids_zombie (g : Nat) (o : Oracle) (fuel lo hi b' : Nat) (fin' hasSS : Bool) (c1 : Ctx) (z : Option Nat) :
    (kids g o fuel lo hi b' fin' hasSS c1 z).zombie = z := by
  unfold kids; split <;> rfl

theorem tas_false_right {o : Oracle} {lo hi b : Nat} {pls : Option Nat} (h : tas o lo hi b true pls = false) :
    pls = some b := by
  simp [tas] at h
  exact h.2.symm

theorem tas_not_right (o : Oracle) (lo hi b : Nat) (pls : Option Nat) : tas o lo hi b false pls = false := rfl

/-- **Pass 1**, for every oracle. -/
theorem scanTask_spec (g : Nat) (hg : 1 ≤ g) (o : Oracle) (L : Nat) :
    ∀ (fuel lo hi body : Nat) (isFinal hasSS isRight : Bool) (pls : Option Nat) (c : Ctx),
      lo < hi → hi - lo ≤ fuel → L ≤ lo → body < c.heap.length → 0 < body →
      (isFinal = true → tas o lo hi body isRight pls = false → c.val body = rng L lo) →
      (isRight = false → c.val body = [] ∧ (isFinal = true → lo = L)) →
      (tas o lo hi body isRight pls = true →
        P1 g L lo hi c.heap.length [] false hasSS (c.alloc body).1 (scanTask g o fuel lo hi body isFinal hasSS isRight pls c) ∧
        (scanTask g o fuel lo hi body isFinal hasSS isRight pls c).zombie = some c.heap.length) ∧
      (tas o lo hi body isRight pls = false →
        P1 g L lo hi body (c.val body) isFinal hasSS c (scanTask g o fuel lo hi body isFinal hasSS isRight pls c) ∧
        (scanTask g o fuel lo hi body isFinal hasSS isRight pls c).zombie = none ∧
        (isRight = true → (scanTask g o fuel lo hi body isFinal hasSS isRight pls c).ret = .nil)) := by
  intro fuel
  induction fuel with
  | zero => intro lo hi body isFinal hasSS isRight pls c h1 h2; omega
  | succ fuel ih =>
      intro lo hi body isFinal hasSS isRight pls c hlt hfuel hL hb hb0 hfin hnr
      rw [scanTask_succ]
      -- the two children, given the effective body / finality / context
      have children : ∀ (b' : Nat) (fin' : Bool) (c1 : Ctx) (z : Option Nat), g < hi - lo → b' < c1.heap.length → 0 < b' →
          c1.val b' = [] → (fin' = true → lo = L) →
          P1 g L lo hi b' [] fin' hasSS c1 (kids g o fuel lo hi b' fin' hasSS c1 z) := by
        intro b' fin' c1 z hdiv hb' hb'0 hv hfl
        have hm := mid_bounds hg hdiv
        have hmid : mid lo hi - lo ≤ fuel ∧ hi - mid lo hi ≤ fuel := by omega
        unfold kids
        split
        · -- re-entrant body: the right child runs first and reads a null `m_left_sum`
          have htR : tas o (mid lo hi) hi b' true none = true := by simp [tas]
          have hRs := (ih (mid lo hi) hi b' fin' hasSS true none c1 hm.2 hmid.2 (by omega) hb' hb'0
            (fun _ ht => by rw [htR] at ht; cases ht) (fun h => by cases h)).1 htR
          generalize scanTask g o fuel (mid lo hi) hi b' fin' hasSS true none c1 = Rr at hRs ⊢
          obtain ⟨hRP, hRz⟩ := hRs
          have hvR : Rr.ctx.val b' = [] := by
            rw [hRP.frame b' (by simp; omega) (by omega), alloc_val, if_neg (by omega), hv]
          have hb'R : b' < Rr.ctx.heap.length := by
            have := hRP.mono
            simp at this; omega
          have hLs := (ih lo (mid lo hi) b' fin' true false none Rr.ctx hm.1 hmid.1 hL hb'R hb'0
            (fun hf _ => by rw [hvR, hfl hf]; simp [rng]) (fun _ => ⟨hvR, hfl⟩)).2 (tas_not_right o _ _ _ _)
          generalize scanTask g o fuel lo (mid lo hi) b' fin' true false none Rr.ctx = Lr at hLs ⊢
          obtain ⟨hLP, _, _⟩ := hLs
          rw [hvR] at hLP
          exact finish_early g L lo hi b' fin' hasSS c1 Lr Rr z hm hdiv hb' hb'0 hfl hRP hRz hLP
        · have hLs := (ih lo (mid lo hi) b' fin' true false none c1 hm.1 hmid.1 hL hb' hb'0
            (fun hf _ => by rw [hv, hfl hf]; simp [rng]) (fun _ => ⟨hv, hfl⟩)).2 (tas_not_right o _ _ _ _)
          generalize scanTask g o fuel lo (mid lo hi) b' fin' true false none c1 = Lr at hLs ⊢
          obtain ⟨hLP, _, _⟩ := hLs
          rw [hv] at hLP
          have hb'L : b' < Lr.ctx.heap.length := Nat.lt_of_lt_of_le hb' hLP.mono
          have hRs := ih (mid lo hi) hi b' fin' hasSS true Lr.sum Lr.ctx hm.2 hmid.2 (by omega) hb'L hb'0
            (fun hf ht => by
              have hs := tas_false_right ht
              obtain ⟨sb, s1, _, _, s4⟩ := hLP.sumSS rfl
              rw [hs] at s1
              have := Option.some.inj s1
              subst this
              rw [s4, hfl hf]; simp)
            (fun h => by cases h)
          generalize scanTask g o fuel (mid lo hi) hi b' fin' hasSS true Lr.sum Lr.ctx = Rr at hRs ⊢
          cases htR : tas o (mid lo hi) hi b' true Lr.sum with
          | false =>
              obtain ⟨hRP, hRz, hRn⟩ := hRs.2 htR
              exact finish_seq g L lo hi b' fin' hasSS c1 Lr Rr z hm hLP (tas_false_right htR) hRP (hRn rfl) hRz
          | true =>
              obtain ⟨hRP, hRz⟩ := hRs.1 htR
              exact finish_stolen g L lo hi b' fin' hasSS c1 Lr Rr z hm hdiv hb' hb'0 hfl hLP hRP hRz
      refine ⟨?_, ?_⟩
      · intro ht
        rw [if_pos ht]
        have hvz : (c.alloc body).1.val c.heap.length = [] := by rw [alloc_val, if_pos rfl]
        split
        · have := leaf_P1 g L lo hi c.heap.length false hasSS (c.alloc body).1 (some c.heap.length) hlt (by simp)
            (fun h => by cases h)
          rw [hvz] at this
          exact ⟨this, rfl⟩
        · rename_i hleaf
          have hdiv : g < hi - lo := by
            simp at hleaf
            have := hleaf.1
            omega
          exact ⟨children c.heap.length false (c.alloc body).1 (some c.heap.length) hdiv (by simp) (by omega) hvz
            (fun h => by cases h), kids_zombie ..⟩
      · intro ht
        rw [if_neg (by rw [ht]; simp)]
        split
        · exact ⟨leaf_P1 g L lo hi body isFinal hasSS c none hlt hb (fun hf => hfin hf ht), rfl, fun _ => rfl⟩
        · rename_i hleaf
          have hnr' : isRight = false := by
            cases isRight with
            | false => rfl
            | true => simp at hleaf
          have hdiv : g < hi - lo := by
            simp [hnr'] at hleaf
            have := hleaf.1
            omega
          obtain ⟨hv, hfl⟩ := hnr hnr'
          have := children body isFinal c none hdiv hb hb0 hv hfl
          rw [hv]
          exact ⟨this, kids_zombie .., fun h => by rw [hnr'] at h; cases h⟩

/-- **parallel_scan, every oracle.** -/
theorem scan_spec (g : Nat) (hg : 1 ≤ g) (o : Oracle) (lo hi : Nat) (hle : lo ≤ hi) : ScanOK lo hi (scan g o lo hi) := by
  unfold scan
  by_cases hlt : lo < hi
  · simp only [hlt, if_true, alloc_snd, List.length_cons, List.length_nil, Nat.zero_add]
    generalize hc : (({ heap := [[]] } : Ctx).alloc 0).1.rjoin 1 0 = c
    have hclen : c.heap.length = 2 := by subst hc; simp
    have hcv1 : c.val 1 = [] := by
      subst hc
      simp [Ctx.rjoin, Ctx.alloc, Ctx.setVal, Ctx.val]
    have hcerr : c.err = false := by subst hc; rfl
    have hclog : finals c.log = [] := by subst hc; simp [finals]
    have hsp := (scanTask_spec g hg o lo (hi - lo) lo hi 1 true false false none c hlt (Nat.le_refl _) (Nat.le_refl _)
      (by omega) (by omega) (fun _ _ => by rw [hcv1]; simp [rng]) (fun _ => ⟨hcv1, fun _ => rfl⟩)).2 (tas_not_right o _ _ _ _)
    generalize scanTask g o (hi - lo) lo hi 1 true false false none c = r at hsp ⊢
    obtain ⟨hP, _, _⟩ := hsp
    rw [hcv1] at hP
    obtain ⟨evs1, l1, l2, _⟩ := hP.fins
    have hrlen : 2 ≤ r.ctx.heap.length := by have := hP.mono; omega
    cases hnil : r.ret.isNil with
    | true =>
        have hret : r.ret = .nil := by cases hr : r.ret <;> simp_all [STree.isNil]
        simp only [if_true]
        refine ⟨by simp [hP.err, hcerr], ?_, finals evs1, ?_, ?_⟩
        · rw [assign_val, if_pos ⟨rfl, by omega⟩, hP.seqVal rfl hret]; simp
        · rw [assign_log, l1]; simp [finals_append, hclog]
        · have := l2 rfl
          rw [hret] at this
          simpa [done1] using this
    | false =>
        have hret : r.ret ≠ .nil := by intro e; rw [e] at hnil; simp [STree.isNil] at hnil
        simp only [Bool.false_eq_true, if_false]
        have h2 := exec2_spec g lo 1 hg r.ret true lo hi 1 none true r.ctx hret hP.good (Nat.le_refl _) hP.nodup
          (fun x hx => ⟨(hP.fresh x hx).1, (hP.fresh x hx).2.1⟩) (by omega) (fun _ => ⟨rfl, rfl⟩) (fun h => by cases h)
        simp only [if_true] at h2
        obtain ⟨p1, p2, ⟨evs2, p3, fs2, p4, p5⟩, p6, _⟩ := h2
        refine ⟨by rw [p1, hP.err, hcerr], by simpa using p6, finals evs1 ++ fs2, ?_, ?_⟩
        · rw [p3, l1]
          simp only [finals_append, hclog, List.nil_append]
          exact (List.Perm.refl _).append p4
        · exact chain_append lo _ _ _ _ _ (l2 rfl) p5
  · have : lo = hi := by omega
    subst this
    simp only [Nat.lt_irrefl, if_false]
    exact ⟨rfl, by simp [Ctx.val, rng], [], by simp [finals], by simp [chain]⟩

end TbbVerif.C06.Scan
