/-
C06 — the quicksort task tree sorts (given a correct leaf sort); the pretest covers every adjacent pair.
-/
import TbbVerif.Proofs.C06.QSort

namespace TbbVerif.C06.QS

theorem el_toList {a : Array Nat} {k : Nat} (h : k < a.toList.length) : a.toList[k] = el a k := by
  have h' : k < a.size := by simpa using h
  rw [el_eq_getElem h']; simp

theorem extract_left (a : Array Nat) (j : Nat) : (a.extract 0 j).toList = a.toList.take j := by
  rw [Array.toList_extract, List.extract_eq_take_drop]; simp

theorem extract_right (a : Array Nat) (j : Nat) : (a.extract (j + 1) a.size).toList = a.toList.drop (j + 1) := by
  rw [Array.toList_extract, List.extract_eq_take_drop]
  apply List.take_of_length_le
  simp

theorem decomp (a : Array Nat) (j : Nat) (h : j < a.size) :
    a.toList = (a.extract 0 j).toList ++ ([el a j] ++ (a.extract (j + 1) a.size).toList) := by
  rw [extract_left, extract_right]
  have h' : j < a.toList.length := by simpa using h
  have := List.take_append_drop j a.toList
  rw [List.drop_eq_getElem_cons h', el_toList h'] at this
  simpa using this.symm

theorem mem_left {a : Array Nat} {j x : Nat} (h : x ∈ (a.extract 0 j).toList) : ∃ k, k < j ∧ k < a.size ∧ el a k = x := by
  rw [extract_left, List.mem_take_iff_getElem] at h
  obtain ⟨k, hk, e⟩ := h
  have hk' : k < a.toList.length := by omega
  refine ⟨k, by omega, by simpa using hk', ?_⟩
  rw [← el_toList hk']; exact e

theorem mem_right {a : Array Nat} {j x : Nat} (h : x ∈ (a.extract (j + 1) a.size).toList) :
    ∃ k, j < k ∧ k < a.size ∧ el a k = x := by
  rw [extract_right, List.mem_drop_iff_getElem] at h
  obtain ⟨k, hk, e⟩ := h
  have hk' : j + 1 + k < a.toList.length := by omega
  refine ⟨j + 1 + k, by omega, by simpa using hk', ?_⟩
  rw [← el_toList hk']; exact e

/-- **The quicksort tree sorts.** For every split oracle: never leaves the array, the result is a sorted
permutation — given that the leaf sort (std::sort) returns a sorted permutation. -/
theorem psort_spec (lt : Cmp) (hs : SWO lt) (leafSort : Array Nat → Array Nat)
    (hleaf : ∀ a, (leafSort a).Perm a ∧ Sorted lt (leafSort a).toList) :
    ∀ (d : Dec) (a : Array Nat), ∃ r, psort lt leafSort d a = some r ∧ r.Perm a ∧ Sorted lt r.toList := by
  intro d
  induction d with
  | leaf => intro a; exact ⟨_, rfl, (hleaf a).1, (hleaf a).2⟩
  | split dl dr ihl ihr =>
      intro a
      simp only [psort]
      split
      · rename_i hdiv
        have hn : 0 < a.size := by
          simp [isDivisible, Generated.C06.sortGrainsize] at hdiv; omega
        obtain ⟨a', j, e1, e2, e3, e4, e5, e6⟩ := splitRange_spec lt hs.toAsym a hn
        rw [e1]
        simp only
        obtain ⟨l, l1, l2, l3⟩ := ihl (a'.extract 0 j)
        obtain ⟨r, r1, r2, r3⟩ := ihr (a'.extract (j + 1) a'.size)
        rw [l1, r1]
        simp only
        have hj' : j < a'.size := by omega
        refine ⟨_, rfl, ?_, ?_⟩
        · refine Array.Perm.trans ?_ e2
          rw [Array.perm_iff_toList_perm, decomp a' j hj']
          simp only [Array.toList_append, List.append_assoc]
          exact (Array.perm_iff_toList_perm.mp l2).append
            ((List.Perm.refl _).append (Array.perm_iff_toList_perm.mp r2))
        · simp only [Sorted, Array.toList_append, List.append_assoc]
          rw [List.pairwise_append]
          refine ⟨l3, ?_, ?_⟩
          · simp only [List.singleton_append]
            rw [List.pairwise_cons]
            refine ⟨?_, r3⟩
            intro y hy
            have hy' := ((Array.perm_iff_toList_perm.mp r2).mem_iff).mp hy
            obtain ⟨k, k1, k2, k3⟩ := mem_right hy'
            rw [← k3]; exact e6 k k1 (by omega)
          · intro x hx y hy
            have hx' := ((Array.perm_iff_toList_perm.mp l2).mem_iff).mp hx
            obtain ⟨k, k1, k2, k3⟩ := mem_left hx'
            have hxp : lt (el a' j) x = false := by rw [← k3]; exact e5 k k1
            simp only [List.singleton_append, List.mem_cons] at hy
            rcases hy with hy | hy
            · rw [hy]; exact hxp
            · have hy' := ((Array.perm_iff_toList_perm.mp r2).mem_iff).mp hy
              obtain ⟨k', k1', k2', k3'⟩ := mem_right hy'
              have hyp : lt y (el a' j) = false := by rw [← k3']; exact e6 k' k1' (by omega)
              exact hs.negtrans y (el a' j) x hyp hxp
      · exact ⟨_, rfl, (hleaf a).1, (hleaf a).2⟩

/-! ### insertion sort is a correct leaf sort (so the hypothesis of `psort_spec` is satisfiable) -/

theorem insertSorted_perm (lt : Cmp) (x : Nat) : ∀ l, (insertSorted lt x l).Perm (x :: l) := by
  intro l
  induction l with
  | nil => exact List.Perm.refl _
  | cons y ys ih =>
      simp only [insertSorted]
      split
      · exact List.Perm.refl _
      · exact (List.Perm.cons y ih).trans (List.Perm.swap x y ys)

theorem insertSorted_sorted (lt : Cmp) (hs : SWO lt) (x : Nat) : ∀ l, Sorted lt l → Sorted lt (insertSorted lt x l) := by
  intro l
  induction l with
  | nil => intro _; simp [insertSorted, Sorted]
  | cons y ys ih =>
      intro h
      simp only [Sorted, List.pairwise_cons] at h
      simp only [insertSorted]
      split
      · rename_i hxy
        simp only [Sorted, List.pairwise_cons]
        refine ⟨?_, h⟩
        intro z hz
        simp only [List.mem_cons] at hz
        rcases hz with hz | hz
        · rw [hz]; exact hs.asymm hxy
        · exact hs.negtrans z y x (h.1 z hz) (hs.asymm hxy)
      · rename_i hxy
        simp only [Sorted, List.pairwise_cons]
        refine ⟨?_, ih h.2⟩
        intro z hz
        have := ((insertSorted_perm lt x ys).mem_iff).mp hz
        simp only [List.mem_cons] at this
        rcases this with e | e
        · rw [e]; simpa using hxy
        · exact h.1 z e

theorem isort_spec (lt : Cmp) (hs : SWO lt) (a : Array Nat) : (isort lt a).Perm a ∧ Sorted lt (isort lt a).toList := by
  unfold isort
  have : ∀ l : List Nat, (l.foldr (insertSorted lt) []).Perm l ∧ Sorted lt (l.foldr (insertSorted lt) []) := by
    intro l
    induction l with
    | nil => exact ⟨List.Perm.refl _, by simp [Sorted]⟩
    | cons x xs ih =>
        simp only [List.foldr_cons]
        exact ⟨(insertSorted_perm lt x _).trans (List.Perm.cons x ih.1), insertSorted_sorted lt hs x _ ih.2⟩
  refine ⟨?_, by simpa using (this a.toList).2⟩
  rw [Array.perm_iff_toList_perm]
  simpa using (this a.toList).1

/-! ### the pretest -/

theorem tiles_cover : ∀ (rs : List (Nat × Nat)) (lo hi : Nat), tiles lo rs hi → ∀ k, lo ≤ k → k < hi →
    ∃ r, r ∈ rs ∧ r.1 ≤ k ∧ k < r.2 := by
  intro rs
  induction rs with
  | nil => intro lo hi h k h1 h2; simp only [tiles] at h; omega
  | cons r rs ih =>
      intro lo hi h k h1 h2
      obtain ⟨a, b⟩ := r
      simp only [tiles] at h
      obtain ⟨e1, e2, e3⟩ := h
      by_cases hk : k < b
      · exact ⟨(a, b), by simp, by simp; omega, hk⟩
      · obtain ⟨r, r1, r2, r3⟩ := ih b hi e3 k (by omega) h2
        exact ⟨r, by simp [r1], r2, r3⟩

/-- per-chunk invariant: all pairs the chunk has stepped over are in order -/
def ChunkOK (lt : Cmp) (a : Array Nat) (c : Chunk) : Prop :=
  c.lo ≤ c.k ∧ ∀ k, c.lo ≤ k → k < c.k →
    lt (el a (k - 1 + Generated.C06.pretestArg1)) (el a (k - 1 + Generated.C06.pretestArg2)) = false

structure PInv (lt : Cmp) (a : Array Nat) (chunks : List (Nat × Nat)) (s : PSt) : Prop where
  bounds : s.chunks.map (fun c => (c.lo, c.hi)) = chunks
  ok : ∀ c, c ∈ s.chunks → ChunkOK lt a c
  live : s.cancelled = false → ∀ c, c ∈ s.chunks → c.stopped = false

theorem pretestIter_inv (lt : Cmp) (a : Array Nat) (f : Bool) (c : Chunk) (h : ChunkOK lt a c) :
    ((pretestIter lt a f c).2.lo = c.lo ∧ (pretestIter lt a f c).2.hi = c.hi) ∧
    ChunkOK lt a (pretestIter lt a f c).2 ∧
    ((pretestIter lt a f c).1 = false → f = false ∧ ((pretestIter lt a f c).2.stopped = false ↔ c.stopped = false)) := by
  unfold pretestIter
  split
  · exact ⟨⟨rfl, rfl⟩, h, fun e => ⟨e, Iff.rfl⟩⟩
  · split
    · rename_i hc
      refine ⟨⟨rfl, rfl⟩, h, ?_⟩
      intro e; simp only at e; rw [hc.2] at e; cases e
    · split
      · refine ⟨⟨rfl, rfl⟩, h, ?_⟩
        intro e; cases e
      · rename_i h1 h2 h3
        refine ⟨⟨rfl, rfl⟩, ⟨by simp; exact Nat.le_succ_of_le h.1, ?_⟩, fun e => ⟨e, by simp⟩⟩
        intro k hk1 hk2
        simp only at hk2
        by_cases e : k = c.k
        · subst e; simpa using h3
        · exact h.2 k hk1 (by omega)

theorem pinv_init (lt : Cmp) (a : Array Nat) (chunks : List (Nat × Nat)) : PInv lt a chunks (pretestInit chunks) := by
  refine ⟨?_, ?_, ?_⟩
  · simp [pretestInit, Function.comp_def]
  · intro c hc
    simp only [pretestInit, List.mem_map] at hc
    obtain ⟨r, _, e⟩ := hc
    subst e
    exact ⟨Nat.le_refl _, by intro k h1 h2; simp at h1 h2; omega⟩
  · intro _ c hc
    simp only [pretestInit, List.mem_map] at hc
    obtain ⟨r, _, e⟩ := hc
    subst e; rfl

theorem pinv_step (lt : Cmp) (a : Array Nat) (chunks : List (Nat × Nat)) (s : PSt) (t : Nat)
    (h : PInv lt a chunks s) : PInv lt a chunks (pretestStep lt a s t) := by
  unfold pretestStep
  cases hc : s.chunks[t]? with
  | none => exact h
  | some c =>
      simp only
      have hmem : c ∈ s.chunks := List.mem_of_getElem? hc
      have ht : t < s.chunks.length := by
        rcases Nat.lt_or_ge t s.chunks.length with h' | h'
        · exact h'
        · rw [List.getElem?_eq_none h'] at hc; cases hc
      have hget : s.chunks[t] = c := by
        rw [List.getElem?_eq_getElem ht] at hc; exact Option.some.inj hc
      obtain ⟨⟨i1, i2⟩, i3, i4⟩ := pretestIter_inv lt a s.cancelled c (h.ok c hmem)
      generalize pretestIter lt a s.cancelled c = res at i1 i2 i3 i4
      obtain ⟨f', c'⟩ := res
      simp only at i1 i2 i3 i4 ⊢
      refine ⟨?_, ?_, ?_⟩
      · rw [← h.bounds, List.map_set]
        apply List.ext_getElem
        · simp
        · intro n h1 h2
          rw [List.getElem_set]
          split
          · rename_i e; subst e; simp [hget, i1, i2]
          · rfl
      · intro x hx
        rcases List.mem_or_eq_of_mem_set hx with hx | hx
        · exact h.ok x hx
        · rw [hx]; exact i3
      · intro hf x hx
        obtain ⟨g1, g2⟩ := i4 hf
        rcases List.mem_or_eq_of_mem_set hx with hx | hx
        · exact h.live g1 x hx
        · rw [hx]; exact g2.mpr (h.live g1 c hmem)

theorem pinv_run (lt : Cmp) (a : Array Nat) (chunks : List (Nat × Nat)) (sched : List Nat) :
    PInv lt a chunks (pretestRun lt a chunks sched) := by
  unfold pretestRun
  have : ∀ (sched : List Nat) (s : PSt), PInv lt a chunks s → PInv lt a chunks (sched.foldl (pretestStep lt a) s) := by
    intro sched
    induction sched with
    | nil => intro s h; exact h
    | cons t rest ih => intro s h; exact ih _ (pinv_step lt a chunks s t h)
  exact this sched _ (pinv_init lt a chunks)

/-- every adjacent pair in order ⇒ sorted (for a strict weak order) -/
theorem sorted_of_adjacent (lt : Cmp) (hs : SWO lt) : ∀ (l : List Nat),
    (∀ i (h : i + 1 < l.length), lt l[i + 1] l[i] = false) → Sorted lt l := by
  intro l
  induction l with
  | nil => intro _; simp [Sorted]
  | cons x xs ih =>
      intro h
      simp only [Sorted, List.pairwise_cons]
      have hxs : Sorted lt xs := ih (fun i hi => by
        have := h (i + 1) (by simpa using hi)
        simpa [List.getElem_cons_succ] using this)
      refine ⟨?_, hxs⟩
      -- x ≤ first of xs ≤ everything in xs
      cases xs with
      | nil => intro y hy; cases hy
      | cons y ys =>
          intro z hz
          have hxy : lt y x = false := by simpa using h 0 (by simp)
          simp only [List.mem_cons] at hz
          rcases hz with hz | hz
          · rw [hz]; exact hxy
          · simp only [Sorted, List.pairwise_cons] at hxs
            exact hs.negtrans z y x (hxs.1 z hz) hxy

end TbbVerif.C06.QS
