/-
C06 — parallel_scan task protocol (`SP`): structural functions and the pass-1 invariant `I1`.
-/
import TbbVerif.Model.C06Scan
import TbbVerif.Proofs.C06.ScanGen

namespace TbbVerif.C06.SP
open Scan (Ctx Ev mid)

/-! ### generated skeleton = the expected one (everything below is proved FROM these) -/
theorem gen_tas (r s n : Bool) : Generated.C06.scanTreatAsStolen r s n = (r && (s || n)) := by
  cases r <;> cases s <;> cases n <;> rfl
theorem gen_reads (s n : Bool) : (s && Generated.C06.scanGuardReadsLeftSum true s n) = false := by
  cases s <;> cases n <;> rfl
theorem gen_fjoin (z s : Bool) : Generated.C06.scanFinishJoins z s = (z && s) := by cases z <;> cases s <;> rfl
theorem gen_frecv : Generated.C06.scanFinishJoinRecvSlot = true := rfl
theorem gen_keeps (z r : Bool) : Generated.C06.scanKeeps z r = (z || r) := by cases z <;> cases r <;> rfl
theorem gen_reset (l : Bool) : Generated.C06.scanResetsLeftIsFinal l = l := by cases l <;> rfl
theorem gen_njoin : Generated.C06.scanNodeJoinRecvLeftSum = true := rfl
theorem gen_leaf (r t d e : Bool) : Generated.C06.scanLeafCond r t d e = ((r && !t) || !d || e) := by
  cases r <;> cases t <;> cases d <;> cases e <;> rfl
theorem gen_mode (f s : Bool) : Generated.C06.scanLeafMode f s = if f then 2 else if s then 1 else 0 := by
  cases f <;> cases s <;> rfl
theorem gen_slot (s : Bool) : Generated.C06.scanLeafWritesSlot s = s := by cases s <;> rfl
theorem gen_clear : Generated.C06.scanStolenClearsFinal = true := rfl
theorem gen_p2 : Generated.C06.scanPass2Skeleton = true := rfl

/-! ### structural functions -/

/-- body of the rightmost task: what the subtree writes into its sum slot -/
def ex : T → Nat
  | .task _ _ b _ _ _ => b
  | .node _ _ r => ex r

/-- all pass-1 work below is done -/
def fin1 : T → Bool
  | .task _ _ _ _ _ pc => pc == .finished
  | .node nd _ _ => nd.ph != .p1

def rmDone : T → Bool
  | .task _ _ _ _ _ pc => pc == .finished
  | .node _ _ r => rmDone r

def started : T → Bool
  | .task _ _ _ _ _ (.spawned true) => false
  | _ => true

def isTask : T → Bool
  | .task .. => true
  | .node .. => false

/-- a started right child that was not treated as stolen: it can only run its whole range as one leaf -/
def leafOnly : T → Bool
  | .task _ _ _ _ _ (.ready r t) => r && !t
  | .task _ _ _ _ _ .ran => true
  | .task _ _ _ _ _ .finished => true
  | _ => false

/-- the zombies (`m_right_zombie`) allocated below -/
def zs : T → List Nat
  | .task .. => []
  | .node nd l r => (nd.z.toList : List Nat) ++ (zs l ++ zs r)

/-- a subtree that ran to its last leaf on ONE body `b` (no right child was stolen, really or virtually): heap-free -/
def Quiet (g b : Nat) (fin : Bool) : T → Nat → Nat → Prop
  | .task lo' hi' b' fin' _ pc, lo, hi => lo' = lo ∧ hi' = hi ∧ lo < hi ∧ b' = b ∧ fin' = fin ∧ pc = .finished
  | .node nd l r, lo, hi =>
      nd.lo = lo ∧ nd.hi = hi ∧ g < hi - lo ∧ nd.z = none ∧ (nd.ph = .p1 ∨ nd.ph = .dropped) ∧ nd.ll = .none ∧ nd.rl = .none ∧
      isTask r = true ∧ Quiet g b fin l lo (mid lo hi) ∧ Quiet g b fin r (mid lo hi) hi ∧
      nd.ref = b2n (!fin1 l) + b2n (!fin1 r) ∧ (nd.ph = .dropped → fin1 l = true ∧ fin1 r = true)

def taskVal (c : Ctx) (b s lo hi : Nat) (fin ss live : Bool) : Pc → Prop
  | .spawned true => True
  | .spawned false => c.val b = rng s lo ∧ s = lo
  | .ready r t => c.val b = rng s lo ∧ ((r && !t) = false → s = lo)
  | .ran => c.val b = rng s (if fin || ss then hi else lo)
  | .finished => live = true → c.val b = rng s (if fin || ss then hi else lo)

/-- The pass-1 invariant of the subtree `t` that was entered with body `b` (whose value was `[s, lo)` then), covers `[lo,hi)`,
in final mode iff `fin`, with a sum slot iff `ss`, whose slot currently holds `sv`; `live` = the value of the subtree's exit
body has not been consumed (reverse_joined further) by the finish_scan above. -/
def I1 (c : Ctx) (L g : Nat) : T → Nat → Nat → Nat → Nat → Bool → Bool → Bool → Option BodyId → Prop
  | .task lo' hi' b' fin' ss' pc, b, s, lo, hi, fin, ss, live, sv =>
      lo' = lo ∧ hi' = hi ∧ lo < hi ∧ b' = b ∧ fin' = fin ∧ ss' = ss ∧ b < c.heap.length ∧ b ≠ 0 ∧
      (fin = true → s = L ∧ b = 1) ∧ L ≤ s ∧ s ≤ lo ∧
      (ss = true → sv = if pc = .finished then some b else none) ∧ taskVal c b s lo hi fin ss live pc
  | .node nd l r, b, s, lo, hi, fin, ss, live, sv =>
      nd.lo = lo ∧ nd.hi = hi ∧ g < hi - lo ∧ s = lo ∧ nd.ss = ss ∧ b < c.heap.length ∧ b ≠ 0 ∧
      (fin = true → lo = L ∧ b = 1) ∧ L ≤ lo ∧
      nd.ll = .none ∧ nd.rl = .none ∧ (nd.ph = .p1 ∨ nd.ph = .kept ∨ nd.ph = .dropped) ∧
      nd.ls = (if rmDone l then some (ex l) else none) ∧
      nd.ref = b2n (!fin1 l) + b2n (!fin1 r) ∧
      (nd.ph ≠ .p1 → fin1 l = true ∧ fin1 r = true ∧ (nd.ph = .kept ↔ nd.z.isSome = true) ∧ nd.lif = (fin && !isKept l)) ∧
      (nd.ph = .p1 → nd.lif = fin) ∧
      (zs (.node nd l r)).Nodup ∧
      (match nd.z with
       | none =>
           isTask r = true ∧
           (if started r then Quiet g b fin l lo (mid lo hi) ∧ leafOnly r = true ∧ I1 c L g r b lo (mid lo hi) hi fin ss live sv
            else I1 c L g l b lo lo (mid lo hi) fin true true nd.ls ∧ I1 c L g r b lo (mid lo hi) hi fin ss true sv)
       | some z =>
           b < (z : Nat) ∧ (z : Nat) < c.heap.length ∧ started r = true ∧
           I1 c L g l b lo lo (mid lo hi) fin true true nd.ls ∧
           I1 c L g r z (mid lo hi) (mid lo hi) hi false ss (decide (nd.ph = .p1)) sv ∧
           (nd.ph ≠ .p1 → live = true → ss = true → c.val (ex r) = rng lo hi))

/-! ### basic consequences -/

theorem Quiet_zs {g b : Nat} {fin : Bool} : ∀ (t : T) (lo hi : Nat), Quiet g b fin t lo hi → zs t = [] := by
  intro t
  induction t with
  | task => intros; rfl
  | node nd l r ihl ihr =>
      intro lo hi h
      simp only [Quiet] at h
      simp [zs, h.2.2.2.1, ihl _ _ h.2.2.2.2.2.2.2.2.1, ihr _ _ h.2.2.2.2.2.2.2.2.2.1]

theorem Quiet_ex {g b : Nat} {fin : Bool} : ∀ (t : T) (lo hi : Nat), Quiet g b fin t lo hi → ex t = b ∧ rmDone t = true := by
  intro t
  induction t with
  | task lo' hi' b' fin' ss' pc =>
      intro lo hi h
      simp only [Quiet] at h
      simp [ex, rmDone, h.2.2.2.1, h.2.2.2.2.2]
  | node nd l r _ ihr =>
      intro lo hi h
      simp only [Quiet] at h
      simpa [ex, rmDone] using ihr _ _ h.2.2.2.2.2.2.2.2.2.1

theorem Quiet_not_kept {g b : Nat} {fin : Bool} {t : T} {lo hi : Nat} (h : Quiet g b fin t lo hi) : isKept t = false := by
  cases t with
  | task => rfl
  | node nd l r =>
      simp only [Quiet] at h
      rcases h.2.2.2.2.1 with h1 | h1 <;> simp [isKept, h1]

/-- the slot content is determined by the tree -/
theorem I1_sv {c : Ctx} {L g : Nat} : ∀ (t : T) (b s lo hi : Nat) (fin ss live : Bool) (sv : Option BodyId),
    I1 c L g t b s lo hi fin ss live sv → ss = true → sv = if rmDone t then some (ex t) else none := by
  intro t
  induction t with
  | task lo' hi' b' fin' ss' pc =>
      intro b s lo hi fin ss live sv h hs
      simp only [I1] at h
      obtain ⟨_, _, _, hb, _, _, _, _, _, _, _, hsv, _⟩ := h
      rw [hsv hs, hb]
      simp [rmDone, ex]
  | node nd l r _ ihr =>
      intro b s lo hi fin ss live sv h hs
      simp only [I1] at h
      have hz := h.2.2.2.2.2.2.2.2.2.2.2.2.2.2.2.2.2
      simp only [rmDone, ex]
      cases hzz : nd.z with
      | none =>
          rw [hzz] at hz
          simp only at hz
          by_cases hst : started r = true
          · rw [if_pos hst] at hz
            exact ihr _ _ _ _ _ _ _ _ hz.2.2.2 hs
          · rw [if_neg hst] at hz
            exact ihr _ _ _ _ _ _ _ _ hz.2.2 hs
      | some z =>
          rw [hzz] at hz
          simp only at hz
          exact ihr _ _ _ _ _ _ _ _ hz.2.2.2.2.1 hs

theorem I1_ex_mem {c : Ctx} {L g : Nat} : ∀ (t : T) (b s lo hi : Nat) (fin ss live : Bool) (sv : Option BodyId),
    I1 c L g t b s lo hi fin ss live sv → ex t = b ∨ ex t ∈ zs t := by
  intro t
  induction t with
  | task lo' hi' b' fin' ss' pc =>
      intro b s lo hi fin ss live sv h
      simp only [I1] at h
      exact Or.inl h.2.2.2.1
  | node nd l r _ ihr =>
      intro b s lo hi fin ss live sv h
      simp only [I1] at h
      have hz := h.2.2.2.2.2.2.2.2.2.2.2.2.2.2.2.2.2
      simp only [ex, zs]
      cases hzz : nd.z with
      | none =>
          rw [hzz] at hz
          simp only at hz
          by_cases hst : started r = true
          · rw [if_pos hst] at hz
            rcases ihr _ _ _ _ _ _ _ _ hz.2.2.2 with h1 | h1
            · exact Or.inl h1
            · right; simp [h1]
          · rw [if_neg hst] at hz
            rcases ihr _ _ _ _ _ _ _ _ hz.2.2 with h1 | h1
            · exact Or.inl h1
            · right; simp [h1]
      | some z =>
          rw [hzz] at hz
          simp only at hz
          rcases ihr _ _ _ _ _ _ _ _ hz.2.2.2.2.1 with h1 | h1
          · right; simp [h1]
          · right; simp [h1]

theorem taskVal_frame {c c' : Ctx} {b s lo hi : Nat} {fin ss live : Bool} {pc : Pc} (hv : c'.val b = c.val b)
    (h : taskVal c b s lo hi fin ss live pc) : taskVal c' b s lo hi fin ss live pc := by
  cases pc with
  | spawned r => cases r <;> simp_all [taskVal]
  | ready r t => simp_all [taskVal]
  | ran => simp_all [taskVal]
  | finished => simp_all [taskVal]

/-- frame: the invariant of a subtree only reads its entry body and the zombies allocated below it -/
theorem I1_frame {c c' : Ctx} {L g : Nat} (hlen : c.heap.length ≤ c'.heap.length) :
    ∀ (t : T) (b s lo hi : Nat) (fin ss live : Bool) (sv : Option BodyId),
    (∀ x, (x = b ∨ x ∈ zs t) → c'.val x = c.val x) →
    I1 c L g t b s lo hi fin ss live sv → I1 c' L g t b s lo hi fin ss live sv := by
  intro t
  induction t with
  | task lo' hi' b' fin' ss' pc =>
      intro b s lo hi fin ss live sv hfr h
      simp only [I1] at h ⊢
      obtain ⟨h1, h2, h3, h4, h5, h6, h7, h8, h9, h10, h11, h12, h13⟩ := h
      exact ⟨h1, h2, h3, h4, h5, h6, by omega, h8, h9, h10, h11, h12, taskVal_frame (hfr b (Or.inl rfl)) h13⟩
  | node nd l r ihl ihr =>
      intro b s lo hi fin ss live sv hfr h
      have hex := I1_ex_mem _ _ _ _ _ _ _ _ _ h
      simp only [I1] at h ⊢
      obtain ⟨h1, h2, h3, h4, h5, h6, h7, h8, h9, h10, h11, h12, h13, h14, h15, h16, h17, hz⟩ := h
      refine ⟨h1, h2, h3, h4, h5, by omega, h7, h8, h9, h10, h11, h12, h13, h14, h15, h16, h17, ?_⟩
      cases hzz : nd.z with
      | none =>
          rw [hzz] at hz
          simp only at hz ⊢
          refine ⟨hz.1, ?_⟩
          by_cases hst : started r = true
          · rw [if_pos hst] at hz ⊢
            exact ⟨hz.2.1, hz.2.2.1, ihr _ _ _ _ _ _ _ _ (fun x hx => hfr x (by
              rcases hx with hx | hx
              · exact Or.inl hx
              · right; simp [zs, hx])) hz.2.2.2⟩
          · rw [if_neg hst] at hz ⊢
            exact ⟨ihl _ _ _ _ _ _ _ _ (fun x hx => hfr x (by
              rcases hx with hx | hx
              · exact Or.inl hx
              · right; simp [zs, hx])) hz.2.1,
              ihr _ _ _ _ _ _ _ _ (fun x hx => hfr x (by
              rcases hx with hx | hx
              · exact Or.inl hx
              · right; simp [zs, hx])) hz.2.2⟩
      | some z =>
          rw [hzz] at hz
          simp only at hz ⊢
          obtain ⟨z1, z2, z3, z4, z5, z6⟩ := hz
          refine ⟨z1, Nat.lt_of_lt_of_le z2 hlen, z3, ?_, ?_, ?_⟩
          · exact ihl _ _ _ _ _ _ _ _ (fun x hx => hfr x (by
              rcases hx with hx | hx
              · exact Or.inl hx
              · right; simp [zs, hx])) z4
          · exact ihr _ _ _ _ _ _ _ _ (fun x hx => hfr x (by
              rcases hx with hx | hx
              · right; simp [zs, hzz, hx]
              · right; simp [zs, hx])) z5
          · intro a1 a2 a3
            rw [hfr (ex r) (by
              simp only [ex] at hex
              exact hex)]
            exact z6 a1 a2 a3

theorem taskVal_weaken {c : Ctx} {b s lo hi : Nat} {fin ss live : Bool} {pc : Pc}
    (h : taskVal c b s lo hi fin ss live pc) : taskVal c b s lo hi fin ss false pc := by
  cases pc with
  | spawned r => cases r <;> simp_all [taskVal]
  | ready r t => simp_all [taskVal]
  | ran => simp_all [taskVal]
  | finished => simp [taskVal]

/-- consuming the exit value only drops claims -/
theorem I1_weaken {c : Ctx} {L g : Nat} : ∀ (t : T) (b s lo hi : Nat) (fin ss live : Bool) (sv : Option BodyId),
    I1 c L g t b s lo hi fin ss live sv → I1 c L g t b s lo hi fin ss false sv := by
  intro t
  induction t with
  | task lo' hi' b' fin' ss' pc =>
      intro b s lo hi fin ss live sv h
      simp only [I1] at h ⊢
      obtain ⟨h1, h2, h3, h4, h5, h6, h7, h8, h9, h10, h11, h12, h13⟩ := h
      exact ⟨h1, h2, h3, h4, h5, h6, h7, h8, h9, h10, h11, h12, taskVal_weaken h13⟩
  | node nd l r _ ihr =>
      intro b s lo hi fin ss live sv h
      simp only [I1] at h ⊢
      obtain ⟨h1, h2, h3, h4, h5, h6, h7, h8, h9, h10, h11, h12, h13, h14, h15, h16, h17, hz⟩ := h
      refine ⟨h1, h2, h3, h4, h5, h6, h7, h8, h9, h10, h11, h12, h13, h14, h15, h16, h17, ?_⟩
      cases hzz : nd.z with
      | none =>
          rw [hzz] at hz
          simp only at hz ⊢
          refine ⟨hz.1, ?_⟩
          by_cases hst : started r = true
          · rw [if_pos hst] at hz ⊢
            exact ⟨hz.2.1, hz.2.2.1, ihr _ _ _ _ _ _ _ _ hz.2.2.2⟩
          · rw [if_neg hst] at hz ⊢
            exact hz.2
      | some z =>
          rw [hzz] at hz
          simp only at hz ⊢
          obtain ⟨z1, z2, z3, z4, z5, _⟩ := hz
          exact ⟨z1, z2, z3, z4, z5, by intro _ hf; cases hf⟩

theorem I1_zs_lt {c : Ctx} {L g : Nat} : ∀ (t : T) (b s lo hi : Nat) (fin ss live : Bool) (sv : Option BodyId),
    I1 c L g t b s lo hi fin ss live sv → ∀ x, x ∈ zs t → b < x ∧ x < c.heap.length := by
  intro t
  induction t with
  | task => intro b s lo hi fin ss live sv _ x hx; simp [zs] at hx
  | node nd l r ihl ihr =>
      intro b s lo hi fin ss live sv h x hx
      simp only [I1] at h
      have hz := h.2.2.2.2.2.2.2.2.2.2.2.2.2.2.2.2.2
      cases hzz : nd.z with
      | none =>
          rw [hzz] at hz
          simp only at hz
          simp only [zs, hzz, Option.toList_none, List.nil_append, List.mem_append] at hx
          by_cases hst : started r = true
          · rw [if_pos hst] at hz
            rw [Quiet_zs _ _ _ hz.2.1] at hx
            rcases hx with hx | hx
            · cases hx
            · exact ihr _ _ _ _ _ _ _ _ hz.2.2.2 x hx
          · rw [if_neg hst] at hz
            rcases hx with hx | hx
            · exact ihl _ _ _ _ _ _ _ _ hz.2.1 x hx
            · exact ihr _ _ _ _ _ _ _ _ hz.2.2 x hx
      | some z =>
          rw [hzz] at hz
          simp only at hz
          obtain ⟨z1, z2, z3, z4, z5, _⟩ := hz
          simp only [zs, hzz, Option.toList_some, List.mem_append, List.mem_cons, List.not_mem_nil, or_false] at hx
          rcases hx with hx | hx | hx
          · subst hx; exact ⟨z1, z2⟩
          · exact ihl _ _ _ _ _ _ _ _ z4 x hx
          · have h5 := ihr _ _ _ _ _ _ _ _ z5 x hx
            exact ⟨Nat.lt_trans z1 h5.1, h5.2⟩

end TbbVerif.C06.SP
