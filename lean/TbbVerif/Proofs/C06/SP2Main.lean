/-
C06 — parallel_scan task protocol, pass 2: every step preserves `I2`.
-/
import TbbVerif.Proofs.C06.SP2Set

namespace TbbVerif.C06.SP
open Scan (Ctx Ev mid finals finalScan_val preScan_val rjoin_val alloc_val assign_val)

local macro "tt" : term => `(by trivial)

theorem perm_tail {α : Type} (e A B : List α) : (e ++ (A ++ (B ++ []))).Perm (A ++ (B ++ e)) := by
  have : (e ++ (A ++ B)).Perm ((A ++ B) ++ e) := List.perm_append_comm
  simpa [List.append_assoc] using this

theorem perm_mid {α : Type} (e A B : List α) : (e ++ ((A ++ []) ++ B)).Perm ((A ++ e) ++ B) := by
  have : (e ++ A).Perm (A ++ e) := List.perm_append_comm
  simpa [List.append_assoc] using this.append_right B

theorem ready_ne_gone (b lo hi : Nat) (st : Bool) : (L2.ready b lo hi st == L2.gone) = false := by
  rw [beq_eq_false_iff_ne]; intro h; cases h
theorem ran_ne_gone (b : Nat) (st : Bool) : (L2.ran b st == L2.gone) = false := by
  rw [beq_eq_false_iff_ne]; intro h; cases h

theorem I2_gone_user {c : Ctx} {L HI g : Nat} {t : T} {lo hi : Nat} {fm : Bool} {b : Nat} {i : Option Nat} {stuff : Bool}
    (h : I2 c L HI g t lo hi fm (.act b i stuff)) (hg : phGone t = true) (hs : stuff = true) : c.val 0 = rng L HI := by
  cases t with
  | task => simp [I2] at h
  | node nd l r =>
      obtain ⟨nlo, nhi, nref, nz, nss, nls, nlif, nph, nll, nrl⟩ := nd
      have hp : nph = .gone := by simpa [phGone] using hg
      subst hp
      cases nls with
      | none => simp [I2] at h
      | some y =>
          simp only [I2] at h
          obtain ⟨_, _, _, _, _, _, _, _, _, _, _, _, _, _, ⟨k, hk, hk2⟩, _, _, _, _, _, _, _, _, u1⟩ := h
          rcases hk with hk | ⟨_, hk⟩
          · cases hk
          · subst hk
            have := b2n_sum_zero hk2
            exact u1 hs this.1

/-- the steps of a running (prepared) kept sum_node at its own position -/
theorem S2_self {c : Ctx} {L HI g : Nat} (hg : 1 ≤ g) (a : Act) (sv : Option BodyId) {nd : Nd} {l r : T} {lo hi : Nat} {fm : Bool}
    {body : Nat} {inc : Option Nat} {stuff : Bool}
    (h : I2 c L HI g (.node nd l r) lo hi fm (.act body inc stuff)) :
    S2 c L HI g (.node nd l r) lo hi fm (.act body inc stuff) (stepNode c sv a nd l r) := by
  have h0 := h
  obtain ⟨nlo, nhi, nref, nz, nss, nls, nlif, nph, nll, nrl⟩ := nd
  cases nls with
  | none => simp [I2] at h
  | some y =>
  cases nph with
  | prep b' i' s' =>
      have hb : b' = body ∧ i' = inc ∧ s' = stuff := by
        simp only [I2] at h
        obtain ⟨_, _, _, _, _, _, _, _, _, _, _, _, _, _, p1, p2, p3, _⟩ := h
        exact ⟨p1, p2, p3⟩
      obtain ⟨rfl, rfl, rfl⟩ := hb
      cases a with
      | exec2 => exact S2_exec2 hg sv rfl h
      | fexec => simp only [stepNode]; rw [if_neg (by simp)]; exact S2_noop h0
      | lfin s => simp only [stepNode]; exact S2_noop h0
      | lend s => simp only [stepNode]; exact S2_noop h0
      | exec2b => simp only [stepNode]; rw [if_neg (by simp)]; exact S2_noop h0
      | _ => exact S2_noop h0
  | gone =>
      cases a with
      | exec2 => simp only [stepNode]; exact S2_noop h0
      | fexec => simp only [stepNode]; rw [if_neg (by simp)]; exact S2_noop h0
      | lfin s => simp only [stepNode]; exact S2_noop h0
      | lend s => simp only [stepNode]; exact S2_noop h0
      | exec2b => simp only [stepNode]; rw [if_neg (by simp)]; exact S2_noop h0
      | _ => exact S2_noop h0
  | run2 k =>
      have hk : isKept (T.node ⟨nlo, nhi, nref, nz, nss, some y, nlif, .run2 k, nll, nrl⟩ l r) = true := rfl
      simp only [I2] at h
      obtain ⟨h1, h2, h3, h4, h5, h6, h7, h8, h9, d1, d2, n1, n2, y1, k1, c1, c2, c3, c4, c5, c6, rp, lp, u1⟩ := h
      obtain ⟨k0, hk0, k1⟩ := k1
      have hkk : k0 = k := by
        rcases hk0 with hk0 | hk0
        · exact (Ph.run2.inj hk0).symm
        · cases hk0.1
      subst hkk
      subst h1 h2
      obtain ⟨m1, m2⟩ := mid_lt hg h3
      have hyK := lsK_self hk rfl
      have hylen := (n2 y hyK).1
      cases a with
      | exec2 => simp only [stepNode]; exact S2_noop h0
      | fexec => simp only [stepNode]; rw [if_neg (by simp)]; exact S2_noop h0
      | exec2b =>
          simp only [stepNode]
          by_cases hkz : k0 = 0
          · subst hkz
            simp only [if_true]
            refine ⟨?_, rfl, fun _ _ => rfl, ?_, rfl, by simp [phGone], fun hg' => by simp [phGone] at hg', rfl, rfl, rfl,
              ⟨[], by simp, by simp [finCov]⟩⟩
            · simp only [I2]
              exact ⟨tt, tt, h3, h4, h5, h6, h7, h8, h9, d1, d2, by simpa [lsK, isKept] using n1, by simpa [lsK, isKept] using n2, y1,
                ⟨0, Or.inr ⟨tt, tt⟩, by simpa [rightDone, leftDone] using k1⟩, c1, c2, c3, c4, c5, by simpa [lsK, isKept] using c6, rp, lp, u1⟩
            · simp [lsK, isKept]
          · rw [if_neg (by simpa using hkz)]; exact S2_noop h0
      | lfin side =>
          simp only [stepNode]
          cases side with
          | true =>
              simp only [if_true]
              cases hkr : isKept r with
              | true =>
                  rw [if_pos hkr] at rp
                  have : nrl = .none := rp.1
                  subst this
                  simp only [stepLeaf]; exact S2_noop h0
              | false =>
                  rw [if_neg (by simp [hkr])] at rp
                  cases nrl with
                  | ready b1 lo1 hi1 st1 =>
                      simp only [leafOK] at rp
                      obtain ⟨e1, e2, e3, e4, vy⟩ := rp
                      have e1' := e1.symm; have e2' := e2.symm; have e3' := e3.symm; have e4' := e4.symm
                      subst e1' e2' e3' e4'
                      simp only [stepLeaf]
                      have hv' : (c.finalScan y (mid nlo nhi) nhi).val y = rng L nhi := by
                        rw [finalScan_val, if_pos ⟨rfl, hylen⟩, vy, rng_split _ _ _ (Nat.le_trans h4 (Nat.le_of_lt m1)) (Nat.le_of_lt m2)]
                      refine ⟨?_, by simp, ?_, ?_, rfl, by simp [phGone], fun hg' => by simp [phGone] at hg', rfl, rfl, by simp, ?_⟩
                      · refine I2_set_right (k' := k0) (nph := .run2 k0) (nph' := .run2 k0) h0 (Or.inl ⟨_, rfl⟩) (Or.inl rfl) (by simp) ?_ rfl rfl (fun _ => rfl) ?_ ?_ ?_
                        · intro x hx _ _; rw [finalScan_val, if_neg (fun h => hx h.1)]
                        · rw [if_neg (by simp [hkr])]; simp only [leafOK]; exact ⟨tt, tt, hv'⟩
                        · have k1' := k1
                          simp [rightDone, leftDone, hkr, ready_ne_gone, ran_ne_gone] at k1' ⊢
                          exact k1'
                        · intro _ hd; simp [rightDone, hkr] at hd
                      · intro x hx
                        rw [finalScan_val, if_neg]
                        intro he
                        exact hx (by simp only [fp2, List.mem_append]; exact Or.inr (he.1 ▸ hyK))
                      · simp [lsK, isKept]
                      · exact ⟨[.fin y (mid nlo nhi) nhi (c.val y)], by simp, by
                          simp only [Scan.finals_single_fin, finCov, leafCov, vy]
                          exact perm_tail _ _ _⟩
                  | _ => simp only [stepLeaf]; exact S2_noop h0
          | false =>
              simp only [Bool.false_eq_true, if_false]
              cases hlif : nlif with
              | true =>
                  rw [hlif] at lp
                  simp only [if_true] at lp
                  subst lp
                  simp only [stepLeaf]; exact S2_noop (hlif ▸ h0)
              | false =>
                  rw [hlif] at lp
                  simp only [Bool.false_eq_true, if_false] at lp
                  cases hkl : isKept l with
                  | true =>
                      rw [if_pos hkl] at lp
                      have : nll = .none := lp.1
                      subst this
                      simp only [stepLeaf]; exact S2_noop (hlif ▸ h0)
                  | false =>
                      rw [if_neg (by simp [hkl])] at lp
                      obtain ⟨hfm, lp⟩ := lp
                      cases nll with
                      | ready b1 lo1 hi1 st1 =>
                          simp only [leafOK] at lp
                          obtain ⟨e1, e2, e3, e4, vb⟩ := lp
                          have e1' := e1.symm; have e2' := e2.symm; have e3' := e3.symm; have e4' := e4.symm
                          subst e1' e2' e3' e4'
                          simp only [stepLeaf]
                          have hv' : (c.finalScan body nlo (mid nlo nhi)).val body = rng L (mid nlo nhi) := by
                            rw [finalScan_val, if_pos ⟨rfl, c4⟩, vb, rng_split _ _ _ h4 (Nat.le_of_lt m1)]
                          refine ⟨?_, by simp, ?_, ?_, rfl, by simp [phGone], fun hg' => by simp [phGone] at hg', rfl, rfl, by simp, ?_⟩
                          · refine I2_set_left (k' := k0) (nph := .run2 k0) (nph' := .run2 k0) (hlif ▸ h0) (Or.inl ⟨_, rfl⟩) (Or.inl rfl) (by simp) ?_ rfl rfl (fun _ => rfl) ?_ ?_
                            · intro x _ hx; rw [finalScan_val, if_neg (fun h => hx hfm h.1)]
                            · simp only [Bool.false_eq_true, if_false]
                              rw [if_neg (by simp [hkl])]; simp only [leafOK]; exact ⟨hfm, tt, tt, hv'⟩
                            · have k1' := k1
                              simp [rightDone, leftDone, hkl, hlif, ready_ne_gone, ran_ne_gone] at k1' ⊢
                              exact k1'
                          · intro x hx
                            rw [finalScan_val, if_neg]
                            intro he
                            exact hx (by simp [fp2, hfm, he.1])
                          · simp [lsK, isKept]
                          · exact ⟨[.fin body nlo (mid nlo nhi) (c.val body)], by simp, by
                              simp only [Scan.finals_single_fin, finCov, leafCov, vb]
                              exact perm_mid _ _ _⟩
                      | _ => simp only [stepLeaf]; exact S2_noop (hlif ▸ h0)
      | lend side =>
          simp only [stepNode]
          cases side with
          | true =>
              simp only [if_true]
              cases hkr : isKept r with
              | true =>
                  rw [if_pos hkr] at rp
                  have : nrl = .none := rp.1
                  subst this
                  simp only [stepLeaf]; exact S2_noop h0
              | false =>
                  rw [if_neg (by simp [hkr])] at rp
                  cases nrl with
                  | ran b1 st1 =>
                      simp only [leafOK] at rp
                      obtain ⟨e1, e2, vy⟩ := rp
                      have e1' := e1.symm; have e2' := e2.symm
                      subst e1' e2'
                      simp only [stepLeaf]
                      have hfr' : ∀ x : Nat, (x = 0 → stuff = false) → (if stuff = true then c.assign 0 y else c).val x = c.val x := by
                        intro x hx
                        cases stuff with
                        | false => rfl
                        | true => simp only [if_true]; rw [assign_val, if_neg (fun h => by have := hx h.1; cases this)]
                      refine ⟨?_, by split <;> simp, ?_, ?_, rfl, by simp [phGone], fun hg' => by simp [phGone] at hg', rfl, rfl,
                        by split <;> simp, ?_⟩
                      · refine I2_set_right (k' := k0 - 1) (nph := .run2 k0) (nph' := .run2 (k0 - 1)) h0 (Or.inl ⟨_, rfl⟩) (Or.inl rfl) (by split <;> simp) ?_ rfl rfl (fun _ => rfl) ?_ ?_ ?_
                        · intro x _ hx _; exact hfr' x hx
                        · rw [if_neg (by simp [hkr])]; simp [leafOK]
                        · have k1' := k1
                          simp [rightDone, leftDone, hkr, ran_ne_gone, b2n] at k1' ⊢
                          omega
                        · intro hs _
                          subst hs
                          simp only [if_true]
                          rw [assign_val, if_pos ⟨rfl, by omega⟩, vy, c3 rfl]
                      · intro x hx
                        refine hfr' x (fun he => ?_)
                        cases hs : stuff with
                        | false => rfl
                        | true => exact absurd (by simp [fp2, hs, he]) hx
                      · simp [lsK, isKept]
                      · refine ⟨if stuff = true then [.assign 0 y] else [], by split <;> simp, ?_⟩
                        have : finals (if stuff = true then [Ev.assign 0 y] else []) = [] := by split <;> rfl
                        rw [this]
                        simp [finCov, leafCov]
                  | _ => simp only [stepLeaf]; exact S2_noop h0
          | false =>
              simp only [Bool.false_eq_true, if_false]
              cases hlif : nlif with
              | true =>
                  rw [hlif] at lp
                  simp only [if_true] at lp
                  subst lp
                  simp only [stepLeaf]; exact S2_noop (hlif ▸ h0)
              | false =>
                  rw [hlif] at lp
                  simp only [Bool.false_eq_true, if_false] at lp
                  cases hkl : isKept l with
                  | true =>
                      rw [if_pos hkl] at lp
                      have : nll = .none := lp.1
                      subst this
                      simp only [stepLeaf]; exact S2_noop (hlif ▸ h0)
                  | false =>
                      rw [if_neg (by simp [hkl])] at lp
                      obtain ⟨hfm, lp⟩ := lp
                      cases nll with
                      | ran b1 st1 =>
                          simp only [leafOK] at lp
                          obtain ⟨e1, e2, vb⟩ := lp
                          have e1' := e1.symm; have e2' := e2.symm
                          subst e1' e2'
                          simp only [stepLeaf, Bool.false_eq_true, if_false]
                          refine ⟨?_, rfl, fun _ _ => rfl, ?_, rfl, by simp [phGone], fun hg' => by simp [phGone] at hg', rfl, rfl, rfl,
                            ⟨[], by simp, by simp [finCov, leafCov]⟩⟩
                          · refine I2_set_left (k' := k0 - 1) (nph := .run2 k0) (nph' := .run2 (k0 - 1)) (hlif ▸ h0) (Or.inl ⟨_, rfl⟩) (Or.inl rfl) rfl (fun _ _ _ => rfl) rfl rfl (fun _ => rfl) ?_ ?_
                            · simp only [Bool.false_eq_true, if_false]
                              rw [if_neg (by simp [hkl])]; simp [leafOK, hfm]
                            · have k1' := k1
                              simp [rightDone, leftDone, hkl, hlif, ran_ne_gone, b2n] at k1' ⊢
                              omega
                          · simp [lsK, isKept]
                      | _ => simp only [stepLeaf]; exact S2_noop (hlif ▸ h0)
      | _ => exact S2_noop h0
  | p1 =>
      simp only [I2] at h
      obtain ⟨_, _, _, _, _, _, _, _, _, _, _, _, _, _, ⟨k, hk, _⟩, _⟩ := h
      rcases hk with hk | hk
      · cases hk
      · cases hk.1
  | kept =>
      simp only [I2] at h
      obtain ⟨_, _, _, _, _, _, _, _, _, _, _, _, _, _, ⟨k, hk, _⟩, _⟩ := h
      rcases hk with hk | hk
      · cases hk
      · cases hk.1
  | dropped =>
      simp only [I2] at h
      obtain ⟨_, _, _, _, _, _, _, _, _, _, _, _, _, _, ⟨k, hk, _⟩, _⟩ := h
      rcases hk with hk | hk
      · cases hk
      · cases hk.1

end TbbVerif.C06.SP
