/-
C06 — parallel_scan task protocol, pass 2: the steps of a kept sum_node at its own position.
-/
import TbbVerif.Proofs.C06.SP2Frame

namespace TbbVerif.C06.SP
open Scan (Ctx Ev mid finals finalScan_val preScan_val rjoin_val alloc_val assign_val)

local macro "tt" : term => `(by trivial)

structure S2 (c : Ctx) (L HI g : Nat) (t : T) (lo hi : Nat) (fm : Bool) (e : Exp) (res : Res) : Prop where
  inv : I2 res.c L HI g res.t lo hi fm e
  len : res.c.heap.length = c.heap.length
  frame : ∀ x, x ∉ fp2 t fm e → res.c.val x = c.val x
  lsk : lsK res.t = lsK t
  kept : isKept res.t = isKept t
  dec2 : res.dec2 = (phGone res.t && !phGone t)
  gone : phGone t = true → phGone res.t = true
  dec : res.dec = false
  sw : res.sw = none
  err : res.c.err = c.err
  log : ∃ evs, res.c.log = c.log ++ evs ∧ (finals evs ++ finCov L t).Perm (finCov L res.t)

theorem S2_noop {c : Ctx} {L HI g : Nat} {t : T} {lo hi : Nat} {fm : Bool} {e : Exp}
    (h : I2 c L HI g t lo hi fm e) : S2 c L HI g t lo hi fm e (noop c t) :=
  ⟨h, rfl, fun _ _ => rfl, rfl, rfl, by simp [noop], fun h => h, rfl, rfl, rfl, ⟨[], by simp [noop], by simp [noop]⟩⟩

/-! ### `prepare_for_execution` -/

theorem isKept_setPrep {t : T} {b : Nat} {i : Option Nat} {s : Bool} (h : isKept t = true) : isKept (setPrep t b i s) = true := by
  cases t with
  | task => simp [isKept] at h
  | node nd l r => simp [setPrep, isKept]

theorem lsK_setPrep {t : T} {b : Nat} {i : Option Nat} {s : Bool} (h : isKept t = true) : lsK (setPrep t b i s) = lsK t := by
  cases t with
  | task => rfl
  | node nd l r =>
      have h2 : isKept (T.node { nd with ph := .prep b i s } l r) = true := by simp [isKept]
      simp only [setPrep, lsK]
      rw [if_pos h, if_pos h2]

theorem phGone_setPrep {t : T} {b : Nat} {i : Option Nat} {s : Bool} (h : isKept t = true) : phGone (setPrep t b i s) = false := by
  cases t with
  | task => simp [isKept] at h
  | node nd l r => simp [setPrep, phGone]

theorem finCov_setPrep (L : Nat) (t : T) (b : Nat) (i : Option Nat) (s : Bool) : finCov L (setPrep t b i s) = finCov L t := by
  cases t with
  | task => rfl
  | node nd l r => simp [setPrep, finCov]

theorem I2_prep {c : Ctx} {L HI g : Nat} {t : T} {lo hi : Nat} {fm : Bool} {body : Nat} {inc : Option Nat} {stuff : Bool}
    (h : I2 c L HI g t lo hi fm .idle)
    (c1 : inc = none → fm = true ∧ body = 1) (c2 : ∀ i, inc = some i → i = body ∧ fm = false) (c3 : stuff = true → hi = HI)
    (c4 : body < c.heap.length) (c5 : body ≠ 0) (c6 : fm = false → body ∉ lsK t ∧ c.val body = rng L lo) :
    I2 c L HI g (setPrep t body inc stuff) lo hi fm (.act body inc stuff) := by
  cases t with
  | task => simp [I2] at h
  | node nd l r =>
      obtain ⟨nlo, nhi, nref, nz, nss, nls, nlif, nph, nll, nrl⟩ := nd
      cases nls with
      | none => simp [I2] at h
      | some y =>
          cases nph <;> simp only [I2] at h
          case kept =>
            obtain ⟨h1, h2, h3, h4, h5, h6, h7, h8, h9, d1, d2, n1, n2, y1, v1, e1, e2, i1, i2⟩ := h
            simp only [setPrep, I2]
            exact ⟨h1, h2, h3, h4, h5, h6, h7, h8, h9, d1, d2, by simpa [lsK, isKept] using n1, by simpa [lsK, isKept] using n2, y1,
              tt, tt, tt, c1, c2, c3, c4, c5, by simpa [lsK, isKept] using c6, v1, e1, e2, i1, i2⟩
          all_goals exact h.2.2.2.2.2.2.2.2.2.2.2.2.2.2.elim

theorem lsK_node_kept {nd : Nd} {l r : T} (h : isKept (.node nd l r) = true) :
    lsK (.node nd l r) = (nd.ls.toList : List Nat) ++ (lsK l ++ lsK r) := by
  simp only [lsK]; rw [if_pos h]

theorem mid_le {lo hi : Nat} : lo ≤ mid lo hi := by unfold mid; omega

/-- sum_node::execute, first invocation -/
theorem S2_exec2 {c : Ctx} {L HI g : Nat} (hg : 1 ≤ g) {nd : Nd} {l r : T} {lo hi : Nat} {fm : Bool} {body : Nat} {inc : Option Nat} {stuff : Bool}
    (sv : Option BodyId) (hph : nd.ph = .prep body inc stuff)
    (h : I2 c L HI g (.node nd l r) lo hi fm (.act body inc stuff)) :
    S2 c L HI g (.node nd l r) lo hi fm (.act body inc stuff) (stepNode c sv .exec2 nd l r) := by
  obtain ⟨nlo, nhi, nref, nz, nss, nls, nlif, nph, nll, nrl⟩ := nd
  simp only at hph
  subst hph
  cases nls with
  | none => simp [I2] at h
  | some y =>
      have hk : isKept (T.node ⟨nlo, nhi, nref, nz, nss, some y, nlif, .prep body inc stuff, nll, nrl⟩ l r) = true := rfl
      simp only [I2] at h
      obtain ⟨h1, h2, h3, h4, h5, h6, h7, h8, h9, d1, d2, n1, n2, y1, _, _, _, c1, c2, c3, c4, c5, c6, v1, e1, e2, i1, i2⟩ := h
      subst h1 h2 e1 e2
      obtain ⟨m1, m2⟩ := mid_lt hg h3
      have hyK := lsK_self hk rfl
      have hynl : y ∉ lsK l := by
        intro hm
        have : (y :: (lsK l ++ lsK r)).Nodup := by simpa [lsK, isKept] using n1
        exact (List.nodup_cons.mp this).1 (List.mem_append_left _ hm)
      have hynr : y ∉ lsK r := by
        intro hm
        have : (y :: (lsK l ++ lsK r)).Nodup := by simpa [lsK, isKept] using n1
        exact (List.nodup_cons.mp this).1 (List.mem_append_right _ hm)
      have hby : nlif = false → body ≠ y := by
        intro hl
        cases hfm : fm with
        | true =>
            cases hi' : inc with
            | none => rw [(c1 hi').2]; exact fun he => y1 hfm hl he.symm
            | some i => have := (c2 i hi').2; rw [hfm] at this; cases this
        | false => intro he; exact (c6 hfm).1 (he ▸ hyK)
      have hbeq : (!nlif && body == y) = false := by
        cases hl : nlif with
        | true => simp
        | false => simp [hby hl]
      simp only [stepNode, hbeq, Bool.false_eq_true, if_false, gen_p2, gen_njoin, if_true]
      suffices main : ∀ c1' : Ctx, c1'.heap.length = c.heap.length → c1'.err = c.err → (∀ x : Nat, x ≠ y → c1'.val x = c.val x) →
          c1'.val y = rng L (mid nlo nhi) → (∃ evs, c1'.log = c.log ++ evs ∧ finals evs = []) →
          S2 c L HI g (T.node ⟨nlo, nhi, nref, nz, nss, some y, nlif, .prep body inc stuff, .none, .none⟩ l r) nlo nhi fm (.act body inc stuff)
            { c := c1',
              t := T.node ⟨nlo, nhi, nref, nz, nss, some y, nlif, .run2 (1 + b2n !nlif),
                    (if (nlif || isKept l) = true then L2.none else L2.ready body nlo (mid nlo nhi) false),
                    (if isKept r = true then L2.none else L2.ready y (mid nlo nhi) nhi stuff)⟩
                    (if (!nlif && isKept l) = true then setPrep l body inc false else l)
                    (if isKept r = true then setPrep r y (some y) stuff else r) } by
        cases inc with
        | none =>
            have hL := h6 (c1 rfl).1
            exact main c rfl rfl (fun _ _ => rfl) (by rw [v1, hL]) ⟨[], by simp, rfl⟩
        | some i =>
            obtain ⟨e1, e2⟩ := c2 i rfl
            subst e1
            have hvb := (c6 e2).2
            refine main (c.rjoin y i) (by simp) (by simp) ?_ ?_ ⟨[.rjoin y i], by simp, rfl⟩
            · intro x hx; rw [rjoin_val, if_neg (fun h => hx h.1)]
            · rw [rjoin_val, if_pos ⟨rfl, (n2 y hyK).1⟩, hvb, v1, rng_split _ _ _ h4 (Nat.le_of_lt m1)]
      intro c1' hl1 he1 hf1 hv1 hlog1
      have hframeK : ∀ t', (∀ x, x ∈ lsK t' → x ≠ y) → ∀ x, x ∈ lsK t' → c1'.val x = c.val x := fun t' ht x hx => hf1 x (ht x hx)
      refine ⟨?_, hl1, ?_, ?_, rfl, by simp [phGone], fun hg' => by simp [phGone] at hg', rfl, rfl, he1, ?_⟩
      · -- the invariant in phase run2
        simp only [I2]
        have hkr' : isKept (if isKept r = true then setPrep r y (some y) stuff else r) = isKept r := by
          cases hkr : isKept r with
          | true => simp [isKept_setPrep hkr]
          | false => simp [hkr]
        have hkl' : isKept (if (!nlif && isKept l) = true then setPrep l body inc false else l) = isKept l := by
          cases hkl : isKept l with
          | true => cases nlif <;> simp [isKept_setPrep hkl, hkl]
          | false => simp [hkl]
        have hlr' : lsK (if isKept r = true then setPrep r y (some y) stuff else r) = lsK r := by
          cases hkr : isKept r with
          | true => simp [lsK_setPrep hkr]
          | false => simp
        have hll' : lsK (if (!nlif && isKept l) = true then setPrep l body inc false else l) = lsK l := by
          cases hkl : isKept l with
          | true => cases nlif <;> simp [lsK_setPrep hkl]
          | false => simp
        have hlsK : lsK (T.node ⟨nlo, nhi, nref, nz, nss, some y, nlif, .run2 (1 + b2n !nlif),
              (if (nlif || isKept l) = true then L2.none else L2.ready body nlo (mid nlo nhi) false),
              (if isKept r = true then L2.none else L2.ready y (mid nlo nhi) nhi stuff)⟩
              (if (!nlif && isKept l) = true then setPrep l body inc false else l)
              (if isKept r = true then setPrep r y (some y) stuff else r)) =
            lsK (T.node ⟨nlo, nhi, nref, nz, nss, some y, nlif, .prep body inc stuff, .none, .none⟩ l r) := by
          rw [lsK_node_kept (by rfl), lsK_node_kept (by rfl), hll', hlr']
        refine ⟨tt, tt, h3, h4, h5, h6, h7, ?_, ?_, ?_, ?_, by rw [hlsK]; exact n1, by rw [hlsK]; exact fun x hx => hl1 ▸ n2 x hx, y1,
          ?_, c1, c2, c3, hl1 ▸ c4, c5, by rw [hlsK]; exact fun hf => (c6 hf).1, ?_, ?_, ?_⟩
        · rw [hkl']; exact h8
        · intro hlif'; have h' := h9 hlif'; simp only [hlif', Bool.not_true, Bool.false_and, Bool.false_eq_true, if_false]; exact h'
        · rw [hkl']; intro hk'; rw [if_neg (by simp [hk'])]; exact d1 hk'
        · rw [hkr']; intro hk'; rw [if_neg (by simp [hk'])]; exact d2 hk'
        · -- reference count
          refine ⟨1 + b2n !nlif, Or.inl rfl, ?_⟩
          simp only [rightDone, leftDone, hkr', hkl']
          cases hkr : isKept r <;> cases hkl : isKept l <;> cases nlif <;>
            simp [b2n, phGone_setPrep, hkr, hkl]
        · -- right part
          rw [hkr']
          cases hkr : isKept r with
          | true =>
              simp only [if_true]
              refine ⟨tt, I2_prep (I2_frame hl1 _ _ _ _ _ ?_ (i2 hkr)) (by simp) (by simp) c3 (hl1 ▸ (n2 y hyK).1) (n2 y hyK).2
                (fun _ => ⟨hynr, hv1⟩)⟩
              intro x hx
              simp only [fp2] at hx
              exact hf1 x (fun he => hynr (he ▸ hx))
          | false =>
              simp only [Bool.false_eq_true, if_false, leafOK]
              exact ⟨tt, tt, tt, tt, hv1⟩
        · -- left part
          cases hl : nlif with
          | true => simp
          | false =>
              cases hkl : isKept l with
              | true =>
                  simp only [hkl, Bool.false_eq_true, if_false, Bool.not_false, Bool.true_and, Bool.false_or, if_true, isKept_setPrep hkl]
                  refine ⟨tt, I2_prep (I2_frame hl1 _ _ _ _ _ ?_ (i1 hkl)) c1 c2 (by simp) (hl1 ▸ c4) c5 ?_⟩
                  · intro x hx
                    simp only [fp2] at hx
                    exact hf1 x (fun he => hynl (he ▸ hx))
                  · intro hf
                    refine ⟨fun hm => (c6 hf).1 (lsK_sub_l hk hm), ?_⟩
                    rw [hf1 body (hby hl)]; exact (c6 hf).2
              | false =>
                  simp only [hkl, Bool.false_eq_true, if_false, Bool.not_false, Bool.true_and, Bool.false_or, leafOK]
                  have hfm : fm = false := by
                    cases hfm : fm with
                    | false => rfl
                    | true => have := h8 hfm hl; rw [hkl] at this; cases this
                  refine ⟨hfm, tt, tt, tt, tt, ?_⟩
                  rw [hf1 body (hby hl)]; exact (c6 hfm).2
        · intro _ hd
          simp only [rightDone, hkr'] at hd
          cases hkr : isKept r with
          | true => rw [hkr] at hd; simp [phGone_setPrep hkr] at hd
          | false => rw [hkr] at hd; simp at hd
      · intro x hx
        refine hf1 x (fun he => hx ?_)
        simp only [fp2, List.mem_append]
        exact Or.inr (he ▸ hyK)
      · have hlr' : lsK (if isKept r = true then setPrep r y (some y) stuff else r) = lsK r := by
          cases hkr : isKept r with
          | true => simp [lsK_setPrep hkr]
          | false => simp
        have hll' : lsK (if (!nlif && isKept l) = true then setPrep l body inc false else l) = lsK l := by
          cases hkl : isKept l with
          | true => cases nlif <;> simp [lsK_setPrep hkl]
          | false => simp
        rw [lsK_node_kept (by rfl), lsK_node_kept (by rfl), hll', hlr']
      · obtain ⟨evs, e1, e2⟩ := hlog1
        refine ⟨evs, e1, ?_⟩
        have fl : finCov L (if (!nlif && isKept l) = true then setPrep l body inc false else l) = finCov L l := by
          split <;> simp [finCov_setPrep]
        have fr : finCov L (if isKept r = true then setPrep r y (some y) stuff else r) = finCov L r := by
          split <;> simp [finCov_setPrep]
        have ll : ∀ a b', leafCov L a b' (if (nlif || isKept l) = true then L2.none else L2.ready body nlo (mid nlo nhi) false) = [] := by
          intro a b'; split <;> rfl
        have rl : ∀ a b', leafCov L a b' (if isKept r = true then L2.none else L2.ready y (mid nlo nhi) nhi stuff) = [] := by
          intro a b'; split <;> rfl
        rw [e2]
        simp only [List.nil_append, finCov, fl, fr, ll, rl]
        simp only [leafCov, List.append_nil]
        exact List.Perm.refl _

end TbbVerif.C06.SP
