/-
C06 — parallel_scan task protocol: an element is pre-scanned at most once and never after its final scan.
-/
import TbbVerif.Proofs.C06.SPPre

namespace TbbVerif.C06.SP
open Scan (Ctx Ev mid finals)

def rg (f : Nat × Nat × List Nat) : Nat × Nat := (f.1, f.2.1)
def Disj (r1 r2 : Nat × Nat) : Prop := r1.2 ≤ r2.1 ∨ r2.2 ≤ r1.1
def PD (A : List (Nat × Nat)) : Prop := A.Pairwise Disj
def inR (lo hi : Nat) (A : List (Nat × Nat)) : Prop := ∀ r, r ∈ A → lo ≤ r.1 ∧ r.1 < r.2 ∧ r.2 ≤ hi

theorem Disj_symm {a b : Nat × Nat} (h : Disj a b) : Disj b a := Or.symm h

/-- scanned ranges (final or pre) the tree accounts for, in range order (pass 1) -/
def allCov (L : Nat) : T → List (Nat × Nat)
  | .task lo hi b fin ss pc => (finCov L (.task lo hi b fin ss pc)).map rg ++ preCov (.task lo hi b fin ss pc)
  | .node _ l r => allCov L l ++ allCov L r

theorem PD_append {lo m hi : Nat} {A B : List (Nat × Nat)} (ha : inR lo m A) (hb : inR m hi B) (pa : PD A) (pb : PD B) : PD (A ++ B) := by
  unfold PD
  refine List.pairwise_append.mpr ⟨pa, pb, ?_⟩
  intro a h1 b h2
  have := ha a h1
  have := hb b h2
  exact Or.inl (by omega)

theorem inR_append {lo m hi : Nat} {A B : List (Nat × Nat)} (h1 : lo ≤ m) (h2 : m ≤ hi) (ha : inR lo m A) (hb : inR m hi B) : inR lo hi (A ++ B) := by
  intro r hr
  rcases List.mem_append.mp hr with h | h
  · have := ha r h; omega
  · have := hb r h; omega

theorem task_all (L lo hi b : Nat) (fin ss : Bool) (pc : Pc) (hlt : lo < hi) :
    PD (allCov L (.task lo hi b fin ss pc)) ∧ inR lo hi (allCov L (.task lo hi b fin ss pc)) := by
  cases fin <;> cases ss <;> cases pc <;> simp [allCov, finCov, preCov, PD, inR, rg, hlt]

theorem Quiet_all {g b L : Nat} {fin : Bool} (hg : 1 ≤ g) : ∀ (t : T) (lo hi : Nat), Quiet g b fin t lo hi →
    PD (allCov L t) ∧ inR lo hi (allCov L t) ∧ ((finCov L t).map rg ++ preCov t).Perm (allCov L t) := by
  intro t
  induction t with
  | task lo' hi' b' fin' ss' pc =>
      intro lo hi h
      simp only [Quiet] at h
      obtain ⟨rfl, rfl, h3, _⟩ := h
      exact ⟨(task_all L _ _ _ _ _ _ h3).1, (task_all L _ _ _ _ _ _ h3).2, List.Perm.refl _⟩
  | node nd l r ihl ihr =>
      intro lo hi h
      simp only [Quiet] at h
      obtain ⟨q1, q2, q3, q4, q5, q6, q7, q8, q9, q10, q11, q12⟩ := h
      obtain ⟨m1, m2⟩ := mid_lt hg q3
      obtain ⟨a1, a2, a3⟩ := ihl _ _ q9
      obtain ⟨b1, b2, b3⟩ := ihr _ _ q10
      refine ⟨PD_append a2 b2 a1 b1, inR_append (Nat.le_of_lt m1) (Nat.le_of_lt m2) a2 b2, ?_⟩
      simp only [finCov, q6, q7, leafCov, List.append_nil, List.map_append, preCov, allCov]
      have : ((finCov L l).map rg ++ (finCov L r).map rg ++ (preCov l ++ preCov r)).Perm
          (((finCov L l).map rg ++ preCov l) ++ ((finCov L r).map rg ++ preCov r)) := by
        simp only [List.append_assoc]
        exact List.Perm.append_left _ (List.perm_append_comm_assoc _ _ _)
      exact this.trans (List.Perm.append a3 b3)

theorem I1_all {c : Ctx} {L g : Nat} (hg : 1 ≤ g) : ∀ (t : T) (b s lo hi : Nat) (fin ss live : Bool) (sv : Option BodyId),
    I1 c L g t b s lo hi fin ss live sv →
    PD (allCov L t) ∧ inR lo hi (allCov L t) ∧ ((finCov L t).map rg ++ preCov t).Perm (allCov L t) := by
  intro t
  induction t with
  | task lo' hi' b' fin' ss' pc =>
      intro b s lo hi fin ss live sv h
      simp only [I1] at h
      obtain ⟨rfl, rfl, h3, _⟩ := h
      exact ⟨(task_all L _ _ _ _ _ _ h3).1, (task_all L _ _ _ _ _ _ h3).2, List.Perm.refl _⟩
  | node nd l r ihl ihr =>
      intro b s lo hi fin ss live sv h
      simp only [I1] at h
      obtain ⟨h1, h2, h3, h4, h5, h6, h7, h8, h9, h10, h11, h12, h13, h14, h15, h16, h17, hz⟩ := h
      obtain ⟨m1, m2⟩ := mid_lt hg h3
      have key : (PD (allCov L l) ∧ inR lo (mid lo hi) (allCov L l) ∧ ((finCov L l).map rg ++ preCov l).Perm (allCov L l)) ∧
          (PD (allCov L r) ∧ inR (mid lo hi) hi (allCov L r) ∧ ((finCov L r).map rg ++ preCov r).Perm (allCov L r)) := by
        cases hzz : nd.z with
        | none =>
            rw [hzz] at hz
            simp only at hz
            by_cases hst : started r = true
            · rw [if_pos hst] at hz
              exact ⟨Quiet_all hg _ _ _ hz.2.1, ihr _ _ _ _ _ _ _ _ hz.2.2.2⟩
            · rw [if_neg hst] at hz
              exact ⟨ihl _ _ _ _ _ _ _ _ hz.2.1, ihr _ _ _ _ _ _ _ _ hz.2.2⟩
        | some z =>
            rw [hzz] at hz
            simp only at hz
            exact ⟨ihl _ _ _ _ _ _ _ _ hz.2.2.2.1, ihr _ _ _ _ _ _ _ _ hz.2.2.2.2.1⟩
      obtain ⟨⟨a1, a2, a3⟩, ⟨b1, b2, b3⟩⟩ := key
      refine ⟨PD_append a2 b2 a1 b1, inR_append (Nat.le_of_lt m1) (Nat.le_of_lt m2) a2 b2, ?_⟩
      simp only [finCov, h10, h11, leafCov, List.append_nil, List.map_append, preCov, allCov]
      have : ((finCov L l).map rg ++ (finCov L r).map rg ++ (preCov l ++ preCov r)).Perm
          (((finCov L l).map rg ++ preCov l) ++ ((finCov L r).map rg ++ preCov r)) := by
        simp only [List.append_assoc]
        exact List.Perm.append_left _ (List.perm_append_comm_assoc _ _ _)
      exact this.trans (List.Perm.append a3 b3)

/-- under the pass-1 invariant the ranges scanned so far (final or pre) are pairwise disjoint -/
theorem I1_PD {c : Ctx} {L g : Nat} (hg : 1 ≤ g) {t : T} {b s lo hi : Nat} {fin ss live : Bool} {sv : Option BodyId}
    (h : I1 c L g t b s lo hi fin ss live sv) : PD ((finCov L t).map rg ++ preCov t) := by
  obtain ⟨a1, _, a3⟩ := I1_all hg _ _ _ _ _ _ _ _ _ h
  exact (a3.pairwise_iff (fun h => Disj_symm h)).mpr a1

/-! ### pass 2 has no task left that could pre-scan -/

theorem Dead_noReady : ∀ (t : T), Dead t → hasReady t = false := by
  intro t
  induction t with
  | task lo hi b fin ss pc => intro h; simp only [Dead] at h; subst h; rfl
  | node nd l r ihl ihr => intro h; simp only [Dead] at h; simp [hasReady, ihl h.2.2.2.1, ihr h.2.2.2.2]

theorem I2_noReady {c : Ctx} {L HI g : Nat} : ∀ (t : T) (lo hi : Nat) (fm : Bool) (e : Exp), I2 c L HI g t lo hi fm e → hasReady t = false := by
  intro t
  induction t with
  | task => intro lo hi fm e h; simp [I2] at h
  | node nd l r ihl ihr =>
      intro lo hi fm e h
      obtain ⟨nlo, nhi, nref, nz, nss, nls, nlif, nph, nll, nrl⟩ := nd
      cases nls with
      | none => simp [I2] at h
      | some y =>
          -- in every phase: a kept child satisfies I2 (idle or prepared), any other child is dead
          have key : (isKept l = true → ∃ lo' hi' fm' e', I2 c L HI g l lo' hi' fm' e') ∧ (isKept l = false → Dead l) ∧
              (isKept r = true → ∃ lo' hi' fm' e', I2 c L HI g r lo' hi' fm' e') ∧ (isKept r = false → Dead r) := by
            cases e with
            | idle =>
                cases nph <;> simp only [I2] at h
                case kept =>
                  obtain ⟨_, _, _, _, _, _, _, _, _, d1, d2, _, _, _, _, _, _, i1, i2⟩ := h
                  exact ⟨fun hk => ⟨_, _, _, _, i1 hk⟩, fun hk => (d1 hk).1, fun hk => ⟨_, _, _, _, i2 hk⟩, fun hk => (d2 hk).1⟩
                all_goals exact h.2.2.2.2.2.2.2.2.2.2.2.2.2.2.elim
            | act body inc stuff =>
                have run : ∀ {ph : Ph}, ((∃ k, ph = .run2 k) ∨ ph = .gone) →
                    I2 c L HI g (.node ⟨nlo, nhi, nref, nz, nss, some y, nlif, ph, nll, nrl⟩ l r) lo hi fm (.act body inc stuff) →
                    (isKept l = true → ∃ lo' hi' fm' e', I2 c L HI g l lo' hi' fm' e') ∧ (isKept l = false → Dead l) ∧
                    (isKept r = true → ∃ lo' hi' fm' e', I2 c L HI g r lo' hi' fm' e') ∧ (isKept r = false → Dead r) := by
                  intro ph hph h
                  rcases hph with ⟨k, rfl⟩ | rfl <;>
                  · simp only [I2] at h
                    obtain ⟨_, _, _, _, _, _, _, _, h9, d1, d2, _, _, _, _, _, _, _, _, _, _, rp, lp, _⟩ := h
                    refine ⟨?_, fun hk => (d1 hk).1, ?_, fun hk => (d2 hk).1⟩
                    · intro hk
                      cases hlif : nlif with
                      | true => have := (h9 hlif).1; rw [hk] at this; cases this
                      | false =>
                          rw [hlif] at lp
                          simp only [Bool.false_eq_true, if_false] at lp
                          rw [if_pos hk] at lp
                          exact ⟨_, _, _, _, lp.2⟩
                    · intro hk
                      rw [if_pos hk] at rp
                      exact ⟨_, _, _, _, rp.2⟩
                cases nph with
                | prep b' i' s' =>
                    simp only [I2] at h
                    obtain ⟨_, _, _, _, _, _, _, _, _, d1, d2, _, _, _, _, _, _, _, _, _, _, _, _, _, _, _, i1, i2⟩ := h
                    exact ⟨fun hk => ⟨_, _, _, _, i1 hk⟩, fun hk => (d1 hk).1, fun hk => ⟨_, _, _, _, i2 hk⟩, fun hk => (d2 hk).1⟩
                | run2 k => exact run (Or.inl ⟨k, rfl⟩) h
                | gone => exact run (Or.inr rfl) h
                | _ =>
                    simp only [I2] at h
                    obtain ⟨_, _, _, _, _, _, _, _, _, _, _, _, _, _, ⟨k, hk, _⟩, _⟩ := h
                    rcases hk with hk | hk
                    · cases hk
                    · cases hk.1
          obtain ⟨k1, k2, k3, k4⟩ := key
          have hl : hasReady l = false := by
            cases hk : isKept l with
            | true => obtain ⟨_, _, _, _, hh⟩ := k1 hk; exact ihl _ _ _ _ hh
            | false => exact Dead_noReady _ (k2 hk)
          have hr : hasReady r = false := by
            cases hk : isKept r with
            | true => obtain ⟨_, _, _, _, hh⟩ := k3 hk; exact ihr _ _ _ _ hh
            | false => exact Dead_noReady _ (k4 hk)
          simp [hasReady, hl, hr]

end TbbVerif.C06.SP
