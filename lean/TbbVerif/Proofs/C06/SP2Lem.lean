/-
C06 — parallel_scan task protocol: from the pass-1 invariant of a completed tree to the pass-2 invariant; frame of `I2`.
-/
import TbbVerif.Proofs.C06.SP2Defs

namespace TbbVerif.C06.SP
open Scan (Ctx Ev mid finals finalScan_val preScan_val rjoin_val alloc_val assign_val)

local macro "tt" : term => `(by trivial)

theorem Quiet_dead {g b : Nat} {fin : Bool} : ∀ (t : T) (lo hi : Nat), Quiet g b fin t lo hi → fin1 t = true → Dead t := by
  intro t
  induction t with
  | task lo' hi' b' fin' ss' pc => intro lo hi h _; simp only [Quiet] at h; simp only [Dead]; exact h.2.2.2.2.2
  | node nd l r ihl ihr =>
      intro lo hi h hf
      simp only [Quiet] at h
      obtain ⟨q1, q2, q3, q4, q5, q6, q7, q8, q9, q10, q11, q12⟩ := h
      have hd : nd.ph = .dropped := by
        rcases q5 with q5 | q5
        · simp [fin1, q5] at hf
        · exact q5
      simp only [Dead]
      exact ⟨hd, q6, q7, ihl _ _ q9 (q12 hd).1, ihr _ _ q10 (q12 hd).2⟩

theorem I1_dead {c : Ctx} {L g : Nat} {t : T} {b s lo hi : Nat} {fin ss live : Bool} {sv : Option BodyId}
    (h : I1 c L g t b s lo hi fin ss live sv) (hf : fin1 t = true) (hk : isKept t = false) : Dead t := by
  cases t with
  | task lo' hi' b' fin' ss' pc => simpa [fin1, Dead] using hf
  | node nd l r =>
      simp only [I1] at h
      obtain ⟨h1, h2, h3, h4, h5, h6, h7, h8, h9, h10, h11, h12, h13, h14, h15, h16, h17, hz⟩ := h
      have hp : nd.ph ≠ .p1 := by simpa [fin1] using hf
      have hd : nd.ph = .dropped := by
        rcases h12 with h' | h' | h'
        · exact absurd h' hp
        · simp [isKept, h'] at hk
        · exact h'
      obtain ⟨a1, a2, a3, a4⟩ := h15 hp
      have hzn : nd.z = none := by
        cases hzz : nd.z with
        | none => rfl
        | some z => rw [hzz] at a3; simp [hd] at a3
      rw [hzn] at hz
      simp only at hz
      have hst := started_of_fin1_task hz.1 a2
      rw [if_pos hst] at hz
      obtain ⟨k1, k2, k3, k4⟩ := hz
      simp only [Dead]
      refine ⟨hd, h10, h11, Quiet_dead _ _ _ k2 a1, ?_⟩
      cases r with
      | task lo' hi' b' fin' ss' pc => simpa [fin1, Dead] using a2
      | node => simp [isTask] at k1

/-- the kept `m_left_sum` bodies of a completed subtree: among its entry body and its zombies, pairwise distinct, and none of them
is the body the subtree handed to its own sum slot -/
theorem I1_lsK {c : Ctx} {L g : Nat} : ∀ (t : T) (b s lo hi : Nat) (fin ss live : Bool) (sv : Option BodyId),
    I1 c L g t b s lo hi fin ss live sv → fin1 t = true →
      (∀ x, x ∈ lsK t → x = b ∨ x ∈ zs t) ∧ (lsK t).Nodup ∧ ex t ∉ lsK t := by
  intro t
  induction t with
  | task => intro b s lo hi fin ss live sv _ _; simp [lsK]
  | node nd l r ihl ihr =>
      intro b s lo hi fin ss live sv h hf
      by_cases hk : isKept (T.node nd l r) = true
      · have hlt := I1_zs_lt _ _ _ _ _ _ _ _ _ h
        simp only [I1] at h
        obtain ⟨h1, h2, h3, h4, h5, h6, h7, h8, h9, h10, h11, h12, h13, h14, h15, h16, h17, hz⟩ := h
        have hp : nd.ph ≠ .p1 := by simpa [fin1] using hf
        obtain ⟨a1, a2, a3, a4⟩ := h15 hp
        have hkp : nd.ph = .kept := by
          rcases h12 with h' | h' | h'
          · exact absurd h' hp
          · exact h'
          · simp [isKept, h'] at hk
        cases hzz : nd.z with
        | none => rw [hzz] at a3; simp [hkp] at a3
        | some z =>
            rw [hzz] at hz
            simp only at hz
            obtain ⟨z1, z2, z3, zl, zr, z6⟩ := hz
            have hnd : (z :: (zs l ++ zs r)).Nodup := by simpa [zs, hzz] using h17
            obtain ⟨l1, l2, l3⟩ := ihl _ _ _ _ _ _ _ _ zl a1
            obtain ⟨r1, r2, r3⟩ := ihr _ _ _ _ _ _ _ _ zr a2
            have hrl := I1_fin1_rmDone _ _ _ _ _ _ _ _ _ zl a1
            have hls : nd.ls = some (ex l) := by rw [h13, if_pos hrl]
            have hexl := I1_ex_mem _ _ _ _ _ _ _ _ _ zl
            -- members of the left part are not members of the right part
            have hsep : ∀ x, (x = b ∨ x ∈ zs l) → ¬ (x = z ∨ x ∈ zs r) := by
              intro x hx hx'
              rcases hx' with hx' | hx'
              · rcases hx with hx | hx
                · rw [← hx, hx'] at z1; exact Nat.lt_irrefl _ z1
                · rw [hx'] at hx; exact (List.nodup_cons.mp hnd).1 (List.mem_append_left _ hx)
              · rcases hx with hx | hx
                · have := (hlt x (by simp [zs, hx'])).1
                  rw [hx] at this; exact Nat.lt_irrefl _ this
                · exact (List.nodup_append.mp (List.nodup_cons.mp hnd).2).2.2 x hx x hx' rfl
            have hK : lsK (T.node nd l r) = ex l :: (lsK l ++ lsK r) := by
              simp [lsK, hk, hls]
            rw [hK]
            refine ⟨?_, ?_, ?_⟩
            · intro x hx
              simp only [List.mem_cons, List.mem_append] at hx
              rcases hx with hx | hx | hx
              · rcases hexl with h' | h'
                · left; rw [hx, h']
                · right; simp [zs, hx, h']
              · rcases l1 x hx with h' | h'
                · exact Or.inl h'
                · right; simp [zs, h']
              · rcases r1 x hx with h' | h'
                · right; simp [zs, hzz, h']
                · right; simp [zs, h']
            · refine List.nodup_cons.mpr ⟨?_, List.nodup_append.mpr ⟨l2, r2, ?_⟩⟩
              · intro hm
                rcases List.mem_append.mp hm with hm | hm
                · exact l3 hm
                · exact hsep (ex l) hexl (r1 _ hm)
              · intro x hx y hy he
                subst he
                exact hsep x (l1 x hx) (r1 x hy)
            · simp only [ex, List.mem_cons, List.mem_append, not_or]
              have hexr := I1_ex_mem _ _ _ _ _ _ _ _ _ zr
              refine ⟨?_, ?_, r3⟩
              · intro he
                exact hsep (ex l) hexl (he ▸ hexr)
              · intro hm
                exact hsep (ex r) (l1 _ hm) hexr
      · simp only [Bool.not_eq_true] at hk
        simp [lsK, hk]


/-! ### what pass 1 has already final-scanned -/

theorem Quiet_cov {g b L : Nat} : ∀ (t : T) (lo hi : Nat), Quiet g b true t lo hi → Scan.chain L lo (finCov L t) hi := by
  intro t
  induction t with
  | task lo' hi' b' fin' ss' pc =>
      intro lo hi h
      simp only [Quiet] at h
      obtain ⟨rfl, rfl, h3, _, rfl, rfl⟩ := h
      simp [finCov, Scan.chain, h3]
  | node nd l r ihl ihr =>
      intro lo hi h
      simp only [Quiet] at h
      obtain ⟨q1, q2, q3, q4, q5, q6, q7, q8, q9, q10, q11, q12⟩ := h
      simp only [finCov, q6, q7, leafCov, List.append_nil, q1, q2]
      exact Scan.chain_append L _ _ _ _ _ (ihl _ _ q9) (ihr _ _ q10)

theorem Quiet_nofin {g b L : Nat} : ∀ (t : T) (lo hi : Nat), Quiet g b false t lo hi → finCov L t = [] := by
  intro t
  induction t with
  | task lo' hi' b' fin' ss' pc =>
      intro lo hi h
      simp only [Quiet] at h
      obtain ⟨_, _, _, _, rfl, _⟩ := h
      simp [finCov]
  | node nd l r ihl ihr =>
      intro lo hi h
      simp only [Quiet] at h
      obtain ⟨q1, q2, q3, q4, q5, q6, q7, q8, q9, q10, q11, q12⟩ := h
      simp [finCov, q6, q7, leafCov, ihl _ _ q9, ihr _ _ q10]

theorem I1_nofin {c : Ctx} {L g : Nat} : ∀ (t : T) (b s lo hi : Nat) (ss live : Bool) (sv : Option BodyId),
    I1 c L g t b s lo hi false ss live sv → finCov L t = [] := by
  intro t
  induction t with
  | task lo' hi' b' fin' ss' pc =>
      intro b s lo hi ss live sv h
      simp only [I1] at h
      simp [finCov, h.2.2.2.2.1]
  | node nd l r ihl ihr =>
      intro b s lo hi ss live sv h
      simp only [I1] at h
      obtain ⟨h1, h2, h3, h4, h5, h6, h7, h8, h9, h10, h11, h12, h13, h14, h15, h16, h17, hz⟩ := h
      simp only [finCov, h10, h11, leafCov, List.append_nil]
      cases hzz : nd.z with
      | none =>
          rw [hzz] at hz
          simp only at hz
          by_cases hst : started r = true
          · rw [if_pos hst] at hz
            rw [Quiet_nofin _ _ _ hz.2.1, ihr _ _ _ _ _ _ _ hz.2.2.2]; rfl
          · rw [if_neg hst] at hz
            rw [ihl _ _ _ _ _ _ _ hz.2.1, ihr _ _ _ _ _ _ _ hz.2.2]; rfl
      | some z =>
          rw [hzz] at hz
          simp only at hz
          rw [ihl _ _ _ _ _ _ _ hz.2.2.2.1, ihr _ _ _ _ _ _ _ hz.2.2.2.2.1]; rfl

theorem I1_cov {c : Ctx} {L g : Nat} {t : T} {b s lo hi : Nat} {ss live : Bool} {sv : Option BodyId}
    (h : I1 c L g t b s lo hi true ss live sv) (hf : fin1 t = true) (hk : isKept t = false) :
    Scan.chain L lo (finCov L t) hi := by
  cases t with
  | task lo' hi' b' fin' ss' pc =>
      simp only [I1] at h
      obtain ⟨rfl, rfl, h3, _, rfl, _⟩ := h
      have : pc = .finished := by simpa [fin1] using hf
      subst this
      simp [finCov, Scan.chain, h3]
  | node nd l r =>
      simp only [I1] at h
      obtain ⟨h1, h2, h3, h4, h5, h6, h7, h8, h9, h10, h11, h12, h13, h14, h15, h16, h17, hz⟩ := h
      have hp : nd.ph ≠ .p1 := by simpa [fin1] using hf
      have hd : nd.ph = .dropped := by
        rcases h12 with h' | h' | h'
        · exact absurd h' hp
        · simp [isKept, h'] at hk
        · exact h'
      obtain ⟨a1, a2, a3, a4⟩ := h15 hp
      have hzn : nd.z = none := by
        cases hzz : nd.z with
        | none => rfl
        | some z => rw [hzz] at a3; simp [hd] at a3
      rw [hzn] at hz
      simp only at hz
      have hst := started_of_fin1_task hz.1 a2
      rw [if_pos hst] at hz
      obtain ⟨k1, k2, k3, k4⟩ := hz
      simp only [finCov, h10, h11, leafCov, List.append_nil, h1, h2]
      refine Scan.chain_append L _ _ _ _ _ (Quiet_cov _ _ _ k2) ?_
      cases r with
      | node => simp [isTask] at k1
      | task lo' hi' b' fin' ss' pc =>
          simp only [I1] at k4
          obtain ⟨rfl, rfl, r3, _, rfl, _⟩ := k4
          have : pc = .finished := by simpa [fin1] using a2
          subst this
          simp [finCov, Scan.chain, r3]

/-- **pass 1 hands over to pass 2**: the kept sum_nodes of a completed pass-1 tree satisfy the (idle) pass-2 invariant -/
theorem I1_to_I2 {c : Ctx} {L g HI : Nat} : ∀ (t : T) (b s lo hi : Nat) (fin ss live : Bool) (sv : Option BodyId),
    I1 c L g t b s lo hi fin ss live sv → fin1 t = true → isKept t = true → hi ≤ HI → I2 c L HI g t lo hi fin .idle := by
  intro t
  induction t with
  | task => intro b s lo hi fin ss live sv _ _ hk; simp [isKept] at hk
  | node nd l r ihl ihr =>
      intro b s lo hi fin ss live sv h hf hk hHI
      have hlt := I1_zs_lt _ _ _ _ _ _ _ _ _ h
      obtain ⟨k1, k2, k3⟩ := I1_lsK _ _ _ _ _ _ _ _ _ h hf
      simp only [I1] at h
      obtain ⟨h1, h2, h3, h4, h5, h6, h7, h8, h9, h10, h11, h12, h13, h14, h15, h16, h17, hz⟩ := h
      have hp : nd.ph ≠ .p1 := by simpa [fin1] using hf
      obtain ⟨a1, a2, a3, a4⟩ := h15 hp
      have hkp : nd.ph = .kept := by
        rcases h12 with h' | h' | h'
        · exact absurd h' hp
        · exact h'
        · simp [isKept, h'] at hk
      cases hzz : nd.z with
      | none => rw [hzz] at a3; simp [hkp] at a3
      | some z =>
          rw [hzz] at hz
          simp only at hz
          obtain ⟨z1, z2, z3, zl, zr, z6⟩ := hz
          have hrl := I1_fin1_rmDone _ _ _ _ _ _ _ _ _ zl a1
          have hls : nd.ls = some (ex l) := by rw [h13, if_pos hrl]
          have hm : mid lo hi ≤ hi := by unfold mid; omega
          simp only [I2, hls, hkp]
          refine ⟨h1, h2, h3, h9, hHI, fun hf' => (h8 hf').1, ?_, ?_, ?_, fun hk' => ⟨I1_dead zl a1 hk', ?_⟩, fun hk' => ⟨I1_dead zr a2 hk', I1_nofin _ _ _ _ _ _ _ _ zr⟩,
            k2, ?_, ?_, I1_post _ _ _ _ _ _ _ _ zl a1 rfl, h10, h11,
            fun hk' => ihl _ _ _ _ _ _ _ _ zl a1 hk' (Nat.le_trans hm hHI), fun hk' => ihr _ _ _ _ _ _ _ _ zr a2 hk' hHI⟩
          · intro hl; rw [a4] at hl; simp at hl; exact hl.1
          · intro hf' hl; rw [a4, hf'] at hl; simpa using hl
          · intro hl
            rw [a4] at hl; simp at hl
            obtain ⟨hfin, hkl⟩ := hl
            subst hfin
            exact ⟨hkl, I1_cov zl a1 hkl⟩
          · intro hl
            rw [a4, hk'] at hl
            simp at hl
            subst hl
            exact I1_nofin _ _ _ _ _ _ _ _ zl
          · intro x hx
            rcases k1 x hx with h' | h'
            · rw [h']; exact ⟨h6, h7⟩
            · have := hlt x h'
              exact ⟨this.2, by omega⟩
          · intro hf' hl he
            have hb1 := (h8 hf').2
            have hkl : isKept l = true := by rw [a4, hf'] at hl; simpa using hl
            have := (I1_quiet _ _ _ _ _ _ _ _ zl hrl (by rw [he, hb1])).1
            rw [Quiet_not_kept this] at hkl
            cases hkl

theorem leafOK_frame {c c' : Ctx} {L b lo hi : Nat} {stuff : Bool} {l : L2} (hv : c'.val b = c.val b)
    (h : leafOK c L b lo hi stuff l) : leafOK c' L b lo hi stuff l := by
  cases l <;> simp_all [leafOK]

end TbbVerif.C06.SP
