/-
C06 — parallel_scan task protocol: the invariant of `start_scan::run` over both passes, for every schedule.
-/
import TbbVerif.Proofs.C06.SP2Run

namespace TbbVerif.C06.SP
open Scan (Ctx Ev mid finals finalScan_val preScan_val rjoin_val alloc_val assign_val)

local macro "tt" : term => `(by trivial)

/-- when pass 2 is complete every element has had its final scan: the accounted final scans tile `[lo,hi)` in order -/
theorem I2_cov {c : Ctx} {L HI g : Nat} (hg : 1 ≤ g) : ∀ (t : T) (lo hi : Nat) (fm : Bool) (b : Nat) (i : Option Nat) (s : Bool),
    I2 c L HI g t lo hi fm (.act b i s) → phGone t = true → Scan.chain L lo (finCov L t) hi := by
  intro t
  induction t with
  | task => intro lo hi fm b i s h; simp [I2] at h
  | node nd l r ihl ihr =>
      intro lo hi fm b i s h hgone
      obtain ⟨nlo, nhi, nref, nz, nss, nls, nlif, nph, nll, nrl⟩ := nd
      have hp : nph = .gone := by simpa [phGone] using hgone
      subst hp
      cases nls with
      | none => simp [I2] at h
      | some y =>
          simp only [I2] at h
          obtain ⟨h1, h2, h3, h4, h5, h6, h7, h8, h9, d1, d2, n1, n2, y1, ⟨k, hk, hk2⟩, c1, c2, c3, c4, c5, c6, rp, lp, u1⟩ := h
          subst h1 h2
          obtain ⟨m1, m2⟩ := mid_lt hg h3
          have hk0 : k = 0 := by
            rcases hk with hk | ⟨_, hk⟩
            · cases hk
            · exact hk
          subst hk0
          obtain ⟨hrd, hld⟩ := b2n_sum_zero hk2
          simp only [finCov]
          refine Scan.chain_append L _ _ _ (mid nlo nhi) _ ?_ ?_
          · -- left half
            cases hlif : nlif with
            | true =>
                rw [hlif] at lp
                simp only [if_true] at lp
                subst lp
                simp only [leafCov, List.append_nil]
                exact (h9 hlif).2
            | false =>
                rw [hlif] at lp
                simp only [Bool.false_eq_true, if_false] at lp
                simp only [leftDone, hlif, Bool.false_or] at hld
                cases hkl : isKept l with
                | true =>
                    rw [if_pos hkl] at lp hld
                    obtain ⟨e1, e2⟩ := lp
                    subst e1
                    simp only [leafCov, List.append_nil]
                    exact ihl _ _ _ _ _ _ e2 hld
                | false =>
                    rw [if_neg (by simp [hkl])] at lp hld
                    have hgl : nll = .gone := by simpa using hld
                    subst hgl
                    rw [(d1 hkl).2 hlif]
                    simp [leafCov, Scan.chain, m1]
          · -- right half
            simp only [rightDone] at hrd
            cases hkr : isKept r with
            | true =>
                rw [if_pos hkr] at rp hrd
                obtain ⟨e1, e2⟩ := rp
                subst e1
                simp only [leafCov, List.append_nil]
                exact ihr _ _ _ _ _ _ e2 hrd
            | false =>
                rw [if_neg (by simp [hkr])] at hrd
                have hgr : nrl = .gone := by simpa using hrd
                subst hgr
                rw [(d2 hkr).2]
                simp [leafCov, Scan.chain, m2]

/-- a completed final-mode subtree without a kept sum_node did all its final scans on its entry body -/
theorem I1_post_fin {c : Ctx} {L g : Nat} {t : T} {b s lo hi : Nat} {ss : Bool} {sv : Option BodyId}
    (h : I1 c L g t b s lo hi true ss true sv) (hf : fin1 t = true) (hk : isKept t = false) : c.val b = rng s hi := by
  cases t with
  | task lo' hi' b' fin' ss' pc =>
      simp only [I1] at h
      obtain ⟨_, _, _, _, _, _, _, _, _, _, _, _, h13⟩ := h
      have : pc = .finished := by simpa [fin1] using hf
      subst this
      simpa [taskVal] using h13
  | node nd l r =>
      simp only [I1] at h
      obtain ⟨h1, h2, h3, h4, h5, h6, h7, h8, h9, h10, h11, h12, h13, h14, h15, h16, h17, hz⟩ := h
      have hp : nd.ph ≠ .p1 := by simpa [fin1] using hf
      have hd : nd.ph = .dropped := by
        rcases h12 with h' | h' | h'
        · exact absurd h' hp
        · simp [isKept, h'] at hk
        · exact h'
      obtain ⟨a1, a2, a3, a4⟩ := h15 hp
      have hzn : nd.z = none := by
        cases hzz : nd.z with
        | none => rfl
        | some z => rw [hzz] at a3; simp [hd] at a3
      rw [hzn] at hz
      simp only at hz
      have hst := started_of_fin1_task hz.1 a2
      rw [if_pos hst] at hz
      obtain ⟨k1, k2, k3, k4⟩ := hz
      cases r with
      | node => simp [isTask] at k1
      | task lo' hi' b' fin' ss' pc =>
          simp only [I1] at k4
          obtain ⟨_, _, _, _, _, _, _, _, _, _, _, _, r13⟩ := k4
          have : pc = .finished := by simpa [fin1] using a2
          subst this
          rw [h4]
          simpa [taskVal] using r13

/-- the invariant of the whole `start_scan::run(range [L,HI), body)` -/
def GI (g L HI : Nat) (s : St) : Prop :=
  s.c.err = false ∧
  ((s.phase = 1 ∧ I1 s.c L g s.tree 1 L L HI true false true none ∧ s.wait = b2n (!fin1 s.tree) ∧
      (finals s.c.log).Perm (finCov L s.tree) ∧ s.c.val 0 = [] ∧ 0 < s.c.heap.length) ∨
   (s.phase = 2 ∧ I2 s.c L HI g s.tree L HI true (.act 1 none true) ∧ s.wait = b2n (!phGone s.tree) ∧
      (finals s.c.log).Perm (finCov L s.tree)) ∨
   (s.phase = 3 ∧ s.c.val 0 = rng L HI ∧ ∃ fs, (finals s.c.log).Perm fs ∧ Scan.chain L L fs HI))

theorem GI_init (g L HI : Nat) (hle : L ≤ HI) : GI g L HI (init L HI) := by
  unfold init
  by_cases hlt : L < HI
  · rw [if_pos hlt]
    refine ⟨by simp, Or.inl ⟨rfl, ?_, by simp [fin1, b2n], by simp [Ctx.alloc, Ctx.rjoin, Ctx.setVal, finals, finCov], ?_, by simp⟩⟩
    · simp only [I1]
      refine ⟨tt, tt, hlt, tt, tt, tt, by simp, by simp, by simp, Nat.le_refl _, Nat.le_refl _, by simp, ?_⟩
      simp only [taskVal]
      refine ⟨?_, tt⟩
      rw [rjoin_val, if_pos ⟨rfl, by simp⟩, alloc_val, alloc_val]
      simp [rng_self, Ctx.val]
    · rw [rjoin_val, if_neg (by simp), alloc_val]
      simp [Ctx.val]
  · rw [if_neg hlt]
    have : L = HI := by omega
    subst this
    exact ⟨rfl, Or.inr (Or.inr ⟨rfl, by simp [Ctx.val, rng_self], ⟨[], by simp [finals], by simp [Scan.chain]⟩⟩)⟩

theorem finals_append' (l1 l2 : List Ev) : finals (l1 ++ l2) = finals l1 ++ finals l2 := by simp [finals]

theorem GI_step (g L HI : Nat) (hg : 1 ≤ g) (s : St) (pa : List Bool × Act) (h : GI g L HI s) : GI g L HI (step g s pa) := by
  obtain ⟨herr, hph⟩ := h
  obtain ⟨p, a⟩ := pa
  have perm_upd : ∀ {evs : List Ev} {A A' : List (Nat × Nat × List Nat)} {log : List Ev},
      (finals log).Perm A → (finals evs ++ A).Perm A' → (finals (log ++ evs)).Perm A' := by
    intro evs A A' log h1 h2
    rw [finals_append']
    exact (List.perm_append_comm.trans (List.Perm.append_left _ h1)).trans h2
  by_cases hat : a = .top
  · subst hat
    simp only [step]
    rcases hph with ⟨p1, i1, w1, l1, v0, hl0⟩ | ⟨p2, i2, w2, l2⟩ | ⟨p3, v3, c3⟩
    · -- between the passes
      by_cases hw : s.wait = 0
      · have hf : fin1 s.tree = true := by
          rw [hw] at w1
          cases hh : fin1 s.tree with
          | true => rfl
          | false => rw [hh] at w1; simp [b2n] at w1
        rw [if_pos ⟨hw, p1⟩]
        cases hk : isKept s.tree with
        | true =>
            simp only [if_true]
            refine ⟨herr, Or.inr (Or.inl ⟨rfl, ?_, by simp [phGone_setPrep hk, b2n], by simpa [finCov_setPrep] using l1⟩)⟩
            have hI2 := I1_to_I2 (HI := HI) _ _ _ _ _ _ _ _ _ i1 hf hk (Nat.le_refl _)
            have hlen : 1 < s.c.heap.length := by
              cases ht : s.tree with
              | task lo hi b fin ss pc => rw [ht] at i1; simp only [I1] at i1; exact i1.2.2.2.2.2.2.1
              | node nd l r => rw [ht] at i1; simp only [I1] at i1; exact i1.2.2.2.2.2.1
            exact I2_prep hI2 (by simp) (by simp) (by simp) hlen (by simp) (by simp)
        | false =>
            simp only [Bool.false_eq_true, if_false]
            have hv1 := I1_post_fin i1 hf hk
            have hcov := I1_cov i1 hf hk
            refine ⟨by simp [herr], Or.inr (Or.inr ⟨rfl, ?_, ⟨finCov L s.tree, by simpa [finals_append', finals] using l1, hcov⟩⟩)⟩
            rw [assign_val, if_pos ⟨rfl, hl0⟩, hv1]
      · rw [if_neg (fun hh => hw hh.1), if_neg (fun hh => hw hh.1)]
        exact ⟨herr, Or.inl ⟨p1, i1, w1, l1, v0, hl0⟩⟩
    · by_cases hw : s.wait = 0
      · have hgone : phGone s.tree = true := by
          rw [hw] at w2
          cases hh : phGone s.tree with
          | true => rfl
          | false => rw [hh] at w2; simp [b2n] at w2
        rw [if_neg (fun hh => by rw [p2] at hh; cases hh.2), if_pos ⟨hw, p2⟩]
        exact ⟨herr, Or.inr (Or.inr ⟨rfl, I2_gone_user i2 hgone rfl, ⟨finCov L s.tree, l2, I2_cov hg _ _ _ _ _ _ _ i2 hgone⟩⟩)⟩
      · rw [if_neg (fun hh => hw hh.1), if_neg (fun hh => hw hh.1)]
        exact ⟨herr, Or.inr (Or.inl ⟨p2, i2, w2, l2⟩)⟩
    · rw [if_neg (fun hh => by rw [p3] at hh; cases hh.2), if_neg (fun hh => by rw [p3] at hh; cases hh.2)]
      exact ⟨herr, Or.inr (Or.inr ⟨p3, v3, c3⟩)⟩
  · have hstep : step g s (p, a) = if s.phase = 3 then s else
        { s with c := (stepAt g s.c none p a s.tree).c, tree := (stepAt g s.c none p a s.tree).t,
                 wait := decRef s.wait ((stepAt g s.c none p a s.tree).dec || (stepAt g s.c none p a s.tree).dec2) } := by
      cases a <;> first | exact absurd rfl hat | rfl
    rw [hstep]
    rcases hph with ⟨p1, i1, w1, l1, v0, hl0⟩ | ⟨p2, i2, w2, l2⟩ | ⟨p3, v3, c3⟩
    · rw [if_neg (by rw [p1]; simp)]
      have st := S1_step hg a s.tree p _ _ _ _ _ _ _ _ i1
      generalize stepAt g s.c none p a s.tree = res at st
      obtain ⟨rc, rt, rdec, rsw, rdec2, rok⟩ := res
      obtain ⟨j1, j2, j3, j4, j5, j6, j7, j8, j9, j10, j11, j12, j13⟩ := st
      simp only at j1 j2 j3 j4 j5 j6 j7 j8 j9 j10 j11 j12 j13
      have hsw : rsw = none := by rw [j6]; simp
      subst hsw j11
      obtain ⟨evs, e1, e2⟩ := j13
      refine ⟨by rw [j12]; exact herr, Or.inl ⟨p1, by simpa using j1, ?_, ?_, ?_, Nat.lt_of_lt_of_le hl0 j2⟩⟩
      · simp only [Bool.or_false]
        rw [j5, w1]
        cases hf0 : fin1 s.tree with
        | false => cases fin1 rt <;> simp [decRef, b2n]
        | true => have := j8 hf0; rw [this.1, hf0]; simp [decRef, b2n]
      · simp only
        rw [e1]
        exact perm_upd l1 e2
      · simp only
        rw [j3 0 (by simp) ?_ hl0]; exact v0
        intro hm
        have := (I1_zs_lt _ _ _ _ _ _ _ _ _ i1 0 hm).1
        omega
    · rw [if_neg (by rw [p2]; simp)]
      have st := S2_step hg a s.tree p none _ _ _ _ _ _ i2
      generalize stepAt g s.c none p a s.tree = res at st
      obtain ⟨rc, rt, rdec, rsw, rdec2, rok⟩ := res
      obtain ⟨j1, j2, j3, j4, j5, j6, j7, j8, j9, j10, j11⟩ := st
      simp only at j1 j2 j3 j4 j5 j6 j7 j8 j9 j10 j11
      subst j8 j9
      obtain ⟨evs, e1, e2⟩ := j11
      refine ⟨by rw [j10]; exact herr, Or.inr (Or.inl ⟨p2, j1, ?_, ?_⟩)⟩
      · simp only [Bool.false_or]
        rw [j6, w2]
        cases hg1 : phGone s.tree with
        | false => cases phGone rt <;> simp [decRef, b2n]
        | true => rw [j7 hg1]; simp [decRef, b2n]
      · simp only
        rw [e1]
        exact perm_upd l2 e2
    · rw [if_pos p3]
      exact ⟨herr, Or.inr (Or.inr ⟨p3, v3, c3⟩)⟩

theorem GI_run (g L HI : Nat) (hg : 1 ≤ g) (hle : L ≤ HI) (sched : List (List Bool × Act)) : GI g L HI (run g L HI sched) := by
  unfold run
  have : ∀ (s : St), GI g L HI s → GI g L HI (sched.foldl (step g) s) := by
    induction sched with
    | nil => intro s h; exact h
    | cons pa rest ih => intro s h; exact ih _ (GI_step g L HI hg s pa h)
  exact this _ (GI_init g L HI hle)

theorem leafCov_prefix (L lo hi : Nat) (l : L2) : ∀ f, f ∈ leafCov L lo hi l → f.2.2 = rng L f.1 := by
  intro f hf
  cases l <;> simp [leafCov] at hf <;> subst hf <;> rfl

theorem finCov_prefix (L : Nat) : ∀ (t : T) (f : Nat × Nat × List Nat), f ∈ finCov L t → f.2.2 = rng L f.1 := by
  intro t
  induction t with
  | task lo hi b fin ss pc =>
      intro f hf
      simp only [finCov] at hf
      split at hf
      · simp only [List.mem_singleton] at hf; subst hf; rfl
      · cases hf
  | node nd l r ihl ihr =>
      intro f hf
      simp only [finCov, List.mem_append] at hf
      rcases hf with (hf | hf) | (hf | hf)
      · exact ihl f hf
      · exact leafCov_prefix _ _ _ _ f hf
      · exact ihr f hf
      · exact leafCov_prefix _ _ _ _ f hf

theorem chain_prefix (L : Nat) : ∀ (fs : List (Nat × Nat × List Nat)) (a h : Nat), Scan.chain L a fs h →
    ∀ f, f ∈ fs → f.2.2 = rng L f.1 := by
  intro fs
  induction fs with
  | nil => intro a h _ f hf; cases hf
  | cons g fs ih =>
      intro a h hc f hf
      obtain ⟨x, y, inc⟩ := g
      simp only [Scan.chain] at hc
      obtain ⟨e1, e2, e3, e4⟩ := hc
      simp only [List.mem_cons] at hf
      rcases hf with hf | hf
      · subst hf; simp [e3, e1]
      · exact ih y h e4 f hf

/-- at every moment every final scan performed so far started from the in-order reduction of everything to its left -/
theorem GI_prefix {g L HI : Nat} {s : St} (h : GI g L HI s) : ∀ f, f ∈ finals s.c.log → f.2.2 = rng L f.1 := by
  intro f hf
  obtain ⟨_, hph⟩ := h
  rcases hph with ⟨_, _, _, l1, _, _⟩ | ⟨_, _, _, l2⟩ | ⟨_, _, fs, hp, hc⟩
  · exact finCov_prefix L _ f (l1.mem_iff.mp hf)
  · exact finCov_prefix L _ f (l2.mem_iff.mp hf)
  · exact chain_prefix L fs _ _ hc f (hp.mem_iff.mp hf)

end TbbVerif.C06.SP
