/-
C06 — parallel_scan task protocol: every step of pass 1 preserves `I1` (part 2: quiet subtrees, finish_scan::execute).
-/
import TbbVerif.Proofs.C06.SPStep1

namespace TbbVerif.C06.SP
open Scan (Ctx Ev mid finals finalScan_val preScan_val rjoin_val alloc_val assign_val)

local macro "tt" : term => `(by trivial)

theorem b2n_sum_zero {x y : Bool} (h : 0 = b2n (!x) + b2n (!y)) : x = true ∧ y = true := by
  cases x <;> cases y <;> simp [b2n] at h ⊢

theorem isKept_task {t : T} (h : isTask t = true) : isKept t = false := by
  cases t with
  | task => rfl
  | node => simp [isTask] at h

theorem stepTask_spawned_true (g : Nat) (c : Ctx) (a : Act) (lo hi b : Nat) (fin ss : Bool) :
    stepTask g c a lo hi b fin ss (.spawned true) = noop c (.task lo hi b fin ss (.spawned true)) := by
  cases a <;> rfl

theorem stepTask_finished (g : Nat) (c : Ctx) (a : Act) (lo hi b : Nat) (fin ss : Bool) :
    stepTask g c a lo hi b fin ss .finished = noop c (.task lo hi b fin ss .finished) := by
  cases a <;> rfl

theorem startRight_some {p : List Bool} {a : Act} {r : T} {st : Bool} {lo hi b : Nat} {fin ss : Bool}
    (h : startRight p a r = some (st, lo, hi, b, fin, ss)) :
    p = [] ∧ a = .start st ∧ r = .task lo hi b fin ss (.spawned true) := by
  unfold startRight at h
  split at h
  · simp only [Option.some.injEq, Prod.mk.injEq] at h
    obtain ⟨rfl, rfl, rfl, rfl, rfl, rfl⟩ := h
    exact ⟨rfl, rfl, rfl⟩
  · cases h

theorem stepNode_noop {c : Ctx} {sv : Option BodyId} {a : Act} {nd : Nd} {l r : T}
    (hp : nd.ph = .p1 ∨ nd.ph = .kept ∨ nd.ph = .dropped) (ha : a ≠ .fexec) :
    stepNode c sv a nd l r = noop c (.node nd l r) := by
  cases a with
  | fexec => exact absurd rfl ha
  | exec2 => rcases hp with hp | hp | hp <;> simp [stepNode, hp]
  | lfin right => rcases hp with hp | hp | hp <;> simp [stepNode, hp]
  | lend right => rcases hp with hp | hp | hp <;> simp [stepNode, hp]
  | exec2b => rcases hp with hp | hp | hp <;> simp [stepNode, hp]
  | _ => rfl

/-! ### steps inside a quiet subtree change nothing but phases -/

structure SQ (c : Ctx) (g b : Nat) (fin : Bool) (t : T) (lo hi : Nat) (res : Res) : Prop where
  c_eq : res.c = c
  q : Quiet g b fin res.t lo hi
  dec : res.dec = (fin1 res.t && !fin1 t)
  sw : res.sw = none
  dec2 : res.dec2 = false
  done : fin1 t = true → res.t = t
  cov : ∀ L, finCov L res.t = finCov L t

theorem SQ_noop {c : Ctx} {g b : Nat} {fin : Bool} {t : T} {lo hi : Nat} (h : Quiet g b fin t lo hi) :
    SQ c g b fin t lo hi (noop c t) :=
  ⟨rfl, h, by simp [noop], rfl, rfl, fun _ => rfl, fun _ => rfl⟩

theorem ref_upd {ref k : Nat} {f f' dec : Bool} (h : ref = b2n (!f) + k) (hd : dec = (f' && !f)) (hm : f = true → f' = true) :
    decRef ref dec = b2n (!f') + k := by
  cases f <;> cases f' <;> simp_all [decRef, b2n]

theorem ref_upd_r {ref k : Nat} {f f' dec : Bool} (h : ref = k + b2n (!f)) (hd : dec = (f' && !f)) (hm : f = true → f' = true) :
    decRef ref dec = k + b2n (!f') := by
  cases f <;> cases f' <;> simp_all [decRef, b2n]

theorem nd_upd_id (nd : Nd) : ({ nd with ls := nd.ls, ref := nd.ref, ph := nd.ph } : Nd) = nd := rfl
theorem nd_upd_id' (nd : Nd) : ({ nd with ref := nd.ref, ph := nd.ph } : Nd) = nd := rfl

theorem SQ_step {c : Ctx} {g b : Nat} {fin : Bool} (a : Act) : ∀ (t : T) (p : List Bool) (sv : Option BodyId) (lo hi : Nat),
    Quiet g b fin t lo hi → SQ c g b fin t lo hi (stepAt g c sv p a t) := by
  intro t
  induction t with
  | task lo' hi' b' fin' ss' pc =>
      intro p sv lo hi h
      have h' := h
      simp only [Quiet] at h'
      obtain ⟨_, _, _, _, _, hpc⟩ := h'
      subst hpc
      cases p with
      | nil => simp only [stepAt, stepTask_finished]; exact SQ_noop h
      | cons x p => simp only [stepAt]; exact SQ_noop h
  | node nd l r ihl ihr =>
      intro p sv lo hi h
      have h' := h
      simp only [Quiet] at h'
      obtain ⟨q1, q2, q3, q4, q5, q6, q7, q8, q9, q10, q11, q12⟩ := h'
      cases p with
      | nil =>
          simp only [stepAt]
          by_cases ha : a = .fexec
          · subst ha
            simp only [stepNode]
            by_cases hc : nd.ph = .p1 ∧ nd.ref = 0
            · rw [if_pos hc]
              have hff := b2n_sum_zero (hc.2 ▸ q11)
              simp only [gen_fjoin, gen_keeps, q4, Option.isSome_none, Bool.false_and, Bool.false_eq_true, if_false,
                isKept_task q8, Bool.or_self]
              refine ⟨rfl, ?_, by simp [fin1, hc.1], rfl, rfl, fun hf => by simp [fin1, hc.1] at hf, fun _ => rfl⟩
              simp only [Quiet]
              exact ⟨q1, q2, q3, tt, tt, q6, q7, q8, q9, q10, q11, fun _ => hff⟩
            · rw [if_neg hc]; exact SQ_noop h
          · rw [stepNode_noop (by rcases q5 with q5 | q5 <;> simp [q5]) ha]; exact SQ_noop h
      | cons x p =>
          cases x with
          | false =>
              simp only [stepAt]
              have ih := ihl p nd.ls lo (mid lo hi) q9
              have hm : fin1 l = true → fin1 (stepAt g c nd.ls p a l).t = true := fun hf => by rw [ih.done hf]; exact hf
              rw [ih.sw, ih.dec2, decPh_false]
              refine ⟨ih.c_eq, ?_, by simp [fin1], rfl, rfl, ?_, ?_⟩
              · simp only [Quiet]
                exact ⟨q1, q2, q3, q4, q5, q6, q7, q8, ih.q, q10, ref_upd q11 ih.dec hm, fun hp => ⟨hm (q12 hp).1, (q12 hp).2⟩⟩
              · intro hf
                have hpn : nd.ph ≠ .p1 := by simpa [fin1] using hf
                rcases q5 with q5 | q5
                · exact absurd q5 hpn
                · have hl := (q12 q5).1
                  have hd : (stepAt g c nd.ls p a l).dec = false := by rw [ih.dec, ih.done hl]; simp
                  simp only [Option.isSome_none, Bool.false_eq_true, if_false, hd, decRef_false, ih.done hl]
              · intro L; simp only [finCov, ih.cov L]
          | true =>
              have hr : fin1 r = true := by
                cases r with
                | task lo' hi' b' fin' ss' pc => simp only [Quiet] at q10; simp [fin1, q10.2.2.2.2.2]
                | node => simp [isTask] at q8
              have hsr : startRight p a r = none := by
                cases hs : startRight p a r with
                | none => rfl
                | some v =>
                    obtain ⟨st, lo1, hi1, b1, f1, s1⟩ := v
                    have := (startRight_some hs).2.2
                    rw [this] at hr
                    simp [fin1] at hr
              simp only [stepAt, hsr]
              have ih := ihr p sv (mid lo hi) hi q10
              have hd : (stepAt g c sv p a r).dec = false := by rw [ih.dec, ih.done hr]; simp
              rw [ih.dec2, decPh_false, hd, decRef_false, ih.done hr]
              exact ⟨ih.c_eq, h, by simp, ih.sw, rfl, fun _ => rfl, fun _ => rfl⟩

end TbbVerif.C06.SP
