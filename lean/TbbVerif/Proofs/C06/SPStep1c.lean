/-
C06 — parallel_scan task protocol: every step of pass 1 preserves `I1` (part 3: finish_scan::execute and the induction).
-/
import TbbVerif.Proofs.C06.SPStep1b

namespace TbbVerif.C06.SP
open Scan (Ctx Ev mid finals finalScan_val preScan_val rjoin_val alloc_val assign_val)

local macro "tt" : term => `(by trivial)

theorem ex_sep {c : Ctx} {L g : Nat} {l r : T} {b z s lo hi : Nat} {fin ss live : Bool} {sv : Option BodyId}
    (hnd : (z :: (zs l ++ zs r)).Nodup) (hbz : b < z) (hr : I1 c L g r z s lo hi fin ss live sv)
    {x : Nat} (hx : x = b ∨ x ∈ zs l) : x ≠ ex r := by
  rcases hx with hx | hx
  · subst hx; exact ex_ne_of_lt hr hbz
  · intro he
    rcases I1_ex_mem _ _ _ _ _ _ _ _ _ hr with hm | hm
    · have h1 := (List.nodup_cons.mp hnd).1
      exact h1 (List.mem_append_left _ (by rw [← hm, ← he]; exact hx))
    · rw [← he] at hm
      have := (List.nodup_cons.mp hnd).2
      exact (List.nodup_append.mp this).2.2 x hx x hm rfl

theorem ex_lt_len {c : Ctx} {L g : Nat} {t : T} {b s lo hi : Nat} {fin ss live : Bool} {sv : Option BodyId}
    (h : I1 c L g t b s lo hi fin ss live sv) (hb : b < c.heap.length) : ex t < c.heap.length := by
  rcases I1_ex_mem _ _ _ _ _ _ _ _ _ h with hm | hm
  · rw [hm]; exact hb
  · exact (I1_zs_lt _ _ _ _ _ _ _ _ _ h _ hm).2

/-- finish_scan::execute -/
theorem S1_fexec {c : Ctx} {L g : Nat} (hg : 1 ≤ g) {nd : Nd} {l r : T} {b s lo hi : Nat} {fin ss live : Bool} {sv : Option BodyId}
    (h : I1 c L g (.node nd l r) b s lo hi fin ss live sv) (hc : nd.ph = .p1 ∧ nd.ref = 0) :
    S1 c L g (.node nd l r) b s lo hi fin ss live sv (stepNode c sv .fexec nd l r) := by
  have hlt := I1_zs_lt _ _ _ _ _ _ _ _ _ h
  obtain ⟨nlo, nhi, nref, nz, nss, nls, nlif, nph, nll, nrl⟩ := nd
  simp only at hc
  obtain ⟨hc1, hc2⟩ := hc
  subst hc1 hc2
  simp only [I1] at h
  obtain ⟨h1, h2, h3, h4, h5, h6, h7, h8, h9, h10, h11, h12, h13, h14, h15, h16, h17, hz⟩ := h
  subst h1 h2 h5 h10 h11
  have hff := b2n_sum_zero h14
  have hlif : nlif = fin := h16 trivial
  subst hlif
  obtain ⟨m1, m2⟩ := mid_lt hg h3
  simp only [stepNode, gen_fjoin, gen_frecv, gen_reset, gen_keeps, if_true, and_self]
  cases nz with
  | none =>
      simp only at hz
      have hst := started_of_fin1_task hz.1 hff.2
      rw [if_pos hst] at hz
      obtain ⟨k1, k2, k3, k4⟩ := hz
      simp only [Option.isSome_none, Bool.false_and, Bool.false_eq_true, if_false, Quiet_not_kept k2, isKept_task k1, Bool.or_self]
      refine ⟨?_, Nat.le_refl _, fun _ _ _ _ => rfl, fun x hx => Or.inl (by simpa [zs] using hx), by simp [fin1], by simp [rmDone],
        fun hr => ⟨by simpa [rmDone] using hr, by simp [ex]⟩, fun hf => by simp [fin1] at hf, fun _ => rfl, fun hf => by simp [leafOnly] at hf,
        rfl, rfl, ⟨[], by simp, by simp [finCov]⟩⟩
      simp only [I1, Option.isSome_none, Bool.false_eq_true, if_false]
      refine ⟨tt, tt, h3, h4, tt, h6, h7, h8, h9, tt, tt, tt, h13, h14, ?_, by simp, by simpa [zs] using h17, ?_⟩
      · intro _
        exact ⟨hff.1, hff.2, by simp, by rw [Quiet_not_kept k2]; simp⟩
      · rw [if_pos hst]
        exact ⟨k1, k2, k3, k4⟩
  | some z =>
      simp only at hz
      obtain ⟨z1, z2, z3, z4, z5, z6⟩ := hz
      simp only [decide_true] at z5
      have hnd : (z :: (zs l ++ zs r)).Nodup := by simpa [zs] using h17
      have hrl := I1_fin1_rmDone _ _ _ _ _ _ _ _ _ z4 hff.1
      have hrr := I1_fin1_rmDone _ _ _ _ _ _ _ _ _ z5 hff.2
      rw [if_pos hrl] at h13
      subst h13
      have hexr : ex r ∈ zs (T.node ⟨nlo, nhi, 0, some z, nss, some (ex l), nlif, .p1, .none, .none⟩ l r) := by
        rcases I1_ex_mem _ _ _ _ _ _ _ _ _ z5 with hm | hm
        · simp [zs, hm]
        · simp [zs, hm]
      have hlifeq : (if isKept l = true then false else nlif) = (nlif && !isKept l) := by
        cases isKept l <;> simp
      simp only [Option.isSome_some, Bool.true_and, Bool.true_or, if_true]
      have common : ∀ c1 : Ctx, c.heap.length = c1.heap.length → c1.err = c.err →
          (∀ x : Nat, x ≠ ex r → c1.val x = c.val x) →
          (nss = true → c1.val (ex r) = rng nlo nhi) → (∃ evs, c1.log = c.log ++ evs ∧ finals evs = []) →
          S1 c L g (.node ⟨nlo, nhi, 0, some z, nss, some (ex l), nlif, .p1, .none, .none⟩ l r) b s nlo nhi nlif nss live sv
            { c := c1, t := .node ⟨nlo, nhi, 0, some z, nss, some (ex l), if isKept l = true then false else nlif, .kept, .none, .none⟩ l r,
              dec := true } := by
        intro c1 hl1 he1 hf1 hp1 hlog
        refine ⟨?_, Nat.le_of_eq hl1, fun x hx1 hx2 _ => hf1 x (fun he => hx2 (he ▸ hexr)), fun x hx => Or.inl (by simpa [zs] using hx),
          by simp [fin1], by simp [rmDone], fun hr => ⟨by simpa [rmDone] using hr, by simp [ex]⟩, fun hf => by simp [fin1] at hf,
          fun _ => rfl, fun hf => by simp [leafOnly] at hf, rfl, he1, ?_⟩
        · simp only [I1, Option.isSome_none, Bool.false_eq_true, if_false]
          refine ⟨tt, tt, h3, h4, tt, hl1 ▸ h6, h7, h8, h9, tt, tt, tt, by simp [hrl], h14, ?_, by simp, by simpa [zs] using h17, ?_⟩
          · intro _
            exact ⟨hff.1, hff.2, by simp, hlifeq⟩
          · refine ⟨z1, hl1 ▸ z2, z3, ?_, ?_, fun _ _ hs => hp1 hs⟩
            · exact I1_frame (Nat.le_of_eq hl1) _ _ _ _ _ _ _ _ _ (fun x hx => hf1 x (ex_sep hnd z1 z5 hx)) z4
            · have : decide (Ph.kept = Ph.p1) = false := by simp
              rw [this]
              exact I1_frame_dead (Nat.le_of_eq hl1) _ _ _ _ _ _ _ _ hff.2 (fun x _ hne => hf1 x hne) (I1_weaken _ _ _ _ _ _ _ _ _ z5)
        · obtain ⟨evs, e1, e2⟩ := hlog
          exact ⟨evs, e1, by simp [e2, finCov]⟩
      cases nss with
      | false =>
          simp only [Bool.false_eq_true, if_false]
          exact common c rfl rfl (fun _ _ => rfl) (fun hs => by cases hs) ⟨[], by simp, rfl⟩
      | true =>
          have hsv : sv = some (ex r) := by rw [I1_sv _ _ _ _ _ _ _ _ _ z5 rfl, if_pos hrr]
          have vl := I1_post _ _ _ _ _ _ _ _ z4 hff.1 rfl
          have vr := I1_post _ _ _ _ _ _ _ _ z5 hff.2 rfl
          have hxl : ex r < c.heap.length := ex_lt_len z5 z2
          subst hsv
          simp only [if_true]
          refine common (c.rjoin (ex r) (ex l)) (by simp) (by simp) ?_ ?_ ⟨[.rjoin (ex r) (ex l)], by simp, rfl⟩
          · intro x hx
            rw [rjoin_val, if_neg (fun h => hx h.1)]
          · intro _
            rw [rjoin_val, if_pos ⟨rfl, hxl⟩, vl, vr, rng_split _ _ _ (Nat.le_of_lt m1) (Nat.le_of_lt m2)]

/-! ### helpers for the induction -/

theorem nodup_upd_l {zl zl' zr : List Nat} {n : Nat} (h : (zl ++ zr).Nodup) (h1 : zl'.Nodup)
    (h2 : ∀ x, x ∈ zl' → x ∈ zl ∨ n ≤ x) (h3 : ∀ x, x ∈ zr → x < n) : (zl' ++ zr).Nodup := by
  obtain ⟨_, b, c⟩ := List.nodup_append.mp h
  refine List.nodup_append.mpr ⟨h1, b, ?_⟩
  intro x hx y hy he
  subst he
  rcases h2 x hx with h4 | h4
  · exact c x h4 x hy rfl
  · have := h3 x hy; omega

theorem nodup_upd_r {zl zr zr' : List Nat} {n : Nat} (h : (zl ++ zr).Nodup) (h1 : zr'.Nodup)
    (h2 : ∀ x, x ∈ zr' → x ∈ zr ∨ n ≤ x) (h3 : ∀ x, x ∈ zl → x < n) : (zl ++ zr').Nodup := by
  obtain ⟨a, _, c⟩ := List.nodup_append.mp h
  refine List.nodup_append.mpr ⟨a, h1, ?_⟩
  intro x hx y hy he
  subst he
  rcases h2 x hy with h4 | h4
  · exact c x hx x h4 rfl
  · have := h3 x hx; omega

theorem perm_left {α : Type} {e A A' X R : List α} (h : (e ++ A).Perm A') : (e ++ ((A ++ X) ++ R)).Perm ((A' ++ X) ++ R) := by
  have : e ++ ((A ++ X) ++ R) = ((e ++ A) ++ X) ++ R := by simp [List.append_assoc]
  rw [this]
  exact (h.append_right X).append_right R

theorem perm_right {α : Type} {e A B B' Y : List α} (h : (e ++ B).Perm B') : (e ++ (A ++ (B ++ Y))).Perm (A ++ (B' ++ Y)) := by
  have h1 : (e ++ (A ++ (B ++ Y))).Perm (A ++ (e ++ (B ++ Y))) := List.perm_append_comm_assoc e A (B ++ Y)
  refine h1.trans (List.Perm.append_left A ?_)
  have : e ++ (B ++ Y) = (e ++ B) ++ Y := by simp [List.append_assoc]
  rw [this]
  exact h.append_right Y

theorem leafOnly_isTask {t : T} (h : leafOnly t = true) : isTask t = true := by
  cases t with
  | task => rfl
  | node => simp [leafOnly] at h

theorem leafOnly_started {t : T} (h : leafOnly t = true) : started t = true := by
  cases t with
  | task lo hi b fin ss pc => cases pc with
    | spawned r => simp [leafOnly] at h
    | _ => rfl
  | node => rfl

theorem zs_task {t : T} (h : isTask t = true) : zs t = [] := by
  cases t with
  | task => rfl
  | node => simp [isTask] at h

theorem not_started_shape {t : T} (h : ¬ started t = true) : ∃ lo hi b fin ss, t = .task lo hi b fin ss (.spawned true) := by
  cases t with
  | task lo hi b fin ss pc =>
      cases pc with
      | spawned r => cases r with
        | true => exact ⟨_, _, _, _, _, rfl⟩
        | false => simp [started] at h
      | _ => simp [started] at h
  | node => simp [started] at h

theorem stepAt_spawned_noop (g : Nat) (c : Ctx) (sv : Option BodyId) (p : List Bool) (a : Act) (lo hi b : Nat) (fin ss : Bool)
    (h : startRight p a (.task lo hi b fin ss (.spawned true)) = none) :
    stepAt g c sv p a (.task lo hi b fin ss (.spawned true)) = noop c (.task lo hi b fin ss (.spawned true)) := by
  cases p with
  | nil => simp only [stepAt, stepTask_spawned_true]
  | cons x p => simp only [stepAt]

theorem I1_spawned_heap {c c' : Ctx} {L g : Nat} {lo' hi' b' : Nat} {fin' ss' : Bool} {b s lo hi : Nat} {fin ss live live' : Bool}
    {sv : Option BodyId} (hl : c.heap.length ≤ c'.heap.length)
    (h : I1 c L g (.task lo' hi' b' fin' ss' (.spawned true)) b s lo hi fin ss live sv) :
    I1 c' L g (.task lo' hi' b' fin' ss' (.spawned true)) b s lo hi fin ss live' sv := by
  simp only [I1] at h ⊢
  obtain ⟨h1, h2, h3, h4, h5, h6, h7, h8, h9, h10, h11, h12, _⟩ := h
  exact ⟨h1, h2, h3, h4, h5, h6, by omega, h8, h9, h10, h11, h12, by simp [taskVal]⟩

end TbbVerif.C06.SP
