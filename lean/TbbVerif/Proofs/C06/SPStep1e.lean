/-
C06 — parallel_scan task protocol: every step of pass 1 preserves `I1` (part 5: steps in the right subtree, incl. the
entry of a spawned right child = the `treat_as_stolen` decision; the induction).
-/
import TbbVerif.Proofs.C06.SPStep1d

namespace TbbVerif.C06.SP
open Scan (Ctx Ev mid finals finalScan_val preScan_val rjoin_val alloc_val assign_val)

local macro "tt" : term => `(by trivial)

/-- entry of `start_scan::execute` of the spawned right child -/
theorem S1_start_right {c : Ctx} {L g : Nat} {nd : Nd} {l : T} {rlo rhi rb : Nat} {rfin rss : Bool} {b s lo hi : Nat}
    {fin ss live : Bool} {sv : Option BodyId} (st : Bool)
    (h : I1 c L g (.node nd l (.task rlo rhi rb rfin rss (.spawned true))) b s lo hi fin ss live sv) :
    S1 c L g (.node nd l (.task rlo rhi rb rfin rss (.spawned true))) b s lo hi fin ss live sv
      (stepAt g c sv [true] (.start st) (.node nd l (.task rlo rhi rb rfin rss (.spawned true)))) := by
  have hlt := I1_zs_lt _ _ _ _ _ _ _ _ _ h
  obtain ⟨nlo, nhi, nref, nz, nss, nls, nlif, nph, nll, nrl⟩ := nd
  simp only [I1] at h
  obtain ⟨h1, h2, h3, h4, h5, h6, h7, h8, h9, h10, h11, h12, h13, h14, h15, h16, h17, hz⟩ := h
  have hp1 : nph = .p1 := by
    rcases h12 with hp | hp | hp
    · exact hp
    · have := (h15 (by rw [hp]; simp)).2.1; simp [fin1] at this
    · have := (h15 (by rw [hp]; simp)).2.1; simp [fin1] at this
  subst hp1
  cases nz with
  | some z => have := hz.2.2.1; simp [started] at this
  | none =>
      have hst : ¬ started (T.task rlo rhi rb rfin rss (.spawned true)) = true := by simp [started]
      rw [if_neg hst] at hz
      obtain ⟨k1, zl, zr⟩ := hz
      obtain ⟨r1, r2, r3, r4, r5, r6, r7, r8, r9, r10, r11, r12, _⟩ := zr
      subst r1 r2 r4 r5 r6
      simp only [stepAt, startRight, gen_tas, gen_reads, gen_clear, Bool.true_and, Bool.false_eq_true, if_false, if_true]
      by_cases htas : (st || (some rb != nls)) = true
      · -- really or virtually stolen: a fresh body
        rw [if_pos htas]
        have hzl : ∀ x, x ∈ zs l → x < c.heap.length := fun x hx => (hlt x (by simp [zs, hx])).2
        refine ⟨?_, by simp, ?_, ?_, by simp [fin1], by simp [rmDone], fun hr => by simp [rmDone] at hr, fun hf => by simp [fin1] at hf,
          fun _ => rfl, fun hf => by simp [leafOnly] at hf, rfl, by simp, ⟨[.split c.heap.length rb], by simp, by simp [finCov]⟩⟩
        · simp only [I1, Option.isSome_none, Bool.false_eq_true, if_false, Scan.alloc_snd, Scan.alloc_len]
          refine ⟨h1, h2, h3, h4, h5, ?_, h7, h8, h9, h10, h11, tt, h13, h14, by simp, by simpa using h16, ?_, ?_⟩
          · omega
          · simp only [zs, Option.toList_some, List.cons_append, List.nil_append, List.append_nil]
            refine List.nodup_cons.mpr ⟨fun hm => Nat.lt_irrefl _ (hzl _ hm), ?_⟩
            simpa [zs] using h17
          · refine ⟨h6, Nat.lt_succ_self _, by simp [started], ?_, ?_, by simp⟩
            · refine I1_frame (by simp) _ _ _ _ _ _ _ _ _ ?_ zl
              intro x hx
              rw [alloc_val, if_neg]
              rcases hx with hx | hx
              · rw [hx]; exact Nat.ne_of_lt h6
              · exact Nat.ne_of_lt (hzl x hx)
            · refine ⟨tt, tt, r3, tt, tt, tt, by omega, by omega, by simp, by omega, Nat.le_refl _, ?_, ?_⟩
              · intro hs; simpa using r12 hs
              · simp only [taskVal]
                refine ⟨?_, fun _ => tt⟩
                rw [alloc_val, if_pos rfl, rng_self]
        · intro x _ _ hx3
          rw [alloc_val, if_neg (by omega)]
        · intro x hx
          have : x = c.heap.length ∨ x ∈ zs l := by simpa [zs] using hx
          rcases this with h' | h'
          · right; omega
          · left; simp [zs, h']
      · -- not stolen and `m_left_sum == &m_body`: continue on the same body
        rw [if_neg htas]
        simp only [Bool.or_eq_true, not_or, Bool.not_eq_true] at htas
        obtain ⟨hs1, hs2⟩ := htas
        have hls : nls = some rb := by
          simp only [bne_eq_false_iff_eq] at hs2
          exact hs2.symm
        have hrm : rmDone l = true := by
          cases hh : rmDone l with
          | true => rfl
          | false =>
              rw [hh] at h13
              simp only [Bool.false_eq_true, if_false] at h13
              rw [h13] at hls; cases hls
        have hex : ex l = rb := by
          rw [if_pos hrm] at h13
          rw [h13] at hls
          exact Option.some.inj hls
        obtain ⟨hq, hv⟩ := I1_quiet _ _ _ _ _ _ _ _ zl hrm hex
        have hv' := hv (by simp)
        refine ⟨?_, Nat.le_refl _, fun _ _ _ _ => rfl, fun x hx => Or.inl (by simpa [zs] using hx), by simp [fin1], by simp [rmDone],
          fun hr => by simp [rmDone] at hr, fun hf => by simp [fin1] at hf, fun _ => rfl, fun hf => by simp [leafOnly] at hf, rfl, rfl,
          ⟨[], by simp, by simp [finCov]⟩⟩
        simp only [I1, Option.isSome_none, Bool.false_eq_true, if_false]
        refine ⟨h1, h2, h3, h4, h5, h6, h7, h8, h9, h10, h11, tt, h13, h14, by simp, by simpa using h16,
          by simpa [zs] using h17, ?_⟩
        simp only [started, if_true]
        refine ⟨rfl, hq, by simp [leafOnly], ?_⟩
        refine ⟨tt, tt, r3, tt, tt, tt, r7, r8, r9, r10, r11, ?_, ?_⟩
        · intro hs; simpa using r12 hs
        · simp only [taskVal]
          exact ⟨hv', by simp⟩

/-- step in the RIGHT subtree of a node (other than the entry of a spawned right child) -/
theorem S1_right {c : Ctx} {L g : Nat} {nd : Nd} {l r : T} {b s lo hi : Nat} {fin ss live : Bool} {sv : Option BodyId}
    (a : Act) (p : List Bool) (hsr : startRight p a r = none)
    (ihr : ∀ (b s lo hi : Nat) (fin ss live : Bool) (sv : Option BodyId),
      I1 c L g r b s lo hi fin ss live sv → S1 c L g r b s lo hi fin ss live sv (stepAt g c sv p a r))
    (h : I1 c L g (.node nd l r) b s lo hi fin ss live sv) :
    S1 c L g (.node nd l r) b s lo hi fin ss live sv (stepAt g c sv (true :: p) a (.node nd l r)) := by
  have hlt := I1_zs_lt _ _ _ _ _ _ _ _ _ h
  have h0 := h
  obtain ⟨nlo, nhi, nref, nz, nss, nls, nlif, nph, nll, nrl⟩ := nd
  simp only [I1] at h
  obtain ⟨h1, h2, h3, h4, h5, h6, h7, h8, h9, h10, h11, h12, h13, h14, h15, h16, h17, hz⟩ := h
  simp only [stepAt, hsr]
  cases nz with
  | none =>
      by_cases hst : started r = true
      · rw [if_pos hst] at hz
        obtain ⟨k1, k2, k3, k4⟩ := hz
        have ih := ihr _ _ _ _ _ _ _ _ k4
        generalize stepAt g c sv p a r = res at ih
        obtain ⟨rc, rt, rdec, rsw, rdec2, rok⟩ := res
        obtain ⟨i1, i2, i3, i4, i5, i6, i7, i8, i9, i10, i11, i12, i13⟩ := ih
        simp only at i1 i2 i3 i4 i5 i6 i7 i8 i9 i10 i11 i12 i13
        subst i11
        have hm : fin1 r = true → fin1 rt = true := fun hf => by rw [(i8 hf).1]; exact hf
        have hk1 := leafOnly_isTask (i10 k3)
        refine ⟨?_, i2, ?_, ?_, by simp [fin1, decPh_false], by simpa [rmDone, ex] using i6, by simpa [rmDone, ex] using i7,
          ?_, fun _ => rfl, fun hf => by simp [leafOnly] at hf, rfl, i12, ?_⟩
        · simp only [decPh_false]
          simp only [I1]
          refine ⟨h1, h2, h3, h4, h5, Nat.lt_of_lt_of_le h6 i2, h7, h8, h9, h10, h11, h12, h13, ref_upd_r h14 i5 hm, ?_, h16, ?_, ?_⟩
          · intro hp
            obtain ⟨a1, a2, a3, a4⟩ := h15 hp
            rw [(i8 a2).1]; exact ⟨a1, a2, a3, a4⟩
          · simpa [zs, zs_task hk1, zs_task k1] using h17
          · rw [if_pos (leafOnly_started (i10 k3))]
            exact ⟨hk1, k2, i10 k3, i1⟩
        · intro x hx1 hx2 hx3
          exact i3 x hx1 (fun hm => hx2 (by simp [zs, hm])) hx3
        · intro x hx
          left
          simpa [zs, zs_task hk1, zs_task k1] using hx
        · intro hf
          have hp : nph ≠ .p1 := by simpa [fin1] using hf
          have a2 := (h15 hp).2.1
          have hd : rdec = false := by rw [i5, (i8 a2).1]; simp
          subst hd
          rw [(i8 a2).1, (i8 a2).2]
          exact ⟨by simp [decRef_false, decPh_false], rfl⟩
        · obtain ⟨evs, e1, e2⟩ := i13
          exact ⟨evs, e1, by simp only [finCov]; exact perm_right e2⟩
      · obtain ⟨rlo, rhi, rb, rfin, rss, rfl⟩ := not_started_shape hst
        rw [stepAt_spawned_noop _ _ _ _ _ _ _ _ _ _ hsr]
        simp only [noop, decRef_false, decPh_false]
        exact S1_noop h0
  | some z =>
      obtain ⟨z1, z2, z3, zl, zr, z6⟩ := hz
      have hnd : (z :: (zs l ++ zs r)).Nodup := by simpa [zs] using h17
      have ih := ihr _ _ _ _ _ _ _ _ zr
      generalize stepAt g c sv p a r = res at ih
      obtain ⟨rc, rt, rdec, rsw, rdec2, rok⟩ := res
      obtain ⟨i1, i2, i3, i4, i5, i6, i7, i8, i9, i10, i11, i12, i13⟩ := ih
      simp only at i1 i2 i3 i4 i5 i6 i7 i8 i9 i10 i11 i12 i13
      subst i11
      have hm : fin1 r = true → fin1 rt = true := fun hf => by rw [(i8 hf).1]; exact hf
      have hzl : ∀ x : Nat, (x = b ∨ x ∈ zs l) → rc.val x = c.val x := by
        intro x hx
        have hxz : x ≠ z := by
          rcases hx with hx | hx
          · rw [hx]; exact Nat.ne_of_lt z1
          · intro he; subst he
            exact (List.nodup_cons.mp hnd).1 (List.mem_append_left _ hx)
        have hxl : x < c.heap.length := by
          rcases hx with hx | hx
          · rw [hx]; exact h6
          · exact (hlt x (by simp [zs, hx])).2
        refine i3 x hxz ?_ hxl
        intro hxr
        rcases hx with hx | hx
        · have := (hlt x (by simp [zs, hxr])).1
          rw [hx] at this; exact Nat.lt_irrefl _ this
        · exact (List.nodup_append.mp (List.nodup_cons.mp hnd).2).2.2 x hx x hxr rfl
      refine ⟨?_, i2, ?_, ?_, by simp [fin1, decPh_false], by simpa [rmDone, ex] using i6, by simpa [rmDone, ex] using i7,
        ?_, fun _ => rfl, fun hf => by simp [leafOnly] at hf, rfl, i12, ?_⟩
      · simp only [decPh_false]
        simp only [I1]
        refine ⟨h1, h2, h3, h4, h5, Nat.lt_of_lt_of_le h6 i2, h7, h8, h9, h10, h11, h12, h13, ref_upd_r h14 i5 hm, ?_, h16, ?_, ?_⟩
        · intro hp
          obtain ⟨a1, a2, a3, a4⟩ := h15 hp
          rw [(i8 a2).1]; exact ⟨a1, a2, a3, a4⟩
        · have hn1 := I1_nodup i1
          have hzn : ∀ x, x ∈ zs l → x < c.heap.length := fun x hx => (hlt x (by simp [zs, hx])).2
          have h2' := nodup_upd_r (List.nodup_cons.mp hnd).2 hn1 i4 hzn
          simp only [zs, Option.toList_some, List.cons_append, List.nil_append]
          refine List.nodup_cons.mpr ⟨?_, h2'⟩
          intro hmem
          rcases List.mem_append.mp hmem with hmem | hmem
          · exact (List.nodup_cons.mp hnd).1 (List.mem_append_left _ hmem)
          · rcases i4 z hmem with h' | h'
            · exact (List.nodup_cons.mp hnd).1 (List.mem_append_right _ h')
            · exact Nat.lt_irrefl _ (Nat.lt_of_lt_of_le z2 h')
        · refine ⟨z1, Nat.lt_of_lt_of_le z2 i2, i9 z3, I1_frame i2 _ _ _ _ _ _ _ _ _ hzl zl, i1, ?_⟩
          intro hp hl hs
          have a2 := (h15 hp).2.1
          rw [(i8 a2).1, (i8 a2).2]
          exact z6 hp hl hs
      · intro x hx1 hx2 hx3
        refine i3 x ?_ (fun hm => hx2 (by simp [zs, hm])) hx3
        intro he; exact hx2 (by simp [zs, he])
      · intro x hx
        have : x = z ∨ x ∈ zs l ∨ x ∈ zs rt := by simpa [zs] using hx
        rcases this with h' | h' | h'
        · left; simp [zs, h']
        · left; simp [zs, h']
        · rcases i4 x h' with h'' | h''
          · left; simp [zs, h'']
          · exact Or.inr h''
      · intro hf
        have hp : nph ≠ .p1 := by simpa [fin1] using hf
        have a2 := (h15 hp).2.1
        have hd : rdec = false := by rw [i5, (i8 a2).1]; simp
        subst hd
        rw [(i8 a2).1, (i8 a2).2]
        exact ⟨by simp [decRef_false, decPh_false], rfl⟩
      · obtain ⟨evs, e1, e2⟩ := i13
        exact ⟨evs, e1, by simp only [finCov]; exact perm_right e2⟩

/-- **every step of pass 1 preserves the invariant** -/
theorem S1_step {c : Ctx} {L g : Nat} (hg : 1 ≤ g) (a : Act) : ∀ (t : T) (p : List Bool) (b s lo hi : Nat) (fin ss live : Bool)
    (sv : Option BodyId), I1 c L g t b s lo hi fin ss live sv → S1 c L g t b s lo hi fin ss live sv (stepAt g c sv p a t) := by
  intro t
  induction t with
  | task lo' hi' b' fin' ss' pc =>
      intro p b s lo hi fin ss live sv h
      cases p with
      | nil =>
          simp only [stepAt]
          by_cases hpc : pc = .spawned true
          · subst hpc; rw [stepTask_spawned_true]; exact S1_noop h
          · exact S1_task hg a _ _ _ _ _ _ hpc h
      | cons x p => simp only [stepAt]; exact S1_noop h
  | node nd l r ihl ihr =>
      intro p b s lo hi fin ss live sv h
      cases p with
      | nil =>
          simp only [stepAt]
          by_cases ha : a = .fexec
          · subst ha
            by_cases hc : nd.ph = .p1 ∧ nd.ref = 0
            · exact S1_fexec hg h hc
            · simp only [stepNode, if_neg hc]; exact S1_noop h
          · rw [stepNode_noop (I1_phases h) ha]; exact S1_noop h
      | cons x p =>
          cases x with
          | false => exact S1_left a p (fun b s lo hi fin ss live sv hh => ihl p b s lo hi fin ss live sv hh) h
          | true =>
              cases hsr : startRight p a r with
              | none => exact S1_right a p hsr (fun b s lo hi fin ss live sv hh => ihr p b s lo hi fin ss live sv hh) h
              | some v =>
                  obtain ⟨st, lo1, hi1, b1, f1, s1⟩ := v
                  obtain ⟨rfl, rfl, rfl⟩ := startRight_some hsr
                  exact S1_start_right st h

end TbbVerif.C06.SP
