/-
C06 — invariants of the parallel_reduce task tree (`Red`): in-order content, pointer checks, join partner.
-/
import TbbVerif.Model.C06

namespace TbbVerif.C06

theorem rng_append (lo k hi : Nat) (h : lo + k ≤ hi) : rng lo (lo + k) ++ rng (lo + k) hi = rng lo hi := by
  unfold rng
  have e1 : lo + k - lo = k := by omega
  have e2 : hi - lo = k + (hi - (lo + k)) := by omega
  rw [e1, e2, List.range'_append_1]

theorem rng_self (lo : Nat) : rng lo lo = [] := by simp [rng]

theorem rng_split (lo mid hi : Nat) (h1 : lo ≤ mid) (h2 : mid ≤ hi) : rng lo mid ++ rng mid hi = rng lo hi := by
  have := rng_append lo (mid - lo) hi (by omega)
  rwa [show lo + (mid - lo) = mid by omega] at this

theorem mem_rng (lo hi x : Nat) : x ∈ rng lo hi ↔ lo ≤ x ∧ x < hi := by
  unfold rng; rw [List.mem_range'_1]; omega

theorem rng_nodup (lo hi : Nat) : (rng lo hi).Nodup := by
  unfold rng; exact List.nodup_range' 1

namespace Red

/-- id of the body that the right subtree of a node works on -/
def zid (z : Option Body) (home : BodyId) : BodyId :=
  match z with
  | some zb => zb.id
  | none => home

/-- Well-formedness of a subtree whose positional body has id `home`:
ref counts count the live children; pointer words designate the positional body; a right child that
runs without a zombie does so only after the left child is gone; a zombie remembers it was split from
the node's `left_body`. -/
def WF (home : BodyId) : Tree → Prop
  | .task lo hi mb _ _ => lo ≤ hi ∧ mb = home
  | .node ref lb z l r =>
      ref = cnt l + cnt r ∧ lb = home ∧ WF home l ∧ WF (zid z home) r ∧
      (z = none → active r = true → l = .gone) ∧
      (∀ zb, z = some zb → zb.src = lb ∧ (active r = true ∨ r = .gone))
  | .gone => True

structure StepInv (acc : Body) (t : Tree) (res : Res) : Prop where
  id_eq : res.acc.id = acc.id
  src_eq : res.acc.src = acc.src
  wf : WF acc.id res.tree
  val : res.acc.val ++ pend res.tree = acc.val ++ pend t
  err : res.ctx.err = false
  dec_gone : res.dec = true → res.tree = .gone ∧ t ≠ .gone
  nodec : res.dec = false → cnt res.tree = cnt t
  act : active res.tree = true → active t = true
  act' : active t = true → active res.tree = true ∨ res.tree = .gone

theorem noop_inv (acc : Body) (c : Ctx) (t : Tree) (h : WF acc.id t) (hc : c.err = false) :
    StepInv acc t (noop acc c t) := by
  refine ⟨rfl, rfl, h, rfl, hc, ?_, ?_, ?_, ?_⟩ <;> simp [noop]
  intro h; exact Or.inl h

theorem stepTask_inv (acc : Body) (c : Ctx) (a : Act) (lo hi mb : Nat) (isR st : Bool)
    (h : WF acc.id (.task lo hi mb isR st)) (hc : c.err = false) :
    StepInv acc (.task lo hi mb isR st) (stepTask acc c a lo hi mb isR st) := by
  have hwf := h
  simp only [WF] at h
  obtain ⟨hle, hmb⟩ := h
  cases a with
  | start => exact noop_inv _ _ _ hwf hc
  | fold => exact noop_inv _ _ _ hwf hc
  | run k =>
      simp only [stepTask]
      split
      · rename_i hg
        obtain ⟨hst, hk1, hk2⟩ := hg
        refine ⟨rfl, rfl, ?_, ?_, ?_, ?_, ?_, ?_, ?_⟩
        · simp only [WF]; exact ⟨by omega, hmb⟩
        · simp only [pend, List.append_assoc]
          rw [rng_append lo k hi (by omega)]
        · simp [hc, hmb]
        · simp
        · simp [cnt]
        · simp [active]
        · simp [active]
      · exact noop_inv _ _ _ hwf hc
  | offer k =>
      simp only [stepTask]
      split
      · rename_i hg
        obtain ⟨hst, hk1, hk2⟩ := hg
        refine ⟨rfl, rfl, ?_, ?_, hc, ?_, ?_, ?_, ?_⟩
        · simp only [WF, zid, cnt, active]
          refine ⟨trivial, hmb, ⟨by omega, hmb⟩, ⟨by omega, hmb⟩, ?_, ?_⟩
          · simp
          · simp
        · simp only [pend, List.nil_append]
          rw [rng_split lo (hi - k) hi (by omega) (by omega)]
        · simp
        · simp [cnt]
        · simp [active, hst]
        · simp [active]
      · exact noop_inv _ _ _ hwf hc
  | finish =>
      simp only [stepTask]
      split
      · rename_i hg
        obtain ⟨hst, hk⟩ := hg
        refine ⟨rfl, rfl, ?_, ?_, hc, ?_, ?_, ?_, ?_⟩
        · simp [WF]
        · subst hk; simp [pend, rng_self]
        · simp
        · simp
        · simp [active]
        · simp
      · exact noop_inv _ _ _ hwf hc

theorem cnt_gone_of_dec {t t' : Tree} (h1 : t' = .gone) (h2 : t ≠ .gone) : cnt t = cnt t' + 1 := by
  subst h1; cases t <;> simp_all [cnt]

theorem active_ne_gone {t : Tree} (h : active t = true) : t ≠ .gone := by
  intro e; subst e; simp [active] at h

theorem cnt_of_active {t : Tree} (h : active t = true) : cnt t = 1 := by
  cases t <;> simp_all [cnt, active]

theorem stepAt_inactive (acc : Body) (c : Ctx) (p : List Bool) (a : Act) (t : Tree) (h : active t = false) :
    stepAt acc c p a t = noop acc c t := by
  cases t with
  | gone => cases p <;> simp [stepAt]
  | node => simp [active] at h
  | task lo hi mb isR st =>
      simp [active] at h
      subst h
      cases p with
      | nil => cases a <;> simp [stepAt, stepTask, noop]
      | cons b p => simp [stepAt]

/-- the GENERATED lazy-split guard of `start_reduce::execute` is `is_right_child && parent's ref count == 2`, whatever
`is_stolen(ed)` says: a right child splits the body exactly when its left sibling has not finished — also when
it was NOT stolen (re-entrant bodies: the owner pops it inside a leaf body of the left sibling) -/
theorem gen_reduce_split (ref : Nat) (st : Bool) : Generated.C06.reduceSplitsBody true ref st = true ↔ ref = 2 := by
  cases st <;> simp [Generated.C06.reduceSplitsBody]

theorem gen_reduce_split_left (ref : Nat) (st : Bool) : Generated.C06.reduceSplitsBody false ref st = false := by
  cases st <;> simp [Generated.C06.reduceSplitsBody]

theorem spawnedRight_some {p : List Bool} {a : Act} {r : Tree} {lo hi mb : Nat}
    (h : spawnedRight p a r = some (lo, hi, mb)) : p = [] ∧ a = .start ∧ r = .task lo hi mb true false := by
  unfold spawnedRight at h
  split at h
  · simp at h; obtain ⟨h1, h2, h3⟩ := h; subst h1 h2 h3; exact ⟨rfl, rfl, rfl⟩
  · simp at h

theorem ref_update {ref : Nat} {t t' other : Tree} {dec : Bool}
    (i6 : dec = true → t' = .gone ∧ t ≠ .gone) (i7 : dec = false → cnt t' = cnt t) :
    (ref = cnt t + cnt other → decRef ref dec = cnt t' + cnt other) ∧
    (ref = cnt other + cnt t → decRef ref dec = cnt other + cnt t') := by
  cases hd : dec with
  | true =>
      obtain ⟨g1, g2⟩ := i6 hd
      have := cnt_gone_of_dec g1 g2
      simp [decRef]; omega
  | false =>
      have := i7 hd
      simp [decRef]; omega

theorem gone_stays {t' : Tree} {dec : Bool}
    (i6 : dec = true → t' = .gone ∧ Tree.gone ≠ .gone) (i7 : dec = false → cnt t' = cnt .gone) : t' = .gone := by
  cases hd : dec with
  | true => exact absurd rfl (i6 hd).2
  | false =>
      have := i7 hd
      cases t' <;> simp_all [cnt]

theorem stepAt_inv : ∀ (t : Tree) (p : List Bool) (acc : Body) (c : Ctx) (a : Act),
    WF acc.id t → c.err = false → StepInv acc t (stepAt acc c p a t) := by
  intro t
  induction t with
  | gone =>
      intro p acc c a h hc
      have : stepAt acc c p a .gone = noop acc c .gone := by cases p <;> simp [stepAt]
      rw [this]; exact noop_inv _ _ _ h hc
  | task lo hi mb isR st =>
      intro p acc c a h hc
      cases p with
      | nil => simp only [stepAt]; exact stepTask_inv acc c a lo hi mb isR st h hc
      | cons b p => simp only [stepAt]; exact noop_inv _ _ _ h hc
  | node ref lb z l r ihl ihr =>
      intro p acc c a hwf hc
      have h := hwf
      simp only [WF] at h
      obtain ⟨href, hlb, hwl, hwr, hnz, hz⟩ := h
      cases p with
      | nil =>
          simp only [stepAt]
          split
          · rename_i h0
            obtain ⟨_, h0⟩ := h0
            have hl : l = .gone := by cases l <;> simp_all [cnt] <;> omega
            have hr : r = .gone := by cases r <;> simp_all [cnt] <;> omega
            subst hl hr
            cases z with
            | some zb =>
                refine ⟨rfl, rfl, by simp [WF, hlb], ?_, ?_, ?_, ?_, ?_, ?_⟩
                · simp [pend, rng_self]
                · simp [hc, hlb]
                · simp
                · simp [cnt]
                · simp [active]
                · simp [active]
            | none =>
                refine ⟨rfl, rfl, by simp [WF, hlb], ?_, hc, ?_, ?_, ?_, ?_⟩
                · simp [pend, rng_self]
                · simp
                · simp [cnt]
                · simp [active]
                · simp [active]
          · exact noop_inv _ _ _ hwf hc
      | cons b p =>
          cases b with
          | false =>
              have ih := ihl p acc c a hwl hc
              simp only [stepAt]
              generalize stepAt acc c p a l = res at ih
              obtain ⟨i1, i2, i3, i4, i5, i6, i7, i8, i9⟩ := ih
              refine ⟨i1, i2, ?_, ?_, i5, by simp, by simp [cnt], by simp [active], by simp [active]⟩
              · simp only [WF]
                refine ⟨(ref_update i6 i7).1 href, hlb, i3, hwr, ?_, hz⟩
                intro hz0 hact
                have hl := hnz hz0 hact
                subst hl
                exact gone_stays i6 i7
              · simp only [pend]
                rw [← List.append_assoc, i4, List.append_assoc]
          | true =>
              simp only [stepAt]
              cases hsp : spawnedRight p a r with
              | some x =>
                  obtain ⟨lo, hi, mb⟩ := x
                  obtain ⟨hp, ha, hr⟩ := spawnedRight_some hsp
                  subst hp ha hr
                  have hz0 : z = none := by
                    cases z with
                    | none => rfl
                    | some zb => have := (hz zb rfl).2; simp [active] at this
                  subst hz0
                  simp only [WF, zid] at hwr
                  obtain ⟨hle, hmb⟩ := hwr
                  simp only [gen_reduce_split]
                  split
                  · rename_i h2
                    refine ⟨rfl, rfl, ?_, ?_, hc, by simp, by simp [cnt], by simp [active], by simp [active]⟩
                    · simp only [WF, zid]
                      refine ⟨href, hlb, hwl, ⟨hle, trivial⟩, by simp, ?_⟩
                      intro zb hzb
                      simp at hzb
                      subst hzb
                      simp [active, hmb, hlb]
                    · simp [pend]
                  · rename_i h2
                    refine ⟨rfl, rfl, ?_, ?_, hc, by simp, by simp [cnt], by simp [active], by simp [active]⟩
                    · simp only [WF, zid]
                      refine ⟨href, hlb, hwl, ⟨hle, hmb⟩, ?_, by simp⟩
                      intro _ _
                      simp [cnt] at href
                      cases l <;> simp_all
                    · simp [pend]
              | none =>
                cases z with
                | some zb =>
                    have ih := ihr p zb c a (by simpa [zid] using hwr) hc
                    simp only
                    generalize stepAt zb c p a r = res at ih
                    obtain ⟨i1, i2, i3, i4, i5, i6, i7, i8, i9⟩ := ih
                    refine ⟨rfl, rfl, ?_, ?_, i5, by simp, by simp [cnt], by simp [active], by simp [active]⟩
                    · simp only [WF, zid]
                      refine ⟨(ref_update i6 i7).2 href, hlb, hwl, by simpa [i1] using i3, by simp, ?_⟩
                      intro zb' hzb'
                      simp at hzb'
                      subst hzb'
                      have := hz zb rfl
                      refine ⟨by rw [i2]; exact this.1, ?_⟩
                      rcases this.2 with h1 | h1
                      · exact i9 h1
                      · subst h1
                        right
                        exact gone_stays i6 i7
                    · simp only [pend]
                      rw [i4]
                | none =>
                    have ih := ihr p acc c a (by simpa [zid] using hwr) hc
                    have hin : ¬ active r = true → (stepAt acc c p a r).acc.val = acc.val ∧ pend (stepAt acc c p a r).tree = pend r := by
                      intro hna
                      rw [stepAt_inactive acc c p a r (by simpa using hna)]
                      simp [noop]
                    simp only
                    generalize stepAt acc c p a r = res at ih hin
                    obtain ⟨i1, i2, i3, i4, i5, i6, i7, i8, i9⟩ := ih
                    refine ⟨i1, i2, ?_, ?_, i5, by simp, by simp [cnt], by simp [active], by simp [active]⟩
                    · simp only [WF, zid]
                      refine ⟨(ref_update i6 i7).2 href, hlb, hwl, i3, ?_, by simp⟩
                      intro _ hact
                      exact hnz rfl (i8 hact)
                    · simp only [pend, List.nil_append]
                      by_cases hact : active r = true
                      · have hl := hnz rfl hact
                        subst hl
                        simpa [pend] using i4
                      · have hres := hin hact
                        rw [hres.1, hres.2]

theorem stepAt_acc_id : ∀ (t : Tree) (p : List Bool) (acc : Body) (c : Ctx) (a : Act),
    (stepAt acc c p a t).acc.id = acc.id ∧ (stepAt acc c p a t).acc.src = acc.src := by
  intro t
  induction t with
  | gone => intro p acc c a; cases p <;> simp [stepAt, noop]
  | task lo hi mb isR st =>
      intro p acc c a
      cases p with
      | cons b p => simp [stepAt, noop]
      | nil =>
          simp only [stepAt]
          cases a <;> simp only [stepTask, noop] <;> (try split) <;> simp
  | node ref lb z l r ihl ihr =>
      intro p acc c a
      cases p with
      | nil =>
          simp only [stepAt]
          split
          · cases z <;> simp
          · simp [noop]
      | cons b p =>
          cases b with
          | false => simp only [stepAt]; exact ihl p acc c a
          | true =>
              simp only [stepAt]
              cases spawnedRight p a r with
              | some x => simp only; split <;> simp
              | none =>
                  cases z with
                  | some zb => simp
                  | none => simp only; exact ihr p acc c a

/-! ### log of body events: what a step appends, and where a join can come from -/

/-- every zombie that sits in the tree was logged as `split id src` -/
def ZL (log : List Ev) : Tree → Prop
  | .node _ _ z l r => (∀ zb, z = some zb → Ev.split zb.id zb.src ∈ log) ∧ ZL log l ∧ ZL log r
  | _ => True

theorem ZL_mono {log log' : List Ev} (h : ∀ e, e ∈ log → e ∈ log') : ∀ t, ZL log t → ZL log' t := by
  intro t
  induction t with
  | gone => intro _; trivial
  | task => intro _; trivial
  | node ref lb z l r ihl ihr =>
      intro hz
      simp only [ZL] at hz ⊢
      exact ⟨fun zb e => h _ (hz.1 zb e), ihl hz.2.1, ihr hz.2.2⟩

structure LogInv (c : Ctx) (p : List Bool) (a : Act) (t : Tree) (res : Res) : Prop where
  zl : ZL res.ctx.log res.tree
  grow : res.ctx.log = c.log ∨ ∃ e, res.ctx.log = c.log ++ [e] ∧
      ∀ b z, e = .join b z → a = .fold ∧ ∃ zb : Body, zb.id = z ∧ zb.src = b ∧
        sub t p = some (.node 0 b (some zb) .gone .gone)

theorem stepAt_log : ∀ (t : Tree) (p : List Bool) (acc : Body) (c : Ctx) (a : Act),
    WF acc.id t → ZL c.log t → LogInv c p a t (stepAt acc c p a t) := by
  intro t
  induction t with
  | gone =>
      intro p acc c a _ hz
      have : stepAt acc c p a .gone = noop acc c .gone := by cases p <;> simp [stepAt]
      rw [this]; exact ⟨hz, Or.inl rfl⟩
  | task lo hi mb isR st =>
      intro p acc c a _ hz
      cases p with
      | cons b p => simp only [stepAt]; exact ⟨hz, Or.inl rfl⟩
      | nil =>
          simp only [stepAt]
          cases a with
          | start => exact ⟨hz, Or.inl rfl⟩
          | fold => exact ⟨hz, Or.inl rfl⟩
          | run k =>
              simp only [stepTask]
              split
              · refine ⟨by simp [ZL], Or.inr ⟨_, rfl, ?_⟩⟩
                intro b z e; cases e
              · exact ⟨hz, Or.inl rfl⟩
          | offer k =>
              simp only [stepTask]
              split
              · exact ⟨by simp [ZL], Or.inl rfl⟩
              · exact ⟨hz, Or.inl rfl⟩
          | finish =>
              simp only [stepTask]
              split
              · exact ⟨by simp [ZL], Or.inl rfl⟩
              · exact ⟨hz, Or.inl rfl⟩
  | node ref lb z l r ihl ihr =>
      intro p acc c a hwf hzl
      have h := hwf
      simp only [WF] at h
      obtain ⟨href, hlb, hwl, hwr, hnz, hz⟩ := h
      have hzl' := hzl
      simp only [ZL] at hzl'
      obtain ⟨hz1, hz2, hz3⟩ := hzl'
      cases p with
      | nil =>
          simp only [stepAt]
          split
          · rename_i h0
            obtain ⟨ha, h0⟩ := h0
            have hl : l = .gone := by cases l <;> simp_all [cnt] <;> omega
            have hr : r = .gone := by cases r <;> simp_all [cnt] <;> omega
            subst hl hr h0 ha
            cases z with
            | some zb =>
                refine ⟨by simp [ZL], Or.inr ⟨_, rfl, ?_⟩⟩
                intro b z' e
                simp at e
                obtain ⟨e1, e2⟩ := e
                subst e1 e2
                exact ⟨rfl, zb, rfl, (hz zb rfl).1, rfl⟩
            | none => exact ⟨by simp [ZL], Or.inl rfl⟩
          · exact ⟨hzl, Or.inl rfl⟩
      | cons b p =>
          cases b with
          | false =>
              have ih := ihl p acc c a hwl hz2
              simp only [stepAt]
              generalize stepAt acc c p a l = res at ih
              obtain ⟨j1, j2⟩ := ih
              have hm : ∀ e, e ∈ c.log → e ∈ res.ctx.log := by
                rcases j2 with j2 | ⟨e, j2, _⟩ <;> rw [j2] <;> simp <;> (intro e h; exact Or.inl h)
              refine ⟨?_, ?_⟩
              · simp only [ZL]
                exact ⟨fun zb e => hm _ (hz1 zb e), j1, ZL_mono hm _ hz3⟩
              · rcases j2 with j2 | ⟨e, j2, j3⟩
                · exact Or.inl j2
                · refine Or.inr ⟨e, j2, ?_⟩
                  intro b' z' he
                  obtain ⟨k1, zb, k2, k3, k4⟩ := j3 b' z' he
                  exact ⟨k1, zb, k2, k3, by simpa [sub] using k4⟩
          | true =>
              simp only [stepAt]
              cases hsp : spawnedRight p a r with
              | some x =>
                  obtain ⟨lo, hi, mb⟩ := x
                  obtain ⟨hp, ha, hr⟩ := spawnedRight_some hsp
                  subst hp ha hr
                  simp only
                  split
                  · refine ⟨?_, Or.inr ⟨_, rfl, ?_⟩⟩
                    · simp only [ZL]
                      refine ⟨?_, ZL_mono (by intro e h; simp; exact Or.inl h) _ hz2, trivial⟩
                      intro zb e; simp at e; subst e; simp
                    · intro b z e; cases e
                  · refine ⟨?_, Or.inl rfl⟩
                    simp only [ZL]
                    exact ⟨hz1, hz2, trivial⟩
              | none =>
                cases z with
                | some zb =>
                    have ih := ihr p zb c a (by simpa [zid] using hwr) hz3
                    have hid := stepAt_acc_id r p zb c a
                    simp only
                    generalize stepAt zb c p a r = res at ih hid
                    obtain ⟨j1, j2⟩ := ih
                    have hm : ∀ e, e ∈ c.log → e ∈ res.ctx.log := by
                      rcases j2 with j2 | ⟨e, j2, _⟩ <;> rw [j2] <;> simp <;> (intro e h; exact Or.inl h)
                    refine ⟨?_, ?_⟩
                    · simp only [ZL]
                      refine ⟨?_, ZL_mono hm _ hz2, j1⟩
                      intro zb' e; simp at e; subst e
                      have := hz1 zb rfl
                      rw [hid.1, hid.2]
                      exact hm _ this
                    · rcases j2 with j2 | ⟨e, j2, j3⟩
                      · exact Or.inl j2
                      · refine Or.inr ⟨e, j2, ?_⟩
                        intro b' z' he
                        obtain ⟨k1, zb, k2, k3, k4⟩ := j3 b' z' he
                        exact ⟨k1, zb, k2, k3, by simpa [sub] using k4⟩
                | none =>
                    have ih := ihr p acc c a (by simpa [zid] using hwr) hz3
                    simp only
                    generalize stepAt acc c p a r = res at ih
                    obtain ⟨j1, j2⟩ := ih
                    have hm : ∀ e, e ∈ c.log → e ∈ res.ctx.log := by
                      rcases j2 with j2 | ⟨e, j2, _⟩ <;> rw [j2] <;> simp <;> (intro e h; exact Or.inl h)
                    refine ⟨?_, ?_⟩
                    · simp only [ZL]
                      exact ⟨by simp, ZL_mono hm _ hz2, j1⟩
                    · rcases j2 with j2 | ⟨e, j2, j3⟩
                      · exact Or.inl j2
                      · refine Or.inr ⟨e, j2, ?_⟩
                        intro b' z' he
                        obtain ⟨k1, zb, k2, k3, k4⟩ := j3 b' z' he
                        exact ⟨k1, zb, k2, k3, by simpa [sub] using k4⟩

theorem ZL_sub {log : List Ev} : ∀ (t : Tree) (p : List Bool) (ref : Nat) (lb : BodyId) (zb : Body) (l r : Tree),
    ZL log t → sub t p = some (.node ref lb (some zb) l r) → Ev.split zb.id zb.src ∈ log := by
  intro t
  induction t with
  | gone => intro p ref lb zb l r _ h; cases p <;> simp [sub] at h
  | task => intro p ref lb zb l r _ h; cases p <;> simp [sub] at h
  | node ref' lb' z' l' r' ihl ihr =>
      intro p ref lb zb l r hz h
      simp only [ZL] at hz
      cases p with
      | nil =>
          simp [sub] at h
          obtain ⟨_, _, h3, _, _⟩ := h
          exact hz.1 zb h3
      | cons b p =>
          cases b with
          | false => exact ihl p ref lb zb l r hz.2.1 (by simpa [sub] using h)
          | true => exact ihr p ref lb zb l r hz.2.2 (by simpa [sub] using h)

/-- every `join b z` in the log is preceded by `split z b` -/
def LogOK (log : List Ev) : Prop :=
  ∀ (i : Nat) (b z : BodyId), log[i]? = some (Ev.join b z) → ∃ j : Nat, j < i ∧ log[j]? = some (Ev.split z b)

structure Inv (lo hi : Nat) (s : St) : Prop where
  wf : WF 0 s.tree
  rid : s.root.id = 0
  val : s.root.val ++ pend s.tree = rng lo hi
  err : s.ctx.err = false
  wait : s.waitRef = cnt s.tree
  zl : ZL s.ctx.log s.tree
  logok : LogOK s.ctx.log

theorem inv_init (lo hi : Nat) : Inv lo hi (init lo hi) := by
  unfold init
  split
  · rename_i h
    refine ⟨by simp [WF]; omega, rfl, by simp [pend], rfl, by simp [cnt], by simp [ZL], ?_⟩
    intro i b z h; simp at h
  · rename_i h
    refine ⟨by simp [WF], rfl, ?_, rfl, by simp [cnt], by simp [ZL], ?_⟩
    · simp [pend, rng]; omega
    · intro i b z h; simp at h

theorem inv_step (lo hi : Nat) (s : St) (pa : List Bool × Act) (h : Inv lo hi s) : Inv lo hi (step s pa) := by
  obtain ⟨wf, rid, val, err, wait, zl, logok⟩ := h
  have h1 := stepAt_inv s.tree pa.1 s.root s.ctx pa.2 (by rw [rid]; exact wf) err
  have h2 := stepAt_log s.tree pa.1 s.root s.ctx pa.2 (by rw [rid]; exact wf) zl
  unfold step
  generalize stepAt s.root s.ctx pa.1 pa.2 s.tree = res at h1 h2
  obtain ⟨i1, i2, i3, i4, i5, i6, i7, i8, i9⟩ := h1
  obtain ⟨j1, j2⟩ := h2
  refine ⟨by simpa [rid] using i3, by simp [i1, rid], by simp [i4, val], i5, ?_, j1, ?_⟩
  · simp only
    cases hd : res.dec with
    | true =>
        obtain ⟨g1, g2⟩ := i6 hd
        have := cnt_gone_of_dec g1 g2
        simp [decRef]; omega
    | false =>
        have := i7 hd
        simp [decRef]; omega
  · simp only
    rcases j2 with j2 | ⟨e, j2, j3⟩
    · rw [j2]; exact logok
    · rw [j2]
      intro i b z hi
      by_cases hlt : i < s.ctx.log.length
      · rw [List.getElem?_append_left hlt] at hi
        obtain ⟨j, hj, hj'⟩ := logok i b z hi
        exact ⟨j, hj, by rw [List.getElem?_append_left (by omega)]; exact hj'⟩
      · have hi' : i = s.ctx.log.length := by
          by_cases hgt : i = s.ctx.log.length
          · exact hgt
          · rw [List.getElem?_eq_none (by simp; omega)] at hi; simp at hi
        subst hi'
        simp at hi
        obtain ⟨_, zb, k2, k3, k4⟩ := j3 b z hi
        have hin := ZL_sub s.tree pa.1 0 b zb .gone .gone zl k4
        rw [k2, k3] at hin
        obtain ⟨j, hj⟩ := List.getElem_of_mem hin
        obtain ⟨hj1, hj2⟩ := hj
        exact ⟨j, hj1, by rw [List.getElem?_append_left hj1, List.getElem?_eq_getElem hj1, hj2]⟩

theorem inv_run (lo hi : Nat) (sched : List (List Bool × Act)) : Inv lo hi (run lo hi sched) := by
  unfold run
  have : ∀ (sched : List (List Bool × Act)) (s : St), Inv lo hi s → Inv lo hi (sched.foldl step s) := by
    intro sched
    induction sched with
    | nil => intro s h; exact h
    | cons pa rest ih => intro s h; exact ih _ (inv_step lo hi s pa h)
  exact this sched _ (inv_init lo hi)

/-- what a step appends to the log, stated for whole states -/
theorem step_log (lo hi : Nat) (s : St) (pa : List Bool × Act) (h : Inv lo hi s) :
    (step s pa).ctx.log = s.ctx.log ∨ ∃ e, (step s pa).ctx.log = s.ctx.log ++ [e] ∧
      ∀ b z, e = .join b z → pa.2 = .fold ∧ ∃ zb : Body, zb.id = z ∧ zb.src = b ∧
        sub s.tree pa.1 = some (.node 0 b (some zb) .gone .gone) := by
  have h2 := stepAt_log s.tree pa.1 s.root s.ctx pa.2 (by rw [h.rid]; exact h.wf) h.zl
  exact h2.grow

end Red
end TbbVerif.C06
