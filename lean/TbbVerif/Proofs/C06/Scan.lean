/-
C06 — parallel_scan: specification predicates and basic heap facts (the no-steal case is a corollary in ScanGen).
-/
import TbbVerif.Proofs.C06.Reduce

namespace TbbVerif.C06.Scan

/-- `fs` (final-scan events `(lo, hi, incoming)`) tile `[a, h)` in order, each with the in-order
prefix `[L, lo)` as incoming value -/
def chain (L : Nat) : Nat → List (Nat × Nat × List Nat) → Nat → Prop
  | a, [], h => a = h
  | a, (x, y, inc) :: rest, h => x = a ∧ a < y ∧ inc = rng L a ∧ chain L y rest h

theorem chain_append (L : Nat) : ∀ (fs gs : List (Nat × Nat × List Nat)) (a m h : Nat),
    chain L a fs m → chain L m gs h → chain L a (fs ++ gs) h := by
  intro fs
  induction fs with
  | nil => intro gs a m h h1 h2; simp only [chain] at h1; subst h1; simpa using h2
  | cons f fs ih =>
      intro gs a m h h1 h2
      obtain ⟨x, y, inc⟩ := f
      simp only [chain, List.cons_append] at h1 ⊢
      exact ⟨h1.1, h1.2.1, h1.2.2.1, ih gs y m h h1.2.2.2 h2⟩

theorem chain_le (L : Nat) : ∀ (fs : List (Nat × Nat × List Nat)) (a h : Nat), chain L a fs h → a ≤ h := by
  intro fs
  induction fs with
  | nil => intro a h h1; simp only [chain] at h1; omega
  | cons f fs ih =>
      intro a h h1
      obtain ⟨x, y, inc⟩ := f
      simp only [chain] at h1
      have := ih y h h1.2.2.2
      omega

/-- every element of `[a,h)` lies in exactly one event of a chain, and that event's incoming value is
the in-order prefix -/
theorem chain_unique (L : Nat) : ∀ (fs : List (Nat × Nat × List Nat)) (a h : Nat), chain L a fs h →
    ∀ x, a ≤ x → x < h →
      (fs.filter (fun f => decide (f.1 ≤ x ∧ x < f.2.1))).length = 1 ∧
      ∀ f, f ∈ fs → f.2.2 = rng L f.1 ∧ a ≤ f.1 ∧ f.2.1 ≤ h := by
  intro fs
  induction fs with
  | nil => intro a h h1 x hx1 hx2; simp only [chain] at h1; omega
  | cons f fs ih =>
      intro a h h1 x hx1 hx2
      obtain ⟨p, q, inc⟩ := f
      simp only [chain] at h1
      obtain ⟨e1, e2, e3, e4⟩ := h1
      subst e1
      have hq := chain_le L fs q h e4
      have hall : ∀ f, f ∈ fs → f.2.2 = rng L f.1 ∧ q ≤ f.1 ∧ f.2.1 ≤ h := by
        intro f hf
        by_cases hxq : q < h
        · exact (ih q h e4 q (Nat.le_refl _) hxq).2 f hf
        · have : q = h := by omega
          subst this
          cases fs with
          | nil => cases hf
          | cons g gs =>
              obtain ⟨g1, g2, g3⟩ := g
              simp only [chain] at e4
              have := chain_le L gs g2 q e4.2.2.2
              omega
      refine ⟨?_, ?_⟩
      · by_cases hxq : x < q
        · have hnone : fs.filter (fun f => decide (f.1 ≤ x ∧ x < f.2.1)) = [] := by
            rw [List.filter_eq_nil_iff]
            intro f hf
            have := (hall f hf).2.1
            simp; omega
          rw [List.filter_cons_of_pos (by simp [hx1, hxq]), hnone]; rfl
        · have := (ih q h e4 x (by omega) hx2).1
          rw [List.filter_cons_of_neg (by simp; omega)]; exact this
      · intro f hf
        simp only [List.mem_cons] at hf
        rcases hf with hf | hf
        · subst hf; exact ⟨e3, Nat.le_refl _, hq⟩
        · have := hall f hf
          exact ⟨this.1, by omega, this.2.2⟩

/-- the property of a whole `parallel_scan(range [lo,hi), body)` run -/
def ScanOK (lo hi : Nat) (c : Ctx) : Prop :=
  c.err = false ∧ c.val 0 = rng lo hi ∧ ∃ fs, (finals c.log).Perm fs ∧ chain lo lo fs hi

/-! ### basic heap facts -/

theorem val_setVal_same (c : Ctx) (b : Nat) (v : List Nat) (h : b < c.heap.length) : (c.setVal b v).val b = v := by
  simp [Ctx.setVal, Ctx.val, h]

theorem val_setVal_other (c : Ctx) (b b' : Nat) (v : List Nat) (h : b ≠ b') : (c.setVal b v).val b' = c.val b' := by
  simp [Ctx.setVal, Ctx.val, List.getElem?_set_ne h]

theorem finals_append (l1 l2 : List Ev) : finals (l1 ++ l2) = finals l1 ++ finals l2 := by
  simp [finals]

theorem mid_bounds {g lo hi : Nat} (hg : 1 ≤ g) (h : g < hi - lo) : lo < mid lo hi ∧ mid lo hi < hi := by
  unfold mid; omega

end TbbVerif.C06.Scan
