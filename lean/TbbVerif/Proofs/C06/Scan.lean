/-
C06 — parallel_scan: specification predicates and the no-steal case.
-/
import TbbVerif.Proofs.C06.Reduce

namespace TbbVerif.C06.Scan

/-- `fs` (final-scan events `(lo, hi, incoming)`) tile `[a, h)` in order, each with the in-order
prefix `[L, lo)` as incoming value -/
def chain (L : Nat) : Nat → List (Nat × Nat × List Nat) → Nat → Prop
  | a, [], h => a = h
  | a, (x, y, inc) :: rest, h => x = a ∧ a < y ∧ inc = rng L a ∧ chain L y rest h

theorem chain_append (L : Nat) : ∀ (fs gs : List (Nat × Nat × List Nat)) (a m h : Nat),
    chain L a fs m → chain L m gs h → chain L a (fs ++ gs) h := by
  intro fs
  induction fs with
  | nil => intro gs a m h h1 h2; simp only [chain] at h1; subst h1; simpa using h2
  | cons f fs ih =>
      intro gs a m h h1 h2
      obtain ⟨x, y, inc⟩ := f
      simp only [chain, List.cons_append] at h1 ⊢
      exact ⟨h1.1, h1.2.1, h1.2.2.1, ih gs y m h h1.2.2.2 h2⟩

theorem chain_le (L : Nat) : ∀ (fs : List (Nat × Nat × List Nat)) (a h : Nat), chain L a fs h → a ≤ h := by
  intro fs
  induction fs with
  | nil => intro a h h1; simp only [chain] at h1; omega
  | cons f fs ih =>
      intro a h h1
      obtain ⟨x, y, inc⟩ := f
      simp only [chain] at h1
      have := ih y h h1.2.2.2
      omega

/-- every element of `[a,h)` lies in exactly one event of a chain, and that event's incoming value is
the in-order prefix -/
theorem chain_unique (L : Nat) : ∀ (fs : List (Nat × Nat × List Nat)) (a h : Nat), chain L a fs h →
    ∀ x, a ≤ x → x < h →
      (fs.filter (fun f => decide (f.1 ≤ x ∧ x < f.2.1))).length = 1 ∧
      ∀ f, f ∈ fs → f.2.2 = rng L f.1 ∧ a ≤ f.1 ∧ f.2.1 ≤ h := by
  intro fs
  induction fs with
  | nil => intro a h h1 x hx1 hx2; simp only [chain] at h1; omega
  | cons f fs ih =>
      intro a h h1 x hx1 hx2
      obtain ⟨p, q, inc⟩ := f
      simp only [chain] at h1
      obtain ⟨e1, e2, e3, e4⟩ := h1
      subst e1
      have hq := chain_le L fs q h e4
      have hall : ∀ f, f ∈ fs → f.2.2 = rng L f.1 ∧ q ≤ f.1 ∧ f.2.1 ≤ h := by
        intro f hf
        by_cases hxq : q < h
        · exact (ih q h e4 q (Nat.le_refl _) hxq).2 f hf
        · have : q = h := by omega
          subst this
          cases fs with
          | nil => cases hf
          | cons g gs =>
              obtain ⟨g1, g2, g3⟩ := g
              simp only [chain] at e4
              have := chain_le L gs g2 q e4.2.2.2
              omega
      refine ⟨?_, ?_⟩
      · by_cases hxq : x < q
        · have hnone : fs.filter (fun f => decide (f.1 ≤ x ∧ x < f.2.1)) = [] := by
            rw [List.filter_eq_nil_iff]
            intro f hf
            have := (hall f hf).2.1
            simp; omega
          rw [List.filter_cons_of_pos (by simp [hx1, hxq]), hnone]; rfl
        · have := (ih q h e4 x (by omega) hx2).1
          rw [List.filter_cons_of_neg (by simp; omega)]; exact this
      · intro f hf
        simp only [List.mem_cons] at hf
        rcases hf with hf | hf
        · subst hf; exact ⟨e3, Nat.le_refl _, hq⟩
        · have := hall f hf
          exact ⟨this.1, by omega, this.2.2⟩

/-- the property of a whole `parallel_scan(range [lo,hi), body)` run -/
def ScanOK (lo hi : Nat) (c : Ctx) : Prop :=
  c.err = false ∧ c.val 0 = rng lo hi ∧ ∃ fs, (finals c.log).Perm fs ∧ chain lo lo fs hi

/-! ### basic heap facts -/

theorem val_setVal_same (c : Ctx) (b : Nat) (v : List Nat) (h : b < c.heap.length) : (c.setVal b v).val b = v := by
  simp [Ctx.setVal, Ctx.val, h]

theorem val_setVal_other (c : Ctx) (b b' : Nat) (v : List Nat) (h : b ≠ b') : (c.setVal b v).val b' = c.val b' := by
  simp [Ctx.setVal, Ctx.val, List.getElem?_set_ne h]

theorem finals_append (l1 l2 : List Ev) : finals (l1 ++ l2) = finals l1 ++ finals l2 := by
  simp [finals]

/-! ### no steal: everything runs sequentially on the one body, in final mode -/

def noSteal (o : Oracle) : Prop := ∀ lo hi, o.stolen lo hi = false

/-- outcome of a task in final mode when nothing is stolen: it final-scans its whole range on `b` -/
structure SeqRes (L lo hi : Nat) (b : Nat) (hasSS : Bool) (c : Ctx) (r : R1) : Prop where
  ret : r.ret = .nil
  zombie : r.zombie = none
  sum : r.sum = (if hasSS then some b else none)
  err : r.ctx.err = c.err
  len : r.ctx.heap.length = c.heap.length
  val : r.ctx.val b = c.val b ++ rng lo hi
  other : ∀ b', b' ≠ b → r.ctx.val b' = c.val b'
  log : ∃ evs, r.ctx.log = c.log ++ evs ∧ (∀ e, e ∈ evs → ∃ x y inc, e = Ev.fin b x y inc) ∧
        (c.val b = rng L lo → chain L lo (finals evs) hi)

theorem finalScan_seq (L lo hi : Nat) (b : Nat) (hasSS : Bool) (c : Ctx) (hlt : lo < hi) (hb : b < c.heap.length)
    (z : Option Nat) (hz : z = none) :
    SeqRes L lo hi b hasSS c ⟨c.finalScan b lo hi, .nil, if hasSS then some b else none, z⟩ := by
  subst hz
  refine ⟨rfl, rfl, rfl, rfl, ?_, ?_, ?_, ?_⟩
  · simp [Ctx.finalScan, Ctx.setVal]
  · simp only [Ctx.finalScan]
    have := val_setVal_same c b (c.val b ++ rng lo hi) hb
    simpa [Ctx.val, Ctx.setVal] using this
  · intro b' hne
    simp only [Ctx.finalScan]
    have := val_setVal_other c b b' (c.val b ++ rng lo hi) (Ne.symm hne)
    simpa [Ctx.val, Ctx.setVal] using this
  · refine ⟨[.fin b lo hi (c.val b)], by simp [Ctx.finalScan, Ctx.setVal], ?_, ?_⟩
    · intro e he; simp at he; exact ⟨lo, hi, c.val b, he⟩
    · intro hv
      simp [finals, chain, hv, hlt]

theorem mid_bounds {g lo hi : Nat} (hg : 1 ≤ g) (h : g < hi - lo) : lo < mid lo hi ∧ mid lo hi < hi := by
  unfold mid; omega

theorem scanTask_seq (g : Nat) (hg : 1 ≤ g) (o : Oracle) (ho : noSteal o) (L : Nat) :
    ∀ (fuel lo hi : Nat) (b : Nat) (hasSS isRight : Bool) (pls : Option Nat) (c : Ctx),
      L ≤ lo → lo < hi → b < c.heap.length → (isRight = true → pls = some b) →
      SeqRes L lo hi b hasSS c (scanTask g o fuel lo hi b true hasSS isRight pls c) := by
  intro fuel
  induction fuel with
  | zero =>
      intro lo hi b hasSS isRight pls c hL0 hlt hb hpls
      have hts : (isRight && (o.stolen lo hi || (some b != pls))) = false := by
        cases isRight with
        | false => rfl
        | true => simp [ho lo hi, hpls rfl]
      unfold scanTask
      simp only [hts, Bool.false_eq_true, ↓reduceIte]
      exact finalScan_seq L lo hi b hasSS c hlt hb none rfl
  | succ fuel ih =>
      intro lo hi b hasSS isRight pls c hL0 hlt hb hpls
      have hts : (isRight && (o.stolen lo hi || (some b != pls))) = false := by
        cases isRight with
        | false => rfl
        | true => simp [ho lo hi, hpls rfl]
      unfold scanTask
      simp only [hts, Bool.false_eq_true, ↓reduceIte]
      split
      · exact finalScan_seq L lo hi b hasSS c hlt hb none rfl
      · rename_i hleaf
        -- the task splits: the left part and then the right child run on `b`
        have hdiv : g < hi - lo := by
          simp at hleaf
          have := hleaf.1.2
          omega
        have hm := mid_bounds hg hdiv
        have hL := ih lo (mid lo hi) b true false none c hL0 hm.1 hb (by intro h; cases h)
        generalize hLr : scanTask g o fuel lo (mid lo hi) b true true false none c = Lr at hL
        obtain ⟨l1, l2, l3, l4, l5, l6, l7, l8⟩ := hL
        simp only [if_true] at l3
        have hR := ih (mid lo hi) hi b hasSS true Lr.sum Lr.ctx (by have := hm.1; omega) hm.2 (by rw [l5]; exact hb) (by intro _; exact l3)
        generalize hRr : scanTask g o fuel (mid lo hi) hi b true hasSS true Lr.sum Lr.ctx = Rr at hR
        obtain ⟨r1, r2, r3, r4, r5, r6, r7, r8⟩ := hR
        simp only [r2, r1, l1, Option.isSome_none, Bool.false_and, Bool.false_or]
        refine ⟨by simp, rfl, ?_, by simp [r4, l4], by simp [r5, l5], ?_, ?_, ?_⟩
        · simp only [r3]; split <;> rfl
        · simp only [Bool.false_eq_true, if_false]
          rw [r6, l6, List.append_assoc, rng_split lo (mid lo hi) hi (by omega) (by omega)]
        · intro b' hne
          simp only [Bool.false_eq_true, if_false]
          rw [r7 b' hne, l7 b' hne]
        · obtain ⟨e1, f1, f2, f3⟩ := l8
          obtain ⟨e2, g1, g2, g3⟩ := r8
          refine ⟨e1 ++ e2, by simp [g1, f1], ?_, ?_⟩
          · intro e he
            simp only [List.mem_append] at he
            rcases he with he | he
            · exact f2 e he
            · exact g2 e he
          · intro hv
            rw [finals_append]
            refine chain_append L _ _ lo (mid lo hi) hi (f3 hv) (g3 ?_)
            rw [l6, hv, rng_split L lo (mid lo hi)]
            · exact hL0
            · omega

/-- no steal anywhere: pass 1 final-scans everything on `temp_body`, no pass 2, `temp_body.assign_to(body)` -/
theorem scan_no_steal (g : Nat) (hg : 1 ≤ g) (o : Oracle) (ho : noSteal o) (lo hi : Nat) (hle : lo ≤ hi) :
    ScanOK lo hi (scan g o lo hi) := by
  unfold scan
  by_cases hlt : lo < hi
  · simp only [hlt, if_true]
    have hc : ((({ heap := [[]] } : Ctx).alloc 0).1.rjoin 1 0).heap.length = 2 := by
      simp [Ctx.alloc, Ctx.rjoin, Ctx.setVal]
    have hv1 : ((({ heap := [[]] } : Ctx).alloc 0).1.rjoin 1 0).val 1 = [] := by
      simp [Ctx.alloc, Ctx.rjoin, Ctx.setVal, Ctx.val]
    have hlog : finals ((({ heap := [[]] } : Ctx).alloc 0).1.rjoin 1 0).log = [] := by
      simp [Ctx.alloc, Ctx.rjoin, Ctx.setVal, finals]
    have herr : ((({ heap := [[]] } : Ctx).alloc 0).1.rjoin 1 0).err = false := by
      simp [Ctx.alloc, Ctx.rjoin, Ctx.setVal]
    have h := scanTask_seq g hg o ho lo (hi - lo) lo hi 1 false false none
      ((({ heap := [[]] } : Ctx).alloc 0).1.rjoin 1 0) (Nat.le_refl _) hlt (by simp [Ctx.alloc, Ctx.rjoin, Ctx.setVal]) (by intro h; cases h)
    have e1 : (({ heap := [[]] } : Ctx).alloc 0).2 = 1 := by simp [Ctx.alloc]
    simp only [e1]
    generalize hr : scanTask g o (hi - lo) lo hi 1 true false false none ((({ heap := [[]] } : Ctx).alloc 0).1.rjoin 1 0) = r at h
    obtain ⟨r1, r2, r3, r4, r5, r6, r7, ⟨evs, r8, r9, r10⟩⟩ := h
    simp only [r1, STree.isNil, if_true]
    refine ⟨?_, ?_, ?_⟩
    · simp [Ctx.assign, Ctx.setVal, r4, herr]
    · have : (r.ctx.assign 0 1).val 0 = r.ctx.val 1 := by
        simp only [Ctx.assign]
        have := val_setVal_same r.ctx 0 (r.ctx.val 1) (by rw [r5]; simp [Ctx.alloc, Ctx.rjoin, Ctx.setVal])
        simpa [Ctx.val, Ctx.setVal] using this
      rw [this, r6, hv1]; simp
    · refine ⟨finals evs, ?_, ?_⟩
      · have : finals (r.ctx.assign 0 1).log = finals evs := by
          simp only [Ctx.assign, Ctx.setVal, r8, finals_append, hlog]
          simp [finals]
        rw [this]
      · exact r10 (by rw [hv1]; simp [rng])
  · have : lo = hi := by omega
    subst this
    simp only [Nat.lt_irrefl, if_false]
    exact ⟨rfl, by simp [Ctx.val, rng], [], by simp [finals], by simp [chain]⟩

end TbbVerif.C06.Scan
