/-
C06 — parallel_scan task protocol: pre-scan events (invariant-free accounting of which ranges have been pre-scanned).
-/
import TbbVerif.Proofs.C06.SPTop

namespace TbbVerif.C06.SP
open Scan (Ctx Ev mid finals)

/-- ranges of the pre-scan events of a log -/
def pres (log : List Ev) : List (Nat × Nat) :=
  log.filterMap (fun e => match e with | .pre _ lo hi => some (lo, hi) | _ => none)

/-- ranges the tree state accounts for as pre-scanned: leaves of non-final tasks with a sum slot whose body call is done -/
def preCov : T → List (Nat × Nat)
  | .task lo hi _ fin ss pc => if !fin && ss && (pc == .ran || pc == .finished) then [(lo, hi)] else []
  | .node _ l r => preCov l ++ preCov r

def hasReady : T → Bool
  | .task _ _ _ _ _ (.ready _ _) => true
  | .task .. => false
  | .node _ l r => hasReady l || hasReady r

theorem pres_append (a b : List Ev) : pres (a ++ b) = pres a ++ pres b := by simp [pres]

theorem preCov_setPrep (t : T) (b : Nat) (i : Option Nat) (s : Bool) : preCov (setPrep t b i s) = preCov t := by
  cases t <;> rfl

theorem hasReady_setPrep (t : T) (b : Nat) (i : Option Nat) (s : Bool) : hasReady (setPrep t b i s) = hasReady t := by
  cases t <;> rfl

/-- what one step does to the pre-scan accounting — for EVERY tree, no invariant needed -/
structure SP1 (c : Ctx) (t : T) (res : Res) : Prop where
  log : ∃ evs, res.c.log = c.log ++ evs ∧ (pres evs ++ preCov t).Perm (preCov res.t) ∧ (pres evs ≠ [] → hasReady t = true ∧ ∃ b lo hi, evs = [.pre b lo hi])

theorem SP1_same {c : Ctx} {t : T} {res : Res} (h1 : res.c.log = c.log) (h2 : preCov res.t = preCov t) : SP1 c t res :=
  ⟨[], by simp [h1], by simp [pres, h2], by simp [pres]⟩

theorem SP1_ev {c : Ctx} {t : T} {res : Res} (e : Ev) (he : pres [e] = []) (h1 : res.c.log = c.log ++ [e]) (h2 : preCov res.t = preCov t) :
    SP1 c t res :=
  ⟨[e], h1, by simp [he, h2], by simp [he]⟩

theorem fail_log (c : Ctx) : c.fail.log = c.log := rfl

theorem SP1_task (g : Nat) (c : Ctx) (a : Act) (lo hi b : Nat) (fin ss : Bool) (pc : Pc) :
    SP1 c (.task lo hi b fin ss pc) (stepTask g c a lo hi b fin ss pc) := by
  cases a with
  | start st =>
      cases pc with
      | spawned r =>
          cases r with
          | true => exact SP1_same rfl rfl
          | false =>
              simp only [stepTask]
              refine SP1_same ?_ (by simp [preCov])
              split <;> rfl
      | _ => exact SP1_same rfl rfl
  | split =>
      cases pc with
      | ready r t =>
          simp only [stepTask]
          split
          · exact SP1_same rfl (by simp [preCov])
          · exact SP1_same rfl rfl
      | _ => exact SP1_same rfl rfl
  | body =>
      cases pc with
      | ready r t =>
          simp only [stepTask]
          split
          · rw [gen_mode]
            cases fin with
            | true => exact SP1_ev (.fin b lo hi (c.val b)) rfl (by simp) (by simp [preCov])
            | false =>
                cases ss with
                | true => exact ⟨[.pre b lo hi], by simp, by simp [pres, preCov], fun _ => ⟨by simp [hasReady], _, _, _, rfl⟩⟩
                | false => exact SP1_same (by simp) (by simp [preCov])
          · exact SP1_same rfl rfl
      | _ => exact SP1_same rfl rfl
  | finish =>
      cases pc with
      | ran => simp only [stepTask]; exact SP1_same rfl (by simp [preCov])
      | _ => exact SP1_same rfl rfl
  | _ => exact SP1_same rfl rfl

theorem stepLeaf_log {c c' : Ctx} {f : Bool} {l l' : L2} {x : Bool} (hs : stepLeaf c f l = some (c', l', x)) :
    ∃ evs, c'.log = c.log ++ evs ∧ pres evs = [] := by
  unfold stepLeaf at hs
  split at hs
  · simp only [Option.some.injEq, Prod.mk.injEq] at hs
    obtain ⟨h1, _, _⟩ := hs
    subst h1
    exact ⟨_, Scan.finalScan_log c _ _ _, rfl⟩
  · simp only [Option.some.injEq, Prod.mk.injEq] at hs
    obtain ⟨h1, _, _⟩ := hs
    subst h1
    split
    · exact ⟨_, Scan.assign_log c _ _, rfl⟩
    · exact ⟨[], by simp, rfl⟩
  · cases hs

theorem SP1_node (c : Ctx) (sv : Option BodyId) (a : Act) (nd : Nd) (l r : T) : SP1 c (.node nd l r) (stepNode c sv a nd l r) := by
  cases a with
  | fexec =>
      simp only [stepNode]
      by_cases hc : nd.ph = .p1 ∧ nd.ref = 0
      · rw [if_pos hc]
        have : ∃ evs, (if Generated.C06.scanFinishJoins nd.z.isSome nd.ss = true then
              match sv, nd.ls with
              | some x, some y => if Generated.C06.scanFinishJoinRecvSlot = true then c.rjoin x y else c.rjoin y x
              | _, _ => c.fail
            else c).log = c.log ++ evs ∧ pres evs = [] := by
          split
          · split
            · split
              · exact ⟨_, Scan.rjoin_log c _ _, rfl⟩
              · exact ⟨_, Scan.rjoin_log c _ _, rfl⟩
            · exact ⟨[], by simp [fail_log], rfl⟩
          · exact ⟨[], by simp, rfl⟩
        obtain ⟨evs, e1, e2⟩ := this
        exact ⟨evs, e1, by simp [e2, preCov], by simp [e2]⟩
      · rw [if_neg hc]; exact SP1_same rfl rfl
  | exec2 =>
      simp only [stepNode]
      split
      · rename_i body inc stuff ls hph hls
        simp only [gen_p2, if_true]
        have h0 : ∃ evs, (match inc with
              | some i => if Generated.C06.scanNodeJoinRecvLeftSum = true then c.rjoin ls i else c.rjoin i ls
              | none => c).log = c.log ++ evs ∧ pres evs = [] := by
          cases inc with
          | none => exact ⟨[], by simp, rfl⟩
          | some i =>
              simp only
              split
              · exact ⟨_, Scan.rjoin_log c _ _, rfl⟩
              · exact ⟨_, Scan.rjoin_log c _ _, rfl⟩
        obtain ⟨evs, e1, e2⟩ := h0
        refine ⟨evs, by split <;> first | exact e1 | (rw [fail_log]; exact e1), ?_, by simp [e2]⟩
        have hl : preCov (if (!nd.lif && isKept l) = true then setPrep l body inc false else l) = preCov l := by split <;> simp [preCov_setPrep]
        have hr : preCov (if isKept r = true then setPrep r ls (some ls) stuff else r) = preCov r := by split <;> simp [preCov_setPrep]
        rw [e2]
        simp only [List.nil_append, preCov, hl, hr]
        exact List.Perm.refl _
      · exact SP1_same rfl rfl
      · exact SP1_same rfl rfl
  | lfin right =>
      simp only [stepNode]
      split
      · split
        · rename_i c' l' x hs
          obtain ⟨evs, e1, e2⟩ := stepLeaf_log hs
          refine ⟨evs, e1, ?_, by simp [e2]⟩
          cases right <;> simp [e2, preCov]
        · exact SP1_same rfl rfl
      · exact SP1_same rfl rfl
  | lend right =>
      simp only [stepNode]
      split
      · split
        · rename_i c' l' x hs
          obtain ⟨evs, e1, e2⟩ := stepLeaf_log hs
          refine ⟨evs, e1, ?_, by simp [e2]⟩
          cases right <;> simp [e2, preCov]
        · exact SP1_same rfl rfl
      · exact SP1_same rfl rfl
  | exec2b => simp only [stepNode]; split <;> exact SP1_same rfl rfl
  | _ => exact SP1_same rfl rfl

theorem SP1_step (g : Nat) (a : Act) : ∀ (t : T) (c : Ctx) (sv : Option BodyId) (p : List Bool), SP1 c t (stepAt g c sv p a t) := by
  intro t
  induction t with
  | task lo hi b fin ss pc =>
      intro c sv p
      cases p with
      | nil => simp only [stepAt]; exact SP1_task g c a lo hi b fin ss pc
      | cons x p => simp only [stepAt]; exact SP1_same rfl rfl
  | node nd l r ihl ihr =>
      intro c sv p
      cases p with
      | nil => simp only [stepAt]; exact SP1_node c sv a nd l r
      | cons x p =>
          cases x with
          | false =>
              simp only [stepAt]
              obtain ⟨evs, e1, e2, e3⟩ := (ihl c nd.ls p).log
              refine ⟨evs, e1, ?_, fun h => ⟨by simp [hasReady, (e3 h).1], (e3 h).2⟩⟩
              simp only [preCov]
              have : pres evs ++ (preCov l ++ preCov r) = (pres evs ++ preCov l) ++ preCov r := by simp
              rw [this]
              exact e2.append_right _
          | true =>
              simp only [stepAt]
              cases hsr : startRight p a r with
              | some v =>
                  obtain ⟨st, lo1, hi1, b1, f1, s1⟩ := v
                  obtain ⟨rfl, rfl, rfl⟩ := startRight_some hsr
                  simp only
                  split
                  · split
                    · exact ⟨_, by rw [Scan.alloc_log]; rfl, by simp [pres, preCov], by simp [pres]⟩
                    · exact ⟨_, by rw [Scan.alloc_log], by simp [pres, preCov], by simp [pres]⟩
                  · refine SP1_same ?_ (by simp [preCov])
                    split <;> rfl
              | none =>
                  simp only
                  obtain ⟨evs, e1, e2, e3⟩ := (ihr c sv p).log
                  refine ⟨evs, e1, ?_, fun h => ⟨by simp [hasReady, (e3 h).1], (e3 h).2⟩⟩
                  simp only [preCov]
                  exact (List.perm_append_comm_assoc _ _ _).trans (List.Perm.append_left _ e2)

end TbbVerif.C06.SP
