/-
C06 — parallel_scan task protocol: every step of pass 1 preserves `I1` (part 1: leaves of the case analysis).
-/
import TbbVerif.Proofs.C06.SPLem

namespace TbbVerif.C06.SP
open Scan (Ctx Ev mid finals finalScan_val preScan_val rjoin_val alloc_val assign_val)

/-- final-scan events `(lo, hi, incoming)` that the tree state accounts for, in range order -/
def leafCov (L lo hi : Nat) : L2 → List (Nat × Nat × List Nat)
  | .ran _ _ => [(lo, hi, rng L lo)]
  | .gone => [(lo, hi, rng L lo)]
  | _ => []

def finCov (L : Nat) : T → List (Nat × Nat × List Nat)
  | .task lo hi _ fin _ pc => if fin && (pc == .ran || pc == .finished) then [(lo, hi, rng L lo)] else []
  | .node nd l r =>
      (finCov L l ++ leafCov L nd.lo (mid nd.lo nd.hi) nd.ll) ++ (finCov L r ++ leafCov L (mid nd.lo nd.hi) nd.hi nd.rl)

local macro "tt" : term => `(by trivial)

structure S1 (c : Ctx) (L g : Nat) (t : T) (b s lo hi : Nat) (fin ss live : Bool) (sv : Option BodyId) (res : Res) : Prop where
  inv : I1 res.c L g res.t b s lo hi fin ss live (if res.sw.isSome then res.sw else sv)
  len : c.heap.length ≤ res.c.heap.length
  frame : ∀ x : Nat, x ≠ b → x ∉ zs t → x < c.heap.length → res.c.val x = c.val x
  znew : ∀ x : Nat, x ∈ zs res.t → x ∈ zs t ∨ c.heap.length ≤ x
  dec : res.dec = (fin1 res.t && !fin1 t)
  sw : res.sw = if ss && rmDone res.t && !rmDone t then some (ex res.t) else none
  rm : rmDone t = true → rmDone res.t = true ∧ ex res.t = ex t
  done : fin1 t = true → res.t = t ∧ res.c = c
  st : started t = true → started res.t = true
  lf : leafOnly t = true → leafOnly res.t = true
  dec2 : res.dec2 = false
  err : res.c.err = c.err
  log : ∃ evs, res.c.log = c.log ++ evs ∧ (finals evs ++ finCov L t).Perm (finCov L res.t)

theorem decPh_false (ph : Ph) : decPh ph false = ph := by cases ph <;> rfl
theorem decRef_false (r : Nat) : decRef r false = r := by simp [decRef]

theorem S1_noop {c : Ctx} {L g : Nat} {t : T} {b s lo hi : Nat} {fin ss live : Bool} {sv : Option BodyId}
    (h : I1 c L g t b s lo hi fin ss live sv) : S1 c L g t b s lo hi fin ss live sv (noop c t) := by
  refine ⟨by simpa [noop] using h, Nat.le_refl _, fun _ _ _ _ => tt, fun x hx => Or.inl hx, ?_, ?_, fun h => ⟨h, tt⟩,
    fun _ => ⟨tt, tt⟩, fun h => h, fun h => h, tt, tt, ⟨[], by simp [noop], by simp [noop]⟩⟩
  · simp [noop]
  · simp [noop]

theorem mid_lt {g lo hi : Nat} (hg : 1 ≤ g) (h : g < hi - lo) : lo < mid lo hi ∧ mid lo hi < hi := by
  unfold mid; omega

/-- the steps of a `start_scan` task at its own position -/
theorem S1_task {c : Ctx} {L g : Nat} (hg : 1 ≤ g) (a : Act) (lo' hi' b' : Nat) (fin' ss' : Bool) (pc : Pc)
    {b s lo hi : Nat} {fin ss live : Bool} {sv : Option BodyId}
    (hns : pc ≠ .spawned true)
    (h : I1 c L g (.task lo' hi' b' fin' ss' pc) b s lo hi fin ss live sv) :
    S1 c L g (.task lo' hi' b' fin' ss' pc) b s lo hi fin ss live sv (stepTask g c a lo' hi' b' fin' ss' pc) := by
  have h0 := h
  simp only [I1] at h
  obtain ⟨h1, h2, h3, h4, h5, h6, h7, h8, h9, h10, h11, h12, h13⟩ := h
  subst h1 h2 h4 h5 h6
  cases a with
  | start st =>
      cases pc with
      | spawned r =>
          cases r with
          | true => exact absurd tt hns
          | false =>
              simp only [stepTask, gen_tas]
              simp only [taskVal] at h13
              refine ⟨?_, Nat.le_refl _, fun _ _ _ _ => tt, fun x hx => Or.inl hx, by simp [fin1], by simp [rmDone],
                fun h => by simp [rmDone] at h, fun h => by simp [fin1] at h, fun _ => tt, fun h => by simp [leafOnly] at h, tt, tt,
                ⟨[], by simp, by simp [finCov]⟩⟩
              simp only [I1, Bool.false_and, Bool.false_eq_true, if_false, Option.isSome_none]
              refine ⟨tt, tt, h3, tt, tt, tt, h7, h8, h9, h10, h11, ?_, ?_⟩
              · intro hs; simpa using h12 hs
              · simp only [taskVal]; exact ⟨h13.1, fun _ => h13.2⟩
      | _ => exact S1_noop h0
  | split =>
      cases pc with
      | ready r t =>
          simp only [stepTask, gen_leaf]
          by_cases hc : ((r && !t) || !decide (g < hi' - lo') || false) = false
          · rw [if_pos hc]
            simp only [Bool.or_false, Bool.or_eq_false_iff, Bool.not_eq_false', decide_eq_true_eq] at hc
            obtain ⟨hc1, hc2⟩ := hc
            simp only [taskVal] at h13
            have hs : s = lo' := h13.2 hc1
            subst hs
            obtain ⟨m1, m2⟩ := mid_lt hg hc2
            refine ⟨?_, Nat.le_refl _, fun _ _ _ _ => tt, fun x hx => by simp [zs] at hx, by simp [fin1], by simp [rmDone],
              fun h => by simp [rmDone] at h, fun h => by simp [fin1] at h, fun _ => tt, fun h => by simp [leafOnly, hc1] at h, tt, tt,
              ⟨[], by simp, by simp [finCov, leafCov]⟩⟩
            simp only [Option.isSome_none, Bool.false_eq_true, if_false]
            simp only [I1, rmDone, fin1, started, isTask, zs, ex]
            refine ⟨tt, tt, hc2, tt, tt, h7, h8, ?_, h10, tt, tt, Or.inl tt, by simp, by simp [b2n], by simp, by simp, by simp, ?_⟩
            · intro hf; have := h9 hf; exact ⟨this.1, this.2⟩
            · simp only [Bool.false_eq_true, if_false]
              refine ⟨tt, ?_, ?_⟩
              · refine ⟨tt, tt, m1, tt, tt, tt, h7, h8, h9, h10, Nat.le_refl _, by simp, ?_⟩
                simp only [taskVal]; exact ⟨h13.1, tt⟩
              · refine ⟨tt, tt, m2, tt, tt, tt, h7, h8, h9, h10, Nat.le_of_lt m1, ?_, by simp [taskVal]⟩
                intro hs; simpa using h12 hs
          · rw [if_neg hc]; exact S1_noop h0
      | _ => exact S1_noop h0
  | body =>
      cases pc with
      | ready r t =>
          have hstep : stepTask g c .body lo' hi' b' fin' ss' (.ready r t) =
              { c := if fin' then c.finalScan b' lo' hi' else if ss' then c.preScan b' lo' hi' else c,
                t := .task lo' hi' b' fin' ss' .ran } := by
            simp only [stepTask, gen_leaf, gen_mode, Bool.or_true, if_true]
            cases fin' <;> cases ss' <;> rfl
          rw [hstep]
          simp only [taskVal] at h13
          have hle : lo' ≤ hi' := Nat.le_of_lt h3
          have hsv : ss' = true → sv = none := by intro hs; simpa using h12 hs
          cases fin' with
          | true =>
              obtain ⟨e1, e2⟩ := h9 rfl
              subst e1
              simp only [↓reduceIte]
              refine ⟨?_, by simp, ?_, fun x hx => Or.inl hx, by simp [fin1], by simp [rmDone],
                fun h => by simp [rmDone] at h, fun h => by simp [fin1] at h, fun _ => rfl, fun _ => rfl, rfl, by simp,
                ⟨[.fin b' lo' hi' (c.val b')], by simp, by simp [finCov, h13.1]⟩⟩
              · simp only [I1, Option.isSome_none, Bool.false_eq_true, if_false]
                refine ⟨tt, tt, h3, tt, tt, tt, by simpa using h7, h8, by simpa using e2, h10, h11, by simpa using hsv, ?_⟩
                simp only [taskVal, Bool.true_or, if_true]
                rw [finalScan_val, if_pos ⟨rfl, h7⟩, h13.1, rng_split _ _ _ h11 hle]
              · intro x hx _ _
                rw [finalScan_val, if_neg (fun h => hx h.1)]
          | false =>
              cases ss' with
              | true =>
                  simp only [↓reduceIte, Bool.false_eq_true]
                  refine ⟨?_, by simp, ?_, fun x hx => Or.inl hx, by simp [fin1], by simp [rmDone],
                    fun h => by simp [rmDone] at h, fun h => by simp [fin1] at h, fun _ => rfl, fun _ => rfl, rfl, by simp,
                    ⟨[.pre b' lo' hi'], by simp, by simp [finCov]⟩⟩
                  · simp only [I1, Option.isSome_none, Bool.false_eq_true, if_false]
                    refine ⟨tt, tt, h3, tt, tt, tt, by simpa using h7, h8, by simp, h10, h11, by simpa using hsv, ?_⟩
                    simp only [taskVal, Bool.or_true, if_true]
                    rw [preScan_val, if_pos ⟨rfl, h7⟩, h13.1, rng_split _ _ _ h11 hle]
                  · intro x hx _ _
                    rw [preScan_val, if_neg (fun h => hx h.1)]
              | false =>
                  simp only [↓reduceIte, Bool.false_eq_true]
                  refine ⟨?_, by simp, fun _ _ _ _ => rfl, fun x hx => Or.inl hx, by simp [fin1], by simp [rmDone],
                    fun h => by simp [rmDone] at h, fun h => by simp [fin1] at h, fun _ => rfl, fun _ => rfl, rfl, rfl,
                    ⟨[], by simp, by simp [finCov]⟩⟩
                  simp only [I1, Option.isSome_none, Bool.false_eq_true, if_false]
                  refine ⟨tt, tt, h3, tt, tt, tt, h7, h8, by simp, h10, h11, by simp, ?_⟩
                  simp only [taskVal, Bool.or_self, Bool.false_eq_true, if_false]
                  exact h13.1
      | _ => exact S1_noop h0
  | finish =>
      cases pc with
      | ran =>
          simp only [stepTask, gen_slot]
          simp only [taskVal] at h13
          refine ⟨?_, Nat.le_refl _, fun _ _ _ _ => tt, fun x hx => Or.inl hx, by simp [fin1], ?_,
            fun h => by simp [rmDone] at h, fun h => by simp [fin1] at h, fun _ => tt, fun _ => tt, tt, tt,
            ⟨[], by simp, by simp [finCov]⟩⟩
          · simp only [I1]
            refine ⟨tt, tt, h3, tt, tt, tt, h7, h8, h9, h10, h11, ?_, ?_⟩
            · intro hs; simp [hs]
            · simp only [taskVal]; exact fun _ => h13
          · cases ss' <;> simp [rmDone, ex]
      | _ => exact S1_noop h0
  | _ => exact S1_noop h0

end TbbVerif.C06.SP
