/-
C06 — parallel_sort: split_range partitions, the quicksort tree sorts, the pretest covers every pair.
-/
import TbbVerif.Model.C06

namespace TbbVerif.C06.QS

/-- strict weak ordering, as a Bool comparator with the axioms as explicit hypotheses -/
structure SWO (lt : Cmp) : Prop where
  irrefl : ∀ x, lt x x = false
  trans : ∀ x y z, lt x y = true → lt y z = true → lt x z = true
  /-- transitivity of "not less" (equivalent to transitivity of incomparability given the other two) -/
  negtrans : ∀ x y z, lt x y = false → lt y z = false → lt x z = false

theorem SWO.asymm {lt : Cmp} (h : SWO lt) {x y : Nat} (hxy : lt x y = true) : lt y x = false := by
  cases hyx : lt y x with
  | false => rfl
  | true => have := h.trans x y x hxy hyx; rw [h.irrefl] at this; cases this

/-- what the partition loop itself needs: an ASYMMETRIC comparator (every strict partial order is one; a strict weak ordering
adds transitivity of incomparability, which only the meaning of "sorted" needs) -/
structure Asym (lt : Cmp) : Prop where
  irrefl : ∀ x, lt x x = false
  asymm : ∀ x y, lt x y = true → lt y x = false

theorem SWO.toAsym {lt : Cmp} (h : SWO lt) : Asym lt := ⟨h.irrefl, fun _ _ hxy => h.asymm hxy⟩

/-- sorted w.r.t. `lt`: no later element is less than an earlier one -/
def Sorted (lt : Cmp) (l : List Nat) : Prop := l.Pairwise (fun x y => lt y x = false)

/-! ### array access and swap -/

theorem el_eq_getElem {a : Array Nat} {k : Nat} (h : k < a.size) : el a k = a[k] := by
  simp [el, h]

theorem el_swap {a : Array Nat} {i j : Nat} (hi : i < a.size) (hj : j < a.size) (k : Nat) :
    el (a.swapIfInBounds i j) k = if k = j then el a i else if k = i then el a j else el a k := by
  simp only [el, Array.getD_eq_getD_getElem?, Array.swapIfInBounds_def, hi, hj, dite_true, Array.getElem?_swap]
  by_cases h1 : k = j
  · subst h1; simp [hi]
  · rw [if_neg (fun e => h1 e.symm), if_neg h1]
    by_cases h2 : k = i
    · subst h2; simp [hj]
    · rw [if_neg (fun e => h2 e.symm), if_neg h2]

theorem swapIfInBounds_perm (a : Array Nat) (i j : Nat) : (a.swapIfInBounds i j).Perm a := by
  rw [Array.swapIfInBounds_def]
  split
  · split
    · exact Array.swap_perm _ _
    · exact Array.Perm.refl _
  · exact Array.Perm.refl _

/-! ### pivot choice -/

theorem med3_mem (lt : Cmp) (a : Array Nat) (l m r : Nat) : med3 lt a l m r = l ∨ med3 lt a l m r = m ∨ med3 lt a l m r = r := by
  unfold med3
  split <;> split <;> (try split) <;> simp

theorem med3_lt (lt : Cmp) (a : Array Nat) {l m r n : Nat} (hl : l < n) (hm : m < n) (hr : r < n) : med3 lt a l m r < n := by
  rcases med3_mem lt a l m r with h | h | h <;> rw [h] <;> assumption

theorem pmed9_lt (lt : Cmp) (a : Array Nat) (h : 0 < a.size) : pmed9 lt a < a.size := by
  unfold pmed9
  simp only [Generated.C06.medianDivisor]
  have : a.size / 8 * 7 < a.size := by omega
  apply med3_lt <;> apply med3_lt <;> omega

/-! ### the two inner scans -/

theorem scanDown_spec (lt : Cmp) (a : Array Nat) : ∀ (j : Nat), (∃ k, k < j ∧ lt (el a 0) (el a k) = false) →
    ∃ j', scanDown lt a j = some j' ∧ j' < j ∧ lt (el a 0) (el a j') = false ∧
      ∀ k, j' < k → k < j → lt (el a 0) (el a k) = true := by
  intro j
  induction j with
  | zero => intro ⟨k, hk, _⟩; omega
  | succ j ih =>
      intro ⟨k, hk, hk'⟩
      simp only [scanDown]
      cases hj : lt (el a 0) (el a j) with
      | false =>
          refine ⟨j, by simp, by omega, hj, ?_⟩
          intro k h1 h2; omega
      | true =>
          have hkj : k < j := by
            by_cases e : k = j
            · subst e; rw [hj] at hk'; cases hk'
            · omega
          obtain ⟨j', e1, e2, e3, e4⟩ := ih ⟨k, hkj, hk'⟩
          refine ⟨j', by simpa using e1, by omega, e3, ?_⟩
          intro k' h1 h2
          by_cases e : k' = j
          · subst e; exact hj
          · exact e4 k' h1 (by omega)

theorem scanUpF_spec (lt : Cmp) (a : Array Nat) : ∀ (d i : Nat),
    ((scanUpF lt a d i).2 = true → (scanUpF lt a d i).1 = i + d ∧ ∀ k, i < k → k ≤ i + d → lt (el a k) (el a 0) = true) ∧
    ((scanUpF lt a d i).2 = false → i < (scanUpF lt a d i).1 ∧ (scanUpF lt a d i).1 ≤ i + d ∧
        lt (el a (scanUpF lt a d i).1) (el a 0) = false ∧
        ∀ k, i < k → k < (scanUpF lt a d i).1 → lt (el a k) (el a 0) = true) := by
  intro d
  induction d with
  | zero =>
      intro i
      simp only [scanUpF]
      refine ⟨fun _ => ⟨rfl, ?_⟩, fun h => by cases h⟩
      intro k h1 h2; omega
  | succ d ih =>
      intro i
      simp only [scanUpF]
      cases hc : lt (el a (i + 1)) (el a 0) with
      | true =>
          simp only [if_true]
          obtain ⟨h1, h2⟩ := ih (i + 1)
          refine ⟨?_, ?_⟩
          · intro ht
            obtain ⟨e1, e2⟩ := h1 ht
            refine ⟨by omega, ?_⟩
            intro k hk1 hk2
            by_cases e : k = i + 1
            · subst e; exact hc
            · exact e2 k (by omega) (by omega)
          · intro hf
            obtain ⟨e1, e2, e3, e4⟩ := h2 hf
            refine ⟨by omega, by omega, e3, ?_⟩
            intro k hk1 hk2
            by_cases e : k = i + 1
            · subst e; exact hc
            · exact e4 k (by omega) hk2
      | false =>
          simp only [Bool.false_eq_true, if_false]
          refine ⟨fun h => (by cases h), ?_⟩
          intro _
          refine ⟨by omega, by omega, hc, ?_⟩
          intro k h1 h2; omega

theorem scanUp_spec (lt : Cmp) (a : Array Nat) (j : Nat) : ∀ (i : Nat), i ≤ j →
    ((scanUp lt a j i).2 = true → (scanUp lt a j i).1 = j ∧ ∀ k, i < k → k ≤ j → lt (el a k) (el a 0) = true) ∧
    ((scanUp lt a j i).2 = false → i < (scanUp lt a j i).1 ∧ (scanUp lt a j i).1 ≤ j ∧
        lt (el a (scanUp lt a j i).1) (el a 0) = false ∧
        ∀ k, i < k → k < (scanUp lt a j i).1 → lt (el a k) (el a 0) = true) := by
  intro i hle
  unfold scanUp
  have h := scanUpF_spec lt a (j - i) i
  have e : i + (j - i) = j := by omega
  rw [e] at h
  exact h

/-! ### the partition loop -/

theorem partLoop_spec (lt : Cmp) (hs : Asym lt) (n key : Nat) : ∀ (fuel : Nat) (a : Array Nat) (i j : Nat),
    a.size = n → i < j → j ≤ n → j ≤ fuel → el a 0 = key →
    (∀ k, 1 ≤ k → k ≤ i → lt key (el a k) = false) →
    (∀ k, j ≤ k → k < n → lt (el a k) key = false) →
    ∃ a' j', partLoop lt fuel a i j = some (a', j') ∧ a'.Perm a ∧ a'.size = n ∧ el a' 0 = key ∧ j' < n ∧
      (∀ k, 1 ≤ k → k ≤ j' → lt key (el a' k) = false) ∧
      (∀ k, j' < k → k < n → lt (el a' k) key = false) := by
  intro fuel
  induction fuel with
  | zero => intro a i j _ h1 _ h2; omega
  | succ fuel ih =>
      intro a i j hsz hij hjn hfuel hkey hlow hhigh
      -- the downward scan stops at or above `i`
      have hex : ∃ k, k < j ∧ lt (el a 0) (el a k) = false := by
        by_cases h0 : i = 0
        · exact ⟨0, by omega, by rw [hkey]; exact hs.irrefl key⟩
        · exact ⟨i, hij, by rw [hkey]; exact hlow i (by omega) (by omega)⟩
      obtain ⟨j', e1, e2, e3, e4⟩ := scanDown_spec lt a j hex
      rw [hkey] at e3 e4
      have hij' : i ≤ j' := by
        by_cases h0 : i = 0
        · omega
        · by_cases hc : j' < i
          · have := e4 i hc hij
            rw [hlow i (by omega) (by omega)] at this; cases this
          · omega
      have hhigh' : ∀ k, j' < k → k < n → lt (el a k) key = false := by
        intro k h1 h2
        by_cases hk : k < j
        · exact hs.asymm _ _ (e4 k h1 hk)
        · exact hhigh k (by omega) h2
      simp only [partLoop, e1]
      rw [if_neg (by omega)]
      obtain ⟨u1, u2⟩ := scanUp_spec lt a j' i hij'
      rw [hkey] at u1 u2
      generalize hsu : scanUp lt a j' i = su at u1 u2
      obtain ⟨i', hit⟩ := su
      simp only at u1 u2 ⊢
      cases hit with
      | true =>
          simp only [if_true]
          obtain ⟨_, v2⟩ := u1 rfl
          refine ⟨a, j', rfl, Array.Perm.refl _, hsz, hkey, by omega, ?_, hhigh'⟩
          intro k h1 h2
          by_cases hk : k ≤ i
          · exact hlow k h1 hk
          · exact hs.asymm _ _ (v2 k (by omega) h2)
      | false =>
          simp only [Bool.false_eq_true, if_false]
          obtain ⟨v1, v2, v3, v4⟩ := u2 rfl
          by_cases hieq : i' = j'
          · rw [if_pos hieq]
            refine ⟨a, j', rfl, Array.Perm.refl _, hsz, hkey, by omega, ?_, hhigh'⟩
            intro k h1 h2
            by_cases hk : k ≤ i
            · exact hlow k h1 hk
            · by_cases hk2 : k = j'
              · subst hk2; exact e3
              · exact hs.asymm _ _ (v4 k (by omega) (by omega))
          · rw [if_neg hieq]
            have hi'n : i' < a.size := by omega
            have hj'n : j' < a.size := by omega
            have hsw := fun k => el_swap hi'n hj'n k
            obtain ⟨a', jj, r1, r2, r3, r4, r5, r6, r7⟩ :=
              ih (a.swapIfInBounds i' j') i' j' (by simp [hsz]) (by omega) (by omega) (by omega)
                (by rw [hsw 0, if_neg (by omega), if_neg (by omega)]; exact hkey)
                (by
                  intro k h1 h2
                  rw [hsw k, if_neg (by omega)]
                  by_cases hk : k = i'
                  · rw [if_pos hk]; exact e3
                  · rw [if_neg hk]
                    by_cases hk2 : k ≤ i
                    · exact hlow k h1 hk2
                    · exact hs.asymm _ _ (v4 k (by omega) (by omega)))
                (by
                  intro k h1 h2
                  rw [hsw k]
                  by_cases hk : k = j'
                  · rw [if_pos hk]; exact v3
                  · rw [if_neg hk, if_neg (by omega)]
                    exact hhigh' k (by omega) h2)
            exact ⟨a', jj, r1, r2.trans (swapIfInBounds_perm a i' j'), r3, r4, r5, r6, r7⟩

/-- `split_range` on a non-empty array and a strict weak order: never leaves the array; the result is a
permutation; everything left of the pivot position is not greater than the pivot, everything right
of it is not less; the pivot position is inside the array. -/
theorem splitRange_spec (lt : Cmp) (hs : Asym lt) (a : Array Nat) (hn : 0 < a.size) :
    ∃ a' j, splitRange lt a = some (a', j) ∧ a'.Perm a ∧ a'.size = a.size ∧ j < a.size ∧
      (∀ k, k < j → lt (el a' j) (el a' k) = false) ∧
      (∀ k, j < k → k < a.size → lt (el a' k) (el a' j) = false) := by
  unfold splitRange
  rw [if_neg (by omega)]
  simp only
  generalize ha1 : (if pmed9 lt a ≠ 0 then a.swapIfInBounds 0 (pmed9 lt a) else a) = a1
  have hp1 : a1.Perm a := by
    rw [← ha1]; split
    · exact swapIfInBounds_perm _ _ _
    · exact Array.Perm.refl _
  have hsz1 : a1.size = a.size := by
    rw [← ha1]; split <;> simp
  obtain ⟨a2, j, r1, r2, r3, r4, r5, r6, r7⟩ :=
    partLoop_spec lt hs a1.size (el a1 0) a1.size a1 0 a1.size rfl (by omega) (Nat.le_refl _) (Nat.le_refl _) rfl
      (by intro k h1 h2; omega) (by intro k h1 h2; omega)
  rw [r1]
  simp only
  have hj2 : j < a2.size := by omega
  have h02 : 0 < a2.size := by omega
  have hsw := fun k => el_swap hj2 h02 k
  refine ⟨_, _, rfl, (swapIfInBounds_perm a2 j 0).trans (r2.trans hp1), by simp [r3, hsz1], by omega, ?_, ?_⟩
  · intro k hk
    rw [hsw j, hsw k]
    by_cases hj0 : j = 0
    · omega
    · rw [if_neg hj0, if_pos rfl, r4]
      by_cases hk0 : k = 0
      · rw [if_pos hk0]; exact r6 j (by omega) (Nat.le_refl _)
      · rw [if_neg hk0, if_neg (by omega)]; exact r6 k (by omega) (by omega)
  · intro k h1 h2
    rw [hsw j, hsw k]
    have hk0 : k ≠ 0 := by omega
    rw [if_neg hk0, if_neg (by omega)]
    by_cases hj0 : j = 0
    · rw [if_pos hj0]; subst hj0; rw [r4]; exact r7 k h1 (by omega)
    · rw [if_neg hj0, if_pos rfl, r4]; exact r7 k h1 (by omega)

end TbbVerif.C06.QS
