/-
C06 — parallel_scan task protocol: every step of pass 1 preserves `I1` (part 4: the induction over the position).
-/
import TbbVerif.Proofs.C06.SPStep1c

namespace TbbVerif.C06.SP
open Scan (Ctx Ev mid finals finalScan_val preScan_val rjoin_val alloc_val assign_val)

local macro "tt" : term => `(by trivial)

theorem I1_phases {c : Ctx} {L g : Nat} {nd : Nd} {l r : T} {b s lo hi : Nat} {fin ss live : Bool} {sv : Option BodyId}
    (h : I1 c L g (.node nd l r) b s lo hi fin ss live sv) : nd.ph = .p1 ∨ nd.ph = .kept ∨ nd.ph = .dropped := by
  simp only [I1] at h; exact h.2.2.2.2.2.2.2.2.2.2.2.1

/-- step in the LEFT subtree of a node -/
theorem S1_left {c : Ctx} {L g : Nat} {nd : Nd} {l r : T} {b s lo hi : Nat} {fin ss live : Bool} {sv : Option BodyId}
    (a : Act) (p : List Bool)
    (ihl : ∀ (b s lo hi : Nat) (fin ss live : Bool) (sv : Option BodyId),
      I1 c L g l b s lo hi fin ss live sv → S1 c L g l b s lo hi fin ss live sv (stepAt g c sv p a l))
    (h : I1 c L g (.node nd l r) b s lo hi fin ss live sv) :
    S1 c L g (.node nd l r) b s lo hi fin ss live sv (stepAt g c sv (false :: p) a (.node nd l r)) := by
  have hlt := I1_zs_lt _ _ _ _ _ _ _ _ _ h
  have h0 := h
  obtain ⟨nlo, nhi, nref, nz, nss, nls, nlif, nph, nll, nrl⟩ := nd
  simp only [I1] at h
  obtain ⟨h1, h2, h3, h4, h5, h6, h7, h8, h9, h10, h11, h12, h13, h14, h15, h16, h17, hz⟩ := h
  simp only [stepAt]
  cases nz with
  | none =>
      simp only at hz
      by_cases hst : started r = true
      · -- the right child continues on the same body: the left subtree is quiet
        rw [if_pos hst] at hz
        obtain ⟨k1, k2, k3, k4⟩ := hz
        have sq := SQ_step (c := c) a l p nls lo (mid lo hi) k2
        generalize stepAt g c nls p a l = res at sq
        obtain ⟨rc, rt, rdec, rsw, rdec2, rok⟩ := res
        obtain ⟨q1, q2, q3, q4, q5, q6, q7⟩ := sq
        simp only at q1 q2 q3 q4 q5 q6 q7
        subst q1 q4 q5
        simp only [Option.isSome_none, Bool.false_eq_true, if_false, decPh_false]
        have hm : fin1 l = true → fin1 rt = true := fun hf => by rw [q6 hf]; exact hf
        have e1 := Quiet_ex _ _ _ k2
        have e2 := Quiet_ex _ _ _ q2
        refine ⟨?_, Nat.le_refl _, fun _ _ _ _ => rfl, ?_, by simp [fin1], by simp [rmDone], fun hr => ⟨by simpa [rmDone] using hr, by simp [ex]⟩,
          ?_, fun _ => rfl, fun hf => by simp [leafOnly] at hf, rfl, rfl, ⟨[], by simp, by simp [finCov, q7 L]⟩⟩
        · simp only [I1]
          refine ⟨h1, h2, h3, h4, h5, h6, h7, h8, h9, h10, h11, h12, by rw [h13, e1.1, e1.2, e2.1, e2.2], ref_upd h14 q3 hm, ?_, h16, ?_, ?_⟩
          · intro hp
            obtain ⟨a1, a2, a3, a4⟩ := h15 hp
            rw [q6 a1]; exact ⟨a1, a2, a3, a4⟩
          · simpa [zs, Quiet_zs _ _ _ q2, Quiet_zs _ _ _ k2] using h17
          · rw [if_pos hst]
            exact ⟨k1, q2, k3, k4⟩
        · intro x hx
          left
          simpa [zs, Quiet_zs _ _ _ q2, Quiet_zs _ _ _ k2] using hx
        · intro hf
          have hp : nph ≠ .p1 := by simpa [fin1] using hf
          have a1 := (h15 hp).1
          have hd : rdec = false := by rw [q3, q6 a1]; simp
          subst hd
          rw [q6 a1]
          exact ⟨by simp [decRef_false], rfl⟩
      · rw [if_neg hst] at hz
        obtain ⟨k1, zl, zr⟩ := hz
        obtain ⟨rlo, rhi, rb, rfin, rss, rfl⟩ := not_started_shape hst
        have hp1 : nph = .p1 := by
          rcases h12 with hp | hp | hp
          · exact hp
          · have := (h15 (by rw [hp]; simp)).2.1; simp [fin1] at this
          · have := (h15 (by rw [hp]; simp)).2.1; simp [fin1] at this
        subst hp1
        have ih := ihl _ _ _ _ _ _ _ _ zl
        generalize stepAt g c nls p a l = res at ih
        obtain ⟨rc, rt, rdec, rsw, rdec2, rok⟩ := res
        obtain ⟨i1, i2, i3, i4, i5, i6, i7, i8, i9, i10, i11, i12, i13⟩ := ih
        simp only at i1 i2 i3 i4 i5 i6 i7 i8 i9 i10 i11 i12 i13
        subst i11
        have hm : fin1 l = true → fin1 rt = true := fun hf => by rw [(i8 hf).1]; exact hf
        have hnd0 : (zs l ++ zs (T.task rlo rhi rb rfin rss (.spawned true))).Nodup := by simpa [zs] using h17
        refine ⟨?_, i2, ?_, ?_, by simp [fin1, decPh_false], by simp [rmDone], fun hr => by simp [rmDone] at hr,
          fun hf => by simp [fin1] at hf, fun _ => rfl, fun hf => by simp [leafOnly] at hf, rfl, i12, ?_⟩
        · simp only [Option.isSome_none, Bool.false_eq_true, if_false, decPh_false]
          simp only [I1]
          refine ⟨h1, h2, h3, h4, h5, Nat.lt_of_lt_of_le h6 i2, h7, h8, h9, h10, h11, tt, I1_sv _ _ _ _ _ _ _ _ _ i1 rfl,
            ref_upd h14 i5 hm, by simp, by simpa using h16, ?_, ?_⟩
          · have := I1_nodup i1
            simpa [zs] using this
          · rw [if_neg hst]
            exact ⟨k1, i1, I1_spawned_heap i2 zr⟩
        · intro x hx1 hx2 hx3
          exact i3 x hx1 (fun hm => hx2 (by simp [zs, hm])) hx3
        · intro x hx
          have : x ∈ zs rt := by simpa [zs] using hx
          rcases i4 x this with h' | h'
          · left; simp [zs, h']
          · exact Or.inr h'
        · obtain ⟨evs, e1, e2⟩ := i13
          exact ⟨evs, e1, by simp only [finCov]; exact perm_left e2⟩
  | some z =>
      simp only at hz
      obtain ⟨z1, z2, z3, zl, zr, z6⟩ := hz
      have hnd : (z :: (zs l ++ zs r)).Nodup := by simpa [zs] using h17
      have ih := ihl _ _ _ _ _ _ _ _ zl
      generalize stepAt g c nls p a l = res at ih
      obtain ⟨rc, rt, rdec, rsw, rdec2, rok⟩ := res
      obtain ⟨i1, i2, i3, i4, i5, i6, i7, i8, i9, i10, i11, i12, i13⟩ := ih
      simp only at i1 i2 i3 i4 i5 i6 i7 i8 i9 i10 i11 i12 i13
      subst i11
      have hm : fin1 l = true → fin1 rt = true := fun hf => by rw [(i8 hf).1]; exact hf
      have hzr : ∀ x : Nat, (x = z ∨ x ∈ zs r) → rc.val x = c.val x := by
        intro x hx
        have hx' : x ∈ zs (T.node ⟨nlo, nhi, nref, some z, nss, nls, nlif, nph, nll, nrl⟩ l r) := by
          rcases hx with hx | hx
          · simp [zs, hx]
          · simp [zs, hx]
        have hb := hlt x hx'
        refine i3 x (by omega) ?_ hb.2
        intro hxl
        rcases hx with hx | hx
        · subst hx
          exact (List.nodup_cons.mp hnd).1 (List.mem_append_left _ hxl)
        · exact (List.nodup_append.mp (List.nodup_cons.mp hnd).2).2.2 x hxl x hx rfl
      refine ⟨?_, i2, ?_, ?_, by simp [fin1, decPh_false], by simp [rmDone], fun hr => ⟨by simpa [rmDone] using hr, by simp [ex]⟩,
        ?_, fun _ => rfl, fun hf => by simp [leafOnly] at hf, rfl, i12, ?_⟩
      · simp only [Option.isSome_none, Bool.false_eq_true, if_false, decPh_false]
        simp only [I1]
        refine ⟨h1, h2, h3, h4, h5, Nat.lt_of_lt_of_le h6 i2, h7, h8, h9, h10, h11, h12, I1_sv _ _ _ _ _ _ _ _ _ i1 rfl,
          ref_upd h14 i5 hm, ?_, h16, ?_, ?_⟩
        · intro hp
          obtain ⟨a1, a2, a3, a4⟩ := h15 hp
          rw [(i8 a1).1]; exact ⟨a1, a2, a3, a4⟩
        · have hn1 := I1_nodup i1
          have hzn : ∀ x, x ∈ zs r → x < c.heap.length := fun x hx => (hlt x (by simp [zs, hx])).2
          have h2' := nodup_upd_l (List.nodup_cons.mp hnd).2 hn1 i4 hzn
          simp only [zs, Option.toList_some, List.cons_append, List.nil_append]
          refine List.nodup_cons.mpr ⟨?_, h2'⟩
          intro hmem
          rcases List.mem_append.mp hmem with hmem | hmem
          · rcases i4 z hmem with h' | h'
            · exact (List.nodup_cons.mp hnd).1 (List.mem_append_left _ h')
            · exact Nat.lt_irrefl _ (Nat.lt_of_lt_of_le z2 h')
          · exact (List.nodup_cons.mp hnd).1 (List.mem_append_right _ hmem)
        · refine ⟨z1, Nat.lt_of_lt_of_le z2 i2, z3, i1, I1_frame i2 _ _ _ _ _ _ _ _ _ hzr zr, ?_⟩
          intro hp hl hs
          rw [((i8 (h15 hp).1)).2]
          exact z6 hp hl hs
      · intro x hx1 hx2 hx3
        exact i3 x hx1 (fun hm => hx2 (by simp [zs, hm])) hx3
      · intro x hx
        have : x = z ∨ x ∈ zs rt ∨ x ∈ zs r := by simpa [zs] using hx
        rcases this with h' | h' | h'
        · left; simp [zs, h']
        · rcases i4 x h' with h'' | h''
          · left; simp [zs, h'']
          · exact Or.inr h''
        · left; simp [zs, h']
      · intro hf
        have hp : nph ≠ .p1 := by simpa [fin1] using hf
        have a1 := (h15 hp).1
        have hd : rdec = false := by rw [i5, (i8 a1).1]; simp
        subst hd
        have hsw : rsw = none := by rw [i6, (i8 a1).1]; simp
        subst hsw
        rw [(i8 a1).1, (i8 a1).2]
        exact ⟨by simp [decRef_false, decPh_false], rfl⟩
      · obtain ⟨evs, e1, e2⟩ := i13
        exact ⟨evs, e1, by simp only [finCov]; exact perm_left e2⟩

end TbbVerif.C06.SP
