/-
C06 — parallel_scan task protocol, pass 2: replacing one half (a final_sum leaf or a kept child) of a running sum_node.
-/
import TbbVerif.Proofs.C06.SP2Step

namespace TbbVerif.C06.SP
open Scan (Ctx Ev mid finals finalScan_val preScan_val rjoin_val alloc_val assign_val)

local macro "tt" : term => `(by trivial)

/-- the state of the RIGHT half of a running sum_node changes (its leaf, or its kept child `r → r'`) -/
theorem I2_set_right {c c' : Ctx} {L HI g : Nat} {nlo nhi nref : Nat} {nz : Option BodyId} {nss nlif : Bool} {y : Nat} {k' : Nat} {nph nph' : Ph}
    {nll nrl nrl' : L2} {l r r' : T} {lo hi : Nat} {fm : Bool} {body : Nat} {inc : Option Nat} {stuff : Bool}
    (h : I2 c L HI g (.node ⟨nlo, nhi, nref, nz, nss, some y, nlif, nph, nll, nrl⟩ l r) lo hi fm (.act body inc stuff))
    (hnph : (∃ k, nph = .run2 k) ∨ nph = .gone) (hnph' : nph' = .run2 k' ∨ (nph' = .gone ∧ k' = 0))
    (hl : c'.heap.length = c.heap.length)
    (hfr : ∀ x : Nat, x ≠ y → (x = 0 → stuff = false) → x ∉ lsK r → c'.val x = c.val x)
    (hkr : isKept r' = isKept r) (hlsk : lsK r' = lsK r) (hdead : isKept r = false → r' = r)
    (hright : if isKept r then nrl' = .none ∧ I2 c' L HI g r' (mid lo hi) hi false (.act y (some y) stuff)
              else leafOK c' L y (mid lo hi) hi stuff nrl')
    (hk' : k' = b2n (!rightDone ⟨nlo, nhi, nref, nz, nss, some y, nlif, nph', nll, nrl'⟩ r') + b2n (!leftDone ⟨nlo, nhi, nref, nz, nss, some y, nlif, nph, nll, nrl⟩ l))
    (hu : stuff = true → rightDone ⟨nlo, nhi, nref, nz, nss, some y, nlif, nph', nll, nrl'⟩ r' = true → c'.val 0 = rng L HI) :
    I2 c' L HI g (.node ⟨nlo, nhi, nref, nz, nss, some y, nlif, nph', nll, nrl'⟩ l r') lo hi fm (.act body inc stuff) := by
  have hk : isKept (T.node ⟨nlo, nhi, nref, nz, nss, some y, nlif, nph, nll, nrl⟩ l r) = true := by
    rcases hnph with ⟨k, hh⟩ | hh <;> simp [isKept, hh]
  have hk2 : isKept (T.node ⟨nlo, nhi, nref, nz, nss, some y, nlif, nph', nll, nrl'⟩ l r') = true := by
    rcases hnph' with hh | ⟨hh, _⟩ <;> simp [isKept, hh]
  have hK : lsK (T.node ⟨nlo, nhi, nref, nz, nss, some y, nlif, nph', nll, nrl'⟩ l r') =
      lsK (T.node ⟨nlo, nhi, nref, nz, nss, some y, nlif, nph, nll, nrl⟩ l r) := by
    rw [lsK_node_kept hk, lsK_node_kept hk2, hlsk]
  rcases hnph with ⟨k, rfl⟩ | rfl <;> rcases hnph' with rfl | ⟨rfl, rfl⟩ <;> (
  simp only [I2] at h ⊢
  obtain ⟨h1, h2, h3, h4, h5, h6, h7, h8, h9, d1, d2, n1, n2, y1, k1, c1, c2, c3, c4, c5, c6, rp, lp, u1⟩ := h
  have hnd : (y :: (lsK l ++ lsK r)).Nodup := by rw [lsK_node_kept hk] at n1; simpa using n1
  have hyK := lsK_self hk rfl
  have hbody : fm = false → c'.val body = c.val body := by
    intro hf
    have hbn := c6 hf
    refine hfr body (fun he => hbn (he ▸ hyK)) (fun he => absurd he c5) (fun hm => hbn (lsK_sub_r hk hm))
  have hlk : ∀ x, x ∈ lsK l → c'.val x = c.val x := by
    intro x hx
    refine hfr x ?_ (fun he => absurd he (n2 x (lsK_sub_l hk hx)).2) ?_
    · intro he; subst he; exact (List.nodup_cons.mp hnd).1 (List.mem_append_left _ hx)
    · intro hm; exact (List.nodup_append.mp (List.nodup_cons.mp hnd).2).2.2 x hx x hm rfl
  refine ⟨h1, h2, h3, h4, h5, h6, h7, h8, h9, d1, ?_, by rw [hK]; exact n1, by rw [hK]; exact fun x hx => hl ▸ n2 x hx, y1, ?_,
    c1, c2, c3, hl ▸ c4, c5, by rw [hK]; exact c6, ?_, ?_, hu⟩
  · intro hk'; rw [hkr] at hk'; rw [hdead hk']; exact d2 hk'
  · refine ⟨_, by first | exact Or.inl rfl | exact Or.inr ⟨by trivial, by trivial⟩ | simp, ?_⟩
    simp only [rightDone, leftDone] at hk' ⊢
    exact hk'
  · rw [hkr]; exact hright
  · split at lp
    · rename_i hlif; rw [if_pos hlif]; exact lp
    · rename_i hlif
      rw [if_neg hlif]
      split at lp
      · rename_i hkl
        rw [if_pos hkl]
        refine ⟨lp.1, I2_frame hl _ _ _ _ _ ?_ lp.2⟩
        intro x hx
        simp only [fp2, Bool.false_eq_true, if_false, List.append_nil, List.mem_append] at hx
        rcases hx with hx | hx
        · cases fm with
          | true => simp at hx
          | false => simp only [Bool.false_eq_true, if_false, List.mem_singleton] at hx; rw [hx]; exact hbody rfl
        · exact hlk x hx
      · rename_i hkl
        rw [if_neg hkl]
        exact ⟨lp.1, leafOK_frame (hbody lp.1) lp.2⟩)

/-- the state of the LEFT half of a running sum_node changes -/
theorem I2_set_left {c c' : Ctx} {L HI g : Nat} {nlo nhi nref : Nat} {nz : Option BodyId} {nss nlif : Bool} {y : Nat} {k' : Nat} {nph nph' : Ph}
    {nll nll' nrl : L2} {l l' r : T} {lo hi : Nat} {fm : Bool} {body : Nat} {inc : Option Nat} {stuff : Bool}
    (h : I2 c L HI g (.node ⟨nlo, nhi, nref, nz, nss, some y, nlif, nph, nll, nrl⟩ l r) lo hi fm (.act body inc stuff))
    (hnph : (∃ k, nph = .run2 k) ∨ nph = .gone) (hnph' : nph' = .run2 k' ∨ (nph' = .gone ∧ k' = 0))
    (hl : c'.heap.length = c.heap.length)
    (hfr : ∀ x : Nat, x ∉ lsK l → (fm = false → x ≠ body) → c'.val x = c.val x)
    (hkl : isKept l' = isKept l) (hlsk : lsK l' = lsK l) (hdead : isKept l = false → l' = l)
    (hleft : if nlif then nll' = .none
             else if isKept l then nll' = .none ∧ I2 c' L HI g l' lo (mid lo hi) fm (.act body inc false)
             else fm = false ∧ leafOK c' L body lo (mid lo hi) false nll')
    (hk' : k' = b2n (!rightDone ⟨nlo, nhi, nref, nz, nss, some y, nlif, nph, nll, nrl⟩ r) + b2n (!leftDone ⟨nlo, nhi, nref, nz, nss, some y, nlif, nph', nll', nrl⟩ l')) :
    I2 c' L HI g (.node ⟨nlo, nhi, nref, nz, nss, some y, nlif, nph', nll', nrl⟩ l' r) lo hi fm (.act body inc stuff) := by
  have hk : isKept (T.node ⟨nlo, nhi, nref, nz, nss, some y, nlif, nph, nll, nrl⟩ l r) = true := by
    rcases hnph with ⟨k, hh⟩ | hh <;> simp [isKept, hh]
  have hk2 : isKept (T.node ⟨nlo, nhi, nref, nz, nss, some y, nlif, nph', nll', nrl⟩ l' r) = true := by
    rcases hnph' with hh | ⟨hh, _⟩ <;> simp [isKept, hh]
  have hK : lsK (T.node ⟨nlo, nhi, nref, nz, nss, some y, nlif, nph', nll', nrl⟩ l' r) =
      lsK (T.node ⟨nlo, nhi, nref, nz, nss, some y, nlif, nph, nll, nrl⟩ l r) := by
    rw [lsK_node_kept hk, lsK_node_kept hk2, hlsk]
  rcases hnph with ⟨k, rfl⟩ | rfl <;> rcases hnph' with rfl | ⟨rfl, rfl⟩ <;> (
  simp only [I2] at h ⊢
  obtain ⟨h1, h2, h3, h4, h5, h6, h7, h8, h9, d1, d2, n1, n2, y1, k1, c1, c2, c3, c4, c5, c6, rp, lp, u1⟩ := h
  have hnd : (y :: (lsK l ++ lsK r)).Nodup := by rw [lsK_node_kept hk] at n1; simpa using n1
  have hyK := lsK_self hk rfl
  have hynl : y ∉ lsK l := fun hm => (List.nodup_cons.mp hnd).1 (List.mem_append_left _ hm)
  have hy : c'.val y = c.val y := hfr y hynl (fun hf he => c6 hf (he ▸ hyK))
  have h0 : c'.val 0 = c.val 0 := hfr 0 (fun hm => (n2 0 (lsK_sub_l hk hm)).2 rfl) (fun _ he => c5 he.symm)
  have hrk : ∀ x, x ∈ lsK r → c'.val x = c.val x := by
    intro x hx
    refine hfr x ?_ (fun hf he => c6 hf (he ▸ lsK_sub_r hk hx))
    intro hm; exact (List.nodup_append.mp (List.nodup_cons.mp hnd).2).2.2 x hm x hx rfl
  refine ⟨h1, h2, h3, h4, h5, h6, h7, ?_, ?_, ?_, d2, by rw [hK]; exact n1, by rw [hK]; exact fun x hx => hl ▸ n2 x hx, y1, ?_,
    c1, c2, c3, hl ▸ c4, c5, by rw [hK]; exact c6, ?_, ?_, ?_⟩
  · rw [hkl]; exact h8
  · intro hlif'; have h' := h9 hlif'; rw [hdead h'.1]; exact h'
  · intro hk'; rw [hkl] at hk'; rw [hdead hk']; exact d1 hk'
  · refine ⟨_, by first | exact Or.inl rfl | exact Or.inr ⟨by trivial, by trivial⟩ | simp, ?_⟩
    simp only [rightDone, leftDone] at hk' ⊢
    exact hk'
  · split at rp
    · rename_i hkr
      rw [if_pos hkr]
      refine ⟨rp.1, I2_frame hl _ _ _ _ _ ?_ rp.2⟩
      intro x hx
      simp only [fp2, Bool.false_eq_true, if_false, List.mem_append, List.mem_singleton] at hx
      rcases hx with (hx | hx) | hx
      · rw [hx]; exact hy
      · split at hx
        · simp only [List.mem_singleton] at hx; rw [hx]; exact h0
        · cases hx
      · exact hrk x hx
    · rename_i hkr
      rw [if_neg hkr]
      exact leafOK_frame hy rp
  · rw [hkl]; exact hleft
  · intro hs hd
    rw [h0]
    exact u1 hs (by simpa [rightDone] using hd))

end TbbVerif.C06.SP
