/-
C06 — parallel_deterministic_reduce: the value computed is `detTerm` for every schedule.
-/
import TbbVerif.Proofs.C06.Reduce

namespace TbbVerif.C06.Det

theorem detTerm_some {g : Nat} {st : Bool} {v : Val} {lo hi d mid dl dr : Nat}
    (h : splitOf g st lo hi d = some (mid, dl, dr)) :
    detTerm g st v lo hi d = .join (detTerm g st v lo mid dl) (detTerm g st .init mid hi dr) := by
  rw [detTerm]
  split
  · rename_i mid' dl' dr' h'
    rw [h] at h'
    simp at h'
    obtain ⟨h1, h2, h3⟩ := h'
    subst h1 h2 h3
    rfl
  · rename_i h'
    rw [h] at h'
    simp at h'

theorem detTerm_none {g : Nat} {st : Bool} {v : Val} {lo hi d : Nat}
    (h : splitOf g st lo hi d = none) : detTerm g st v lo hi d = .run v lo hi := by
  rw [detTerm]
  split
  · rename_i h'
    rw [h] at h'
    simp at h'
  · rfl

def cnt : Tree → Nat
  | .gone => 0
  | _ => 1

/-- the value the body at this position will have when the subtree is done -/
def eval (g : Nat) (st : Bool) (acc : Val) : Tree → Val
  | .task lo hi d => if lo < hi then detTerm g st acc lo hi d else acc
  | .node _ rb l r => .join (eval g st acc l) (eval g st rb r)
  | .gone => acc

def WF : Tree → Prop
  | .task lo hi _ => lo ≤ hi
  | .node ref _ l r => ref = cnt l + cnt r ∧ WF l ∧ WF r
  | .gone => True

structure StepInv (g : Nat) (st : Bool) (acc : Val) (t : Tree) (res : Res) : Prop where
  wf : WF res.tree
  val : eval g st res.acc res.tree = eval g st acc t
  dec_gone : res.dec = true → res.tree = .gone ∧ t ≠ .gone
  nodec : res.dec = false → cnt res.tree = cnt t

theorem noop_inv (g : Nat) (st : Bool) (acc : Val) (t : Tree) (h : WF t) : StepInv g st acc t (noop acc t) :=
  ⟨h, rfl, by simp [noop], by simp [noop]⟩

theorem cnt_gone_of_dec {t t' : Tree} (h1 : t' = .gone) (h2 : t ≠ .gone) : cnt t = cnt t' + 1 := by
  subst h1; cases t <;> simp_all [cnt]

theorem ref_update {ref : Nat} {t t' other : Tree} {dec : Bool}
    (i6 : dec = true → t' = .gone ∧ t ≠ .gone) (i7 : dec = false → cnt t' = cnt t) :
    (ref = cnt t + cnt other → decRef ref dec = cnt t' + cnt other) ∧
    (ref = cnt other + cnt t → decRef ref dec = cnt other + cnt t') := by
  cases hd : dec with
  | true =>
      obtain ⟨g1, g2⟩ := i6 hd
      have := cnt_gone_of_dec g1 g2
      simp [decRef]; omega
  | false =>
      have := i7 hd
      simp [decRef]; omega

theorem stepAt_inv (g : Nat) (st : Bool) : ∀ (t : Tree) (p : List Bool) (acc : Val) (a : Act),
    WF t → StepInv g st acc t (stepAt g st acc p a t) := by
  intro t
  induction t with
  | gone =>
      intro p acc a h
      have : stepAt g st acc p a .gone = noop acc .gone := by cases p <;> simp [stepAt]
      rw [this]; exact noop_inv g st _ _ h
  | task lo hi d =>
      intro p acc a h
      cases p with
      | cons b p => simp only [stepAt]; exact noop_inv g st _ _ h
      | nil =>
          simp only [WF] at h
          simp only [stepAt]
          cases a with
          | fold => exact noop_inv g st _ _ h
          | offer =>
              simp only
              cases hs : splitOf g st lo hi d with
              | none => exact noop_inv g st _ _ h
              | some x =>
                  obtain ⟨mid, dl, dr⟩ := x
                  have hb := splitOf_bounds hs
                  refine ⟨by simp [WF, cnt]; omega, ?_, by simp, by simp [cnt]⟩
                  simp only [eval]
                  rw [if_pos hb.1, if_pos hb.2, if_pos (by omega), detTerm_some hs]
          | run =>
              simp only
              split
              · rename_i hc
                refine ⟨by simp [WF], ?_, by simp, by simp [cnt]⟩
                simp only [eval]
                rw [if_pos hc.1, if_neg (by omega), detTerm_none hc.2]
              · exact noop_inv g st _ _ h
          | finish =>
              simp only
              split
              · rename_i hc
                refine ⟨by simp [WF], ?_, by simp, by simp⟩
                simp only [eval]
                rw [if_neg (by omega)]
              · exact noop_inv g st _ _ h
  | node ref rb l r ihl ihr =>
      intro p acc a hwf
      have h := hwf
      simp only [WF] at h
      obtain ⟨href, hwl, hwr⟩ := h
      cases p with
      | nil =>
          simp only [stepAt]
          split
          · rename_i h0
            obtain ⟨_, h0⟩ := h0
            have hl : l = .gone := by cases l <;> simp_all [cnt] <;> omega
            have hr : r = .gone := by cases r <;> simp_all [cnt] <;> omega
            subst hl hr
            exact ⟨by simp [WF], by simp [eval], by simp, by simp⟩
          · exact noop_inv g st _ _ hwf
      | cons b p =>
          cases b with
          | false =>
              have ih := ihl p acc a hwl
              simp only [stepAt]
              generalize stepAt g st acc p a l = res at ih
              obtain ⟨i1, i2, i3, i4⟩ := ih
              refine ⟨?_, ?_, by simp, by simp [cnt]⟩
              · simp only [WF]; exact ⟨(ref_update i3 i4).1 href, i1, hwr⟩
              · simp only [eval]; rw [i2]
          | true =>
              have ih := ihr p rb a hwr
              simp only [stepAt]
              generalize stepAt g st rb p a r = res at ih
              obtain ⟨i1, i2, i3, i4⟩ := ih
              refine ⟨?_, ?_, by simp, by simp [cnt]⟩
              · simp only [WF]; exact ⟨(ref_update i3 i4).2 href, hwl, i1⟩
              · simp only [eval]; rw [i2]

theorem eval_run (g : Nat) (st : Bool) (lo hi d : Nat) (sched : List (List Bool × Act)) :
    WF (run g st lo hi d sched).tree ∧
    eval g st (run g st lo hi d sched).root (run g st lo hi d sched).tree =
      (if lo < hi then detTerm g st .init lo hi d else .init) := by
  unfold run
  have : ∀ (sched : List (List Bool × Act)) (s : St), WF s.tree →
      WF (sched.foldl (step g st) s).tree ∧
      eval g st (sched.foldl (step g st) s).root (sched.foldl (step g st) s).tree = eval g st s.root s.tree := by
    intro sched
    induction sched with
    | nil => intro s h; exact ⟨h, rfl⟩
    | cons pa rest ih =>
        intro s h
        have h1 := stepAt_inv g st s.tree pa.1 s.root pa.2 h
        have := ih (step g st s pa) h1.wf
        simp only [List.foldl_cons]
        refine ⟨this.1, ?_⟩
        rw [this.2]
        exact h1.val
  have h0 : WF (init lo hi d).tree := by
    unfold init; split <;> simp [WF]; omega
  have := this sched _ h0
  refine ⟨this.1, ?_⟩
  rw [this.2]
  unfold init
  split
  · rename_i h; simp [eval, h]
  · simp [eval]

/-- in-order leaves of the split/join tree are the range in order -/
theorem flat_detTerm (g : Nat) (st : Bool) : ∀ (n : Nat) (v : Val) (lo hi d : Nat), hi - lo ≤ n → lo ≤ hi →
    flat (detTerm g st v lo hi d) = flat v ++ rng lo hi := by
  intro n
  induction n with
  | zero =>
      intro v lo hi d hn hle
      have hs : splitOf g st lo hi d = none := by
        cases h : splitOf g st lo hi d with
        | none => rfl
        | some x => obtain ⟨m, a, b⟩ := x; have := splitOf_bounds h; omega
      rw [detTerm_none hs]; simp [flat]
  | succ n ih =>
      intro v lo hi d hn hle
      cases hs : splitOf g st lo hi d with
      | none => rw [detTerm_none hs]; simp [flat]
      | some x =>
          obtain ⟨mid, dl, dr⟩ := x
          have hb := splitOf_bounds hs
          rw [detTerm_some hs]
          simp only [flat]
          rw [ih v lo mid dl (by omega) (by omega), ih .init mid hi dr (by omega) (by omega)]
          simp only [flat, List.nil_append, List.append_assoc]
          rw [rng_split lo mid hi (by omega) (by omega)]

end TbbVerif.C06.Det
