/-
C06 — parallel_scan task protocol, pass 2: the induction over the position; coverage of a completed pass 2.
-/
import TbbVerif.Proofs.C06.SP2Main

namespace TbbVerif.C06.SP
open Scan (Ctx Ev mid finals finalScan_val preScan_val rjoin_val alloc_val assign_val)

local macro "tt" : term => `(by trivial)

theorem S2_same {c : Ctx} {L HI g : Nat} {t : T} {lo hi : Nat} {fm : Bool} {e : Exp} {res : Res}
    (h : I2 c L HI g t lo hi fm e) (h1 : res.c = c) (h2 : res.t = t) (h3 : res.dec = false) (h4 : res.sw = none) (h5 : res.dec2 = false) :
    S2 c L HI g t lo hi fm e res := by
  obtain ⟨rc, rt, rdec, rsw, rdec2, rok⟩ := res
  simp only at h1 h2 h3 h4 h5
  subst h1 h2 h3 h4 h5
  exact ⟨h, rfl, fun _ _ => rfl, rfl, rfl, by simp, fun h => h, rfl, rfl, rfl, ⟨[], by simp, by simp⟩⟩

theorem startRight_none_of_not_spawned {p : List Bool} {a : Act} {r : T}
    (h : ∀ lo hi b fin ss, r ≠ .task lo hi b fin ss (.spawned true)) : startRight p a r = none := by
  cases hs : startRight p a r with
  | none => rfl
  | some v =>
      obtain ⟨st, lo1, hi1, b1, f1, s1⟩ := v
      exact absurd (startRight_some hs).2.2 (h _ _ _ _ _)

theorem Idle_not_spawned {r : T} (h : Idle r) : ∀ lo hi b fin ss, r ≠ .task lo hi b fin ss (.spawned true) := by
  intro lo hi b fin ss he
  subst he
  simp [Idle] at h

/-- **every step of pass 2 preserves the invariant** -/
theorem S2_step {c : Ctx} {L HI g : Nat} (hg : 1 ≤ g) (a : Act) : ∀ (t : T) (p : List Bool) (sv : Option BodyId) (lo hi : Nat) (fm : Bool)
    (body : Nat) (inc : Option Nat) (stuff : Bool),
    I2 c L HI g t lo hi fm (.act body inc stuff) → S2 c L HI g t lo hi fm (.act body inc stuff) (stepAt g c sv p a t) := by
  intro t
  induction t with
  | task => intro p sv lo hi fm body inc stuff h; simp [I2] at h
  | node nd l r ihl ihr =>
      intro p sv lo hi fm body inc stuff h
      cases p with
      | nil => simp only [stepAt]; exact S2_self hg a sv h
      | cons x p =>
      have h0 := h
      obtain ⟨nlo, nhi, nref, nz, nss, nls, nlif, nph, nll, nrl⟩ := nd
      cases nls with
      | none => simp [I2] at h
      | some y =>
      -- an unchanged child leaves the node unchanged
      have same_l : Idle l → S2 c L HI g (.node ⟨nlo, nhi, nref, nz, nss, some y, nlif, nph, nll, nrl⟩ l r) lo hi fm (.act body inc stuff)
          (stepAt g c sv (false :: p) a (.node ⟨nlo, nhi, nref, nz, nss, some y, nlif, nph, nll, nrl⟩ l r)) := by
        intro hi'
        obtain ⟨e1, e2, e3, e4, e5⟩ := Idle_step g c a l (some y) p hi'
        refine S2_same h0 ?_ ?_ rfl rfl rfl
        · simp only [stepAt, e1]
        · simp only [stepAt, e2, e3, e4, e5, decRef_false, decPh_false]; simp
      have same_r : Idle r → S2 c L HI g (.node ⟨nlo, nhi, nref, nz, nss, some y, nlif, nph, nll, nrl⟩ l r) lo hi fm (.act body inc stuff)
          (stepAt g c sv (true :: p) a (.node ⟨nlo, nhi, nref, nz, nss, some y, nlif, nph, nll, nrl⟩ l r)) := by
        intro hi'
        obtain ⟨e1, e2, e3, e4, e5⟩ := Idle_step g c a r sv p hi'
        have hsr := startRight_none_of_not_spawned (p := p) (a := a) (Idle_not_spawned hi')
        refine S2_same h0 ?_ ?_ ?_ ?_ ?_
        · simp only [stepAt, hsr, e1]
        · simp only [stepAt, hsr, e2, e3, e5, decRef_false, decPh_false]
        · simp only [stepAt, hsr]
        · simp only [stepAt, hsr, e4]
        · simp only [stepAt, hsr]
      have hcases : (∃ b' i' s', nph = .prep b' i' s') ∨ (∃ k, nph = .run2 k) ∨ nph = .gone := by
        cases nph with
        | prep b' i' s' => exact Or.inl ⟨_, _, _, rfl⟩
        | run2 k => exact Or.inr (Or.inl ⟨_, rfl⟩)
        | gone => exact Or.inr (Or.inr rfl)
        | _ =>
            simp only [I2] at h
            obtain ⟨_, _, _, _, _, _, _, _, _, _, _, _, _, _, ⟨k, hk, _⟩, _⟩ := h
            rcases hk with hk | hk
            · cases hk
            · cases hk.1
      rcases hcases with ⟨b', i', s', rfl⟩ | hrun
      · -- prepared, not yet executed: both children are still idle
        simp only [I2] at h
        obtain ⟨h1, h2, h3, h4, h5, h6, h7, h8, h9, d1, d2, n1, n2, y1, p1, p2, p3, c1, c2, c3, c4, c5, c6, v1, e1, e2, i1, i2⟩ := h
        have hil : Idle l := by
          cases hk : isKept l with
          | true => exact I2_idle _ _ _ _ (i1 hk)
          | false => exact Dead_idle _ (d1 hk).1
        have hir : Idle r := by
          cases hk : isKept r with
          | true => exact I2_idle _ _ _ _ (i2 hk)
          | false => exact Dead_idle _ (d2 hk).1
        cases x with
        | false => exact same_l hil
        | true => exact same_r hir
      · have hk : isKept (T.node ⟨nlo, nhi, nref, nz, nss, some y, nlif, nph, nll, nrl⟩ l r) = true := by
          rcases hrun with ⟨k, rfl⟩ | rfl <;> rfl
        have hparts : ∃ k, (nph = .run2 k ∨ (nph = .gone ∧ k = 0)) ∧
            k = b2n (!rightDone ⟨nlo, nhi, nref, nz, nss, some y, nlif, nph, nll, nrl⟩ r) + b2n (!leftDone ⟨nlo, nhi, nref, nz, nss, some y, nlif, nph, nll, nrl⟩ l) ∧
            (isKept l = false → Dead l) ∧ (isKept r = false → Dead r) ∧ (nlif = true → isKept l = false) ∧
            (if isKept r then nrl = .none ∧ I2 c L HI g r (mid lo hi) hi false (.act y (some y) stuff) else True) ∧
            (if nlif then True else if isKept l then nll = .none ∧ I2 c L HI g l lo (mid lo hi) fm (.act body inc false) else True) ∧
            (∀ x, x ∈ lsK (T.node ⟨nlo, nhi, nref, nz, nss, some y, nlif, nph, nll, nrl⟩ l r) → x ≠ 0) ∧
            (fm = false → body ∉ lsK (T.node ⟨nlo, nhi, nref, nz, nss, some y, nlif, nph, nll, nrl⟩ l r)) := by
          rcases hrun with ⟨k, rfl⟩ | rfl <;>
          · simp only [I2] at h
            obtain ⟨h1, h2, h3, h4, h5, h6, h7, h8, h9, d1, d2, n1, n2, y1, ⟨k0, hk0, k1⟩, c1, c2, c3, c4, c5, c6, rp, lp, u1⟩ := h
            refine ⟨k0, ?_, k1, fun hh => (d1 hh).1, fun hh => (d2 hh).1, fun hh => (h9 hh).1, ?_, ?_, fun x hx => (n2 x hx).2, c6⟩
            · rcases hk0 with hk0 | ⟨hg', hk0⟩
              · exact Or.inl hk0
              · exact Or.inr ⟨by first | exact hg' | rfl, hk0⟩
            · split at rp
              · rename_i hh; rw [if_pos hh]; exact rp
              · rename_i hh; rw [if_neg hh]; trivial
            · split at lp
              · rename_i hh; rw [if_pos hh]; trivial
              · rename_i hh
                rw [if_neg hh]
                split at lp
                · rename_i hh2; rw [if_pos hh2]; exact lp
                · rename_i hh2; rw [if_neg hh2]; trivial
        obtain ⟨k, hph, k1, dl, dr, h9', rp, lp, nz0, c6⟩ := hparts
        have hyK := lsK_self hk rfl
        cases x with
        | true =>
            cases hkr : isKept r with
            | false => exact same_r (Dead_idle _ (dr hkr))
            | true =>
                rw [if_pos hkr] at rp
                obtain ⟨rp1, rp2⟩ := rp
                subst rp1
                have hnsp : ∀ lo hi b fin ss, r ≠ .task lo hi b fin ss (.spawned true) := by
                  intro lo hi b fin ss he; subst he; simp [isKept] at hkr
                have hsr := startRight_none_of_not_spawned (p := p) (a := a) hnsp
                have ih := ihr p sv _ _ _ _ _ _ rp2
                simp only [stepAt, hsr]
                generalize stepAt g c sv p a r = res at ih
                obtain ⟨rc, rt, rdec, rsw, rdec2, rok⟩ := res
                obtain ⟨i1, i2, i3, i4, i5, i6, i7, i8, i9, i10, i11⟩ := ih
                simp only at i1 i2 i3 i4 i5 i6 i7 i8 i9 i10 i11
                subst i8 i9
                simp only [decRef_false]
                have hkr' : isKept rt = true := by rw [i5, hkr]
                have hk2 : isKept (T.node ⟨nlo, nhi, nref, nz, nss, some y, nlif, decPh nph rdec2, nll, .none⟩ l rt) = true := by
                  rcases hph with rfl | ⟨rfl, _⟩ <;> cases rdec2 <;> rfl
                have hsub : ∀ x, x ∈ fp2 r false (.act y (some y) stuff) → x ∈ fp2 (T.node ⟨nlo, nhi, nref, nz, nss, some y, nlif, nph, nll, .none⟩ l r) fm (.act body inc stuff) := by
                  intro x hx
                  simp only [fp2, Bool.false_eq_true, if_false, List.mem_append, List.mem_singleton] at hx ⊢
                  rcases hx with (hx | hx) | hx
                  · exact Or.inr (hx ▸ hyK)
                  · exact Or.inl (Or.inr hx)
                  · exact Or.inr (lsK_sub_r hk hx)
                refine ⟨?_, i2, fun x hx => i3 x (fun hm => hx (hsub x hm)), ?_, by rw [hk, hk2], ?_, ?_, rfl, rfl, i10, ?_⟩
                · -- the invariant
                  have hk'' : (if rdec2 then k - 1 else k) = b2n (!rightDone ⟨nlo, nhi, nref, nz, nss, some y, nlif, decPh nph rdec2, nll, .none⟩ rt) +
                      b2n (!leftDone ⟨nlo, nhi, nref, nz, nss, some y, nlif, nph, nll, .none⟩ l) := by
                    have k1' := k1
                    simp only [rightDone, hkr, hkr', if_true] at k1' ⊢
                    rw [i6]
                    cases hg1 : phGone r <;> cases hg2 : phGone rt <;> simp [hg1, hg2, b2n] at k1' i7 ⊢ <;> omega
                  refine I2_set_right (k' := if rdec2 then k - 1 else k) (nph := nph) (nph' := decPh nph rdec2) h0 ?_ ?_ i2 ?_ i5 i4
                    (fun hh => by rw [hkr] at hh; cases hh) ?_ hk'' ?_
                  · rcases hph with hh | ⟨hh, _⟩
                    · exact Or.inl ⟨_, hh⟩
                    · exact Or.inr hh
                  · rcases hph with rfl | ⟨rfl, hk0⟩
                    · cases rdec2 <;> simp [decPh]
                    · subst hk0
                      right
                      cases rdec2 <;> simp [decPh]
                  · intro x hx1 hx2 hx3
                    refine i3 x ?_
                    simp only [fp2, Bool.false_eq_true, if_false, List.mem_append, List.mem_singleton, not_or]
                    refine ⟨⟨hx1, ?_⟩, hx3⟩
                    split
                    · rename_i hs; simp only [List.mem_singleton]; intro he; have := hx2 he; rw [hs] at this; cases this
                    · simp
                  · rw [if_pos hkr]; exact ⟨tt, i1⟩
                  · intro hs hd
                    simp only [rightDone, hkr', if_true] at hd
                    exact I2_gone_user i1 hd hs
                · rw [lsK_node_kept hk, lsK_node_kept hk2, i4]
                · rcases hph with rfl | ⟨rfl, _⟩ <;> cases rdec2 <;> simp [phGone, decPh]
                · rcases hph with rfl | ⟨rfl, _⟩ <;> cases rdec2 <;> simp [phGone, decPh]
                · obtain ⟨evs, e1, e2⟩ := i11
                  exact ⟨evs, e1, by simp only [finCov]; exact perm_right e2⟩
        | false =>
            rcases Bool.eq_false_or_eq_true nlif with hlif | hlif
            · exact same_l (Dead_idle _ (dl (h9' hlif)))
            cases hkl : isKept l with
            | false => exact same_l (Dead_idle _ (dl hkl))
            | true =>
                rw [hlif] at lp
                simp only [Bool.false_eq_true, if_false] at lp
                rw [if_pos hkl] at lp
                obtain ⟨lp1, lp2⟩ := lp
                subst lp1
                have ih := ihl p (some y) _ _ _ _ _ _ lp2
                simp only [stepAt]
                generalize stepAt g c (some y) p a l = res at ih
                obtain ⟨rc, rt, rdec, rsw, rdec2, rok⟩ := res
                obtain ⟨i1, i2, i3, i4, i5, i6, i7, i8, i9, i10, i11⟩ := ih
                simp only at i1 i2 i3 i4 i5 i6 i7 i8 i9 i10 i11
                subst i8 i9
                simp only [decRef_false, Option.isSome_none, Bool.false_eq_true, if_false]
                have hkl' : isKept rt = true := by rw [i5, hkl]
                have hk2 : isKept (T.node ⟨nlo, nhi, nref, nz, nss, some y, nlif, decPh nph rdec2, .none, nrl⟩ rt r) = true := by
                  rcases hph with rfl | ⟨rfl, _⟩ <;> cases rdec2 <;> rfl
                have hsub : ∀ x, x ∈ fp2 l fm (.act body inc false) → x ∈ fp2 (T.node ⟨nlo, nhi, nref, nz, nss, some y, nlif, nph, .none, nrl⟩ l r) fm (.act body inc stuff) := by
                  intro x hx
                  simp only [fp2, Bool.false_eq_true, if_false, List.append_nil, List.mem_append] at hx ⊢
                  rcases hx with hx | hx
                  · exact Or.inl (Or.inl hx)
                  · exact Or.inr (lsK_sub_l hk hx)
                refine ⟨?_, i2, fun x hx => i3 x (fun hm => hx (hsub x hm)), ?_, by rw [hk, hk2], ?_, ?_, rfl, rfl, i10, ?_⟩
                · have hk'' : (if rdec2 then k - 1 else k) = b2n (!rightDone ⟨nlo, nhi, nref, nz, nss, some y, nlif, nph, .none, nrl⟩ r) +
                      b2n (!leftDone ⟨nlo, nhi, nref, nz, nss, some y, nlif, decPh nph rdec2, .none, nrl⟩ rt) := by
                    have k1' := k1
                    simp only [leftDone, hkl, hkl', hlif, if_true, Bool.false_or] at k1' ⊢
                    rw [i6]
                    cases hg1 : phGone l <;> cases hg2 : phGone rt <;> simp [hg1, hg2, b2n] at k1' i7 ⊢ <;> omega
                  refine I2_set_left (k' := if rdec2 then k - 1 else k) (nph := nph) (nph' := decPh nph rdec2) h0 ?_ ?_ i2 ?_ i5 i4
                    (fun hh => by rw [hkl] at hh; cases hh) ?_ hk''
                  · rcases hph with hh | ⟨hh, _⟩
                    · exact Or.inl ⟨_, hh⟩
                    · exact Or.inr hh
                  · rcases hph with rfl | ⟨rfl, hk0⟩
                    · cases rdec2 <;> simp [decPh]
                    · subst hk0
                      right
                      cases rdec2 <;> simp [decPh]
                  · intro x hx1 hx2
                    refine i3 x ?_
                    simp only [fp2, Bool.false_eq_true, if_false, List.append_nil, List.mem_append, not_or]
                    refine ⟨?_, hx1⟩
                    cases hfm : fm with
                    | true => simp
                    | false => simp only [Bool.false_eq_true, if_false, List.mem_singleton]; exact hx2 hfm
                  · rw [hlif]
                    simp only [Bool.false_eq_true, if_false]
                    rw [if_pos hkl]; exact ⟨tt, i1⟩
                · rw [lsK_node_kept hk, lsK_node_kept hk2, i4]
                · rcases hph with rfl | ⟨rfl, _⟩ <;> cases rdec2 <;> simp [phGone, decPh]
                · rcases hph with rfl | ⟨rfl, _⟩ <;> cases rdec2 <;> simp [phGone, decPh]
                · obtain ⟨evs, e1, e2⟩ := i11
                  exact ⟨evs, e1, by simp only [finCov]; exact perm_left e2⟩

end TbbVerif.C06.SP
