/-
C06 — parallel_deterministic_reduce: the static_partitioner split is defined for every size (binary32 model of C05), and the
split/join tree really depends on the partition divisor (= the arena's max_concurrency at entry).
-/
import TbbVerif.Proofs.C06.Det
import TbbVerif.Proofs.C05.PropSplit

namespace TbbVerif.C06.Det

theorem static_propOK (d : Nat) (h1 : 1 < d) (h2 : d < 2 ^ 24) : C05.PropOK (d - d / 2) (d / 2) := by
  unfold C05.PropOK
  omega

/-- for static_partitioner every divisible range below 2^64 elements IS split while the divisor exceeds 1, at a point
strictly inside the range: the guard of the model never suppresses a split the code performs -/
theorem splitOf_static_some (g lo hi d : Nat) (hg : 1 ≤ g) (hdiv : g < hi - lo) (hsz : hi - lo < 2 ^ 64) (h1 : 1 < d) (h2 : d < 2 ^ 24) :
    ∃ mid, splitOf g true lo hi d = some (mid, d - d / 2, d / 2) ∧ lo < mid ∧ mid < hi := by
  obtain ⟨rp, e1⟩ := C05.propRightPart_isSome (hi - lo) (d - d / 2) (d / 2) (by omega) hsz (static_propOK d h1 h2)
  obtain ⟨e2, e3⟩ := C05.propRightPart_bounds (hi - lo) (d - d / 2) (d / 2) rp (by omega) (static_propOK d h1 h2) e1
  refine ⟨hi - rp, ?_, by omega, by omega⟩
  unfold splitOf
  rw [if_pos hdiv]
  simp only [if_true, if_pos h1, propRight, e1]
  rw [if_pos ⟨by omega, by omega⟩]

theorem detTerm_static_one (g : Nat) (v : Val) (lo hi : Nat) : detTerm g true v lo hi 1 = .run v lo hi := by
  apply detTerm_none
  unfold splitOf
  split
  · simp
  · rfl

theorem splitOf_simple (g lo hi d : Nat) :
    splitOf g false lo hi d = if g < hi - lo ∧ 0 < (hi - lo) / 2 then some (lo + (hi - lo) / 2, d, d) else none := by
  unfold splitOf
  by_cases h1 : g < hi - lo
  · by_cases h2 : 0 < (hi - lo) / 2
    · simp [h1, h2]
    · simp [h1, h2]
  · simp [h1]

/-- simple_partitioner: the tree does not depend on the divisor at all -/
theorem detTerm_simple_indep (g : Nat) : ∀ (n : Nat) (v : Val) (lo hi d d' : Nat), hi - lo ≤ n →
    detTerm g false v lo hi d = detTerm g false v lo hi d' := by
  intro n
  induction n with
  | zero =>
      intro v lo hi d d' h
      have e1 : splitOf g false lo hi d = none := by rw [splitOf_simple]; simp; omega
      have e2 : splitOf g false lo hi d' = none := by rw [splitOf_simple]; simp; omega
      rw [detTerm_none e1, detTerm_none e2]
  | succ n ih =>
      intro v lo hi d d' h
      by_cases hc : g < hi - lo ∧ 0 < (hi - lo) / 2
      · have e1 : splitOf g false lo hi d = some (lo + (hi - lo) / 2, d, d) := by rw [splitOf_simple, if_pos hc]
        have e2 : splitOf g false lo hi d' = some (lo + (hi - lo) / 2, d', d') := by rw [splitOf_simple, if_pos hc]
        rw [detTerm_some e1, detTerm_some e2, ih v lo _ d d' (by omega), ih .init _ hi d d' (by omega)]
      · have e1 : splitOf g false lo hi d = none := by rw [splitOf_simple, if_neg hc]
        have e2 : splitOf g false lo hi d' = none := by rw [splitOf_simple, if_neg hc]
        rw [detTerm_none e1, detTerm_none e2]

end TbbVerif.C06.Det
