/-
C06 — parallel_scan task protocol: consequences of the pass-1 invariant (exit value, quiet subtrees, dead frames).
-/
import TbbVerif.Proofs.C06.SPDefs

namespace TbbVerif.C06.SP
open Scan (Ctx Ev mid)

theorem I1_nodup {c : Ctx} {L g : Nat} {t : T} {b s lo hi : Nat} {fin ss live : Bool} {sv : Option BodyId}
    (h : I1 c L g t b s lo hi fin ss live sv) : (zs t).Nodup := by
  cases t with
  | task => simp [zs]
  | node nd l r => simp only [I1] at h; exact h.2.2.2.2.2.2.2.2.2.2.2.2.2.2.2.2.1

theorem started_of_fin1_task {t : T} (h1 : isTask t = true) (h2 : fin1 t = true) : started t = true := by
  cases t with
  | task lo hi b fin ss pc =>
      cases pc with
      | spawned r => simp [fin1] at h2
      | _ => rfl
  | node => rfl

theorem I1_fin1_rmDone {c : Ctx} {L g : Nat} : ∀ (t : T) (b s lo hi : Nat) (fin ss live : Bool) (sv : Option BodyId),
    I1 c L g t b s lo hi fin ss live sv → fin1 t = true → rmDone t = true := by
  intro t
  induction t with
  | task => intro b s lo hi fin ss live sv _ h; simpa [fin1, rmDone] using h
  | node nd l r _ ihr =>
      intro b s lo hi fin ss live sv h hf
      simp only [I1] at h
      obtain ⟨h1, h2, h3, h4, h5, h6, h7, h8, h9, h10, h11, h12, h13, h14, h15, h16, h17, hz⟩ := h
      have hp : nd.ph ≠ .p1 := by simpa [fin1] using hf
      have hfr := (h15 hp).2.1
      simp only [rmDone]
      cases hzz : nd.z with
      | none =>
          rw [hzz] at hz
          simp only at hz
          have hst := started_of_fin1_task hz.1 hfr
          rw [if_pos hst] at hz
          exact ihr _ _ _ _ _ _ _ _ hz.2.2.2 hfr
      | some z =>
          rw [hzz] at hz
          simp only at hz
          exact ihr _ _ _ _ _ _ _ _ hz.2.2.2.2.1 hfr

/-- **exit value**: a completed subtree with a sum slot leaves, in the body its slot points to, the reduction of its whole
range (prefixed by what its entry body held) -/
theorem I1_post {c : Ctx} {L g : Nat} : ∀ (t : T) (b s lo hi : Nat) (fin ss : Bool) (sv : Option BodyId),
    I1 c L g t b s lo hi fin ss true sv → fin1 t = true → ss = true → c.val (ex t) = rng s hi := by
  intro t
  induction t with
  | task lo' hi' b' fin' ss' pc =>
      intro b s lo hi fin ss sv h hf hs
      simp only [I1] at h
      obtain ⟨h1, h2, h3, h4, h5, h6, h7, h8, h9, h10, h11, h12, h13⟩ := h
      have hpc : pc = .finished := by simpa [fin1] using hf
      subst hpc
      simp only [taskVal] at h13
      simp only [ex, h4]
      have := h13 trivial
      simpa [hs] using this
  | node nd l r _ ihr =>
      intro b s lo hi fin ss sv h hf hs
      simp only [I1] at h
      obtain ⟨h1, h2, h3, h4, h5, h6, h7, h8, h9, h10, h11, h12, h13, h14, h15, h16, h17, hz⟩ := h
      have hp : nd.ph ≠ .p1 := by simpa [fin1] using hf
      have hfr := (h15 hp).2.1
      simp only [ex]
      cases hzz : nd.z with
      | none =>
          rw [hzz] at hz
          simp only at hz
          have hst := started_of_fin1_task hz.1 hfr
          rw [if_pos hst] at hz
          have := ihr _ _ _ _ _ _ _ hz.2.2.2 hfr hs
          rw [h4]; exact this
      | some z =>
          rw [hzz] at hz
          simp only at hz
          rw [h4]
          exact hz.2.2.2.2.2 hp trivial hs

/-- **quiet subtrees**: if the body a subtree hands to its sum slot is the body it was entered with, nothing below it was
stolen (really or virtually), everything below ran on that one body and is finished -/
theorem I1_quiet {c : Ctx} {L g : Nat} : ∀ (t : T) (b s lo hi : Nat) (fin ss : Bool) (sv : Option BodyId),
    I1 c L g t b s lo hi fin ss true sv → rmDone t = true → ex t = b →
      Quiet g b fin t lo hi ∧ ((fin || ss) = true → c.val b = rng s hi) := by
  intro t
  induction t with
  | task lo' hi' b' fin' ss' pc =>
      intro b s lo hi fin ss sv h hr _
      simp only [I1] at h
      obtain ⟨h1, h2, h3, h4, h5, h6, h7, h8, h9, h10, h11, h12, h13⟩ := h
      have hpc : pc = .finished := by simpa [rmDone] using hr
      subst hpc
      simp only [taskVal] at h13
      refine ⟨by simp only [Quiet]; exact ⟨h1, h2, h3, h4, h5, trivial⟩, ?_⟩
      intro hfs
      have := h13 trivial
      simpa [hfs] using this
  | node nd l r _ ihr =>
      intro b s lo hi fin ss sv h hr he
      have hlt := I1_zs_lt _ _ _ _ _ _ _ _ _ h
      simp only [I1] at h
      obtain ⟨h1, h2, h3, h4, h5, h6, h7, h8, h9, h10, h11, h12, h13, h14, h15, h16, h17, hz⟩ := h
      simp only [rmDone] at hr
      simp only [ex] at he
      cases hzz : nd.z with
      | none =>
          rw [hzz] at hz
          simp only at hz
          by_cases hst : started r = true
          · rw [if_pos hst] at hz
            obtain ⟨q1, q2⟩ := ihr _ _ _ _ _ _ _ hz.2.2.2 hr he
            refine ⟨?_, by rw [h4]; exact q2⟩
            simp only [Quiet]
            refine ⟨h1, h2, h3, hzz, ?_, h10, h11, hz.1, hz.2.1, q1, h14, ?_⟩
            · rcases h12 with hp | hp | hp
              · exact Or.inl hp
              · have := (h15 (by rw [hp]; simp)).2.2.1
                rw [hzz] at this
                simp [hp] at this
              · exact Or.inr hp
            · intro hp
              have := h15 (by rw [hp]; simp)
              exact ⟨this.1, this.2.1⟩
          · rw [if_neg hst] at hz
            exfalso
            have hr' := hz.2.2
            cases r with
            | task lo' hi' b' fin' ss' pc =>
                cases pc with
                | spawned rr => simp [rmDone] at hr
                | _ => simp [started] at hst
            | node => simp [started] at hst
      | some z =>
          rw [hzz] at hz
          simp only at hz
          exfalso
          have hm := I1_ex_mem _ _ _ _ _ _ _ _ _ hz.2.2.2.2.1
          have hb : b < ex r := by
            rcases hm with hm | hm
            · rw [hm]; exact hz.1
            · exact (hlt (ex r) (by simp [zs, hm])).1
          rw [he] at hb
          exact Nat.lt_irrefl _ hb

theorem ex_ne_of_lt {c : Ctx} {L g : Nat} {t : T} {z s lo hi : Nat} {fin ss live : Bool} {sv : Option BodyId}
    (h : I1 c L g t z s lo hi fin ss live sv) {x : Nat} (hx : x < z) : x ≠ ex t := by
  intro he
  rcases I1_ex_mem _ _ _ _ _ _ _ _ _ h with hm | hm
  · rw [he, hm] at hx
    exact Nat.lt_irrefl _ hx
  · have := (I1_zs_lt _ _ _ _ _ _ _ _ _ h (ex t) hm).1
    rw [he] at hx
    exact Nat.lt_irrefl _ (Nat.lt_trans hx this)

/-- **dead frame**: once the exit value of a completed subtree has been consumed, the invariant no longer reads the exit body -/
theorem I1_frame_dead {c c' : Ctx} {L g : Nat} (hlen : c.heap.length ≤ c'.heap.length) :
    ∀ (t : T) (b s lo hi : Nat) (fin ss : Bool) (sv : Option BodyId), fin1 t = true →
    (∀ x, (x = b ∨ x ∈ zs t) → x ≠ ex t → c'.val x = c.val x) →
    I1 c L g t b s lo hi fin ss false sv → I1 c' L g t b s lo hi fin ss false sv := by
  intro t
  induction t with
  | task lo' hi' b' fin' ss' pc =>
      intro b s lo hi fin ss sv hf _ h
      simp only [I1] at h ⊢
      obtain ⟨h1, h2, h3, h4, h5, h6, h7, h8, h9, h10, h11, h12, h13⟩ := h
      have hpc : pc = .finished := by simpa [fin1] using hf
      subst hpc
      exact ⟨h1, h2, h3, h4, h5, h6, by omega, h8, h9, h10, h11, h12, by simp [taskVal]⟩
  | node nd l r _ ihr =>
      intro b s lo hi fin ss sv hf hfr h
      have hlt := I1_zs_lt _ _ _ _ _ _ _ _ _ h
      simp only [I1] at h ⊢
      obtain ⟨h1, h2, h3, h4, h5, h6, h7, h8, h9, h10, h11, h12, h13, h14, h15, h16, h17, hz⟩ := h
      have hp : nd.ph ≠ .p1 := by simpa [fin1] using hf
      have hfrr := (h15 hp).2.1
      refine ⟨h1, h2, h3, h4, h5, by omega, h7, h8, h9, h10, h11, h12, h13, h14, h15, h16, h17, ?_⟩
      cases hzz : nd.z with
      | none =>
          rw [hzz] at hz
          simp only at hz ⊢
          have hst := started_of_fin1_task hz.1 hfrr
          rw [if_pos hst] at hz ⊢
          refine ⟨hz.1, hz.2.1, hz.2.2.1, ihr _ _ _ _ _ _ _ hfrr (fun x hx hne => hfr x (by
            rcases hx with hx | hx
            · exact Or.inl hx
            · right; simp [zs, hx]) (by simpa [ex] using hne)) hz.2.2.2⟩
      | some z =>
          rw [hzz] at hz
          simp only at hz ⊢
          obtain ⟨z1, z2, z3, z4, z5, z6⟩ := hz
          have hdec : decide (nd.ph = .p1) = false := by simp [hp]
          rw [hdec] at z5 ⊢
          have hnd : (zs (T.node nd l r)).Nodup := h17
          simp only [zs, hzz, Option.toList_some, List.cons_append, List.nil_append] at hnd
          refine ⟨z1, Nat.lt_of_lt_of_le z2 hlen, z3, ?_, ?_, by intro _ hf'; cases hf'⟩
          · refine I1_frame hlen _ _ _ _ _ _ _ _ _ (fun x hx => hfr x (by
              rcases hx with hx | hx
              · exact Or.inl hx
              · right; simp [zs, hx]) ?_) z4
            -- x ∈ b :: zs l is not the exit body of r
            simp only [ex]
            rcases hx with hx | hx
            · subst hx; exact ex_ne_of_lt z5 z1
            · intro he
              rcases I1_ex_mem _ _ _ _ _ _ _ _ _ z5 with hm | hm
              · have h1 := (List.nodup_cons.mp hnd).1
                exact h1 (List.mem_append_left _ (by rw [← hm, ← he]; exact hx))
              · rw [← he] at hm
                have := (List.nodup_cons.mp hnd).2
                exact (List.nodup_append.mp this).2.2 x hx x hm rfl
          · exact ihr _ _ _ _ _ _ _ hfrr (fun x hx hne => hfr x (by
              rcases hx with hx | hx
              · right; simp [zs, hzz, hx]
              · right; simp [zs, hx]) (by simpa [ex] using hne)) z5

end TbbVerif.C06.SP
