/-
C02 / Tso: kernel-checked closure of the reachable set for one drain table (see TsoCore.lean):
prepFence=true unlockDrains=true notifyFence=true chgDrains=false.
-/
import TbbVerif.Proofs.C02.TsoCore

namespace TbbVerif.C02.Tso

theorem closed_e1110 : closed ⟨true, true, true, false⟩ (reachSet ⟨true, true, true, false⟩) = true := by decide +kernel
theorem safe_e1110 : safe (reachSet ⟨true, true, true, false⟩) = true := by decide +kernel

end TbbVerif.C02.Tso
