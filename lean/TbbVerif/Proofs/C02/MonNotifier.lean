/-
C02 / Monitor: every step of a notifier preserves the invariant.
-/
import TbbVerif.Proofs.C02.MonInv
import TbbVerif.Proofs.C02.MonSLoc

namespace TbbVerif.C02

theorem getN_setN' {s : St} {j : Nat} {n : Notifier} (hj : s.ntf[j]? = some n) (n' : Notifier) (k : Nat) :
    (s.setN j n').ntf[k]? = if j = k then some n' else s.ntf[k]? := by
  simp [St.setN, List.getElem?_set, getElem?_lt hj]

theorem Unm_setN_same {s : St} {j : Nat} {n n' : Notifier} (hj : s.ntf[j]? = some n) (hu : n'.unm = n.unm) (k : Nat) :
    Unm (s.setN j n') k ↔ Unm s k := by
  constructor
  · rintro ⟨j', m, hm, hk⟩
    rw [getN_setN' hj] at hm
    by_cases e : j = j'
    · subst e; simp at hm; subst hm; exact ⟨j, n, hj, by rw [← hu]; exact hk⟩
    · simp [e] at hm; exact ⟨j', m, hm, hk⟩
  · rintro ⟨j', m, hm, hk⟩
    by_cases e : j = j'
    · subst e; rw [hj] at hm; cases hm
      exact ⟨j, n', by rw [getN_setN' hj]; simp, by rw [hu]; exact hk⟩
    · exact ⟨j', m, by rw [getN_setN' hj]; simp [e]; exact hm, hk⟩

theorem exists_pending_setN {s : St} {j : Nat} {n n' : Notifier} (hj : s.ntf[j]? = some n) {c x : Nat}
    (hmono : pendingFor n c x = true → pendingFor n' c x = true)
    (h : ∃ (j' : Nat) (m : Notifier), s.ntf[j']? = some m ∧ pendingFor m c x = true) :
    ∃ (j' : Nat) (m : Notifier), (s.setN j n').ntf[j']? = some m ∧ pendingFor m c x = true := by
  obtain ⟨j', m, hm, hp⟩ := h
  by_cases e : j = j'
  · subst e; rw [hj] at hm; cases hm
    exact ⟨j, n', by rw [getN_setN' hj]; simp, hmono hp⟩
  · exact ⟨j', m, by rw [getN_setN' hj]; simp [e]; exact hm, hp⟩

/-- Frame lemma: a notifier step that changes its own record (not its `temp` list), possibly the lock, the epoch and
the user conditions. -/
theorem inv_notifier_own {s : St} (h : Inv s) {j : Nat} {n n' : Notifier} (hj : s.ntf[j]? = some n)
    (L' : Option Tid) (e' : Nat) (cs' : List Bool)
    (hL : (L' = s.lock ∧ holdsN n'.pc = holdsN n.pc) ∨ (s.lock = none ∧ L' = some (s.slp.length + j) ∧ holdsN n'.pc = true) ∨
          (s.lock = some (s.slp.length + j) ∧ L' = none ∧ holdsN n'.pc = false))
    (htemp : n'.temp = n.temp) (hunm : n'.unm = n.unm)
    (hloc : NLoc n')
    (hops : n'.ops = n.ops ∨ n'.ops = n.ops.tail)
    (hdek : ∀ (i : Nat) (sl : Sleeper), s.slp[i]? = some sl → (sl.pc = .commit ∨ sl.pc = .park) →
        cs'.getD sl.cond false = true →
        i ∉ s.waitset ∨ ∃ (j' : Nat) (m : Notifier), (s.setN j n').ntf[j']? = some m ∧ pendingFor m sl.cond sl.ctx = true) :
    Inv ({ s with lock := L', epoch := e', conds := cs' }.setN j n') := by
  have hget : ∀ k, ({ s with lock := L', epoch := e', conds := cs' }.setN j n').ntf[k]? = if j = k then some n' else s.ntf[k]? := by
    intro k; simp [St.setN, List.getElem?_set, getElem?_lt hj]
  constructor
  · exact h.cnt
  · exact h.nodup
  · -- lockS
    intro i sl hi
    have hi' : s.slp[i]? = some sl := hi
    have hil := getElem?_lt hi'
    have := h.lockS i sl hi'
    show _ ↔ L' = some i
    rcases hL with ⟨h1, _⟩ | ⟨h1, h2, _⟩ | ⟨h1, h2, _⟩
    · rw [h1]; exact this
    · rw [h1] at this; simp at this; simp [h2, this]; omega
    · rw [h1] at this; simp at this
      have hne : s.slp.length + j ≠ i := by omega
      have : holdsS sl.pc = false := by
        cases hh : holdsS sl.pc
        · rfl
        · exact absurd (this.mp hh) hne
      simp [h2, this]
  · -- lockN
    intro k m hk
    rw [hget] at hk
    show _ ↔ L' = some (s.slp.length + k)
    by_cases e : j = k
    · subst e; simp at hk; subst hk
      have := h.lockN j n hj
      rcases hL with ⟨h1, h2⟩ | ⟨h1, h2, h3⟩ | ⟨h1, h2, h3⟩
      · rw [h1, h2]; exact this
      · simp [h2, h3]
      · simp [h2, h3]
    · simp [e] at hk
      have := h.lockN k m hk
      rcases hL with ⟨h1, _⟩ | ⟨h1, h2, _⟩ | ⟨h1, h2, _⟩
      · rw [h1]; exact this
      · rw [h1] at this; simp at this; simp [h2, this]; exact fun e' => e e'
      · rw [h1] at this; simp at this
        have : holdsN m.pc = false := by
          cases hh : holdsN m.pc
          · rfl
          · exact absurd (this.mp hh) e
        simp [h2, this]
  · intro i sl hi; exact h.opsS i sl hi
  · -- slp
    intro i sl hi
    have hi' : s.slp[i]? = some sl := hi
    show SLoc (i ∈ s.waitset) (pend (s.setN j n') i) (Unm (s.setN j n') i) sl
    rw [pend_setN_same hj htemp, propext (Unm_setN_same hj hunm i)]
    exact h.slp i sl hi'
  · -- ntf
    intro k m hk
    rw [hget] at hk
    by_cases e : j = k
    · subst e; simp at hk; subst hk; exact hloc
    · simp [e] at hk; exact h.ntf k m hk
  · -- dek
    intro i sl hi hpc hc
    exact hdek i sl hi hpc hc
  · -- compat
    intro i sl hi w hw k m hk c kd r hop hcw
    rw [hget] at hk
    have hi' : s.slp[i]? = some sl := hi
    by_cases e : j = k
    · subst e; simp at hk; subst hk
      have hop' : NOp.sig (some c) kd r ∈ n.ops := by
        rcases hops with e | e
        · rw [e] at hop; exact hop
        · rw [e] at hop; exact List.mem_of_mem_tail hop
      exact h.compat i sl hi' w hw j n hj c kd r hop' hcw
    · simp [e] at hk
      exact h.compat i sl hi' w hw k m hk c kd r hop hcw
  · -- uniq
    intro k m hk cd c0 r hop a a' sa sa' ha ha' w hw w' hw' hcd hc hc'
    rw [hget] at hk
    have ha0 : s.slp[a]? = some sa := ha
    have ha0' : s.slp[a']? = some sa' := ha'
    by_cases e : j = k
    · subst e; simp at hk; subst hk
      have hop' : NOp.sig (some cd) (.onec c0) r ∈ n.ops := by
        rcases hops with e | e
        · rw [e] at hop; exact hop
        · rw [e] at hop; exact List.mem_of_mem_tail hop
      exact h.uniq j n hj cd c0 r hop' a a' sa sa' ha0 ha0' w hw w' hw' hcd hc hc'
    · simp [e] at hk
      exact h.uniq k m hk cd c0 r hop a a' sa sa' ha0 ha0' w hw w' hw' hcd hc hc'
  · exact h.wsv

/-- `dek` obligation of `inv_notifier_own` when the conditions are unchanged and the notifier stays pending, or stops
being pending at a moment when no waiter with the accepted context is left in the waitset -/
theorem dek_mono {s : St} (h : Inv s) {j : Nat} {n n' : Notifier} (hj : s.ntf[j]? = some n)
    (hmono : ∀ c x, pendingFor n c x = true → pendingFor n' c x = true ∨
        ∀ (i : Nat) (sl : Sleeper), s.slp[i]? = some sl → sl.ctx = x → i ∉ s.waitset) :
    ∀ (i : Nat) (sl : Sleeper), s.slp[i]? = some sl → (sl.pc = .commit ∨ sl.pc = .park) →
        s.conds.getD sl.cond false = true →
        i ∉ s.waitset ∨ ∃ (j' : Nat) (m : Notifier), (s.setN j n').ntf[j']? = some m ∧ pendingFor m sl.cond sl.ctx = true := by
  intro i sl hi hpc hc
  rcases h.dek i sl hi hpc hc with hW | ⟨j', m, hm, hp⟩
  · exact Or.inl hW
  · by_cases e : j = j'
    · subst e; rw [hj] at hm; cases hm
      rcases hmono _ _ hp with h1 | h1
      · exact Or.inr ⟨j, n', by rw [getN_setN' hj]; simp, h1⟩
      · exact Or.inl (h1 i sl hi rfl)
    · exact Or.inr ⟨j', m, by rw [getN_setN' hj]; simp [e]; exact hm, hp⟩


/-! ### small facts -/

theorem getD_setCond (s : St) (c : Nat) (b : Bool) (k : Nat) :
    (s.setCond c b).conds.getD k false = if k = c then b else s.conds.getD k false := by
  unfold St.setCond
  by_cases hc : c < s.conds.length
  · simp only [hc, if_true]
    by_cases hk : k = c
    · subst hk; simp [List.getD_eq_getElem?_getD, hc]
    · simp [List.getD_eq_getElem?_getD, hk, Ne.symm hk]
  · simp only [hc, if_false]
    by_cases hk : k = c
    · subst hk
      simp only [if_true, List.getD_eq_getElem?_getD]
      rw [List.getElem?_append_right (by simp; omega)]
      have : k - (s.conds ++ List.replicate (k - s.conds.length) false).length = 0 := by simp; omega
      rw [this]; simp
    · simp only [hk, if_false, List.getD_eq_getElem?_getD]
      by_cases hk2 : k < s.conds.length
      · rw [List.append_assoc, List.getElem?_append_left hk2]
      · rw [List.getElem?_eq_none (l := s.conds) (by omega)]
        by_cases hk3 : k < c
        · rw [List.append_assoc, List.getElem?_append_right (by omega), List.getElem?_append_left (by simp; omega)]
          simp [List.getElem?_replicate]; split <;> rfl
        · rw [List.getElem?_eq_none (by simp; omega)]

theorem holdsN_startPc (o : NOp) : holdsN o.startPc = false := by
  cases o with
  | sig c k r => cases c <;> cases r <;> rfl
  | clr c => rfl

theorem finish_pc_cases (n : Notifier) :
    n.finish.pc = .set ∨ n.finish.pc = .clr ∨ n.finish.pc = .fence ∨ n.finish.pc = .test := by
  unfold Notifier.finish
  cases n.ops.tail with
  | nil => simp
  | cons o rest =>
    cases o with
    | sig c k r => cases c <;> cases r <;> simp [NOp.startPc]
    | clr c => simp [NOp.startPc]

theorem holdsN_finish (n : Notifier) : holdsN n.finish.pc = false := by
  rcases finish_pc_cases n with h | h | h | h <;> rw [h] <;> rfl

theorem finish_temp (n : Notifier) : n.finish.temp = [] := rfl
theorem finish_unm (n : Notifier) : n.finish.unm = [] := by simp [Notifier.unm, Notifier.finish]
theorem finish_ops (n : Notifier) : n.finish.ops = n.ops.tail := rfl

theorem nloc_finish (n : Notifier) : NLoc n.finish := by
  refine ⟨by simp [Notifier.finish], fun h => absurd (finish_unm n) h, fun _ => rfl, ?_, fun _ => ⟨rfl, holdsN_finish n⟩, ?_, ?_, ?_⟩
  · intro h; rcases finish_pc_cases n with e | e | e | e <;> rw [e] at h <;> cases h
  · intro h
    unfold Notifier.finish at h ⊢
    simp only at h ⊢
    cases ht : n.ops.tail with
    | nil => rw [ht] at h; simp at h
    | cons o rest =>
      rw [ht] at h
      cases o with
      | sig c k r =>
        cases c with
        | none => cases r <;> simp [NOp.startPc] at h
        | some c => exact ⟨c, k, r, rest, rfl⟩
      | clr c => simp [NOp.startPc] at h
  · intro h; rcases finish_pc_cases n with e | e | e | e <;> rw [e] at h <;> cases h
  · intro h; rcases finish_pc_cases n with e | e | e | e <;> rw [e] at h <;> cases h

theorem pendingFor_false_of_pc {n : Notifier} {c x : Nat}
    (h : n.pc = .set ∨ n.pc = .clr ∨ n.pc = .unlock ∨ n.pc = .v) : pendingFor n c x = false := by
  unfold pendingFor
  split
  · rename_i c' k r rest heq
    rcases h with h | h | h | h <;> cases k <;> simp [h]
  · rfl

theorem unm_nil_of_pc {n : Notifier} (hn : NLoc n) (h : n.pc ≠ .mark) : n.unm = [] := by
  cases hu : n.unm with
  | nil => rfl
  | cons a l => exact absurd (hn.2.1 (by rw [hu]; simp)) h

theorem marked_eq_of_pc {n : Notifier} (hn : NLoc n) (h : n.pc ≠ .mark) : n.marked = n.temp.length := by
  have := unm_nil_of_pc hn h
  simp only [Notifier.unm, List.drop_eq_nil_iff] at this
  have := hn.1; omega

/-- `scanPick` finds nothing: nobody in the waitset has a context the notification accepts -/
theorem scanPick_none_pred {s : St} {k : NKind} (hk : k.isPredAll = true) (h : scanPick s k = none) :
    ∀ (i : Nat) (sl : Sleeper), s.slp[i]? = some sl → k.accepts sl.ctx = true → i ∉ s.waitset := by
  intro i sl hi hc hW
  cases k with
  | ctx c =>
    simp only [scanPick, List.find?_eq_none] at h
    have := h i (List.mem_reverse.mpr hW)
    simp only [NKind.accepts, beq_iff_eq] at hc
    simp [St.ctxOf, hi, hc] at this
  | leq c =>
    simp only [scanPick, List.find?_eq_none] at h
    have := h i (List.mem_reverse.mpr hW)
    simp only [NKind.accepts, decide_eq_true_eq] at hc
    simp [St.ctxOf, hi] at this
    omega
  | all => cases hk
  | abort => cases hk
  | one => cases hk
  | onec c => cases hk

theorem scanPick_none_onec {s : St} {c : Nat} (h : scanPick s (.onec c) = none) :
    ∀ (i : Nat) (sl : Sleeper), s.slp[i]? = some sl → sl.ctx = c → i ∉ s.waitset := by
  intro i sl hi hc hW
  simp only [scanPick, List.find?_eq_none] at h
  have := h i (List.mem_reverse.mpr hW)
  simp [St.ctxOf, hi, hc] at this

/-- what `scanPick` finds for a predicate scan has the context the predicate asks for -/
theorem scanPick_onec_ctx {s : St} {c x : Nat} (h : scanPick s (.onec c) = some x) : s.ctxOf x = c := by
  simp only [scanPick] at h
  have := List.find?_some h
  simpa using this

theorem scanPick_mem {s : St} {k : NKind} {x : Nat} (h : scanPick s k = some x) : x ∈ s.waitset := by
  cases k with
  | ctx c => exact List.mem_reverse.mp (List.mem_of_find?_eq_some h)
  | onec c => exact List.mem_reverse.mp (List.mem_of_find?_eq_some h)
  | leq c => exact List.mem_reverse.mp (List.mem_of_find?_eq_some h)
  | one => exact List.mem_of_mem_head? h
  | all => simp [scanPick] at h
  | abort => simp [scanPick] at h

theorem accepts_ctx {c x : Nat} (h : (NKind.ctx c).accepts x = true) : x = c := by
  simp [NKind.accepts] at h; exact h.symm

theorem accepts_onec {c x : Nat} (h : (NKind.onec c).accepts x = true) : x = c := by
  simp [NKind.accepts] at h; exact h.symm

/-- moving between program counters of the pending set -/
theorem pending_keep {n n' : Notifier} (hops : n'.ops = n.ops) {pc' : NPc} (hpc' : n'.pc = pc')
    (hcase : ((pc' = .fence ∨ pc' = .test ∨ pc' = .lock ∨ pc' = .epoch) ) ∨
             (pc' = .flush ∧ (n.kind = .all ∨ n.kind = .abort)) ∨
             ((pc' = .scan ∨ pc' = .mark) ∧ n.kind.isPredAll = true) ∨
             (pc' = .scan ∧ ∃ c, n.kind = .onec c)) :
    ∀ c x, pendingFor n c x = true → pendingFor n' c x = true := by
  intro c x hp
  unfold pendingFor at hp ⊢
  rw [hops]
  split at hp
  · rename_i c' k r rest heq
    have hk : n.kind = k := by simp [Notifier.kind, heq]
    simp only [Bool.and_eq_true, beq_iff_eq] at hp
    obtain ⟨⟨hc, hacc⟩, _⟩ := hp
    rcases hcase with e | ⟨e, h1⟩ | ⟨e, h1⟩ | ⟨e, c0, h1⟩
    · rcases e with e | e | e | e <;> cases k <;> simp_all [NKind.accepts]
    · rw [hk] at h1
      rcases h1 with h1 | h1 <;> subst h1 <;> simp_all
    · rw [hk] at h1
      cases k <;> simp [NKind.isPredAll] at h1 <;> rcases e with e | e <;> simp_all
    · rw [hk] at h1; subst h1
      simp_all
  · cases hp

/-- leaving the pending set of a `ctx` notification towards `unlock` when `scanPick` finds nothing -/
theorem pending_lose {s : St} {n n' : Notifier} (hops : n'.ops = n.ops) {pc' : NPc} (hpc' : n'.pc = pc')
    (hcase : (pc' = .unlock ∧ ((n.kind = .all ∨ n.kind = .abort) → s.waitset = []) ∧
              (n.kind.isPredAll = true → scanPick s n.kind = none) ∧
              (∀ c, n.kind = .onec c → scanPick s (.onec c) = none)) ∨
             ((pc' = .fence ∨ pc' = .test ∨ pc' = .lock ∨ pc' = .epoch) ) ∨
             (pc' = .flush ∧ (n.kind = .all ∨ n.kind = .abort)) ∨
             ((pc' = .scan ∨ pc' = .mark) ∧ n.kind.isPredAll = true) ∨
             (pc' = .scan ∧ ∃ c, n.kind = .onec c)) :
    ∀ c x, pendingFor n c x = true → pendingFor n' c x = true ∨
        ∀ (i : Nat) (sl : Sleeper), s.slp[i]? = some sl → sl.ctx = x → i ∉ s.waitset := by
  intro c x hp
  unfold pendingFor at hp ⊢
  rw [hops]
  split at hp
  · rename_i c' k r rest heq
    have hk : n.kind = k := by simp [Notifier.kind, heq]
    simp only [Bool.and_eq_true, beq_iff_eq] at hp
    obtain ⟨⟨hc, hacc⟩, _⟩ := hp
    rcases hcase with ⟨e, h1, h2, h3⟩ | e | ⟨e, h1⟩ | ⟨e, h1⟩ | ⟨e, c0, h1⟩
    · right
      cases k with
      | all => intro i sl _ _; rw [h1 (Or.inl hk)]; simp
      | abort => intro i sl _ _; rw [h1 (Or.inr hk)]; simp
      | ctx c0 =>
        rw [hk] at h2
        intro i sl hi hx; subst hx
        exact scanPick_none_pred (k := .ctx c0) rfl (h2 rfl) i sl hi hacc
      | leq c0 =>
        rw [hk] at h2
        intro i sl hi hx; subst hx
        exact scanPick_none_pred (k := .leq c0) rfl (h2 rfl) i sl hi hacc
      | onec c0 =>
        have := accepts_onec hacc; subst this
        exact scanPick_none_onec (h3 _ hk)
      | one => simp [NKind.accepts] at hacc
    · left
      rcases e with e | e | e | e <;> cases k <;> simp_all [NKind.accepts]
    · left
      rw [hk] at h1
      rcases h1 with h1 | h1 <;> subst h1 <;> simp_all
    · left
      rw [hk] at h1
      cases k <;> simp [NKind.isPredAll] at h1 <;> rcases e with e | e <;> simp_all
    · left
      rw [hk] at h1; subst h1
      simp_all
  · cases hp


theorem Unm_setN_congr {s : St} {j : Nat} {n n' : Notifier} (hj : s.ntf[j]? = some n) {k : Nat}
    (hu : k ∈ n'.unm ↔ k ∈ n.unm) : Unm (s.setN j n') k ↔ Unm s k := by
  constructor
  · rintro ⟨j', m, hm, hk⟩
    rw [getN_setN' hj] at hm
    by_cases e : j = j'
    · subst e; simp at hm; subst hm; exact ⟨j, n, hj, hu.mp hk⟩
    · simp [e] at hm; exact ⟨j', m, hm, hk⟩
  · rintro ⟨j', m, hm, hk⟩
    by_cases e : j = j'
    · subst e; rw [hj] at hm; cases hm
      exact ⟨j, n', by rw [getN_setN' hj]; simp, hu.mpr hk⟩
    · exact ⟨j', m, by rw [getN_setN' hj]; simp [e]; exact hm, hk⟩

theorem Unm_setN_self {s : St} {j : Nat} {n n' : Notifier} (hj : s.ntf[j]? = some n) {k : Nat}
    (hu : k ∈ n'.unm) : Unm (s.setN j n') k :=
  ⟨j, n', by rw [getN_setN' hj]; simp, hu⟩

/-- Frame lemma for the notifier steps that dequeue nodes or write to nodes: the lock is unchanged, sleepers keep
their program counters and programs. -/
theorem inv_notifier_gen {s : St} (h : Inv s) {j : Nat} {n n' : Notifier} (hj : s.ntf[j]? = some n)
    (ws' : List Nat) (c' : Nat) (slp' : List Sleeper)
    (hlen : slp'.length = s.slp.length)
    (hpcs : ∀ (k : Nat) (sl' : Sleeper), slp'[k]? = some sl' →
        ∃ sl, s.slp[k]? = some sl ∧ sl'.pc = sl.pc ∧ sl'.ops = sl.ops)
    (hh : holdsN n'.pc = holdsN n.pc)
    (hnd : ws'.Nodup) (hc : c' = ws'.length) (hsub : ∀ x ∈ ws', x ∈ s.waitset)
    (hloc : NLoc n') (hops : n'.ops = n.ops ∨ n'.ops = n.ops.tail)
    (hslp : ∀ (k : Nat) (sl' : Sleeper), slp'[k]? = some sl' →
        SLoc (k ∈ ws') (pend (s.setN j n') k) (Unm (s.setN j n') k) sl')
    (hdek : ∀ (i : Nat) (sl' : Sleeper), slp'[i]? = some sl' → (sl'.pc = .commit ∨ sl'.pc = .park) →
        s.cond sl'.cond = true →
        i ∉ ws' ∨ ∃ (j' : Nat) (m : Notifier), (s.setN j n').ntf[j']? = some m ∧ pendingFor m sl'.cond sl'.ctx = true) :
    Inv ({ s with waitset := ws', count := c', slp := slp' }.setN j n') := by
  have hget : ∀ k, ({ s with waitset := ws', count := c', slp := slp' }.setN j n').ntf[k]? =
      if j = k then some n' else s.ntf[k]? := by
    intro k; simp [St.setN, List.getElem?_set, getElem?_lt hj]
  constructor
  · exact hc
  · exact hnd
  · intro i sl' hi
    obtain ⟨sl, hsl, hp, _⟩ := hpcs i sl' hi
    rw [hp]; exact h.lockS i sl hsl
  · intro k m hk
    rw [hget] at hk
    show _ ↔ s.lock = some (slp'.length + k)
    rw [hlen]
    by_cases e : j = k
    · subst e; simp at hk; subst hk; rw [hh]; exact h.lockN j n hj
    · simp [e] at hk; exact h.lockN k m hk
  · intro i sl' hi he
    obtain ⟨sl, hsl, hp, ho⟩ := hpcs i sl' hi
    rw [hp]; exact h.opsS i sl hsl (by rw [← ho]; exact he)
  · intro i sl' hi; exact hslp i sl' hi
  · intro k m hk
    rw [hget] at hk
    by_cases e : j = k
    · subst e; simp at hk; subst hk; exact hloc
    · simp [e] at hk; exact h.ntf k m hk
  · intro i sl' hi hpc hcnd; exact hdek i sl' hi hpc hcnd
  · intro i sl' hi w hw k m hk c kd r hop hcw
    rw [hget] at hk
    obtain ⟨sl, hsl, _, ho⟩ := hpcs i sl' hi
    have hw' : w ∈ sl.ops := by rw [← ho]; exact hw
    by_cases e : j = k
    · subst e; simp at hk; subst hk
      have hop' : NOp.sig (some c) kd r ∈ n.ops := by
        rcases hops with e | e
        · rw [e] at hop; exact hop
        · rw [e] at hop; exact List.mem_of_mem_tail hop
      exact h.compat i sl hsl w hw' j n hj c kd r hop' hcw
    · simp [e] at hk
      exact h.compat i sl hsl w hw' k m hk c kd r hop hcw
  · intro k m hk cd c0 r hop a a' sa sa' ha ha' w hw w' hw' hcd hc hc'
    rw [hget] at hk
    obtain ⟨so, hso, _, ho⟩ := hpcs a sa ha
    obtain ⟨so', hso', _, ho'⟩ := hpcs a' sa' ha'
    have hwo : w ∈ so.ops := by rw [← ho]; exact hw
    have hwo' : w' ∈ so'.ops := by rw [← ho']; exact hw'
    by_cases e : j = k
    · subst e; simp at hk; subst hk
      have hop' : NOp.sig (some cd) (.onec c0) r ∈ n.ops := by
        rcases hops with e | e
        · rw [e] at hop; exact hop
        · rw [e] at hop; exact List.mem_of_mem_tail hop
      exact h.uniq j n hj cd c0 r hop' a a' so so' hso hso' w hwo w' hwo' hcd hc hc'
    · simp [e] at hk
      exact h.uniq k m hk cd c0 r hop a a' so so' hso hso' w hwo w' hwo' hcd hc hc'
  · intro x hx
    obtain ⟨slx, hslx⟩ := h.wsv x (hsub x hx)
    have hlt : x < slp'.length := by rw [hlen]; exact getElem?_lt hslx
    exact ⟨slp'[x], List.getElem?_eq_getElem hlt⟩

end TbbVerif.C02
