/-
C02 / arena enqueue: frame facts about single steps of the `Flag` model (who changes what), used by the demand
bookkeeping model `AE` that embeds two flags.
-/
import TbbVerif.Proofs.C02.Flag
import TbbVerif.Model.C02AE

namespace TbbVerif.C02.Flag

theorem stepP_frame (s : St) (i : Nat) (p : Pub) (hi : s.pubs[i]? = some p) :
    (stepP s i p).cls = s.cls ∧ (stepP s i p).cons = s.cons ∧ (stepP s i p).rel = s.rel ∧
    (stepP s i p).pubs.length = s.pubs.length ∧ (∀ k, k ≠ i → (stepP s i p).pubs[k]? = s.pubs[k]?) ∧
    ((stepP s i p).req = s.req ∨ (stepP s i p).req = s.req + 1) ∧ s.work ≤ (stepP s i p).work ∧
    (∃ p', (stepP s i p).pubs[i]? = some p' ∧ p'.left ≤ p.left ∧ (p'.left < p.left → p'.pc = .pub) ∧
      (p.inflight = false → p'.left = p.left) ∧ (p'.left = p.left → (stepP s i p).req = s.req) ∧
      (p.inflight = false → (p.left = 0 ∧ p' = p) ∨ (p'.pc = .fence ∧ p'.left = p.left)) ∧
      (p.pc = .fence → p'.left = p.left ∧ (p'.inflight = true → p'.pc = .load)) ∧ (p.left = 0 → p' = p)) := by
  have hlt := getElem?_lt' hi
  have hget : ∀ (q : Pub), (s.pubs.set i q)[i]? = some q := by intro q; simp [List.getElem?_set, hlt]
  have hoth : ∀ (q : Pub) k, k ≠ i → (s.pubs.set i q)[k]? = s.pubs[k]? := by
    intro q k hk; simp [List.getElem?_set, Ne.symm hk]
  unfold stepP
  by_cases hl : p.left = 0
  · rw [if_pos hl]
    exact ⟨rfl, rfl, rfl, rfl, fun _ _ => rfl, Or.inl rfl, Nat.le_refl _, p, hi, Nat.le_refl _, fun h => absurd h (Nat.lt_irrefl _), fun _ => rfl, fun _ => rfl,
      fun _ => Or.inl ⟨hl, rfl⟩, fun _ => ⟨rfl, fun h => by simp [Pub.inflight, hl] at h⟩, fun _ => rfl⟩
  · simp only [hl, if_false]
    cases hpc : p.pc <;> simp only
    all_goals (repeat' split)
    all_goals refine ⟨?_, ?_, ?_, ?_, fun k hk => hoth _ k hk, ?_, ?_, _, hget _, ?_, ?_, ?_, ?_, ?_, ?_, ?_⟩
    all_goals first
      | rfl
      | trivial
      | (simp; done)
      | (intro h; simp [Pub.ret] at h; omega)
      | (intro h; simp [Pub.inflight, Pub.ret, hpc, hl] at h ⊢; done)
      | (intro h; cases h)
      | (intro h; simp at h; done)
      | (intro h0; exact absurd h0 hl)
      | (intro h0; simp [hl] at h0)
      | exact Or.inl rfl
      | exact Or.inr rfl
      | exact Nat.le_refl _
      | exact Nat.le_succ _
      | (simp [Pub.ret]; done)
      | (intro h; simp [Pub.inflight, hpc, hl] at h; done)
      | (intro h; simp [Pub.ret] at h ⊢; done)
      | (intro h; exact absurd h (Nat.lt_irrefl _))
      | (intro h; rfl)

theorem stepC_frame (s : St) (k : Nat) (c : Cl) (hk : s.cls[k]? = some c) :
    (stepC s k c).pubs = s.pubs ∧ (stepC s k c).cons = s.cons ∧ (stepC s k c).req = s.req ∧ (stepC s k c).work = s.work ∧
    (stepC s k c).cls.length = s.cls.length ∧ (∀ j, j ≠ k → (stepC s k c).cls[j]? = s.cls[j]?) ∧
    ((stepC s k c).rel = s.rel ∨ (stepC s k c).rel = s.rel + 1) ∧
    (∃ c', (stepC s k c).cls[k]? = some c' ∧ c'.left ≤ c.left ∧ (c'.left = c.left → (stepC s k c).rel = s.rel)) := by
  have hlt := getElem?_lt' hk
  have hget : ∀ (q : Cl), (s.cls.set k q)[k]? = some q := by intro q; simp [List.getElem?_set, hlt]
  have hoth : ∀ (q : Cl) j, j ≠ k → (s.cls.set k q)[j]? = s.cls[j]? := by
    intro q j hj; simp [List.getElem?_set, Ne.symm hj]
  unfold stepC
  by_cases hl : c.left = 0
  · rw [if_pos hl]
    exact ⟨rfl, rfl, rfl, rfl, rfl, fun _ _ => rfl, Or.inl rfl, c, hk, Nat.le_refl _, fun _ => rfl⟩
  · simp only [hl, if_false]
    cases hpc : c.pc <;> simp only
    all_goals (repeat' split)
    all_goals refine ⟨?_, ?_, ?_, ?_, ?_, fun j hj => hoth _ j hj, ?_, _, hget _, ?_, ?_⟩
    all_goals first
      | rfl
      | trivial
      | (simp; done)
      | (intro h; simp [Cl.ret] at h; omega)
      | exact Or.inl rfl
      | exact Or.inr rfl
      | exact Nat.le_refl _
      | (simp [Cl.ret]; done)

theorem stepT_frame (s : St) (k left : Nat) :
    (stepT s k left).pubs = s.pubs ∧ (stepT s k left).cls = s.cls ∧ (stepT s k left).req = s.req ∧
    (stepT s k left).rel = s.rel ∧ (stepT s k left).flag = s.flag ∧ (stepT s k left).work ≤ s.work ∧
    s.work ≤ (stepT s k left).work + 1 := by
  unfold stepT
  split
  · exact ⟨rfl, rfl, rfl, rfl, rfl, Nat.le_refl _, Nat.le_succ _⟩
  · exact ⟨rfl, rfl, rfl, rfl, rfl, Nat.sub_le _ _, by simp only; omega⟩

end TbbVerif.C02.Flag
