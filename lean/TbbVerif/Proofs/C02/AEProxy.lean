/-
C02 / arena enqueue (`AE`): the mandatory-concurrency switch of thread_request_serializer_proxy follows the counter.
-/
import TbbVerif.Proofs.C02.AEWork
set_option linter.unusedSimpArgs false
namespace TbbVerif.C02.AE
open TbbVerif.C02

/-- the mandatory-concurrency switch of `thread_request_serializer_proxy` -/
structure PX (s : St) : Prop where
  p1 : s.enabled = true → s.soft0 = 0 ∧ s.soft = 1
  p2 : s.enabled = false → s.soft = s.soft0
  p3 : s.soft0 = 0 → 0 < s.numMand → s.enabled = false →
        ∃ (i : Nat) (th : Thr), s.thr[i]? = some th ∧ th.pc = .reqEnable ∧ 0 < th.md

theorem stepT_frame (s : St) (i : Nat) (th : Thr) :
    (stepT s i th).soft0 = s.soft0 ∧ (stepT s i th).W = s.W ∧ (∀ k, k ≠ i → (stepT s i th).thr[k]? = s.thr[k]?) ∧
    (th.pc ≠ .reqProxy → th.pc ≠ .reqEnable →
      (stepT s i th).numMand = s.numMand ∧ (stepT s i th).enabled = s.enabled ∧ (stepT s i th).soft = s.soft) := by
  have hT : ∀ (s' : St) (th' : Thr), s'.thr = s.thr → ∀ k, k ≠ i → (s'.setT i th').thr[k]? = s.thr[k]? := by
    intro s' th' e k hk; simp [St.setT, e, List.getElem?_set, Ne.symm hk]
  unfold stepT
  cases hpc : th.pc <;> simp only
  all_goals (repeat' split)
  all_goals refine ⟨rfl, rfl, ?_, ?_⟩
  all_goals first
    | (intro k hk; first | rfl | exact hT _ _ rfl k hk)
    | (intro h1 h2; first | exact ⟨rfl, rfl, rfl⟩ | exact absurd rfl h1 | exact absurd rfl h2)

theorem stepT_px {s : St} (hB : Bnd s) (h : PX s) {i : Nat} {th : Thr} (hth : s.thr[i]? = some th) : PX (stepT s i th) := by
  have hlt := Flag.getElem?_lt' hth
  obtain ⟨f1, _, f3, f4⟩ := stepT_frame s i th
  by_cases hp1 : th.pc = .reqProxy
  · -- my_num_mandatory_requests.fetch_add(md)
    unfold stepT
    simp only [hp1]
    have hself : ∀ (s' : St) (th' : Thr), s'.thr = s.thr → (s'.setT i th').thr[i]? = some th' := by
      intro s' th' e; simp [St.setT, e, List.getElem?_set, hlt]
    have hoth : ∀ (s' : St) (th' : Thr), s'.thr = s.thr → ∀ k, k ≠ i → (s'.setT i th').thr[k]? = s.thr[k]? := by
      intro s' th' e k hk; simp [St.setT, e, List.getElem?_set, Ne.symm hk]
    refine ⟨h.p1, h.p2, ?_⟩
    intro h0 hpos hen
    simp only [St.setT] at hpos
    by_cases hcross : th.md > 0 ∧ s.numMand = 0 ∨ th.md < 0 ∧ s.numMand = 1
    · rcases hcross with ⟨a, b⟩ | ⟨a, b⟩
      · exact ⟨i, _, hself _ _ rfl, by simp [a, b], a⟩
      · omega
    · -- no crossing: the counter was already positive (or this delta is negative): the old witness persists
      have hold : 0 < s.numMand := by
        by_cases hm : th.md > 0
        · have : s.numMand ≠ 0 := fun e => hcross (Or.inl ⟨hm, e⟩)
          have hb := (hB i th hth).2
          omega
        · omega
      obtain ⟨k, thk, hk, hk1, hk2⟩ := h.p3 h0 hold hen
      have hne : k ≠ i := by intro e; subst e; rw [hth] at hk; cases hk; rw [hp1] at hk1; cases hk1
      exact ⟨k, thk, (hoth _ _ rfl k hne).trans hk, hk1, hk2⟩
  · by_cases hp2 : th.pc = .reqEnable
    · -- enable / disable re-check under the writer lock
      unfold stepT
      simp only [hp2]
      have hoth : ∀ (s' : St) (th' : Thr), s'.thr = s.thr → ∀ k, k ≠ i → (s'.setT i th').thr[k]? = s.thr[k]? := by
        intro s' th' e k hk; simp [St.setT, e, List.getElem?_set, Ne.symm hk]
      by_cases hmd : th.md > 0
      · rw [if_pos hmd]
        by_cases hc : s.numMand > 0 ∧ s.enabled = false ∧ s.soft = 0
        · rw [if_pos hc]
          refine ⟨fun _ => ⟨?_, rfl⟩, fun e => by simp [St.setT] at e, fun _ _ e => by simp [St.setT] at e⟩
          show s.soft0 = 0
          have := h.p2 hc.2.1; omega
        · rw [if_neg hc]
          refine ⟨h.p1, h.p2, ?_⟩
          intro h0 hpos hen
          exact absurd ⟨hpos, hen, by have := h.p2 hen; have h0' : s.soft0 = 0 := h0; omega⟩ hc
      · rw [if_neg hmd]
        by_cases hc : s.numMand ≤ 0 ∧ s.enabled = true ∧ s.soft ≠ 0
        · rw [if_pos hc]
          refine ⟨fun e => by simp [St.setT] at e, fun _ => ?_, ?_⟩
          · show (0 : Nat) = s.soft0
            have := h.p1 hc.2.1; omega
          · intro _ hpos _
            have hpos' : 0 < s.numMand := hpos
            omega
        · rw [if_neg hc]
          refine ⟨h.p1, h.p2, ?_⟩
          intro h0 hpos hen
          obtain ⟨k, thk, hk, hk1, hk2⟩ := h.p3 h0 hpos hen
          have hne : k ≠ i := by intro e; subst e; rw [hth] at hk; cases hk; omega
          exact ⟨k, thk, (hoth _ _ rfl k hne).trans hk, hk1, hk2⟩
    · obtain ⟨g1, g2, g3⟩ := f4 hp1 hp2
      refine ⟨by rw [g2, g3, f1]; exact h.p1, by rw [g2, g3, f1]; exact h.p2, ?_⟩
      intro h0 hpos hen
      rw [f1] at h0; rw [g1] at hpos; rw [g2] at hen
      obtain ⟨k, thk, hk, hk1, hk2⟩ := h.p3 h0 hpos hen
      have hne : k ≠ i := by intro e; subst e; rw [hth] at hk; cases hk; exact hp2 hk1
      exact ⟨k, thk, by rw [f3 k hne]; exact hk, hk1, hk2⟩

end TbbVerif.C02.AE
