/-
C02 / task_arena::execute: a slot release is not missed between the waiter's re-check (`occupy_free_slot`) and
`commit_wait` — the invariant `Psi` and the transfer lemmas its preservation proof uses.
-/
import TbbVerif.Proofs.C02.EXLink2

set_option linter.unusedSimpArgs false
set_option linter.unusedVariables false

namespace TbbVerif.C02.EX
open TbbVerif.C02

/-- node epochs never exceed the monitor's epoch -/
def Nep (m : C02.St) : Prop := ∀ (i : Nat) (sl : Sleeper), m.slp[i]? = some sl → sl.nepoch ≤ m.epoch

/-- slot `k` was released by a thread whose `notify_one` has not yet locked the monitor -/
def Wit (s : St) (k : Nat) : Prop :=
  ∃ (u : Nat) (thu : Thr) (nu : Notifier), s.thr[u]? = some thu ∧ s.mon.ntf[u]? = some nu ∧
    thu.pc = .notify ∧ thu.rel = true ∧ thu.idx = k ∧ preBump nu = true

/-- a waiter that is in the wait set with an up-to-date node epoch: every slot it has found occupied in this round and
that is free now was released by a thread whose `notify_one` is still before its epoch bump -/
def Psi (s : St) : Prop :=
  ∀ (t : Nat) (th : Thr) (sl : Sleeper), s.thr[t]? = some th → s.mon.slp[t]? = some sl → th.pc = .wait →
    t ∈ s.mon.waitset → sl.nepoch = s.mon.epoch →
    ∀ k, k < s.slots.length → k ∉ th.todo → s.slots.getD k true = false → Wit s k

structure PInv (s : St) : Prop where
  nep : Nep s.mon
  psi : Psi s

/-- a thread in the wait set is inside its wait loop -/
theorem ws_wait {s : St} (h : LD s) {t : Nat} {th : Thr} (hth : s.thr[t]? = some th) (hw : t ∈ s.mon.waitset) : th.pc = .wait := by
  obtain ⟨sl, n, f, h1, _, _, L⟩ := h.l t th hth
  apply Classical.byContradiction
  intro hne
  have hS := h.m.inv.slp t sl h1
  rcases L.nwait hne with e | e
  · have := h.m.inv.opsS t sl h1 e
    simp only [SLoc, this] at hS
    exact hS.1 hw
  · simp only [SLoc, e] at hS
    exact hS.1 hw

/-- the general transfer: a step of thread `i` that leaves the epoch alone -/
theorem psi_transfer {s s' : St} (hP : Psi s) (i : Nat)
    (g1 : s'.slots.length = s.slots.length)
    (g2 : s'.mon.epoch = s.mon.epoch)
    (g3 : ∀ t, t ≠ i → s'.thr[t]? = s.thr[t]? ∧
      (∀ sl', s'.mon.slp[t]? = some sl' → ∃ sl, s.mon.slp[t]? = some sl ∧ sl'.nepoch = sl.nepoch) ∧
      (t ∈ s'.mon.waitset → t ∈ s.mon.waitset))
    (g4 : ∀ k, s'.slots.getD k true = false → s.slots.getD k true = false ∨ Wit s' k)
    (g5 : ∀ k, Wit s k → Wit s' k ∨ s'.mon.waitset = [])
    (g6 : ∀ th' sl', s'.thr[i]? = some th' → s'.mon.slp[i]? = some sl' → th'.pc = .wait → i ∈ s'.mon.waitset →
      sl'.nepoch = s'.mon.epoch → ∀ k, k < s'.slots.length → k ∉ th'.todo → s'.slots.getD k true = false → Wit s' k) :
    Psi s' := by
  intro t th' sl' ht hsl hpc hw hne k hk hkt hfree
  by_cases e : t = i
  · subst e; exact g6 th' sl' ht hsl hpc hw hne k hk hkt hfree
  · obtain ⟨a, b, c⟩ := g3 t e
    rw [a] at ht
    obtain ⟨sl, hsl0, hn0⟩ := b sl' hsl
    rcases g4 k hfree with hf | hwit
    · have := hP t th' sl ht hsl0 hpc (c hw) (by rw [← hn0, hne, g2]) k (by rw [← g1]; exact hk) hkt hf
      rcases g5 k this with w | w
      · exact w
      · rw [w] at hw; simp at hw
    · exact hwit

/-- the epoch bump: no node epoch is up to date any more -/
theorem psi_bump {s s' : St} (hN : Nep s.mon) (g2 : s'.mon.epoch = s.mon.epoch + 1)
    (g3 : ∀ (t : Nat) (sl' : Sleeper), s'.mon.slp[t]? = some sl' → ∃ sl, s.mon.slp[t]? = some sl ∧ sl'.nepoch = sl.nepoch) :
    Psi s' := by
  intro t th' sl' ht hsl hpc hw hne
  obtain ⟨sl, h0, h1⟩ := g3 t sl' hsl
  have := hN t sl h0
  omega

theorem nep_transfer {m m' : C02.St} (hN : Nep m) (hE : m.epoch ≤ m'.epoch)
    (g : ∀ (t : Nat) (sl' : Sleeper), m'.slp[t]? = some sl' →
      (∃ sl, m.slp[t]? = some sl ∧ sl'.nepoch = sl.nepoch) ∨ sl'.nepoch ≤ m'.epoch) :
    Nep m' := by
  intro t sl' h
  rcases g t sl' h with ⟨sl, h0, h1⟩ | h1
  · have := hN t sl h0; omega
  · exact h1

/-! ### what the client-level operations leave alone -/

theorem install_epoch (m : C02.St) (j : Nat) (op : NOp) : (install m j op).epoch = m.epoch := by
  rcases install_cases m j op with ⟨_, _, _, e⟩ | e <;> rw [e] <;> rfl
theorem install_waitset (m : C02.St) (j : Nat) (op : NOp) : (install m j op).waitset = m.waitset := by
  rcases install_cases m j op with ⟨_, _, _, e⟩ | e <;> rw [e] <;> rfl
theorem startWait_epoch (m : C02.St) (i : Nat) : (startWait m i).epoch = m.epoch := by
  unfold startWait; split
  · split <;> rfl
  · rfl
theorem startWait_waitset (m : C02.St) (i : Nat) : (startWait m i).waitset = m.waitset := by
  unfold startWait; split
  · split <;> rfl
  · rfl

theorem startWait_nepoch (m : C02.St) (i t : Nat) (sl' : Sleeper) (h : (startWait m i).slp[t]? = some sl') :
    ∃ sl, m.slp[t]? = some sl ∧ sl'.nepoch = sl.nepoch := by
  unfold startWait at h
  split at h
  · rename_i sl0 h0
    split at h
    · simp only [St.setS, List.getElem?_set] at h
      by_cases e : i = t
      · subst e
        have hlt := getElem?_lt h0
        simp [hlt] at h; subst h; exact ⟨sl0, h0, rfl⟩
      · simp [e] at h; exact ⟨sl', h, rfl⟩
    · exact ⟨sl', h, rfl⟩
  · exact ⟨sl', h, rfl⟩

theorem tas_free (slots : List Bool) (k0 k : Nat) (h : (tas slots k0).1.getD k true = false) : slots.getD k true = false := by
  unfold tas at h
  split at h
  · exact h
  · simp only [List.getD_eq_getElem?_getD, List.getElem?_set] at h ⊢
    by_cases e : k0 = k
    · subst e
      by_cases hl : k0 < slots.length
      · simp [hl] at h
      · simp [hl] at h
    · simp [e] at h; exact h

theorem tas_taken (slots : List Bool) (k0 : Nat) (h : (tas slots k0).2 = true) : (tas slots k0).1.getD k0 true = true := by
  unfold tas at h ⊢
  split
  · rename_i hc; rw [if_pos hc] at h; cases h
  · simp only [List.getD_eq_getElem?_getD, List.getElem?_set]
    by_cases hl : k0 < slots.length
    · simp [hl]
    · simp [hl]

theorem tas_fail (slots : List Bool) (k0 : Nat) (h : ¬ (tas slots k0).2 = true) : slots.getD k0 true = true := by
  unfold tas at h
  split at h
  · assumption
  · simp at h

end TbbVerif.C02.EX
