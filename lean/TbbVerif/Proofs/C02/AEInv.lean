/-
C02 / arena enqueue (`AE`): the structural invariant — both embedded flags satisfy the `Flag` invariant, program counter
and operation agree, and a flag's publisher is in flight only while its thread is inside `advertise_new_work`.
-/
import TbbVerif.Proofs.C02.AEFlag
set_option linter.unusedSimpArgs false
namespace TbbVerif.C02.AE
open TbbVerif.C02

theorem workersDelta_code (W : Nat) (md wv : Int) (hm : md = 0 ∨ md = 1) (hw : wv = 0 ∨ wv = 1) :
    workersDelta W md wv = (if md = 1 ∧ W = 0 then 1 else wv * W) ∧
    workersDelta W (-md) (-wv) = (if -md = -1 ∧ W = 0 then -1 else -(wv * W)) := by
  unfold workersDelta
  by_cases hW : W = 0
  · subst hW; rcases hm with rfl | rfl <;> rcases hw with rfl | rfl <;> simp
  · rcases hm with rfl | rfl <;> rcases hw with rfl | rfl <;> simp [hW, Int.mul_comm]

/-! ### wrappers -/

theorem pubStep_spec (f : Flag.St) (i : Nat) :
    Flag.FInv f → Flag.FInv (pubStep f i) := by
  intro h; unfold pubStep; split
  · rename_i p hp; exact Flag.stepP_inv h hp
  · exact h

theorem clStep_spec (f : Flag.St) (i : Nat) : Flag.FInv f → Flag.FInv (clStep f i) := by
  intro h; unfold clStep; split
  · rename_i c hc; exact Flag.stepC_inv h hc
  · exact h

theorem conStep_spec (f : Flag.St) (i : Nat) : Flag.FInv f → Flag.FInv (conStep f i) := by
  intro h; unfold conStep; split
  · exact Flag.stepT_inv h _ _
  · exact h

/-- what one access of publisher `i` does to the flag's counters -/
theorem pubStep_frame (f : Flag.St) (i : Nat) :
    (pubStep f i).rel = f.rel ∧ (pubStep f i).pubs.length = f.pubs.length ∧
    ((pubStep f i).req = f.req ∨ (pubStep f i).req = f.req + 1) ∧ f.work ≤ (pubStep f i).work ∧
    (∀ k, k ≠ i → (pubStep f i).pubs[k]? = f.pubs[k]?) ∧
    (¬ (pubLeft (pubStep f i) i < pubLeft f i) → (pubStep f i).req = f.req) ∧
    (∀ p', (pubStep f i).pubs[i]? = some p' → pubLeft (pubStep f i) i < pubLeft f i → p'.inflight = false) ∧
    (∀ p p', f.pubs[i]? = some p → (pubStep f i).pubs[i]? = some p' → p.inflight = false → p'.left = p.left) ∧
    (∀ p, f.pubs[i]? = some p → p.inflight = false ∨ p.pc = .fence ∨ p.left = 0 → (pubStep f i).req = f.req) ∧
    (∀ p p', f.pubs[i]? = some p → (pubStep f i).pubs[i]? = some p' → p.inflight = false → p'.left = 0 ∨ p'.pc = .fence) := by
  unfold pubStep pubLeft
  cases hp : f.pubs[i]? with
  | none => simp [hp]
  | some p =>
    simp only [hp]
    obtain ⟨_, _, h3, h4, h5, h6, h7, p', hp', h8, h9, h10, h11, h12, h13, h14⟩ := Flag.stepP_frame f i p hp
    refine ⟨h3, h4, h6, h7, h5, ?_, ?_, ?_, ?_, ?_⟩
    rotate_left 3
    · intro q hq hc; cases hq
      rcases hc with hc | hc | hc
      · exact h11 (h10 hc)
      · exact h11 (h13 hc).1
      · exact h11 (by rw [h14 hc])
    · intro q q' hq hq' hin; cases hq; rw [hp'] at hq'; cases hq'
      rcases h12 hin with ⟨e0, e1⟩ | ⟨e0, _⟩
      · left; rw [e1]; exact e0
      · right; exact e0
    · simp only [hp']; intro hn; exact h11 (by omega)
    · intro q hq hlt; simp only [hp'] at hq hlt; cases hq
      have := h9 hlt
      simp [Flag.Pub.inflight, this]
    · intro q q' hq hq' hin; cases hq; rw [hp'] at hq'; cases hq'; exact h10 hin

theorem clStep_frame (f : Flag.St) (i : Nat) :
    (clStep f i).req = f.req ∧ (clStep f i).work = f.work ∧ (clStep f i).pubs = f.pubs ∧
    ((clStep f i).rel = f.rel ∨ (clStep f i).rel = f.rel + 1) ∧
    (¬ (clLeft (clStep f i) i < clLeft f i) → (clStep f i).rel = f.rel) := by
  unfold clStep clLeft
  cases hc : f.cls[i]? with
  | none => simp [hc]
  | some c =>
    simp only [hc]
    obtain ⟨h1, _, h3, h4, _, _, h7, c', hc', h8, h9⟩ := Flag.stepC_frame f i c hc
    refine ⟨h3, h4, h1, h7, ?_⟩
    simp only [hc']; intro hn; exact h9 (by omega)

theorem conStep_frame (f : Flag.St) (i : Nat) :
    (conStep f i).req = f.req ∧ (conStep f i).rel = f.rel ∧ (conStep f i).pubs = f.pubs ∧ (conStep f i).flag = f.flag ∧
    (conStep f i).work ≤ f.work := by
  unfold conStep
  split
  · obtain ⟨h1, _, h3, h4, h5, h6, _⟩ := Flag.stepT_frame f i _
    exact ⟨h3, h4, h1, h5, h6⟩
  · exact ⟨rfl, rfl, rfl, rfl, Nat.le_refl _⟩

end TbbVerif.C02.AE

namespace TbbVerif.C02.AE
open TbbVerif.C02

def Thr.kind (th : Thr) : Option Op := th.ops.head?

/-- inside an `enqueue_task` / spawn + `advertise_new_work` -/
def Thr.advertising (th : Thr) : Bool := th.pc != .idle && th.kind == some .enq

def PcOp (th : Thr) : Prop :=
  match th.pc with
  | .idle => True
  | .ePush | .eFence | .eMand | .ePool => th.kind = some .enq
  | .oMand | .oPool => th.kind = some .oow
  | .reqProxy | .reqEnable | .reqMarket =>
      (th.kind = some .enq ∨ th.kind = some .oow) ∧ (th.wake = true ↔ th.kind ≠ some .oow)
  | .reqNotify => th.kind = some .enq
  | .tTake => th.kind = some .takeF

structure SInv (s : St) : Prop where
  fm : Flag.FInv s.fm
  fp : Flag.FInv s.fp
  lenM : s.fm.pubs.length = s.thr.length
  lenP : s.fp.pubs.length = s.thr.length
  pcop : ∀ (i : Nat) (th : Thr), s.thr[i]? = some th → PcOp th
  lm : ∀ (i : Nat) (p : Flag.Pub) (th : Thr), s.fm.pubs[i]? = some p → s.thr[i]? = some th → p.inflight = true →
        th.pc = .eFence ∨ th.pc = .eMand
  lp : ∀ (i : Nat) (p : Flag.Pub) (th : Thr), s.fp.pubs[i]? = some p → s.thr[i]? = some th → p.inflight = true →
        th.pc = .eFence ∨ th.pc = .eMand ∨ th.pc = .ePool
  lf : ∀ (i : Nat) (p : Flag.Pub) (th : Thr), s.fm.pubs[i]? = some p → s.thr[i]? = some th → th.pc = .eFence →
        p.left = 0 ∨ p.pc = .fence

theorem setT_thr (s : St) (i k : Nat) (th : Thr) :
    (s.setT i th).thr[k]? = if i = k then (if i < s.thr.length then some th else none) else s.thr[k]? := by
  simp [St.setT, List.getElem?_set]

theorem request_pcop {th : Thr} (hk : th.kind = some .enq ∨ th.kind = some .oow)
    (call : Bool) (md wd : Int) (wake : Bool) (hw : wake = true ↔ th.kind ≠ some .oow) :
    PcOp (th.request call md wd wake) := by
  unfold Thr.request
  split
  · by_cases hmd : md = 0
    · simp only [hmd, ne_eq, not_true_eq_false, if_false, PcOp]; exact ⟨hk, hw⟩
    · simp only [hmd, ne_eq, not_false_eq_true, if_true, PcOp]; exact ⟨hk, hw⟩
  · simp [PcOp, Thr.done]

theorem request_pc (th : Thr) (call : Bool) (md wd : Int) (wake : Bool) :
    (th.request call md wd wake).pc = .idle ∨ (th.request call md wd wake).pc = .reqProxy ∨ (th.request call md wd wake).pc = .reqMarket := by
  unfold Thr.request
  split
  · simp only; split
    · exact Or.inr (Or.inl rfl)
    · exact Or.inr (Or.inr rfl)
  · exact Or.inl rfl


theorem set_self {α} (l : List α) (i : Nat) (a : α) (h : l[i]? = some a) : l.set i a = l := by
  apply List.ext_getElem?
  intro k
  rw [List.getElem?_set]
  by_cases e : i = k
  · subst e; simp only [if_true]; rw [h]; simp [Flag.getElem?_lt' h]
  · simp [e]

theorem sinv_update_full {s s' : St} (h : SInv s) {i : Nat} {th : Thr} (hth : s.thr[i]? = some th) {th' : Thr}
    (hthr : s'.thr = s.thr.set i th')
    (hFm : Flag.FInv s'.fm) (hFp : Flag.FInv s'.fp)
    (hlm : s'.fm.pubs.length = s.fm.pubs.length) (hlp : s'.fp.pubs.length = s.fp.pubs.length)
    (hom : ∀ k, k ≠ i → s'.fm.pubs[k]? = s.fm.pubs[k]?) (hop : ∀ k, k ≠ i → s'.fp.pubs[k]? = s.fp.pubs[k]?)
    (hpc : PcOp th')
    (hmi : ∀ p, s'.fm.pubs[i]? = some p → p.inflight = true → th'.pc = .eFence ∨ th'.pc = .eMand)
    (hpi : ∀ p, s'.fp.pubs[i]? = some p → p.inflight = true → th'.pc = .eFence ∨ th'.pc = .eMand ∨ th'.pc = .ePool)
    (hfi : ∀ p, s'.fm.pubs[i]? = some p → th'.pc = .eFence → p.left = 0 ∨ p.pc = .fence) :
    SInv s' := by
  have hlt := Flag.getElem?_lt' hth
  have hget : ∀ k, s'.thr[k]? = if i = k then some th' else s.thr[k]? := by
    intro k; rw [hthr, List.getElem?_set]; by_cases e : i = k <;> simp [e, hlt]; subst e; exact hlt
  refine ⟨hFm, hFp, by rw [hlm, hthr]; simp [h.lenM], by rw [hlp, hthr]; simp [h.lenP], ?_, ?_, ?_, ?_⟩
  rotate_left 3
  · intro k p thk hp hk hpc'
    rw [hget] at hk
    by_cases e : i = k
    · subst e; simp at hk; subst hk; exact hfi p hp hpc'
    · simp [e] at hk; rw [hom k (fun e' => e e'.symm)] at hp; exact h.lf k p thk hp hk hpc'
  · intro k thk hk
    rw [hget] at hk
    by_cases e : i = k
    · simp [e] at hk; subst hk; exact hpc
    · simp [e] at hk; exact h.pcop k thk hk
  · intro k p thk hp hk hin
    rw [hget] at hk
    by_cases e : i = k
    · subst e; simp at hk; subst hk; exact hmi p hp hin
    · simp [e] at hk; rw [hom k (fun e' => e e'.symm)] at hp; exact h.lm k p thk hp hk hin
  · intro k p thk hp hk hin
    rw [hget] at hk
    by_cases e : i = k
    · subst e; simp at hk; subst hk; exact hpi p hp hin
    · simp [e] at hk; rw [hop k (fun e' => e e'.symm)] at hp; exact h.lp k p thk hp hk hin


theorem request_pc_ne (th : Thr) (call : Bool) (md wd : Int) (wake : Bool) : (th.request call md wd wake).pc ≠ .eFence := by
  rcases request_pc th call md wd wake with e | e | e <;> rw [e] <;> simp

theorem sinv_update {s s' : St} (h : SInv s) {i : Nat} {th : Thr} (hth : s.thr[i]? = some th) {th' : Thr}
    (hthr : s'.thr = s.thr.set i th')
    (hFm : Flag.FInv s'.fm) (hFp : Flag.FInv s'.fp)
    (hlm : s'.fm.pubs.length = s.fm.pubs.length) (hlp : s'.fp.pubs.length = s.fp.pubs.length)
    (hom : ∀ k, k ≠ i → s'.fm.pubs[k]? = s.fm.pubs[k]?) (hop : ∀ k, k ≠ i → s'.fp.pubs[k]? = s.fp.pubs[k]?)
    (hpc : PcOp th')
    (hmi : ∀ p, s'.fm.pubs[i]? = some p → p.inflight = true → th'.pc = .eFence ∨ th'.pc = .eMand)
    (hpi : ∀ p, s'.fp.pubs[i]? = some p → p.inflight = true → th'.pc = .eFence ∨ th'.pc = .eMand ∨ th'.pc = .ePool)
    (hne : th'.pc ≠ .eFence := by first
      | (simp; done) | (simp [Thr.done]; done) | exact request_pc_ne _ _ _ _ _
      | (simp only []; split <;> simp [Thr.done]; done)) :
    SInv s' :=
  sinv_update_full h hth hthr hFm hFp hlm hlp hom hop hpc hmi hpi (fun _ _ e => absurd e hne)

theorem pubStep2_frame_unused (f : Flag.St) (i : Nat) :
    (pubStep (pubStep f i) i).pubs.length = f.pubs.length ∧ (∀ k, k ≠ i → (pubStep (pubStep f i) i).pubs[k]? = f.pubs[k]?) := by
  obtain ⟨_, a, _, _, b, _⟩ := pubStep_frame f i
  obtain ⟨_, a', _, _, b', _⟩ := pubStep_frame (pubStep f i) i
  exact ⟨by rw [a', a], fun k hk => by rw [b' k hk, b k hk]⟩

theorem stepT_sinv {s : St} (h : SInv s) {i : Nat} {th : Thr} (hth : s.thr[i]? = some th) : SInv (stepT s i th) := by
  have hpo := h.pcop i th hth
  unfold PcOp at hpo
  have nM : th.pc ≠ .eFence → th.pc ≠ .eMand → ∀ p, s.fm.pubs[i]? = some p → p.inflight = true → False := by
    intro h1 h2 p hp hin
    rcases h.lm i p th hp hth hin with e | e
    · exact h1 e
    · exact h2 e
  have nP : th.pc ≠ .eFence → th.pc ≠ .eMand → th.pc ≠ .ePool → ∀ p, s.fp.pubs[i]? = some p → p.inflight = true → False := by
    intro h1 h2 h3 p hp hin
    rcases h.lp i p th hp hth hin with e | e | e
    · exact h1 e
    · exact h2 e
    · exact h3 e
  have same : ∀ (s' : St), s'.thr = s.thr → s'.thr = s.thr.set i th := fun s' e => by rw [e, set_self _ _ _ hth]
  unfold stepT
  cases hpc : th.pc <;> simp only [hpc] at hpo nM nP ⊢
  case idle =>
    cases hops : th.ops with
    | nil => simp only; exact h
    | cons o rest =>
      simp only
      refine sinv_update h hth rfl h.fm h.fp rfl rfl (fun _ _ => rfl) (fun _ _ => rfl) ?_
        (fun p hp hin => (nM (by simp) (by simp) p hp hin).elim) (fun p hp hin => (nP (by simp) (by simp) (by simp) p hp hin).elim)
        (hne := by cases o <;> simp [Op.startPc])
      cases o <;> simp [PcOp, Op.startPc, Thr.kind, hops]
  case ePush =>
    obtain ⟨_, a1, _, _, a2, _, _, _, _, a10⟩ := pubStep_frame s.fm i
    obtain ⟨_, b1, _, _, b2, _⟩ := pubStep_frame s.fp i
    refine sinv_update_full h hth rfl (pubStep_spec _ _ h.fm) (pubStep_spec _ _ h.fp) a1 b1 a2 b2 (by simpa [PcOp, Thr.kind] using hpo)
      (fun _ _ _ => Or.inl rfl) (fun _ _ _ => Or.inl rfl) ?_
    intro p' hp' _
    cases hp0 : s.fm.pubs[i]? with
    | none =>
      have hp'' : (pubStep s.fm i).pubs[i]? = some p' := hp'
      have : pubStep s.fm i = s.fm := by unfold pubStep; rw [hp0]
      rw [this, hp0] at hp''; cases hp''
    | some p0 =>
      have hn0 : p0.inflight = false := by
        cases hh : p0.inflight
        · rfl
        · exact (nM (by simp) (by simp) p0 hp0 hh).elim
      exact a10 p0 p' hp0 hp' hn0
  case eFence =>
    obtain ⟨_, a1, _, _, a2, _⟩ := pubStep_frame s.fm i
    obtain ⟨_, b1, _, _, b2, _⟩ := pubStep_frame s.fp i
    exact sinv_update h hth rfl (pubStep_spec _ _ h.fm) (pubStep_spec _ _ h.fp) a1 b1 a2 b2 (by simpa [PcOp, Thr.kind] using hpo)
      (fun _ _ _ => Or.inr rfl) (fun _ _ _ => Or.inr (Or.inl rfl))
  case eMand =>
    obtain ⟨_, a1, _, _, a2, _, a3, _⟩ := pubStep_frame s.fm i
    by_cases hdone : pubLeft (pubStep s.fm i) i < pubLeft s.fm i
    · simp only [hdone, if_true]
      exact sinv_update h hth rfl (pubStep_spec _ _ h.fm) h.fp a1 rfl a2 (fun _ _ => rfl) (by simpa [PcOp, Thr.kind] using hpo)
        (fun p hp hin => by have := a3 p hp hdone; rw [this] at hin; cases hin) (fun _ _ _ => Or.inr (Or.inr rfl))
    · simp only [hdone, if_false]
      exact sinv_update h hth rfl (pubStep_spec _ _ h.fm) h.fp a1 rfl a2 (fun _ _ => rfl) (by simpa [PcOp, Thr.kind] using hpo)
        (fun _ _ _ => Or.inr rfl) (fun _ _ _ => Or.inr (Or.inl rfl))
  case ePool =>
    obtain ⟨_, b1, _, _, b2, _, b3, _⟩ := pubStep_frame s.fp i
    split
    · rename_i hdone
      refine sinv_update h hth rfl h.fm (pubStep_spec _ _ h.fp) rfl b1 (fun _ _ => rfl) b2
        (request_pcop (Or.inl (by simpa [Thr.kind] using hpo)) _ _ _ _ ⟨fun _ => (by simp only [Thr.kind] at hpo ⊢; rw [hpo]; simp), fun _ => rfl⟩)
        (fun p hp hin => (nM (by simp) (by simp) p hp hin).elim)
        (fun p hp hin => by have := b3 p hp hdone; rw [this] at hin; cases hin)
    · exact sinv_update h hth rfl h.fm (pubStep_spec _ _ h.fp) rfl b1 (fun _ _ => rfl) b2 (by simpa [PcOp, hpc, Thr.kind] using hpo)
        (fun p hp hin => (nM (by simp) (by simp) p hp hin).elim) (fun _ _ _ => Or.inr (Or.inr rfl))
  case oMand =>
    obtain ⟨_, _, a1, _⟩ := clStep_frame s.fm i
    have hm : ∀ p, (clStep s.fm i).pubs[i]? = some p → p.inflight = true → False := by
      intro p hp hin; rw [a1] at hp; exact nM (by simp) (by simp) p hp hin
    by_cases hdone : clLeft (clStep s.fm i) i < clLeft s.fm i
    · simp only [hdone, if_true]
      exact sinv_update h hth rfl (clStep_spec _ _ h.fm) h.fp (by show (clStep s.fm i).pubs.length = _; rw [a1]) rfl
        (fun k _ => by show (clStep s.fm i).pubs[k]? = _; rw [a1]) (fun _ _ => rfl)
        (by simpa [PcOp, Thr.kind] using hpo) (fun p hp hin => (hm p hp hin).elim)
        (fun p hp hin => (nP (by simp) (by simp) (by simp) p hp hin).elim)
    · simp only [hdone, if_false]
      exact sinv_update h hth rfl (clStep_spec _ _ h.fm) h.fp (by show (clStep s.fm i).pubs.length = _; rw [a1]) rfl
        (fun k _ => by show (clStep s.fm i).pubs[k]? = _; rw [a1]) (fun _ _ => rfl)
        (by simpa [PcOp, Thr.kind] using hpo) (fun p hp hin => (hm p hp hin).elim)
        (fun p hp hin => (nP (by simp) (by simp) (by simp) p hp hin).elim)
  case oPool =>
    obtain ⟨_, _, b1, _⟩ := clStep_frame s.fp i
    have hp' : ∀ p, (clStep s.fp i).pubs[i]? = some p → p.inflight = true → False := by
      intro p hp hin; rw [b1] at hp; exact nP (by simp) (by simp) (by simp) p hp hin
    split
    · refine sinv_update h hth rfl h.fm (clStep_spec _ _ h.fp) rfl (by show (clStep s.fp i).pubs.length = _; rw [b1]) (fun _ _ => rfl)
        (fun k _ => by show (clStep s.fp i).pubs[k]? = _; rw [b1])
        (request_pcop (Or.inr (by simpa [Thr.kind] using hpo)) _ _ _ _ ⟨fun hw => (by cases hw), fun hk => absurd (by simpa [Thr.kind] using hpo) hk⟩)
        (fun p hp hin => (nM (by simp) (by simp) p hp hin).elim) (fun p hp hin => (hp' p hp hin).elim)
    · exact sinv_update h hth rfl h.fm (clStep_spec _ _ h.fp) rfl (by show (clStep s.fp i).pubs.length = _; rw [b1]) (fun _ _ => rfl)
        (fun k _ => by show (clStep s.fp i).pubs[k]? = _; rw [b1])
        (by simpa [PcOp, hpc, Thr.kind] using hpo)
        (fun p hp hin => (nM (by simp) (by simp) p hp hin).elim) (fun p hp hin => (hp' p hp hin).elim)
  case reqProxy =>
    refine sinv_update h hth rfl h.fm h.fp rfl rfl (fun _ _ => rfl) (fun _ _ => rfl) ?_
      (fun p hp hin => (nM (by simp) (by simp) p hp hin).elim) (fun p hp hin => (nP (by simp) (by simp) (by simp) p hp hin).elim)
    by_cases hc : th.md > 0 ∧ s.numMand = 0 ∨ th.md < 0 ∧ s.numMand = 1
    · simp only [PcOp, hc, if_true]; exact hpo
    · simp only [PcOp, hc, if_false]; exact hpo
  case reqEnable =>
    repeat' split
    all_goals
      refine sinv_update h hth rfl h.fm h.fp rfl rfl (fun _ _ => rfl) (fun _ _ => rfl) ?_
        (fun p hp hin => (nM (by simp) (by simp) p hp hin).elim) (fun p hp hin => (nP (by simp) (by simp) (by simp) p hp hin).elim)
      simpa [PcOp, Thr.kind] using hpo
  case reqMarket =>
    refine sinv_update h hth rfl h.fm h.fp rfl rfl (fun _ _ => rfl) (fun _ _ => rfl) ?_
      (fun p hp hin => (nM (by simp) (by simp) p hp hin).elim)
      (fun p hp hin => (nP (by simp) (by simp) (by simp) p hp hin).elim)
      (hne := by split <;> simp [Thr.done])
    split
    · rename_i hw
      simp only [PcOp, Thr.kind]
      rcases hpo.1 with e | e
      · exact e
      · exact absurd e (hpo.2.mp hw)
    · simp [PcOp, Thr.done]
  case reqNotify =>
    exact sinv_update h hth rfl h.fm h.fp rfl rfl (fun _ _ => rfl) (fun _ _ => rfl) (by simp [PcOp, Thr.done])
      (fun p hp hin => (nM (by simp) (by simp) p hp hin).elim) (fun p hp hin => (nP (by simp) (by simp) (by simp) p hp hin).elim)
  case tTake =>
    obtain ⟨_, _, a1, _⟩ := conStep_frame s.fm i
    obtain ⟨_, _, b1, _⟩ := conStep_frame s.fp i
    split
    · exact sinv_update h hth rfl h.fm h.fp rfl rfl (fun _ _ => rfl) (fun _ _ => rfl) (by simp [PcOp, Thr.done])
        (fun p hp hin => (nM (by simp) (by simp) p hp hin).elim) (fun p hp hin => (nP (by simp) (by simp) (by simp) p hp hin).elim)
    · exact sinv_update h hth rfl (conStep_spec _ _ h.fm) (conStep_spec _ _ h.fp)
        (by show (conStep s.fm i).pubs.length = _; rw [a1]) (by show (conStep s.fp i).pubs.length = _; rw [b1])
        (fun k _ => by show (conStep s.fm i).pubs[k]? = _; rw [a1]) (fun k _ => by show (conStep s.fp i).pubs[k]? = _; rw [b1])
        (by simp [PcOp, Thr.done])
        (fun p hp hin => (nM (by simp) (by simp) p (by have hp' : (conStep s.fm i).pubs[i]? = some p := hp; rw [a1] at hp'; exact hp') hin).elim)
        (fun p hp hin => (nP (by simp) (by simp) (by simp) p (by have hp' : (conStep s.fp i).pubs[i]? = some p := hp; rw [b1] at hp'; exact hp') hin).elim)

end TbbVerif.C02.AE
