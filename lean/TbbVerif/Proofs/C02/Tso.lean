/-
C02 / Tso: no lost wake-up under store buffers when both Dekker sides drain; the necessity witnesses.
-/
import TbbVerif.Proofs.C02.Tso_e1111
import TbbVerif.Proofs.C02.Tso_e1110
import TbbVerif.Proofs.C02.Tso_e1101
import TbbVerif.Proofs.C02.Tso_e1011
import TbbVerif.Proofs.C02.Tso_e1010
import TbbVerif.Proofs.C02.Tso_e1001
import TbbVerif.Proofs.C02.Tso_e0111
import TbbVerif.Proofs.C02.Tso_e0110
import TbbVerif.Proofs.C02.Tso_e0101

namespace TbbVerif.C02.Tso

theorem eff_not_lost (e : Eff) (hok : e.ok = true) (sched : List Tid) : lost ((sysE e).run sched) = false := by
  obtain ⟨pf, ud, nf, cd⟩ := e
  cases pf <;> cases ud <;> cases nf <;> cases cd <;> simp [Eff.ok] at hok
  all_goals first
    | exact not_lost_of_closed _ _ closed_e1111 safe_e1111 sched
    | exact not_lost_of_closed _ _ closed_e1110 safe_e1110 sched
    | exact not_lost_of_closed _ _ closed_e1101 safe_e1101 sched
    | exact not_lost_of_closed _ _ closed_e1011 safe_e1011 sched
    | exact not_lost_of_closed _ _ closed_e1010 safe_e1010 sched
    | exact not_lost_of_closed _ _ closed_e1001 safe_e1001 sched
    | exact not_lost_of_closed _ _ closed_e0111 safe_e0111 sched
    | exact not_lost_of_closed _ _ closed_e0110 safe_e0110 sched
    | exact not_lost_of_closed _ _ closed_e0101 safe_e0101 sched

theorem fencesOK_eff (o : Orders) : fencesOK o = o.eff.ok := rfl

end TbbVerif.C02.Tso
