/-
C02 / bounded queue: from the invariants to the statements of Props/C02.lean.
-/
import TbbVerif.Proofs.C02.BQAbort

set_option linter.unusedSimpArgs false

namespace TbbVerif.C02.BQ
open TbbVerif.C02

/-- the thread holds a pop ticket and has not finished the `notify(slots_avail, ticket)` that its ticket obliges it to -/
def popPending : Pc → Bool
  | .qLoadTail | .qWait | .qHeadDec | .qConsume | .qNotify | .rConsume | .rNotify => true
  | _ => false

/-- the thread holds a push ticket and has not finished the `notify(items_avail, ticket)` -/
def pushPending : Pc → Bool
  | .pLoadHead | .pWait | .pAbortPush | .pPublish | .pNotify | .tPublish | .tNotify => true
  | _ => false

structure AllInv (s : St) : Prop where
  m : MInv s
  l : Link s
  j : JInv s
  k : KInv s

theorem reach_all (cap : Nat) (progs : List (List Op)) (sched : List Tid) : AllInv ((sys cap progs).run sched) :=
  ⟨reach_minv cap progs sched, reach_link cap progs sched, reach_jinv cap progs sched, reach_kinv cap progs sched⟩

theorem pendingFor_ops {n : Notifier} {c x : Nat} (h : pendingFor n c x = true) : ∃ k r rest, n.ops = .sig (some c) k r :: rest := by
  unfold pendingFor at h
  split at h
  · rename_i c' k r rest heq
    simp only [Bool.and_eq_true, beq_iff_eq] at h
    exact ⟨k, r, rest, by rw [heq, h.1.1]⟩
  · cases h

theorem leq_inj {c t : Nat} {k : NKind} {r : Bool} {rest : List NOp} (h : NOp.sig (some c) k r :: rest = [leqOp t]) : t = c := by
  unfold leqOp at h
  injection h with h1 h2
  injection h1 with h3 _ _
  injection h3 with h4
  exact h4.symm

theorem abort_ne {c : Nat} {k : NKind} {r : Bool} {rest : List NOp} (h : NOp.sig (some c) k r :: rest = [abortOp]) : False := by
  unfold abortOp at h
  injection h with h1 h2
  injection h1 with h3 _ _
  cases h3

theorem linkS_leq {th : Thr} {n : Notifier} (h : LinkS th n) {c : Nat} {k : NKind} {r : Bool} {rest : List NOp}
    (ho : n.ops = .sig (some c) k r :: rest) : th.ops ≠ [] ∧ th.ticket = c ∧ popPending th.pc = true := by
  unfold LinkS at h
  split at h
  · rw [ho] at h; cases h
  · rename_i hne
    refine ⟨hne, ?_⟩
    rw [ho] at h
    cases hpc : th.pc <;> simp only [hpc] at h
    all_goals first
      | exact ⟨leq_inj h.1, rfl⟩
      | exact ⟨leq_inj h, rfl⟩
      | exact (abort_ne h.1).elim
      | exact (abort_ne h).elim
      | cases h

theorem linkI_leq {th : Thr} {n : Notifier} (h : LinkI th n) {c : Nat} {k : NKind} {r : Bool} {rest : List NOp}
    (ho : n.ops = .sig (some c) k r :: rest) : th.ops ≠ [] ∧ th.ticket = c ∧ pushPending th.pc = true := by
  unfold LinkI at h
  split at h
  · rw [ho] at h; cases h
  · rename_i hne
    refine ⟨hne, ?_⟩
    rw [ho] at h
    cases hpc : th.pc <;> simp only [hpc] at h
    all_goals first
      | exact ⟨leq_inj h.1, rfl⟩
      | exact ⟨leq_inj h, rfl⟩
      | exact (abort_ne h.1).elim
      | exact (abort_ne h).elim
      | cases h

/-- a ticket-tagged wait in progress: context = condition -/
theorem shape_ctx {m : C02.St} (h : MonOK m) {i : Nat} {sl : Sleeper} (hi : m.slp[i]? = some sl) (hne : sl.ops ≠ []) :
    sl.cond = sl.ctx := by
  obtain ⟨w, rest, hw⟩ := List.exists_cons_of_ne_nil hne
  have := h.shape.slp i sl hi w (by rw [hw]; simp)
  simp [Sleeper.cond, Sleeper.ctx, hw, this]

/-- the Monitor-level core of the two wake-up theorems, for one monitor whose ghost conditions are `counter > c` -/
theorem mon_parked {m : C02.St} (h : MonOK m) {counter : Nat} (hj : ∀ c, m.cond c = true ↔ c < counter)
    {i : Nat} {sl : Sleeper} (hi : m.slp[i]? = some sl) (hpc : sl.pc = .commit ∨ sl.pc = .park) (hsem : sl.sem = 0)
    (hlt : sl.ctx < counter) :
    (∃ (j : Nat) (n : Notifier), m.ntf[j]? = some n ∧ i ∈ n.temp) ∨
    (∃ (j : Nat) (n : Notifier), m.ntf[j]? = some n ∧ pendingFor n sl.ctx sl.ctx = true) := by
  have hne : sl.ops ≠ [] := by
    intro e; have := h.inv.opsS i sl hi e; rcases hpc with a | a <;> rw [this] at a <;> cases a
  have hcc := shape_ctx h hi hne
  have hcond : m.cond sl.cond = true := by rw [hcc]; exact (hj _).mpr hlt
  have ho := (sloc_owed (h.inv.slp i sl hi)).2.2.2 hpc
  rcases h.inv.dek i sl hi hpc hcond with hW | ⟨j, n, hj', hp⟩
  · rcases ho with ⟨hW', _⟩ | ⟨_, h1⟩
    · exact absurd hW' hW
    · left; exact pend_pos (by omega)
  · right; exact ⟨j, n, hj', by rw [hcc] at hp; exact hp⟩

theorem mon_parked_abort {m : C02.St} (h : MonOK m) {i : Nat} {sl : Sleeper} (hi : m.slp[i]? = some sl)
    (hpc : sl.pc = .park) (hsem : sl.sem = 0) :
    i ∈ m.waitset ∨ ∃ (j : Nat) (n : Notifier), m.ntf[j]? = some n ∧ i ∈ n.temp := by
  have ho := (sloc_owed (h.inv.slp i sl hi)).2.2.2 (Or.inr hpc)
  rcases ho with ⟨hW', _⟩ | ⟨_, h1⟩
  · exact Or.inl hW'
  · right; exact pend_pos (by omega)

theorem pendingFor_idle' {n : Notifier} (h : n.ops = []) {c x : Nat} : pendingFor n c x = false := pendingFor_idle h c x

end TbbVerif.C02.BQ
