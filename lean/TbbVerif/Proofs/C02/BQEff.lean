/-
C02 / bounded queue: what the queue-level monitor operations do to the notifier table, the conditions, the sleepers and
the wait set (frame facts for the queue's own invariants).
-/
import TbbVerif.Proofs.C02.BQOps

namespace TbbVerif.C02.BQ
open TbbVerif.C02

def armedN (k : Nat) : Notifier := { ops := [leqOp k], pc := .fence, temp := [], marked := 0 }

theorem step_ntf_of_slp (m : C02.St) (t : Nat) (ht : t < m.slp.length) : (C02.step m t).ntf = m.ntf ∧ (C02.step m t).conds = m.conds := by
  unfold C02.step
  simp only [ht, if_true]
  split
  · rename_i sl _; exact ⟨(stepS_frame m t sl).1, (stepS_frame m t sl).2.1⟩
  · exact ⟨rfl, rfl⟩

/-! ### arm -/

theorem arm_idle {m : C02.St} {i : Nat} {n : Notifier} (hn : m.ntf[i]? = some n) (hidle : n.ops = []) (k : Nat) :
    arm m i k = (m.setCond k true).setN i (armedN k) := by
  have hlt := getElem?_lt hn
  unfold arm
  simp only [hn, hidle, List.isEmpty_nil, if_true]
  unfold C02.step
  have h1 : ¬ (m.slp.length + i < (m.setN i (mkNotifier [.sig (some k) (.leq k) false])).slp.length) := by
    simp [St.setN]
  simp only [h1, if_false]
  have h2 : (m.setN i (mkNotifier [.sig (some k) (.leq k) false])).slp.length = m.slp.length := rfl
  simp only [h2, Nat.add_sub_cancel_left]
  have h3 : (m.setN i (mkNotifier [.sig (some k) (.leq k) false])).ntf[i]? = some (mkNotifier [.sig (some k) (.leq k) false]) := by
    simp [St.setN, List.getElem?_set, hlt]
  simp only [h3]
  unfold stepN
  simp [mkNotifier, NOp.startPc, Notifier.cond?, Notifier.relaxed, St.setN, St.setCond, armedN, leqOp]

theorem arm_busy {m : C02.St} {i : Nat} {n : Notifier} (hn : m.ntf[i]? = some n) (hb : n.ops ≠ []) (k : Nat) : arm m i k = m := by
  unfold arm
  have : n.ops.isEmpty = false := by cases h : n.ops <;> simp_all
  simp [hn, this]

theorem arm_none {m : C02.St} {i : Nat} (hn : m.ntf[i]? = none) (k : Nat) : arm m i k = m := by
  unfold arm; simp [hn]

/-- what `arm` leaves alone -/
theorem arm_frame (m : C02.St) (i k : Nat) :
    (arm m i k).slp = m.slp ∧ (arm m i k).waitset = m.waitset ∧ (arm m i k).ntf.length = m.ntf.length ∧
    (∀ j, j ≠ i → (arm m i k).ntf[j]? = m.ntf[j]?) := by
  cases hn : m.ntf[i]? with
  | none => rw [arm_none hn]; exact ⟨rfl, rfl, rfl, fun _ _ => rfl⟩
  | some n =>
    by_cases hidle : n.ops = []
    · rw [arm_idle hn hidle]
      refine ⟨rfl, rfl, by simp [St.setN, St.setCond], ?_⟩
      intro j hj; simp [St.setN, St.setCond, List.getElem?_set, Ne.symm hj]
    · rw [arm_busy hn hidle]; exact ⟨rfl, rfl, rfl, fun _ _ => rfl⟩

/-! ### disarm -/

theorem disarm_armed {m : C02.St} {i : Nat} {n : Notifier} (hn : m.ntf[i]? = some n) {k : Nat}
    (ho : n.ops = [leqOp k]) (hp : n.pc = .fence) : disarm m i = (m.setCond k false).setN i (mkNotifier []) := by
  unfold disarm
  simp only [hn, ho, hp, leqOp]

theorem disarm_idle {m : C02.St} {i : Nat} {n : Notifier} (hn : m.ntf[i]? = some n) (ho : n.ops = []) : disarm m i = m := by
  unfold disarm
  simp only [hn, ho]

theorem disarm_frame (m : C02.St) (i : Nat) :
    (disarm m i).slp = m.slp ∧ (disarm m i).waitset = m.waitset ∧ (disarm m i).ntf.length = m.ntf.length ∧
    (∀ j, j ≠ i → (disarm m i).ntf[j]? = m.ntf[j]?) ∧
    (∀ c, (disarm m i).cond c = true → m.cond c = true) := by
  rcases disarm_cases m i with e | ⟨n, c, k, r, hn, ho, hp, e⟩
  · rw [e]; exact ⟨rfl, rfl, rfl, fun _ _ => rfl, fun _ h => h⟩
  · rw [e]
    refine ⟨rfl, rfl, by simp [St.setN, St.setCond], ?_, ?_⟩
    · intro j hj; simp [St.setN, St.setCond, List.getElem?_set, Ne.symm hj]
    · intro c' hc'
      exact setCond_false_le m c c' hc'

/-- an abort's pending call is never withdrawn -/
theorem disarm_keeps_abort {m : C02.St} {i : Nat} {n : Notifier} (hn : m.ntf[i]? = some n) (ho : n.ops = [abortOp]) :
    disarm m i = m := by
  unfold disarm
  simp only [hn, ho, abortOp]

/-! ### armAbort -/

theorem armAbort_idle {m : C02.St} {i : Nat} {n : Notifier} (hn : m.ntf[i]? = some n) (hidle : n.ops = []) :
    armAbort m i = m.setN i (mkNotifier [abortOp]) := by
  unfold armAbort
  simp [hn, hidle, abortOp]

theorem armAbort_frame (m : C02.St) (i : Nat) :
    (armAbort m i).slp = m.slp ∧ (armAbort m i).waitset = m.waitset ∧ (armAbort m i).conds = m.conds ∧
    (armAbort m i).ntf.length = m.ntf.length ∧ (∀ j, j ≠ i → (armAbort m i).ntf[j]? = m.ntf[j]?) := by
  unfold armAbort
  split
  · split
    · refine ⟨rfl, rfl, rfl, by simp [St.setN], ?_⟩
      intro j hj; simp [St.setN, List.getElem?_set, Ne.symm hj]
    · exact ⟨rfl, rfl, rfl, rfl, fun _ _ => rfl⟩
  · exact ⟨rfl, rfl, rfl, rfl, fun _ _ => rfl⟩

/-! ### ntfStep -/

theorem ntfStep_eq {m : C02.St} {i : Nat} {n : Notifier} (hn : m.ntf[i]? = some n) (hp : n.pc ≠ .set ∧ n.pc ≠ .clr) :
    ntfStep m i = stepN m i n := by
  unfold ntfStep
  simp only [hn, hp.1, hp.2, or_self, if_false]
  simp only [C02.step, Nat.not_lt.mpr (Nat.le_add_right _ _), if_false, Nat.add_sub_cancel_left, hn]

theorem ntfStep_frame (m : C02.St) (i : Nat) :
    (ntfStep m i).conds = m.conds ∧ (ntfStep m i).ntf.length = m.ntf.length ∧ (ntfStep m i).slp.length = m.slp.length ∧
    (∀ j, j ≠ i → (ntfStep m i).ntf[j]? = m.ntf[j]?) ∧
    (∀ n, m.ntf[i]? = some n → ∃ n', (ntfStep m i).ntf[i]? = some n' ∧ (n'.ops = n.ops ∨ n'.ops = n.ops.tail)) ∧
    (∀ x, x ∈ (ntfStep m i).waitset → x ∈ m.waitset) ∧
    (∀ (k : Nat) (sl' : Sleeper), (ntfStep m i).slp[k]? = some sl' →
      ∃ sl0 : Sleeper, m.slp[k]? = some sl0 ∧ sl'.pc = sl0.pc ∧ sl'.ops = sl0.ops) := by
  have hsame : ntfStep m i = m → (ntfStep m i).conds = m.conds ∧ (ntfStep m i).ntf.length = m.ntf.length ∧ (ntfStep m i).slp.length = m.slp.length ∧
    (∀ j, j ≠ i → (ntfStep m i).ntf[j]? = m.ntf[j]?) ∧
    (∀ n, m.ntf[i]? = some n → ∃ n', (ntfStep m i).ntf[i]? = some n' ∧ (n'.ops = n.ops ∨ n'.ops = n.ops.tail)) ∧
    (∀ x, x ∈ (ntfStep m i).waitset → x ∈ m.waitset) ∧
    (∀ (k : Nat) (sl' : Sleeper), (ntfStep m i).slp[k]? = some sl' →
      ∃ sl0 : Sleeper, m.slp[k]? = some sl0 ∧ sl'.pc = sl0.pc ∧ sl'.ops = sl0.ops) := by
    intro e; rw [e]
    exact ⟨rfl, rfl, rfl, fun _ _ => rfl, fun n' h => ⟨n', h, Or.inl rfl⟩, fun _ h => h, fun k sl' h => ⟨sl', h, rfl, rfl⟩⟩
  cases hn : m.ntf[i]? with
  | none =>
    have : ntfStep m i = m := by unfold ntfStep; simp [hn]
    have := hsame this
    rw [hn] at this; exact this
  | some n =>
    by_cases hp : n.pc = .set ∨ n.pc = .clr
    · have : ntfStep m i = m := by unfold ntfStep; simp [hn, hp]
      have := hsame this
      rw [hn] at this; exact this
    · have hp' : n.pc ≠ .set ∧ n.pc ≠ .clr := ⟨fun e => hp (Or.inl e), fun e => hp (Or.inr e)⟩
      rw [ntfStep_eq hn hp']
      obtain ⟨h1, h2, h3, ⟨n', hn', hops, _⟩, h5⟩ := stepN_frame m i n hn
      refine ⟨?_, h1, h2, h3, ?_, fun x hx => stepN_waitset_sub m i n x hx, fun k sl' h => stepN_slp_pc m i n k sl' h⟩
      · rcases h5 with e | e | ⟨e, _⟩
        · exact e
        · exact absurd e hp'.2
        · exact absurd e hp'.1
      · intro n0 h0; cases h0; exact ⟨n', hn', hops⟩

/-! ### startWait / waitStep: sleepers only -/

theorem startWait_frame (m : C02.St) (i c : Nat) :
    (startWait m i c).ntf = m.ntf ∧ (startWait m i c).conds = m.conds ∧ (startWait m i c).waitset = m.waitset ∧
    (∀ k, k ≠ i → (startWait m i c).slp[k]? = m.slp[k]?) ∧
    (∀ sl', (startWait m i c).slp[i]? = some sl' → ∃ sl, m.slp[i]? = some sl ∧ sl'.pc = sl.pc ∧ (sl.ops = [] ∨ sl' = sl)) := by
  unfold startWait
  split
  · rename_i sl hsl
    have hlt := getElem?_lt hsl
    split
    · rename_i hemp
      refine ⟨rfl, rfl, rfl, ?_, ?_⟩
      · intro k hk; simp [St.setS, List.getElem?_set, Ne.symm hk]
      · intro sl' h
        simp only [St.setS, List.getElem?_set, hlt, if_true] at h
        cases h
        exact ⟨sl, hsl, rfl, Or.inl (List.isEmpty_iff.mp hemp)⟩
    · exact ⟨rfl, rfl, rfl, fun _ _ => rfl, fun sl' h => ⟨sl', h, rfl, Or.inr rfl⟩⟩
  · exact ⟨rfl, rfl, rfl, fun _ _ => rfl, fun sl' h => by rename_i hnone; rw [hnone] at h; cases h⟩

theorem waitStep_frame (m : C02.St) (i : Nat) (th : Thr) (ac : Nat) (real : Bool) :
    (waitStep m i th ac real).1.ntf = m.ntf ∧ (waitStep m i th ac real).1.conds = m.conds ∧
    (∀ k, k ≠ i → (waitStep m i th ac real).1.slp[k]? = m.slp[k]?) ∧
    (∀ k, k ≠ i → (k ∈ (waitStep m i th ac real).1.waitset ↔ k ∈ m.waitset)) := by
  have hset : ∀ sl', (m.setS i sl').ntf = m.ntf ∧ (m.setS i sl').conds = m.conds ∧
      (∀ k, k ≠ i → (m.setS i sl').slp[k]? = m.slp[k]?) ∧ (∀ k, k ≠ i → (k ∈ (m.setS i sl').waitset ↔ k ∈ m.waitset)) := by
    intro sl'
    refine ⟨rfl, rfl, ?_, fun _ _ => Iff.rfl⟩
    intro k hk; simp [St.setS, List.getElem?_set, Ne.symm hk]
  have hid : m.ntf = m.ntf ∧ m.conds = m.conds ∧ (∀ k, k ≠ i → m.slp[k]? = m.slp[k]?) ∧ (∀ k, k ≠ i → (k ∈ m.waitset ↔ k ∈ m.waitset)) :=
    ⟨rfl, rfl, fun _ _ => rfl, fun _ _ => Iff.rfl⟩
  unfold waitStep
  split
  · exact hid
  · rename_i sl hsl
    have hi : i < m.slp.length := getElem?_lt hsl
    have hstep : (C02.step m i).ntf = m.ntf ∧ (C02.step m i).conds = m.conds ∧
        (∀ k, k ≠ i → (C02.step m i).slp[k]? = m.slp[k]?) ∧ (∀ k, k ≠ i → (k ∈ (C02.step m i).waitset ↔ k ∈ m.waitset)) := by
      unfold C02.step
      simp only [hi, if_true, hsl]
      exact ⟨(stepS_frame m i sl).1, (stepS_frame m i sl).2.1, fun k hk => stepS_slp_other m i sl k hk,
        fun k hk => stepS_waitset_other m i sl k hk⟩
    repeat' split
    all_goals first
      | exact hid
      | exact hset _
      | exact hstep

end TbbVerif.C02.BQ
