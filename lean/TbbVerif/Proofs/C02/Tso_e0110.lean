/-
C02 / Tso: kernel-checked closure of the reachable set for one drain table (see TsoCore.lean):
prepFence=false unlockDrains=true notifyFence=true chgDrains=false.
-/
import TbbVerif.Proofs.C02.TsoCore

namespace TbbVerif.C02.Tso

theorem closed_e0110 : closed ⟨false, true, true, false⟩ (reachSet ⟨false, true, true, false⟩) = true := by decide +kernel
theorem safe_e0110 : safe (reachSet ⟨false, true, true, false⟩) = true := by decide +kernel

end TbbVerif.C02.Tso
