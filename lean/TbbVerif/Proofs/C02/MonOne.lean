/-
C02 / Monitor: `notify_one_relaxed(pred)` (and `notify_one`) — what the scan dequeues, that it stops after the first
match, and the wait-set family "one waiter per context, any number of contexts" (mutexes sharing an
`address_waiter` bucket).
-/
import TbbVerif.Proofs.C02.Monitor

namespace TbbVerif.C02

/-! ### the step of notifier `j` through `step` -/

theorem step_notifier {s : St} {j : Nat} {n : Notifier} (hj : s.ntf[j]? = some n) :
    step s (s.slp.length + j) = stepN s j n := by
  simp only [step, Nat.not_lt.mpr (Nat.le_add_right _ _), if_false, Nat.add_sub_cancel_left, hj]

theorem isEmpty_false_of_ne {α} {l : List α} (h : l ≠ []) : l.isEmpty = false := by
  cases l <;> simp_all

/-! ### what the predicate scan picks: the newest node whose context matches -/

/-- `waitset = pre ++ x :: post`, `x` matches and nothing newer (`post`) matches: the scan from `last()` backwards
stops at `x`. -/
theorem scanPick_onec_split {s : St} {c x : Nat} {pre post : List Nat} (hw : s.waitset = pre ++ x :: post)
    (hx : s.ctxOf x = c) (hpost : ∀ y ∈ post, s.ctxOf y ≠ c) : scanPick s (.onec c) = some x := by
  simp only [scanPick, hw, List.reverse_append, List.reverse_cons, List.append_assoc, List.singleton_append]
  rw [List.find?_append]
  have h1 : List.find? (fun y => s.ctxOf y == c) post.reverse = none := by
    rw [List.find?_eq_none]
    intro y hy
    have := hpost y (List.mem_reverse.mp hy)
    simpa using this
  rw [h1]
  simp [hx]

/-- nobody in the wait set matches: the scan finds nothing -/
theorem scanPick_onec_none {s : St} {c : Nat} (h : ∀ y ∈ s.waitset, s.ctxOf y ≠ c) : scanPick s (.onec c) = none := by
  simp only [scanPick, List.find?_eq_none]
  intro y hy
  have := h y (List.mem_reverse.mp hy)
  simpa using this

theorem erase_split {pre post : List Nat} {x : Nat} (hnd : (pre ++ x :: post).Nodup) :
    (pre ++ x :: post).erase x = pre ++ post := by
  have hx : x ∉ pre := by
    intro hm
    rw [List.nodup_append] at hnd
    exact hnd.2.2 x hm x (by simp) rfl
  rw [List.erase_append_right _ hx]
  simp

/-- **The scan step of `notify_one_relaxed(pred)`**: with the wait set `pre ++ x :: post` (front = oldest first),
`x` matching the predicate and no newer node (`post`) matching, the step removes exactly `x` from the wait set —
whatever older (`pre`) or newer (`post`) waiters of other contexts surround it — decrements the counter and puts `x`
into the notifier's local list (it then clears `my_is_in_list` and owes the `V`). -/
theorem scan_onec_dequeues {s : St} {j : Nat} {n : Notifier} (hj : s.ntf[j]? = some n) (hne : n.ops ≠ [])
    {c : Nat} (hk : n.kind = .onec c) (hpc : n.pc = .scan) {pre post : List Nat} {x : Nat}
    (hw : s.waitset = pre ++ x :: post) (hx : s.ctxOf x = c) (hpost : ∀ y ∈ post, s.ctxOf y ≠ c) (hnd : s.waitset.Nodup) :
    (step s (s.slp.length + j)).waitset = pre ++ post ∧ (step s (s.slp.length + j)).count = s.count - 1 ∧
    (step s (s.slp.length + j)).slp = s.slp ∧
    ∃ n', (step s (s.slp.length + j)).ntf[j]? = some n' ∧ n'.temp = n.temp ++ [x] ∧ n'.pc = .mark ∧ n'.ops = n.ops := by
  have hsp : scanPick s n.kind = some x := by rw [hk]; exact scanPick_onec_split hw hx hpost
  have hlt := getElem?_lt hj
  rw [step_notifier hj]
  unfold stepN
  simp only [isEmpty_false_of_ne hne, Bool.false_eq_true, if_false, hpc, hsp]
  refine ⟨?_, rfl, rfl, { n with temp := n.temp ++ [x], pc := .mark }, ?_, rfl, rfl, rfl⟩
  · show s.waitset.erase x = pre ++ post
    rw [hw]; rw [hw] at hnd; exact erase_split hnd
  · simp [St.setN, hlt]

/-- **Nobody matches ⇒ nobody is dequeued**: after the epoch bump `notify_one_relaxed(pred)` goes straight to the
unlock with an empty local list and the wait set untouched (and then returns without any `V`). -/
theorem epoch_onec_none {s : St} {j : Nat} {n : Notifier} (hj : s.ntf[j]? = some n) (hne : n.ops ≠ [])
    {c : Nat} (hk : n.kind = .onec c) (hpc : n.pc = .epoch) (hnone : ∀ y ∈ s.waitset, s.ctxOf y ≠ c) :
    (step s (s.slp.length + j)).waitset = s.waitset ∧ (step s (s.slp.length + j)).count = s.count ∧
    ∃ n', (step s (s.slp.length + j)).ntf[j]? = some n' ∧ n'.temp = n.temp ∧ n'.pc = .unlock := by
  have hlt := getElem?_lt hj
  have hsp : scanPick { s with epoch := s.epoch + 1 } (.onec c) = none := scanPick_onec_none (s := { s with epoch := s.epoch + 1 }) hnone
  rw [step_notifier hj]
  unfold stepN
  simp only [isEmpty_false_of_ne hne, Bool.false_eq_true, if_false, hpc, hk, afterEpoch, hsp, Option.isSome_none]
  refine ⟨rfl, rfl, { n with pc := .unlock }, ?_, rfl, rfl⟩
  simp [St.setN, hlt]

/-- somebody matches ⇒ the scan step is next -/
theorem epoch_onec_some {s : St} {j : Nat} {n : Notifier} (hj : s.ntf[j]? = some n) (hne : n.ops ≠ [])
    {c : Nat} (hk : n.kind = .onec c) (hpc : n.pc = .epoch) {y : Nat} (hy : y ∈ s.waitset) (hc : s.ctxOf y = c) :
    ∃ n', (step s (s.slp.length + j)).ntf[j]? = some n' ∧ n'.pc = .scan ∧ (step s (s.slp.length + j)).waitset = s.waitset := by
  have hlt := getElem?_lt hj
  have hsp : (scanPick { s with epoch := s.epoch + 1 } (.onec c)).isSome = true := by
    cases h : scanPick { s with epoch := s.epoch + 1 } (.onec c) with
    | some x => rfl
    | none =>
      simp only [scanPick, List.find?_eq_none] at h
      have := h y (List.mem_reverse.mpr hy)
      simp [St.ctxOf] at this
      simp [St.ctxOf] at hc
      exact absurd hc this
  rw [step_notifier hj]
  unfold stepN
  simp only [isEmpty_false_of_ne hne, Bool.false_eq_true, if_false, hpc, hk, afterEpoch, hsp, if_true]
  exact ⟨{ n with pc := .scan }, by simp [St.setN, hlt], rfl, rfl⟩

/-- **`break` after the first match**: once the dequeued node's `my_is_in_list` is cleared, `notify_one_relaxed(pred)`
(like `notify_one`) leaves the critical section — it never scans on. -/
theorem mark_onec_unlocks {s : St} {j : Nat} {n : Notifier} (hj : s.ntf[j]? = some n) (hne : n.ops ≠ [])
    {c : Nat} (hk : n.kind = .onec c) (hpc : n.pc = .mark) {x : Nat} (hx : n.temp[n.marked]? = some x) :
    ∃ n', (step s (s.slp.length + j)).ntf[j]? = some n' ∧ n'.pc = .unlock ∧ n'.temp = n.temp ∧
      (step s (s.slp.length + j)).waitset = s.waitset := by
  rw [step_notifier hj]
  unfold stepN
  simp only [isEmpty_false_of_ne hne, Bool.false_eq_true, if_false, hpc, hx, afterMark, hk]
  have hw : (modS s x (fun sl => { sl with inList := false })).waitset = s.waitset := by
    unfold modS; cases s.slp[x]? <;> rfl
  have hn : (modS s x (fun sl => { sl with inList := false })).ntf = s.ntf := by
    unfold modS; cases s.slp[x]? <;> rfl
  have hlt : j < (modS s x (fun sl => { sl with inList := false })).ntf.length := by rw [hn]; exact getElem?_lt hj
  refine ⟨{ n with marked := n.marked + 1, pc := .unlock }, ?_, rfl, rfl, ?_⟩
  · simp [St.setN, hlt]
  · simpa [St.setN] using hw

/-- leaving the critical section with an empty local list: the call returns, no `V` is issued, no node is touched -/
theorem unlock_empty_returns {s : St} {j : Nat} {n : Notifier} (hj : s.ntf[j]? = some n) (hne : n.ops ≠ [])
    (hpc : n.pc = .unlock) (ht : n.temp = []) :
    (step s (s.slp.length + j)).slp = s.slp ∧ (step s (s.slp.length + j)).waitset = s.waitset ∧
    (step s (s.slp.length + j)).ntf[j]? = some n.finish := by
  have hlt := getElem?_lt hj
  rw [step_notifier hj]
  unfold stepN
  simp only [isEmpty_false_of_ne hne, Bool.false_eq_true, if_false, hpc, ht, List.isEmpty_nil, if_true]
  exact ⟨rfl, rfl, by simp [St.setN, hlt]⟩

end TbbVerif.C02
