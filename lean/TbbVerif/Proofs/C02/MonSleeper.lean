/-
C02 / Monitor: every step of a sleeper preserves the invariant.
-/
import TbbVerif.Proofs.C02.MonInv

namespace TbbVerif.C02

/-- Frame lemma: a sleeper step changes its own record, possibly the lock (acquire / release by itself) and possibly
its own membership in the waitset. -/
theorem inv_sleeper_frame {s : St} (h : Inv s) {i : Nat} {sl sl' : Sleeper} (hi : s.slp[i]? = some sl)
    (L' : Option Tid) (ws' : List Nat) (c' : Nat)
    (hL : (L' = s.lock ∧ holdsS sl'.pc = holdsS sl.pc) ∨ (s.lock = none ∧ L' = some i ∧ holdsS sl'.pc = true) ∨
          (s.lock = some i ∧ L' = none ∧ holdsS sl'.pc = false))
    (hws : ∀ k, k ≠ i → (k ∈ ws' ↔ k ∈ s.waitset))
    (hnd : ws'.Nodup) (hc : c' = ws'.length)
    (hops : sl'.ops = sl.ops ∨ sl'.ops = sl.ops.tail)
    (hopsS : sl'.ops = [] → sl'.pc = .init)
    (hloc : SLoc (i ∈ ws') (pend s i) (Unm s i) sl')
    (hdek : (sl'.pc = .commit ∨ sl'.pc = .park) → s.cond sl'.cond = true →
        i ∉ ws' ∨ ∃ (j : Nat) (n : Notifier), s.ntf[j]? = some n ∧ pendingFor n sl'.cond sl'.ctx = true) :
    Inv ({ s with lock := L', waitset := ws', count := c' }.setS i sl') := by
  have hil : i < s.slp.length := getElem?_lt hi
  have hget : ∀ k, ({ s with lock := L', waitset := ws', count := c' }.setS i sl').slp[k]? =
      if i = k then some sl' else s.slp[k]? := by
    intro k; simp [St.setS, List.getElem?_set, hil]
  constructor
  · exact hc
  · exact hnd
  · -- lockS
    intro k slk hk
    rw [hget] at hk
    show _ ↔ L' = some k
    by_cases hik : i = k
    · subst hik; simp at hk; subst hk
      have := h.lockS i sl hi
      rcases hL with ⟨h1, h2⟩ | ⟨h1, h2, h3⟩ | ⟨h1, h2, h3⟩
      · rw [h1, h2]; exact this
      · simp [h2, h3]
      · simp [h2, h3]
    · simp [hik] at hk
      have := h.lockS k slk hk
      rcases hL with ⟨h1, _⟩ | ⟨h1, h2, _⟩ | ⟨h1, h2, _⟩
      · rw [h1]; exact this
      · rw [h1] at this; simp at this; simp [h2, this]; exact fun e => hik e
      · rw [h1] at this; simp at this
        have : holdsS slk.pc = false := by
          cases hh : holdsS slk.pc
          · rfl
          · exact absurd (this.mp hh) hik
        simp [h2, this]
  · -- lockN
    intro j n hj
    have hj' : s.ntf[j]? = some n := hj
    have := h.lockN j n hj'
    show _ ↔ L' = some (({ s with lock := L', waitset := ws', count := c' }.setS i sl').slp.length + j)
    have hlen : ({ s with lock := L', waitset := ws', count := c' }.setS i sl').slp.length = s.slp.length := by
      simp [St.setS]
    rw [hlen]
    rcases hL with ⟨h1, _⟩ | ⟨h1, h2, _⟩ | ⟨h1, h2, _⟩
    · rw [h1]; exact this
    · rw [h1] at this; simp at this; simp [h2, this]; omega
    · rw [h1] at this; simp at this
      have hne : i ≠ s.slp.length + j := by omega
      have : holdsN n.pc = false := by
        cases hh : holdsN n.pc
        · rfl
        · exact absurd (this.mp hh) hne
      simp [h2, this]
  · -- opsS
    intro k slk hk
    rw [hget] at hk
    by_cases hik : i = k
    · subst hik; simp at hk; subst hk; exact hopsS
    · simp [hik] at hk; exact h.opsS k slk hk
  · -- slp
    intro k slk hk
    rw [hget] at hk
    show SLoc (k ∈ ws') (pend s k) (Unm s k) slk
    by_cases hik : i = k
    · subst hik; simp at hk; subst hk; exact hloc
    · simp [hik] at hk
      have := h.slp k slk hk
      rw [propext (hws k (fun e => hik e.symm))]; exact this
  · -- ntf
    intro j n hj; exact h.ntf j n hj
  · -- dek
    intro k slk hk hpc hcond
    rw [hget] at hk
    show k ∉ ws' ∨ ∃ (j : Nat) (n : Notifier), s.ntf[j]? = some n ∧ pendingFor n slk.cond slk.ctx = true
    by_cases hik : i = k
    · subst hik; simp at hk; subst hk; exact hdek hpc hcond
    · simp [hik] at hk
      have := h.dek k slk hk hpc hcond
      rw [hws k (fun e => hik e.symm)]; exact this
  · -- compat
    intro k slk hk w hw j n hj c kd r hop hcw
    rw [hget] at hk
    have hj' : s.ntf[j]? = some n := hj
    by_cases hik : i = k
    · subst hik; simp at hk; subst hk
      have hw' : w ∈ sl.ops := by
        rcases hops with e | e
        · rw [e] at hw; exact hw
        · rw [e] at hw; exact List.mem_of_mem_tail hw
      exact h.compat i sl hi w hw' j n hj' c kd r hop hcw
    · simp [hik] at hk
      exact h.compat k slk hk w hw j n hj' c kd r hop hcw
  · -- uniq
    intro j n hj cd c0 r hop a a' sa sa' ha ha' w hw w' hw' hcd hc hc'
    have hj' : s.ntf[j]? = some n := hj
    rw [hget] at ha ha'
    have back : ∀ (k : Nat) (slk : Sleeper), (if i = k then some sl' else s.slp[k]?) = some slk →
        ∃ slo, s.slp[k]? = some slo ∧ ∀ w ∈ slk.ops, w ∈ slo.ops := by
      intro k slk hk
      by_cases hik : i = k
      · subst hik; simp at hk; subst hk
        refine ⟨sl, hi, ?_⟩
        intro w hw
        rcases hops with e | e
        · rw [e] at hw; exact hw
        · rw [e] at hw; exact List.mem_of_mem_tail hw
      · simp [hik] at hk; exact ⟨slk, hk, fun _ h => h⟩
    obtain ⟨so, hso, hsub⟩ := back a sa ha
    obtain ⟨so', hso', hsub'⟩ := back a' sa' ha'
    exact h.uniq j n hj' cd c0 r hop a a' so so' hso hso' w (hsub w hw) w' (hsub' w' hw') hcd hc hc'
  · -- wsv
    intro x hx
    show ∃ slx, ({ s with lock := L', waitset := ws', count := c' }.setS i sl').slp[x]? = some slx
    rw [hget]
    by_cases hix : i = x
    · simp [hix]
    · simp only [hix, if_false]
      exact h.wsv x ((hws x (fun e => hix e.symm)).mp hx)


/-- a step that only changes the sleeper's own record -/
theorem inv_sleeper_local {s : St} (h : Inv s) {i : Nat} {sl sl' : Sleeper} (hi : s.slp[i]? = some sl)
    (hh : holdsS sl'.pc = holdsS sl.pc)
    (hops : sl'.ops = sl.ops ∨ sl'.ops = sl.ops.tail)
    (hopsS : sl'.ops = [] → sl'.pc = .init)
    (hloc : SLoc (i ∈ s.waitset) (pend s i) (Unm s i) sl')
    (hdek : (sl'.pc = .commit ∨ sl'.pc = .park) → s.cond sl'.cond = true →
        i ∉ s.waitset ∨ ∃ (j : Nat) (n : Notifier), s.ntf[j]? = some n ∧ pendingFor n sl'.cond sl'.ctx = true) :
    Inv (s.setS i sl') :=
  inv_sleeper_frame h hi s.lock s.waitset s.count (Or.inl ⟨rfl, hh⟩) (fun _ _ => Iff.rfl) h.nodup h.cnt hops hopsS hloc hdek

theorem fresh_ops (sl : Sleeper) : sl.fresh.ops = sl.ops.tail := rfl
theorem fresh_pc (sl : Sleeper) : sl.fresh.pc = .init := rfl

/-- the sleeper clause right after the node was destroyed / re-created -/
theorem sloc_fresh {W : Prop} {P : Nat} {U : Prop} {sl : Sleeper} (hW : ¬W) (h0 : sl.sem + P = 0) :
    SLoc W P U sl.fresh := by
  simp only [SLoc, Sleeper.fresh]; exact ⟨hW, h0, by simp⟩

/-- closes the local side goals (sleeper clause, lock bookkeeping, program bookkeeping) of one step -/
macro "sl_close" : tactic =>
  `(tactic| first
    | (simp_all [SLoc, EnqI, EnqL, holdsS, Sleeper.fresh]; done)
    | (simp_all [SLoc, EnqI, EnqL, holdsS, Sleeper.fresh] <;> omega))

theorem stepS_inv {s : St} (h : Inv s) {i : Nat} {sl : Sleeper} (hi : s.slp[i]? = some sl) : Inv (stepS s i sl) := by
  have hS := h.slp i sl hi
  have hLk := h.lockS i sl hi
  unfold stepS
  by_cases hemp : sl.ops.isEmpty = true
  · simp only [hemp, if_true]; exact h
  simp only [hemp, Bool.false_eq_true, if_false]
  have hops : sl.ops ≠ [] := by intro e; rw [e] at hemp; simp at hemp
  cases hpc : sl.pc with
  | init =>
    simp only [SLoc, hpc] at hS
    refine inv_sleeper_local h hi (by sl_close) (Or.inl (by simp)) (by simp [hops]) ?_ (by simp)
    sl_close
  | pump =>
    simp only [SLoc, hpc] at hS
    by_cases hsem : sl.sem = 0
    · simp only [hsem, if_true]; exact h
    · simp only [hsem, if_false]
      refine inv_sleeper_local h hi (by sl_close) (Or.inl (by simp)) (by simp [hops]) ?_ (by simp)
      sl_close
  | storeIn =>
    simp only [SLoc, hpc] at hS
    refine inv_sleeper_local h hi (by sl_close) (Or.inl (by simp)) (by simp [hops]) ?_ (by simp)
    sl_close
  | lock =>
    simp only [SLoc, hpc] at hS
    cases hl : s.lock with
    | some t => simp only [Option.isSome_some, if_true]; exact h
    | none =>
      simp only [Option.isSome_none, Bool.false_eq_true, if_false]
      refine inv_sleeper_frame h hi (some i) s.waitset s.count (Or.inr (Or.inl ⟨hl, rfl, by simp [holdsS]⟩))
        (fun _ _ => Iff.rfl) h.nodup h.cnt (Or.inl (by simp)) (by simp [hops]) ?_ (by simp)
      sl_close
  | epoch =>
    simp only [SLoc, hpc] at hS
    refine inv_sleeper_local h hi (by sl_close) (Or.inl (by simp)) (by simp [hops]) ?_ (by simp)
    sl_close
  | add =>
    simp only [SLoc, hpc] at hS
    obtain ⟨hW, h0, hsk, hin⟩ := hS
    refine inv_sleeper_frame h hi s.lock (s.waitset ++ [i]) (s.count + 1) (Or.inl ⟨rfl, by sl_close⟩)
      (fun k hk => by simp [hk]) ?_ (by simp [h.cnt]) (Or.inl (by simp)) (by simp [hops]) ?_ (by simp)
    · rw [List.nodup_append]; refine ⟨h.nodup, by simp, ?_⟩
      intro a ha b hb; simp at hb; subst hb; intro e; subst e; exact hW ha
    · sl_close
  | unlock =>
    simp only [SLoc, hpc] at hS
    have hl : s.lock = some i := hLk.mp (by simp [holdsS, hpc])
    refine inv_sleeper_frame h hi none s.waitset s.count (Or.inr (Or.inr ⟨hl, rfl, by simp [holdsS]⟩))
      (fun _ _ => Iff.rfl) h.nodup h.cnt (Or.inl (by simp)) (by simp [hops]) ?_ (by simp)
    sl_close
  | fence =>
    simp only [SLoc, hpc] at hS
    refine inv_sleeper_local h hi (by sl_close) (Or.inl (by simp)) (by simp [hops]) ?_ (by simp)
    sl_close
  | check =>
    simp only [SLoc, hpc] at hS
    by_cases hc : s.cond sl.cond = true
    · simp only [hc, if_true]
      refine inv_sleeper_local h hi (by sl_close) (Or.inl (by simp)) (by simp [hops]) ?_ (by simp)
      sl_close
    · simp only [hc]
      refine inv_sleeper_local h hi (by sl_close) (Or.inl (by simp)) (by simp [hops]) ?_ ?_
      · sl_close
      · intro _ hc'; exact absurd hc' hc
  | commit =>
    simp only [SLoc, hpc] at hS
    have hd := h.dek i sl hi (Or.inl hpc)
    by_cases he : sl.nepoch = s.epoch
    · simp only [he, if_true]
      refine inv_sleeper_local h hi (by sl_close) (Or.inl (by simp)) (by simp [hops]) ?_ ?_
      · sl_close
      · intro _ hc'; exact hd hc'
    · simp only [he, if_false]
      refine inv_sleeper_local h hi (by sl_close) (Or.inl (by simp)) (by simp [hops]) ?_ (by simp)
      sl_close
  | park =>
    simp only [SLoc, hpc] at hS
    by_cases hsem : sl.sem = 0
    · simp only [hsem, if_true]; exact h
    · simp only [hsem, if_false]
      obtain ⟨hsk, hE⟩ := hS
      have hE' : ¬ (i ∈ s.waitset) ∧ sl.sem + pend s i = 1 := by
        rcases hE with ⟨_, h0, _⟩ | ⟨hW, h1, _⟩
        · omega
        · exact ⟨hW, h1⟩
      simp only [Sleeper.finish, hsk, Bool.false_eq_true, if_false]
      refine inv_sleeper_local h hi (by sl_close) (Or.inr (by simp [Sleeper.fresh])) (by simp [Sleeper.fresh]) ?_
        (by simp [Sleeper.fresh])
      apply sloc_fresh hE'.1; simp only; omega
  | cLoad =>
    simp only [SLoc, hpc] at hS
    obtain ⟨hsk, hE⟩ := hS
    by_cases hin : sl.inList = true
    · simp only [hin, if_true]
      refine inv_sleeper_local h hi (by sl_close) (Or.inl (by simp)) (by simp [hops]) ?_ (by simp)
      sl_close
    · simp only [hin]
      have hin' : sl.inList = false := by simpa using hin
      have hE' : ¬ (i ∈ s.waitset) ∧ sl.sem + pend s i = 1 := by
        rcases hE with ⟨_, _, h1⟩ | ⟨hW, h1, _⟩
        · simp [hin'] at h1
        · exact ⟨hW, h1⟩
      by_cases hag : sl.again = true
      · simp only [Sleeper.afterCancel, hag, if_true]
        refine inv_sleeper_local h hi (by sl_close) (Or.inl (by simp)) (by simp [hops]) ?_ (by simp)
        sl_close
      · simp only [Sleeper.afterCancel, hag, Sleeper.finish, if_true]
        refine inv_sleeper_local h hi (by sl_close) (Or.inl (by simp)) (by simp [hops]) ?_ (by simp)
        sl_close
  | cLock =>
    simp only [SLoc, hpc] at hS
    cases hl : s.lock with
    | some t => simp only [Option.isSome_some, if_true]; exact h
    | none =>
      simp only [Option.isSome_none, Bool.false_eq_true, if_false]
      refine inv_sleeper_frame h hi (some i) s.waitset s.count (Or.inr (Or.inl ⟨hl, rfl, by simp [holdsS]⟩))
        (fun _ _ => Iff.rfl) h.nodup h.cnt (Or.inl (by simp)) (by simp [hops]) ?_ (by simp)
      obtain ⟨hsk, hE⟩ := hS
      -- nobody holds the lock, so no notifier is between a dequeue and the corresponding in_list store
      have hnoU : ¬ Unm s i := by
        rintro ⟨j, n, hj, hm⟩
        have hmk : n.pc = .mark := (h.ntf j n hj).2.1 (by intro e; rw [e] at hm; simp at hm)
        have := (h.lockN j n hj).mp (by simp [holdsN, hmk])
        rw [hl] at this; cases this
      sl_close
  | cChk =>
    simp only [SLoc, hpc] at hS
    obtain ⟨hsk, hE⟩ := hS
    by_cases hin : sl.inList = true
    · simp only [hin, if_true]
      refine inv_sleeper_local h hi (by sl_close) (Or.inl (by simp)) (by simp [hops]) ?_ (by simp)
      sl_close
    · have hin' : sl.inList = false := by simpa using hin
      simp only [hin', Bool.false_eq_true, if_false]
      refine inv_sleeper_local h hi (by sl_close) (Or.inl (by simp)) (by simp [hops]) ?_ (by simp)
      sl_close
  | cRemove =>
    simp only [SLoc, hpc] at hS
    obtain ⟨hsk, hW, h0, hin⟩ := hS
    refine inv_sleeper_frame h hi s.lock (s.waitset.erase i) (s.count - 1) (Or.inl ⟨rfl, by sl_close⟩)
      (fun k hk => List.mem_erase_of_ne hk) (h.nodup.erase i) ?_ (Or.inl (by simp)) (by simp [hops]) ?_ (by simp)
    · rw [List.length_erase_of_mem hW, h.cnt]
    · have : ¬ i ∈ s.waitset.erase i := by rw [h.nodup.mem_erase_iff]; simp
      sl_close
  | cMark =>
    simp only [SLoc, hpc] at hS
    refine inv_sleeper_local h hi (by sl_close) (Or.inl (by simp)) (by simp [hops]) ?_ (by simp)
    sl_close
  | cUnlock =>
    simp only [SLoc, hpc] at hS
    obtain ⟨hW, hin, hE⟩ := hS
    have hl : s.lock = some i := hLk.mp (by simp [holdsS, hpc])
    by_cases hag : sl.again = true
    · simp only [Sleeper.afterCancel, hag, if_true]
      refine inv_sleeper_frame h hi none s.waitset s.count (Or.inr (Or.inr ⟨hl, rfl, by cases sl.skipped <;> simp [holdsS]⟩))
        (fun _ _ => Iff.rfl) h.nodup h.cnt (Or.inl (by simp)) (by cases sl.skipped <;> simp [hops]) ?_ (by cases sl.skipped <;> simp)
      rcases hE with ⟨a, b⟩ | ⟨a, b⟩ <;> sl_close
    · rcases hE with ⟨a, b⟩ | ⟨a, b⟩
      · simp only [Sleeper.afterCancel, hag, Sleeper.finish, a, Bool.false_eq_true, if_false]
        refine inv_sleeper_frame h hi none s.waitset s.count (Or.inr (Or.inr ⟨hl, rfl, by simp [holdsS, Sleeper.fresh]⟩))
          (fun _ _ => Iff.rfl) h.nodup h.cnt (Or.inr (by simp [Sleeper.fresh])) (by simp [Sleeper.fresh]) ?_ (by simp [Sleeper.fresh])
        exact sloc_fresh hW b
      · simp only [Sleeper.afterCancel, hag, Sleeper.finish, a, Bool.false_eq_true, if_false, if_true]
        refine inv_sleeper_frame h hi none s.waitset s.count (Or.inr (Or.inr ⟨hl, rfl, by simp [holdsS]⟩))
          (fun _ _ => Iff.rfl) h.nodup h.cnt (Or.inl (by simp)) (by simp [hops]) ?_ (by simp)
        sl_close
  | dtor =>
    simp only [SLoc, hpc] at hS
    by_cases hsem : sl.sem = 0
    · simp only [hsem, if_true]; exact h
    · simp only [hsem, if_false]
      obtain ⟨hW, h1, _, _⟩ := hS
      refine inv_sleeper_local h hi (by sl_close) (Or.inr (by simp [Sleeper.fresh])) (by simp [Sleeper.fresh]) ?_
        (by simp [Sleeper.fresh])
      apply sloc_fresh hW; simp only; omega

end TbbVerif.C02
