/-
C02 / Monitor: how the per-sleeper clause reacts to what notifiers do to a node.
-/
import TbbVerif.Proofs.C02.MonInv

namespace TbbVerif.C02

theorem SLoc_congr {W W' : Prop} {P P' : Nat} {U U' : Prop} {sl : Sleeper}
    (hW : W' ↔ W) (hP : P' = P) (hU : U' ↔ U) (h : SLoc W P U sl) : SLoc W' P' U' sl := by
  rw [propext hW, hP, propext hU]; exact h

/-- a notifier dequeues the node (flush / scan): one V is now owed, `my_is_in_list` is still set -/
theorem SLoc_deq {P : Nat} {U U' : Prop} {sl : Sleeper} (h : SLoc True P U sl) (hh : holdsS sl.pc = false) (hU : U') :
    SLoc False (P + 1) U' sl := by
  unfold SLoc at h ⊢
  cases hpc : sl.pc <;> simp only [hpc, EnqI, EnqL, holdsS] at h hh ⊢ <;> grind

/-- the notifier clears `my_is_in_list` of a node it dequeued -/
theorem SLoc_mark {W : Prop} {P : Nat} {U U' : Prop} {sl : Sleeper} (h : SLoc W P U sl) (hP : 1 ≤ P) :
    SLoc W P U' { sl with inList := false } := by
  unfold SLoc at h ⊢
  cases hpc : sl.pc <;> simp only [hpc, EnqI, EnqL] at h ⊢ <;> grind

/-- the notifier delivers the V it owed -/
theorem SLoc_v {W : Prop} {P : Nat} {U : Prop} {sl : Sleeper} (b : Bool) (h : SLoc W (P + 1) U sl) :
    SLoc W P U { sl with sem := sl.sem + 1, aborted := b } := by
  unfold SLoc at h ⊢
  cases hpc : sl.pc <;> simp only [hpc, EnqI, EnqL] at h ⊢ <;> grind

end TbbVerif.C02
