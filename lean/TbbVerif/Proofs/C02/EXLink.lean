/-
C02 / task_arena::execute: how the records of the exit monitor follow the program counters of the `execute` calls
(which sleeper / notifier records are idle, which call is installed, what the scan has tried so far).
-/
import TbbVerif.Proofs.C02.EXOps
import TbbVerif.Proofs.C02.EXFrame

set_option linter.unusedSimpArgs false
set_option linter.unusedVariables false

namespace TbbVerif.C02.EX
open TbbVerif.C02

structure Dim (s : St) : Prop where
  nS : s.mon.slp.length = s.thr.length
  nN : s.mon.ntf.length = 2 * s.thr.length

/-- thread record `th` against its sleeper `sl`, its own notifier `n` and the notifier `f` of its delegated task -/
structure LinkT (S : Nat) (th : Thr) (sl : Sleeper) (n f : Notifier) : Prop where
  wait   : th.pc = .wait → sl.ops ≠ [] ∧ sl.pc ≠ .dtor
  nwait  : th.pc ≠ .wait → sl.ops = [] ∨ sl.pc = .dtor
  idle   : (th.pc = .scan1 ∨ th.pc = .enq ∨ th.pc = .loopChk) → sl.ops = []
  ntfOn  : th.pc = .notify → n.ops = [oneOp]
  ntfOff : th.pc ≠ .notify → n.ops = []
  fin    : (th.pc = .scan1 ∨ th.pc = .enq) → f.ops = []
  direct : th.waited = false → sl.ops = [] ∧ f.ops = [] ∧ (th.pc = .scan1 ∨ th.pc = .enq ∨ th.pc = .release ∨ th.pc = .notify)
  todo1  : th.pc = .wait → preScan sl.pc = true → th.todo = List.range S
  todo2  : th.pc = .wait → sl.pc = .park → th.todo = []
  got    : th.pc = .wait → th.got = true → cancelSet sl.pc = true ∧ sl.again = false
  rk     : th.rechk = true → th.pc = .wait ∧ (sl.pc = .pump ∨ sl.pc = .storeIn) ∧ th.got = false

def Link (s : St) : Prop :=
  ∀ (t : Nat) (th : Thr), s.thr[t]? = some th →
    ∃ sl n f, s.mon.slp[t]? = some sl ∧ s.mon.ntf[t]? = some n ∧ s.mon.ntf[s.thr.length + t]? = some f ∧
      LinkT s.slots.length th sl n f

/-- `LinkT` reads only the sleeper's own part of its record and the notifiers' programs -/
theorem linkT_core {S : Nat} {th : Thr} {sl sl' : Sleeper} {n n' f f' : Notifier} (h : LinkT S th sl n f)
    (hc : sl'.core = sl.core) (hn : n'.ops = n.ops) (hf : f'.ops = f.ops) : LinkT S th sl' n' f' := by
  simp only [Sleeper.core, Prod.mk.injEq] at hc
  obtain ⟨h1, h2, h3, _, _, _⟩ := hc
  exact ⟨by rw [h1, h2]; exact h.wait, by rw [h1, h2]; exact h.nwait, by rw [h2]; exact h.idle, by rw [hn]; exact h.ntfOn,
    by rw [hn]; exact h.ntfOff, by rw [hf]; exact h.fin, by rw [h2, hf]; exact h.direct, by rw [h1]; exact h.todo1,
    by rw [h1]; exact h.todo2, by rw [h1, h3]; exact h.got, by rw [h1]; exact h.rk⟩

/-! ### table access -/

theorem getT_setT (s : St) (i k : Nat) (th : Thr) :
    (s.setT i th).thr[k]? = if i = k then (if i < s.thr.length then some th else none) else s.thr[k]? := by
  simp [St.setT, List.getElem?_set]

@[simp] theorem setT_mon (s : St) (i : Nat) (th : Thr) : (s.setT i th).mon = s.mon := rfl
@[simp] theorem setT_slots (s : St) (i : Nat) (th : Thr) : (s.setT i th).slots = s.slots := rfl
@[simp] theorem setT_len (s : St) (i : Nat) (th : Thr) : (s.setT i th).thr.length = s.thr.length := by simp [St.setT]

theorem install_cases (m : C02.St) (j : Nat) (op : NOp) :
    (∃ n, m.ntf[j]? = some n ∧ n.ops = [] ∧ install m j op = m.setN j (mkNotifier [op])) ∨ install m j op = m := by
  unfold install
  split
  · rename_i n hn
    split
    · rename_i he; exact Or.inl ⟨n, hn, List.isEmpty_iff.mp he, rfl⟩
    · exact Or.inr rfl
  · exact Or.inr rfl

theorem install_idle {m : C02.St} {j : Nat} {n : Notifier} (hn : m.ntf[j]? = some n) (hidle : n.ops = []) (op : NOp) :
    install m j op = m.setN j (mkNotifier [op]) := by
  unfold install; rw [hn]; simp [hidle]

theorem install_slp (m : C02.St) (j : Nat) (op : NOp) : (install m j op).slp = m.slp := by
  rcases install_cases m j op with ⟨_, _, _, e⟩ | e <;> rw [e] <;> rfl

theorem install_ntf_other (m : C02.St) (j : Nat) (op : NOp) (k : Nat) (hk : k ≠ j) : (install m j op).ntf[k]? = m.ntf[k]? := by
  rcases install_cases m j op with ⟨_, _, _, e⟩ | e <;> rw [e]
  simp [St.setN, List.getElem?_set, Ne.symm hk]

theorem install_ntf_len (m : C02.St) (j : Nat) (op : NOp) : (install m j op).ntf.length = m.ntf.length := by
  rcases install_cases m j op with ⟨_, _, _, e⟩ | e <;> rw [e]
  simp [St.setN]

theorem install_ntf_self {m : C02.St} {j : Nat} {n : Notifier} (hn : m.ntf[j]? = some n) (hidle : n.ops = []) (op : NOp) :
    (install m j op).ntf[j]? = some (mkNotifier [op]) := by
  rw [install_idle hn hidle]; simp [St.setN, List.getElem?_set, getElem?_lt hn]

theorem startWait_ntf (m : C02.St) (i : Nat) : (startWait m i).ntf = m.ntf := by
  unfold startWait; split
  · split <;> rfl
  · rfl

theorem startWait_slp_len (m : C02.St) (i : Nat) : (startWait m i).slp.length = m.slp.length := by
  unfold startWait; split
  · split
    · simp [St.setS]
    · rfl
  · rfl

theorem startWait_slp_other (m : C02.St) (i k : Nat) (hk : k ≠ i) : (startWait m i).slp[k]? = m.slp[k]? := by
  unfold startWait; split
  · split
    · simp [St.setS, List.getElem?_set, Ne.symm hk]
    · rfl
  · rfl

theorem startWait_slp_self {m : C02.St} {i : Nat} {sl : Sleeper} (hi : m.slp[i]? = some sl) (hidle : sl.ops = []) :
    (startWait m i).slp[i]? = some { sl with ops := [⟨i + 1, i⟩] } := by
  unfold startWait; rw [hi]; simp [hidle, St.setS, List.getElem?_set, getElem?_lt hi]

theorem setCond_slp (m : C02.St) (c : Nat) (b : Bool) : (m.setCond c b).slp = m.slp := rfl
theorem setCond_ntf (m : C02.St) (c : Nat) (b : Bool) : (m.setCond c b).ntf = m.ntf := rfl

/-- a Monitor step of sleeper `i` -/
theorem step_slp {m : C02.St} {i : Nat} {sl : Sleeper} (hi : m.slp[i]? = some sl) : C02.step m i = stepS m i sl := by
  unfold C02.step
  rw [if_pos (getElem?_lt hi)]
  simp only [hi]

/-- a Monitor step of notifier `j` -/
theorem step_ntf {m : C02.St} {j : Nat} {n : Notifier} (hj : m.ntf[j]? = some n) : C02.step m (m.slp.length + j) = stepN m j n := by
  unfold C02.step
  rw [if_neg (Nat.not_lt.mpr (Nat.le_add_right _ _))]
  simp only [Nat.add_sub_cancel_left, hj]

theorem step_ntf_none {m : C02.St} {j : Nat} (hj : m.ntf[j]? = none) : C02.step m (m.slp.length + j) = m := by
  unfold C02.step
  rw [if_neg (Nat.not_lt.mpr (Nat.le_add_right _ _))]
  simp only [Nat.add_sub_cancel_left, hj]

/-! ### a step of another thread -/

/-- what a step of the Monitor's sleeper `i` does to the records `LinkT` of another thread reads -/
theorem stepS_view_other {m : C02.St} {i : Nat} {sl : Sleeper} (hi : m.slp[i]? = some sl) (k : Nat) (hk : k ≠ i) :
    (C02.step m i).slp[k]? = m.slp[k]? ∧ (C02.step m i).ntf = m.ntf := by
  rw [step_slp hi]
  exact ⟨stepS_slp_other m i sl k hk, (stepS_frame m i sl).1⟩

/-- monitor transformation by thread `i` (or by the executor of its delegated task): other threads' sleepers keep their
own part, other threads' notifiers are untouched -/
structure Keeps (i N : Nat) (m m' : C02.St) : Prop where
  lenS : m'.slp.length = m.slp.length
  lenN : m'.ntf.length = m.ntf.length
  slp : ∀ k, k ≠ i → ∀ sl, m.slp[k]? = some sl → ∃ sl', m'.slp[k]? = some sl' ∧ sl'.core = sl.core
  ntf : ∀ k, k ≠ i → k ≠ N + i → m'.ntf[k]? = m.ntf[k]?

theorem Keeps.refl (i N : Nat) (m : C02.St) : Keeps i N m m :=
  ⟨rfl, rfl, fun _ _ sl h => ⟨sl, h, rfl⟩, fun _ _ _ => rfl⟩

theorem Keeps.trans {i N : Nat} {a b c : C02.St} (h1 : Keeps i N a b) (h2 : Keeps i N b c) : Keeps i N a c := by
  refine ⟨h2.lenS.trans h1.lenS, h2.lenN.trans h1.lenN, ?_, ?_⟩
  · intro k hk sl hsl
    obtain ⟨sl1, h3, h4⟩ := h1.slp k hk sl hsl
    obtain ⟨sl2, h5, h6⟩ := h2.slp k hk sl1 h3
    exact ⟨sl2, h5, h6.trans h4⟩
  · intro k hk hk'; rw [h2.ntf k hk hk', h1.ntf k hk hk']

theorem keeps_setCond (i N : Nat) (m : C02.St) (c : Nat) (b : Bool) : Keeps i N m (m.setCond c b) :=
  ⟨rfl, rfl, fun _ _ sl h => ⟨sl, h, rfl⟩, fun _ _ _ => rfl⟩

theorem keeps_install_own (i N : Nat) (m : C02.St) (op : NOp) : Keeps i N m (install m i op) :=
  ⟨by rw [install_slp], install_ntf_len m i op, fun k _ sl h => ⟨sl, by rw [install_slp]; exact h, rfl⟩,
   fun k hk _ => install_ntf_other m i op k hk⟩

theorem keeps_install_fin (i N : Nat) (m : C02.St) (op : NOp) : Keeps i N m (install m (N + i) op) :=
  ⟨by rw [install_slp], install_ntf_len m _ op, fun k _ sl h => ⟨sl, by rw [install_slp]; exact h, rfl⟩,
   fun k _ hk => install_ntf_other m _ op k hk⟩

theorem keeps_startWait (i N : Nat) (m : C02.St) : Keeps i N m (startWait m i) :=
  ⟨startWait_slp_len m i, by rw [startWait_ntf], fun k hk sl h => ⟨sl, by rw [startWait_slp_other m i k hk]; exact h, rfl⟩,
   fun k _ _ => by rw [startWait_ntf]⟩

theorem keeps_setS (i N : Nat) (m : C02.St) (sl : Sleeper) : Keeps i N m (m.setS i sl) :=
  ⟨by simp [St.setS], rfl,
   fun k hk sl' h => ⟨sl', by simpa [St.setS, List.getElem?_set, Ne.symm hk] using h, rfl⟩, fun _ _ _ => rfl⟩

theorem forcedExit_cases (m : C02.St) (i : Nat) :
    forcedExit m i = m ∨ ∃ sl, m.slp[i]? = some sl ∧
      ((sl.pc = .pump ∧ forcedExit m i = m.setS i { sl with pc := .dtor, results := 0 :: sl.results }) ∨
       (sl.pc = .storeIn ∧ forcedExit m i = m.setS i { sl with results := 0 :: sl.results }.fresh)) := by
  unfold forcedExit
  split
  · rename_i sl hsl
    split
    · rename_i h; exact Or.inr ⟨sl, hsl, Or.inl ⟨h, rfl⟩⟩
    · split
      · rename_i h; exact Or.inr ⟨sl, hsl, Or.inr ⟨h, rfl⟩⟩
      · exact Or.inl rfl
  · exact Or.inl rfl

theorem forcedExit_pump {m : C02.St} {i : Nat} {sl : Sleeper} (h : m.slp[i]? = some sl) (hp : sl.pc = .pump) :
    forcedExit m i = m.setS i { sl with pc := .dtor, results := 0 :: sl.results } := by
  unfold forcedExit; rw [h]; simp [hp]

theorem forcedExit_storeIn {m : C02.St} {i : Nat} {sl : Sleeper} (h : m.slp[i]? = some sl) (hp : sl.pc = .storeIn) :
    forcedExit m i = m.setS i { sl with results := 0 :: sl.results }.fresh := by
  unfold forcedExit; rw [h]; simp [hp]

theorem keeps_forcedExit (i N : Nat) (m : C02.St) : Keeps i N m (forcedExit m i) := by
  rcases forcedExit_cases m i with e | ⟨sl, _, ⟨_, e⟩ | ⟨_, e⟩⟩ <;> rw [e]
  · exact Keeps.refl i N m
  · exact keeps_setS i N m _
  · exact keeps_setS i N m _

theorem keeps_stepS (i N : Nat) {m : C02.St} {sl : Sleeper} (hi : m.slp[i]? = some sl) : Keeps i N m (C02.step m i) := by
  have hl := step_len m i
  exact ⟨hl.1, hl.2, fun k hk sl' h => ⟨sl', by rw [(stepS_view_other hi k hk).1]; exact h, rfl⟩,
    fun k hk _ => by rw [(stepS_view_other hi k hk).2]⟩

/-- a Monitor step of notifier `j` (`j = i` or `j = N + i`) -/
theorem keeps_stepN (i N : Nat) (m : C02.St) (j : Nat) (hj : j = i ∨ j = N + i) :
    Keeps i N m (C02.step m (m.slp.length + j)) := by
  cases hn : m.ntf[j]? with
  | none => rw [step_ntf_none hn]; exact Keeps.refl i N m
  | some n =>
    rw [step_ntf hn]
    obtain ⟨h1, h2, h3, _, _⟩ := stepN_frame m j n hn
    refine ⟨h2, h1, ?_, ?_⟩
    · intro k _ sl hsl
      have hk : k < (stepN m j n).slp.length := by rw [h2]; exact getElem?_lt hsl
      obtain ⟨sl0, h0, hc⟩ := stepN_slp_core m j n k _ (List.getElem?_eq_getElem hk)
      rw [hsl] at h0; cases h0
      exact ⟨_, List.getElem?_eq_getElem hk, hc⟩
    · intro k hk hk'
      exact h3 k (by rcases hj with e | e <;> rw [e] <;> assumption)

end TbbVerif.C02.EX
