/-
C02 / BinSem: the futex binary_semaphore never loses a V (one waiter, any number of posters, all schedules).
-/
import TbbVerif.Model.C02

namespace TbbVerif.C02.BinSem

def WakeP (s : St) : Prop := ∃ (k : Nat) (p : Poster), s.posters[k]? = some p ∧ p.left ≠ 0 ∧ p.pc = .wake

theorem wakePending_iff (s : St) : wakePending s = true ↔ WakeP s := by
  simp only [wakePending, List.any_eq_true, WakeP]
  constructor
  · rintro ⟨p, hm, hp⟩
    obtain ⟨k, hk⟩ := List.getElem?_of_mem hm
    simp only [Bool.and_eq_true, bne_iff_ne, ne_eq, beq_iff_eq] at hp
    exact ⟨k, p, hk, hp.1, hp.2⟩
  · rintro ⟨k, p, hk, h1, h2⟩
    exact ⟨p, List.mem_of_getElem? hk, by simp [h1, h2]⟩

structure BInv (s : St) : Prop where
  w3 : s.word ≤ 2
  bal : s.doubleV = false → (s.word = 0 → s.nV = s.nP + 1) ∧ (s.word ≠ 0 → s.nV = s.nP)
  prk : s.doubleV = false → s.wpc = .parked → s.word = 2 ∨ (s.word = 0 ∧ WakeP s)

theorem stepW_inv {s : St} (h : BInv s) : BInv (stepW s) := by
  obtain ⟨h1, h2, h3⟩ := h
  unfold stepW
  cases hpc : s.wpc with
  | idle => exact ⟨h1, h2, h3⟩
  | parked => exact ⟨h1, h2, h3⟩
  | cas =>
    simp only
    by_cases hw : s.word = 0
    · simp only [hw, if_true, St.pDone]
      refine ⟨by simp, fun hd => ?_, fun hd hp => ?_⟩
      · have := h2 hd; simp at this ⊢; omega
      · simp only at hp; split at hp <;> cases hp
    · simp only [hw, if_false]
      by_cases hw2 : s.word = 2
      · simp only [hw2, if_true]
        exact ⟨by simpa [hw2] using h1, by simpa [hw2] using h2, fun _ hp => by simp at hp⟩
      · simp only [hw2, if_false]
        exact ⟨h1, h2, fun _ hp => by simp at hp⟩
  | xchg =>
    simp only
    by_cases hw : s.word = 0
    · simp only [hw, if_true, St.pDone]
      refine ⟨by simp, fun hd => ?_, fun hd hp => ?_⟩
      · have := h2 hd; simp at this ⊢; omega
      · simp only at hp; split at hp <;> cases hp
    · simp only [hw, if_false]
      refine ⟨by simp, fun hd => ?_, fun _ hp => by simp at hp⟩
      have := h2 hd; simp at this ⊢; exact this.2 hw
  | rexchg =>
    simp only
    by_cases hw : s.word = 0
    · simp only [hw, if_true, St.pDone]
      refine ⟨by simp, fun hd => ?_, fun hd hp => ?_⟩
      · have := h2 hd; simp at this ⊢; omega
      · simp only at hp; split at hp <;> cases hp
    · simp only [hw, if_false]
      refine ⟨by simp, fun hd => ?_, fun _ hp => by simp at hp⟩
      have := h2 hd; simp at this ⊢; exact this.2 hw
  | fwait =>
    simp only
    by_cases hw2 : s.word = 2
    · simp only [hw2, if_true]
      exact ⟨by simp, by simpa [hw2] using h2, fun _ _ => Or.inl rfl⟩
    · simp only [hw2, if_false]
      exact ⟨h1, h2, fun _ hp => by simp at hp⟩

theorem stepV_inv {s : St} (h : BInv s) {k : Nat} {p : Poster} (hk : s.posters[k]? = some p) : BInv (stepV s k p) := by
  obtain ⟨h1, h2, h3⟩ := h
  have hlt : k < s.posters.length := by
    rcases Nat.lt_or_ge k s.posters.length with h' | h'
    · exact h'
    · rw [List.getElem?_eq_none h'] at hk; cases hk
  unfold stepV
  by_cases hl : p.left = 0
  · simp only [hl, if_true]; exact ⟨h1, h2, h3⟩
  simp only [hl, if_false]
  cases hpc : p.pc with
  | xchg =>
    simp only
    by_cases hw2 : s.word = 2
    · simp only [hw2, if_true]
      refine ⟨by simp, fun hd => ?_, fun hd hp => ?_⟩
      · simp at hd
        have := h2 hd; simp at this ⊢; omega
      · right; refine ⟨rfl, k, { p with pc := .wake }, ?_, hl, rfl⟩
        simp [List.getElem?_set, hlt]
    · simp only [hw2, if_false]
      refine ⟨by simp, fun hd => ?_, fun hd hp => ?_⟩
      · simp at hd
        have := h2 hd.1; simp at this ⊢
        exact this.2 hd.2
      · simp at hd hp
        rcases h3 hd.1 hp with e | ⟨e, _⟩
        · exact absurd e hw2
        · exact absurd e hd.2
  | wake =>
    simp only
    refine ⟨h1, h2, fun hd hp => ?_⟩
    simp only at hp
    split at hp <;> simp_all

theorem step_inv {s : St} (h : BInv s) (t : Tid) : BInv (step s t) := by
  unfold step
  cases t with
  | zero => exact stepW_inv h
  | succ k =>
    simp only
    split
    · rename_i p hp; exact stepV_inv h hp
    · exact h

theorem init_inv (np : Nat) (vs : List Nat) : BInv (init np vs) := by
  refine ⟨by simp [init], fun _ => by simp [init], fun _ hp => ?_⟩
  simp only [init] at hp; split at hp <;> cases hp

theorem reach_inv (np : Nat) (vs : List Nat) (sched : List Tid) : BInv ((sys np vs).run sched) :=
  Sys.inv_run (sys np vs) BInv (init_inv np vs) (fun s t h => step_inv h t) sched

end TbbVerif.C02.BinSem
