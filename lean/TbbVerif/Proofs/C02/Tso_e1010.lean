/-
C02 / Tso: kernel-checked closure of the reachable set for one drain table (see TsoCore.lean):
prepFence=true unlockDrains=false notifyFence=true chgDrains=false.
-/
import TbbVerif.Proofs.C02.TsoCore

namespace TbbVerif.C02.Tso

theorem closed_e1010 : closed ⟨true, false, true, false⟩ (reachSet ⟨true, false, true, false⟩) = true := by decide +kernel
theorem safe_e1010 : safe (reachSet ⟨true, false, true, false⟩) = true := by decide +kernel

end TbbVerif.C02.Tso
