/-
C02 / Monitor: `notify_one` / `notify_one_relaxed(pred)` dequeue at most ONE node per call (invariant over all
reachable states), and the program family "K contexts, one waiter each" satisfies `compatB`.
-/
import TbbVerif.Proofs.C02.MonOne

namespace TbbVerif.C02

/-- the notifier's current call is a notify_one / notify_one_relaxed(pred) -/
def Notifier.isOne (n : Notifier) : Prop := n.kind = .one ∨ ∃ c, n.kind = .onec c

/-- local list of a notify_one-style call: at most one node, and none before the scan step -/
def TempOne (n : Notifier) : Prop :=
  n.isOne → n.temp.length ≤ 1 ∧ (n.pc = .scan → n.temp = [])

theorem tempOne_of_nil {n : Notifier} (h : n.temp = []) : TempOne n := by
  intro _; rw [h]; exact ⟨by simp, fun _ => rfl⟩

theorem ntf_setS (s : St) (i : Nat) (sl : Sleeper) : (s.setS i sl).ntf = s.ntf := rfl

theorem stepS_ntf (s : St) (i : Nat) (sl : Sleeper) : (stepS s i sl).ntf = s.ntf := by
  unfold stepS
  split
  · rfl
  · cases sl.pc <;> simp only [] <;> (repeat' split) <;> rfl

theorem modS_ntf (s : St) (x : Nat) (f : Sleeper → Sleeper) : (modS s x f).ntf = s.ntf := by
  unfold modS; cases s.slp[x]? <;> rfl

theorem setN_get {s : St} {j : Nat} {n' : Notifier} {k : Nat} {m : Notifier} (h : (s.setN j n').ntf[k]? = some m) :
    (k = j ∧ m = n') ∨ (k ≠ j ∧ s.ntf[k]? = some m) := by
  simp only [St.setN, List.getElem?_set] at h
  by_cases e : j = k
  · subst e
    simp only [if_true] at h
    split at h
    · left; exact ⟨rfl, by cases h; rfl⟩
    · cases h
  · simp only [e, if_false] at h
    exact Or.inr ⟨fun e' => e e'.symm, h⟩

/-- the notifier's own record after one of its steps keeps `TempOne`; nobody else's record changes -/
theorem stepN_tempOne {s : St} {j : Nat} {n : Notifier} (hN : NLoc n) (h1 : TempOne n) :
    ∀ (k : Nat) (m : Notifier), (stepN s j n).ntf[k]? = some m → (k = j ∧ TempOne m) ∨ (k ≠ j ∧ s.ntf[k]? = some m) ∨
      (k = j ∧ s.ntf[k]? = some m) := by
  intro k m hk
  obtain ⟨hm, hu, ht, hkk, he0, hset, hfl, hsc⟩ := hN
  have fin : TempOne n.finish := tempOne_of_nil (finish_temp n)
  have own : ∀ (s0 : St) (n' : Notifier), s0.ntf = s.ntf → TempOne n' → (s0.setN j n').ntf[k]? = some m →
      (k = j ∧ TempOne m) ∨ (k ≠ j ∧ s.ntf[k]? = some m) ∨ (k = j ∧ s.ntf[k]? = some m) := by
    intro s0 n' hs0 hn' hget
    rcases setN_get hget with ⟨e, e'⟩ | ⟨e, e'⟩
    · left; exact ⟨e, by rw [e']; exact hn'⟩
    · right; left; exact ⟨e, by rw [← hs0]; exact e'⟩
  have same : ∀ (pc' : NPc), n.temp = [] → TempOne { n with pc := pc' } := by
    intro pc' h0; exact tempOne_of_nil (n := { n with pc := pc' }) h0
  unfold stepN at hk
  by_cases hemp : n.ops.isEmpty = true
  · simp only [hemp, if_true] at hk
    by_cases e : k = j
    · right; right; exact ⟨e, hk⟩
    · right; left; exact ⟨e, hk⟩
  simp only [hemp, Bool.false_eq_true, if_false] at hk
  cases hpc : n.pc with
  | clr => simp only [hpc] at hk; exact own _ _ rfl fin hk
  | set =>
    simp only [hpc] at hk
    exact own _ _ rfl (tempOne_of_nil (n := { n with pc := if n.relaxed then .test else .fence }) (ht (by simp [hpc]))) hk
  | fence => simp only [hpc] at hk; exact own _ _ rfl (same _ (ht (by simp [hpc]))) hk
  | test =>
    simp only [hpc] at hk
    split at hk
    · exact own _ _ rfl fin hk
    · exact own _ _ rfl (same _ (ht (by simp [hpc]))) hk
  | lock =>
    simp only [hpc] at hk
    split at hk
    · by_cases e : k = j
      · right; right; exact ⟨e, hk⟩
      · right; left; exact ⟨e, hk⟩
    · exact own _ _ rfl (same _ (ht (by simp [hpc]))) hk
  | epoch => simp only [hpc] at hk; exact own _ _ rfl (same _ (ht (by simp [hpc]))) hk
  | flush =>
    simp only [hpc] at hk
    refine own _ _ rfl ?_ hk
    intro hone
    rcases hfl hpc with e | e <;> rcases hone with e' | ⟨c, e'⟩ <;>
      simp only [Notifier.kind] at e e' <;> rw [e] at e' <;> cases e'
  | scan =>
    simp only [hpc] at hk
    split at hk
    · rename_i x hsp
      refine own _ _ rfl ?_ hk
      intro hone
      have hone' : n.isOne := hone
      have h0 := (h1 hone').2 hpc
      simp [h0]
    · refine own _ _ rfl ?_ hk
      intro hone
      have hone' : n.isOne := hone
      exact ⟨(h1 hone').1, fun e => by simp at e⟩
  | mark =>
    simp only [hpc] at hk
    split at hk
    · rename_i x hx
      refine own _ _ (modS_ntf _ _ _) ?_ hk
      intro hone
      have hone' : n.isOne := hone
      refine ⟨(h1 hone').1, ?_⟩
      intro e
      simp only [afterMark] at e
      rcases hone' with e' | ⟨c, e'⟩ <;> rw [e'] at e <;> cases e
    · refine own _ _ rfl ?_ hk
      intro hone
      have hone' : n.isOne := hone
      exact ⟨(h1 hone').1, fun e => by simp at e⟩
  | unlock =>
    simp only [hpc] at hk
    split at hk
    · exact own _ _ rfl fin hk
    · refine own _ _ rfl ?_ hk
      intro hone
      have hone' : n.isOne := hone
      exact ⟨(h1 hone').1, fun e => by simp at e⟩
  | v =>
    simp only [hpc] at hk
    split at hk
    · rename_i x rest htmp
      split at hk
      · exact own _ _ (modS_ntf _ _ _) fin hk
      · refine own _ _ (modS_ntf _ _ _) ?_ hk
        intro hone
        have hone' : n.isOne := hone
        have := (h1 hone').1
        rw [htmp] at this
        simp only [List.length_cons] at this
        exact ⟨by simp; omega, fun e => by simp at e⟩
    · exact own _ _ rfl fin hk

/-- `Inv` together with `TempOne` for every notifier -/
def InvOne (s : St) : Prop := Inv s ∧ ∀ (j : Nat) (n : Notifier), s.ntf[j]? = some n → TempOne n

theorem step_invOne {s : St} (h : InvOne s) (t : Tid) : InvOne (step s t) := by
  refine ⟨step_inv h.1 t, ?_⟩
  intro k m hk
  unfold step at hk
  split at hk
  · split at hk
    · rw [stepS_ntf] at hk; exact h.2 k m hk
    · exact h.2 k m hk
  · split at hk
    · rename_i n hn
      rcases stepN_tempOne (h.1.ntf _ n hn) (h.2 _ n hn) k m hk with ⟨_, h1⟩ | ⟨_, h1⟩ | ⟨_, h1⟩
      · exact h1
      · exact h.2 k m h1
      · exact h.2 k m h1
    · exact h.2 k m hk

theorem init_invOne (ws : List (List WOp)) (ns : List (List NOp)) (hc : compatB ws ns = true) : InvOne (init ws ns) := by
  refine ⟨init_inv ws ns hc, ?_⟩
  intro j n hj
  simp only [init, List.getElem?_map, Option.map_eq_some_iff] at hj
  obtain ⟨q, _, rfl⟩ := hj
  exact tempOne_of_nil (by simp [mkNotifier])

theorem reach_invOne (ws : List (List WOp)) (ns : List (List NOp)) (hc : compatB ws ns = true) (sched : List Tid) :
    InvOne ((sys ws ns).run sched) :=
  Sys.inv_run (sys ws ns) InvOne (init_invOne ws ns hc) (fun s t h => step_invOne h t) sched

/-! ### the family "K contexts, one waiter each" (mutexes sharing an address_waiter bucket) -/

/-- sleeper `i` waits (once) with context `i` on condition `i` -/
def bucketWaiters (K : Nat) : List (List WOp) := (List.range K).map fun i => [⟨i, i⟩]

/-- an unlocker's operations: `cond_i := true; notify_one_relaxed(ctx == i)` (fenced or not), spurious notifications
of any kind, and `cond_i := false` (somebody re-locks) -/
def bucketOp (op : NOp) : Prop :=
  (∃ i r, op = .sig (some i) (.onec i) r) ∨ (∃ k r, op = .sig none k r) ∨ (∃ c, op = .clr c)

theorem bucketWaiters_get {K a : Nat} (ha : a < K) : (bucketWaiters K).getD a [] = [⟨a, a⟩] := by
  simp [bucketWaiters, List.getD_eq_getElem?_getD, ha]

theorem bucket_compat (K : Nat) (ns : List (List NOp)) (hns : ∀ q ∈ ns, ∀ op ∈ q, bucketOp op) :
    compatB (bucketWaiters K) ns = true := by
  simp only [compatB, Bool.and_eq_true]
  constructor
  · simp only [acceptB, List.all_eq_true]
    intro p hp w hw q hq op hop
    simp only [bucketWaiters, List.mem_map, List.mem_range] at hp
    obtain ⟨i, _, rfl⟩ := hp
    simp only [List.mem_singleton] at hw
    subst hw
    rcases hns q hq op hop with ⟨i', r, rfl⟩ | ⟨k, r, rfl⟩ | ⟨c, rfl⟩
    · by_cases e : i' = i
      · subst e; simp [NKind.accepts]
      · simp [e]
    · rfl
    · rfl
  · simp only [uniqB, List.all_eq_true]
    intro q hq op hop
    rcases hns q hq op hop with ⟨i', r, rfl⟩ | ⟨k, r, rfl⟩ | ⟨c, rfl⟩
    · simp only [uniqCtx, List.all_eq_true, List.mem_range]
      intro a ha a' ha'
      have hlen : (bucketWaiters K).length = K := by simp [bucketWaiters]
      rw [hlen] at ha ha'
      rw [bucketWaiters_get ha, bucketWaiters_get ha']
      by_cases e1 : a = i'
      · by_cases e2 : a' = i'
        · simp [e1, e2]
        · simp [mentions, e2]
      · simp [mentionsC, e1]
    · rfl
    · rfl

end TbbVerif.C02
