/-
C02 / Monitor: frame facts about single Monitor steps (who can change the wait set, a sleeper's program counter, the
notifier table), used by the clients' own invariants (bounded queue: abort wakes everybody; execute: the exit monitor).
-/
import TbbVerif.Proofs.C02.MonEmbed

namespace TbbVerif.C02

/-- a sleeper's step changes nobody else's membership in the wait set -/
theorem stepS_waitset_other (s : St) (i : Nat) (sl : Sleeper) (k : Nat) (hk : k ≠ i) :
    k ∈ (stepS s i sl).waitset ↔ k ∈ s.waitset := by
  unfold stepS
  split
  · exact Iff.rfl
  · split <;> (repeat' split) <;> simp [St.setS, hk, List.mem_erase_of_ne hk]

/-- a sleeper's step changes nobody else's record -/
theorem stepS_slp_other (s : St) (i : Nat) (sl : Sleeper) (k : Nat) (hk : k ≠ i) :
    (stepS s i sl).slp[k]? = s.slp[k]? := by
  unfold stepS
  split
  · rfl
  · split <;> (repeat' split) <;> simp [St.setS, List.getElem?_set, Ne.symm hk]

/-- the predicate check, the epoch check and the park leave the wait set alone -/
theorem stepS_waitset_scope (s : St) (i : Nat) (sl : Sleeper) (hpc : sl.pc = .check ∨ sl.pc = .commit ∨ sl.pc = .park) :
    (stepS s i sl).waitset = s.waitset := by
  unfold stepS
  split
  · rfl
  · rcases hpc with h | h | h <;> simp only [h] <;> (repeat' split) <;> rfl

/-- a sleeper reaches `commit` / `park` only from `check` / `commit` (or stays parked) -/
theorem stepS_pc_scope (s : St) (i : Nat) (sl sl' : Sleeper) (hi : s.slp[i]? = some sl)
    (h : (stepS s i sl).slp[i]? = some sl') (hp : sl'.pc = .commit ∨ sl'.pc = .park) :
    sl.pc = .check ∨ sl.pc = .commit ∨ sl.pc = .park := by
  apply Classical.byContradiction
  intro hn
  have hlt := getElem?_lt hi
  have hfin : ∀ (m : Sleeper) (r : Nat), (m.finish r).pc = .dtor ∨ (m.finish r).pc = .init := by
    intro m r; unfold Sleeper.finish; split
    · exact Or.inl rfl
    · exact Or.inr rfl
  have hac : ∀ (m : Sleeper), m.afterCancel.pc = .pump ∨ m.afterCancel.pc = .storeIn ∨ m.afterCancel.pc = .dtor ∨ m.afterCancel.pc = .init := by
    intro m; unfold Sleeper.afterCancel; split
    · split
      · exact Or.inl rfl
      · exact Or.inr (Or.inl rfl)
    · rcases hfin m 0 with e | e
      · exact Or.inr (Or.inr (Or.inl e))
      · exact Or.inr (Or.inr (Or.inr e))
  have key : ∀ (s' : St) (m : Sleeper), (s'.setS i m).slp[i]? = some sl' → s'.slp = s.slp →
      (m.pc ≠ .commit ∧ m.pc ≠ .park) → False := by
    intro s' m h3 h1 h2
    simp only [St.setS, h1, List.getElem?_set, hlt, if_true] at h3
    cases h3
    rcases hp with e | e
    · exact h2.1 e
    · exact h2.2 e
  have same : s.slp[i]? = some sl' → False := by
    intro h3; rw [hi] at h3; cases h3
    rcases hp with e | e
    · exact hn (Or.inr (Or.inl e))
    · exact hn (Or.inr (Or.inr e))
  have kfin : ∀ (s' : St) (m : Sleeper) (r : Nat), (s'.setS i (m.finish r)).slp[i]? = some sl' → s'.slp = s.slp → False := by
    intro s' m r h3 h1
    refine key s' _ h3 h1 ?_
    rcases hfin m r with e | e <;> rw [e] <;> simp
  have kac : ∀ (s' : St) (m : Sleeper), (s'.setS i m.afterCancel).slp[i]? = some sl' → s'.slp = s.slp → False := by
    intro s' m h3 h1
    refine key s' _ h3 h1 ?_
    rcases hac m with e | e | e | e <;> rw [e] <;> simp
  have kfr : ∀ (s' : St) (m : Sleeper), (s'.setS i m.fresh).slp[i]? = some sl' → s'.slp = s.slp → False := by
    intro s' m h3 h1
    exact key s' _ h3 h1 (by simp [Sleeper.fresh])
  unfold stepS at h
  split at h
  · exact same h
  · cases hpc : sl.pc <;> simp only [hpc] at h
    case check => exact hn (Or.inl hpc)
    case commit => exact hn (Or.inr (Or.inl hpc))
    case park => exact hn (Or.inr (Or.inr hpc))
    all_goals (try (split at h))
    all_goals first
      | exact same h
      | exact kfin _ _ _ h rfl
      | exact kac _ _ h rfl
      | exact kfr _ _ h rfl
      | exact key _ _ h rfl (by simp)

/-- a notifier's step never adds a node to the wait set -/
theorem stepN_waitset_sub (s : St) (j : Nat) (n : Notifier) (x : Nat) (h : x ∈ (stepN s j n).waitset) : x ∈ s.waitset := by
  have hm : ∀ (y : Nat) (f : Sleeper → Sleeper), (modS s y f).waitset = s.waitset := by
    intro y f; unfold modS; cases s.slp[y]? <;> rfl
  unfold stepN at h
  split at h
  · exact h
  · dsimp only at h
    split at h
    all_goals (try (split at h))
    all_goals (try (split at h))
    all_goals first
      | exact h
      | (simp only [St.setN, St.setCond] at h; first | exact h | exact List.mem_of_mem_erase h | (simp at h))
      | (simp only [St.setN, hm] at h; exact h)

/-- a notifier's step changes no sleeper's program counter or program -/
theorem stepN_slp_pc (s : St) (j : Nat) (n : Notifier) (k : Nat) (sl' : Sleeper)
    (h : (stepN s j n).slp[k]? = some sl') : ∃ sl0, s.slp[k]? = some sl0 ∧ sl'.pc = sl0.pc ∧ sl'.ops = sl0.ops := by
  have same : ∀ (s' : St) (n' : Notifier), (s'.setN j n').slp[k]? = some sl' → s'.slp = s.slp →
      ∃ sl0, s.slp[k]? = some sl0 ∧ sl'.pc = sl0.pc ∧ sl'.ops = sl0.ops := by
    intro s' n' h2 h1
    have : (s'.setN j n').slp = s.slp := h1
    rw [this] at h2; exact ⟨sl', h2, rfl, rfl⟩
  have viaMod : ∀ (x : Nat) (f : Sleeper → Sleeper) (n' : Notifier),
      ((modS s x f).setN j n').slp[k]? = some sl' → (∀ m, (f m).ops = m.ops ∧ (f m).pc = m.pc) →
      ∃ sl0, s.slp[k]? = some sl0 ∧ sl'.pc = sl0.pc ∧ sl'.ops = sl0.ops := by
    intro x f n' h2 hf
    have : ((modS s x f).setN j n').slp = (modS s x f).slp := rfl
    rw [this] at h2
    rcases modS_get_cases h2 with ⟨e, m, h3, h4⟩ | ⟨_, h3⟩
    · subst e; exact ⟨m, h3, by rw [h4, (hf m).2], by rw [h4, (hf m).1]⟩
    · exact ⟨sl', h3, rfl, rfl⟩
  unfold stepN at h
  split at h
  · exact ⟨sl', h, rfl, rfl⟩
  · dsimp only at h
    split at h
    all_goals (try (split at h))
    all_goals (try (split at h))
    all_goals first
      | exact ⟨sl', h, rfl, rfl⟩
      | exact same _ _ h rfl
      | exact viaMod _ _ _ h (fun _ => ⟨rfl, rfl⟩)

end TbbVerif.C02
