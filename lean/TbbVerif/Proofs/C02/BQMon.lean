/-
C02 / bounded queue: in every reachable state BOTH monitors satisfy the Monitor invariant (`Inv`) and carry only
ticket-tagged waits / `notify(leq k)` / `abort_all` calls — for every history, aborted pushes and racing aborts included.
-/
import TbbVerif.Proofs.C02.BQOps

namespace TbbVerif.C02.BQ
open TbbVerif.C02

structure MInv (s : St) : Prop where
  slots : MonOK s.slots
  items : MonOK s.items

theorem setCond_false_ok {m : C02.St} (h : MonOK m) (c : Nat) : MonOK (m.setCond c false) :=
  ⟨setCond_false_inv h.inv c, ⟨h.shape.slp, h.shape.ntf⟩⟩

theorem stepT_minv {s : St} (h : MInv s) (i : Nat) (th : Thr) : MInv (stepT s i th) := by
  unfold stepT
  split
  · exact h
  · split
    all_goals (try dsimp only)
    all_goals (repeat' split)
    all_goals first
      | exact h
      | exact ⟨h.slots, h.items⟩
      | exact ⟨h.slots, arm_ok h.items _ _⟩
      | exact ⟨arm_ok h.slots _ _, h.items⟩
      | exact ⟨startWait_ok h.slots _ _, h.items⟩
      | exact ⟨h.slots, startWait_ok h.items _ _⟩
      | exact ⟨waitStep_ok h.slots _ _ _ _, h.items⟩
      | exact ⟨h.slots, waitStep_ok h.items _ _ _ _⟩
      | exact ⟨h.slots, disarm_ok h.items _⟩
      | exact ⟨disarm_ok h.slots _, h.items⟩
      | exact ⟨setCond_false_ok (disarm_ok h.slots _) _, h.items⟩
      | exact ⟨h.slots, ntfStep_ok h.items _⟩
      | exact ⟨ntfStep_ok h.slots _, h.items⟩
      | exact ⟨armAbort_ok h.slots _, armAbort_ok h.items _⟩

theorem step_minv {s : St} (h : MInv s) (t : Tid) : MInv (step s t) := by
  unfold step
  split
  · exact stepT_minv h _ _
  · exact h

theorem monInit_ok (n : Nat) : MonOK (monInit n) := by
  constructor
  · exact init_inv _ _ (by
      simp only [compatB, acceptB, uniqB, Bool.and_eq_true, List.all_eq_true]
      constructor
      · intro p hp w hw; rw [List.eq_of_mem_replicate hp] at hw; simp at hw
      · intro q hq op hop; rw [List.eq_of_mem_replicate hq] at hop; simp at hop)
  · constructor
    · intro i sl hi w hw
      simp only [monInit, C02.init, List.getElem?_map, Option.map_eq_some_iff] at hi
      obtain ⟨p, hp, rfl⟩ := hi
      have := List.mem_of_getElem? hp
      rw [List.eq_of_mem_replicate this] at hw; simp [mkSleeper] at hw
    · intro j n' hj op hop
      simp only [monInit, C02.init, List.getElem?_map, Option.map_eq_some_iff] at hj
      obtain ⟨q, hq, rfl⟩ := hj
      have := List.mem_of_getElem? hq
      rw [List.eq_of_mem_replicate this] at hop; simp [mkNotifier] at hop

theorem init_minv (cap : Nat) (progs : List (List Op)) : MInv (init cap progs) :=
  ⟨monInit_ok _, monInit_ok _⟩

theorem reach_minv (cap : Nat) (progs : List (List Op)) (sched : List Tid) : MInv ((sys cap progs).run sched) :=
  Sys.inv_run (sys cap progs) MInv (init_minv cap progs) (fun _ t h => step_minv h t) sched

end TbbVerif.C02.BQ
