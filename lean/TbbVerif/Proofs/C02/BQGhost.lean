/-
C02 / bounded queue: as long as the history is clean (no `head_counter--` after a later pop ticket was handed out, no
invalidated ticket) the monitors' ghost conditions are exactly the wake-up predicates of the ticket-tagged waits:
condition `c` of the slots monitor ⇔ `head_counter > c`, of the items monitor ⇔ `tail_counter > c`.
-/
import TbbVerif.Proofs.C02.BQLink2

set_option linter.unusedSimpArgs false

namespace TbbVerif.C02.BQ
open TbbVerif.C02

structure JInv (s : St) : Prop where
  inval : ∀ k, (k, false) ∈ s.pubd → s.ninvalid ≠ 0
  j : s.clean = true → (∀ c, s.slots.cond c = true ↔ c < s.head) ∧ (∀ c, s.items.cond c = true ↔ c < s.tail)

theorem published_false {s : St} {k : Nat} (h : s.published k = some false) : (k, false) ∈ s.pubd := by
  unfold St.published at h
  cases hf : s.pubd.find? (fun e => e.1 == k) with
  | none => rw [hf] at h; cases h
  | some e =>
    rw [hf] at h; simp at h
    have hm := List.mem_of_find?_eq_some hf
    have hk := List.find?_some hf
    simp at hk
    obtain ⟨a, b⟩ := e
    simp at h hk; subst h; subst hk; exact hm

theorem cond_def (m : C02.St) (c : Nat) : m.cond c = m.conds.getD c false := rfl

/-- nothing the ghost conditions are about changed -/
theorem jinv_same {s s' : St} (h : JInv s) (hh : s'.head = s.head) (ht : s'.tail = s.tail) (hr : s'.raced = s.raced)
    (hn : s'.ninvalid = s.ninvalid) (hS : s'.slots.conds = s.slots.conds) (hI : s'.items.conds = s.items.conds)
    (hp : ∀ k, (k, false) ∈ s'.pubd → (k, false) ∈ s.pubd) : JInv s' := by
  constructor
  · intro k hk; rw [hn]; exact h.inval k (hp k hk)
  · intro hc
    have hc' : s.clean = true := by simp only [St.clean, hr, hn] at hc ⊢; exact hc
    have := h.j hc'
    simp only [cond_def, hS, hI, hh, ht]
    exact this

theorem setCond_true_iff (m : C02.St) (k : Nat) (hj : ∀ c, m.cond c = true ↔ c < k) :
    ∀ c, (m.setCond k true).cond c = true ↔ c < k + 1 := by
  intro c
  rw [cond_def, getD_setCond]
  by_cases e : c = k
  · simp [e]
  · simp only [e, if_false]
    have := hj c; rw [cond_def] at this
    rw [this]; omega

theorem arm_conds {m : C02.St} {i : Nat} {n : Notifier} (hn : m.ntf[i]? = some n) (hidle : n.ops = []) (k : Nat) :
    (arm m i k).conds = (m.setCond k true).conds := by
  rw [arm_idle hn hidle]; rfl

theorem stepT_jinv {s : St} (hL : Link s) (h : JInv s) {t : Nat} {th : Thr} (hth : s.thr[t]? = some th) :
    JInv (stepT s t th) := by
  have hlt : t < s.thr.length := getElem?_lt hth
  obtain ⟨nS, hnS⟩ : ∃ n, s.slots.ntf[t]? = some n := ⟨s.slots.ntf[t]'(by rw [hL.lenS]; exact hlt), List.getElem?_eq_getElem _⟩
  obtain ⟨nI, hnI⟩ : ∃ n, s.items.ntf[t]? = some n := ⟨s.items.ntf[t]'(by rw [hL.lenI]; exact hlt), List.getElem?_eq_getElem _⟩
  have hS := hL.ls t th nS hth hnS
  have hI := hL.li t th nI hth hnI
  have swc : ∀ (m : C02.St) (a b : Nat), (startWait m a b).conds = m.conds := fun m a b => (startWait_frame m a b).2.1
  have wsc : ∀ (m : C02.St) (a : Nat) (x : Thr) (c : Nat) (r : Bool), (waitStep m a x c r).1.conds = m.conds :=
    fun m a x c r => (waitStep_frame m a x c r).2.1
  have nsc : ∀ (m : C02.St) (a : Nat), (ntfStep m a).conds = m.conds := fun m a => (ntfStep_frame m a).1
  have aac : ∀ (m : C02.St) (a : Nat), (armAbort m a).conds = m.conds := fun m a => (armAbort_frame m a).2.2.1
  cases hops : th.ops with
  | nil =>
    have : stepT s t th = s := by unfold stepT; simp [hops]
    rw [this]; exact h
  | cons o rest =>
    have hne : th.ops ≠ [] := by rw [hops]; simp
    unfold LinkS at hS; unfold LinkI at hI
    simp only [hne, if_false] at hS hI
    unfold stepT
    simp only [hops]
    cases hpc : th.pc <;> simp only [hpc] at hS hI ⊢
    case pTailInc =>
      constructor
      · exact h.inval
      · intro hc
        have := h.j hc
        refine ⟨this.1, ?_⟩
        show ∀ c, (arm s.items t s.tail).cond c = true ↔ c < s.tail + 1
        intro c; rw [cond_def, arm_conds hnI hI]; exact setCond_true_iff s.items s.tail this.2 c
    case tCasTail =>
      split
      · constructor
        · exact h.inval
        · intro hc
          have := h.j hc
          refine ⟨this.1, ?_⟩
          show ∀ c, (arm s.items t s.tail).cond c = true ↔ c < s.tail + 1
          intro c; rw [cond_def, arm_conds hnI hI]; exact setCond_true_iff s.items s.tail this.2 c
      · exact jinv_same h rfl rfl rfl rfl rfl rfl (fun _ hk => hk)
    case qHeadInc =>
      constructor
      · exact h.inval
      · intro hc
        have := h.j hc
        refine ⟨?_, this.2⟩
        show ∀ c, (arm s.slots t s.head).cond c = true ↔ c < s.head + 1
        intro c; rw [cond_def, arm_conds hnS hS]; exact setCond_true_iff s.slots s.head this.1 c
    case rCasHead =>
      split
      · constructor
        · exact h.inval
        · intro hc
          have := h.j hc
          refine ⟨?_, this.2⟩
          show ∀ c, (arm s.slots t s.head).cond c = true ↔ c < s.head + 1
          intro c; rw [cond_def, arm_conds hnS hS]; exact setCond_true_iff s.slots s.head this.1 c
      · exact jinv_same h rfl rfl rfl rfl rfl rfl (fun _ hk => hk)
    case pAbortPush =>
      constructor
      · intro k _; show s.ninvalid + 1 ≠ 0; omega
      · intro hc; simp [St.clean, St.setT] at hc
    case qHeadDec =>
      constructor
      · exact h.inval
      · intro hc
        simp only [St.clean, St.setT, Bool.and_eq_true, Bool.not_eq_eq_eq_not, Bool.not_true, Bool.or_eq_false_iff,
          decide_eq_false_iff_not, ne_eq, Decidable.not_not, beq_iff_eq] at hc
        obtain ⟨⟨hr, hh⟩, hn⟩ := hc
        have hcl : s.clean = true := by simp [St.clean, hr, hn]
        have := h.j hcl
        refine ⟨?_, this.2⟩
        show ∀ c, ((disarm s.slots t).setCond (s.head - 1) false).cond c = true ↔ c < s.head - 1
        rw [disarm_armed hnS hS.1 hS.2]
        intro c
        have h1 := this.1 c
        rw [cond_def] at h1
        have hk : s.head - 1 = th.ticket := by omega
        rw [cond_def, hk]
        show ((s.slots.setCond th.ticket false).setCond th.ticket false).conds.getD c false = true ↔ _
        rw [getD_setCond, getD_setCond]
        by_cases e : c = th.ticket
        · simp [e]
        · simp only [e, if_false]; rw [h1]; omega
    case qConsume | rConsume =>
      split
      · exact h
      · exact jinv_same h rfl rfl rfl rfl rfl rfl (fun _ hk => hk)
      · rename_i hpf
        have hni := h.inval _ (published_false hpf)
        constructor
        · exact h.inval
        · intro hc; simp [St.clean, St.setT] at hc; exact absurd hc.2 hni
    case pPublish | tPublish =>
      refine jinv_same h rfl rfl rfl rfl rfl rfl ?_
      intro k hk
      simp only [St.setT, List.mem_cons, Prod.mk.injEq] at hk
      rcases hk with ⟨_, e⟩ | hk
      · cases e
      · exact hk
    all_goals (try dsimp only)
    all_goals (repeat' split)
    all_goals first
      | exact h
      | exact jinv_same h rfl rfl rfl rfl rfl rfl (fun _ hk => hk)
      | exact jinv_same h rfl rfl rfl rfl (swc _ _ _) rfl (fun _ hk => hk)
      | exact jinv_same h rfl rfl rfl rfl rfl (swc _ _ _) (fun _ hk => hk)
      | exact jinv_same h rfl rfl rfl rfl (wsc _ _ _ _ _) rfl (fun _ hk => hk)
      | exact jinv_same h rfl rfl rfl rfl rfl (wsc _ _ _ _ _) (fun _ hk => hk)
      | exact jinv_same h rfl rfl rfl rfl (nsc _ _) rfl (fun _ hk => hk)
      | exact jinv_same h rfl rfl rfl rfl rfl (nsc _ _) (fun _ hk => hk)
      | exact jinv_same h rfl rfl rfl rfl (aac _ _) (aac _ _) (fun _ hk => hk)

theorem step_jinv {s : St} (hL : Link s) (h : JInv s) (t : Tid) : JInv (step s t) := by
  unfold step
  split
  · rename_i th hth; exact stepT_jinv hL h hth
  · exact h

theorem init_jinv (cap : Nat) (progs : List (List Op)) : JInv (init cap progs) := by
  constructor
  · intro k hk; simp [init] at hk
  · intro _
    constructor <;> intro c <;> simp [init, monInit, C02.init, cond_def]

theorem reach_jinv (cap : Nat) (progs : List (List Op)) (sched : List Tid) : JInv ((sys cap progs).run sched) := by
  have : Link ((sys cap progs).run sched) ∧ JInv ((sys cap progs).run sched) :=
    Sys.inv_run (sys cap progs) (fun s => Link s ∧ JInv s) ⟨init_link cap progs, init_jinv cap progs⟩
      (fun _ t h => ⟨step_link h.1 t, step_jinv h.1 h.2 t⟩) sched
  exact this.2

end TbbVerif.C02.BQ
