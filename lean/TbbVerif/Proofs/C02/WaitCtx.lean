/-
C02 / WaitCtx: the reference counter of wait_context on top of the Monitor invariant.
-/
import TbbVerif.Proofs.C02.Monitor

namespace TbbVerif.C02

/-- a sleeper's step touches neither the notifiers nor the user conditions -/
theorem stepS_frame (s : St) (i : Nat) (sl : Sleeper) :
    (stepS s i sl).ntf = s.ntf ∧ (stepS s i sl).conds = s.conds ∧ (stepS s i sl).slp.length = s.slp.length := by
  unfold stepS
  split
  · exact ⟨rfl, rfl, rfl⟩
  · split <;> (repeat' split) <;> simp [St.setS]


@[simp] theorem modS_ntf (s : St) (x : Nat) (f : Sleeper → Sleeper) : (modS s x f).ntf = s.ntf := by
  unfold modS; cases s.slp[x]? <;> rfl
@[simp] theorem modS_conds (s : St) (x : Nat) (f : Sleeper → Sleeper) : (modS s x f).conds = s.conds := by
  unfold modS; cases s.slp[x]? <;> rfl

theorem finish_pc_ne_clr (n : Notifier) (h : ∀ c rest, n.ops.tail ≠ .clr c :: rest) : n.finish.pc ≠ .clr := by
  unfold Notifier.finish
  cases ht : n.ops.tail with
  | nil => simp
  | cons o rest =>
    cases o with
    | sig c k r => cases c <;> cases r <;> simp [NOp.startPc]
    | clr c => exact absurd ht (h c rest)

/-- what a notifier's step does to the notifier table, the sleeper table size and the user conditions -/
theorem stepN_frame (s : St) (j : Nat) (n : Notifier) (hj : s.ntf[j]? = some n) :
    (stepN s j n).ntf.length = s.ntf.length ∧
    (stepN s j n).slp.length = s.slp.length ∧
    (∀ k, k ≠ j → (stepN s j n).ntf[k]? = s.ntf[k]?) ∧
    (∃ n', (stepN s j n).ntf[j]? = some n' ∧ (n'.ops = n.ops ∨ n'.ops = n.ops.tail) ∧
        (n'.pc = .clr → n.pc = .clr ∨ ∃ c rest, n.ops.tail = .clr c :: rest)) ∧
    ((stepN s j n).conds = s.conds ∨ n.pc = .clr ∨
      (n.pc = .set ∧ (stepN s j n).conds = (s.setCond (n.cond?.getD 0) true).conds)) := by
  have hlt := getElem?_lt hj
  have hfin : ∀ (m : Notifier), m.finish.pc = .clr → m.pc = .clr ∨ ∃ c rest, m.ops.tail = .clr c :: rest := by
    intro m hm
    cases ht : m.ops.tail with
    | nil => simp [Notifier.finish, ht] at hm
    | cons o rest =>
      cases o with
      | sig c k r => cases c <;> cases r <;> simp [Notifier.finish, ht, NOp.startPc] at hm
      | clr c => exact Or.inr ⟨c, rest, rfl⟩
  have hfin' : n.finish.pc = .clr → n.pc = .clr ∨ ∃ c rest, n.ops.tail = .clr c :: rest := hfin n
  unfold stepN
  by_cases hemp : n.ops.isEmpty = true
  · rw [if_pos hemp]
    exact ⟨rfl, rfl, fun _ _ => rfl, ⟨n, hj, Or.inl rfl, fun h => Or.inl h⟩, Or.inl rfl⟩
  rw [if_neg hemp]
  generalize hpc : n.pc = pc0 at hfin' ⊢
  -- every branch has the form (… state with the same notifier table …).setN j n'
  have key : ∀ (s' : St) (n' : Notifier), s'.ntf = s.ntf → s'.slp.length = s.slp.length →
      (n'.ops = n.ops ∨ n'.ops = n.ops.tail) → (n'.pc = .clr → pc0 = .clr ∨ ∃ c rest, n.ops.tail = .clr c :: rest) →
      (s'.conds = s.conds ∨ pc0 = .clr ∨ (pc0 = .set ∧ s'.conds = (s.setCond (n.cond?.getD 0) true).conds)) →
      (s'.setN j n').ntf.length = s.ntf.length ∧
      (s'.setN j n').slp.length = s.slp.length ∧
      (∀ k, k ≠ j → (s'.setN j n').ntf[k]? = s.ntf[k]?) ∧
      (∃ n'', (s'.setN j n').ntf[j]? = some n'' ∧ (n''.ops = n.ops ∨ n''.ops = n.ops.tail) ∧
          (n''.pc = .clr → pc0 = .clr ∨ ∃ c rest, n.ops.tail = .clr c :: rest)) ∧
      ((s'.setN j n').conds = s.conds ∨ pc0 = .clr ∨
        (pc0 = .set ∧ (s'.setN j n').conds = (s.setCond (n.cond?.getD 0) true).conds)) := by
    intro s' n' h1 h2 h3 h4 h5
    refine ⟨by simp [St.setN, h1], h2, ?_, ⟨n', ?_, h3, h4⟩, h5⟩
    · intro k hk; simp [St.setN, h1, List.getElem?_set, Ne.symm hk]
    · simp [St.setN, h1, List.getElem?_set, hlt]
  -- closing tactic for the five side conditions of `key`
  cases pc0 with
  | clr =>
    dsimp only
    refine key _ _ ?_ ?_ (Or.inr ?_) (fun _ => Or.inl rfl) (Or.inr (Or.inl rfl)) <;> first | rfl | simp [St.setCond]
  | set =>
    dsimp only
    refine key _ _ ?_ ?_ (Or.inl ?_) (fun h => ?_) (Or.inr (Or.inr ⟨rfl, ?_⟩))
    · rfl
    · rfl
    · rfl
    · simp only at h; split at h <;> cases h
    · rfl
  | fence =>
    dsimp only
    refine key _ _ ?_ ?_ (Or.inl ?_) (fun h => ?_) (Or.inl ?_) <;> first | rfl | cases h
  | test =>
    dsimp only
    split
    · refine key _ _ ?_ ?_ (Or.inr ?_) (fun h => ?_) (Or.inl ?_)
      · rfl
      · rfl
      · rfl
      · rcases hfin' h with e | e
        · cases e
        · exact Or.inr e
      · rfl
    · refine key _ _ ?_ ?_ (Or.inl ?_) (fun h => ?_) (Or.inl ?_) <;> first | rfl | cases h
  | lock =>
    dsimp only
    split
    · exact ⟨rfl, rfl, fun _ _ => rfl, ⟨n, hj, Or.inl rfl, fun h => by rw [hpc] at h; cases h⟩, Or.inl rfl⟩
    · refine key _ _ ?_ ?_ (Or.inl ?_) (fun h => ?_) (Or.inl ?_) <;> first | rfl | cases h
  | epoch =>
    dsimp only
    refine key _ _ ?_ ?_ (Or.inl ?_) (fun h => ?_) (Or.inl ?_)
    · rfl
    · rfl
    · rfl
    · simp only [afterEpoch] at h
      split at h <;> split at h <;> cases h
    · rfl
  | flush =>
    dsimp only
    refine key _ _ ?_ ?_ (Or.inl ?_) (fun h => ?_) (Or.inl ?_)
    · rfl
    · rfl
    · rfl
    · simp only at h; split at h <;> cases h
    · rfl
  | scan =>
    dsimp only
    split
    · refine key _ _ ?_ ?_ (Or.inl ?_) (fun h => ?_) (Or.inl ?_) <;> first | rfl | cases h
    · refine key _ _ ?_ ?_ (Or.inl ?_) (fun h => ?_) (Or.inl ?_) <;> first | rfl | cases h
  | mark =>
    dsimp only
    split
    · refine key _ _ (modS_ntf _ _ _) (modS_len _ _ _) (Or.inl ?_) (fun h => ?_) (Or.inl (modS_conds _ _ _))
      · rfl
      · simp only [afterMark, afterEpoch] at h
        repeat' (split at h)
        all_goals cases h
    · refine key _ _ ?_ ?_ (Or.inl ?_) (fun h => ?_) (Or.inl ?_) <;> first | rfl | cases h
  | unlock =>
    dsimp only
    split
    · refine key _ _ ?_ ?_ (Or.inr ?_) (fun h => ?_) (Or.inl ?_)
      · rfl
      · rfl
      · rfl
      · rcases hfin' h with e | e
        · cases e
        · exact Or.inr e
      · rfl
    · refine key _ _ ?_ ?_ (Or.inl ?_) (fun h => ?_) (Or.inl ?_) <;> first | rfl | cases h
  | v =>
    dsimp only
    split
    · split
      · refine key _ _ (modS_ntf _ _ _) (modS_len _ _ _) (Or.inr ?_) (fun h => ?_) (Or.inl (modS_conds _ _ _))
        · rfl
        · rcases hfin' h with e | e
          · cases e
          · exact Or.inr e
      · refine key _ _ (modS_ntf _ _ _) (modS_len _ _ _) (Or.inl ?_) (fun h => ?_) (Or.inl (modS_conds _ _ _))
        · rfl
        · cases h
    · refine key _ _ ?_ ?_ (Or.inr ?_) (fun h => ?_) (Or.inl ?_)
      · rfl
      · rfl
      · rfl
      · rcases hfin' h with e | e
        · cases e
        · exact Or.inr e
      · rfl


/-- programs only shrink: a sleeper's step keeps or pops its own program and leaves the other sleepers' programs alone -/
theorem stepS_ops (s : St) (i : Nat) (sl : Sleeper) (hi : s.slp[i]? = some sl) (k : Nat) (sl' : Sleeper)
    (h : (stepS s i sl).slp[k]? = some sl') :
    ∃ sl0, s.slp[k]? = some sl0 ∧ (sl'.ops = sl0.ops ∨ sl'.ops = sl0.ops.tail) := by
  have hlt := getElem?_lt hi
  have key : ∀ (s' : St) (sl'' : Sleeper), (s'.setS i sl'').slp[k]? = some sl' → s'.slp = s.slp →
      (sl''.ops = sl.ops ∨ sl''.ops = sl.ops.tail) →
      ∃ sl0, s.slp[k]? = some sl0 ∧ (sl'.ops = sl0.ops ∨ sl'.ops = sl0.ops.tail) := by
    intro s' sl'' h3 h1 h2
    simp only [St.setS, h1, List.getElem?_set] at h3
    by_cases e : i = k
    · subst e; simp [hlt] at h3; subst h3; exact ⟨sl, hi, h2⟩
    · simp [e] at h3; exact ⟨sl', h3, Or.inl rfl⟩
  have same : s.slp[k]? = some sl' → ∃ sl0, s.slp[k]? = some sl0 ∧ (sl'.ops = sl0.ops ∨ sl'.ops = sl0.ops.tail) :=
    fun h => ⟨sl', h, Or.inl rfl⟩
  have hfin : ∀ (m : Sleeper) (r : Nat), (m.finish r).ops = m.ops ∨ (m.finish r).ops = m.ops.tail := by
    intro m r; unfold Sleeper.finish; split
    · exact Or.inl rfl
    · exact Or.inr rfl
  have hac : ∀ (m : Sleeper), m.afterCancel.ops = m.ops ∨ m.afterCancel.ops = m.ops.tail := by
    intro m; unfold Sleeper.afterCancel; split
    · exact Or.inl rfl
    · exact hfin m 0
  unfold stepS at h
  split at h
  · exact same h
  · split at h
    all_goals (try (split at h))
    all_goals first
      | exact same h
      | exact key _ _ h rfl (Or.inl rfl)
      | exact key _ _ h rfl (Or.inr rfl)
      | exact key _ _ h rfl (hfin _ _)
      | exact key _ _ h rfl (hac _)

theorem stepN_ops (s : St) (j : Nat) (n : Notifier) (k : Nat) (sl' : Sleeper)
    (h : (stepN s j n).slp[k]? = some sl') : ∃ sl0, s.slp[k]? = some sl0 ∧ sl'.ops = sl0.ops := by
  have same : ∀ (s' : St) (n' : Notifier), (s'.setN j n').slp[k]? = some sl' → s'.slp = s.slp →
      ∃ sl0, s.slp[k]? = some sl0 ∧ sl'.ops = sl0.ops := by
    intro s' n' h2 h1
    have : (s'.setN j n').slp = s.slp := h1
    rw [this] at h2; exact ⟨sl', h2, rfl⟩
  have viaMod : ∀ (x : Nat) (f : Sleeper → Sleeper) (n' : Notifier),
      ((modS s x f).setN j n').slp[k]? = some sl' → (∀ m, (f m).ops = m.ops) →
      ∃ sl0, s.slp[k]? = some sl0 ∧ sl'.ops = sl0.ops := by
    intro x f n' h2 hf
    have : ((modS s x f).setN j n').slp = (modS s x f).slp := rfl
    rw [this] at h2
    rcases modS_get_cases h2 with ⟨e, m, h3, h4⟩ | ⟨_, h3⟩
    · subst e; exact ⟨m, h3, by rw [h4, hf]⟩
    · exact ⟨sl', h3, rfl⟩
  unfold stepN at h
  split at h
  · exact ⟨sl', h, rfl⟩
  · dsimp only at h
    split at h
    all_goals (try (split at h))
    all_goals (try (split at h))
    all_goals first
      | exact ⟨sl', h, rfl⟩
      | exact same _ _ h rfl
      | exact viaMod _ _ _ h (fun _ => rfl)


theorem cond_setCond_true (s : St) (k c : Nat) (h : s.cond c = true) : (s.setCond k true).conds.getD c false = true := by
  rw [getD_setCond]; split
  · rfl
  · exact h

/-- a releaser that did not drop the last reference returns without notifying -/
theorem inv_drop {s : St} (h : Inv s) {j : Nat} {n : Notifier} (hj : s.ntf[j]? = some n) (hpc : n.pc = .set) :
    Inv (s.setN j n.finish) := by
  obtain ⟨hm, hu, ht, hk, he0, hset, hfl, hsc⟩ := h.ntf j n hj
  have htemp : n.temp = [] := ht (by simp [hpc])
  exact inv_notifier_own h hj s.lock s.epoch s.conds (Or.inl ⟨rfl, by rw [holdsN_finish, hpc]; rfl⟩)
    (by rw [finish_temp, htemp]) (by rw [finish_unm]; simp [Notifier.unm, htemp]) (nloc_finish n) (Or.inr rfl)
    (dek_mono h hj (fun c x hp' => by rw [pendingFor_false_of_pc (Or.inl hpc)] at hp'; cases hp'))

namespace WaitCtx

structure WInv (x c : Nat) (s : St) : Prop where
  inv : Inv s.mon
  rel : ∀ (j : Nat) (n : Notifier), s.mon.ntf[j]? = some n → (n.ops = relProg x c ∨ n.ops = []) ∧ n.pc ≠ .clr
  wts : ∀ (i : Nat) (sl : Sleeper), s.mon.slp[i]? = some sl → sl.ops = [⟨x, c⟩] ∨ sl.ops = []
  cond : s.ref = 0 → s.mon.ntf ≠ [] → s.mon.cond c = true

theorem tail_rel {x c : Nat} {l : List NOp} (h : l = relProg x c ∨ l = []) : l.tail = relProg x c ∨ l.tail = [] := by
  rcases h with h | h <;> rw [h] <;> simp [relProg]

theorem step_inv {x c : Nat} {s : St} (h : WInv x c s) (t : Tid) : WInv x c (step x c s t) := by
  unfold step
  by_cases ht : t < s.mon.slp.length
  · -- a waiter's access
    simp only [ht, if_true]
    have hfr : (C02.step s.mon t).ntf = s.mon.ntf ∧ (C02.step s.mon t).conds = s.mon.conds := by
      unfold C02.step; simp only [ht, if_true]
      split
      · exact ⟨(stepS_frame _ _ _).1, (stepS_frame _ _ _).2.1⟩
      · exact ⟨rfl, rfl⟩
    refine ⟨C02.step_inv h.inv t, ?_, ?_, ?_⟩
    · intro j n hj; rw [hfr.1] at hj; exact h.rel j n hj
    · intro i sl' hi
      unfold C02.step at hi; simp only [ht, if_true] at hi
      split at hi
      · rename_i sl hsl
        obtain ⟨sl0, h0, ho⟩ := stepS_ops _ _ _ hsl i sl' hi
        rcases h.wts i sl0 h0 with e | e <;> rcases ho with o | o <;> rw [o, e] <;> simp
      · exact h.wts i sl' hi
    · intro hr hne
      show (C02.step s.mon t).conds.getD c false = true
      rw [hfr.2]; exact h.cond hr (by rw [hfr.1] at hne; exact hne)
  · simp only [ht, if_false]
    cases hn : s.mon.ntf[t - s.mon.slp.length]? with
    | none => exact h
    | some n =>
      simp only
      have hstep : C02.step s.mon t = stepN s.mon (t - s.mon.slp.length) n := by
        unfold C02.step; simp only [ht, if_false, hn]
      obtain ⟨_, hlen, hoth, ⟨n', hn', hops', hclr'⟩, hconds⟩ := stepN_frame s.mon _ n hn
      obtain ⟨hrel, hnclr⟩ := h.rel _ n hn
      -- facts about a full Monitor step of this notifier
      have full : ∀ (r : Nat), (r = 0 → (stepN s.mon (t - s.mon.slp.length) n).cond c = true) →
          WInv x c { mon := stepN s.mon (t - s.mon.slp.length) n, ref := r } := by
        intro r hr
        refine ⟨stepN_inv h.inv hn, ?_, ?_, fun e _ => hr e⟩
        · intro j m hj
          by_cases e : j = t - s.mon.slp.length
          · subst e; rw [hn'] at hj; cases hj
            refine ⟨?_, fun e' => ?_⟩
            · rcases hops' with o | o
              · rw [o]; exact hrel
              · rw [o]; exact tail_rel hrel
            · rcases hclr' e' with e'' | ⟨c', rest, e''⟩
              · exact hnclr e''
              · rcases tail_rel hrel with o | o <;> rw [o] at e'' <;> simp [relProg] at e''
          · rw [hoth j e] at hj; exact h.rel j m hj
        · intro i sl' hi
          obtain ⟨sl0, h0, ho⟩ := stepN_ops _ _ _ i sl' hi
          rw [ho]; exact h.wts i sl0 h0
      have keepCond : s.mon.cond c = true → (stepN s.mon (t - s.mon.slp.length) n).cond c = true := by
        intro hc
        show (stepN s.mon (t - s.mon.slp.length) n).conds.getD c false = true
        rcases hconds with e | e | ⟨_, e⟩
        · rw [e]; exact hc
        · exact absurd e hnclr
        · rw [e]; exact cond_setCond_true _ _ _ hc
      have hne : s.mon.ntf ≠ [] := by intro e; rw [e] at hn; simp at hn
      by_cases hdec : n.pc = .set ∧ n.ops = relProg x c
      · simp only [hdec, and_self, if_true]
        by_cases h1 : s.ref = 1
        · -- the last reference: the Monitor's `set` step makes the condition true
          simp only [h1, if_true, hstep]
          refine full 0 (fun _ => ?_)
          show (stepN s.mon (t - s.mon.slp.length) n).conds.getD c false = true
          rcases hconds with e | e | ⟨_, e⟩
          · -- impossible: a `set` step with a non-empty program changes the conditions; derive it directly
            have : (stepN s.mon (t - s.mon.slp.length) n).conds = (s.mon.setCond (n.cond?.getD 0) true).conds := by
              unfold stepN; simp [hdec.1, hdec.2, relProg, St.setN]
            rw [this, getD_setCond]; simp [Notifier.cond?, hdec.2, relProg]
          · exact absurd e hnclr
          · rw [e, getD_setCond]; simp [Notifier.cond?, hdec.2, relProg]
        · simp only [h1, if_false]
          refine ⟨inv_drop h.inv hn hdec.1, ?_, ?_, ?_⟩
          · intro j m hj
            rw [getN_setN' hn] at hj
            by_cases e : t - s.mon.slp.length = j
            · simp [e] at hj; subst hj
              refine ⟨Or.inr (by rw [finish_ops, hdec.2]; rfl), finish_pc_ne_clr n (by rw [hdec.2]; simp [relProg])⟩
            · simp [e] at hj; exact h.rel j m hj
          · intro i sl hi; exact h.wts i sl hi
          · intro hr _
            have : s.ref = 0 := by simp only at hr; omega
            exact h.cond this hne
      · simp only [hdec, if_false, hstep]
        refine full s.ref (fun hr => keepCond (h.cond hr hne))

theorem init_inv (nW K x c : Nat) : WInv x c (init nW K x c) := by
  refine ⟨?_, ?_, ?_, ?_⟩
  · apply C02.init_inv
    refine compatB_of ?_ ?_
    · simp only [acceptB, List.all_eq_true]
      intro p hp w hw q hq op hop
      have e1 := List.eq_of_mem_replicate hp; subst e1
      have e2 := List.eq_of_mem_replicate hq; subst e2
      simp at hw; subst hw
      simp [relProg] at hop; subst hop
      simp [NKind.accepts]
    · intro q hq op hop c' c0 r e
      have e2 := List.eq_of_mem_replicate hq; subst e2
      simp [relProg] at hop; subst hop
      cases e
  · intro j n hj
    simp only [init, C02.init, List.getElem?_map, Option.map_eq_some_iff] at hj
    obtain ⟨q, hq, rfl⟩ := hj
    have := List.mem_of_getElem? hq
    have e := List.eq_of_mem_replicate this; subst e
    exact ⟨Or.inl rfl, by simp [mkNotifier, relProg, NOp.startPc]⟩
  · intro i sl hi
    simp only [init, C02.init, List.getElem?_map, Option.map_eq_some_iff] at hi
    obtain ⟨p, hp, rfl⟩ := hi
    have := List.mem_of_getElem? hp
    have e := List.eq_of_mem_replicate this; subst e
    exact Or.inl rfl
  · intro hr hne
    simp only [init] at hr
    subst hr
    simp [init, C02.init] at hne

theorem reach_inv (nW K x c : Nat) (sched : List Tid) : WInv x c ((sys nW K x c).run sched) :=
  Sys.inv_run (sys nW K x c) (WInv x c) (init_inv nW K x c) (fun s t h => step_inv h t) sched

/-- the number of releasers never changes -/
theorem ntf_length (nW K x c : Nat) (sched : List Tid) : ((sys nW K x c).run sched).mon.ntf.length = K := by
  refine Sys.inv_run (sys nW K x c) (fun s => s.mon.ntf.length = K) (by simp [sys, init, C02.init]) ?_ sched
  intro s t h
  show (step x c s t).mon.ntf.length = K
  unfold step
  have hst : (C02.step s.mon t).ntf.length = K := by
    unfold C02.step
    split
    · split
      · rw [(stepS_frame _ _ _).1]; exact h
      · exact h
    · split
      · rename_i n hn; rw [(stepN_frame _ _ n hn).1]; exact h
      · exact h
  split
  · exact hst
  · split
    · split
      · split
        · exact hst
        · simp [St.setN]; exact h
      · exact hst
    · exact h

end WaitCtx

end TbbVerif.C02
