/-
C02 / arena enqueue (`AE`): `mandatory_delta` stays in {-1, 0, 1}.
-/
import TbbVerif.Proofs.C02.AEAcc
set_option linter.unusedSimpArgs false
namespace TbbVerif.C02.AE
open TbbVerif.C02

def BndT (th : Thr) : Prop :=
  ((th.pc = .idle ∨ th.pc = .ePush ∨ th.pc = .eFence ∨ th.pc = .eMand ∨ th.pc = .oMand ∨ th.pc = .tTake) → th.md = 0) ∧ (-1 ≤ th.md ∧ th.md ≤ 1)

/-- `mandatory_delta ∈ {-1, 0, 1}`: a flag operation changes its request counter at most once, when it returns -/
def Bnd (s : St) : Prop := ∀ (i : Nat) (th : Thr), s.thr[i]? = some th → BndT th

theorem bnd_update {s s' : St} (h : Bnd s) {i : Nat} {th th' : Thr} (hth : s.thr[i]? = some th)
    (hthr : s'.thr = s.thr.set i th') (hb : BndT th') : Bnd s' := by
  have hlt := Flag.getElem?_lt' hth
  intro k thk hk
  rw [hthr, List.getElem?_set] at hk
  by_cases e : i = k
  · simp [e] at hk; obtain ⟨_, hk⟩ := hk; subst hk; exact hb
  · simp [e] at hk; exact h k thk hk

theorem bndT_done (th : Thr) : BndT th.done := by simp [BndT, Thr.done]

theorem bndT_request (th0 : Thr) (call : Bool) (wd : Int) (wake : Bool) (hb : -1 ≤ th0.md ∧ th0.md ≤ 1) :
    BndT (th0.request call th0.md wd wake) := by
  rcases request_cases th0 call th0.md wd wake with ⟨_, he⟩ | ⟨_, _, he⟩ | ⟨_, _, he⟩
  · rw [he]; exact bndT_done _
  · rw [he]; simp [BndT]; exact hb
  · rw [he]; simp [BndT]; exact hb

theorem stepT_bnd {s : St} (hS : SInv s) (hB : Bnd s) {i : Nat} {th : Thr} (hth : s.thr[i]? = some th) : Bnd (stepT s i th) := by
  obtain ⟨hb0, hb1⟩ := hB i th hth
  unfold stepT
  cases hpc : th.pc <;> simp only [hpc] at hb0 ⊢
  case idle =>
    cases hops : th.ops with
    | nil => simp only; exact hB
    | cons o rest =>
      simp only
      have hm := hb0 (Or.inl trivial)
      exact bnd_update hB hth rfl ⟨fun _ => hm, hb1⟩
  case ePush =>
    have hm := hb0 (by simp)
    have hreq : (pubStep s.fm i).req = s.fm.req := by
      cases hp : s.fm.pubs[i]? with
      | none => unfold pubStep; rw [hp]
      | some p =>
        obtain ⟨_, _, _, _, _, _, _, _, a9, _⟩ := pubStep_frame s.fm i
        refine a9 p hp (Or.inl ?_)
        cases hin : p.inflight
        · rfl
        · rcases hS.lm i p th hp hth hin with e | e <;> rw [hpc] at e <;> cases e
    refine bnd_update hB hth rfl ⟨fun _ => ?_, ?_⟩
    · show th.md + _ = 0; rw [hreq]; omega
    · show -1 ≤ th.md + _ ∧ th.md + _ ≤ 1; rw [hreq]; omega
  case eFence =>
    have hm := hb0 (by simp)
    have hreq : (pubStep s.fm i).req = s.fm.req := by
      cases hp : s.fm.pubs[i]? with
      | none => unfold pubStep; rw [hp]
      | some p =>
        obtain ⟨_, _, _, _, _, _, _, _, a9, _⟩ := pubStep_frame s.fm i
        rcases hS.lf i p th hp hth hpc with e | e
        · exact a9 p hp (Or.inr (Or.inr e))
        · exact a9 p hp (Or.inr (Or.inl e))
    refine bnd_update hB hth rfl ⟨fun _ => ?_, ?_⟩
    · show th.md + _ = 0; rw [hreq]; omega
    · show -1 ≤ th.md + _ ∧ th.md + _ ≤ 1; rw [hreq]; omega
  case eMand =>
    have hm := hb0 (by simp)
    obtain ⟨_, _, a3, _, _, a6, _⟩ := pubStep_frame s.fm i
    refine bnd_update hB hth rfl ⟨?_, ?_⟩
    · intro hp'
      by_cases hdone : pubLeft (pubStep s.fm i) i < pubLeft s.fm i
      · simp [hdone] at hp'
      · show th.md + _ = 0; rw [a6 hdone]; omega
    · show -1 ≤ th.md + _ ∧ th.md + _ ≤ 1; omega
  case ePool =>
    split
    · exact bnd_update hB hth rfl (bndT_request { th with wv := _, pc := .ePool } _ _ _ hb1)
    · exact bnd_update hB hth rfl ⟨fun e => by simp at e, hb1⟩
  case oMand =>
    have hm := hb0 (by simp)
    obtain ⟨_, _, _, a4, a5⟩ := clStep_frame s.fm i
    refine bnd_update hB hth rfl ⟨?_, ?_⟩
    · intro hp'
      by_cases hdone : clLeft (clStep s.fm i) i < clLeft s.fm i
      · simp [hdone] at hp'
      · show th.md - _ = 0; rw [a5 hdone]; omega
    · show -1 ≤ th.md - _ ∧ th.md - _ ≤ 1; omega
  case oPool =>
    split
    · exact bnd_update hB hth rfl (bndT_request { th with wv := _, pc := .oPool } _ _ _ hb1)
    · exact bnd_update hB hth rfl ⟨fun e => by simp at e, hb1⟩
  case reqProxy =>
    refine bnd_update hB hth rfl ⟨fun e => ?_, hb1⟩
    simp only at e; split at e <;> simp at e
  case reqEnable =>
    repeat' split
    all_goals exact bnd_update hB hth rfl ⟨fun e => by simp at e, hb1⟩
  case reqMarket =>
    refine bnd_update hB hth rfl ?_
    split
    · exact ⟨fun e => by simp at e, hb1⟩
    · exact bndT_done _
  case reqNotify => exact bnd_update hB hth rfl (bndT_done _)
  case tTake =>
    split
    all_goals exact bnd_update hB hth rfl (bndT_done _)

end TbbVerif.C02.AE
