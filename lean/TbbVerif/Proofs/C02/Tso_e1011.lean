/-
C02 / Tso: kernel-checked closure of the reachable set for one drain table (see TsoCore.lean):
prepFence=true unlockDrains=false notifyFence=true chgDrains=true.
-/
import TbbVerif.Proofs.C02.TsoCore

namespace TbbVerif.C02.Tso

theorem closed_e1011 : closed ⟨true, false, true, true⟩ (reachSet ⟨true, false, true, true⟩) = true := by decide +kernel
theorem safe_e1011 : safe (reachSet ⟨true, false, true, true⟩) = true := by decide +kernel

end TbbVerif.C02.Tso
